//go:build verif

package c13_test

// C13 — Slot state machine is deterministic and batch-transparent.
//
// Differential / metamorphic monitor around the real pkg/slot/fsm state machine
// over the real pkg/db/meta store (Pebble on vfs.MemFS through the verif FS
// seam). For every PRNG command log L (see c13_gen_test.go):
//
//	A    one command per ApplyBatch. Commands for which A returns a HARD error
//	     (an error from ApplyBatch, fatal to the slot in multi-raft by design)
//	     are checked for "error => nothing changed" and then LEFT OUT of the
//	     effective log L' that the other variants replay (equivalence is only
//	     promised on hard-error-free logs).
//	B    L' under PRNG batch partitions, fresh DB.
//	X    all 2^(w-1) partitions of a window of w commands, each started from a
//	     Pebble process-kill image (vfs CrashClone) of A taken in front of the
//	     window.
//	C    apply, close the DB, reopen, re-deliver a suffix that overlaps already
//	     applied indices filtered by DurableAppliedIndex (what multi-raft does:
//	     raft.Config.Applied = DurableAppliedIndex), several times per log.
//	D_k  A's Snapshot() at prefix k -> Restore into a fresh DB -> remainder.
//	E    apply to D > k, (close/reopen,) Restore(A's snapshot at k) IN PLACE on the
//	     same DB, then commands k+1..n again unfiltered (multiraft.newSlot after
//	     log compaction); E' = Restore at the current applied index is a no-op.
//	H    [hard-error command, next commands...] as one batch on an image of A:
//	     error, nothing changed, and the following valid batch still applies.
//
// Oracles: per-command result bytes equal A's at the same index; Snapshot()
// hash after every batch equals A's after the same command; final Snapshot()
// bytes, raw export of ALL hash slots and decoded table dump (Inspect API)
// equal A's; applied-index rule (below).
//
// Applied-index rule (derived from ApplyBatch, not an equality): after a batch
// whose last command has index i, DurableAppliedIndex d satisfies d <= i, and
// d == i unless the last command's result is "stale_meta" (a batch whose commit
// is refused as stale is not committed, so the watermark legitimately stays).
//
// The handlers were checked to be wall-clock free (time.Now only feeds a
// metrics observation in ApplyBatch); every timestamp is a logical value inside
// the command, so byte equality is a sound expectation.

import (
	"bytes"
	"crypto/sha256"
	"errors"
	"fmt"
	"hash/fnv"
	"math/rand/v2"
	"sort"
	"strings"
	"sync"
	"testing"
	"time"

	metadb "github.com/WuKongIM/WuKongIM/pkg/db/meta"
	"github.com/WuKongIM/WuKongIM/pkg/slot/fsm"
	"github.com/WuKongIM/WuKongIM/pkg/slot/multiraft"
	"github.com/WuKongIM/WuKongIM/pkg/verifkit"
	"github.com/cockroachdb/pebble/v2/vfs"
)

// c13Run binds the kit's monitor context to one case. Cases of the main unit run
// on several workers while the kit's "current case" is per process, so every
// violation re-announces its own case under a lock before it is recorded.
type c13Run struct {
	*verifkit.Run
	caseIdx int
	desc    string
}

var c13ViolMu sync.Mutex

func (c *c13Run) BeginCase(i int, desc string) {
	c.caseIdx, c.desc = i, desc
	c13ViolMu.Lock()
	c.Run.BeginCase(i, desc)
	c13ViolMu.Unlock()
}

// Violation records one refuting observation. The kit keeps only the first few
// violations of a unit, so (1) a signature is recorded once per run and its
// repetitions are only counted, and (2) divergences inside the log families
// that exist to isolate a command pattern (chmig, gc, subdel, cleanup) are
// reported under ONE signature per family ("batch-divergence:family-<name>",
// the detailed signature moves into the witness). A family with a known defect
// then occupies one slot and cannot crowd out a signature of the core family.
func (c *c13Run) Violation(sig string, witness any) {
	c13ViolMu.Lock()
	defer c13ViolMu.Unlock()
	if j := strings.Index(sig, ":family-"); j >= 0 {
		fam := sig[j+len(":family-"):]
		if k := strings.IndexByte(fam, ':'); k >= 0 {
			fam = fam[:k]
		}
		if fam != "core" {
			witness = map[string]any{"detailed_signature": sig, "case": c.caseIdx, "witness": witness}
			sig = "batch-divergence:family-" + fam
		}
	}
	if c13SeenSig[sig] {
		c.Run.Count("violations_repeated."+sig, 1)
		return
	}
	c13SeenSig[sig] = true
	c.Run.BeginCase(c.caseIdx, c.desc)
	c.Run.Violation(sig, witness)
}

var c13SeenSig = map[string]bool{}

type c13Hard struct {
	Entry c13Entry
	Pos   int        // number of effective entries applied before it
	Image *vfs.MemFS // process-kill image of A right after the refusal
	Err   string
}

type c13Ref struct {
	fam     c13Family
	entries []c13Entry
	results [][]byte
	hash    [][32]byte         // Snapshot() hash after entry i
	dur     []uint64           // A's durable index after entry i
	empty   [32]byte           // Snapshot() hash of the empty DB
	snaps   map[int][]byte     // Snapshot() bytes after entry k-1 (k = prefix length)
	images  map[int]*vfs.MemFS // image of A with exactly k entries applied
	hard    []c13Hard
	final   *c13Dump
	counts  map[string]int
	root    string // router root of A (its crash images are opened under it)
	caseIdx int    // workers run cases concurrently: witnesses carry the case index
}

func c13Sig(s string) string {
	s = strings.ReplaceAll(s, " ", "_")
	if len(s) > 60 {
		s = s[:60]
	}
	return s
}

func c13ErrKind(err error) string {
	switch {
	case err == nil:
		return "nil"
	case errors.Is(err, metadb.ErrInvalidArgument):
		return "invalid_argument"
	case errors.Is(err, metadb.ErrCorruptValue):
		return "corrupt_value"
	case errors.Is(err, metadb.ErrNotFound):
		return "not_found"
	case errors.Is(err, metadb.ErrAlreadyExists):
		return "already_exists"
	case errors.Is(err, metadb.ErrStaleMeta):
		return "stale_meta"
	case errors.Is(err, metadb.ErrChecksumMismatch):
		return "checksum_mismatch"
	}
	return "other"
}

func c13ResultClass(res []byte) string {
	switch string(res) {
	case fsm.ApplyResultOK:
		return "ok"
	case fsm.ApplyResultStaleMeta:
		return "stale_meta"
	case fsm.ApplyResultHashSlotFenced:
		return "hash_slot_fenced"
	}
	if len(res) >= 4 && res[0] == 'W' && res[1] == 'K' {
		return "structured:" + string(res[:4])
	}
	return "other"
}

func c13Clone(fs *vfs.MemFS, rng *rand.Rand) *vfs.MemFS {
	// 100% = process-kill image: everything written so far survives.
	return fs.CrashClone(vfs.CrashCloneCfg{UnsyncedDataPercent: 100, RNG: rand.New(rand.NewPCG(rng.Uint64(), rng.Uint64()))})
}

func c13EntryWitness(en c13Entry) map[string]any {
	return map[string]any{"index": en.Index, "hash_slot": en.Cmd.HashSlot, "type": en.Cmd.Type, "args": en.Cmd.Desc, "flavour": en.Cmd.Flavour, "data_hex": fmt.Sprintf("%x", en.Cmd.Data)}
}

func c13BatchWitness(entries []c13Entry) []any {
	var out []any
	for _, en := range entries {
		out = append(out, map[string]any{"index": en.Index, "hash_slot": en.Cmd.HashSlot, "type": en.Cmd.Type, "args": en.Cmd.Desc})
	}
	return out
}

// c13Apply applies one batch with a panic guard.
func c13Apply(r *c13Run, variant string, env *c13Env, batch []c13Entry) (res [][]byte, err error, panicked bool) {
	start := time.Now()
	panicked = r.Guard("ApplyBatch:"+variant, nil, func() { res, err = env.bsm.ApplyBatch(c13Ctx, c13Commands(batch)) })
	c13Timed("apply", start)
	r.Eval(1)
	r.Count("batches."+variant, 1)
	r.Max("max_batch_len", len(batch))
	return
}

// c13RunReference runs variant A and generates the log.
func c13RunReference(r *c13Run, rng *rand.Rand, fam c13Family, n int, imageAt map[int]bool, snapAt map[int]bool) *c13Ref {
	fsA := vfs.NewCrashableMem()
	a, err := c13NewEnv(fsA, fam)
	if err != nil {
		r.Inconclusive("reference env: " + err.Error())
		return nil
	}
	defer a.close()
	g := newC13Gen(rng, fam, &c13View{env: a})
	ref := &c13Ref{fam: fam, root: a.root, snaps: map[int][]byte{}, images: map[int]*vfs.MemFS{}, counts: g.counts}
	if ref.empty, err = a.snapHash(); err != nil {
		r.Violation("snapshot-error:A", err.Error())
		return nil
	}
	if imageAt[0] {
		ref.images[0] = c13Clone(fsA, rng)
	}
	prevHash, prevDur := ref.empty, uint64(0)
	var index, term uint64 = 0, 1
	for attempts := 0; len(ref.entries) < n && attempts < 4*n+20; attempts++ {
		index++
		if rng.IntN(6) == 0 {
			index += uint64(rng.IntN(3)) // conf changes / empty entries leave gaps
		}
		if rng.IntN(25) == 0 {
			term++
		}
		en := c13Entry{Index: index, Term: term, Cmd: g.next(index)}
		res, aerr, panicked := c13Apply(r, "A", a, []c13Entry{en})
		if panicked {
			return nil
		}
		h, herr := a.snapHash()
		d, derr := a.durable()
		if herr != nil || derr != nil {
			r.Violation("snapshot-error:A", fmt.Sprint(herr, derr))
			return nil
		}
		if aerr != nil {
			// HARD error: refused; nothing may have changed.
			r.Count("hard_errors."+en.Cmd.Type, 1)
			if h != prevHash || d != prevDur {
				r.Violation("hard-error-changed-state:"+en.Cmd.Type, map[string]any{"cmd": c13EntryWitness(en), "err": aerr.Error(), "durable_before": prevDur, "durable_after": d, "snapshot_changed": h != prevHash})
				return nil
			}
			if len(ref.hard) < 2 {
				ref.hard = append(ref.hard, c13Hard{Entry: en, Pos: len(ref.entries), Image: c13Clone(fsA, rng), Err: aerr.Error()})
			}
			continue
		}
		if len(res) != 1 {
			r.Violation("result-count:A", len(res))
			return nil
		}
		// applied-index rule
		if !(d == en.Index || (string(res[0]) == fsm.ApplyResultStaleMeta && d == prevDur)) {
			r.Violation("applied-index-rule:A:"+en.Cmd.Type, map[string]any{"cmd": c13EntryWitness(en), "result": c13ResultClass(res[0]), "durable_before": prevDur, "durable_after": d})
		}
		ref.entries = append(ref.entries, en)
		ref.results = append(ref.results, append([]byte(nil), res[0]...))
		ref.hash = append(ref.hash, h)
		ref.dur = append(ref.dur, d)
		prevHash, prevDur = h, d
		k := len(ref.entries)
		r.Count("cmd."+en.Cmd.Type+"."+c13ResultClass(res[0]), 1)
		if en.Cmd.Flavour != "" {
			r.Count("flavour."+en.Cmd.Flavour, 1)
		}
		if snapAt[k] {
			b, serr := a.snapshot()
			if serr != nil {
				r.Violation("snapshot-error:A", serr.Error())
				return nil
			}
			ref.snaps[k] = b
		}
		if imageAt[k] {
			ref.images[k] = c13Clone(fsA, rng)
		}
	}
	if len(ref.entries) == 0 {
		return nil
	}
	if ref.final, err = a.dump(); err != nil {
		r.Violation("dump-error:A", err.Error())
		return nil
	}
	return ref
}

func c13Partition(rng *rand.Rand, n int) []int {
	var sizes []int
	style := rng.IntN(4)
	for n > 0 {
		var s int
		switch style {
		case 0:
			s = 1 + rng.IntN(3)
		case 1:
			s = 1 + rng.IntN(10)
		case 2:
			s = []int{1, 1, 2, 3, 5, 8, 13, 30}[rng.IntN(8)]
		default:
			s = 1 + rng.IntN(n)
		}
		if s > n {
			s = n
		}
		sizes = append(sizes, s)
		n -= s
	}
	return sizes
}

func c13Shape(sizes []int) string {
	var sb strings.Builder
	for i, s := range sizes {
		if i > 0 {
			sb.WriteByte(',')
		}
		fmt.Fprintf(&sb, "%d", s)
		if sb.Len() > 48 {
			sb.WriteString("..")
			break
		}
	}
	return sb.String()
}

// c13CheckBatch applies ref.entries[lo:hi] (already filtered by the caller when
// replaying) and compares against the reference. It returns false if the
// variant cannot continue, and whether the batch was "interesting" (a command
// with a non-ok outcome preceded by another command on the same hash slot in
// the same batch).
func c13CheckBatch(r *c13Run, variant string, ref *c13Ref, env *c13Env, lo, hi int) (ok bool, interesting bool) {
	batch := ref.entries[lo:hi]
	if variant[0] == 'B' || variant[0] == 'X' {
		c13CountDependentPairs(r, batch)
	}
	res, err, panicked := c13Apply(r, variant, env, batch)
	if panicked {
		return false, false
	}
	if err != nil {
		// no command of L' hard-errors one by one, so a hard error under another
		// grouping is a grouping-dependent (and slot-fatal) outcome.
		r.Violation("hard-error-only-when-batched:"+variant+":"+c13ErrKind(err), map[string]any{"case": ref.caseIdx, "err": err.Error(), "batch": c13BatchWitness(batch), "lo": lo, "hi": hi})
		return false, false
	}
	if len(res) != len(batch) {
		r.Violation("result-count:"+variant, map[string]any{"want": len(batch), "got": len(res)})
		return false, false
	}
	seenHS := map[uint16]bool{}
	for k := range batch {
		i := lo + k
		if !bytes.Equal(res[k], ref.results[i]) {
			r.Violation("result-differs-from-one-by-one:"+variant+":"+batch[k].Cmd.Type, map[string]any{"case": ref.caseIdx, "entry": i, "cmd": c13EntryWitness(batch[k]), "one_by_one": fmt.Sprintf("%q", ref.results[i]), "batched": fmt.Sprintf("%q", res[k]), "batch": c13BatchWitness(batch)})
			return false, false
		}
		if c13ResultClass(res[k]) != "ok" && seenHS[batch[k].Cmd.HashSlot] {
			interesting = true
		}
		seenHS[batch[k].Cmd.HashSlot] = true
	}
	h, herr := env.snapHash()
	d, derr := env.durable()
	if herr != nil || derr != nil {
		r.Violation("snapshot-error:"+variant, fmt.Sprint(herr, derr))
		return false, false
	}
	if h != ref.hash[hi-1] {
		types := map[string]bool{}
		for _, en := range batch {
			types[en.Cmd.Type] = true
		}
		var ts []string
		for t := range types {
			ts = append(ts, t)
		}
		sort.Strings(ts)
		r.Violation("state-differs-from-one-by-one:"+variant, map[string]any{"case": ref.caseIdx, "after_entry": hi - 1, "command_types_in_batch": ts, "batch": c13BatchWitness(batch), "lo": lo, "hi": hi})
		return false, false
	}
	last := batch[len(batch)-1]
	if d > last.Index || (d != last.Index && string(res[len(res)-1]) != fsm.ApplyResultStaleMeta) {
		r.Violation("applied-index-rule:"+variant+":"+last.Cmd.Type, map[string]any{"case": ref.caseIdx, "durable": d, "last": c13EntryWitness(last), "last_result": c13ResultClass(res[len(res)-1]), "batch": c13BatchWitness(batch)})
		return false, false
	}
	return true, interesting
}

var (
	c13PairMu    sync.Mutex
	c13PairsIn   = map[string]int{}
	c13TypesSeen = map[string]bool{}
)

// c13CountDependentPairs records, for evidence only, how often a command shares
// its batch with an earlier command on the same entity (same channel, same uid
// rows, or a hash-slot migration maintenance command of its hash slot).
func c13CountDependentPairs(r *c13Run, batch []c13Entry) {
	share := func(a, b c13Cmd) bool {
		for _, x := range a.Ents {
			if strings.HasPrefix(x, "hsmig:") && a.HashSlot == b.HashSlot {
				return true
			}
			for _, y := range b.Ents {
				if x == y || (strings.HasPrefix(x, "chan:") && strings.HasPrefix(y, "chanid:") && strings.Contains(x, "/"+y[len("chanid:"):]+"/")) {
					return true
				}
			}
		}
		return false
	}
	c13PairMu.Lock()
	defer c13PairMu.Unlock()
	for j := range batch {
		c13TypesSeen[batch[j].Cmd.Type] = true
		for i := 0; i < j; i++ {
			if share(batch[i].Cmd, batch[j].Cmd) || share(batch[j].Cmd, batch[i].Cmd) {
				c13PairsIn[batch[j].Cmd.Type]++
				r.Count("dependent_pair_in_one_batch."+batch[j].Cmd.Type, 1)
				break
			}
		}
	}
}

func c13CompareFinal(r *c13Run, variant string, ref *c13Ref, env *c13Env) {
	d, err := env.dump()
	if err != nil {
		r.Violation("dump-error:"+variant, err.Error())
		return
	}
	r.Count("final_dumps_compared", 1)
	r.Max("max_rows_in_dump", d.Rows)
	if where, detail := c13DiffDump(ref.final, d); where != "" {
		detail["case"] = ref.caseIdx
		r.Violation("final-dump-differs:"+variant+":"+where, detail)
	}
}

func c13LogFingerprint(ref *c13Ref) string {
	ms := map[string]int{}
	for i, en := range ref.entries {
		ms[en.Cmd.Type+"/"+c13ResultClass(ref.results[i])]++
	}
	keys := make([]string, 0, len(ms))
	for k, v := range ms {
		keys = append(keys, fmt.Sprintf("%s=%d", k, v))
	}
	sort.Strings(keys)
	h := fnv.New64a()
	h.Write([]byte(strings.Join(keys, ";")))
	return fmt.Sprintf("%016x", h.Sum64())
}

func c13FamilyFor(i int, rng *rand.Rand) (c13Family, string) {
	fam := c13Family{Outgoing: rng.IntN(2) == 0}
	name := "core"
	switch i % 8 {
	case 3, 4:
		fam.ChMig, name = true, "chmig"
	case 5:
		fam.ChMig, fam.GC, name = true, true, "gc"
	case 6:
		fam.SubAfterDelete, name = true, "subdel"
	case 7:
		fam.Cleanup, name = true, "cleanup"
	}
	return fam, name
}

func TestVerifC13(t *testing.T) {
	r := verifkit.Start(t, "C13", "main")
	defer r.Finish()
	r.SetRule("Each case = one PRNG slot-FSM command log (20..200 effective commands over 3 uids / 5 channels / 4 owned hash slots, every exported Encode*Command family; guards built from the observed committed state then perturbed; stale, conflicting, duplicate and re-delivered commands; index gaps) run as A (one by one), B (PRNG partitions), X (all partitions of a window on a process-kill image of A), C (close/reopen + overlapping re-delivery filtered by DurableAppliedIndex), D (snapshot at prefix k, Restore into a fresh DB, remainder), E (apply past k, optionally reopen, Restore the prefix-k snapshot in place, suffix again unfiltered; then Restore at the current index as a no-op), H (hard-error command heading a batch). An evaluation is one ApplyBatch call with its checks. Non-trivial = (log, partition) with a batch where a command with a non-ok outcome (stale_meta, hash_slot_fenced, structured result) follows another command on the same hash slot inside the same batch; distinct by (command-type/outcome multiset of the log, partition shape). Families (the family name is part of every violation signature): core = all command families except the ones below; chmig = core + channel-migration task workflow commands; gc = chmig + terminal-task GC; subdel = core + subscriber mutations after a DeleteChannel of the same channel; cleanup = core + cleanup_migration_outbox commands that delete the hash-slot migration state.")
	r.Assume("Hash slot " + fmt.Sprint(c13IncomingHS) + " is registered as incoming-delta (UpdateIncomingDeltaHashSlots) and, in half of the logs, hash slot " + fmt.Sprint(c13OutgoingHS) + " has an outgoing delta target (UpdateOutgoingDeltaTargets); the same routing facts are given to every variant. ApplyDelta only targets owned or incoming hash slots.")
	r.Assume("Commands whose one-by-one application returns an error from ApplyBatch (fatal to the slot in multi-raft) are outside the equivalence claim; they are only checked for 'error => nothing changed'.")

	nCases := r.N(104, 420)
	winMax := r.N(5, 8)
	// Cases are independent (own PRNG stream, own in-memory file systems); most
	// of an ApplyBatch is spent waiting for the meta commit coordinator's flush
	// window, so a few workers run cases concurrently. The case index is part of
	// every witness because the kit's "current case" is per process.
	workers := r.N(4, 6)
	next := make(chan int)
	var wg sync.WaitGroup
	for wk := 0; wk < workers; wk++ {
		wg.Add(1)
		go func() {
			defer wg.Done()
			for i := range next {
				c13RunCase(&c13Run{Run: r, caseIdx: i}, i, winMax)
			}
		}()
	}
	for i := 0; i < nCases; i++ {
		if r.Skip(i) {
			continue
		}
		if r.NumViolations() > 30 {
			r.Note("stopped_early", "more than 30 violations recorded")
			break
		}
		next <- i
	}
	close(next)
	wg.Wait()
	_ = sha256.Size
	zero := []string{}
	c13PairMu.Lock()
	for typ := range c13TypesSeen {
		if c13PairsIn[typ] == 0 {
			zero = append(zero, typ)
		}
	}
	c13PairMu.Unlock()
	sort.Strings(zero)
	r.Note("command_types_without_dependent_pair_in_one_batch", zero)
	c13TimingMu.Lock()
	r.Note("cost_accounting_wallclock", c13Timing)
	c13TimingMu.Unlock()
}

func c13RunCase(r *c13Run, i int, winMax int) {
	{
		rng := r.Rand(13, uint64(i))
		fam, famName := c13FamilyFor(i, rng)
		n := 20 + rng.IntN(r.N(121, 181))
		r.BeginCase(i, fmt.Sprintf("family=%s n=%d outgoing=%v", famName, n, fam.Outgoing))
		r.Count("logs."+famName, 1)

		w := winMax
		if w > n {
			w = n
		}
		winStart := rng.IntN(n - w + 1)
		nD := 2
		snapAt := map[int]bool{}
		var ks []int
		for len(ks) < nD {
			k := 1 + rng.IntN(n-1)
			if !snapAt[k] {
				snapAt[k] = true
				ks = append(ks, k)
			}
		}
		imageAt := map[int]bool{winStart: true}
		ref := c13RunReference(r, rng, fam, n, imageAt, snapAt)
		if ref == nil || len(ref.entries) < n {
			if ref != nil {
				r.Count("logs_short", 1)
			}
			if ref == nil || len(ref.entries) < w+2 {
				return
			}
			n = len(ref.entries)
		}
		ref.caseIdx = i
		suffix := ":family-" + famName
		before := r.NumViolations()
		logFP := c13LogFingerprint(ref)
		note := func(interesting bool, shape string) {
			if interesting {
				r.Nontrivial(logFP + "|" + shape)
			}
		}
		r.Max("max_log_len", n)

		// ---- B: PRNG partitions ------------------------------------------------
		for v := 0; v < 3; v++ {
			env, err := c13NewEnv(vfs.NewMem(), fam)
			if err != nil {
				r.Inconclusive("B env: " + err.Error())
				break
			}
			sizes := c13Partition(rng, n)
			lo, ok, hot := 0, true, false
			for _, s := range sizes {
				var in bool
				if ok, in = c13CheckBatch(r, "B"+suffix, ref, env, lo, lo+s); !ok {
					break
				}
				hot = hot || in
				lo += s
			}
			if ok {
				c13CompareFinal(r, "B"+suffix, ref, env)
			}
			env.close()
			r.Count("partitions.prng", 1)
			note(hot, c13Shape(sizes))
		}

		// ---- X: every partition of a window, from a kill image of A ------------
		if img := ref.images[winStart]; img != nil && winStart+w <= n {
			for mask := 0; mask < 1<<(w-1); mask++ {
				env, err := c13NewEnvAt(c13Clone(img, rng), ref.root, fam)
				if err != nil {
					r.Violation("open-of-kill-image-fails:X", err.Error())
					break
				}
				var sizes []int
				lo, cur, ok, hot := winStart, 1, true, false
				flush := func() {
					var in bool
					ok, in = c13CheckBatch(r, "X"+suffix, ref, env, lo, lo+cur)
					hot = hot || in
					sizes = append(sizes, cur)
					lo += cur
					cur = 1
				}
				for b := 0; b < w-1 && ok; b++ {
					if mask&(1<<b) != 0 {
						flush()
					} else {
						cur++
					}
				}
				if ok {
					flush()
				}
				env.close()
				r.Count("partitions.exhaustive", 1)
				note(hot, fmt.Sprintf("@%d:", winStart)+c13Shape(sizes))
			}
		}

		// ---- C: close / reopen / overlapping re-delivery ------------------------
		{
			env, err := c13NewEnv(vfs.NewMem(), fam)
			if err != nil {
				r.Inconclusive("C env: " + err.Error())
			} else {
				pos, ok, hot := 0, true, false
				var shape []int
				for ok && pos < n {
					stretch := 1 + rng.IntN(n-pos)
					if rng.IntN(2) == 0 && stretch > 12 {
						stretch = 1 + rng.IntN(12)
					}
					end := pos + stretch
					for ok && pos < end {
						s := 1 + rng.IntN(6)
						if pos+s > end {
							s = end - pos
						}
						var in bool
						ok, in = c13CheckBatch(r, "C"+suffix, ref, env, pos, pos+s)
						hot = hot || in
						shape = append(shape, s)
						pos += s
					}
					if !ok {
						break
					}
					dBefore, _ := env.durable()
					if err := env.reopen(); err != nil {
						r.Violation("reopen-fails:C", err.Error())
						ok = false
						break
					}
					r.Count("reopens", 1)
					h, herr := env.snapHash()
					d, derr := env.durable()
					if herr != nil || derr != nil {
						r.Violation("snapshot-error:C", fmt.Sprint(herr, derr))
						ok = false
						break
					}
					if h != ref.hash[pos-1] || d != dBefore {
						r.Violation("state-changed-across-reopen"+suffix, map[string]any{"after_entry": pos - 1, "durable_before": dBefore, "durable_after": d, "snapshot_changed": h != ref.hash[pos-1]})
						ok = false
						break
					}
					// Raft re-delivers from an earlier point; the runtime skips what the
					// state machine reports as durably applied.
					from := pos - rng.IntN(pos+1)
					if rng.IntN(2) == 0 && pos > 5 {
						from = pos - rng.IntN(5)
					}
					redelivered, skipped := 0, 0
					q := from
					for q < pos {
						if ref.entries[q].Index <= d {
							skipped++
							q++
							continue
						}
						// trailing commands whose batch was refused as stale: re-applied
						hi := q + 1
						for hi < pos && rng.IntN(2) == 0 {
							hi++
						}
						var in bool
						ok, in = c13CheckBatch(r, "C"+suffix, ref, env, q, hi)
						hot = hot || in
						redelivered += hi - q
						shape = append(shape, -(hi - q))
						q = hi
						if !ok {
							break
						}
					}
					r.Count("redelivery.skipped_by_durable_index", skipped)
					r.Count("redelivery.reapplied_after_stale_tail", redelivered)
				}
				if ok {
					c13CompareFinal(r, "C"+suffix, ref, env)
				}
				env.close()
				note(hot, "reopen:"+c13Shape(shape))
			}
		}

		// ---- D_k: snapshot at prefix k -> Restore -> remainder -------------------
		for _, k := range ks {
			data, have := ref.snaps[k]
			if !have || k >= n {
				continue
			}
			env, err := c13NewEnv(vfs.NewMem(), fam)
			if err != nil {
				r.Inconclusive("D env: " + err.Error())
				break
			}
			at := ref.entries[k-1]
			var rerr error
			if r.Guard("Restore", k, func() {
				rerr = env.sm.Restore(c13Ctx, multiraft.Snapshot{Index: at.Index, Term: at.Term, Data: append([]byte(nil), data...)})
			}) {
				env.close()
				continue
			}
			r.Eval(1)
			r.Count("restores", 1)
			ok := true
			if rerr != nil {
				r.Violation("restore-fails"+suffix, map[string]any{"k": k, "err": rerr.Error()})
				ok = false
			} else {
				h, _ := env.snapHash()
				d, _ := env.durable()
				if h != ref.hash[k-1] || d != at.Index {
					r.Violation("restored-state-differs"+suffix, map[string]any{"k": k, "durable": d, "want_durable": at.Index, "snapshot_differs": h != ref.hash[k-1]})
					ok = false
				}
			}
			hot := false
			var sizes []int
			if ok {
				sizes = c13Partition(rng, n-k)
				lo := k
				for _, s := range sizes {
					var in bool
					if ok, in = c13CheckBatch(r, "D"+suffix, ref, env, lo, lo+s); !ok {
						break
					}
					hot = hot || in
					lo += s
				}
			}
			if ok {
				c13CompareFinal(r, "D"+suffix, ref, env)
			}
			env.close()
			note(hot, fmt.Sprintf("restore@%d:", k)+c13Shape(sizes))
		}

		// ---- E: Restore IN PLACE over newer state, then the suffix again ---------
		// What multiraft.newSlot does after a restart that follows log compaction:
		// with a raft snapshot at index S it starts raft at Applied=S (the state
		// machine's DurableAppliedIndex is NOT consulted in that branch), calls
		// Restore(snapshot S) on the state machine whose DB already holds the
		// effects of entries up to D >= S, and raft then re-delivers S+1.. without
		// any filter. Restore must therefore rewind the metadata (and the applied
		// watermark, markApplied refuses a watermark above the slot's) to S.
		for ei, k := range ks {
			data, have := ref.snaps[k]
			if !have || k >= n {
				continue
			}
			env, err := c13NewEnv(vfs.NewMem(), fam)
			if err != nil {
				r.Inconclusive("E env: " + err.Error())
				break
			}
			dpos := k + 1 + rng.IntN(n-k) // entries [0,dpos) applied before the restart, dpos > k
			ok, hot := true, false
			lo := 0
			var shape []int
			for _, s := range c13Partition(rng, dpos) {
				var in bool
				if ok, in = c13CheckBatch(r, "E"+suffix, ref, env, lo, lo+s); !ok {
					break
				}
				hot = hot || in
				shape = append(shape, s)
				lo += s
			}
			reopened := ei%2 == 1
			if ok && reopened {
				if err := env.reopen(); err != nil {
					r.Violation("reopen-fails:E", err.Error())
					ok = false
				}
			}
			if ok {
				at := ref.entries[k-1]
				var rerr error
				if r.Guard("Restore-in-place", k, func() {
					rerr = env.sm.Restore(c13Ctx, multiraft.Snapshot{Index: at.Index, Term: at.Term, Data: append([]byte(nil), data...)})
				}) {
					ok = false
				} else {
					r.Eval(1)
					if reopened {
						r.Count("restores_in_place.after_reopen", 1)
					} else {
						r.Count("restores_in_place.same_process", 1)
					}
					r.Max("restores_in_place.max_entries_rewound", dpos-k)
					h, _ := env.snapHash()
					d, _ := env.durable()
					switch {
					case rerr != nil:
						r.Violation("restore-in-place-fails"+suffix, map[string]any{"case": i, "k": k, "applied_before": dpos, "err": rerr.Error()})
						ok = false
					case h != ref.hash[k-1] || d != at.Index:
						r.Violation("restore-in-place-does-not-rewind"+suffix, map[string]any{"case": i, "k": k, "entries_applied_before_restore": dpos, "reopened": reopened, "durable_after_restore": d, "snapshot_index": at.Index, "state_equals_snapshot": h == ref.hash[k-1], "state_equals_pre_restore_state": h == ref.hash[dpos-1]})
						ok = false
					}
				}
			}
			if ok {
				// the suffix again, unfiltered, in another grouping
				lo = k
				for _, s := range c13Partition(rng, n-k) {
					var in bool
					if ok, in = c13CheckBatch(r, "E"+suffix, ref, env, lo, lo+s); !ok {
						break
					}
					hot = hot || in
					shape = append(shape, -s)
					lo += s
				}
			}
			if ok {
				c13CompareFinal(r, "E"+suffix, ref, env)
				// E': Restore of a snapshot whose index equals the current applied
				// index must be a no-op in effect.
				cur, serr := env.snapshot()
				d0, _ := env.durable()
				if serr == nil && d0 != 0 {
					var rerr error
					if !r.Guard("Restore-same-index", d0, func() {
						rerr = env.sm.Restore(c13Ctx, multiraft.Snapshot{Index: d0, Term: ref.entries[n-1].Term, Data: append([]byte(nil), cur...)})
					}) {
						r.Eval(1)
						r.Count("restores_same_index", 1)
						after, _ := env.snapshot()
						d1, _ := env.durable()
						if rerr != nil || !bytes.Equal(after, cur) || d1 != d0 {
							r.Violation("restore-at-current-index-not-a-noop"+suffix, map[string]any{"case": i, "err": fmt.Sprint(rerr), "durable_before": d0, "durable_after": d1, "bytes_equal": bytes.Equal(after, cur)})
						} else {
							c13CompareFinal(r, "E'"+suffix, ref, env)
						}
					}
				}
			}
			env.close()
			note(hot, fmt.Sprintf("restore-in-place@%d<%d:", k, dpos)+c13Shape(shape))
		}

		// ---- H: hard-error command heading a batch --------------------------------
		for _, hd := range ref.hard {
			if hd.Pos >= n {
				continue
			}
			env, err := c13NewEnvAt(hd.Image, ref.root, fam)
			if err != nil {
				r.Violation("open-of-kill-image-fails:H", err.Error())
				continue
			}
			hi := hd.Pos + 1 + rng.IntN(3)
			if hi > n {
				hi = n
			}
			batch := append([]c13Entry{hd.Entry}, ref.entries[hd.Pos:hi]...)
			h0, _ := env.snapHash()
			d0, _ := env.durable()
			_, aerr, panicked := c13Apply(r, "H", env, batch)
			if !panicked {
				h1, _ := env.snapHash()
				d1, _ := env.durable()
				wantHash := ref.empty
				if hd.Pos > 0 {
					wantHash = ref.hash[hd.Pos-1]
				}
				switch {
				case aerr == nil:
					r.Violation("hard-error-command-accepted-when-batched"+suffix+":"+hd.Entry.Cmd.Type, map[string]any{"batch": c13BatchWitness(batch), "alone_err": hd.Err})
				case h0 != wantHash:
					r.Violation("kill-image-state-differs:H", hd.Pos)
				case h1 != h0 || d1 != d0:
					r.Violation("refused-batch-changed-state"+suffix+":"+hd.Entry.Cmd.Type, map[string]any{"batch": c13BatchWitness(batch), "err": aerr.Error(), "durable_before": d0, "durable_after": d1, "snapshot_changed": h1 != h0})
				default:
					r.Count("hard_error_heading_batch_refused", 1)
					// the next valid batch still applies
					c13CheckBatch(r, "H"+suffix, ref, env, hd.Pos, hi)
				}
			}
			env.close()
		}

		if r.WantSample() && r.NumViolations() == before {
			var first []string
			for k := 0; k < 8 && k < n; k++ {
				first = append(first, fmt.Sprintf("#%d hs=%d %s [%s] -> %s", ref.entries[k].Index, ref.entries[k].Cmd.HashSlot, ref.entries[k].Cmd.Type, ref.entries[k].Cmd.Desc, c13ResultClass(ref.results[k])))
			}
			r.Sample(map[string]any{"case": i, "family": famName, "effective_log_len": n, "hard_errors_dropped": len(ref.hard), "rows_in_final_dump": ref.final.Rows, "snapshot_bytes": len(ref.final.Snap), "first_commands": first})
		}
		for k, v := range ref.counts {
			r.Count("gen."+k, v)
		}
	}
}
