//go:build verif

package raftlog_test

import (
	"context"
	"errors"
	"fmt"
	"math"
	"math/rand/v2"
	"os"
	"path/filepath"
	"strings"
	"sync"
	"sync/atomic"
	"time"

	"github.com/WuKongIM/WuKongIM/pkg/raftlog"
	"github.com/WuKongIM/WuKongIM/pkg/slot/multiraft"
	"github.com/WuKongIM/WuKongIM/pkg/verifkit"
	"github.com/cockroachdb/pebble/v2/vfs"
	raft "go.etcd.io/raft/v3"
	"go.etcd.io/raft/v3/raftpb"
)

var c14Ctx = context.Background()

// c14OpenMu serialises raftlog.Open calls that need the process-global
// SetVerifFS provider.
var c14OpenMu sync.Mutex

// ---------------------------------------------------------------------------
// scopes

type c14ScopeSpec struct {
	Controller bool
	Slot       uint64
}

func (s c14ScopeSpec) String() string {
	if s.Controller {
		return "controller"
	}
	return fmt.Sprintf("slot/%d", s.Slot)
}

func (s c14ScopeSpec) store(db *raftlog.DB) multiraft.Storage {
	if s.Controller {
		return db.ForController()
	}
	return db.ForSlot(s.Slot)
}

// c14PickScopes returns n distinct scopes; ids are chosen so that key prefixes
// are adjacent (1/2, 255/256, 2^32-1/2^32) or extreme.
func c14PickScopes(rng *rand.Rand, n int) []c14ScopeSpec {
	pool := []c14ScopeSpec{{Controller: true}, {Slot: 1}, {Slot: 2}, {Slot: 0}, {Slot: 255}, {Slot: 256}, {Slot: 1<<32 - 1}, {Slot: 1 << 32}, {Slot: math.MaxUint64}, {Slot: math.MaxUint64 - 1}}
	rng.Shuffle(len(pool), func(i, j int) { pool[i], pool[j] = pool[j], pool[i] })
	if rng.IntN(2) == 0 {
		// bias to adjacent low ids + controller (controller scope id is 1 too)
		pool = append([]c14ScopeSpec{{Slot: 1}, {Controller: true}, {Slot: 2}}, pool...)
		seen := map[c14ScopeSpec]bool{}
		var uniq []c14ScopeSpec
		for _, p := range pool {
			if !seen[p] {
				seen[p] = true
				uniq = append(uniq, p)
			}
		}
		pool = uniq
	}
	return pool[:n]
}

// ---------------------------------------------------------------------------
// reading the real store

func c14Observe(st multiraft.Storage, withTerms bool) (c14State, error) {
	var o c14State
	bs, err := st.InitialState(c14Ctx)
	if err != nil {
		return o, fmt.Errorf("InitialState: %w", err)
	}
	o.HS, o.Conf, o.Applied, o.CfgApplied = bs.HardState, bs.ConfState, bs.AppliedIndex, bs.ConfigAppliedIndex
	if o.First, err = st.FirstIndex(c14Ctx); err != nil {
		return o, fmt.Errorf("FirstIndex: %w", err)
	}
	if o.Last, err = st.LastIndex(c14Ctx); err != nil {
		return o, fmt.Errorf("LastIndex: %w", err)
	}
	snap, err := st.Snapshot(c14Ctx)
	if err != nil {
		return o, fmt.Errorf("Snapshot: %w", err)
	}
	o.SnapIdx, o.SnapTerm, o.SnapConf, o.SnapData = snap.Metadata.Index, snap.Metadata.Term, snap.Metadata.ConfState, snap.Data
	if o.Last >= o.First && o.Last-o.First < 1<<20 {
		// same call multiraft's storage adapter makes on load (maxSize 0 = no limit)
		if o.Ents, err = st.Entries(c14Ctx, o.First, o.Last+1, 0); err != nil {
			return o, fmt.Errorf("Entries(%d,%d,0): %w", o.First, o.Last+1, err)
		}
	}
	if withTerms && o.Last >= o.SnapIdx && o.Last-o.SnapIdx < 1<<20 {
		o.Terms = make([]uint64, 0, o.Last-o.SnapIdx+1)
		for i := o.SnapIdx; i <= o.Last; i++ {
			t, err := st.Term(c14Ctx, i)
			if err != nil {
				return o, fmt.Errorf("Term(%d): %w", i, err)
			}
			o.Terms = append(o.Terms, t)
			if i == math.MaxUint64 {
				break
			}
		}
	}
	return o, nil
}

// c14Probe compares window reads with the reference MemoryStorage. It returns
// (signature, detail) of the first mismatch or "".
//
// Interpretations (see pkg/raftlog/memory.go, which implements the same
// contract, and multiraft.storageAdapter.load, the only production reader):
//   - maxSize 0 means "no limit" for multiraft.Storage.Entries, whereas
//     MemoryStorage returns one entry; the reference is asked with MaxUint64.
//   - for a window the reference refuses (ErrCompacted / ErrUnavailable /
//     hi beyond last+1, where MemoryStorage panics) the durable log may return
//     an error or the held part of the window; what is asserted is the
//     statement's own clause: no entry below the compaction point, none beyond
//     the last index, every returned entry inside [lo,hi) and equal to the
//     reference entry of that index, ascending and gap-free.
//   - Term for an index that is not held may return an error or the zero term
//     (terms of real entries are >= 1); it must not return a non-zero term.
//   - hi == 0 is never probed: the store treats a zero bound as "unbounded".
func c14Probe(r *verifkit.Run, rng *rand.Rand, st multiraft.Storage, ms *raft.MemoryStorage, n int) (string, string) {
	first, _ := ms.FirstIndex()
	last, _ := ms.LastIndex()
	snapIdx := first - 1
	pickIdx := func() uint64 {
		switch rng.IntN(10) {
		case 0:
			return 0
		case 1:
			return math.MaxUint64 - uint64(rng.IntN(2))
		case 2:
			return last + 1 + uint64(rng.IntN(5))
		case 3:
			if snapIdx > 0 {
				return uint64(rng.Int64N(int64(snapIdx))) + 0
			}
			return 0
		case 4:
			return snapIdx
		default:
			if last >= first {
				return first + uint64(rng.Int64N(int64(last-first+1)))
			}
			return first
		}
	}
	for q := 0; q < n; q++ {
		r.Eval(1)
		if rng.IntN(3) == 0 {
			i := pickIdx()
			// MemoryStorage.Term overflows int for indices near MaxUint64;
			// classify those without calling it.
			var want uint64
			var rerr error
			if i > last {
				rerr = raft.ErrUnavailable
			} else {
				want, rerr = ms.Term(i)
			}
			got, err := st.Term(c14Ctx, i)
			if rerr == nil {
				r.Count("probe.term.held", 1)
				if err != nil {
					return "Term:error-on-held-index", fmt.Sprintf("Term(%d) err=%v, reference %d (snap %d last %d)", i, err, want, snapIdx, last)
				}
				if got != want {
					return "Term:wrong-term", fmt.Sprintf("Term(%d)=%d, reference %d (snap %d last %d)", i, got, want, snapIdx, last)
				}
				continue
			}
			cls := "compacted"
			if errors.Is(rerr, raft.ErrUnavailable) {
				cls = "unavailable"
			}
			if err != nil {
				r.Count("probe.term."+cls+".error", 1)
				continue
			}
			if got != 0 {
				return "Term:term-for-index-not-held:" + cls, fmt.Sprintf("Term(%d)=%d but the reference holds only [%d..%d]", i, got, snapIdx, last)
			}
			r.Count("probe.term."+cls+".zero", 1)
			continue
		}
		lo, hi := pickIdx(), pickIdx()
		if lo > hi {
			lo, hi = hi, lo
		}
		if hi == 0 {
			continue
		}
		var maxSize uint64
		switch rng.IntN(4) {
		case 0:
			maxSize = 0
		case 1:
			maxSize = 1
		case 2:
			maxSize = uint64(1 + rng.IntN(2000))
		default:
			maxSize = math.MaxUint64
		}
		refMax := maxSize
		if refMax == 0 {
			refMax = math.MaxUint64
		}
		got, err := st.Entries(c14Ctx, lo, hi, maxSize)
		inRange := lo > snapIdx && hi <= last+1
		if inRange {
			want, rerr := ms.Entries(lo, hi, refMax)
			if rerr == nil {
				r.Count("probe.entries.inrange", 1)
				if err != nil {
					return "Entries:error-in-range", fmt.Sprintf("Entries(%d,%d,%d) err=%v; held [%d..%d]", lo, hi, maxSize, err, first, last)
				}
				if len(got) != len(want) {
					return "Entries:wrong-count", fmt.Sprintf("Entries(%d,%d,%d) returned %d entries, reference %d; held [%d..%d]", lo, hi, maxSize, len(got), len(want), first, last)
				}
				for i := range want {
					if !c14EntryEqual(want[i], got[i]) {
						return "Entries:wrong-entry", fmt.Sprintf("Entries(%d,%d,%d)[%d]=%s, reference %s", lo, hi, maxSize, i, c14EntStr(got[i]), c14EntStr(want[i]))
					}
				}
				continue
			}
			// only the dummy entry: ErrUnavailable for the empty window first..first
			if err == nil && len(got) != 0 {
				return "Entries:entries-from-empty-log", fmt.Sprintf("Entries(%d,%d,%d) returned %d entries, reference %v", lo, hi, maxSize, len(got), rerr)
			}
			r.Count("probe.entries.emptylog", 1)
			continue
		}
		cls := "unavailable"
		if lo <= snapIdx {
			cls = "compacted"
		}
		if err != nil {
			r.Count("probe.entries."+cls+".error", 1)
			continue
		}
		r.Count("probe.entries."+cls+".partial", 1)
		for i, e := range got {
			if e.Index < first {
				return "Entries:entry-below-compaction-point", fmt.Sprintf("Entries(%d,%d,%d) returned %s but first index is %d", lo, hi, maxSize, c14EntStr(e), first)
			}
			if e.Index > last {
				return "Entries:entry-beyond-last", fmt.Sprintf("Entries(%d,%d,%d) returned %s but last index is %d", lo, hi, maxSize, c14EntStr(e), last)
			}
			if e.Index < lo || e.Index >= hi {
				return "Entries:entry-outside-window", fmt.Sprintf("Entries(%d,%d,%d) returned %s", lo, hi, maxSize, c14EntStr(e))
			}
			if i > 0 && e.Index != got[i-1].Index+1 {
				return "Entries:gap", fmt.Sprintf("Entries(%d,%d,%d) returned %s after %s", lo, hi, maxSize, c14EntStr(e), c14EntStr(got[i-1]))
			}
			want, rerr := ms.Entries(e.Index, e.Index+1, math.MaxUint64)
			if rerr != nil || len(want) != 1 || !c14EntryEqual(want[0], e) {
				return "Entries:wrong-entry", fmt.Sprintf("Entries(%d,%d,%d) returned %s, reference %v %v", lo, hi, maxSize, c14EntStr(e), want, rerr)
			}
		}
	}
	return "", ""
}

// ---------------------------------------------------------------------------
// executing one op against the real store

func c14Exec(st multiraft.Storage, op *c14Op) error {
	switch {
	case op.PS != nil:
		return st.Save(c14Ctx, *op.PS)
	case op.Replace != nil:
		rs, ok := st.(multiraft.ExternalSnapshotStorage)
		if !ok {
			return errors.New("c14 harness: store does not implement ExternalSnapshotStorage")
		}
		return rs.ReplaceSnapshot(c14Ctx, *op.Replace)
	case op.Kind == "applied":
		return st.MarkApplied(c14Ctx, op.Mark)
	case op.Kind == "cfgapplied":
		cs, ok := st.(multiraft.ConfigAppliedIndexStorage)
		if !ok {
			return errors.New("c14 harness: store does not implement ConfigAppliedIndexStorage")
		}
		return cs.MarkConfigApplied(c14Ctx, op.Mark)
	}
	return errors.New("c14 harness: empty op")
}

// ---------------------------------------------------------------------------
// one scope under test

type c14Scope struct {
	spec c14ScopeSpec
	ref  *c14Ref
	gen  *c14Gen
	rng  *rand.Rand
	log  []string // op descriptors with outcome (witness)

	// crash bookkeeping: states[j] = expected state after j calls of this scope
	// returned. issued/returned are read by the cutter goroutine.
	keepStates bool
	statesMu   sync.Mutex
	states     []c14State
	issued     atomic.Int64
	returned   atomic.Int64

	dead bool // a violation was recorded for this scope; stop driving it
}

func (s *c14Scope) tail(n int) []string {
	if len(s.log) <= n {
		return append([]string(nil), s.log...)
	}
	return append([]string{fmt.Sprintf("... %d earlier calls ...", len(s.log)-n)}, s.log[len(s.log)-n:]...)
}

// prefixTail returns the last n of the first upto calls.
func (s *c14Scope) prefixTail(upto, n int) []string {
	if upto > len(s.log) {
		upto = len(s.log)
	}
	if upto < 0 {
		upto = 0
	}
	p := s.log[:upto]
	if len(p) <= n {
		return append([]string(nil), p...)
	}
	return append([]string{fmt.Sprintf("... %d earlier calls ...", len(p)-n)}, p[len(p)-n:]...)
}

func (s *c14Scope) pushState() {
	if !s.keepStates {
		return
	}
	st := s.ref.state()
	s.statesMu.Lock()
	s.states = append(s.states, st)
	s.statesMu.Unlock()
}

type c14Env struct {
	r      *verifkit.Run
	family string
	// collateral: a failing op of another scope may fail this scope's op in the
	// same group flush (allowed error return); the op is retried.
	collateral bool
	caseNo     int
	caseDesc   string
}

// c14SigSeen limits recorded witnesses to two per signature so that one defect
// cannot push a different one out of the kit's bounded violation list.
var c14SigSeen sync.Map

func c14FirstFew(sig string) bool {
	v, _ := c14SigSeen.LoadOrStore(sig, new(atomic.Int64))
	return v.(*atomic.Int64).Add(1) <= 2
}

func (e *c14Env) violate(s *c14Scope, phase, sig, detail string) {
	s.dead = true
	if !c14FirstFew(e.family + ":" + phase + ":" + sig) {
		e.r.Count("violation.repeat."+e.family+":"+phase+":"+sig, 1)
		return
	}
	e.r.Violation(e.family+":"+phase+":"+sig, map[string]any{
		"case": e.caseNo, "case_cfg": e.caseDesc, "scope": s.spec.String(), "detail": detail, "history_tail": s.tail(30),
	})
}

// check compares every read API of the scope with the reference.
func (e *c14Env) check(s *c14Scope, st multiraft.Storage, phase string, probes int) bool {
	if s.dead {
		return false
	}
	exp := s.ref.state()
	obs, err := c14Observe(st, true)
	e.r.Eval(1)
	if err != nil {
		e.violate(s, phase, "read-error", err.Error())
		return false
	}
	if d := c14Diff(exp, obs); d != "" {
		sig := c14DiffField(d)
		if s.gen.nStale > 0 && (sig == "LastIndex" || sig == "Entries" || sig == "Term") && obs.Last > exp.Last {
			// dedicated signature for the stale-suffix family (kept separate so
			// that it can never mask a different defect)
			sig = "stale-suffix-survives-snapshot-install:" + sig
		}
		e.violate(s, phase, sig, d)
		return false
	}
	if probes > 0 {
		if sig, detail := c14Probe(e.r, s.rng, st, s.ref.ms, probes); sig != "" {
			e.violate(s, phase, sig, detail)
			return false
		}
	}
	return true
}

// step issues the next generated call of the scope and folds the outcome into
// the reference. It returns false when the scope must stop.
func (e *c14Env) step(s *c14Scope, st multiraft.Storage) bool {
	if s.dead {
		return false
	}
	op := s.gen.next()
	for attempt := 0; ; attempt++ {
		s.issued.Add(1)
		var err error
		panicked := e.r.Guard(e.family+":"+op.Kind, op.Desc, func() { err = c14Exec(st, &op) })
		if panicked {
			s.dead = true
			s.pushState()
			s.returned.Add(1)
			return false
		}
		e.r.Eval(1)
		e.r.Count("op."+op.Kind, 1)
		outcome := "ok"
		if err != nil {
			outcome = "err: " + err.Error()
		}
		s.log = append(s.log, op.Desc+" -> "+outcome)
		switch {
		case op.unchanged:
			if err != nil {
				e.r.Count("op."+op.Kind+".rejected", 1)
			} else {
				e.r.Count("op."+op.Kind+".accepted-noop", 1)
			}
		case err == nil:
			op.applyRef(s.ref)
			if op.fault {
				e.r.Count("fault.acknowledged", 1)
			}
		case op.fault:
			e.r.Count("fault.rejected", 1)
		case e.collateral && attempt < 30:
			// another scope's failing op took this group flush down with it:
			// state must be unchanged (checked by the next comparison); retry.
			e.r.Count("collateral.failure", 1)
			s.pushState()
			s.returned.Add(1)
			if !e.check(s, st, "after-collateral-failure", 0) {
				return false
			}
			continue
		case e.collateral:
			e.r.Count("collateral.retry-exhausted", 1)
		default:
			s.pushState()
			s.returned.Add(1)
			e.violate(s, "open", "unexpected-error:"+op.Kind, fmt.Sprintf("%s returned %v", op.Desc, err))
			return false
		}
		s.pushState()
		s.returned.Add(1)
		return true
	}
}

// ---------------------------------------------------------------------------
// crash file system: CrashableMem + a hook before every mutating FS call

type c14CrashFS struct {
	vfs.FS
	hook func(kind string)
}

func (f *c14CrashFS) Unwrap() vfs.FS { return f.FS }

func (f *c14CrashFS) wrap(file vfs.File, err error) (vfs.File, error) {
	if err != nil || file == nil {
		return file, err
	}
	return &c14CrashFile{File: file, fs: f}, nil
}

func (f *c14CrashFS) Create(name string, cat vfs.DiskWriteCategory) (vfs.File, error) {
	f.hook("create")
	return f.wrap(f.FS.Create(name, cat))
}
func (f *c14CrashFS) OpenReadWrite(name string, cat vfs.DiskWriteCategory, opts ...vfs.OpenOption) (vfs.File, error) {
	return f.wrap(f.FS.OpenReadWrite(name, cat, opts...))
}
func (f *c14CrashFS) OpenDir(name string) (vfs.File, error) { return f.wrap(f.FS.OpenDir(name)) }
func (f *c14CrashFS) ReuseForWrite(oldname, newname string, cat vfs.DiskWriteCategory) (vfs.File, error) {
	f.hook("reuse")
	return f.wrap(f.FS.ReuseForWrite(oldname, newname, cat))
}
func (f *c14CrashFS) Rename(oldname, newname string) error {
	f.hook("rename")
	return f.FS.Rename(oldname, newname)
}
func (f *c14CrashFS) Remove(name string) error {
	f.hook("remove")
	return f.FS.Remove(name)
}
func (f *c14CrashFS) Link(oldname, newname string) error {
	f.hook("link")
	return f.FS.Link(oldname, newname)
}

type c14CrashFile struct {
	vfs.File
	fs *c14CrashFS
}

func (f *c14CrashFile) Write(p []byte) (int, error) {
	f.fs.hook("write")
	return f.File.Write(p)
}
func (f *c14CrashFile) WriteAt(p []byte, off int64) (int, error) {
	f.fs.hook("write")
	return f.File.WriteAt(p, off)
}
func (f *c14CrashFile) Sync() error {
	f.fs.hook("sync")
	err := f.File.Sync()
	f.fs.hook("synced")
	return err
}
func (f *c14CrashFile) SyncData() error {
	f.fs.hook("sync")
	err := f.File.SyncData()
	f.fs.hook("synced")
	return err
}
func (f *c14CrashFile) SyncTo(length int64) (bool, error) {
	f.fs.hook("sync")
	full, err := f.File.SyncTo(length)
	f.fs.hook("synced")
	return full, err
}

type c14Cut struct {
	fs     *vfs.MemFS
	pct    int
	event  string
	lo, hi []int64
	// dirs: published snapshot chunk directories (real FS) per scope directory,
	// listed right after the image was taken and before the interrupted FS
	// call is allowed to proceed.
	dirs map[string][]string
}

// c14ListSnapDirs lists <root>/<scope dir>/<snapshot dir> names.
func c14ListSnapDirs(root string) map[string][]string {
	out := map[string][]string{}
	scopes, err := os.ReadDir(root)
	if err != nil {
		return out
	}
	for _, sd := range scopes {
		if !sd.IsDir() {
			continue
		}
		ents, err := os.ReadDir(filepath.Join(root, sd.Name()))
		if err != nil {
			continue
		}
		for _, e := range ents {
			if e.IsDir() && strings.HasPrefix(e.Name(), "snap-") {
				out[sd.Name()] = append(out[sd.Name()], e.Name())
			}
		}
	}
	return out
}

func (s c14ScopeSpec) snapDirName() string {
	if s.Controller {
		return "controller-1"
	}
	return fmt.Sprintf("slot-%d", s.Slot)
}

type c14Cutter struct {
	mem      *vfs.MemFS
	scopes   []*c14Scope
	snapRoot string

	mu      sync.Mutex
	rng     *rand.Rand
	enabled bool
	events  int64
	next    int64
	meanGap int
	max     int
	cuts    []c14Cut
}

func (c *c14Cutter) hook(kind string) {
	c.mu.Lock()
	defer c.mu.Unlock()
	if !c.enabled || len(c.cuts) >= c.max {
		return
	}
	c.events++
	if c.events < c.next {
		return
	}
	c.next = c.events + 1 + int64(c.rng.IntN(2*c.meanGap))
	cut := c14Cut{event: kind, lo: make([]int64, len(c.scopes)), hi: make([]int64, len(c.scopes))}
	switch c.rng.IntN(4) {
	case 0:
		cut.pct = 0 // power loss: only synced data survives
	case 1:
		cut.pct = 100 // process kill: the OS keeps everything written
	default:
		cut.pct = 1 + c.rng.IntN(99)
	}
	// every call that returned before the image is taken must be in it ...
	for i, s := range c.scopes {
		cut.lo[i] = s.returned.Load()
	}
	cut.fs = c.mem.CrashClone(vfs.CrashCloneCfg{UnsyncedDataPercent: cut.pct, RNG: rand.New(rand.NewPCG(c.rng.Uint64(), c.rng.Uint64()))})
	// ... and nothing that was issued after it can be.
	for i, s := range c.scopes {
		cut.hi[i] = s.issued.Load()
	}
	cut.dirs = c14ListSnapDirs(c.snapRoot)
	c.cuts = append(c.cuts, cut)
}

func (c *c14Cutter) setEnabled(v bool) {
	c.mu.Lock()
	c.enabled = v
	c.mu.Unlock()
}

// ---------------------------------------------------------------------------
// case configuration shared by the families

type c14CaseCfg struct {
	family     string
	caseNo     int
	nScopes    int
	phases     int
	opsPerPh   int
	concurrent bool
	crash      bool
	fault      bool
	stale      bool
	reopenProb int // percent per phase boundary
	opts       raftlog.Options
	chunk      int
	probeEvery int // 1 in N ops followed by a probe round
}

type c14CaseResult struct {
	shape    string
	features map[string]int
	cuts     int
}

func c14Open(path string, opts raftlog.Options, fs vfs.FS) (*raftlog.DB, error) {
	if fs == nil {
		return raftlog.Open(path, opts)
	}
	c14OpenMu.Lock()
	defer c14OpenMu.Unlock()
	raftlog.SetVerifFS(func() vfs.FS { return fs })
	defer raftlog.SetVerifFS(nil)
	return raftlog.Open(path, opts)
}

// c14RunCase drives one database with several scopes and returns the abstract
// shape of the history.
func c14RunCase(r *verifkit.Run, rngStream []uint64, dir string, cfg c14CaseCfg) c14CaseResult {
	env := &c14Env{r: r, family: cfg.family, collateral: cfg.fault && cfg.concurrent, caseNo: cfg.caseNo,
		caseDesc: fmt.Sprintf("scopes=%d phases=%d ops/phase=%d concurrent=%v crash=%v fault=%v maxwait=%v maxitems=%d chunk=%d", cfg.nScopes, cfg.phases, cfg.opsPerPh, cfg.concurrent, cfg.crash, cfg.fault, cfg.opts.WriteBatchMaxWait, cfg.opts.WriteBatchMaxItems, cfg.chunk)}
	rng := r.Rand(rngStream...)
	specs := c14PickScopes(rng, cfg.nScopes)
	scopes := make([]*c14Scope, len(specs))
	for i, sp := range specs {
		srng := r.Rand(append(append([]uint64(nil), rngStream...), uint64(100+i))...)
		ref := c14NewRef()
		scopes[i] = &c14Scope{spec: sp, ref: ref, rng: srng, keepStates: cfg.crash,
			gen: c14NewGen(srng, ref, c14GenCfg{allowStaleSuffix: cfg.stale, allowFault: cfg.fault, bigPayload: cfg.crash, chunk: cfg.chunk})}
		scopes[i].pushState()
	}

	path := filepath.Join(dir, "db")
	opts := cfg.opts
	opts.SnapshotPath = filepath.Join(dir, "snaps")
	var fs vfs.FS
	var cutter *c14Cutter
	if cfg.crash {
		mem := vfs.NewCrashableMem()
		cutter = &c14Cutter{mem: mem, scopes: scopes, rng: r.Rand(append(append([]uint64(nil), rngStream...), 7)...), meanGap: 6 + rng.IntN(30), max: 14, snapRoot: opts.SnapshotPath}
		cutter.next = 1 + int64(cutter.rng.IntN(cutter.meanGap))
		fs = &c14CrashFS{FS: mem, hook: cutter.hook}
		path = "db"
		// Crash images are checked after the run against a snapshot chunk root
		// that only ever grows: with a long GC grace no published directory is
		// removed, and a directory is published before the manifest that
		// names it is committed, so every manifest in an image finds its
		// chunks. (Power loss on the chunk directory itself is out of scope.)
		opts.SnapshotGCGrace = time.Hour
	}
	db, err := c14Open(path, opts, fs)
	if err != nil {
		r.Violation(cfg.family+":open-failed", map[string]any{"case": cfg.caseNo, "err": err.Error()})
		return c14CaseResult{}
	}
	if cutter != nil {
		cutter.setEnabled(true)
	}
	reopens := 0

	runScope := func(s *c14Scope, n int) {
		st := s.spec.store(db)
		for k := 0; k < n; k++ {
			if !env.step(s, st) {
				return
			}
			if cfg.probeEvery > 0 && s.rng.IntN(cfg.probeEvery) == 0 {
				if !env.check(s, st, "open", 6) {
					return
				}
			}
		}
	}

	for ph := 0; ph < cfg.phases; ph++ {
		if cfg.concurrent {
			var wg sync.WaitGroup
			for _, s := range scopes {
				wg.Add(1)
				go func(s *c14Scope) {
					defer wg.Done()
					runScope(s, cfg.opsPerPh/2+s.rng.IntN(cfg.opsPerPh+1))
				}(s)
			}
			wg.Wait()
		} else {
			// one goroutine, PRNG interleaving of the scopes
			for k := 0; k < cfg.opsPerPh*len(scopes); k++ {
				runScope(scopes[rng.IntN(len(scopes))], 1)
			}
		}
		for _, s := range scopes {
			env.check(s, s.spec.store(db), "open", 8)
		}
		if ph == cfg.phases-1 || rng.IntN(100) < cfg.reopenProb {
			if err := db.Close(); err != nil {
				r.Violation(cfg.family+":close-failed", map[string]any{"case": cfg.caseNo, "err": err.Error()})
				return c14CaseResult{}
			}
			db, err = c14Open(path, opts, fs)
			if err != nil {
				r.Violation(cfg.family+":reopen-failed", map[string]any{"case": cfg.caseNo, "err": err.Error()})
				return c14CaseResult{}
			}
			reopens++
			r.Count("reopen", 1)
			for _, s := range scopes {
				env.check(s, s.spec.store(db), "reopen", 8)
			}
		}
	}
	if cutter != nil {
		cutter.setEnabled(false)
	}
	if err := db.Close(); err != nil {
		r.Violation(cfg.family+":close-failed", map[string]any{"case": cfg.caseNo, "err": err.Error()})
	}

	res := c14CaseResult{features: map[string]int{"reopen": reopens}}
	shape := fmt.Sprintf("%s|n%d", cfg.family, len(scopes))
	for _, s := range scopes {
		g := s.gen
		res.features["overwrite"] += g.nOverwrite
		res.features["shrink"] += g.nShrink
		res.features["compact"] += g.nCompact + g.nReplace
		res.features["install"] += g.nInstall
		res.features["conf"] += g.nConf
		res.features["fault"] += g.nFault
		shape += "|" + string(g.kinds)
		r.Max("max_history_len_per_scope", len(s.log))
		r.Max("max_last_index", int(s.ref.last()&0x7fffffff))
	}
	res.shape = shape

	if cutter != nil {
		res.cuts = len(cutter.cuts)
		for ci, cut := range cutter.cuts {
			c14VerifyCut(r, env, cfg, opts, scopes, ci, cut)
		}
	}
	return res
}

// c14VerifyCut reopens one crash image and requires, per scope, the recovered
// state to equal the reference after j calls, lo <= j <= hi.
func c14VerifyCut(r *verifkit.Run, env *c14Env, cfg c14CaseCfg, opts raftlog.Options, scopes []*c14Scope, ci int, cut c14Cut) {
	kind := "powerloss"
	if cut.pct == 100 {
		kind = "kill"
	}
	r.Count("cut."+kind, 1)
	r.Count("cut.at."+cut.event, 1)
	db, err := c14Open("db", opts, cut.fs)
	if err != nil && cut.pct > 0 && cut.pct < 100 && strings.HasPrefix(err.Error(), "pebble:") {
		// Partial power-loss images drop unsynced directory entries
		// independently of each other; an image taken inside Pebble's own
		// MANIFEST rotation (new MANIFEST created, marker/CURRENT switched,
		// directory not yet synced) can keep the switch but lose the new file.
		// That is the simulation being harsher than Pebble's contract, not
		// raftlog behaviour: counted, not judged. Images with 0% or 100% of the
		// unsynced data never have this shape and stay judged.
		r.Count("cut.partial-image-rejected-by-pebble", 1)
		return
	}
	if err != nil {
		r.Violation(cfg.family+":crash-image-does-not-open:"+kind, map[string]any{"case": cfg.caseNo, "cut": ci, "unsynced_pct": cut.pct, "event": cut.event, "err": err.Error()})
		return
	}
	defer db.Close()
	for i, s := range scopes {
		st := s.spec.store(db)
		obs, err := c14Observe(st, true)
		r.Eval(1)
		if err != nil {
			r.Violation(cfg.family+":crash:read-error:"+kind, map[string]any{"case": cfg.caseNo, "cut": ci, "scope": s.spec.String(), "unsynced_pct": cut.pct, "event": cut.event, "err": err.Error(), "history_tail": s.tail(30)})
			continue
		}
		s.statesMu.Lock()
		states := s.states
		s.statesMu.Unlock()
		lo, hi := int(cut.lo[i]), int(cut.hi[i])
		if hi >= len(states) {
			hi = len(states) - 1
		}
		if lo > hi {
			lo = hi
		}
		match := -1
		var diffs []string
		for j := lo; j <= hi; j++ {
			d := c14Diff(states[j], obs)
			if d == "" {
				match = j
				break
			}
			diffs = append(diffs, fmt.Sprintf("j=%d: %s", j, d))
		}
		if hi > lo {
			r.Count("cut.scope-with-inflight-call", 1)
			if match > lo {
				r.Count("cut.inflight-call-survived", 1)
			} else if match == lo {
				r.Count("cut.inflight-call-lost", 1)
			}
		}
		if match < 0 {
			where := "no-prefix"
			// classify: does it equal an *older* state (lost acknowledged call)?
			for j := lo - 1; j >= 0 && j >= lo-40; j-- {
				if c14Diff(states[j], obs) == "" {
					where = "acknowledged-call-lost"
					break
				}
			}
			r.Violation(cfg.family+":crash:"+where+":"+kind+":"+c14DiffField(diffs[0][strIndexAfter(diffs[0], ": "):]), map[string]any{
				"case": cfg.caseNo, "cut": ci, "scope": s.spec.String(), "unsynced_pct": cut.pct, "fs_event": cut.event,
				"returned_before_cut": cut.lo[i], "issued_after_cut": cut.hi[i], "diffs": diffs, "history_until_cut": s.prefixTail(int(cut.hi[i]), 30),
			})
			continue
		}
		r.Count("cut.scope-matched", 1)
		// A snapshot visible in the image must have had its chunk directory
		// published when the image was taken (chunks are published before the
		// Pebble batch naming them is written). Directory names carry
		// (index, term): snap-<index %016x>-<term %016x>-<nonce>.
		if obs.SnapIdx > 0 {
			names := cut.dirs[s.spec.snapDirName()]
			want := fmt.Sprintf("snap-%016x-%016x-", obs.SnapIdx, obs.SnapTerm)
			found := false
			for _, n := range names {
				if strings.HasPrefix(n, want) {
					found = true
					break
				}
			}
			switch {
			case found:
				r.Count("cut.snapshot-dir-published-at-image", 1)
			default:
				r.Violation(cfg.family+":crash:snapshot-in-image-before-chunk-dir-published:"+kind, map[string]any{
					"case": cfg.caseNo, "cut": ci, "scope": s.spec.String(), "unsynced_pct": cut.pct, "fs_event": cut.event,
					"snapshot": fmt.Sprintf("i%d t%d", obs.SnapIdx, obs.SnapTerm), "dirs_at_image": names, "history_until_cut": s.prefixTail(int(cut.hi[i]), 12),
				})
			}
		}
		// window reads on the recovered image against the matched reference state
		if sig, detail := c14Probe(r, s.rng, st, c14RebuildMS(states[match]), 6); sig != "" {
			r.Violation(cfg.family+":crash:"+sig, map[string]any{"case": cfg.caseNo, "cut": ci, "scope": s.spec.String(), "detail": detail})
		}
	}
	_ = env
}

func strIndexAfter(s, sep string) int {
	for i := 0; i+len(sep) <= len(s); i++ {
		if s[i:i+len(sep)] == sep {
			return i + len(sep)
		}
	}
	return 0
}

var _ = raftpb.Entry{}
