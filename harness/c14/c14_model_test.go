//go:build verif

package raftlog_test

// C14 reference model and Raft-valid history generator.
//
// Reference = go.etcd.io/raft/v3 MemoryStorage (third party) fed exactly the
// calls pkg/slot/multiraft feeds its own in-process MemoryStorage for the same
// persistence call:
//
//	Save{Snapshot,Entries,HardState} from a raft Ready -> ApplySnapshot; Append; SetHardState
//	Save{Snapshot} from local log compaction           -> CreateSnapshot; Compact
//	ReplaceSnapshot at the applied index               -> CreateSnapshot; Compact (or same-index rebuild)
//
// plus two integers (applied, config-applied) and an independent, set based
// fold of single-step membership changes for BootstrapState.ConfState (the
// durable log derives ConfState from snapshot + committed conf-change entries;
// MemoryStorage only knows the snapshot's).

import (
	"bytes"
	"fmt"
	"math"
	"math/rand/v2"
	"sort"
	"strings"

	"github.com/WuKongIM/WuKongIM/pkg/slot/multiraft"
	raft "go.etcd.io/raft/v3"
	"go.etcd.io/raft/v3/raftpb"
)

// ---------------------------------------------------------------------------
// membership fold (independent of go.etcd.io/raft/v3/confchange)

type c14Conf struct {
	voters   map[uint64]bool
	learners map[uint64]bool
}

func c14ConfFrom(cs raftpb.ConfState) c14Conf {
	c := c14Conf{voters: map[uint64]bool{}, learners: map[uint64]bool{}}
	for _, v := range cs.Voters {
		c.voters[v] = true
	}
	for _, l := range cs.Learners {
		c.learners[l] = true
	}
	return c
}

func (c c14Conf) clone() c14Conf {
	n := c14Conf{voters: map[uint64]bool{}, learners: map[uint64]bool{}}
	for k := range c.voters {
		n.voters[k] = true
	}
	for k := range c.learners {
		n.learners[k] = true
	}
	return n
}

func c14SortedKeys(m map[uint64]bool) []uint64 {
	if len(m) == 0 {
		return nil
	}
	out := make([]uint64, 0, len(m))
	for k := range m {
		out = append(out, k)
	}
	sort.Slice(out, func(i, j int) bool { return out[i] < out[j] })
	return out
}

func (c c14Conf) state() raftpb.ConfState {
	return raftpb.ConfState{Voters: c14SortedKeys(c.voters), Learners: c14SortedKeys(c.learners)}
}

// apply one single-step change (non-joint semantics).
func (c *c14Conf) apply(typ raftpb.ConfChangeType, id uint64) {
	if id == 0 {
		return
	}
	switch typ {
	case raftpb.ConfChangeAddNode:
		delete(c.learners, id)
		c.voters[id] = true
	case raftpb.ConfChangeAddLearnerNode:
		if c.learners[id] {
			return
		}
		delete(c.voters, id)
		c.learners[id] = true
	case raftpb.ConfChangeRemoveNode:
		delete(c.voters, id)
		delete(c.learners, id)
	case raftpb.ConfChangeUpdateNode:
	}
}

// valid reports whether applying the change keeps at least one voter (the
// only way a single-step change can be rejected by raft).
func (c c14Conf) valid(typ raftpb.ConfChangeType, id uint64) bool {
	n := c.clone()
	n.apply(typ, id)
	return len(n.voters) > 0
}

func (c *c14Conf) applyEntry(e raftpb.Entry) {
	switch e.Type {
	case raftpb.EntryConfChange:
		var cc raftpb.ConfChange
		if cc.Unmarshal(e.Data) == nil {
			c.apply(cc.Type, cc.NodeID)
		}
	case raftpb.EntryConfChangeV2:
		var cc raftpb.ConfChangeV2
		if cc.Unmarshal(e.Data) == nil {
			for _, s := range cc.Changes {
				c.apply(s.Type, s.NodeID)
			}
		}
	}
}

func c14ConfEqual(a, b raftpb.ConfState) bool {
	eq := func(x, y []uint64) bool {
		if len(x) != len(y) {
			return false
		}
		xs := append([]uint64(nil), x...)
		ys := append([]uint64(nil), y...)
		sort.Slice(xs, func(i, j int) bool { return xs[i] < xs[j] })
		sort.Slice(ys, func(i, j int) bool { return ys[i] < ys[j] })
		for i := range xs {
			if xs[i] != ys[i] {
				return false
			}
		}
		return true
	}
	return eq(a.Voters, b.Voters) && eq(a.Learners, b.Learners) && eq(a.VotersOutgoing, b.VotersOutgoing) &&
		eq(a.LearnersNext, b.LearnersNext) && a.AutoLeave == b.AutoLeave
}

// ---------------------------------------------------------------------------
// abstract state of one scope (expected or observed)

type c14State struct {
	HS         raftpb.HardState
	Conf       raftpb.ConfState
	Applied    uint64
	CfgApplied uint64
	First      uint64
	Last       uint64
	SnapIdx    uint64
	SnapTerm   uint64
	SnapConf   raftpb.ConfState
	SnapData   []byte
	Ents       []raftpb.Entry
	// Terms[i] = Term(SnapIdx+i) for SnapIdx..Last (observed side only).
	Terms []uint64
	// skipConf: model lost track of ConfState (a malformed conf change was
	// acknowledged); ConfState comparison is skipped.
	skipConf bool
}

func c14EntryEqual(a, b raftpb.Entry) bool {
	return a.Index == b.Index && a.Term == b.Term && a.Type == b.Type && bytes.Equal(a.Data, b.Data)
}

func c14EntStr(e raftpb.Entry) string {
	return fmt.Sprintf("{i%d t%d ty%d len%d}", e.Index, e.Term, e.Type, len(e.Data))
}

// c14Diff returns "" when obs matches exp, else "<field>|detail" for the
// first differing field.
func c14Diff(exp, obs c14State) string {
	switch {
	case exp.First != obs.First:
		return fmt.Sprintf("FirstIndex|want %d got %d", exp.First, obs.First)
	case exp.Last != obs.Last:
		return fmt.Sprintf("LastIndex|want %d got %d", exp.Last, obs.Last)
	case exp.HS.Term != obs.HS.Term || exp.HS.Vote != obs.HS.Vote || exp.HS.Commit != obs.HS.Commit:
		return fmt.Sprintf("InitialState.HardState|want %+v got %+v", exp.HS, obs.HS)
	case exp.Applied != obs.Applied:
		return fmt.Sprintf("InitialState.AppliedIndex|want %d got %d", exp.Applied, obs.Applied)
	case exp.CfgApplied != obs.CfgApplied:
		return fmt.Sprintf("InitialState.ConfigAppliedIndex|want %d got %d", exp.CfgApplied, obs.CfgApplied)
	case exp.SnapIdx != obs.SnapIdx || exp.SnapTerm != obs.SnapTerm:
		return fmt.Sprintf("Snapshot.Metadata|want (i%d t%d) got (i%d t%d)", exp.SnapIdx, exp.SnapTerm, obs.SnapIdx, obs.SnapTerm)
	case !c14ConfEqual(exp.SnapConf, obs.SnapConf):
		return fmt.Sprintf("Snapshot.ConfState|want %+v got %+v", exp.SnapConf, obs.SnapConf)
	case !bytes.Equal(exp.SnapData, obs.SnapData):
		return fmt.Sprintf("Snapshot.Data|want len %d got len %d", len(exp.SnapData), len(obs.SnapData))
	case !exp.skipConf && !c14ConfEqual(exp.Conf, obs.Conf):
		return fmt.Sprintf("InitialState.ConfState|want %+v got %+v", exp.Conf, obs.Conf)
	}
	if len(exp.Ents) != len(obs.Ents) {
		return fmt.Sprintf("Entries|want %d entries got %d", len(exp.Ents), len(obs.Ents))
	}
	for i := range exp.Ents {
		if !c14EntryEqual(exp.Ents[i], obs.Ents[i]) {
			return fmt.Sprintf("Entries|at pos %d want %s got %s", i, c14EntStr(exp.Ents[i]), c14EntStr(obs.Ents[i]))
		}
	}
	if obs.Terms != nil {
		// Term over every held index SnapIdx..Last
		want := make([]uint64, 0, len(exp.Ents)+1)
		want = append(want, exp.SnapTerm)
		for _, e := range exp.Ents {
			want = append(want, e.Term)
		}
		if len(want) != len(obs.Terms) {
			return fmt.Sprintf("Term|want %d terms got %d", len(want), len(obs.Terms))
		}
		for i := range want {
			if want[i] != obs.Terms[i] {
				return fmt.Sprintf("Term|index %d want %d got %d", exp.SnapIdx+uint64(i), want[i], obs.Terms[i])
			}
		}
	}
	return ""
}

func c14DiffField(d string) string {
	if i := strings.IndexByte(d, '|'); i >= 0 {
		return d[:i]
	}
	return d
}

// ---------------------------------------------------------------------------
// reference

type c14Ref struct {
	ms         *raft.MemoryStorage
	applied    uint64
	cfgApplied uint64
	poisoned   bool
}

func c14NewRef() *c14Ref { return &c14Ref{ms: raft.NewMemoryStorage()} }

func (f *c14Ref) hs() raftpb.HardState {
	hs, _, _ := f.ms.InitialState()
	return hs
}
func (f *c14Ref) first() uint64 { v, _ := f.ms.FirstIndex(); return v }
func (f *c14Ref) last() uint64  { v, _ := f.ms.LastIndex(); return v }
func (f *c14Ref) snap() raftpb.Snapshot {
	s, _ := f.ms.Snapshot()
	return s
}
func (f *c14Ref) term(i uint64) uint64 {
	t, err := f.ms.Term(i)
	if err != nil {
		panic(fmt.Sprintf("c14 harness: ref term(%d): %v", i, err))
	}
	return t
}
func (f *c14Ref) entries() []raftpb.Entry {
	first, last := f.first(), f.last()
	if last < first {
		return nil
	}
	ents, err := f.ms.Entries(first, last+1, math.MaxUint64)
	if err != nil {
		panic(fmt.Sprintf("c14 harness: ref entries: %v", err))
	}
	return append([]raftpb.Entry(nil), ents...)
}

// confAt folds membership over snapshot + log entries with index <= upto.
func (f *c14Ref) confAt(upto uint64) c14Conf {
	c := c14ConfFrom(f.snap().Metadata.ConfState)
	for _, e := range f.entries() {
		if e.Index > upto {
			break
		}
		c.applyEntry(e)
	}
	return c
}

func (f *c14Ref) state() c14State {
	s := f.snap()
	hs := f.hs()
	st := c14State{
		HS: hs, Applied: f.applied, CfgApplied: f.cfgApplied,
		First: f.first(), Last: f.last(),
		SnapIdx: s.Metadata.Index, SnapTerm: s.Metadata.Term,
		SnapConf: s.Metadata.ConfState, SnapData: s.Data,
		Ents: f.entries(), skipConf: f.poisoned,
	}
	commit := hs.Commit
	if commit < st.SnapIdx {
		commit = st.SnapIdx
	}
	st.Conf = f.confAt(commit).state()
	return st
}

// c14RebuildMS builds a MemoryStorage holding exactly the given abstract state
// (used to answer window queries for a recovered crash image).
func c14RebuildMS(st c14State) *raft.MemoryStorage {
	ms := raft.NewMemoryStorage()
	if st.SnapIdx > 0 {
		_ = ms.ApplySnapshot(raftpb.Snapshot{Data: st.SnapData, Metadata: raftpb.SnapshotMetadata{Index: st.SnapIdx, Term: st.SnapTerm, ConfState: st.SnapConf}})
	}
	if len(st.Ents) > 0 {
		_ = ms.Append(st.Ents)
	}
	_ = ms.SetHardState(st.HS)
	return ms
}

// ---------------------------------------------------------------------------
// operations

type c14Op struct {
	Kind string
	// exactly one of the following call shapes
	PS      *multiraft.PersistentState
	Replace *raftpb.Snapshot
	Mark    uint64 // MarkApplied / MarkConfigApplied index
	// unchanged: the model predicts the call leaves the state unchanged no
	// matter what it returns (stale / same-index snapshot).
	unchanged bool
	// fault: the op is built to fail inside the write worker.
	fault bool
	// applyRef applies the op to the reference after the real call returned nil.
	applyRef func(f *c14Ref)
	Desc     string
}

type c14GenCfg struct {
	allowStaleSuffix bool // snapshot install strictly inside an uncommitted stale suffix
	allowFault       bool
	bigPayload       bool
	chunk            int
}

type c14Gen struct {
	rng  *rand.Rand
	ref  *c14Ref
	cfg  c14GenCfg
	term uint64
	vote uint64
	// feature counters for the non-triviality rule
	nOverwrite, nShrink, nCompact, nInstall, nConf, nReplace, nFault, nStale int
	kinds                                                                    []byte
}

func c14NewGen(rng *rand.Rand, ref *c14Ref, cfg c14GenCfg) *c14Gen {
	return &c14Gen{rng: rng, ref: ref, cfg: cfg}
}

func (g *c14Gen) payload() []byte {
	var n int
	switch x := g.rng.IntN(100); {
	case x < 10:
		n = 0
	case x < 70:
		n = 1 + g.rng.IntN(64)
	case x < 96:
		n = 65 + g.rng.IntN(600)
	default:
		if g.cfg.bigPayload {
			n = 5000 + g.rng.IntN(20000)
		} else {
			n = 700 + g.rng.IntN(2000)
		}
	}
	if n == 0 {
		return nil
	}
	b := make([]byte, n)
	for i := range b {
		b[i] = byte(g.rng.Uint32())
	}
	return b
}

func (g *c14Gen) snapData() []byte {
	ch := g.cfg.chunk
	if ch <= 0 || ch > 4096 {
		ch = 4096
	}
	var n int
	switch x := g.rng.IntN(100); {
	case x < 15:
		n = 0
	case x < 55:
		n = 1 + g.rng.IntN(ch)
	case x < 65:
		n = ch
	default:
		n = ch + 1 + g.rng.IntN(3*ch)
	}
	if n == 0 {
		return nil
	}
	b := make([]byte, n)
	for i := range b {
		b[i] = byte(g.rng.Uint32())
	}
	return b
}

func (g *c14Gen) bumpTerm() {
	g.term++
	g.vote = uint64(g.rng.IntN(4)) // 0 = no vote yet in the new term
}

// entry builds the entry for index idx given the membership conf *before* it;
// conf is advanced when the entry is a membership change.
func (g *c14Gen) entry(idx, term uint64, conf *c14Conf) raftpb.Entry {
	if g.rng.IntN(100) < 14 {
		types := []raftpb.ConfChangeType{raftpb.ConfChangeAddNode, raftpb.ConfChangeAddNode, raftpb.ConfChangeRemoveNode, raftpb.ConfChangeAddLearnerNode, raftpb.ConfChangeUpdateNode}
		for try := 0; try < 6; try++ {
			typ := types[g.rng.IntN(len(types))]
			id := uint64(1 + g.rng.IntN(6))
			if !conf.valid(typ, id) {
				continue
			}
			conf.apply(typ, id)
			g.nConf++
			if g.rng.IntN(2) == 0 {
				cc := raftpb.ConfChange{Type: typ, NodeID: id, Context: g.payloadSmall()}
				data, _ := cc.Marshal()
				return raftpb.Entry{Index: idx, Term: term, Type: raftpb.EntryConfChange, Data: data}
			}
			cc := raftpb.ConfChangeV2{Changes: []raftpb.ConfChangeSingle{{Type: typ, NodeID: id}}, Context: g.payloadSmall()}
			data, _ := cc.Marshal()
			return raftpb.Entry{Index: idx, Term: term, Type: raftpb.EntryConfChangeV2, Data: data}
		}
	}
	return raftpb.Entry{Index: idx, Term: term, Type: raftpb.EntryNormal, Data: g.payload()}
}

func (g *c14Gen) payloadSmall() []byte {
	n := g.rng.IntN(6)
	if n == 0 {
		return nil
	}
	b := make([]byte, n)
	for i := range b {
		b[i] = byte(g.rng.Uint32())
	}
	return b
}

func (g *c14Gen) entriesFrom(start uint64, n int, term uint64) []raftpb.Entry {
	conf := g.ref.confAt(start - 1)
	out := make([]raftpb.Entry, 0, n)
	for i := 0; i < n; i++ {
		out = append(out, g.entry(start+uint64(i), term, &conf))
	}
	return out
}

func (g *c14Gen) hsPtr(commit uint64) *raftpb.HardState {
	return &raftpb.HardState{Term: g.term, Vote: g.vote, Commit: commit}
}

func c14PSDesc(ps *multiraft.PersistentState) string {
	var sb strings.Builder
	if ps.HardState != nil {
		fmt.Fprintf(&sb, "hs{t%d v%d c%d} ", ps.HardState.Term, ps.HardState.Vote, ps.HardState.Commit)
	}
	if ps.Snapshot != nil {
		fmt.Fprintf(&sb, "snap{i%d t%d len%d v%v l%v} ", ps.Snapshot.Metadata.Index, ps.Snapshot.Metadata.Term, len(ps.Snapshot.Data), ps.Snapshot.Metadata.ConfState.Voters, ps.Snapshot.Metadata.ConfState.Learners)
	}
	if n := len(ps.Entries); n > 0 {
		fmt.Fprintf(&sb, "ents[%d..%d t%d..%d", ps.Entries[0].Index, ps.Entries[n-1].Index, ps.Entries[0].Term, ps.Entries[n-1].Term)
		for _, e := range ps.Entries {
			if e.Type != raftpb.EntryNormal {
				fmt.Fprintf(&sb, " cc@%d", e.Index)
			}
		}
		sb.WriteString("]")
	}
	return strings.TrimSpace(sb.String())
}

func c14ApplyReady(ps multiraft.PersistentState) func(f *c14Ref) {
	return func(f *c14Ref) {
		// same order as multiraft.storageAdapter.applyReadyToMemory
		if ps.Snapshot != nil {
			if err := f.ms.ApplySnapshot(*ps.Snapshot); err != nil {
				panic("c14 harness: ref ApplySnapshot: " + err.Error())
			}
		}
		if len(ps.Entries) > 0 {
			_ = f.ms.Append(ps.Entries)
		}
		if ps.HardState != nil {
			_ = f.ms.SetHardState(*ps.HardState)
		}
	}
}

// next produces the next Raft-valid persistence call for this scope.
func (g *c14Gen) next() c14Op {
	f := g.ref
	if g.term == 0 {
		g.term = 1
		g.vote = uint64(g.rng.IntN(3))
	}
	hs := f.hs()
	last, commit, applied := f.last(), hs.Commit, f.applied
	snapIdx := f.snap().Metadata.Index

	type cand struct {
		w    int
		kind string
	}
	cands := []cand{{30, "append"}, {8, "hs"}}
	if last > commit && last > snapIdx {
		cands = append(cands, cand{14, "overwrite"})
	}
	if commit > applied {
		cands = append(cands, cand{12, "applied"})
	}
	if applied > 0 {
		cands = append(cands, cand{3, "cfgapplied"})
	}
	if applied > snapIdx {
		cands = append(cands, cand{9, "compact"})
	}
	cands = append(cands, cand{5, "install"})
	if g.cfg.allowStaleSuffix && last >= commit+2 {
		cands = append(cands, cand{25, "install-stale-suffix"})
	}
	// ReplaceSnapshot behind the current snapshot is refused inside the write
	// worker and therefore fails the whole group flush: a fault-family call.
	if applied > 0 && (applied >= snapIdx || g.cfg.allowFault) {
		cands = append(cands, cand{3, "replace"})
	}
	if snapIdx > 0 {
		cands = append(cands, cand{2, "snap-same"}, cand{1, "snap-same-diff"})
	}
	if snapIdx > 1 {
		cands = append(cands, cand{2, "snap-old"})
	}
	if g.cfg.allowFault {
		cands = append(cands, cand{4, "fault"})
	}
	tot := 0
	for _, c := range cands {
		tot += c.w
	}
	pick := g.rng.IntN(tot)
	kind := "append"
	for _, c := range cands {
		if pick < c.w {
			kind = c.kind
			break
		}
		pick -= c.w
	}

	switch kind {
	case "append":
		n := 1 + g.rng.IntN(4)
		if g.rng.IntN(10) == 0 {
			n = 10 + g.rng.IntN(40)
		}
		changed := false
		if g.rng.IntN(6) == 0 {
			g.bumpTerm()
			changed = true
		}
		ents := g.entriesFrom(last+1, n, g.term)
		ps := multiraft.PersistentState{Entries: ents}
		if changed || g.rng.IntN(10) < 7 {
			c := commit
			if g.rng.IntN(3) > 0 {
				c = commit + uint64(g.rng.IntN(int(last+uint64(n)-commit)+1))
			}
			ps.HardState = g.hsPtr(c)
		}
		g.kinds = append(g.kinds, 'a')
		return c14Op{Kind: "append", PS: &ps, applyRef: c14ApplyReady(ps), Desc: "save " + c14PSDesc(&ps)}

	case "hs":
		if g.rng.IntN(3) == 0 {
			g.bumpTerm()
		} else if g.vote == 0 && g.rng.IntN(2) == 0 {
			g.vote = uint64(1 + g.rng.IntN(3))
		}
		c := commit
		if last > commit {
			c = commit + uint64(g.rng.IntN(int(last-commit)+1))
		}
		ps := multiraft.PersistentState{HardState: g.hsPtr(c)}
		g.kinds = append(g.kinds, 'h')
		return c14Op{Kind: "hs", PS: &ps, applyRef: c14ApplyReady(ps), Desc: "save " + c14PSDesc(&ps)}

	case "overwrite":
		// a new leader (higher term) replaces an uncommitted suffix
		idx := commit + 1 + uint64(g.rng.IntN(int(last-commit)))
		oldLen := int(last - idx + 1)
		g.bumpTerm()
		var n int
		switch g.rng.IntN(3) {
		case 0: // strictly shorter than the old suffix when possible
			n = 1
			if oldLen > 2 {
				n = 1 + g.rng.IntN(oldLen-1)
			}
		case 1:
			n = oldLen
		default:
			n = oldLen + 1 + g.rng.IntN(3)
		}
		ents := g.entriesFrom(idx, n, g.term)
		newLast := idx + uint64(n) - 1
		c := commit
		if g.rng.IntN(2) == 0 {
			c = commit + uint64(g.rng.IntN(int(newLast-commit)+1))
		}
		ps := multiraft.PersistentState{Entries: ents, HardState: g.hsPtr(c)}
		g.nOverwrite++
		if n < oldLen {
			g.nShrink++
		}
		g.kinds = append(g.kinds, 'o')
		return c14Op{Kind: "overwrite", PS: &ps, applyRef: c14ApplyReady(ps),
			Desc: fmt.Sprintf("save(overwrite from %d, old last %d) %s", idx, last, c14PSDesc(&ps))}

	case "applied":
		idx := applied + 1 + uint64(g.rng.IntN(int(commit-applied)))
		g.kinds = append(g.kinds, 'm')
		return c14Op{Kind: "applied", Mark: idx, applyRef: func(f *c14Ref) { f.applied = idx }, Desc: fmt.Sprintf("MarkApplied(%d)", idx)}

	case "cfgapplied":
		lo := f.cfgApplied
		if lo > applied {
			lo = applied
		}
		idx := lo + uint64(g.rng.IntN(int(applied-lo)+1))
		g.kinds = append(g.kinds, 'c')
		return c14Op{Kind: "cfgapplied", Mark: idx, applyRef: func(f *c14Ref) { f.cfgApplied = idx }, Desc: fmt.Sprintf("MarkConfigApplied(%d)", idx)}

	case "compact":
		k := applied
		if g.rng.IntN(2) == 0 {
			k = snapIdx + 1 + uint64(g.rng.IntN(int(applied-snapIdx)))
		}
		cs := f.confAt(k).state()
		snap := raftpb.Snapshot{Data: g.snapData(), Metadata: raftpb.SnapshotMetadata{Index: k, Term: f.term(k), ConfState: cs}}
		ps := multiraft.PersistentState{Snapshot: &snap}
		g.nCompact++
		g.kinds = append(g.kinds, 'k')
		return c14Op{Kind: "compact", PS: &ps, Desc: fmt.Sprintf("save(compact, last %d) %s", last, c14PSDesc(&ps)),
			applyRef: func(f *c14Ref) {
				// same as multiraft.slot.compactLogAt on its in-process storage
				if _, err := f.ms.CreateSnapshot(k, &cs, snap.Data); err != nil {
					panic("c14 harness: ref CreateSnapshot: " + err.Error())
				}
				if err := f.ms.Compact(k); err != nil {
					panic("c14 harness: ref Compact: " + err.Error())
				}
			}}

	case "install", "install-stale-suffix":
		// snapshot from a leader whose (index, term) does not match the local log
		g.bumpTerm()
		st := g.term
		var k uint64
		if kind == "install-stale-suffix" {
			k = commit + 1 + uint64(g.rng.IntN(int(last-commit-1))) // commit < k < last
			g.nStale++
		} else if last > commit && g.rng.IntN(3) == 0 {
			k = last // whole log stale
		} else {
			k = last + 1 + uint64(g.rng.IntN(8))
		}
		conf := c14Conf{voters: map[uint64]bool{}, learners: map[uint64]bool{}}
		for id := uint64(1); id <= 5; id++ {
			switch g.rng.IntN(3) {
			case 0:
				conf.voters[id] = true
			case 1:
				if g.rng.IntN(2) == 0 {
					conf.learners[id] = true
				}
			}
		}
		if len(conf.voters) == 0 {
			v := uint64(1 + g.rng.IntN(5))
			delete(conf.learners, v)
			conf.voters[v] = true
		}
		snap := raftpb.Snapshot{Data: g.snapData(), Metadata: raftpb.SnapshotMetadata{Index: k, Term: st, ConfState: conf.state()}}
		ps := multiraft.PersistentState{Snapshot: &snap}
		newLast := k
		if kind == "install" && g.rng.IntN(10) < 3 {
			n := 1 + g.rng.IntN(3)
			start := k + 1
			c := conf.clone()
			for i := 0; i < n; i++ {
				ps.Entries = append(ps.Entries, g.entry(start+uint64(i), g.term, &c))
			}
			newLast = k + uint64(n)
		}
		c := k
		if newLast > k && g.rng.IntN(2) == 0 {
			c = k + uint64(g.rng.IntN(int(newLast-k)+1))
		}
		ps.HardState = g.hsPtr(c)
		g.nInstall++
		g.kinds = append(g.kinds, 'i')
		return c14Op{Kind: kind, PS: &ps, applyRef: c14ApplyReady(ps),
			Desc: fmt.Sprintf("save(%s, old commit %d last %d) %s", kind, commit, last, c14PSDesc(&ps))}

	case "replace":
		k := applied
		g.nReplace++
		g.kinds = append(g.kinds, 'r')
		if k < snapIdx {
			// durable applied index is behind the snapshot: must be refused
			snap := raftpb.Snapshot{Data: g.snapData(), Metadata: raftpb.SnapshotMetadata{Index: k, Term: g.term, ConfState: f.snap().Metadata.ConfState}}
			return c14Op{Kind: "replace-behind", Replace: &snap, unchanged: true, Desc: fmt.Sprintf("ReplaceSnapshot(i%d behind snapshot %d)", k, snapIdx)}
		}
		cs := f.confAt(k).state()
		snap := raftpb.Snapshot{Data: g.snapData(), Metadata: raftpb.SnapshotMetadata{Index: k, Term: f.term(k), ConfState: cs}}
		return c14Op{Kind: "replace", Replace: &snap, Desc: fmt.Sprintf("ReplaceSnapshot(i%d t%d len%d) snapIdx %d", k, snap.Metadata.Term, len(snap.Data), snapIdx),
			applyRef: func(f *c14Ref) {
				if k > f.snap().Metadata.Index {
					if _, err := f.ms.CreateSnapshot(k, &cs, snap.Data); err != nil {
						panic("c14 harness: ref CreateSnapshot(replace): " + err.Error())
					}
					if err := f.ms.Compact(k); err != nil {
						panic("c14 harness: ref Compact(replace): " + err.Error())
					}
					return
				}
				// same index: MemoryStorage has no in-place replace; rebuild it
				// with the new snapshot under the unchanged log and hard state.
				st := f.state()
				st.SnapData = snap.Data
				st.SnapConf = cs
				f.ms = c14RebuildMS(st)
			}}

	case "snap-same":
		// idempotent re-save of the identical snapshot
		s := f.snap()
		cp := raftpb.Snapshot{Data: append([]byte(nil), s.Data...), Metadata: s.Metadata}
		ps := multiraft.PersistentState{Snapshot: &cp}
		g.kinds = append(g.kinds, 's')
		return c14Op{Kind: "snap-same", PS: &ps, unchanged: true, Desc: "save(same snapshot again) " + c14PSDesc(&ps)}

	case "snap-same-diff":
		s := f.snap()
		cp := raftpb.Snapshot{Data: append(append([]byte(nil), s.Data...), 0x5a), Metadata: s.Metadata}
		ps := multiraft.PersistentState{Snapshot: &cp}
		g.kinds = append(g.kinds, 'd')
		return c14Op{Kind: "snap-same-diff", PS: &ps, unchanged: true, Desc: "save(same index, different payload) " + c14PSDesc(&ps)}

	case "snap-old":
		s := f.snap()
		k := 1 + uint64(g.rng.IntN(int(snapIdx-1)))
		cp := raftpb.Snapshot{Data: g.snapData(), Metadata: raftpb.SnapshotMetadata{Index: k, Term: s.Metadata.Term, ConfState: s.Metadata.ConfState}}
		ps := multiraft.PersistentState{Snapshot: &cp}
		g.kinds = append(g.kinds, 'x')
		return c14Op{Kind: "snap-old", PS: &ps, unchanged: true, Desc: "save(out-of-date snapshot) " + c14PSDesc(&ps)}

	case "fault":
		// A committed membership entry the store cannot fold: the write worker
		// fails the whole group flush. Either undecodable bytes or the removal
		// of the last voter.
		var e raftpb.Entry
		conf := f.confAt(last)
		if g.rng.IntN(2) == 0 || len(conf.voters) != 1 {
			e = raftpb.Entry{Index: last + 1, Term: g.term, Type: raftpb.EntryConfChange, Data: []byte{0xff, 0xff, 0xff, 0xff, 0xff, 0xff, 0xff, 0xff, 0xff, 0xff, 0xff}}
		} else {
			var only uint64
			for v := range conf.voters {
				only = v
			}
			cc := raftpb.ConfChange{Type: raftpb.ConfChangeRemoveNode, NodeID: only}
			data, _ := cc.Marshal()
			e = raftpb.Entry{Index: last + 1, Term: g.term, Type: raftpb.EntryConfChange, Data: data}
		}
		ps := multiraft.PersistentState{Entries: []raftpb.Entry{e}, HardState: g.hsPtr(last + 1)}
		g.nFault++
		g.kinds = append(g.kinds, 'f')
		return c14Op{Kind: "fault", PS: &ps, fault: true, Desc: "save(unfoldable committed conf change) " + c14PSDesc(&ps),
			applyRef: func(f *c14Ref) {
				c14ApplyReady(ps)(f)
				f.poisoned = true
			}}
	}
	panic("c14 harness: unreachable op kind " + kind)
}
