//go:build verif

package raftlog_test

import (
	"fmt"
	"math/rand/v2"
	"os"
	"path/filepath"
	"sync"
	"testing"
	"time"

	"github.com/WuKongIM/WuKongIM/pkg/raftlog"
	"github.com/WuKongIM/WuKongIM/pkg/verifkit"
)

const c14Rule = "Each case = one raftlog DB with 1-4 scopes (controller / adjacent and extreme slot ids). " +
	"Per scope a generator mimics a raft node's persistence calls under Raft rules (term/commit monotone, vote once per term, " +
	"appends at last+1, conflicting suffix overwrite only above commit with a higher term and possibly shorter suffix, " +
	"local compaction snapshot at <= applied with the folded ConfState, leader snapshot install beyond/at the stale tail, " +
	"MarkApplied <= commit, MarkConfigApplied, ReplaceSnapshot at applied, single-step conf changes V1/V2, " +
	"plus rejected calls: out-of-date / same-index snapshots and (fault families) an unfoldable committed conf change). " +
	"Every call is mirrored into etcd raft.MemoryStorage; after PRNG-chosen calls, at phase ends, after every reopen and on every crash image " +
	"InitialState/FirstIndex/LastIndex/Snapshot/Entries(first,last+1)/Term(every held index) are compared, and random [lo,hi)/maxSize/Term windows incl. out-of-range are probed. " +
	"Non-trivial = the case contains >=1 conflicting overwrite, >=1 snapshot that compacts, and >=1 reopen or crash image; " +
	"distinct = family + scope count + per-scope sequence of call kinds (no payload bytes)."

const c14RuleRef = "Same generator, reference and comparisons as unit model (see its rule)."

func c14Opts(rng *rand.Rand) (raftlog.Options, int) {
	var o raftlog.Options
	o.WriteBatchMaxWait = []time.Duration{20 * time.Microsecond, 50 * time.Microsecond, 200 * time.Microsecond, time.Millisecond}[rng.IntN(4)]
	o.WriteBatchMaxItems = []int{1, 2, 8, 0, 0}[rng.IntN(5)]
	chunk := []int{16, 64, 1024, 0}[rng.IntN(4)]
	o.SnapshotChunkSize = uint64(chunk)
	if rng.IntN(3) == 0 {
		o.SnapshotGCGrace = time.Hour
	}
	return o, chunk
}

type c14Family struct {
	id      string
	stream  uint64
	mk      func(rng *rand.Rand, i int) c14CaseCfg
	workers int
}

func c14RunFamily(t *testing.T, r *verifkit.Run, fam c14Family, n int) {
	base := t.TempDir()
	var wg sync.WaitGroup
	idx := make(chan int)
	var stop sync.Once
	stopped := make(chan struct{})
	for w := 0; w < fam.workers; w++ {
		wg.Add(1)
		go func() {
			defer wg.Done()
			for i := range idx {
				crng := r.Rand(fam.stream, uint64(i), 1)
				cfg := fam.mk(crng, i)
				cfg.caseNo = i
				r.BeginCase(i, fmt.Sprintf("%s scopes=%d phases=%d ops/phase=%d concurrent=%v crash=%v fault=%v", cfg.family, cfg.nScopes, cfg.phases, cfg.opsPerPh, cfg.concurrent, cfg.crash, cfg.fault))
				dir := filepath.Join(base, fmt.Sprintf("%s-%d", fam.id, i))
				_ = os.MkdirAll(dir, 0o755)
				var res c14CaseResult
				// generous watchdog: a hang is reported as inconclusive, never as a verdict
				done := verifkit.Watchdog(10*time.Minute, func() {
					res = c14RunCase(r, []uint64{fam.stream, uint64(i)}, dir, cfg)
				})
				if !done {
					r.Inconclusive(fmt.Sprintf("%s case %d did not finish within the watchdog", fam.id, i))
					stop.Do(func() { close(stopped) })
					return
				}
				_ = os.RemoveAll(dir)
				r.Count("cases."+cfg.family, 1)
				r.Count("crash_images", res.cuts)
				for k, v := range res.features {
					r.Count("feature."+k, v)
				}
				if res.features["overwrite"] > 0 && res.features["compact"]+res.features["install"] > 0 && (res.features["reopen"] > 0 || res.cuts > 0) {
					r.Nontrivial(res.shape)
				}
				if r.WantSample() && i%17 == 3 {
					r.Sample(map[string]any{"case": i, "family": cfg.family, "shape": res.shape, "features": res.features, "crash_images": res.cuts})
				}
			}
		}()
	}
feed:
	for i := 0; i < n; i++ {
		if r.Skip(i) {
			continue
		}
		select {
		case idx <- i:
		case <-stopped:
			break feed
		}
	}
	close(idx)
	wg.Wait()
}

// TestVerifC14Model: single-goroutine PRNG interleaving of the scopes; every
// unexpected error is a violation; reopen at PRNG points.
func TestVerifC14Model(t *testing.T) {
	r := verifkit.Start(t, "C14", "model")
	defer r.Finish()
	r.SetRule(c14Rule)
	r.Assume("etcd raft.MemoryStorage is a correct Raft storage; calls are mapped onto it exactly as pkg/slot/multiraft maps them onto its in-process MemoryStorage")
	r.Assume("membership changes are single-step (no joint consensus); ConfState expectation comes from an independent set-based fold")
	c14RunFamily(t, r, c14Family{id: "model", stream: 1, workers: 8, mk: func(rng *rand.Rand, i int) c14CaseCfg {
		opts, chunk := c14Opts(rng)
		return c14CaseCfg{family: "model", nScopes: 1 + rng.IntN(4), phases: 2 + rng.IntN(4), opsPerPh: 6 + rng.IntN(22),
			fault: rng.IntN(3) == 0, reopenProb: 55, opts: opts, chunk: chunk, probeEvery: 3}
	}}, r.N(280, 2500))
}

// TestVerifC14Concurrent: one goroutine per scope writing concurrently through
// the shared group write worker (race detector on); fault cases inject calls
// that fail the whole group flush.
func TestVerifC14Concurrent(t *testing.T) {
	r := verifkit.Start(t, "C14", "concurrent")
	defer r.Finish()
	r.SetRule(c14RuleRef + " This unit: one goroutine per scope, concurrent writers, -race; in fault cases a call of another scope may fail a valid call (allowed error): the state must be unchanged and the call is retried.")
	c14RunFamily(t, r, c14Family{id: "concurrent", stream: 2, workers: 4, mk: func(rng *rand.Rand, i int) c14CaseCfg {
		opts, chunk := c14Opts(rng)
		if rng.IntN(2) == 0 {
			// let the worker actually group calls of several scopes
			opts.WriteBatchMaxItems = []int{2, 3, 4, 128}[rng.IntN(4)]
			opts.WriteBatchMaxWait = []time.Duration{200 * time.Microsecond, time.Millisecond, 3 * time.Millisecond}[rng.IntN(3)]
		}
		return c14CaseCfg{family: "concurrent", nScopes: 2 + rng.IntN(3), phases: 2 + rng.IntN(3), opsPerPh: 8 + rng.IntN(16),
			concurrent: true, fault: rng.IntN(2) == 0, reopenProb: 60, opts: opts, chunk: chunk, probeEvery: 3}
	}}, r.N(40, 350))
}

// TestVerifC14Crash: Pebble runs on vfs.CrashableMem through the verif FS seam;
// crash images (process kill = everything written, power loss = synced data
// plus a PRNG subset of unsynced blocks) are taken before PRNG-chosen FS
// mutations (WAL write, sync, create, rename ...) while calls are in flight.
func TestVerifC14Crash(t *testing.T) {
	r := verifkit.Start(t, "C14", "crash")
	defer r.Finish()
	r.SetRule(c14RuleRef + " This unit: crash images; per scope the recovered state must equal the reference after j calls with (calls returned before the image) <= j <= (calls issued after it).")
	r.Assume("snapshot chunk directories live on the real file system and are not crash-simulated: images are checked against a chunk root that is never garbage collected (1h grace), relying on publish-before-commit")
	c14RunFamily(t, r, c14Family{id: "crash", stream: 3, workers: 8, mk: func(rng *rand.Rand, i int) c14CaseCfg {
		opts, chunk := c14Opts(rng)
		conc := rng.IntN(10) < 7
		if conc && rng.IntN(2) == 0 {
			opts.WriteBatchMaxItems = []int{2, 4, 128}[rng.IntN(3)]
			opts.WriteBatchMaxWait = []time.Duration{200 * time.Microsecond, time.Millisecond}[rng.IntN(2)]
		}
		n := 1 + rng.IntN(4)
		if conc && n == 1 {
			n = 2
		}
		return c14CaseCfg{family: "crash", nScopes: n, phases: 2 + rng.IntN(3), opsPerPh: 6 + rng.IntN(16),
			concurrent: conc, crash: true, fault: rng.IntN(4) == 0, reopenProb: 40, opts: opts, chunk: chunk, probeEvery: 5}
	}}, r.N(100, 1000))
}

// TestVerifC14StaleSuffix: the one Raft-valid call shape kept apart from the
// other units: a leader snapshot (index k, term t) installed by a follower whose
// log still holds an uncommitted suffix beyond k from an older term
// (commit < k < last, term(k) != t). etcd raft drops the whole log in that
// restore (raftLog.restore / MemoryStorage.ApplySnapshot), and the Ready that
// multiraft persists carries only HardState + Snapshot.
func TestVerifC14StaleSuffix(t *testing.T) {
	r := verifkit.Start(t, "C14", "stalesuffix")
	defer r.Finish()
	r.SetRule(c14RuleRef + " This unit: histories that additionally contain snapshot installs strictly inside an uncommitted stale suffix.")
	c14RunFamily(t, r, c14Family{id: "stalesuffix", stream: 4, workers: 4, mk: func(rng *rand.Rand, i int) c14CaseCfg {
		opts, chunk := c14Opts(rng)
		return c14CaseCfg{family: "stalesuffix", nScopes: 1 + rng.IntN(2), phases: 2 + rng.IntN(3), opsPerPh: 6 + rng.IntN(12),
			stale: true, reopenProb: 60, opts: opts, chunk: chunk, probeEvery: 3}
	}}, r.N(12, 60))
}
