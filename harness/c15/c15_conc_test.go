//go:build verif

package c15

// Concurrent unit of C15: several writers of ONE hash slot work on a handful
// of overlapping channels of one meta DB at the same time (Shard upsert,
// ShardStore, typed Batch, WriteBatch, retention advances with right/wrong
// fences, create-if-absent, rare deletes, plus at most one goroutine that
// owns the slot state machine - ApplyBatch is called by one apply loop per
// slot in the product, so it is never called concurrently here either).
//
// The oracle uses no timing. Every reader (a dedicated observer goroutine and
// each writer after its own writes) compares ITS OWN successive observations
// of a row with the clauses R1..R4 of the sequential unit; the clauses are
// transitive, so they hold between any two reads that are not separated by a
// delete. A delete is accounted with two per-channel counters (started /
// finished): two reads are compared only if the number of deletes finished
// before the first read started equals the number of deletes started after
// the second read returned, i.e. no delete call overlapped the window at all
// (this subsumes "the observer saw the row absent" and "a delete returned
// before the later read started" and is the conservative side of both).
//
// In addition the monitor keeps, per channel and per delete epoch, what the
// writes that RETURNED ok have established (only results whose meaning is
// unambiguous under concurrency are used):
//
//   - Shard.UpsertChannelRuntimeMeta returned MonotonicApplied with candidate
//     c: from then on pair >= (c.CE, c.LE), retention >= c.Retention, fence
//     version >= c.FenceVersion, route generation >= c.RouteGeneration (if
//     explicit), and while the pair still equals c's pair the leader is c's
//     and the lease is >= c's;
//   - an advance that returned nil: retention >= its target;
//   - an advance that returned nil must have carried a fence pair that is not
//     behind a pair established before the advance started.
//
// These lower bounds are checked by the writer right after its own write
// ("applied-write-lost") and on the quiescent row after all writers joined.

import (
	"context"
	"fmt"
	"path/filepath"
	"runtime"
	"sync"
	"sync/atomic"
	"testing"

	metadb "github.com/WuKongIM/WuKongIM/pkg/db/meta"
	"github.com/WuKongIM/WuKongIM/pkg/slot/fsm"
	"github.com/WuKongIM/WuKongIM/pkg/slot/multiraft"
	"github.com/WuKongIM/WuKongIM/pkg/verifkit"
)

type c15cApplied struct {
	CE, LE, Leader uint64
	Lease          int64
}

// c15cChan is one channel of a concurrent case.
type c15cChan struct {
	id  string
	typ int64

	delStarted  atomic.Uint64
	delFinished atomic.Uint64

	mu       sync.Mutex
	estEpoch uint64 // delete epoch the established bounds belong to
	applied  []c15cApplied
	maxPair  [2]uint64
	maxRet   uint64
	maxFence uint64
	maxRG    uint64
}

// establish merges a bound learned in delete epoch e (no delete overlapped the
// write that taught it).
func (ch *c15cChan) establish(e uint64, f func()) {
	ch.mu.Lock()
	defer ch.mu.Unlock()
	if e < ch.estEpoch {
		return
	}
	if e > ch.estEpoch {
		ch.estEpoch, ch.applied, ch.maxPair, ch.maxRet, ch.maxFence, ch.maxRG = e, nil, [2]uint64{}, 0, 0, 0
	}
	f()
}

func c15PairLess(a0, a1, b0, b1 uint64) bool { return a0 < b0 || (a0 == b0 && a1 < b1) }

type c15cObs struct {
	prev *c15Meta
	fpre uint64
}

type c15cCase struct {
	r     *verifkit.Run
	ci    int
	hs    uint16
	db    *metadb.DB
	sh    *metadb.Shard
	chans []*c15cChan
	cnt   sync.Map // string -> *atomic.Int64

	logMu sync.Mutex
	log   []string
	tick  atomic.Int64
}

func (cs *c15cCase) count(k string, n int) {
	v, ok := cs.cnt.Load(k)
	if !ok {
		v, _ = cs.cnt.LoadOrStore(k, new(atomic.Int64))
	}
	v.(*atomic.Int64).Add(int64(n))
}

func (cs *c15cCase) note(format string, args ...any) {
	t := cs.tick.Add(1)
	cs.logMu.Lock()
	if len(cs.log) < 600 {
		cs.log = append(cs.log, fmt.Sprintf("t%d ", t)+fmt.Sprintf(format, args...))
	}
	cs.logMu.Unlock()
}

func (cs *c15cCase) witness(ch *c15cChan, who string, extra map[string]any) map[string]any {
	cs.logMu.Lock()
	tail := append([]string(nil), cs.log...)
	cs.logMu.Unlock()
	if len(tail) > 80 {
		tail = tail[len(tail)-80:]
	}
	w := map[string]any{"case": cs.ci, "hash_slot": cs.hs, "channel": ch.id, "type": ch.typ, "who": who, "recent_ops": tail}
	for k, v := range extra {
		w[k] = v
	}
	return w
}

// relational applies R1..R4 to two observations of one reader.
func (cs *c15cCase) relational(ch *c15cChan, who string, b, a c15Meta) {
	r := cs.r
	w := func() map[string]any { return cs.witness(ch, who, map[string]any{"earlier": b, "later": a}) }
	switch {
	case a.ChannelEpoch < b.ChannelEpoch:
		r.Violation("channel-epoch-decreased:concurrent", w())
	case a.ChannelEpoch == b.ChannelEpoch && a.LeaderEpoch < b.LeaderEpoch:
		r.Violation("leader-epoch-decreased:concurrent", w())
	}
	if a.ChannelEpoch == b.ChannelEpoch && a.LeaderEpoch == b.LeaderEpoch {
		if a.Leader != b.Leader {
			r.Violation("same-epoch-leader-switch:concurrent", w())
		}
		if a.LeaseUntilMS < b.LeaseUntilMS {
			r.Violation("same-epoch-lease-shortened:concurrent", w())
		}
	}
	if a.RetentionThroughSeq < b.RetentionThroughSeq {
		r.Violation("retention-decreased:concurrent", w())
	}
	if a.WriteFenceVersion < b.WriteFenceVersion {
		r.Violation("fence-version-decreased:concurrent", w())
	}
	if a.RouteGeneration < b.RouteGeneration {
		r.Violation("route-generation-decreased:concurrent", w())
	}
	if chg := c15RouteChange(b, a); len(chg) > 0 && a.RouteGeneration <= b.RouteGeneration {
		r.Violation("route-generation-not-bumped:"+chg[0]+":concurrent", w())
	}
}

// observe reads the row once and compares it with the reader's previous
// observation if no delete call overlapped the window between the two reads.
// It returns the row (nil if absent) and the counters bracketing the read.
func (cs *c15cCase) observe(who string, ch *c15cChan, o *c15cObs) (row *c15Meta, fpre, spost uint64, ok bool) {
	fpre = ch.delFinished.Load()
	m, exists, err := cs.sh.GetChannelRuntimeMeta(t15ctx, ch.id, ch.typ)
	spost = ch.delStarted.Load()
	if err != nil {
		cs.r.Violation("readback-error:concurrent", cs.witness(ch, who, map[string]any{"err": err.Error()}))
		return nil, fpre, spost, false
	}
	cs.count("observations", 1)
	if !exists {
		if o.prev != nil && o.fpre == spost {
			cs.r.Violation("row-vanished-without-delete:concurrent", cs.witness(ch, who, map[string]any{"earlier": *o.prev}))
		}
		o.prev = nil
		return nil, fpre, spost, true
	}
	if o.prev != nil {
		if o.fpre == spost {
			cs.relational(ch, who, *o.prev, m)
			cs.count("observation_pairs_checked", 1)
			if !c15Equal(*o.prev, m) {
				cs.count("observation_pairs_with_change", 1)
			}
		} else {
			cs.count("observation_pairs_reset_by_delete", 1)
		}
	}
	o.prev, o.fpre = &m, fpre
	return &m, fpre, spost, true
}

// lowerBounds checks what an Applied Shard upsert with candidate c guarantees
// for any later row of the same delete epoch.
func (cs *c15cCase) lowerBounds(ch *c15cChan, who, site string, c c15Meta, row c15Meta) {
	w := func() map[string]any { return cs.witness(ch, who, map[string]any{"applied_candidate": c, "row": row}) }
	lost := func(field string) { cs.r.Violation("applied-write-lost:"+field+":"+site+":concurrent", w()) }
	if c15PairLess(row.ChannelEpoch, row.LeaderEpoch, c.ChannelEpoch, c.LeaderEpoch) {
		lost("epoch")
	}
	if row.ChannelEpoch == c.ChannelEpoch && row.LeaderEpoch == c.LeaderEpoch {
		if row.Leader != c.Leader {
			lost("leader")
		}
		if row.LeaseUntilMS < c.LeaseUntilMS {
			lost("lease")
		}
	}
	if row.RetentionThroughSeq < c.RetentionThroughSeq {
		lost("retention")
	}
	if row.WriteFenceVersion < c.WriteFenceVersion {
		lost("fence-version")
	}
	if c.RouteGeneration != 0 && row.RouteGeneration < c.RouteGeneration {
		lost("route-generation")
	}
}

var t15ctx = context.Background()

// ---------------------------------------------------------------------------
// writers

type c15cWriter struct {
	cs  *c15cCase
	id  int
	who string
	obs []c15cObs
	sm  multiraft.BatchStateMachine // only the fsm owner
	idx uint64
}

func (w *c15cWriter) run(nOps int, allowDelete bool) {
	cs := w.cs
	rng := cs.r.Rand(1515, uint64(cs.ci), uint64(w.id))
	st := cs.db.ForHashSlot(cs.hs)
	for i := 0; i < nOps; i++ {
		ci := rng.IntN(len(cs.chans))
		ch := cs.chans[ci]
		cur, fpre, _, ok := cs.observe(w.who, ch, &w.obs[ci])
		if !ok {
			return
		}
		k := rng.IntN(100)
		switch {
		case w.sm != nil: // the single owner of the slot state machine
			var data []byte
			desc := ""
			switch {
			case k < 55:
				op := c15GenUpsert(rng, ch.id, ch.typ, cur)
				data, desc = fsm.EncodeUpsertChannelRuntimeMetaCommand(*op.Meta), "fsm/upsert "+op.Gen
			case k < 85:
				op := c15GenAdvance(rng, ch.id, ch.typ, cur)
				data, desc = fsm.EncodeAdvanceChannelRetentionThroughSeqCommand(*op.Adv), "fsm/advance "+op.Gen
			default:
				m := c15RandomMeta(rng, ch.id, ch.typ, cur)
				var err error
				data, err = fsm.EncodeCreateChannelRuntimeMetaBatchCommandChecked([]fsm.CreateChannelRuntimeMetaBatchItem{{HashSlot: cs.hs, Meta: m}})
				if err != nil {
					continue
				}
				desc = "fsm/create"
			}
			w.idx++
			res, err := w.sm.ApplyBatch(t15ctx, []multiraft.Command{{SlotID: multiraft.SlotID(1000 + cs.ci), HashSlot: cs.hs, Index: w.idx, Term: 1, Data: data}})
			out := "err"
			if err == nil {
				out = c15ResultString(res[0])
			}
			cs.note("%s %s %s -> %s", w.who, ch.id, desc, out)
			cs.count("op.fsm."+out, 1)
		case k < 38: // Shard upsert: the result tells applied / stale / conflict
			op := c15GenUpsert(rng, ch.id, ch.typ, cur)
			c := *op.Meta
			res, err := cs.sh.UpsertChannelRuntimeMeta(t15ctx, c)
			cs.note("%s %s shard/upsert %s ce=%d le=%d leader=%d lease=%d ret=%d rg=%d -> res=%d err=%v", w.who, ch.id, op.Gen, c.ChannelEpoch, c.LeaderEpoch, c.Leader, c.LeaseUntilMS, c.RetentionThroughSeq, c.RouteGeneration, res, err)
			cs.count(fmt.Sprintf("op.shard/upsert.res%d", res), 1)
			if res == metadb.MonotonicApplied && err == nil {
				row, _, spost, ok := cs.observe(w.who, ch, &w.obs[ci])
				if !ok {
					return
				}
				if fpre == spost { // no delete call overlapped [before the write, after the read]
					if row == nil {
						cs.r.Violation("row-vanished-without-delete:concurrent", cs.witness(ch, w.who, map[string]any{"applied_candidate": c}))
					} else {
						cs.lowerBounds(ch, w.who, "after-own-write", c, *row)
						cs.count("applied_upserts_checked_after_own_write", 1)
					}
					ch.establish(fpre, func() {
						ch.applied = append(ch.applied, c15cApplied{c.ChannelEpoch, c.LeaderEpoch, c.Leader, c.LeaseUntilMS})
						if c15PairLess(ch.maxPair[0], ch.maxPair[1], c.ChannelEpoch, c.LeaderEpoch) {
							ch.maxPair = [2]uint64{c.ChannelEpoch, c.LeaderEpoch}
						}
						ch.maxRet = max(ch.maxRet, c.RetentionThroughSeq)
						ch.maxFence = max(ch.maxFence, c.WriteFenceVersion)
						ch.maxRG = max(ch.maxRG, c.RouteGeneration)
					})
				}
			}
		case k < 66: // retention advance
			op := c15GenAdvance(rng, ch.id, ch.typ, cur)
			adv := *op.Adv
			ch.mu.Lock()
			estPair, estEpoch := ch.maxPair, ch.estEpoch
			ch.mu.Unlock()
			path := c15Pick(rng, c15PathShard, c15PathShard, c15PathStore, c15PathWB)
			var err error
			switch path {
			case c15PathShard:
				err = cs.sh.AdvanceChannelRetentionThroughSeq(t15ctx, adv)
			case c15PathStore:
				err = st.AdvanceChannelRetentionThroughSeq(t15ctx, adv)
			default:
				wb := cs.db.NewWriteBatch()
				if err = wb.AdvanceChannelRetentionThroughSeq(cs.hs, adv); err == nil {
					err = wb.Commit()
				}
				wb.Close()
			}
			spost := ch.delStarted.Load()
			cs.note("%s %s %s/advance %s exp=(%d,%d,l%d,%d) ret=%d -> %v", w.who, ch.id, path, op.Gen, adv.ExpectedChannelEpoch, adv.ExpectedLeaderEpoch, adv.ExpectedLeader, adv.ExpectedLeaseUntilMS, adv.RetentionThroughSeq, err)
			cs.count("op."+path+"/advance."+c15ErrClass(err).Class, 1)
			if err == nil && fpre == spost {
				// the fence was compared with the row: it cannot be behind a
				// pair that an Applied upsert had established before we started
				if estEpoch == fpre && c15PairLess(adv.ExpectedChannelEpoch, adv.ExpectedLeaderEpoch, estPair[0], estPair[1]) {
					cs.r.Violation("advance-accepted-behind-established-epoch:concurrent", cs.witness(ch, w.who, map[string]any{"advance": adv, "established_pair": estPair}))
				}
				ch.establish(fpre, func() { ch.maxRet = max(ch.maxRet, adv.RetentionThroughSeq) })
				cs.count("advances_ok", 1)
			}
		case k < 84: // typed Batch / WriteBatch upsert (applied-or-stale not distinguishable)
			op := c15GenUpsert(rng, ch.id, ch.typ, cur)
			var err error
			path := c15PathBatch
			if rng.IntN(2) == 0 {
				b := cs.db.MetaDB().NewBatch()
				if _, err = b.UpsertChannelRuntimeMeta(metadb.HashSlot(cs.hs), *op.Meta); err == nil {
					if rng.IntN(3) == 0 { // a second channel in the same commit
						o2 := cs.chans[rng.IntN(len(cs.chans))]
						if o2 != ch {
							m2 := c15RandomMeta(rng, o2.id, o2.typ, nil)
							_, _ = b.CreateChannelRuntimeMeta(metadb.HashSlot(cs.hs), m2)
						}
					}
					err = b.Commit(t15ctx)
				}
				b.Close()
			} else {
				path = c15PathWB
				wb := cs.db.NewWriteBatch()
				if err = wb.UpsertChannelRuntimeMeta(cs.hs, *op.Meta); err == nil {
					err = wb.Commit()
				}
				wb.Close()
			}
			cs.note("%s %s %s/upsert %s -> %v", w.who, ch.id, path, op.Gen, err)
			cs.count("op."+path+"/upsert."+c15ErrClass(err).Class, 1)
		case k < 90: // ShardStore upsert
			op := c15GenUpsert(rng, ch.id, ch.typ, cur)
			err := st.UpsertChannelRuntimeMeta(t15ctx, *op.Meta)
			cs.note("%s %s store/upsert %s -> %v", w.who, ch.id, op.Gen, err)
			cs.count("op.store/upsert."+c15ErrClass(err).Class, 1)
		case k < 97 || !allowDelete: // create-if-absent
			m := c15RandomMeta(rng, ch.id, ch.typ, cur)
			wb := cs.db.NewWriteBatch()
			_, err := wb.CreateChannelRuntimeMeta(cs.hs, m)
			if err == nil {
				err = wb.Commit()
			}
			wb.Close()
			cs.note("%s %s wb/create -> %v", w.who, ch.id, err)
			cs.count("op.wb/create."+c15ErrClass(err).Class, 1)
		default: // delete (rare): both counters bracket the call
			ch.delStarted.Add(1)
			var err error
			if rng.IntN(2) == 0 {
				err = cs.sh.DeleteChannelRuntimeMeta(t15ctx, ch.id, ch.typ)
			} else {
				wb := cs.db.NewWriteBatch()
				if err = wb.DeleteChannelRuntimeMeta(cs.hs, ch.id, ch.typ); err == nil {
					err = wb.Commit()
				}
				wb.Close()
			}
			ch.delFinished.Add(1)
			cs.note("%s %s delete -> %v", w.who, ch.id, err)
			cs.count("op.delete."+c15ErrClass(err).Class, 1)
		}
		if _, _, _, ok := cs.observe(w.who, ch, &w.obs[ci]); !ok {
			return
		}
	}
}

// ---------------------------------------------------------------------------

func c15cRunCase(r *verifkit.Run, db *metadb.DB, ci int) {
	rng := r.Rand(1500, uint64(ci))
	hs := uint16(200 + ci%60000)
	cs := &c15cCase{r: r, ci: ci, hs: hs, db: db, sh: db.MetaDB().HashSlot(metadb.HashSlot(hs))}
	nCh := 1 + rng.IntN(3)
	for i := 0; i < nCh; i++ {
		cs.chans = append(cs.chans, &c15cChan{id: fmt.Sprintf("cc%d-%d", ci, i), typ: 2})
	}
	// seed rows so that advances have something to fence on
	for _, ch := range cs.chans {
		if rng.IntN(4) != 0 {
			m := c15RandomMeta(rng, ch.id, ch.typ, nil)
			_, _ = cs.sh.UpsertChannelRuntimeMeta(t15ctx, m)
		}
	}
	nWriters := 2 + rng.IntN(5)
	nOps := 8 + rng.IntN(14)
	allowDelete := rng.IntN(4) == 0
	withFSM := rng.IntN(2) == 0

	var stop atomic.Bool
	var wg, owg sync.WaitGroup
	owg.Add(1)
	go func() { // dedicated observer
		defer owg.Done()
		obs := make([]c15cObs, len(cs.chans))
		for !stop.Load() {
			for i, ch := range cs.chans {
				if _, _, _, ok := cs.observe("observer", ch, &obs[i]); !ok {
					return
				}
			}
			runtime.Gosched()
		}
		for i, ch := range cs.chans {
			cs.observe("observer", ch, &obs[i])
		}
	}()
	for w := 0; w < nWriters; w++ {
		wr := &c15cWriter{cs: cs, id: w, who: fmt.Sprintf("w%d", w), obs: make([]c15cObs, len(cs.chans))}
		if w == 0 && withFSM {
			sm, err := fsm.NewStateMachineWithHashSlots(db, uint64(1000+ci), []uint16{hs})
			if err == nil {
				wr.sm, _ = sm.(multiraft.BatchStateMachine)
				wr.who = "w0fsm"
			}
		}
		wg.Add(1)
		go func() {
			defer wg.Done()
			r.Guard("c15conc:writer", map[string]any{"case": ci, "writer": wr.who}, func() { wr.run(nOps, allowDelete) })
		}()
	}
	wg.Wait()
	stop.Store(true)
	owg.Wait()

	// quiescent end: the final row carries at least what returned-ok writes of
	// the last delete epoch established
	changedRows := 0
	for _, ch := range cs.chans {
		ds, df := ch.delStarted.Load(), ch.delFinished.Load()
		m, exists, err := cs.sh.GetChannelRuntimeMeta(t15ctx, ch.id, ch.typ)
		if err != nil {
			r.Violation("readback-error:concurrent", cs.witness(ch, "final", map[string]any{"err": err.Error()}))
			continue
		}
		ch.mu.Lock()
		est := ch.estEpoch == df && ds == df
		applied, maxRet, maxFence, maxRG := ch.applied, ch.maxRet, ch.maxFence, ch.maxRG
		ch.mu.Unlock()
		if !est || (len(applied) == 0 && maxRet == 0) {
			cs.count("final_rows_without_established_bounds", 1)
			continue
		}
		if !exists {
			r.Violation("row-vanished-without-delete:concurrent", cs.witness(ch, "final", map[string]any{"applied": applied}))
			continue
		}
		changedRows++
		cs.count("final_rows_checked", 1)
		for _, a := range applied {
			c := c15Meta{ChannelEpoch: a.CE, LeaderEpoch: a.LE, Leader: a.Leader, LeaseUntilMS: a.Lease}
			c.RetentionThroughSeq, c.WriteFenceVersion, c.RouteGeneration = maxRet, maxFence, maxRG
			cs.lowerBounds(ch, "final", "quiescent", c, m)
		}
		if len(applied) == 0 && m.RetentionThroughSeq < maxRet {
			r.Violation("applied-write-lost:retention:quiescent:concurrent", cs.witness(ch, "final", map[string]any{"row": m, "max_ok_advance": maxRet}))
		}
	}
	r.Eval(1)
	cs.cnt.Range(func(k, v any) bool {
		r.Count(k.(string), int(v.(*atomic.Int64).Load()))
		return true
	})
	r.Count("cases", 1)
	r.Count(fmt.Sprintf("cases_with_%d_writers", nWriters), 1)
	if nWriters >= 2 && changedRows > 0 {
		// shape of the case, not its schedule (which is not reproducible)
		r.Nontrivial(fmt.Sprintf("w%d/o%d/c%d/d%v/f%v/%d", nWriters, nOps, nCh, allowDelete, withFSM, ci))
	}
}

func TestVerifC15Conc(t *testing.T) {
	r := verifkit.Start(t, "C15", "conc")
	defer r.Finish()
	r.SetRule("Each case: one hash slot of one meta DB, 1-3 channels, 2-6 concurrent writer goroutines x 8-21 PRNG-generated writes on overlapping channels (Shard upsert, ShardStore, typed Batch, WriteBatch, retention advances with right/wrong fences via Shard/ShardStore/WriteBatch, create-if-absent, deletes in a quarter of the cases; in half of the cases writer 0 is the single owner of the slot state machine and issues fsm upsert/advance/create commands) plus one observer goroutine reading all rows in a loop. Every reader checks R1..R4 between its own successive observations when no delete call overlapped the window; Applied Shard upserts and ok advances establish lower bounds checked after the own write and on the quiescent final row. Built with -race. Generated operation lists are a function of (seed, case, writer); the interleaving is left to the scheduler. Non-trivial = case with >=2 writers whose final row was checked against established bounds; distinct by case shape and index.")
	r.Assume("The slot state machine is driven by one goroutine only (multiraft applies one batch at a time per slot). Direct meta writers and that goroutine share the hash slot.")
	r.Assume("Two observations are compared only when no delete call overlapped the window between them (deletes finished before the first read == deletes started after the second); established bounds are kept per delete epoch and learned only from writes no delete overlapped.")
	r.Assume("Only unambiguous results are used for bounds: MonotonicApplied from Shard.UpsertChannelRuntimeMeta and nil from an advance. 'Stale/conflict must not change the row' is not judged under concurrency (another writer may have changed it); the sequential unit covers it.")

	nCases := r.N(700, 9000)
	const runners = 3
	var wg sync.WaitGroup
	for w := 0; w < runners; w++ {
		db, err := metadb.Open(filepath.Join(t.TempDir(), fmt.Sprintf("conc%d", w)))
		if err != nil {
			t.Fatalf("c15conc: meta.Open: %v", err)
		}
		wg.Add(1)
		go func(w int, db *metadb.DB) {
			defer wg.Done()
			defer db.Close()
			for ci := w; ci < nCases; ci += runners {
				if r.Skip(ci) {
					continue
				}
				r.BeginCase(ci, "concurrent")
				c15cRunCase(r, db, ci)
				if r.NumViolations() > 30 {
					return
				}
			}
		}(w, db)
	}
	wg.Wait()
}
