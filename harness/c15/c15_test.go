//go:build verif

// Package c15 is the runtime monitor for property C15 "Channel routing
// metadata never regresses". It drives the real pkg/db/meta runtime-metadata
// writers (shard API, typed Batch, compatibility WriteBatch/ShardStore) and the
// slot state machine commands of pkg/slot/fsm with generated, hostile write
// sequences and compares the stored row before and after every write.
//
// The oracle is written from the property statement, not from
// resolveMonotonicChannelRuntimeMeta:
//
//	R1 (channel epoch, leader epoch) never decreases lexicographically
//	R2 same (channel epoch, leader epoch) => leader unchanged, lease not shortened
//	R3 retention boundary and write-fence version never decrease
//	R4 any change of leader/replicas/ISR/status/lease/retention/fence
//	   => route generation strictly increases (and it never decreases)
//	R5 a write reported stale / conflicting / failed leaves the row unchanged
//	R6 create-if-absent never replaces an existing row
//
// Interpretations (see DESIGN.md C15): the epoch order is lexicographic, so a
// lower leader epoch that arrives together with a higher channel epoch is only
// counted; a delete resets the baseline (the re-created row is a new history).
package c15

import (
	"context"
	"errors"
	"fmt"
	"hash/fnv"
	"math/rand/v2"
	"path/filepath"
	"slices"
	"strings"
	"sync"
	"testing"

	metadb "github.com/WuKongIM/WuKongIM/pkg/db/meta"
	"github.com/WuKongIM/WuKongIM/pkg/protocol/channelid"
	"github.com/WuKongIM/WuKongIM/pkg/slot/fsm"
	"github.com/WuKongIM/WuKongIM/pkg/slot/multiraft"
	"github.com/WuKongIM/WuKongIM/pkg/verifkit"
)

type c15Meta = metadb.ChannelRuntimeMeta

// c15Env is one worker's private database and state machine.
type c15Env struct {
	db    *metadb.DB
	mdb   *metadb.MetaDB
	sm    multiraft.BatchStateMachine
	slot  uint64
	index uint64
	ctx   context.Context
}

var c15HashSlots = []uint16{11, 12}

func c15Open(t testing.TB, dir string, slot uint64) *c15Env {
	db, err := metadb.Open(dir)
	if err != nil {
		t.Fatalf("c15: meta.Open: %v", err)
	}
	sm, err := fsm.NewStateMachineWithHashSlots(db, slot, c15HashSlots)
	if err != nil {
		t.Fatalf("c15: NewStateMachineWithHashSlots: %v", err)
	}
	bsm, ok := sm.(multiraft.BatchStateMachine)
	if !ok {
		t.Fatalf("c15: slot state machine does not implement BatchStateMachine")
	}
	return &c15Env{db: db, mdb: db.MetaDB(), sm: bsm, slot: slot, ctx: context.Background()}
}

func (e *c15Env) nextIndex() uint64 { e.index++; return e.index }

// ---------------------------------------------------------------------------
// operations

const (
	c15KindUpsert  = "upsert"
	c15KindCreate  = "create"
	c15KindAdvance = "advance"
	c15KindDelete  = "delete"
)

const (
	c15PathShard = "shard" // meta.Shard methods (MonotonicResult visible)
	c15PathStore = "store" // compat ShardStore
	c15PathBatch = "batch" // typed meta.Batch
	c15PathWB    = "wb"    // compat WriteBatch (what the fsm uses)
	c15PathFSM   = "fsm"   // encoded command through the slot state machine
)

type c15Op struct {
	Kind string                          `json:"kind"`
	Meta *c15Meta                        `json:"meta,omitempty"`
	Adv  *metadb.ChannelRetentionAdvance `json:"adv,omitempty"`
	Gen  string                          `json:"gen,omitempty"` // how the candidate was generated
}

// c15Group is a list of operations on one channel committed atomically through
// one path. Most groups hold one operation.
type c15Group struct {
	Path string  `json:"path"`
	Ops  []c15Op `json:"ops"`
}

// outcome classes
const (
	c15Applied  = "applied"  // reported durably written
	c15Stale    = "stale"    // reported ignored as stale
	c15Conflict = "conflict" // reported conflicting
	c15Error    = "error"    // any other error
	c15OK       = "ok"       // no error, applied-or-ignored not distinguishable on this path
	c15Created  = "created"
	c15Existed  = "existed"
)

type c15Outcome struct {
	Class   string   `json:"class"`
	Err     string   `json:"err,omitempty"`
	PerCmd  []string `json:"per_cmd,omitempty"`
	HardErr bool     `json:"hard_err,omitempty"`
}

func c15IsConflict(err error) bool { return errors.Is(err, metadb.ErrStaleMeta) }

func c15ErrClass(err error) c15Outcome {
	if err == nil {
		return c15Outcome{Class: c15OK}
	}
	if c15IsConflict(err) {
		return c15Outcome{Class: c15Conflict, Err: err.Error()}
	}
	return c15Outcome{Class: c15Error, Err: err.Error()}
}

// run executes the group and classifies what the API reported.
func (e *c15Env) run(hs uint16, id string, typ int64, g c15Group) c15Outcome {
	switch g.Path {
	case c15PathShard:
		sh := e.mdb.HashSlot(metadb.HashSlot(hs))
		op := g.Ops[0]
		switch op.Kind {
		case c15KindUpsert:
			res, err := sh.UpsertChannelRuntimeMeta(e.ctx, *op.Meta)
			switch {
			case res == metadb.MonotonicApplied && err == nil:
				return c15Outcome{Class: c15Applied}
			case res == metadb.MonotonicIgnoredStale && err == nil:
				return c15Outcome{Class: c15Stale}
			case res == metadb.MonotonicConflict:
				return c15Outcome{Class: c15Conflict, Err: fmt.Sprint(err)}
			default:
				return c15Outcome{Class: c15Error, Err: fmt.Sprint(err)}
			}
		case c15KindAdvance:
			return c15ErrClass(sh.AdvanceChannelRetentionThroughSeq(e.ctx, *op.Adv))
		case c15KindDelete:
			return c15ErrClass(sh.DeleteChannelRuntimeMeta(e.ctx, id, typ))
		}
	case c15PathStore:
		st := e.db.ForHashSlot(hs)
		op := g.Ops[0]
		switch op.Kind {
		case c15KindUpsert:
			return c15ErrClass(st.UpsertChannelRuntimeMeta(e.ctx, *op.Meta))
		case c15KindAdvance:
			return c15ErrClass(st.AdvanceChannelRetentionThroughSeq(e.ctx, *op.Adv))
		case c15KindDelete:
			return c15ErrClass(st.DeleteChannelRuntimeMeta(e.ctx, id, typ))
		}
	case c15PathBatch:
		b := e.mdb.NewBatch()
		defer b.Close()
		var created []*metadb.ChannelRuntimeMetaCreateResult
		for _, op := range g.Ops {
			var err error
			switch op.Kind {
			case c15KindUpsert:
				_, err = b.UpsertChannelRuntimeMeta(metadb.HashSlot(hs), *op.Meta)
			case c15KindCreate:
				var res *metadb.ChannelRuntimeMetaCreateResult
				res, err = b.CreateChannelRuntimeMeta(metadb.HashSlot(hs), *op.Meta)
				created = append(created, res)
			}
			if err != nil { // staging refused: nothing is committed
				out := c15ErrClass(err)
				out.Err = "stage: " + out.Err
				return out
			}
		}
		out := c15ErrClass(b.Commit(e.ctx))
		if out.Class == c15OK && len(g.Ops) == 1 && g.Ops[0].Kind == c15KindCreate {
			if created[0].Created {
				out.Class = c15Created
			} else {
				out.Class = c15Existed
			}
		}
		return out
	case c15PathWB:
		wb := e.db.NewWriteBatch()
		defer wb.Close()
		var created []*metadb.ChannelRuntimeMetaCreateResult
		for _, op := range g.Ops {
			var err error
			switch op.Kind {
			case c15KindUpsert:
				err = wb.UpsertChannelRuntimeMeta(hs, *op.Meta)
			case c15KindCreate:
				var res *metadb.ChannelRuntimeMetaCreateResult
				res, err = wb.CreateChannelRuntimeMeta(hs, *op.Meta)
				created = append(created, res)
			case c15KindAdvance:
				err = wb.AdvanceChannelRetentionThroughSeq(hs, *op.Adv)
			case c15KindDelete:
				err = wb.DeleteChannelRuntimeMeta(hs, id, typ)
			}
			if err != nil {
				out := c15ErrClass(err)
				out.Err = "stage: " + out.Err
				return out
			}
		}
		out := c15ErrClass(wb.Commit())
		if out.Class == c15OK && len(g.Ops) == 1 && g.Ops[0].Kind == c15KindCreate {
			if created[0].Created {
				out.Class = c15Created
			} else {
				out.Class = c15Existed
			}
		}
		return out
	case c15PathFSM:
		cmds := make([]multiraft.Command, 0, len(g.Ops))
		for _, op := range g.Ops {
			var data []byte
			switch op.Kind {
			case c15KindUpsert:
				data = fsm.EncodeUpsertChannelRuntimeMetaCommand(*op.Meta)
			case c15KindCreate:
				var err error
				data, err = fsm.EncodeCreateChannelRuntimeMetaBatchCommandChecked([]fsm.CreateChannelRuntimeMetaBatchItem{{HashSlot: hs, Meta: *op.Meta}})
				if err != nil {
					return c15Outcome{Class: c15Error, Err: "encode: " + err.Error()}
				}
			case c15KindAdvance:
				data = fsm.EncodeAdvanceChannelRetentionThroughSeqCommand(*op.Adv)
			case c15KindDelete:
				data = fsm.EncodeDeleteChannelRuntimeMetaCommand(id, typ)
			}
			cmds = append(cmds, multiraft.Command{SlotID: multiraft.SlotID(e.slot), HashSlot: hs, Index: e.nextIndex(), Term: 1, Data: data})
		}
		results, err := e.sm.ApplyBatch(e.ctx, cmds)
		if err != nil {
			out := c15ErrClass(err)
			out.HardErr = true
			return out
		}
		out := c15Outcome{Class: c15OK}
		for _, res := range results {
			out.PerCmd = append(out.PerCmd, c15ResultString(res))
		}
		if len(g.Ops) == 1 {
			switch {
			case string(results[0]) == fsm.ApplyResultStaleMeta:
				out.Class = c15Conflict
			case g.Ops[0].Kind == c15KindCreate:
				decoded, derr := fsm.DecodeCreateChannelRuntimeMetaBatchResult(results[0])
				if derr == nil && len(decoded) == 1 {
					if decoded[0].Created {
						out.Class = c15Created
					} else {
						out.Class = c15Existed
					}
				}
			}
		}
		return out
	}
	return c15Outcome{Class: c15Error, Err: "harness: unsupported op/path " + g.Path + "/" + g.Ops[0].Kind}
}

func c15ResultString(res []byte) string {
	s := string(res)
	if s == fsm.ApplyResultOK || s == fsm.ApplyResultStaleMeta || s == fsm.ApplyResultHashSlotFenced {
		return s
	}
	return "bin"
}

// ---------------------------------------------------------------------------
// generators (small domains so lower/equal/higher all occur)

var c15Tokens = []string{"", "", "tA", "tB"}

func c15Pick[T any](rng *rand.Rand, xs ...T) T { return xs[rng.IntN(len(xs))] }

// c15Around returns a value near base: base-1, base, base+1 or base+2.
func c15Around(rng *rand.Rand, base uint64) uint64 {
	switch rng.IntN(6) {
	case 0:
		if base > 0 {
			return base - 1
		}
		return base
	case 1, 2:
		return base
	case 3, 4:
		return base + 1
	default:
		return base + 2
	}
}

func c15Topology(rng *rand.Rand, m *c15Meta) {
	all := []uint64{1, 2, 3, 4}
	var reps []uint64
	for _, n := range all {
		if rng.IntN(3) != 0 {
			reps = append(reps, n)
		}
	}
	if len(reps) == 0 {
		reps = []uint64{c15Pick(rng, all...)}
	}
	var isr []uint64
	for _, n := range reps {
		if rng.IntN(3) != 0 {
			isr = append(isr, n)
		}
	}
	if len(isr) == 0 {
		isr = []uint64{reps[rng.IntN(len(reps))]}
	}
	rng.Shuffle(len(reps), func(i, j int) { reps[i], reps[j] = reps[j], reps[i] })
	m.Replicas, m.ISR = reps, isr
	m.Leader = isr[rng.IntN(len(isr))]
	if rng.IntN(8) == 0 {
		m.Leader = 0
	}
	m.MinISR = int64(1 + rng.IntN(len(reps)))
}

func c15Fence(rng *rand.Rand, m *c15Meta, base uint64) {
	m.WriteFenceToken = c15Pick(rng, c15Tokens...)
	m.WriteFenceVersion = c15Around(rng, base)
	if m.WriteFenceToken == "" {
		m.WriteFenceReason, m.WriteFenceUntilMS = 0, 0
		return
	}
	if m.WriteFenceVersion == 0 {
		m.WriteFenceVersion = 1
	}
	m.WriteFenceReason = uint8(1 + rng.IntN(2))
	m.WriteFenceUntilMS = int64(50 + 10*rng.IntN(3))
}

// c15RandomMeta draws every field independently, epochs near the stored row.
func c15RandomMeta(rng *rand.Rand, id string, typ int64, cur *c15Meta) c15Meta {
	var base c15Meta
	if cur != nil {
		base = *cur
	} else {
		base.ChannelEpoch, base.LeaderEpoch = 2, 2
	}
	m := c15Meta{ChannelID: id, ChannelType: typ}
	m.ChannelEpoch = c15Around(rng, base.ChannelEpoch)
	m.LeaderEpoch = c15Around(rng, base.LeaderEpoch)
	c15Topology(rng, &m)
	if cur != nil && rng.IntN(2) == 0 { // keep the leader often so that same-epoch writes are not all conflicts
		m.Replicas, m.ISR, m.Leader, m.MinISR = slices.Clone(cur.Replicas), slices.Clone(cur.ISR), cur.Leader, cur.MinISR
	}
	m.Status = uint8(rng.IntN(4))
	m.Features = uint64(rng.IntN(2))
	m.LeaseUntilMS = int64(100 * rng.IntN(4))
	m.RetentionThroughSeq = uint64(5 * rng.IntN(4))
	m.RetentionUpdatedAtMS = int64(rng.IntN(3))
	c15Fence(rng, &m, base.WriteFenceVersion)
	switch rng.IntN(3) {
	case 0: // no explicit generation
	case 1:
		m.RouteGeneration = c15Around(rng, base.RouteGeneration)
	default:
		m.RouteGeneration = base.RouteGeneration + uint64(rng.IntN(4))
	}
	return m
}

// c15DeltaMeta copies the stored row and changes one or two fields, so that
// single-field changes (the case R4 is about) are frequent.
func c15DeltaMeta(rng *rand.Rand, cur c15Meta) (c15Meta, string) {
	m := cur
	m.Replicas, m.ISR = slices.Clone(cur.Replicas), slices.Clone(cur.ISR)
	switch rng.IntN(4) {
	case 0:
		m.RouteGeneration = 0
	case 1:
		m.RouteGeneration = cur.RouteGeneration
	case 2:
		m.RouteGeneration = cur.RouteGeneration + 1
	default:
		if cur.RouteGeneration > 1 && rng.IntN(3) == 0 {
			m.RouteGeneration = cur.RouteGeneration - 1
		} else {
			m.RouteGeneration = 0
		}
	}
	var tags []string
	n := 1 + rng.IntN(2)
	for i := 0; i < n; i++ {
		switch rng.IntN(16) {
		case 0:
			m.Status = uint8((int(m.Status) + 1 + rng.IntN(3)) % 4)
			tags = append(tags, "status")
		case 1:
			m.LeaseUntilMS += 100
			tags = append(tags, "lease+")
		case 2:
			m.LeaseUntilMS -= int64(50 * (1 + rng.IntN(2)))
			tags = append(tags, "lease-")
		case 3:
			keepLeader := m.Leader
			c15Topology(rng, &m)
			if keepLeader != 0 && slices.Contains(m.ISR, keepLeader) {
				m.Leader = keepLeader
			}
			tags = append(tags, "topology")
		case 4: // ISR only
			if len(m.Replicas) > 0 {
				var isr []uint64
				for _, n := range m.Replicas {
					if n == m.Leader || rng.IntN(2) == 0 {
						isr = append(isr, n)
					}
				}
				if len(isr) == 0 {
					isr = []uint64{m.Replicas[0]}
				}
				m.ISR = isr
			}
			tags = append(tags, "isr")
		case 5: // leader switch inside the ISR
			if len(m.ISR) > 0 {
				m.Leader = m.ISR[rng.IntN(len(m.ISR))]
			}
			tags = append(tags, "leader")
		case 6:
			m.RetentionThroughSeq += uint64(1 + rng.IntN(5))
			tags = append(tags, "ret+")
		case 7:
			if m.RetentionThroughSeq > 0 {
				m.RetentionThroughSeq -= 1 + uint64(rng.IntN(int(min(m.RetentionThroughSeq, 3))))
			}
			tags = append(tags, "ret-")
		case 8:
			m.RetentionUpdatedAtMS += int64(rng.IntN(3)) - 1
			tags = append(tags, "retat")
		case 9:
			c15Fence(rng, &m, cur.WriteFenceVersion)
			tags = append(tags, "fence")
		case 10: // fence version up with a token
			m.WriteFenceToken = c15Pick(rng, "tA", "tB")
			m.WriteFenceVersion = cur.WriteFenceVersion + 1
			m.WriteFenceReason, m.WriteFenceUntilMS = uint8(1+rng.IntN(2)), int64(50+10*rng.IntN(3))
			tags = append(tags, "fence+")
		case 11:
			m.LeaderEpoch++
			tags = append(tags, "le+")
		case 12:
			if m.LeaderEpoch > 0 {
				m.LeaderEpoch--
			}
			tags = append(tags, "le-")
		case 13:
			m.ChannelEpoch++
			if rng.IntN(2) == 0 && m.LeaderEpoch > 0 {
				m.LeaderEpoch--
			}
			tags = append(tags, "ce+")
		case 14:
			if m.ChannelEpoch > 0 {
				m.ChannelEpoch--
			}
			if rng.IntN(2) == 0 {
				m.LeaderEpoch += 2
			}
			tags = append(tags, "ce-")
		case 15:
			m.Features ^= 1
			tags = append(tags, "features")
		}
	}
	if rng.IntN(12) == 0 { // exact replay of the stored row
		m = cur
		m.Replicas, m.ISR = slices.Clone(cur.Replicas), slices.Clone(cur.ISR)
		tags = []string{"replay"}
	}
	if m.MinISR > int64(len(m.Replicas)) {
		m.MinISR = int64(len(m.Replicas))
	}
	if m.LeaseUntilMS < 0 && rng.IntN(2) == 0 {
		m.LeaseUntilMS = 0
	}
	return m, strings.Join(tags, "+")
}

func c15Invalidate(rng *rand.Rand, m *c15Meta) string {
	switch rng.IntN(4) {
	case 0:
		m.MinISR = 0
		return "minisr0"
	case 1:
		m.Leader = 9 // not a replica
		return "leader-foreign"
	case 2:
		m.Replicas = nil
		return "no-replicas"
	default:
		m.WriteFenceToken, m.WriteFenceVersion, m.WriteFenceReason, m.WriteFenceUntilMS = "tX", 0, 1, 10
		return "fence-v0"
	}
}

func c15GenUpsert(rng *rand.Rand, id string, typ int64, cur *c15Meta) c15Op {
	var m c15Meta
	gen := "random"
	if cur != nil && rng.IntN(10) < 6 {
		m, gen = c15DeltaMeta(rng, *cur)
		gen = "delta:" + gen
	} else {
		m = c15RandomMeta(rng, id, typ, cur)
	}
	if rng.IntN(30) == 0 {
		gen = "invalid:" + c15Invalidate(rng, &m)
	}
	return c15Op{Kind: c15KindUpsert, Meta: &m, Gen: gen}
}

func c15GenAdvance(rng *rand.Rand, id string, typ int64, cur *c15Meta) c15Op {
	adv := metadb.ChannelRetentionAdvance{ChannelID: id, ChannelType: typ}
	gen := "blind"
	if cur != nil {
		adv.ExpectedChannelEpoch, adv.ExpectedLeaderEpoch = cur.ChannelEpoch, cur.LeaderEpoch
		adv.ExpectedLeader, adv.ExpectedLeaseUntilMS = cur.Leader, cur.LeaseUntilMS
		gen = "right"
		if rng.IntN(3) == 0 {
			gen = "wrong"
			switch rng.IntN(4) {
			case 0:
				adv.ExpectedChannelEpoch++
			case 1:
				adv.ExpectedLeaderEpoch += uint64(1 + rng.IntN(2))
			case 2:
				adv.ExpectedLeader = adv.ExpectedLeader%4 + 1
			default:
				adv.ExpectedLeaseUntilMS += 100
			}
		}
		switch rng.IntN(5) {
		case 0:
			if cur.RetentionThroughSeq > 0 {
				adv.RetentionThroughSeq = cur.RetentionThroughSeq - 1
			}
			gen += ",lower"
		case 1:
			adv.RetentionThroughSeq = cur.RetentionThroughSeq
			gen += ",equal"
		default:
			adv.RetentionThroughSeq = cur.RetentionThroughSeq + uint64(1+rng.IntN(5))
			gen += ",higher"
		}
	} else {
		adv.ExpectedChannelEpoch, adv.ExpectedLeaderEpoch = 2, 2
		adv.RetentionThroughSeq = uint64(rng.IntN(10))
	}
	adv.RetentionUpdatedAtMS = int64(rng.IntN(4))
	return c15Op{Kind: c15KindAdvance, Adv: &adv, Gen: gen}
}

// ---------------------------------------------------------------------------
// oracle

func c15Equal(a, b c15Meta) bool {
	return a.ChannelID == b.ChannelID && a.ChannelType == b.ChannelType &&
		a.ChannelEpoch == b.ChannelEpoch && a.LeaderEpoch == b.LeaderEpoch &&
		a.RouteGeneration == b.RouteGeneration &&
		slices.Equal(a.Replicas, b.Replicas) && slices.Equal(a.ISR, b.ISR) &&
		a.Leader == b.Leader && a.MinISR == b.MinISR && a.Status == b.Status &&
		a.Features == b.Features && a.LeaseUntilMS == b.LeaseUntilMS &&
		a.RetentionThroughSeq == b.RetentionThroughSeq && a.RetentionUpdatedAtMS == b.RetentionUpdatedAtMS &&
		a.WriteFenceToken == b.WriteFenceToken && a.WriteFenceVersion == b.WriteFenceVersion &&
		a.WriteFenceReason == b.WriteFenceReason && a.WriteFenceUntilMS == b.WriteFenceUntilMS &&
		a.DirectoryGeneration == b.DirectoryGeneration
}

// c15RouteChange lists the statement's routing fields that differ.
func c15RouteChange(b, a c15Meta) []string {
	var out []string
	if a.Leader != b.Leader {
		out = append(out, "leader")
	}
	if !slices.Equal(a.Replicas, b.Replicas) {
		out = append(out, "replicas")
	}
	if !slices.Equal(a.ISR, b.ISR) {
		out = append(out, "isr")
	}
	if a.Status != b.Status {
		out = append(out, "status")
	}
	if a.LeaseUntilMS != b.LeaseUntilMS {
		out = append(out, "lease")
	}
	if a.RetentionThroughSeq != b.RetentionThroughSeq {
		out = append(out, "retention")
	}
	if a.RetentionUpdatedAtMS != b.RetentionUpdatedAtMS {
		out = append(out, "retention_at")
	}
	if a.WriteFenceToken != b.WriteFenceToken || a.WriteFenceVersion != b.WriteFenceVersion ||
		a.WriteFenceReason != b.WriteFenceReason || a.WriteFenceUntilMS != b.WriteFenceUntilMS {
		out = append(out, "fence")
	}
	return out
}

type c15Step struct {
	Case    int        `json:"case"`
	Step    int        `json:"step"`
	HS      uint16     `json:"hash_slot"`
	Group   c15Group   `json:"group"`
	Outcome c15Outcome `json:"outcome"`
	Before  *c15Meta   `json:"before"`
	After   *c15Meta   `json:"after"`
	Trail   []string   `json:"trail,omitempty"`
}

// c15Relational checks R1..R4 on one (before, after) pair of existing rows.
// They are transitive, so they also hold across a multi-operation group.
func c15Relational(r *verifkit.Run, st c15Step, site string, cnt map[string]int) {
	b, a := *st.Before, *st.After
	// R1
	switch {
	case a.ChannelEpoch < b.ChannelEpoch:
		r.Violation("channel-epoch-decreased:"+site, st)
	case a.ChannelEpoch == b.ChannelEpoch && a.LeaderEpoch < b.LeaderEpoch:
		r.Violation("leader-epoch-decreased:"+site, st)
	case a.ChannelEpoch > b.ChannelEpoch && a.LeaderEpoch < b.LeaderEpoch:
		cnt["leader_epoch_reset_on_epoch_bump"]++
	}
	// R2
	if a.ChannelEpoch == b.ChannelEpoch && a.LeaderEpoch == b.LeaderEpoch {
		if a.Leader != b.Leader {
			r.Violation("same-epoch-leader-switch:"+site, st)
		}
		if a.LeaseUntilMS < b.LeaseUntilMS {
			r.Violation("same-epoch-lease-shortened:"+site, st)
		}
	} else if a.LeaseUntilMS < b.LeaseUntilMS {
		cnt["lease_shortened_on_epoch_bump"]++
	}
	// R3
	if a.RetentionThroughSeq < b.RetentionThroughSeq {
		r.Violation("retention-decreased:"+site, st)
	}
	if a.WriteFenceVersion < b.WriteFenceVersion {
		r.Violation("fence-version-decreased:"+site, st)
	}
	// R4
	if a.RouteGeneration < b.RouteGeneration {
		r.Violation("route-generation-decreased:"+site, st)
	}
	if ch := c15RouteChange(b, a); len(ch) > 0 {
		for _, f := range ch {
			cnt["changed."+f]++
		}
		if a.RouteGeneration <= b.RouteGeneration {
			r.Violation("route-generation-not-bumped:"+ch[0]+":"+site, st)
		} else {
			cnt["route_generation_bumps_checked"]++
		}
	}
}

// c15CandidateRegresses reports whether an upsert candidate asks for something
// the statement says must be refused relative to the stored row.
func c15CandidateRegresses(b, c c15Meta) bool {
	if c.ChannelEpoch < b.ChannelEpoch {
		return true
	}
	if c.ChannelEpoch == b.ChannelEpoch {
		if c.LeaderEpoch < b.LeaderEpoch {
			return true
		}
		if c.LeaderEpoch == b.LeaderEpoch && c.Leader != b.Leader {
			return true
		}
	}
	return false
}

// ---------------------------------------------------------------------------
// one generated write sequence on one fresh channel

func c15RunCase(r *verifkit.Run, env *c15Env, ci int, steps int) {
	rng := r.Rand(15, uint64(ci))
	hs := c15HashSlots[rng.IntN(len(c15HashSlots))]
	typ := int64(2)
	id := fmt.Sprintf("c15-%d", ci)
	if rng.IntN(10) == 0 { // person channel: create through the fsm also admits a directory task
		typ = 1
		id = channelid.EncodePersonChannel(fmt.Sprintf("c15a%d", ci), fmt.Sprintf("c15b%d", ci))
	} else if rng.IntN(4) == 0 {
		typ = int64(c15Pick(rng, 3, 5, -1))
	}
	sh := env.mdb.HashSlot(metadb.HashSlot(hs))
	cnt := map[string]int{}
	defer func() {
		for k, v := range cnt {
			r.Count(k, v)
		}
	}()

	read := func() (*c15Meta, bool) {
		m, ok, err := sh.GetChannelRuntimeMeta(env.ctx, id, typ)
		if err != nil {
			r.Violation("readback-error", map[string]any{"case": ci, "channel": id, "err": err.Error()})
			return nil, false
		}
		if !ok {
			return nil, true
		}
		return &m, true
	}

	var trail []string
	fp := fnv.New64a()
	rejected, refreshed := 0, 0
	before, okRead := read()
	if !okRead {
		return
	}
	for step := 0; step < steps; step++ {
		g := c15GenGroup(rng, id, typ, before)
		var out c15Outcome
		desc := g.Path + "/" + c15Kinds(g)
		if r.Guard("c15:"+desc, map[string]any{"case": ci, "step": step, "group": g, "before": before}, func() {
			out = env.run(hs, id, typ, g)
		}) {
			return
		}
		after, ok := read()
		if !ok {
			return
		}
		r.Eval(1)
		site := desc // stable violation site: path/kind, or path/multi for a multi-operation group
		if len(g.Ops) > 1 {
			site = g.Path + "/multi"
		}
		st := c15Step{Case: ci, Step: step, HS: hs, Group: g, Outcome: out, Before: before, After: after, Trail: slices.Clone(trail)}
		single := len(g.Ops) == 1
		if single {
			cnt["op."+desc+"."+out.Class]++
		} else {
			cnt["op."+g.Path+"/multi."+out.Class]++
			cnt["multi_group_ops"] += len(g.Ops)
			if slices.Contains(out.PerCmd, fsm.ApplyResultStaleMeta) {
				cnt["fsm_multi_stale_commit_fallback"]++
			}
		}
		hasDelete := false
		for _, op := range g.Ops {
			if op.Kind == c15KindDelete {
				hasDelete = true
			}
		}
		changed := (before == nil) != (after == nil) || (before != nil && after != nil && !c15Equal(*before, *after))

		// R5: reported stale / conflict / error => row unchanged. For a
		// multi-command fsm batch a hard error is only raised while staging,
		// but the monitor does not rely on that and skips the check there.
		reportedRefused := out.Class == c15Stale || out.Class == c15Conflict || out.Class == c15Error
		if reportedRefused && !(g.Path == c15PathFSM && !single) {
			if changed {
				r.Violation("refused-write-changed-row:"+out.Class+":"+site, st)
			}
			cnt["refused_unchanged_checked"]++
		}
		// R6: create-if-absent never replaces an existing row.
		if single && g.Ops[0].Kind == c15KindCreate && before != nil {
			if changed {
				r.Violation("create-replaced-existing-row:"+site, st)
			}
			if out.Class == c15Created {
				r.Violation("create-reported-created-over-existing-row:"+site, st)
			}
			cnt["create_over_existing_checked"]++
		}
		// R1..R4 on surviving rows. A delete resets the baseline.
		switch {
		case hasDelete:
			cnt["baseline_reset_by_delete"]++
		case before != nil && after == nil:
			r.Violation("row-vanished-without-delete:"+site, st)
		case before != nil && after != nil:
			c15Relational(r, st, site, cnt)
			cnt["pairs_checked"]++
			if single && g.Ops[0].Kind == c15KindUpsert {
				c := metadb.NormalizeChannelRuntimeMeta(*g.Ops[0].Meta)
				if c15CandidateRegresses(*before, c) {
					if !changed {
						rejected++
						cnt["regressing_candidate_rejected"]++
					}
				} else if changed && after.ChannelEpoch == before.ChannelEpoch && after.LeaderEpoch == before.LeaderEpoch {
					refreshed++
					cnt["same_epoch_refresh_applied"]++
				}
			}
		case before == nil && after != nil:
			cnt["row_created"]++
		}
		tok := fmt.Sprintf("%s/%s/%s/%v", desc, out.Class, c15Gen(g), changed)
		fp.Write([]byte(tok))
		if len(trail) < 64 {
			trail = append(trail, tok)
		}
		before = after
	}
	if rejected >= 1 && refreshed >= 1 {
		r.Nontrivial(fmt.Sprintf("%016x", fp.Sum64()))
		cnt["cases_nontrivial"]++
	}
	cnt["cases"]++
	if ci%97 == 3 && r.WantSample() {
		r.Sample(map[string]any{"case": ci, "channel": id, "type": typ, "hash_slot": hs, "trail": trail, "final": before})
	}
}

func c15Kinds(g c15Group) string {
	ks := make([]string, len(g.Ops))
	for i, op := range g.Ops {
		ks[i] = op.Kind
	}
	return strings.Join(ks, "+")
}

func c15Gen(g c15Group) string {
	ks := make([]string, len(g.Ops))
	for i, op := range g.Ops {
		ks[i] = op.Gen
	}
	return strings.Join(ks, "|")
}

func c15GenGroup(rng *rand.Rand, id string, typ int64, cur *c15Meta) c15Group {
	// operation kind
	k := rng.IntN(100)
	switch {
	case k < 62: // upsert
		path := c15Pick(rng, c15PathShard, c15PathShard, c15PathStore, c15PathBatch, c15PathWB, c15PathFSM, c15PathFSM)
		g := c15Group{Path: path, Ops: []c15Op{c15GenUpsert(rng, id, typ, cur)}}
		// multi-operation groups on the atomic paths
		if (path == c15PathBatch || path == c15PathWB || path == c15PathFSM) && rng.IntN(5) == 0 {
			n := 1 + rng.IntN(2)
			for i := 0; i < n; i++ {
				switch {
				case path != c15PathBatch && rng.IntN(4) == 0:
					g.Ops = append(g.Ops, c15GenAdvance(rng, id, typ, cur))
				case rng.IntN(5) == 0:
					m := c15RandomMeta(rng, id, typ, cur)
					g.Ops = append(g.Ops, c15Op{Kind: c15KindCreate, Meta: &m, Gen: "random"})
				default:
					g.Ops = append(g.Ops, c15GenUpsert(rng, id, typ, cur))
				}
			}
		}
		return g
	case k < 74: // create-if-absent
		path := c15Pick(rng, c15PathBatch, c15PathWB, c15PathFSM, c15PathFSM)
		m := c15RandomMeta(rng, id, typ, cur)
		if cur != nil && rng.IntN(2) == 0 { // a create that would "improve" the row must still not replace it
			m.ChannelEpoch, m.LeaderEpoch = cur.ChannelEpoch+1, cur.LeaderEpoch+1
		}
		return c15Group{Path: path, Ops: []c15Op{{Kind: c15KindCreate, Meta: &m, Gen: "random"}}}
	case k < 94: // retention advance
		path := c15Pick(rng, c15PathShard, c15PathStore, c15PathWB, c15PathFSM, c15PathFSM)
		return c15Group{Path: path, Ops: []c15Op{c15GenAdvance(rng, id, typ, cur)}}
	default: // delete
		path := c15Pick(rng, c15PathShard, c15PathStore, c15PathWB, c15PathFSM)
		return c15Group{Path: path, Ops: []c15Op{{Kind: c15KindDelete}}}
	}
}

// ---------------------------------------------------------------------------

func TestVerifC15(t *testing.T) {
	r := verifkit.Start(t, "C15", "main")
	defer r.Finish()
	r.SetRule("Each case is a PRNG-generated sequence of writes to one fresh channel's runtime-metadata row: monotonic upserts (fully random candidates and one/two-field deltas of the stored row, with and without explicit RouteGeneration, a few invalid), create-if-absent, retention advances with right/wrong fences, deletes; through meta.Shard, ShardStore, typed Batch, WriteBatch and encoded fsm commands (single and multi-command ApplyBatch). After every write the row is read back with GetChannelRuntimeMeta and compared with the row before. Non-trivial = the sequence contains >=1 regressing candidate that left the row unchanged and >=1 applied same-epoch refresh; distinct = hash of the (path, kind, outcome class, generator, changed) sequence.")
	r.Assume("Epoch order is lexicographic on (ChannelEpoch, LeaderEpoch): a lower leader epoch together with a higher channel epoch is counted (leader_epoch_reset_on_epoch_bump), not alarmed. A lease may shorten on an epoch bump (statement restricts only same-epoch writes).")
	r.Assume("A delete resets the baseline; the re-created row starts a new history. RouteGeneration values stay far from MaxUint64 (the saturating bump is not exercised).")
	r.Assume("Channel-migration fence commands (set/clear fence, leader transfer) also write this row; they are driven by C17, not here.")

	nCases := r.N(6000, 80000)
	steps := 30
	const workers = 4
	envs := make([]*c15Env, workers)
	for w := range envs {
		envs[w] = c15Open(t, filepath.Join(t.TempDir(), fmt.Sprintf("db%d", w)), uint64(21+w))
	}
	defer func() {
		for _, e := range envs {
			_ = e.db.Close()
		}
	}()
	r.Note("cases", nCases)
	r.Note("steps_per_case", steps)

	var wg sync.WaitGroup
	for w := 0; w < workers; w++ {
		wg.Add(1)
		go func(w int) {
			defer wg.Done()
			for ci := w; ci < nCases; ci += workers {
				if r.Skip(ci) {
					continue
				}
				r.BeginCase(ci, "sequence")
				c15RunCase(r, envs[w], ci, steps)
				if r.NumViolations() > 50 {
					return
				}
			}
		}(w)
	}
	wg.Wait()
}
