//go:build verif

package c16

// Concurrent unit of C16: 4-8 goroutines released by one gate work on a few
// rows of ONE hash slot of one meta DB through the Shard-level calls
// (command rows: AdvanceUserCMDChannelMembershipAckSeq with rising and falling
// seqs, Tombstone, Upsert/re-bind, reads; ordinary rows: AdvanceReadSeq, Hide,
// Activate, reads). Oracle, sound under any interleaving, no timing:
//
//	(1) per goroutine and row, successive observations never show a lower
//	    ack / read / delete-to cursor, nor a tombstoned command row live
//	    again, unless a command Upsert call (the only operation that may
//	    start a new incarnation here) overlapped the window between the two
//	    reads (started/finished counters bracket every Upsert call);
//	(2) rows that are never tombstoned or re-bound: final cursor >= the
//	    largest value of any Advance/Hide that returned nil;
//	(3) a command row whose Tombstone returned nil after every Upsert call had
//	    already returned (logical clock) is not live at the end.

import (
	"context"
	"fmt"
	"path/filepath"
	"runtime"
	"sync"
	"sync/atomic"
	"testing"

	metadb "github.com/WuKongIM/WuKongIM/pkg/db/meta"
	"github.com/WuKongIM/WuKongIM/pkg/verifkit"
)

const (
	c16cAckOnly = iota // command row, only acks and reads
	c16cMixed          // command row, acks + tombstone + upsert
	c16cCursor         // ordinary row, read advance + hide + activate
)

type c16cRow struct {
	key  c16Key
	mode int

	upStarted, upFinished atomic.Uint64
	maxOkAck, maxOkRead   atomic.Uint64
	maxOkHide             atomic.Uint64
	maxTombStart          atomic.Int64 // logical start tick of the latest Tombstone that returned nil
	maxUpsertEnd          atomic.Int64 // logical end tick of the latest Upsert call
}

func c16cMaxU(a *atomic.Uint64, v uint64) {
	for {
		o := a.Load()
		if v <= o || a.CompareAndSwap(o, v) {
			return
		}
	}
}

func c16cMaxI(a *atomic.Int64, v int64) {
	for {
		o := a.Load()
		if v <= o || a.CompareAndSwap(o, v) {
			return
		}
	}
}

type c16cObs struct {
	seen       bool
	fpre       uint64
	ack, rd, d uint64
	tomb       bool
}

type c16cCase struct {
	r    *verifkit.Run
	ci   int
	hs   uint16
	sh   *metadb.Shard
	rows []*c16cRow
	tick atomic.Int64
	ctx  context.Context

	logMu sync.Mutex
	log   []string
}

func (cs *c16cCase) note(format string, args ...any) {
	t := cs.tick.Load()
	cs.logMu.Lock()
	if len(cs.log) < 400 {
		cs.log = append(cs.log, fmt.Sprintf("t%d ", t)+fmt.Sprintf(format, args...))
	}
	cs.logMu.Unlock()
}

func (cs *c16cCase) wit(row *c16cRow, who string, extra map[string]any) map[string]any {
	cs.logMu.Lock()
	tail := append([]string(nil), cs.log...)
	cs.logMu.Unlock()
	if len(tail) > 60 {
		tail = tail[len(tail)-60:]
	}
	w := map[string]any{"case": cs.ci, "hash_slot": cs.hs, "row": row.key, "mode": row.mode, "who": who, "recent_ops": tail}
	for k, v := range extra {
		w[k] = v
	}
	return w
}

func (cs *c16cCase) observe(who string, row *c16cRow, o *c16cObs) bool {
	fpre := row.upFinished.Load()
	var cur c16cObs
	if row.key.Cmd {
		c, ok, err := cs.sh.GetUserCMDChannelMembership(cs.ctx, row.key.UID, row.key.Ch, row.key.Typ)
		if err != nil {
			cs.r.Violation("readback-error:concurrent", cs.wit(row, who, map[string]any{"err": err.Error()}))
			return false
		}
		if !ok {
			o.seen = false
			return true
		}
		cur = c16cObs{seen: true, ack: c.AckSeq, tomb: c.Tombstone}
	} else {
		m, ok, err := cs.sh.GetUserChannelMembership(cs.ctx, row.key.UID, row.key.Ch, row.key.Typ)
		if err != nil {
			cs.r.Violation("readback-error:concurrent", cs.wit(row, who, map[string]any{"err": err.Error()}))
			return false
		}
		if !ok {
			o.seen = false
			return true
		}
		cur = c16cObs{seen: true, rd: m.ReadSeq, d: m.DeletedToSeq}
	}
	spost := row.upStarted.Load()
	cur.fpre = fpre
	cs.r.Count("observations", 1)
	if o.seen && o.fpre == spost { // no Upsert call overlapped the window
		cs.r.Count("observation_pairs_checked", 1)
		ex := map[string]any{"earlier": *o, "later": cur}
		if cur.ack < o.ack {
			cs.r.Violation("cmd-ack-moved-backwards:concurrent", cs.wit(row, who, ex))
		}
		if o.tomb && !cur.tomb {
			cs.r.Violation("cmd-tombstone-reverted-without-rebind:concurrent", cs.wit(row, who, ex))
		}
		if cur.rd < o.rd {
			cs.r.Violation("read-seq-moved-backwards:concurrent", cs.wit(row, who, ex))
		}
		if cur.d < o.d {
			cs.r.Violation("deleted-to-moved-backwards:concurrent", cs.wit(row, who, ex))
		}
	}
	*o = cur
	return true
}

func (cs *c16cCase) writer(id int, nOps int, gate <-chan struct{}) {
	rng := cs.r.Rand(1616, uint64(cs.ci), uint64(id))
	who := fmt.Sprintf("g%d", id)
	obs := make([]c16cObs, len(cs.rows))
	<-gate
	for i := 0; i < nOps; i++ {
		ri := rng.IntN(len(cs.rows))
		row := cs.rows[ri]
		k := row.key
		if !cs.observe(who, row, &obs[ri]) {
			return
		}
		base := obs[ri]
		p := rng.IntN(100)
		switch {
		case p < 15: // read only
		case !k.Cmd:
			ck := metadb.ChannelKey{ChannelID: k.Ch, ChannelType: k.Typ}
			switch {
			case p < 60:
				v := c16Around(rng, base.rd+1)
				err := cs.sh.AdvanceUserChannelMembershipReadSeq(cs.ctx, k.UID, ck, v, int64(rng.IntN(9)))
				cs.note("%s %s read(%d) -> %v", who, k.Ch, v, err)
				if err == nil {
					c16cMaxU(&row.maxOkRead, v)
				}
				cs.r.Count("op.read", 1)
			case p < 85:
				v := c16Around(rng, base.d+1)
				err := cs.sh.HideUserChannelMembership(cs.ctx, k.UID, ck, v, int64(rng.IntN(9)))
				cs.note("%s %s hide(%d) -> %v", who, k.Ch, v, err)
				if err == nil {
					c16cMaxU(&row.maxOkHide, v)
				}
				cs.r.Count("op.hide", 1)
			default:
				err := cs.sh.SetUserChannelMembershipActivatedAt(cs.ctx, k.UID, ck, int64(1+rng.IntN(20)), int64(rng.IntN(9)))
				cs.note("%s %s activate -> %v", who, k.Ch, err)
				cs.r.Count("op.activate", 1)
			}
		case row.mode == c16cAckOnly || p < 70:
			v := c16Around(rng, base.ack+1)
			if rng.IntN(4) == 0 {
				v = uint64(rng.IntN(30))
			}
			err := cs.sh.AdvanceUserCMDChannelMembershipAckSeq(cs.ctx, k.UID, k.Ch, k.Typ, v, int64(rng.IntN(9)))
			cs.note("%s %s ack(%d) -> %v", who, k.Ch, v, err)
			if err == nil && row.mode == c16cAckOnly {
				c16cMaxU(&row.maxOkAck, v)
			}
			cs.r.Count("op.cmdack", 1)
		case p < 85:
			start := cs.tick.Add(1)
			err := cs.sh.TombstoneUserCMDChannelMembership(cs.ctx, k.UID, k.Ch, k.Typ, int64(rng.IntN(9)))
			cs.tick.Add(1)
			cs.note("%s %s tombstone [start t%d] -> %v", who, k.Ch, start, err)
			if err == nil {
				c16cMaxI(&row.maxTombStart, start)
			}
			cs.r.Count("op.cmdtomb", 1)
		default:
			cm := c16C{UID: k.UID, CommandChannelID: k.Ch, ChannelType: k.Typ, StartSeq: uint64(rng.IntN(4)), AckSeq: uint64(rng.IntN(12)), UpdatedAt: int64(rng.IntN(9))}
			row.upStarted.Add(1)
			cs.tick.Add(1)
			err := cs.sh.UpsertUserCMDChannelMembership(cs.ctx, cm)
			end := cs.tick.Add(1)
			c16cMaxI(&row.maxUpsertEnd, end)
			row.upFinished.Add(1)
			cs.note("%s %s upsert(ack %d) [end t%d] -> %v", who, k.Ch, cm.AckSeq, end, err)
			cs.r.Count("op.cmdupsert", 1)
		}
		if !cs.observe(who, row, &obs[ri]) {
			return
		}
		runtime.Gosched()
	}
}

func c16cRunCase(r *verifkit.Run, db *metadb.DB, ci int) {
	rng := r.Rand(1600, uint64(ci))
	hs := uint16(300 + ci%60000)
	cs := &c16cCase{r: r, ci: ci, hs: hs, sh: db.MetaDB().HashSlot(metadb.HashSlot(hs)), ctx: context.Background()}
	uid := fmt.Sprintf("q%du", ci)
	nRows := 1 + rng.IntN(3)
	for i := 0; i < nRows; i++ {
		row := &c16cRow{}
		switch m := rng.IntN(10); {
		case m < 4:
			row.mode, row.key = c16cAckOnly, c16Key{UID: uid, Ch: fmt.Sprintf("a%d____cmd", i), Typ: 2, Cmd: true}
		case m < 8:
			row.mode, row.key = c16cMixed, c16Key{UID: uid, Ch: fmt.Sprintf("m%d____cmd", i), Typ: 2, Cmd: true}
		default:
			row.mode, row.key = c16cCursor, c16Key{UID: uid, Ch: fmt.Sprintf("g%d", i), Typ: 2}
		}
		var err error
		if row.key.Cmd {
			err = cs.sh.UpsertUserCMDChannelMembership(cs.ctx, c16C{UID: uid, CommandChannelID: row.key.Ch, ChannelType: 2, AckSeq: uint64(rng.IntN(5))})
		} else {
			err = cs.sh.UpsertUserChannelMembership(cs.ctx, c16M{UID: uid, ChannelID: row.key.Ch, ChannelType: 2, ReadSeq: uint64(rng.IntN(5)), DeletedToSeq: uint64(rng.IntN(3)), SourceVersion: 1})
		}
		if err != nil {
			r.Inconclusive("c16conc: seed row: " + err.Error())
			return
		}
		cs.rows = append(cs.rows, row)
	}
	nG := 4 + rng.IntN(5)
	nOps := 8 + rng.IntN(10)
	gate := make(chan struct{})
	var wg sync.WaitGroup
	for g := 0; g < nG; g++ {
		wg.Add(1)
		go func(g int) {
			defer wg.Done()
			r.Guard("c16conc:writer", map[string]any{"case": ci, "g": g}, func() { cs.writer(g, nOps, gate) })
		}(g)
	}
	close(gate)
	wg.Wait()
	r.Eval(1)
	r.Count("cases", 1)
	for _, row := range cs.rows {
		k := row.key
		if k.Cmd {
			c, ok, err := cs.sh.GetUserCMDChannelMembership(cs.ctx, k.UID, k.Ch, k.Typ)
			if err != nil || !ok {
				r.Violation("cmd-row-vanished:concurrent", cs.wit(row, "final", map[string]any{"err": fmt.Sprint(err)}))
				continue
			}
			if row.mode == c16cAckOnly {
				r.Count("final_ack_bounds_checked", 1)
				if c.AckSeq < row.maxOkAck.Load() {
					r.Violation("cmd-ack-below-successful-advance:concurrent", cs.wit(row, "final", map[string]any{"final": c, "max_ok_ack": row.maxOkAck.Load()}))
				}
			} else if ts := row.maxTombStart.Load(); ts > 0 && ts > row.maxUpsertEnd.Load() {
				r.Count("final_tombstone_checked", 1)
				if !c.Tombstone {
					r.Violation("cmd-row-live-after-successful-tombstone:concurrent", cs.wit(row, "final", map[string]any{"final": c, "tombstone_start_tick": ts, "last_upsert_end_tick": row.maxUpsertEnd.Load()}))
				}
			}
			continue
		}
		m, ok, err := cs.sh.GetUserChannelMembership(cs.ctx, k.UID, k.Ch, k.Typ)
		if err != nil || !ok {
			r.Violation("row-vanished-without-delete:concurrent", cs.wit(row, "final", map[string]any{"err": fmt.Sprint(err)}))
			continue
		}
		r.Count("final_cursor_bounds_checked", 1)
		if m.ReadSeq < row.maxOkRead.Load() {
			r.Violation("read-seq-below-successful-advance:concurrent", cs.wit(row, "final", map[string]any{"final": m, "max_ok": row.maxOkRead.Load()}))
		}
		if m.DeletedToSeq < row.maxOkHide.Load() {
			r.Violation("deleted-to-below-successful-hide:concurrent", cs.wit(row, "final", map[string]any{"final": m, "max_ok": row.maxOkHide.Load()}))
		}
	}
	r.Nontrivial(fmt.Sprintf("g%d/o%d/r%d/%d", nG, nOps, nRows, ci))
}

func TestVerifC16Conc(t *testing.T) {
	r := verifkit.Start(t, "C16", "conc")
	defer r.Finish()
	r.SetRule("Each case: one hash slot of one meta DB, 1-3 rows of one user (command rows in ack-only or ack+tombstone+rebind mode, ordinary rows with read-advance/hide/activate), 4-8 goroutines released by one gate x 8-17 PRNG-chosen Shard-level calls with a read before and after each, Gosched between operations; -race build. Operation lists are a function of (seed, case, goroutine); the interleaving is the scheduler's. Non-trivial = every case (>=4 concurrent writers); distinct by shape and index.")
	r.Assume("Only a command Upsert can start a new incarnation in this unit; two observations are compared only when no Upsert call on that row overlapped the window. Final lower bounds are judged only on rows that are never tombstoned or re-bound; 'live after tombstone' only when the tombstone call started after every Upsert call had returned.")
	nCases := r.N(900, 12000)
	const runners = 3
	var wg sync.WaitGroup
	for w := 0; w < runners; w++ {
		db, err := metadb.Open(filepath.Join(t.TempDir(), fmt.Sprintf("conc%d", w)))
		if err != nil {
			t.Fatalf("c16conc: meta.Open: %v", err)
		}
		wg.Add(1)
		go func(w int, db *metadb.DB) {
			defer wg.Done()
			defer db.Close()
			for ci := w; ci < nCases; ci += runners {
				if r.Skip(ci) {
					continue
				}
				r.BeginCase(ci, "concurrent")
				c16cRunCase(r, db, ci)
				if r.NumViolations() > 30 {
					return
				}
			}
		}(w, db)
	}
	wg.Wait()
}
