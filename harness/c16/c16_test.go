//go:build verif

// Package c16 is the runtime monitor for property C16 "Per-user conversation
// cursors are monotonic". It drives the real pkg/db/meta membership tables
// (Shard, ShardStore, typed Batch, compatibility WriteBatch) and the encoded
// pkg/slot/fsm membership commands with generated mutation histories for
// several users and channels, reads every touched row back before and after
// each operation, and audits paginated directory passes.
//
// Oracle, written from the property statement:
//
//	M1 ReadSeq / DeletedToSeq (ordinary membership) and AckSeq (command
//	   membership) never decrease inside one membership incarnation
//	M2 SourceVersion never decreases; an upsert with an older source version,
//	   and an ensure with a not-newer one, leave the row exactly unchanged
//	M3 a row disappears only through an explicit physical delete
//	B1 inside one atomic batch (Batch, WriteBatch, multi-command fsm
//	   ApplyBatch) no applied command's cursor effect is lost: the post-batch
//	   row equals, in ReadSeq/DeletedToSeq/AckSeq/SourceVersion/tombstone
//	   state, the row obtained by applying the same applied commands one by
//	   one (differential twin, see twinCheck)
//	D1 a directory pass with any page size returns every live membership
//	   exactly once, never repeats a row, in (ActivatedAt desc, channel) order,
//	   while other users' rows are being mutated between the pages
//
// Interpretation recorded in DESIGN.md C16 (re-verified against
// resolveUserChannelMembership / resolveEnsuredUserChannelMembership /
// resolveUserCMDChannelMembership): the code deliberately restarts cursors at
// a delete/recreate boundary. The monitor accepts a lower cursor only when
//
//	(a) a tombstoned row becomes live through an upsert whose SourceVersion is
//	    strictly higher than the stored one,
//	(b) an ensure carries a strictly higher SourceVersion over a fenced row
//	    (stored SourceVersion != 0),
//	(c) a tombstoned command membership is bound again,
//	(d) the row was physically deleted and created again,
//
// and alarms on every other decrease.
package c16

import (
	"context"
	"errors"
	"fmt"
	"hash/fnv"
	"math/rand/v2"
	"path/filepath"
	"slices"
	"strings"
	"sync"
	"testing"

	metadb "github.com/WuKongIM/WuKongIM/pkg/db/meta"
	"github.com/WuKongIM/WuKongIM/pkg/protocol/channelid"
	"github.com/WuKongIM/WuKongIM/pkg/slot/fsm"
	"github.com/WuKongIM/WuKongIM/pkg/slot/multiraft"
	"github.com/WuKongIM/WuKongIM/pkg/verifkit"
)

type (
	c16M = metadb.UserChannelMembership
	c16C = metadb.UserCMDChannelMembership
)

type c16Env struct {
	db    *metadb.DB
	mdb   *metadb.MetaDB
	sm    multiraft.BatchStateMachine
	slot  uint64
	index uint64
	ctx   context.Context
}

var c16HashSlots = []uint16{31, 32}

func c16Open(t testing.TB, dir string, slot uint64) *c16Env {
	db, err := metadb.Open(dir)
	if err != nil {
		t.Fatalf("c16: meta.Open: %v", err)
	}
	sm, err := fsm.NewStateMachineWithHashSlots(db, slot, c16HashSlots)
	if err != nil {
		t.Fatalf("c16: NewStateMachineWithHashSlots: %v", err)
	}
	bsm, ok := sm.(multiraft.BatchStateMachine)
	if !ok {
		t.Fatalf("c16: slot state machine does not implement BatchStateMachine")
	}
	return &c16Env{db: db, mdb: db.MetaDB(), sm: bsm, slot: slot, ctx: context.Background()}
}

func (e *c16Env) nextIndex() uint64 { e.index++; return e.index }

// ---------------------------------------------------------------------------
// operations

const (
	c16Upsert    = "upsert"    // ordinary membership upsert
	c16DelCmd    = "delcmd"    // fsm "delete memberships" command (a tombstone upsert)
	c16Ensure    = "ensure"    // create-if-absent / source-generation advance
	c16Read      = "read"      // AdvanceUserChannelMembershipReadSeq
	c16Hide      = "hide"      // HideUserChannelMembership
	c16Activate  = "activate"  // activation
	c16Delete    = "delete"    // physical row delete
	c16CmdUpsert = "cmdupsert" // command membership bind
	c16CmdAck    = "cmdack"    // command membership ack advance
	c16CmdTomb   = "cmdtomb"   // command membership unbind
)

const (
	c16PathShard = "shard"
	c16PathStore = "store"
	c16PathBatch = "batch"
	c16PathWB    = "wb"
	c16PathFSM   = "fsm"
)

type c16Op struct {
	Kind string `json:"kind"`
	M    *c16M  `json:"m,omitempty"`
	C    *c16C  `json:"c,omitempty"`
}

type c16Key struct {
	UID string `json:"uid"`
	Ch  string `json:"ch"`
	Typ int64  `json:"typ"`
	Cmd bool   `json:"cmd,omitempty"`
}

func (o c16Op) key() c16Key {
	if o.C != nil {
		return c16Key{UID: o.C.UID, Ch: o.C.CommandChannelID, Typ: o.C.ChannelType, Cmd: true}
	}
	return c16Key{UID: o.M.UID, Ch: o.M.ChannelID, Typ: o.M.ChannelType}
}

// c16Group is a list of operations for users of one hash slot committed
// through one path (one call, one batch, or one fsm ApplyBatch).
type c16Group struct {
	Path  string  `json:"path"`
	HS    uint16  `json:"hash_slot"`
	Ops   []c16Op `json:"ops"`
	Merge bool    `json:"merge,omitempty"` // fsm: adjacent same-kind ops share one command
}

type c16Outcome struct {
	Class  string   `json:"class"` // ok | notfound | conflict | invalid | error
	Err    string   `json:"err,omitempty"`
	PerCmd []string `json:"per_cmd,omitempty"`
	OpCmd  []int    `json:"op_cmd,omitempty"` // fsm: index of the command that carried op i
}

// applied reports whether operation i of an accepted group took part in the
// commit: every staged operation of a committed Batch/WriteBatch, and for the
// fsm every operation of a command whose own result is not stale_meta /
// hash_slot_fenced (a stale multi-command batch is re-applied command by
// command, a stale command is skipped as a whole).
func (o c16Outcome) applied(i int) bool {
	if o.Class != "ok" {
		return false
	}
	if len(o.OpCmd) == 0 {
		return true
	}
	res := o.PerCmd[o.OpCmd[i]]
	return res != fsm.ApplyResultStaleMeta && res != fsm.ApplyResultHashSlotFenced
}

func c16ErrClass(err error) c16Outcome {
	switch {
	case err == nil:
		return c16Outcome{Class: "ok"}
	case errors.Is(err, metadb.ErrNotFound):
		return c16Outcome{Class: "notfound", Err: err.Error()}
	case errors.Is(err, metadb.ErrStaleMeta):
		return c16Outcome{Class: "conflict", Err: err.Error()}
	case errors.Is(err, metadb.ErrInvalidArgument):
		return c16Outcome{Class: "invalid", Err: err.Error()}
	default:
		return c16Outcome{Class: "error", Err: err.Error()}
	}
}

func c16ChKey(m *c16M) metadb.ChannelKey {
	return metadb.ChannelKey{ChannelID: m.ChannelID, ChannelType: m.ChannelType}
}

func (e *c16Env) run(g c16Group) c16Outcome {
	hs := g.HS
	switch g.Path {
	case c16PathShard:
		sh := e.mdb.HashSlot(metadb.HashSlot(hs))
		op := g.Ops[0]
		switch op.Kind {
		case c16Upsert:
			return c16ErrClass(sh.UpsertUserChannelMembership(e.ctx, *op.M))
		case c16Ensure:
			return c16ErrClass(sh.EnsureUserChannelMembership(e.ctx, *op.M))
		case c16Read:
			return c16ErrClass(sh.AdvanceUserChannelMembershipReadSeq(e.ctx, op.M.UID, c16ChKey(op.M), op.M.ReadSeq, op.M.UpdatedAt))
		case c16Hide:
			return c16ErrClass(sh.HideUserChannelMembership(e.ctx, op.M.UID, c16ChKey(op.M), op.M.DeletedToSeq, op.M.UpdatedAt))
		case c16Activate:
			return c16ErrClass(sh.SetUserChannelMembershipActivatedAt(e.ctx, op.M.UID, c16ChKey(op.M), op.M.ActivatedAt, op.M.UpdatedAt))
		case c16Delete:
			return c16ErrClass(sh.DeleteUserChannelMembership(e.ctx, op.M.UID, c16ChKey(op.M)))
		case c16CmdUpsert:
			return c16ErrClass(sh.UpsertUserCMDChannelMembership(e.ctx, *op.C))
		case c16CmdAck:
			return c16ErrClass(sh.AdvanceUserCMDChannelMembershipAckSeq(e.ctx, op.C.UID, op.C.CommandChannelID, op.C.ChannelType, op.C.AckSeq, op.C.UpdatedAt))
		case c16CmdTomb:
			return c16ErrClass(sh.TombstoneUserCMDChannelMembership(e.ctx, op.C.UID, op.C.CommandChannelID, op.C.ChannelType, op.C.TombstoneAt))
		}
	case c16PathStore:
		st := e.db.ForHashSlot(hs)
		op := g.Ops[0]
		switch op.Kind {
		case c16Upsert:
			return c16ErrClass(st.UpsertUserChannelMembership(e.ctx, *op.M))
		case c16Delete:
			return c16ErrClass(st.DeleteUserChannelMembership(e.ctx, op.M.UID, c16ChKey(op.M)))
		}
	case c16PathBatch:
		b := e.mdb.NewBatch()
		defer b.Close()
		h := metadb.HashSlot(hs)
		for _, op := range g.Ops {
			var err error
			switch op.Kind {
			case c16Upsert:
				err = b.UpsertUserChannelMembership(h, *op.M)
			case c16Ensure:
				err = b.EnsureUserChannelMembership(h, *op.M)
			case c16Read:
				err = b.AdvanceUserChannelMembershipReadSeq(h, op.M.UID, c16ChKey(op.M), op.M.ReadSeq, op.M.UpdatedAt)
			case c16Hide:
				err = b.HideUserChannelMembership(h, op.M.UID, c16ChKey(op.M), op.M.DeletedToSeq, op.M.UpdatedAt)
			case c16Activate:
				err = b.ActivateUserChannelMembership(h, op.M.UID, c16ChKey(op.M), op.M.ActivatedAt, op.M.UpdatedAt)
			case c16Delete:
				err = b.DeleteUserChannelMembership(h, op.M.UID, c16ChKey(op.M))
			case c16CmdUpsert:
				err = b.UpsertUserCMDChannelMembership(h, *op.C)
			case c16CmdAck:
				err = b.AdvanceUserCMDChannelMembershipAckSeq(h, *op.C)
			case c16CmdTomb:
				err = b.TombstoneUserCMDChannelMembership(h, *op.C)
			default:
				err = fmt.Errorf("harness: unsupported %s on batch", op.Kind)
			}
			if err != nil {
				out := c16ErrClass(err)
				out.Err = "stage: " + out.Err
				return out
			}
		}
		return c16ErrClass(b.Commit(e.ctx))
	case c16PathWB:
		wb := e.db.NewWriteBatch()
		defer wb.Close()
		for _, op := range g.Ops {
			var err error
			switch op.Kind {
			case c16Upsert:
				err = wb.UpsertUserChannelMembership(hs, *op.M)
			case c16Ensure:
				err = wb.EnsureUserChannelMembership(hs, *op.M)
			case c16Read:
				err = wb.AdvanceUserChannelMembershipReadSeq(hs, op.M.UID, c16ChKey(op.M), op.M.ReadSeq, op.M.UpdatedAt)
			case c16Hide:
				err = wb.HideUserChannelMembership(hs, op.M.UID, c16ChKey(op.M), op.M.DeletedToSeq, op.M.UpdatedAt)
			case c16Activate:
				err = wb.ActivateUserChannelMembership(hs, op.M.UID, c16ChKey(op.M), op.M.ActivatedAt, op.M.UpdatedAt)
			case c16Delete:
				err = wb.DeleteUserChannelMembership(hs, op.M.UID, c16ChKey(op.M))
			case c16CmdUpsert:
				err = wb.UpsertUserCMDChannelMembership(hs, *op.C)
			case c16CmdAck:
				err = wb.AdvanceUserCMDChannelMembershipAckSeq(hs, *op.C)
			case c16CmdTomb:
				err = wb.TombstoneUserCMDChannelMembership(hs, *op.C)
			default:
				err = fmt.Errorf("harness: unsupported %s on wb", op.Kind)
			}
			if err != nil {
				out := c16ErrClass(err)
				out.Err = "stage: " + out.Err
				return out
			}
		}
		return c16ErrClass(wb.Commit())
	case c16PathFSM:
		var cmds []multiraft.Command
		var opCmd []int
		add := func(data []byte) {
			cmds = append(cmds, multiraft.Command{SlotID: multiraft.SlotID(e.slot), HashSlot: hs, Index: e.nextIndex(), Term: 1, Data: data})
		}
		for i := 0; i < len(g.Ops); {
			j := i + 1
			if g.Merge {
				for j < len(g.Ops) && g.Ops[j].Kind == g.Ops[i].Kind {
					j++
				}
			}
			kind := g.Ops[i].Kind
			var ms []c16M
			var cs []c16C
			for range g.Ops[i:j] {
				opCmd = append(opCmd, len(cmds))
			}
			for _, op := range g.Ops[i:j] {
				if op.M != nil {
					ms = append(ms, *op.M)
				} else {
					cs = append(cs, *op.C)
				}
			}
			switch kind {
			case c16Upsert:
				add(fsm.EncodeUpsertUserChannelMembershipsCommand(ms))
			case c16DelCmd:
				add(fsm.EncodeDeleteUserChannelMembershipsCommand(ms))
			case c16Ensure:
				items := make([]fsm.UserChannelMembershipBatchItem, len(ms))
				for k, m := range ms {
					items[k] = fsm.UserChannelMembershipBatchItem{HashSlot: hs, Membership: m}
				}
				data, err := fsm.EncodeEnsureUserChannelMembershipBatchCommandChecked(items)
				if err != nil {
					out := c16ErrClass(err)
					out.Err = "encode: " + out.Err
					return out
				}
				add(data)
			case c16Read:
				add(fsm.EncodeAdvanceUserChannelMembershipReadSeqCommand(ms))
			case c16Hide:
				add(fsm.EncodeHideUserChannelMembershipCommand(ms))
			case c16Activate:
				add(fsm.EncodeActivateUserChannelMembershipCommand(ms))
			case c16CmdUpsert:
				add(fsm.EncodeUpsertUserCMDChannelMembershipsCommand(cs))
			case c16CmdAck:
				add(fsm.EncodeAdvanceUserCMDChannelMembershipAcksCommand(cs))
			case c16CmdTomb:
				add(fsm.EncodeTombstoneUserCMDChannelMembershipsCommand(cs))
			default:
				return c16Outcome{Class: "error", Err: "harness: unsupported " + kind + " on fsm"}
			}
			i = j
		}
		results, err := e.sm.ApplyBatch(e.ctx, cmds)
		if err != nil {
			return c16ErrClass(err)
		}
		out := c16Outcome{Class: "ok", OpCmd: opCmd}
		for _, res := range results {
			out.PerCmd = append(out.PerCmd, string(res))
		}
		if len(results) == 1 && string(results[0]) == fsm.ApplyResultStaleMeta {
			out.Class = "notfound" // a single command reports missing rows / conflicts as stale_meta
		}
		return out
	}
	return c16Outcome{Class: "error", Err: "harness: unsupported " + g.Path + "/" + g.Ops[0].Kind}
}

// ---------------------------------------------------------------------------
// universe of one case

type c16User struct {
	UID  string
	HS   uint16
	Keys []c16Key // ordinary membership domain of this user
	Cmds []c16Key // command membership domain
	Pers []c16Key // person-channel subset of Keys (the only ones the fsm ensure accepts)
}

type c16World struct {
	Users []*c16User
	Hot   []c16Key
}

func c16NewWorld(rng *rand.Rand, ci int) *c16World {
	p := fmt.Sprintf("k%d", ci)
	// uids that are prefixes of one another share the key prefix of the
	// directory index; two users share each hash slot.
	uids := []string{p + "u", p + "u1", p + "u10"}
	if rng.IntN(2) == 0 {
		uids = append(uids, p+"v")
	}
	w := &c16World{}
	groups := []c16Key{{Ch: "g1", Typ: 2}, {Ch: "g2", Typ: 2}, {Ch: "g2", Typ: 3}, {Ch: "gg3", Typ: 2}, {Ch: "g", Typ: 2}, {Ch: "g0", Typ: 2}}
	for i, uid := range uids {
		u := &c16User{UID: uid, HS: c16HashSlots[i%len(c16HashSlots)]}
		for _, g := range groups {
			u.Keys = append(u.Keys, c16Key{UID: uid, Ch: g.Ch, Typ: g.Typ})
		}
		for _, other := range uids {
			if other == uid {
				continue
			}
			k := c16Key{UID: uid, Ch: channelid.EncodePersonChannel(uid, other), Typ: 1}
			u.Keys = append(u.Keys, k)
			u.Pers = append(u.Pers, k)
		}
		u.Cmds = []c16Key{
			{UID: uid, Ch: channelid.ToCommandChannel("g1"), Typ: 2, Cmd: true},
			{UID: uid, Ch: channelid.ToCommandChannel(uid), Typ: 1, Cmd: true},
		}
		w.Users = append(w.Users, u)
	}
	for i := 0; i < 4; i++ {
		u := w.Users[rng.IntN(len(w.Users))]
		w.Hot = append(w.Hot, u.Keys[rng.IntN(len(u.Keys))])
	}
	u := w.Users[rng.IntN(len(w.Users))]
	w.Hot = append(w.Hot, u.Cmds[rng.IntN(len(u.Cmds))])
	return w
}

func (w *c16World) user(uid string) *c16User {
	for _, u := range w.Users {
		if u.UID == uid {
			return u
		}
	}
	return nil
}

// ---------------------------------------------------------------------------
// observation

type c16Row struct {
	M *c16M `json:"m,omitempty"`
	C *c16C `json:"c,omitempty"`
}

func (r c16Row) exists() bool { return r.M != nil || r.C != nil }

func (e *c16Env) read(hs uint16, k c16Key) (c16Row, error) {
	sh := e.mdb.HashSlot(metadb.HashSlot(hs))
	if k.Cmd {
		c, ok, err := sh.GetUserCMDChannelMembership(e.ctx, k.UID, k.Ch, k.Typ)
		if err != nil || !ok {
			return c16Row{}, err
		}
		return c16Row{C: &c}, nil
	}
	m, ok, err := sh.GetUserChannelMembership(e.ctx, k.UID, k.Ch, k.Typ)
	if err != nil || !ok {
		return c16Row{}, err
	}
	return c16Row{M: &m}, nil
}

// ---------------------------------------------------------------------------
// generators

func c16Pick[T any](rng *rand.Rand, xs ...T) T { return xs[rng.IntN(len(xs))] }

func c16Around(rng *rand.Rand, base uint64) uint64 {
	switch rng.IntN(7) {
	case 0:
		if base > 1 {
			return base - 2
		}
		return 0
	case 1, 2:
		if base > 0 {
			return base - 1
		}
		return 0
	case 3:
		return base
	case 4, 5:
		return base + 1
	default:
		return base + 2
	}
}

var c16Activations = []int64{0, 5, 5, 5, 9, 9, 12}

func c16GenM(rng *rand.Rand, k c16Key, cur *c16M) *c16M {
	m := &c16M{UID: k.UID, ChannelID: k.Ch, ChannelType: k.Typ}
	var base c16M
	if cur != nil {
		base = *cur
	} else {
		base.ReadSeq, base.DeletedToSeq, base.SourceVersion = uint64(rng.IntN(5)), uint64(rng.IntN(4)), uint64(rng.IntN(3))
	}
	m.JoinSeq = uint64(rng.IntN(4))
	m.ReadSeq = c16Around(rng, base.ReadSeq)
	m.DeletedToSeq = c16Around(rng, base.DeletedToSeq)
	m.ActivatedAt = c16Pick(rng, c16Activations...)
	m.SourceVersion = c16Around(rng, base.SourceVersion)
	m.UpdatedAt = int64(rng.IntN(7))
	if rng.IntN(4) == 0 {
		m.Tombstone = true
		m.TombstoneAt = int64(rng.IntN(6))
	}
	return m
}

func c16GenC(rng *rand.Rand, k c16Key, cur *c16C) *c16C {
	c := &c16C{UID: k.UID, CommandChannelID: k.Ch, ChannelType: k.Typ}
	var base uint64
	if cur != nil {
		base = cur.AckSeq
	} else {
		base = uint64(rng.IntN(5))
	}
	c.StartSeq = uint64(rng.IntN(4))
	c.AckSeq = c16Around(rng, base)
	c.UpdatedAt = int64(rng.IntN(7))
	c.TombstoneAt = int64(rng.IntN(6))
	if rng.IntN(5) == 0 {
		c.Tombstone = true
	}
	return c
}

// c16GenOp draws one operation for key k through path; cur is the stored row.
func c16GenOp(rng *rand.Rand, path string, u *c16User, k c16Key, cur c16Row) (c16Op, bool) {
	if k.Cmd {
		kind := c16Pick(rng, c16CmdUpsert, c16CmdUpsert, c16CmdAck, c16CmdAck, c16CmdAck, c16CmdTomb)
		if path == c16PathStore {
			return c16Op{}, false
		}
		return c16Op{Kind: kind, C: c16GenC(rng, k, cur.C)}, true
	}
	var kinds []string
	switch path {
	case c16PathStore:
		kinds = []string{c16Upsert, c16Upsert, c16Upsert, c16Delete}
	case c16PathFSM:
		kinds = []string{c16Upsert, c16Upsert, c16Upsert, c16DelCmd, c16Read, c16Read, c16Hide, c16Activate}
		if slices.Contains(u.Pers, k) {
			kinds = append(kinds, c16Ensure, c16Ensure)
		}
	default:
		kinds = []string{c16Upsert, c16Upsert, c16Upsert, c16Ensure, c16Ensure, c16Read, c16Read, c16Read, c16Hide, c16Hide, c16Activate, c16Activate, c16Delete}
	}
	kind := kinds[rng.IntN(len(kinds))]
	m := c16GenM(rng, k, cur.M)
	switch kind {
	case c16DelCmd:
		m.Tombstone, m.TombstoneAt = true, int64(rng.IntN(6))
	case c16Ensure:
		m.Tombstone, m.TombstoneAt = false, 0
		if rng.IntN(3) == 0 {
			m.ActivatedAt = 0
		}
	}
	return c16Op{Kind: kind, M: m}, true
}

// c16GenGroup builds one group over the given users (all operations of a
// group belong to users of one hash slot).
func c16GenGroup(rng *rand.Rand, env *c16Env, w *c16World, users []*c16User, multi bool) c16Group {
	hs := users[rng.IntN(len(users))].HS
	var pool []*c16User
	for _, u := range users {
		if u.HS == hs {
			pool = append(pool, u)
		}
	}
	path := c16Pick(rng, c16PathShard, c16PathShard, c16PathStore, c16PathBatch, c16PathWB, c16PathFSM, c16PathFSM, c16PathFSM)
	g := c16Group{Path: path, HS: hs, Merge: rng.IntN(2) == 0}
	n := 1
	if multi && (path == c16PathBatch || path == c16PathWB || path == c16PathFSM) && rng.IntN(4) == 0 {
		n = 2 + rng.IntN(3)
	}
	for len(g.Ops) < n {
		var k c16Key
		picked := false
		if rng.IntN(100) < 60 { // hot keys concentrate the history on a few rows
			for try := 0; try < 4 && !picked; try++ {
				h := w.Hot[rng.IntN(len(w.Hot))]
				for _, u := range pool {
					if u.UID == h.UID {
						k, picked = h, true
					}
				}
			}
		}
		if !picked {
			u := pool[rng.IntN(len(pool))]
			if rng.IntN(6) == 0 {
				k = u.Cmds[rng.IntN(len(u.Cmds))]
			} else {
				k = u.Keys[rng.IntN(len(u.Keys))]
			}
		}
		if len(g.Ops) > 0 && rng.IntN(3) == 0 { // several operations on one row inside one batch
			k = g.Ops[rng.IntN(len(g.Ops))].key()
		}
		cur, err := env.read(hs, k)
		if err != nil {
			cur = c16Row{}
		}
		op, ok := c16GenOp(rng, path, w.user(k.UID), k, cur)
		if !ok {
			if n == 1 {
				g.Path = c16PathShard
				path = c16PathShard
			}
			continue
		}
		g.Ops = append(g.Ops, op)
	}
	return g
}

// c16PairKinds are the mutation kinds whose ordered same-row pairs inside one
// atomic batch are generated on purpose (B1).
var c16PairKinds = []string{"read", "activate", "hide", "tombstone", "upsert", "ensure"}

// c16GenPairGroup builds a Batch / WriteBatch / multi-command fsm group whose
// 2-3 operations all hit ONE existing row, for a uniformly drawn ordered pair
// of mutation kinds, with values that mostly take effect (higher cursors,
// rising source versions) so that a lost intermediate result is visible.
func c16GenPairGroup(rng *rand.Rand, env *c16Env, w *c16World, users []*c16User) (c16Group, bool) {
	path := c16Pick(rng, c16PathBatch, c16PathWB, c16PathFSM, c16PathFSM)
	u := users[rng.IntN(len(users))]
	g := c16Group{Path: path, HS: u.HS, Merge: rng.IntN(2) == 0}
	if rng.IntN(7) == 0 { // command membership row
		k := u.Cmds[rng.IntN(len(u.Cmds))]
		cur, _ := env.read(u.HS, k)
		base := uint64(0)
		if cur.C != nil {
			base = cur.C.AckSeq
		}
		n := 2 + rng.IntN(2)
		for i := 0; i < n; i++ {
			kind := c16Pick(rng, c16CmdUpsert, c16CmdAck, c16CmdAck, c16CmdTomb)
			cm := c16GenC(rng, k, cur.C)
			if rng.IntN(4) != 0 {
				cm.AckSeq = base + uint64(1+rng.IntN(3)+i)
			}
			if kind == c16CmdUpsert {
				cm.Tombstone = false
			}
			g.Ops = append(g.Ops, c16Op{Kind: kind, C: cm})
		}
		return g, true
	}
	kinds := []string{c16Pick(rng, c16PairKinds...), c16Pick(rng, c16PairKinds...)}
	if rng.IntN(10) < 3 {
		kinds = append(kinds, c16Pick(rng, c16PairKinds...))
	}
	pool := u.Keys
	if path == c16PathFSM && slices.Contains(kinds, "ensure") {
		pool = u.Pers // the fsm ensure command only accepts person channels
	}
	var existing []c16Key
	for _, k := range pool {
		if row, err := env.read(u.HS, k); err == nil && row.M != nil {
			existing = append(existing, k)
		}
	}
	if len(existing) == 0 {
		return g, false
	}
	k := existing[rng.IntN(len(existing))]
	for _, h := range w.Hot {
		if slices.Contains(existing, h) && rng.IntN(2) == 0 {
			k = h
		}
	}
	cur, _ := env.read(u.HS, k)
	base := *cur.M
	for i, kind := range kinds {
		m := c16GenM(rng, k, cur.M)
		m.Tombstone, m.TombstoneAt = false, 0
		effective := rng.IntN(4) != 0
		step := uint64(1 + rng.IntN(3) + 2*i)
		op := c16Op{M: m}
		switch kind {
		case "read":
			op.Kind = c16Read
			if effective {
				m.ReadSeq = base.ReadSeq + step
			}
		case "hide":
			op.Kind = c16Hide
			if effective {
				m.DeletedToSeq = base.DeletedToSeq + step
			}
		case "activate":
			op.Kind = c16Activate
			m.ActivatedAt = c16Pick(rng, int64(5), 9, 12, base.ActivatedAt+1+int64(i))
		case "tombstone":
			op.Kind = c16Upsert
			if path == c16PathFSM && rng.IntN(2) == 0 {
				op.Kind = c16DelCmd
			}
			m.Tombstone, m.TombstoneAt = true, int64(rng.IntN(6))
			if effective {
				m.SourceVersion = base.SourceVersion + uint64(1+i)
			}
		case "upsert":
			op.Kind = c16Upsert
			if effective {
				m.SourceVersion = base.SourceVersion + uint64(i) + uint64(rng.IntN(2))
			}
		case "ensure":
			op.Kind = c16Ensure
			if effective {
				m.SourceVersion = base.SourceVersion + uint64(1+i)
			}
		}
		g.Ops = append(g.Ops, op)
	}
	for i := 1; i < len(g.Ops); i++ {
		if g.Ops[i].Kind == c16Ensure && g.Ops[i-1].Kind == c16Ensure {
			g.Merge = false // one ensure command may not name a row twice
		}
	}
	return g, true
}

// ---------------------------------------------------------------------------
// oracle for one executed group

type c16Obs struct {
	Key    c16Key `json:"key"`
	Before c16Row `json:"before"`
	After  c16Row `json:"after"`
}

type c16Step struct {
	Case    int        `json:"case"`
	Step    string     `json:"step"`
	Group   c16Group   `json:"group"`
	Outcome c16Outcome `json:"outcome"`
	Obs     c16Obs     `json:"obs"`
	Trail   []string   `json:"trail,omitempty"`
}

type c16Case struct {
	r     *verifkit.Run
	env   *c16Env
	ci    int
	w     *c16World
	cnt   map[string]int
	trail []string
	fp    interface{ Write([]byte) (int, error) }
	// non-triviality
	staleRefused, advanced, resets, tiesPaged int
	twinSeq                                    int
}

func (c *c16Case) site(g c16Group, ops []c16Op) string {
	if len(ops) == 1 {
		return g.Path + "/" + ops[0].Kind
	}
	return g.Path + "/multi"
}

// exec runs g, reads every touched row before and after, and applies M1..M3.
func (c *c16Case) exec(g c16Group, stepName string) bool {
	r, env := c.r, c.env
	var keys []c16Key
	byKey := map[c16Key][]c16Op{}
	for _, op := range g.Ops {
		k := op.key()
		if _, ok := byKey[k]; !ok {
			keys = append(keys, k)
		}
		byKey[k] = append(byKey[k], op)
	}
	before := make([]c16Row, len(keys))
	for i, k := range keys {
		row, err := env.read(g.HS, k)
		if err != nil {
			r.Violation("readback-error", map[string]any{"case": c.ci, "key": k, "err": err.Error()})
			return false
		}
		before[i] = row
	}
	// B1 twin: a multi-operation atomic group is replayed one operation at a
	// time on copies of the touched rows (see twinPrepare).
	var tw *c16Twin
	if len(g.Ops) > 1 && (g.Path == c16PathBatch || g.Path == c16PathWB || g.Path == c16PathFSM) {
		tw = c.twinPrepare(g, keys, before)
	}
	var out c16Outcome
	desc := g.Path + "/" + c16Kinds(g)
	if r.Guard("c16:"+desc, map[string]any{"case": c.ci, "step": stepName, "group": g}, func() { out = env.run(g) }) {
		return false
	}
	r.Eval(1)
	if len(g.Ops) == 1 {
		c.cnt["op."+desc+"."+out.Class]++
	} else {
		c.cnt["op."+g.Path+"/multi."+out.Class]++
		c.cnt["multi_group_ops"] += len(g.Ops)
	}
	tok := desc + "/" + out.Class
	for i, k := range keys {
		after, err := env.read(g.HS, k)
		if err != nil {
			r.Violation("readback-error", map[string]any{"case": c.ci, "key": k, "err": err.Error()})
			return false
		}
		ops := byKey[k]
		st := c16Step{Case: c.ci, Step: stepName, Group: g, Outcome: out, Obs: c16Obs{Key: k, Before: before[i], After: after}, Trail: slices.Clone(c.trail)}
		site := c.site(g, ops)
		if k.Cmd {
			tok += c.checkCmd(st, site, ops)
		} else {
			tok += c.checkOrdinary(st, site, ops)
		}
	}
	if tw != nil {
		tok += c.twinCheck(tw, g, out, keys, before, stepName)
	}
	c.fp.Write([]byte(tok))
	if len(c.trail) < 96 {
		c.trail = append(c.trail, tok)
	}
	return true
}

// ---------------------------------------------------------------------------
// B1: batch transparency of the cursors (differential twin)
//
// Inside one atomic batch the rows between two operations are not observable,
// so M1 alone cannot see an applied command whose effect is overwritten by a
// later command of the same batch (e.g. [advance(30), activate] leaving the
// old read_seq, or [tombstone(v2), advance] leaving a live v1 row). The
// monitor therefore copies the pre-batch rows of every touched key to fresh
// twin rows (same channel, uid + "~t<n>"), and after the batch was accepted
// replays exactly the applied operations one at a time, each in its own
// commit, through the plain Shard API on the twins. Cursor monotonicity at
// command granularity is then the requirement that the batched row carries
// the same ReadSeq / DeletedToSeq / AckSeq / SourceVersion / tombstone state /
// existence as the one-by-one twin. Equality (not only >=) is sound because
// both sides run the same resolve rules, including the incarnation resets;
// fields whose Shard and Batch variants legitimately differ (UpdatedAt,
// TombstoneAt of command rows) and ActivatedAt/JoinSeq/StartSeq are only
// counted.

type c16Twin struct {
	id   int
	keys []c16Key // twin key of keys[i]
	ok   bool
}

func (c *c16Case) twinUID(uid string, id int) string { return fmt.Sprintf("%s~t%d", uid, id) }

func (c *c16Case) twinPrepare(g c16Group, keys []c16Key, before []c16Row) *c16Twin {
	c.twinSeq++
	tw := &c16Twin{id: c.twinSeq, ok: true}
	sh := c.env.mdb.HashSlot(metadb.HashSlot(g.HS))
	for i, k := range keys {
		tk := k
		tk.UID = c.twinUID(k.UID, tw.id)
		tw.keys = append(tw.keys, tk)
		var err error
		switch {
		case before[i].M != nil:
			m := *before[i].M
			m.UID = tk.UID
			err = sh.UpsertUserChannelMembership(c.env.ctx, m) // absent row: stored verbatim
		case before[i].C != nil:
			cm := *before[i].C
			cm.UID = tk.UID
			err = sh.UpsertUserCMDChannelMembership(c.env.ctx, cm)
		}
		if err == nil && before[i].exists() {
			got, rerr := c.env.read(g.HS, tk)
			switch {
			case rerr != nil:
				err = rerr
			case before[i].M != nil:
				want := *before[i].M
				want.UID = tk.UID
				if got.M == nil || *got.M != want {
					err = errors.New("twin copy differs")
				}
			case before[i].C != nil:
				want := *before[i].C
				want.UID = tk.UID
				if got.C == nil || *got.C != want {
					err = errors.New("twin copy differs")
				}
			}
		}
		if err != nil {
			c.cnt["twin_setup_failed"]++
			tw.ok = false
		}
	}
	return tw
}

// twinApply runs one operation alone through the Shard API on the twin uid.
func (c *c16Case) twinApply(hs uint16, op c16Op, uid string) error {
	sh := c.env.mdb.HashSlot(metadb.HashSlot(hs))
	ctx := c.env.ctx
	if op.C != nil {
		cm := *op.C
		cm.UID = uid
		switch op.Kind {
		case c16CmdUpsert:
			return sh.UpsertUserCMDChannelMembership(ctx, cm)
		case c16CmdAck:
			return sh.AdvanceUserCMDChannelMembershipAckSeq(ctx, cm.UID, cm.CommandChannelID, cm.ChannelType, cm.AckSeq, cm.UpdatedAt)
		case c16CmdTomb:
			return sh.TombstoneUserCMDChannelMembership(ctx, cm.UID, cm.CommandChannelID, cm.ChannelType, cm.TombstoneAt)
		}
		return fmt.Errorf("harness: twin: unsupported %s", op.Kind)
	}
	m := *op.M
	m.UID = uid
	switch op.Kind {
	case c16Upsert, c16DelCmd:
		return sh.UpsertUserChannelMembership(ctx, m)
	case c16Ensure:
		return sh.EnsureUserChannelMembership(ctx, m)
	case c16Read:
		return sh.AdvanceUserChannelMembershipReadSeq(ctx, m.UID, c16ChKey(&m), m.ReadSeq, m.UpdatedAt)
	case c16Hide:
		return sh.HideUserChannelMembership(ctx, m.UID, c16ChKey(&m), m.DeletedToSeq, m.UpdatedAt)
	case c16Activate:
		return sh.SetUserChannelMembershipActivatedAt(ctx, m.UID, c16ChKey(&m), m.ActivatedAt, m.UpdatedAt)
	case c16Delete:
		return sh.DeleteUserChannelMembership(ctx, m.UID, c16ChKey(&m))
	}
	return fmt.Errorf("harness: twin: unsupported %s", op.Kind)
}

func c16PairKind(op c16Op) string {
	if op.M != nil && (op.Kind == c16Upsert || op.Kind == c16DelCmd) {
		if op.M.Tombstone {
			return "tombstone"
		}
		return "upsert"
	}
	return op.Kind
}

func (c *c16Case) twinCheck(tw *c16Twin, g c16Group, out c16Outcome, keys []c16Key, before []c16Row, stepName string) string {
	r := c.r
	if !tw.ok {
		return "/tw?"
	}
	if out.Class != "ok" {
		c.cnt["twin_skipped_group_not_accepted"]++
		return "/tw-"
	}
	idx := map[c16Key]int{}
	for i, k := range keys {
		idx[k] = i
	}
	// replay the applied operations one by one; count ordered same-row pairs
	last := map[c16Key]string{}
	sameRow := false
	for i, op := range g.Ops {
		if !out.applied(i) {
			c.cnt["twin_ops_skipped_command_stale"]++
			continue
		}
		k := op.key()
		if prev, ok := last[k]; ok {
			sameRow = true
			c.cnt["samerow_pair."+prev+">"+c16PairKind(op)+"."+g.Path]++
		}
		last[k] = c16PairKind(op)
		if err := c.twinApply(g.HS, op, tw.keys[idx[k]].UID); err != nil {
			// cannot happen on a tree where the batch and the single-call
			// variants agree; the row comparison below decides.
			c.cnt["twin_replay_op_error"]++
		}
		c.cnt["twin_ops_replayed"]++
	}
	c.cnt["twin_groups_compared"]++
	if sameRow {
		c.cnt["twin_groups_with_same_row_ops"]++
	}
	tag := "/tw="
	for i, k := range keys {
		main, err := c.env.read(g.HS, k)
		if err != nil {
			return "/tw?"
		}
		twin, err := c.env.read(g.HS, tw.keys[i])
		if err != nil {
			return "/tw?"
		}
		wit := func() map[string]any {
			return map[string]any{"case": c.ci, "step": stepName, "group": g, "outcome": out, "key": k,
				"before": before[i], "after_batch": main, "after_one_by_one": twin, "trail": slices.Clone(c.trail)}
		}
		lost := func(field string) {
			r.Violation("applied-command-effect-lost-in-batch:"+field+":"+g.Path, wit())
			tag = "/tw!"
		}
		differs := func(field string) {
			r.Violation("batch-result-differs-from-one-by-one:"+field+":"+g.Path, wit())
			tag = "/tw!"
		}
		c.cnt["twin_rows_compared"]++
		if main.exists() != twin.exists() {
			differs("existence")
			continue
		}
		if !main.exists() {
			continue
		}
		if k.Cmd {
			a, t := main.C, twin.C
			switch {
			case a.AckSeq < t.AckSeq:
				lost("ack_seq")
			case a.AckSeq > t.AckSeq:
				differs("ack_seq")
			}
			if a.Tombstone != t.Tombstone {
				if t.Tombstone {
					lost("tombstone")
				} else {
					differs("tombstone")
				}
			}
			if a.StartSeq != t.StartSeq {
				c.cnt["twin_uncompared_field_differs.start_seq"]++
			}
			continue
		}
		a, t := main.M, twin.M
		cmp := func(field string, av, tv uint64) {
			switch {
			case av < tv:
				lost(field)
			case av > tv:
				differs(field)
			}
		}
		cmp("read_seq", a.ReadSeq, t.ReadSeq)
		cmp("deleted_to", a.DeletedToSeq, t.DeletedToSeq)
		cmp("source_version", a.SourceVersion, t.SourceVersion)
		if a.Tombstone != t.Tombstone {
			if t.Tombstone {
				lost("tombstone")
			} else {
				differs("tombstone")
			}
		}
		if a.ActivatedAt != t.ActivatedAt {
			c.cnt["twin_uncompared_field_differs.activated_at"]++
		}
		if a.JoinSeq != t.JoinSeq || a.UpdatedAt != t.UpdatedAt || a.TombstoneAt != t.TombstoneAt {
			c.cnt["twin_uncompared_field_differs.other"]++
		}
		// D1 after the batch: a row that an applied command of the batch left
		// tombstoned must not be listed live by a directory pass.
		if t.Tombstone && sameRow {
			c.directoryTombstoneCheck(g, k, wit)
		}
	}
	return tag
}

// directoryTombstoneCheck walks k's user's directory (page size 2) and
// requires the row, if listed, to be listed as tombstoned.
func (c *c16Case) directoryTombstoneCheck(g c16Group, k c16Key, wit func() map[string]any) {
	u := c.w.user(k.UID)
	if u == nil {
		return
	}
	rows, _, err, stuck := c.pass(u, 2, len(u.Keys)+4, nil)
	if err != nil || stuck {
		return // the regular audit reports these
	}
	c.cnt["directory_after_batch_tombstone_checks"]++
	for _, m := range rows {
		if m.ChannelID == k.Ch && m.ChannelType == k.Typ && !m.Tombstone {
			w := wit()
			w["listed"] = m
			c.r.Violation("directory-lists-row-live-after-applied-tombstone:"+g.Path, w)
		}
	}
}

func c16Has(ops []c16Op, kinds ...string) bool {
	for _, op := range ops {
		if slices.Contains(kinds, op.Kind) {
			return true
		}
	}
	return false
}

func (c *c16Case) checkOrdinary(st c16Step, site string, ops []c16Op) string {
	r := c.r
	b, a := st.Obs.Before.M, st.Obs.After.M
	switch {
	case b == nil && a == nil:
		return "/-"
	case b == nil:
		c.cnt["row_created"]++
		return "/new"
	case a == nil:
		if !c16Has(ops, c16Delete) {
			r.Violation("row-vanished-without-delete:"+site, st)
		}
		c.cnt["row_physically_deleted"]++
		return "/gone"
	}
	if len(ops) > 1 && c16Has(ops, c16Delete) {
		// (d) the row was physically deleted and created again inside one
		// atomic batch: a new incarnation, nothing to compare.
		c.cnt["incarnation_reset.delete_and_recreate_in_batch"]++
		return "/redo"
	}
	c.cnt["pairs_checked"]++
	single := len(ops) == 1
	// M2: source version is a fence, it never moves back.
	if a.SourceVersion < b.SourceVersion {
		r.Violation("source-version-decreased:"+site, st)
	}
	// M1 with the incarnation boundary.
	readDown, delDown := a.ReadSeq < b.ReadSeq, a.DeletedToSeq < b.DeletedToSeq
	tag := "/same"
	if readDown || delDown {
		boundary, why := false, ""
		newer := a.SourceVersion > b.SourceVersion
		if single {
			switch ops[0].Kind {
			case c16Upsert, c16DelCmd:
				boundary, why = newer && b.Tombstone && !a.Tombstone, "recreate_after_tombstone"
			case c16Ensure:
				boundary, why = newer && b.SourceVersion != 0, "ensure_newer_generation_over_fenced_row"
			}
		} else {
			// Several operations hit this row inside one atomic batch; the
			// intermediate rows are not observable, so only the necessary
			// condition common to (a) and (b) is required.
			boundary, why = newer && c16Has(ops, c16Upsert, c16DelCmd, c16Ensure), "multi_op_group"
		}
		if boundary {
			c.cnt["incarnation_reset."+why]++
			c.resets++
			tag = "/reset"
		} else {
			if readDown {
				r.Violation("read-seq-regressed:"+site, st)
			}
			if delDown {
				r.Violation("deleted-to-regressed:"+site, st)
			}
		}
	} else if a.ReadSeq > b.ReadSeq || a.DeletedToSeq > b.DeletedToSeq {
		c.cnt["cursor_advanced"]++
		c.advanced++
		tag = "/adv"
	} else if *a != *b {
		tag = "/chg"
	}
	// M2: older subscriber-derived writes are refused.
	if single {
		m := ops[0].M
		switch ops[0].Kind {
		case c16Upsert, c16DelCmd:
			if m.SourceVersion < b.SourceVersion {
				if *a != *b {
					r.Violation("stale-source-version-upsert-changed-row:"+site, st)
				}
				c.cnt["stale_upsert_refused"]++
				c.staleRefused++
				tag += "/stale"
			}
		case c16Ensure:
			if m.SourceVersion <= b.SourceVersion {
				if *a != *b {
					r.Violation("not-newer-ensure-changed-row:"+site, st)
				}
				c.cnt["stale_ensure_refused"]++
				c.staleRefused++
				tag += "/stale"
			}
		}
	}
	return tag
}

func (c *c16Case) checkCmd(st c16Step, site string, ops []c16Op) string {
	r := c.r
	b, a := st.Obs.Before.C, st.Obs.After.C
	switch {
	case b == nil && a == nil:
		return "/-"
	case b == nil:
		c.cnt["cmd_row_created"]++
		return "/new"
	case a == nil:
		r.Violation("cmd-row-vanished:"+site, st)
		return "/gone"
	}
	c.cnt["cmd_pairs_checked"]++
	if a.AckSeq < b.AckSeq {
		// (c) a tombstoned binding was bound again. With several operations
		// on the row inside one atomic batch the unbind and a later unbind
		// may both be inside the batch, so only their presence is required.
		var rebound bool
		if len(ops) == 1 {
			rebound = ops[0].Kind == c16CmdUpsert && b.Tombstone && !a.Tombstone
		} else {
			rebound = c16Has(ops, c16CmdUpsert) && (b.Tombstone || c16Has(ops, c16CmdTomb))
		}
		if rebound {
			c.cnt["incarnation_reset.cmd_rebind_after_tombstone"]++
			c.resets++
			return "/reset"
		}
		r.Violation("ack-seq-regressed:"+site, st)
		return "/bad"
	}
	if a.AckSeq > b.AckSeq {
		c.cnt["ack_advanced"]++
		c.advanced++
		return "/adv"
	}
	return "/same"
}

func c16Kinds(g c16Group) string {
	ks := make([]string, len(g.Ops))
	for i, op := range g.Ops {
		ks[i] = op.Kind
	}
	return strings.Join(ks, "+")
}

// ---------------------------------------------------------------------------
// directory audit (D1)

type c16Listed struct {
	Ch  string `json:"ch"`
	Typ int64  `json:"typ"`
	At  int64  `json:"activated_at"`
	Tmb bool   `json:"tombstone,omitempty"`
}

// pass walks the whole directory of u with the given page size. between is
// called after every page that is not the last one.
func (c *c16Case) pass(u *c16User, limit, maxPages int, between func()) (rows []c16M, pages int, err error, stuck bool) {
	sh := c.env.mdb.HashSlot(metadb.HashSlot(u.HS))
	var cursor metadb.UserChannelMembershipCursor
	for {
		page, next, done, lerr := sh.ListUserChannelMembershipPage(c.env.ctx, u.UID, cursor, limit)
		if lerr != nil {
			return rows, pages, lerr, false
		}
		pages++
		if len(page) > limit {
			c.r.Violation("directory-page-exceeds-limit", map[string]any{"case": c.ci, "uid": u.UID, "limit": limit, "got": len(page)})
		}
		rows = append(rows, page...)
		if done {
			return rows, pages, nil, false
		}
		if pages >= maxPages {
			return rows, pages, nil, true
		}
		cursor = next
		if between != nil {
			between()
		}
	}
}

func (c *c16Case) audit(rng *rand.Rand, stepName string) {
	r := c.r
	u := c.w.Users[rng.IntN(len(c.w.Users))]
	var others []*c16User
	for _, o := range c.w.Users {
		if o != u {
			others = append(others, o)
		}
	}
	// expected rows by point reads (independent of the activation index)
	expect := map[c16Key]c16M{}
	live := 0
	for _, k := range u.Keys {
		row, err := c.env.read(u.HS, k)
		if err != nil {
			r.Violation("readback-error", map[string]any{"case": c.ci, "key": k, "err": err.Error()})
			return
		}
		if row.M != nil {
			expect[k] = *row.M
			if !row.M.Tombstone {
				live++
			}
		}
	}
	maxPages := len(expect) + 4
	sizes := []int{len(u.Keys) + 2}
	for _, s := range rng.Perm(len(expect) + 1) {
		if len(sizes) >= 3 {
			break
		}
		sizes = append(sizes, s+1)
	}
	if rng.IntN(3) == 0 && !slices.Contains(sizes, 1) {
		sizes = append(sizes, 1)
	}
	var reference []c16Listed
	for si, limit := range sizes {
		mutations := 0
		between := func() {
			for n := 1 + rng.IntN(2); n > 0; n-- {
				g := c16GenGroup(rng, c.env, c.w, others, true)
				c.exec(g, fmt.Sprintf("%s/p%d/between", stepName, limit))
				mutations++
			}
		}
		rows, pages, err, stuck := c.pass(u, limit, maxPages, between)
		r.Eval(1)
		c.cnt["directory_passes"]++
		c.cnt["directory_pages"] += pages
		c.cnt["directory_interleaved_mutations"] += mutations
		r.Max("max_directory_rows", len(rows))
		listed := make([]c16Listed, len(rows))
		for i, m := range rows {
			listed[i] = c16Listed{Ch: m.ChannelID, Typ: m.ChannelType, At: m.ActivatedAt, Tmb: m.Tombstone}
		}
		wit := func(extra map[string]any) map[string]any {
			exp := make([]c16Listed, 0, len(expect))
			for _, k := range u.Keys {
				if m, ok := expect[k]; ok {
					exp = append(exp, c16Listed{Ch: m.ChannelID, Typ: m.ChannelType, At: m.ActivatedAt, Tmb: m.Tombstone})
				}
			}
			w := map[string]any{"case": c.ci, "step": stepName, "uid": u.UID, "hash_slot": u.HS, "limit": limit, "pages": pages, "listed": listed, "stored": exp, "trail": slices.Clone(c.trail)}
			for k, v := range extra {
				w[k] = v
			}
			return w
		}
		if err != nil {
			r.Violation("directory-pass-error", wit(map[string]any{"err": err.Error()}))
			continue
		}
		if stuck {
			r.Violation("directory-pass-does-not-terminate", wit(nil))
			continue
		}
		seen := map[c16Key]int{}
		ties := 0
		for i, m := range rows {
			k := c16Key{UID: m.UID, Ch: m.ChannelID, Typ: m.ChannelType}
			seen[k]++
			if seen[k] == 2 {
				r.Violation("directory-row-repeated", wit(map[string]any{"row": listed[i]}))
			}
			want, ok := expect[k]
			if m.UID != u.UID || !ok {
				r.Violation("directory-lists-unknown-row", wit(map[string]any{"row": m}))
			} else if want != m {
				r.Violation("directory-row-differs-from-point-read", wit(map[string]any{"row": m, "stored_row": want}))
			}
			if i > 0 {
				p := rows[i-1]
				switch {
				case p.ActivatedAt < m.ActivatedAt:
					r.Violation("directory-order-activation-not-descending", wit(map[string]any{"at": i}))
				case p.ActivatedAt == m.ActivatedAt:
					ties++
					// The index key is length-prefixed, so the channel order
					// among different id lengths is an encoding detail; it is
					// only required to be the same in every pass (reference
					// comparison below). Equal-length ids must ascend.
					if len(p.ChannelID) == len(m.ChannelID) {
						if p.ChannelID > m.ChannelID || (p.ChannelID == m.ChannelID && p.ChannelType >= m.ChannelType) {
							r.Violation("directory-order-channel-not-ascending", wit(map[string]any{"at": i}))
						}
					} else {
						c.cnt["directory_ties_across_id_lengths"]++
					}
				}
			}
		}
		for k, m := range expect {
			if seen[k] == 0 {
				if !m.Tombstone {
					r.Violation("directory-omits-live-row", wit(map[string]any{"row": c16Listed{Ch: m.ChannelID, Typ: m.ChannelType, At: m.ActivatedAt}}))
				} else {
					c.cnt["directory_tombstone_not_listed"]++
				}
			} else if m.Tombstone {
				c.cnt["directory_tombstone_listed"]++
			}
		}
		c.cnt["directory_live_rows_checked"] += live
		c.cnt["directory_ties"] += ties
		if si == 0 {
			reference = listed
			if pages != 1 {
				r.Violation("directory-single-page-pass-needs-more-pages", wit(nil))
			}
		} else {
			// The scanned rows are not touched during the audit: every page
			// size must produce the same sequence.
			if !slices.Equal(reference, listed) {
				r.Violation("directory-pass-differs-between-page-sizes", wit(map[string]any{"reference": reference}))
			}
			if pages > 1 {
				c.cnt["directory_multi_page_passes"]++
				if ties > 0 {
					c.tiesPaged++
				}
			}
		}
	}
}

// ---------------------------------------------------------------------------

func c16RunCase(r *verifkit.Run, env *c16Env, ci, steps int) {
	rng := r.Rand(16, uint64(ci))
	fp := fnv.New64a()
	c := &c16Case{r: r, env: env, ci: ci, w: c16NewWorld(rng, ci), cnt: map[string]int{}, fp: fp}
	defer func() {
		for k, v := range c.cnt {
			r.Count(k, v)
		}
	}()
	// seed the directories so that audits see several rows and activation ties
	for _, u := range c.w.Users {
		g := c16Group{Path: c16Pick(rng, c16PathBatch, c16PathWB, c16PathFSM), HS: u.HS, Merge: true}
		for _, k := range u.Keys {
			if rng.IntN(4) == 0 {
				continue
			}
			m := c16GenM(rng, k, nil)
			if rng.IntN(3) != 0 {
				m.Tombstone, m.TombstoneAt = false, 0
			}
			g.Ops = append(g.Ops, c16Op{Kind: c16Upsert, M: m})
		}
		if len(g.Ops) > 0 && !c.exec(g, "seed") {
			return
		}
	}
	var history []c16Group
	audits := 0
	for step := 0; step < steps; step++ {
		name := fmt.Sprintf("s%d", step)
		switch k := rng.IntN(100); {
		case k < 7:
			c.audit(rng, name)
			audits++
		case k < 17 && len(history) > 0: // replay of an earlier command / call, verbatim
			g := history[rng.IntN(len(history))]
			c.cnt["replays"]++
			if !c.exec(g, name+"/replay") {
				return
			}
		case k < 32: // several mutations of ONE row inside one atomic batch (B1)
			g, ok := c16GenPairGroup(rng, env, c.w, c.w.Users)
			if !ok {
				g = c16GenGroup(rng, env, c.w, c.w.Users, true)
			} else {
				c.cnt["samerow_pair_groups_generated"]++
			}
			if !c.exec(g, name+"/pair") {
				return
			}
			history = append(history, g)
		default:
			g := c16GenGroup(rng, env, c.w, c.w.Users, true)
			if !c.exec(g, name) {
				return
			}
			history = append(history, g)
		}
		if r.NumViolations() > 50 {
			return
		}
	}
	if audits == 0 {
		c.audit(rng, "final")
	}
	c.cnt["cases"]++
	if c.staleRefused >= 1 && c.advanced >= 1 && c.resets >= 1 && c.tiesPaged >= 1 {
		r.Nontrivial(fmt.Sprintf("%016x", fp.Sum64()))
		c.cnt["cases_nontrivial"]++
	}
	if ci%53 == 5 && r.WantSample() {
		uids := make([]string, len(c.w.Users))
		for i, u := range c.w.Users {
			uids[i] = u.UID
		}
		r.Sample(map[string]any{"case": ci, "users": uids, "hot": c.w.Hot, "trail": c.trail})
	}
}

func TestVerifC16(t *testing.T) {
	r := verifkit.Start(t, "C16", "main")
	defer r.Finish()
	r.SetRule("Each case is a PRNG-generated history over 3-4 users (uids that are prefixes of one another, two per hash slot) x 8-9 ordinary channels (group ids of different lengths/types and person channels) + 2 command channels each: membership upserts, fsm delete (tombstone) commands, ensures, read advances, hides, activations, physical deletes, command bind/ack/unbind, verbatim replays of earlier groups, through meta.Shard, ShardStore, typed Batch, WriteBatch and encoded fsm commands (multi-membership commands and multi-command ApplyBatch), 60% of them on 5 hot rows; every touched row is read back before/after. Directory audits walk one user's ListUserChannelMembershipPage with a one-page reference pass and 2-3 other page sizes while 1-2 generated groups mutate other users' rows between pages. Field values are drawn near the stored ones from small domains. Multi-operation atomic groups (incl. purpose-built 2-3 operation groups on ONE existing row for every ordered pair of read/activate/hide/tombstone/upsert/ensure, 15% of steps) are replayed operation by operation through the Shard API on twin copies of the touched rows and the batched row must carry the same cursors, source version and tombstone state. Non-trivial = history with >=1 refused stale source version, >=1 cursor advance, >=1 accepted incarnation reset and >=1 multi-page directory pass containing an ActivatedAt tie; distinct = hash of the (path, kinds, outcome, per-row effect) sequence.")
	r.Assume("Cursor monotonicity is per membership incarnation: a lower cursor is accepted only (a) tombstone->live upsert with strictly higher SourceVersion, (b) ensure with strictly higher SourceVersion over a row whose stored SourceVersion != 0, (c) re-bind of a tombstoned command membership, (d) after a physical delete. Inside a multi-operation batch on one row only 'SourceVersion strictly increased and an upsert/ensure was present' is required.")
	r.Assume("Batch transparency (B1) is judged by equality with a one-by-one replay of the applied operations through meta.Shard on copies of the pre-batch rows; only operations of an accepted batch / of fsm commands whose own result is not stale_meta are replayed. UpdatedAt, TombstoneAt, JoinSeq, StartSeq and ActivatedAt differences are counted, not alarmed.")
	r.Assume("ActivatedAt values are >= 0 (the page cursor rejects negative values). Channel order among ids of different length is only required to be identical in every pass (index keys are length-prefixed); equal-length ids must ascend by (id, type).")
	r.Assume("Tombstoned rows may or may not be listed by a directory pass (counted); they must not repeat.")

	nCases := r.N(2000, 26000)
	steps := 40
	const workers = 4
	envs := make([]*c16Env, workers)
	for w := range envs {
		envs[w] = c16Open(t, filepath.Join(t.TempDir(), fmt.Sprintf("db%d", w)), uint64(41+w))
	}
	defer func() {
		for _, e := range envs {
			_ = e.db.Close()
		}
	}()
	r.Note("cases", nCases)
	r.Note("steps_per_case", steps)

	var wg sync.WaitGroup
	for w := 0; w < workers; w++ {
		wg.Add(1)
		go func(w int) {
			defer wg.Done()
			for ci := w; ci < nCases; ci += workers {
				if r.Skip(ci) {
					continue
				}
				r.BeginCase(ci, "history")
				c16RunCase(r, envs[w], ci, steps)
				if r.NumViolations() > 50 {
					return
				}
			}
		}(w)
	}
	wg.Wait()
}
