//go:build verif

package fsm_test

import (
	"fmt"
	"math/rand/v2"
	"slices"

	metadb "github.com/WuKongIM/WuKongIM/pkg/db/meta"
)

// C17 harness, part 3: request builders that follow the production proposer
// (pkg/cluster/channels/migration_store.go) and the executor's step order
// (migration_leader_transfer.go / migration_replica_replace.go).

const (
	c17Pending   = metadb.ChannelMigrationStatusPending
	c17Running   = metadb.ChannelMigrationStatusRunning
	c17Blocked   = metadb.ChannelMigrationStatusBlocked
	c17Completed = metadb.ChannelMigrationStatusCompleted
	c17Failed    = metadb.ChannelMigrationStatusFailed
	c17Aborted   = metadb.ChannelMigrationStatusAborted

	c17PValidate   = metadb.ChannelMigrationPhaseValidate
	c17PProbe      = metadb.ChannelMigrationPhaseProbeTarget
	c17PWriteFence = metadb.ChannelMigrationPhaseWriteFence
	c17PDrain      = metadb.ChannelMigrationPhaseDrainLeader
	c17PFinal      = metadb.ChannelMigrationPhaseFinalTargetCatchUp
	c17PCommit     = metadb.ChannelMigrationPhaseCommitLeaderMeta
	c17PVerifyLdr  = metadb.ChannelMigrationPhaseVerifyNewLeader
	c17PAddLearner = metadb.ChannelMigrationPhaseAddLearner
	c17PBootstrap  = metadb.ChannelMigrationPhaseBootstrapTarget
	c17PWarm       = metadb.ChannelMigrationPhaseWarmCatchUp
	c17PCutFence   = metadb.ChannelMigrationPhaseCutoverFence
	c17PPromote    = metadb.ChannelMigrationPhasePromoteAndRemove
	c17PVerifyMem  = metadb.ChannelMigrationPhaseVerifyMembership
	c17PClear      = metadb.ChannelMigrationPhaseClearFence
)

var c17LTPhases = []metadb.ChannelMigrationPhase{c17PValidate, c17PProbe, c17PWriteFence, c17PDrain, c17PFinal, c17PCommit, c17PVerifyLdr, c17PClear}
var c17RRPhases = []metadb.ChannelMigrationPhase{c17PValidate, c17PAddLearner, c17PBootstrap, c17PWarm, c17PCutFence, c17PFinal, c17PPromote, c17PVerifyMem, c17PClear}

// c17RogueProposer enables commands no production proposer builds: task-only
// status rewrites (terminal -> active revival, Advance carrying
// Aborted/Completed) and a runtime guard naming a different channel than the
// task guard. They are within the property's quantifier (arbitrary command
// sequences through the state machine) and carry distinct signatures
// (":terminal-revival:", ":cross-channel").
const c17RogueProposer = true

type c17Task = metadb.ChannelMigrationTask
type c17Meta = metadb.ChannelRuntimeMeta

func (h *c17Hist) stamp() int64 { h.now++; return h.now }

func (h *c17Hist) newTaskID(ch c17Chan) string {
	// Sometimes reuse an id that exists on another channel: task ids are only
	// unique per channel in the table key.
	if len(h.chans) > 1 && h.rng.IntN(4) == 0 {
		for ref := range h.cur.Tasks {
			if ref.Ch != ch {
				if _, dup := h.cur.Tasks[c17Ref{Ch: ch, ID: ref.ID}]; !dup {
					return ref.ID
				}
			}
		}
	}
	h.seq++
	return fmt.Sprintf("t%d", h.seq)
}

func (h *c17Hist) genMeta(ch c17Chan) c17Meta {
	rng := h.rng
	n := 2 + rng.IntN(3)
	perm := rng.Perm(6)
	replicas := make([]uint64, 0, n)
	for _, p := range perm[:n] {
		replicas = append(replicas, uint64(p+1))
	}
	isr := slices.Clone(replicas)
	if n >= 3 && rng.IntN(4) == 0 {
		isr = isr[:n-1]
	}
	return c17Meta{ChannelID: ch.ID, ChannelType: ch.Type,
		ChannelEpoch: uint64(3 + rng.IntN(20)), LeaderEpoch: uint64(3 + rng.IntN(20)),
		Replicas: replicas, ISR: isr, Leader: isr[rng.IntN(len(isr))], MinISR: int64(1 + rng.IntN(len(isr))),
		Status: 1, Features: 1, LeaseUntilMS: h.now + 10_000}
}

func c17OtherNode(rng *rand.Rand, not []uint64) uint64 {
	for i := 0; i < 20; i++ {
		n := uint64(1 + rng.IntN(8))
		if !c17Has(not, n) {
			return n
		}
	}
	return 9
}

// genTask builds a fresh Pending/Validate task the way MigrationStore.Create* does.
func (h *c17Hist) genTask(ch c17Chan, m c17Meta) c17Task {
	rng := h.rng
	now := h.stamp()
	t := c17Task{TaskID: h.newTaskID(ch), Status: c17Pending, Phase: c17PValidate, ChannelID: ch.ID, ChannelType: ch.Type,
		BaseChannelEpoch: m.ChannelEpoch, BaseLeaderEpoch: m.LeaderEpoch, CreatedAtMS: now, UpdatedAtMS: now}
	var others []uint64
	for _, n := range m.ISR {
		if n != m.Leader {
			others = append(others, n)
		}
	}
	x := rng.IntN(10)
	if x < 5 && len(others) > 0 {
		t.Kind = metadb.ChannelMigrationKindLeaderTransfer
		if x == 0 {
			t.Kind = metadb.ChannelMigrationKindLeaderFailover
		}
		t.SourceNode = m.Leader
		t.TargetNode = others[rng.IntN(len(others))]
		t.DesiredLeader = t.TargetNode
		return t
	}
	t.Kind = metadb.ChannelMigrationKindReplicaReplace
	// 35 %: replace the replica that currently leads the channel – the executor
	// path with an EMBEDDED leader transfer before the learner is added.
	if len(others) > 0 && rng.IntN(100) < 35 {
		t.SourceNode = m.Leader
	} else {
		var cand []uint64
		for _, n := range m.Replicas {
			if n != m.Leader {
				cand = append(cand, n)
			}
		}
		if len(cand) == 0 {
			cand = m.Replicas
		}
		t.SourceNode = cand[rng.IntN(len(cand))]
	}
	t.TargetNode = c17OtherNode(rng, m.Replicas)
	return t
}

func (h *c17Hist) freshProof(t c17Task, m c17Meta) metadb.ChannelMigrationCutoverProof {
	leo := uint64(100 + h.rng.IntN(1000))
	gen := m.RouteGeneration
	if gen == 0 {
		gen = 1
	}
	return metadb.ChannelMigrationCutoverProof{CutoverLEO: leo, CutoverHW: leo - uint64(h.rng.IntN(3)),
		DrainedLeaderNode: m.Leader, DrainedRuntimeGeneration: gen, DrainedChannelEpoch: m.ChannelEpoch,
		DrainedLeaderEpoch: m.LeaderEpoch, DrainedFenceVersion: m.WriteFenceVersion}
}

// staleProof makes exactly one of the four property-relevant proof fields differ
// from the meta, keeping every field non-zero (a zero field is rejected as a
// partial proof before any comparison).
func (h *c17Hist) staleProof(t c17Task, m c17Meta) (metadb.ChannelMigrationCutoverProof, string) {
	p := h.freshProof(t, m)
	off := func(v uint64) uint64 {
		if v > 1 && h.rng.IntN(2) == 0 {
			return v - 1
		}
		return v + 1 + uint64(h.rng.IntN(2))
	}
	switch h.rng.IntN(4) {
	case 0:
		p.DrainedFenceVersion = off(p.DrainedFenceVersion)
		return p, "fence_version"
	case 1:
		p.DrainedChannelEpoch = off(p.DrainedChannelEpoch)
		return p, "channel_epoch"
	case 2:
		p.DrainedLeaderEpoch = off(p.DrainedLeaderEpoch)
		return p, "leader_epoch"
	default:
		p.DrainedLeaderNode = c17OtherNode(h.rng, []uint64{m.Leader})
		return p, "leader"
	}
}

func c17TaskProof(t c17Task) metadb.ChannelMigrationCutoverProof {
	return metadb.ChannelMigrationCutoverProof{CutoverLEO: t.CutoverLEO, CutoverHW: t.CutoverHW, DrainedLeaderNode: t.DrainedLeaderNode,
		DrainedRuntimeGeneration: t.DrainedRuntimeGeneration, DrainedChannelEpoch: t.DrainedChannelEpoch,
		DrainedLeaderEpoch: t.DrainedLeaderEpoch, DrainedFenceVersion: t.DrainedFenceVersion}
}

func c17DesiredLeader(t c17Task) uint64 {
	if t.EmbeddedLeaderTransfer && t.EmbeddedDesiredLeader != 0 {
		return t.EmbeddedDesiredLeader
	}
	if t.DesiredLeader != 0 {
		return t.DesiredLeader
	}
	return t.TargetNode
}

// c17LTMode: the task currently walks the leader-transfer phase list.
func c17LTMode(t c17Task) bool {
	return c17IsLTKind(t.Kind) || (t.Kind == metadb.ChannelMigrationKindReplicaReplace && t.EmbeddedLeaderTransfer)
}

// ---- request builders ------------------------------------------------------

func (h *c17Hist) mkCreate(t c17Task, m c17Meta, guarded bool, label string) c17Cmd {
	if guarded {
		return c17Cmd{Label: label, Req: &metadb.ChannelMigrationTaskCreate{Task: t, RuntimeGuard: c17RuntimeGuard(m)}}
	}
	return c17Cmd{Label: label, Req: &t}
}

func (h *c17Hist) mkClaim(t c17Task, owner uint64, label string) c17Cmd {
	now := h.stamp()
	return c17Cmd{Label: label, Req: &metadb.ChannelMigrationTaskClaim{Guard: c17TaskGuard(t), Status: c17Running, Phase: t.Phase,
		OwnerNodeID: owner, OwnerLeaseUntilMS: now + c17OwnerTTL, NowMS: now, UpdatedAtMS: now}}
}

func (h *c17Hist) mkAdvance(t c17Task, status metadb.ChannelMigrationStatus, phase metadb.ChannelMigrationPhase, proof metadb.ChannelMigrationCutoverProof, label string) c17Cmd {
	now := h.stamp()
	req := &metadb.ChannelMigrationTaskAdvance{Guard: c17TaskGuard(t), Status: status, Phase: phase, Attempt: t.Attempt + 1,
		UpdatedAtMS: now, CutoverProof: proof}
	if proof.CutoverLEO != 0 {
		req.Progress = metadb.ChannelMigrationProgress{LeaderLEO: proof.CutoverLEO, LeaderHW: proof.CutoverHW}
	}
	switch status {
	case c17Blocked:
		req.BlockerCode, req.BlockerMessage = "target_not_ready", "blocked"
	case c17Failed, c17Aborted, c17Completed:
		req.LastError, req.CompletedAtMS = "gave up", now
	}
	return c17Cmd{Label: label, Req: req}
}

func c17FencePhase(t c17Task) metadb.ChannelMigrationPhase {
	if c17LTMode(t) {
		if t.Phase == c17PWriteFence {
			return c17PDrain
		}
		return t.Phase
	}
	if t.Phase == c17PWarm {
		return c17PCutFence
	}
	return t.Phase
}

func (h *c17Hist) mkSetFence(t c17Task, m c17Meta, label string) c17Cmd {
	now := h.stamp()
	return c17Cmd{Label: label, Req: &metadb.ChannelMigrationFenceRequest{Guard: c17TaskGuard(t), RuntimeGuard: c17RuntimeGuard(m),
		Status: c17Running, Phase: c17FencePhase(t), FenceReason: uint8(1 + h.rng.IntN(2)), FenceUntilMS: now + c17FenceTTL, UpdatedAtMS: now}}
}

func (h *c17Hist) mkReset(t c17Task, m c17Meta, label string) c17Cmd {
	now := h.stamp()
	phase := c17PWarm
	if c17LTMode(t) {
		phase = c17PWriteFence
		if h.rng.IntN(2) == 0 {
			phase = c17PProbe
		}
	}
	return c17Cmd{Label: label, Req: &metadb.ChannelMigrationResetFenceRequest{Guard: c17TaskGuard(t), RuntimeGuard: c17RuntimeGuard(m),
		Status: c17Running, Phase: phase, NowMS: now, UpdatedAtMS: now}}
}

func (h *c17Hist) mkCommit(t c17Task, m c17Meta, label string) c17Cmd {
	now := h.stamp()
	return c17Cmd{Label: label, Req: &metadb.ChannelMigrationLeaderTransferRequest{Guard: c17TaskGuard(t), RuntimeGuard: c17RuntimeGuard(m),
		Status: c17Running, Phase: c17PVerifyLdr, DesiredLeader: c17DesiredLeader(t), NextLeaderEpoch: m.LeaderEpoch + 1,
		LeaseUntilMS: now + c17FenceTTL, NowMS: now, UpdatedAtMS: now}}
}

func (h *c17Hist) mkAddLearner(t c17Task, m c17Meta, label string) c17Cmd {
	now := h.stamp()
	target := t.TargetNode
	if target == 0 {
		target = 9
	}
	return c17Cmd{Label: label, Req: &metadb.ChannelMigrationAddLearnerRequest{Guard: c17TaskGuard(t), RuntimeGuard: c17RuntimeGuard(m),
		Status: c17Running, Phase: c17PBootstrap, TargetNode: target, UpdatedAtMS: now}}
}

func (h *c17Hist) mkPromote(t c17Task, m c17Meta, label string) c17Cmd {
	now := h.stamp()
	src, dst := t.SourceNode, t.TargetNode
	if src == 0 || dst == 0 || src == dst { // keep the request well-formed (else ApplyBatch fails hard)
		src, dst = 8, 9
	}
	return c17Cmd{Label: label, Req: &metadb.ChannelMigrationPromoteLearnerRequest{Guard: c17TaskGuard(t), RuntimeGuard: c17RuntimeGuard(m),
		Status: c17Running, Phase: c17PVerifyMem, SourceNode: src, TargetNode: dst, NowMS: now, UpdatedAtMS: now}}
}

func (h *c17Hist) mkClear(t c17Task, m c17Meta, label string) c17Cmd {
	now := h.stamp()
	req := &metadb.ChannelMigrationClearFenceRequest{Guard: c17TaskGuard(t), RuntimeGuard: c17RuntimeGuard(m),
		Status: c17Completed, Phase: c17PClear, UpdatedAtMS: now, CompletedAtMS: now}
	if t.Kind == metadb.ChannelMigrationKindReplicaReplace && t.EmbeddedLeaderTransfer && t.Phase == c17PVerifyLdr {
		req.Status, req.Phase, req.CompletedAtMS = c17Running, c17PAddLearner, 0
	}
	return c17Cmd{Label: label, Req: req}
}

func (h *c17Hist) mkAbort(t c17Task, m c17Meta, label string) c17Cmd {
	now := h.stamp()
	return c17Cmd{Label: label, Req: &metadb.ChannelMigrationAbortRequest{Guard: c17TaskGuard(t), RuntimeGuard: c17RuntimeGuard(m),
		Status: c17Aborted, Phase: t.Phase, UpdatedAtMS: now, CompletedAtMS: now, LastError: "operator aborted"}}
}

func (h *c17Hist) mkGC() c17Cmd {
	before := h.now - int64(h.rng.IntN(30_000))
	if h.rng.IntN(4) == 0 {
		before = h.now + 1
	}
	return c17Cmd{Label: "gc", Req: &metadb.ChannelMigrationTaskGCRequest{BeforeMS: before, Limit: 1 + h.rng.IntN(5)}}
}

func (h *c17Hist) owner(t c17Task) uint64 {
	if t.OwnerNodeID != 0 {
		return t.OwnerNodeID
	}
	return uint64(100 + h.rng.IntN(2))
}

// proofCurrent: the stored proof and the fence still describe the current meta.
func c17ProofCurrent(t c17Task, m c17Meta) bool {
	return len(c17ProofMismatch(t, m)) == 0 && c17OwnsFence(t, m) && t.DrainedRuntimeGeneration != 0
}

// advanceWithDrainProof: the executor's drain step. 35 % of the time the proof
// recorded is stale in exactly one field (a drain result from an older
// leader/epoch/fence that arrives late).
func (h *c17Hist) advanceWithDrainProof(t c17Task, m c17Meta, next metadb.ChannelMigrationPhase) c17Cmd {
	if h.rng.IntN(100) < 35 {
		p, f := h.staleProof(t, m)
		return h.mkAdvance(t, c17Running, next, p, "happy:proof-stale-"+f)
	}
	return h.mkAdvance(t, c17Running, next, h.freshProof(t, m), "happy")
}

// happy returns the next production step for (t, m), or false when the task
// needs nothing more.
func (h *c17Hist) happy(t c17Task, m c17Meta) (c17Cmd, bool) {
	none := metadb.ChannelMigrationCutoverProof{}
	if t.IsTerminal() {
		return c17Cmd{}, false
	}
	if t.Status == c17Pending || t.OwnerNodeID == 0 {
		return h.mkClaim(t, h.owner(t), "happy"), true
	}
	if t.Status == c17Blocked {
		return h.mkAdvance(t, c17Running, t.Phase, none, "happy:unblock"), true
	}
	lt := c17LTMode(t)
	cutover := func(mk func(c17Task, c17Meta, string) c17Cmd) (c17Cmd, bool) {
		if c17ProofCurrent(t, m) {
			return mk(t, m, "happy"), true
		}
		if h.rng.IntN(100) < 55 {
			return mk(t, m, "happy:cutover-with-stale-proof"), true
		}
		if !c17OwnsFence(t, m) {
			// fence lost or renewed elsewhere: renew it (clears the proof)
			return h.mkSetFence(t, m, "happy:renew-fence"), true
		}
		return h.mkAdvance(t, c17Running, t.Phase, h.freshProof(t, m), "happy:re-drain"), true
	}
	switch t.Phase {
	case c17PValidate:
		if c17IsLTKind(t.Kind) {
			return h.mkAdvance(t, c17Running, c17PProbe, none, "happy"), true
		}
		if m.Leader == t.SourceNode {
			// embedded leader transfer away from the replica being replaced
			var cand []uint64
			for _, n := range m.ISR {
				if n != t.SourceNode {
					cand = append(cand, n)
				}
			}
			if len(cand) == 0 {
				return h.mkAdvance(t, c17Blocked, t.Phase, none, "happy:block-source-is-leader"), true
			}
			c := h.mkAdvance(t, c17Running, c17PProbe, none, "happy:embedded-transfer")
			c.Req.(*metadb.ChannelMigrationTaskAdvance).EmbeddedDesiredLeader = cand[h.rng.IntN(len(cand))]
			return c, true
		}
		return h.mkAdvance(t, c17Running, c17PAddLearner, none, "happy"), true
	case c17PProbe:
		return h.mkAdvance(t, c17Running, c17PWriteFence, none, "happy"), true
	case c17PWriteFence:
		return h.mkSetFence(t, m, "happy"), true
	case c17PDrain:
		return h.advanceWithDrainProof(t, m, c17PFinal), true
	case c17PFinal:
		next := c17PPromote
		if lt {
			next = c17PCommit
		}
		if c17TaskProof(t) == none || h.rng.IntN(5) == 0 {
			return h.advanceWithDrainProof(t, m, next), true
		}
		return h.mkAdvance(t, c17Running, next, c17TaskProof(t), "happy"), true
	case c17PCommit:
		return cutover(h.mkCommit)
	case c17PVerifyLdr, c17PVerifyMem:
		return h.mkClear(t, m, "happy"), true
	case c17PAddLearner:
		return h.mkAddLearner(t, m, "happy"), true
	case c17PBootstrap:
		return h.mkAdvance(t, c17Running, c17PWarm, none, "happy"), true
	case c17PWarm:
		return h.mkSetFence(t, m, "happy"), true
	case c17PCutFence:
		return h.advanceWithDrainProof(t, m, c17PFinal), true
	case c17PPromote:
		return cutover(h.mkPromote)
	}
	return c17Cmd{}, false
}

// buildKind builds a command of an arbitrary kind for (t, m) with current
// guards, regardless of whether the task's phase allows it.
func (h *c17Hist) buildKind(k c17Kind, t c17Task, m c17Meta, label string) c17Cmd {
	none := metadb.ChannelMigrationCutoverProof{}
	if !c17RogueProposer && t.IsTerminal() && (k == c17KClaim || k == c17KAdvance) {
		k = c17KAbort // claim/advance would switch a terminal task back to active
	}
	switch k {
	case c17KClaim:
		return h.mkClaim(t, h.owner(t), label)
	case c17KAdvance:
		phases := c17RRPhases
		if c17LTMode(t) {
			phases = c17LTPhases
		}
		switch h.rng.IntN(6) {
		case 0:
			return h.mkAdvance(t, c17Blocked, t.Phase, none, label)
		case 1:
			return h.mkAdvance(t, c17Failed, t.Phase, none, label)
		case 2:
			return h.mkAdvance(t, c17Running, phases[h.rng.IntN(len(phases))], h.freshProof(t, m), label)
		default:
			return h.mkAdvance(t, c17Running, phases[h.rng.IntN(len(phases))], none, label)
		}
	case c17KSetFence:
		return h.mkSetFence(t, m, label)
	case c17KResetFence:
		c := h.mkReset(t, m, label)
		if h.rng.IntN(2) == 0 && m.WriteFenceUntilMS > 0 {
			c.Req.(*metadb.ChannelMigrationResetFenceRequest).NowMS = m.WriteFenceUntilMS + 1
		}
		return c
	case c17KCommit:
		return h.mkCommit(t, m, label)
	case c17KAddLearner:
		return h.mkAddLearner(t, m, label)
	case c17KPromote:
		return h.mkPromote(t, m, label)
	case c17KClearFence:
		return h.mkClear(t, m, label)
	default:
		return h.mkAbort(t, m, label)
	}
}

var c17TaskKinds = []c17Kind{c17KClaim, c17KAdvance, c17KSetFence, c17KResetFence, c17KCommit, c17KAddLearner, c17KPromote, c17KClearFence, c17KAbort}

// perturb edits one aspect of an already built command. Returns the label.
func (h *c17Hist) perturb(c *c17Cmd, t c17Task, m c17Meta) {
	rng := h.rng
	g, rg := c17Guards(c.Req)
	bump := func(v uint64) uint64 {
		if v > 1 && rng.IntN(2) == 0 {
			return v - 1
		}
		return v + 1
	}
	for try := 0; try < 8; try++ {
		switch rng.IntN(15) {
		case 0:
			if g != nil {
				g.ExpectedUpdatedAtMS -= int64(1 + rng.IntN(50))
				c.Label += "|guard.updated_at"
				return
			}
		case 1:
			if g != nil {
				g.ExpectedPhase = c17LTPhases[rng.IntN(len(c17LTPhases))]
				c.Label += "|guard.phase"
				return
			}
		case 2:
			if g != nil {
				g.ExpectedOwnerNodeID = 100 + uint64(rng.IntN(3))
				g.ExpectedOwnerLeaseUntilMS += int64(rng.IntN(2))
				c.Label += "|guard.owner"
				return
			}
		case 3:
			if g != nil {
				// foreign task id: another task of the same channel, or a ghost
				id := "ghost"
				for ref := range h.cur.Tasks {
					if ref.Ch == (c17Chan{ID: g.ChannelID, Type: g.ChannelType}) && ref.ID != g.TaskID {
						id = ref.ID
						if other := h.cur.Tasks[ref]; rng.IntN(2) == 0 {
							*g = c17TaskGuard(other) // fully valid guard of the foreign task
						}
						break
					}
				}
				g.TaskID = id
				c.Label += "|foreign-task"
				return
			}
		case 4:
			if rg != nil {
				rg.ExpectedChannelEpoch = bump(rg.ExpectedChannelEpoch)
				c.Label += "|rguard.channel_epoch"
				return
			}
		case 5:
			if rg != nil {
				rg.ExpectedLeaderEpoch = bump(rg.ExpectedLeaderEpoch)
				c.Label += "|rguard.leader_epoch"
				return
			}
		case 6:
			if rg != nil {
				rg.ExpectedLeader = c17OtherNode(rng, []uint64{rg.ExpectedLeader})
				c.Label += "|rguard.leader"
				return
			}
		case 7:
			if rg != nil {
				rg.ExpectedFenceVersion = bump(rg.ExpectedFenceVersion)
				c.Label += "|rguard.fence_version"
				return
			}
		case 8:
			if rg != nil {
				if rg.ExpectedFenceToken == "" {
					rg.ExpectedFenceToken = t.TaskID
				} else if rng.IntN(2) == 0 {
					rg.ExpectedFenceToken = ""
				} else {
					rg.ExpectedFenceToken = "intruder"
				}
				c.Label += "|rguard.fence_token"
				return
			}
		case 9:
			switch q := c.Req.(type) {
			case *metadb.ChannelMigrationLeaderTransferRequest:
				q.NowMS = m.WriteFenceUntilMS + 1 + int64(rng.IntN(1000))
				c.Label += "|now-after-fence-expiry"
				return
			case *metadb.ChannelMigrationPromoteLearnerRequest:
				q.NowMS = m.WriteFenceUntilMS + 1 + int64(rng.IntN(1000))
				c.Label += "|now-after-fence-expiry"
				return
			}
		case 10:
			switch q := c.Req.(type) {
			case *metadb.ChannelMigrationLeaderTransferRequest:
				if rng.IntN(2) == 0 {
					q.DesiredLeader = c17OtherNode(rng, []uint64{q.DesiredLeader})
				} else {
					q.NextLeaderEpoch = m.LeaderEpoch
				}
				c.Label += "|wrong-leader-args"
				return
			case *metadb.ChannelMigrationPromoteLearnerRequest:
				q.SourceNode, q.TargetNode = q.TargetNode, q.SourceNode
				c.Label += "|swapped-nodes"
				return
			case *metadb.ChannelMigrationAddLearnerRequest:
				q.TargetNode = c17OtherNode(rng, []uint64{q.TargetNode})
				c.Label += "|wrong-target"
				return
			}
		case 11:
			// stale task observation
			if snaps := h.taskSnaps[c17RefOf(t.ChannelID, t.ChannelType, t.TaskID)]; g != nil && len(snaps) > 1 {
				*g = c17TaskGuard(snaps[rng.IntN(len(snaps)-1)])
				c.Label += "|stale-task"
				return
			}
		case 12:
			// stale runtime-meta observation
			if snaps := h.metaSnaps[c17Chan{ID: m.ChannelID, Type: m.ChannelType}]; rg != nil && len(snaps) > 1 {
				*rg = c17RuntimeGuard(snaps[rng.IntN(len(snaps)-1)])
				c.Label += "|stale-meta"
				return
			}
		case 13:
			// runtime guard of a different channel (built from that channel's
			// current meta, so the runtime CAS itself passes)
			if c17RogueProposer && rg != nil && len(h.chans) > 1 {
				for _, ch := range h.chans {
					if om, ok := h.cur.Metas[ch]; ok && ch != (c17Chan{ID: m.ChannelID, Type: m.ChannelType}) {
						*rg = c17RuntimeGuard(om)
						c.Label += "|cross-channel"
						c.Rogue = true
						return
					}
				}
			}
		case 14:
			switch q := c.Req.(type) {
			case *metadb.ChannelMigrationClearFenceRequest:
				q.Status, q.Phase, q.CompletedAtMS = c17Running, c17PAddLearner, 0
				c.Label += "|wrong-transition"
				return
			case *metadb.ChannelMigrationFenceRequest:
				q.Phase = c17RRPhases[rng.IntN(len(c17RRPhases))]
				c.Label += "|wrong-transition"
				return
			case *metadb.ChannelMigrationAbortRequest:
				q.Phase = c17LTPhases[rng.IntN(len(c17LTPhases))]
				c.Label += "|wrong-transition"
				return
			}
		}
	}
	c.Label += "|unperturbed"
}

// envUpsert builds an ordinary runtime-meta upsert (the "environment").
func (h *c17Hist) envUpsert(m c17Meta) c17Cmd {
	rng := h.rng
	n := m
	n.Replicas, n.ISR = slices.Clone(m.Replicas), slices.Clone(m.ISR)
	label := ""
	switch x := rng.IntN(20); {
	case x < 5:
		n.ChannelEpoch++
		label = "env:channel-epoch+1"
	case x < 9:
		n.LeaderEpoch++
		n.LeaseUntilMS = h.now + 10_000
		label = "env:leader-epoch+1"
	case x < 12:
		n.LeaderEpoch++
		n.Leader = n.ISR[rng.IntN(len(n.ISR))]
		label = "env:leader-change"
	case x < 13:
		n.LeaseUntilMS = h.now + 10_000
		label = "env:lease"
	case x < 15:
		n.WriteFenceVersion++
		n.WriteFenceToken, n.WriteFenceReason, n.WriteFenceUntilMS = "", 0, 0
		label = "env:fence-cleared-by-version-bump"
	case x < 17:
		n.WriteFenceVersion++
		n.WriteFenceToken, n.WriteFenceReason, n.WriteFenceUntilMS = fmt.Sprintf("ext%d", rng.IntN(3)), 1, h.now+c17FenceTTL
		if rng.IntN(3) == 0 {
			// a token equal to some task id of the history
			for ref := range h.cur.Tasks {
				n.WriteFenceToken = ref.ID
				break
			}
		}
		label = "env:foreign-fence-installed"
	case x < 18:
		if n.WriteFenceToken != "" {
			n.WriteFenceVersion++
			n.WriteFenceUntilMS = h.now + c17FenceTTL
			label = "env:fence-version+1-same-token"
		} else {
			n.ChannelEpoch++
			label = "env:channel-epoch+1"
		}
	case x < 19:
		// membership change that keeps the meta valid
		n.ChannelEpoch++
		if len(n.ISR) > 1 && int64(len(n.ISR)) > n.MinISR {
			for i, node := range n.ISR {
				if node != n.Leader {
					n.ISR = append(n.ISR[:i:i], n.ISR[i+1:]...)
					break
				}
			}
			label = "env:isr-shrink"
		} else {
			n.MinISR = 1
			label = "env:min-isr-1"
		}
	default:
		if snaps := h.metaSnaps[c17Chan{ID: m.ChannelID, Type: m.ChannelType}]; len(snaps) > 1 {
			n = snaps[rng.IntN(len(snaps)-1)]
		}
		label = "env:stale-upsert"
	}
	return c17Cmd{Label: label, Req: &n}
}
