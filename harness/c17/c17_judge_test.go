//go:build verif

package fsm_test

import (
	"fmt"
	"sort"
	"sync"

	metadb "github.com/WuKongIM/WuKongIM/pkg/db/meta"
)

// C17 harness, part 2: the trace-spec oracle. Every rule is judged on
// (pre-state, command, result, post-state), all read back from the DB.

// c17JudgeMode says how much of the per-command oracle is exact.
//
//	single  : one command per ApplyBatch – pre/post are exact for it.
//	disjoint: several commands, each confined to its own channel – pre/post of
//	          that channel are exact for the command that addresses it.
//	mixed   : several commands on the same channel – no intermediate state is
//	          observable, so only the state invariants (rules 2 and 5) are judged.
type c17JudgeMode uint8

const (
	c17Single c17JudgeMode = iota
	c17Disjoint
	c17Mixed
)

func (h *c17Hist) witness(step string, cmd *c17Cmd, result string, pre, post c17State, extra map[string]any) map[string]any {
	w := map[string]any{"case": h.caseIdx, "step": len(h.shape), "rule": step, "result": result}
	if cmd != nil {
		w["cmd"] = cmd.Kind.String()
		w["label"] = cmd.Label
		w["req"] = cmd.Req
		if t, ok := pre.Tasks[cmd.Task]; ok {
			w["pre_task"] = t
		}
		if t, ok := post.Tasks[cmd.Task]; ok {
			w["post_task"] = t
		}
		if m, ok := pre.Metas[cmd.MetaCh]; ok {
			w["pre_meta"] = m
		}
		if m, ok := post.Metas[cmd.MetaCh]; ok {
			w["post_meta"] = m
		}
	}
	for k, v := range extra {
		w[k] = v
	}
	n := len(h.shape)
	if n > 80 {
		n = 80
	}
	w["history_tail"] = append([]string(nil), h.shape[len(h.shape)-n:]...)
	return w
}

// judgeInvariants: rule 2 (≤ 1 active task per channel in every post-state).
func (h *c17Hist) judgeInvariants(cmds []c17Cmd, results []string, pre, post c17State) {
	h.r.Count("rule2.post_states_checked", 1)
	active := map[c17Chan][]string{}
	for ref, t := range post.Tasks {
		if t.IsActive() {
			active[ref.Ch] = append(active[ref.Ch], ref.ID)
		}
	}
	for ch, ids := range active {
		if len(ids) > 1 {
			sort.Strings(ids)
			revival := false
			for _, id := range ids {
				if p, ok := pre.Tasks[c17Ref{Ch: ch, ID: id}]; ok && p.IsTerminal() {
					revival = true
				}
			}
			// signature: [terminal-revival:] single command kind | "batch"
			// (the exact batch composition is in the witness)
			what := "batch"
			if len(cmds) == 1 {
				what = cmds[0].Kind.String()
			}
			sig := "two-active-tasks:" + what
			if revival {
				// a terminal task was switched back to an active status by a
				// task-only command (claim/advance) – no production proposer does
				// this, keep it distinguishable.
				sig = "two-active-tasks:terminal-revival:" + what
			}
			var last *c17Cmd
			if len(cmds) > 0 {
				last = &cmds[len(cmds)-1]
			}
			h.violate(sig, h.witness("at most one active task per channel", last, fmt.Sprint(results), pre, post,
				map[string]any{"channel": ch, "active_task_ids": ids, "batch": c17BatchDesc(cmds)}))
		}
	}
	// Evidence only (index agreement is mechanism, not the promised property).
	for ch, ids := range active {
		if len(ids) == 1 && post.Active[ch] != ids[0] {
			h.r.Count("observe.active_index_disagrees_with_rows", 1)
		}
	}
	for ch, id := range post.Active {
		if len(active[ch]) == 0 && id != "" {
			h.r.Count("observe.active_index_points_to_inactive", 1)
		}
	}
}

func c17BatchKinds(cmds []c17Cmd) string {
	s := ""
	for i, c := range cmds {
		if i > 0 {
			s += "+"
		}
		s += c.Kind.String()
	}
	return s
}

func c17BatchDesc(cmds []c17Cmd) []map[string]any {
	var out []map[string]any
	for _, c := range cmds {
		out = append(out, map[string]any{"cmd": c.Kind.String(), "label": c.Label, "req": c.Req})
	}
	return out
}

// judgeMetaValid: rule 5 on one changed meta of an accepted migration step.
func (h *c17Hist) judgeMetaValid(cmd *c17Cmd, result string, pre, post c17State, ch c17Chan, preHeld bool) {
	m := post.Metas[ch]
	h.r.Count("rule5.changed_metas_checked", 1)
	bad := ""
	switch {
	case m.Leader != 0 && !c17Has(m.ISR, m.Leader):
		bad = "leader-not-in-isr"
	case func() bool {
		for _, n := range m.ISR {
			if !c17Has(m.Replicas, n) {
				return true
			}
		}
		return false
	}():
		bad = "isr-not-within-replicas"
	case m.MinISR < 1 || m.MinISR > int64(len(m.Replicas)):
		bad = "min-isr-unsatisfiable"
	case preHeld && m.MinISR > int64(len(m.ISR)):
		// Only judged as preservation: ordinary upserts may legally store an
		// ISR shorter than MinISR; a migration step must not create that.
		bad = "min-isr-exceeds-isr"
	}
	if bad != "" {
		h.violate("accepted-step-invalid-meta:"+cmd.Kind.String()+":"+bad,
			h.witness("accepted step leaves channel metadata valid", cmd, result, pre, post, map[string]any{"channel": ch}))
	}
}

// judgeOne applies rules 1, 3, 4, 5 to one migration command whose pre/post
// are exact for the channels in scope.
func (h *c17Hist) judgeOne(cmd *c17Cmd, result string, pre, post c17State, scope []c17Chan) {
	r := h.r
	if cmd.Kind == c17KUpsert {
		// Ordinary runtime-meta upserts are environment input, not migration
		// steps: they may legally bump epochs and (with a higher fence version)
		// replace a fence. Not judged, only counted.
		for _, ch := range scope {
			pm, ok1 := pre.Metas[ch]
			qm, ok2 := post.Metas[ch]
			if ok1 && ok2 && !c17FenceEq(pm, qm) {
				r.Count("observe.upsert_changed_fence", 1)
			}
		}
		return
	}
	hasNamed := cmd.Kind != c17KGC
	preT, preOK := pre.Tasks[cmd.Task]
	postT, postOK := post.Tasks[cmd.Task]
	kind := cmd.Kind.String()
	cross := ""
	if hasNamed && cmd.MetaCh != cmd.Task.Ch {
		cross = ":cross-channel"
	}

	// ---- evidence: classify cutover attempts from the pre-state -------------
	isCutover := cmd.Kind == c17KCommit || cmd.Kind == c17KPromote
	effect := false
	for _, ch := range scope {
		pm, ok1 := pre.Metas[ch]
		qm, ok2 := post.Metas[ch]
		if ok1 != ok2 || (ok1 && !c17MetaEq(pm, qm)) {
			effect = true
		}
	}
	if preOK != postOK || (preOK && preT != postT) {
		effect = true
	}
	if result == "ok" && !effect {
		r.Count("observe.ok_without_effect."+kind, 1)
	}
	if result != "ok" && result != "gc" && effect {
		r.Count("observe.rejected_with_effect."+kind, 1)
	}
	if isCutover {
		r.Count("cutover_attempt."+kind, 1)
		if pm, ok := pre.Metas[cmd.MetaCh]; ok && preOK {
			g, rg := c17Guards(cmd.Req)
			mm := c17ProofMismatch(preT, pm)
			guardsOK := g != nil && rg != nil && c17GuardMatches(*g, preT) && c17RuntimeGuardMatches(*rg, pm)
			if len(mm) > 0 {
				h.sawStaleProof = true
				r.Count("cutover_attempt.stale_proof", 1)
				if guardsOK && c17OwnsFence(preT, pm) && len(mm) == 1 {
					// everything but one proof field is current: only the proof
					// comparison can reject this one.
					r.Count("cutover_attempt.stale_proof.isolated."+mm[0]+"."+result, 1)
				}
			} else if !guardsOK {
				r.Count("cutover_attempt.current_proof_stale_guard."+result, 1)
			}
			if len(mm) == 0 && !c17OwnsFence(preT, pm) {
				r.Count("cutover_attempt.not_fence_owner."+result, 1)
			}
		}
	}

	// ---- rule 1: cutover effects only with a current proof, by the fence owner
	for _, ch := range scope {
		pm, ok1 := pre.Metas[ch]
		qm, ok2 := post.Metas[ch]
		if !ok1 || !ok2 {
			continue
		}
		leaderChanged := pm.Leader != qm.Leader || pm.LeaderEpoch != qm.LeaderEpoch
		isrChanged := !c17SetEq(pm.ISR, qm.ISR)
		if !leaderChanged && !isrChanged {
			continue
		}
		r.Count("rule1.cutover_effects_checked", 1)
		w := func(rule string) map[string]any {
			return h.witness(rule, cmd, result, pre, post, map[string]any{"channel": ch, "pre_channel_meta": pm, "post_channel_meta": qm})
		}
		if (leaderChanged && cmd.Kind != c17KCommit) || (isrChanged && cmd.Kind != c17KPromote) {
			h.violate(c17Sig("cutover-effect-by-other-command", kind, cross), w("leader/ISR change only through the proof-checked cutover commands"))
			continue
		}
		if !preOK || cmd.Task.Ch != ch {
			h.violate(c17Sig("cutover-applied-without-task-on-channel", kind, cross), w("cutover needs the task's own drain proof"))
			continue
		}
		h.sawCutover = true
		r.Count("cutover_applied."+kind, 1)
		// Monitor memory: the task's own irreversible step was observed. A
		// commit inside a replica replacement (embedded transfer) is only a
		// sub-step – that task may still be aborted before its promote.
		if cmd.Kind == c17KPromote || c17IsLTKind(preT.Kind) {
			h.cutoverDone[cmd.Task] = kind
		} else {
			// Embedded commit: the window until its clear-fence step completes
			// is post-cutover too (the leader already moved, the fence is held).
			h.embeddedWindow[cmd.Task] = true
			if !h.sawEmbeddedWindow {
				h.sawEmbeddedWindow = true
				r.Count("histories.reached_embedded_commit_window", 1)
			}
			r.Count("embedded_window.opened", 1)
		}
		if mm := c17ProofMismatch(preT, pm); len(mm) > 0 {
			h.violate(c17Sig("cutover-applied-with-stale-proof", kind+":"+mm[0], cross),
				h.witness("proof must equal current fence version / channel epoch / leader epoch / leader", cmd, result, pre, post,
					map[string]any{"channel": ch, "mismatching_proof_fields": mm}))
		}
		if !c17OwnsFence(preT, pm) {
			h.violate(c17Sig("cutover-applied-by-non-fence-owner", kind, cross), w("cutover only by the task owning the channel write fence"))
		}
	}
	if isCutover && result == "ok" && effect {
		// a cutover command reported applied must have been judged above
		pm, ok := pre.Metas[cmd.MetaCh]
		qm, ok2 := post.Metas[cmd.MetaCh]
		if ok && ok2 && pm.Leader == qm.Leader && pm.LeaderEpoch == qm.LeaderEpoch && c17SetEq(pm.ISR, qm.ISR) {
			r.Count("observe.cutover_ok_without_leader_or_isr_change", 1)
		}
	}

	// ---- rule 3: attempts are counted here; transitions to Aborted are judged
	// for every mode in judgeAborted.
	if hasNamed && preOK && cmd.Kind == c17KAbort && preT.Status != metadb.ChannelMigrationStatusAborted &&
		(c17PostCutover(preT) || h.cutoverDone[cmd.Task] != "" || h.embeddedWindow[cmd.Task]) {
		r.Count("rule3.abort_attempts_after_cutover", 1)
		r.Count("rule3.abort_attempts_after_cutover."+result, 1)
		h.sawAbortAfter = true
	}
	_ = postT
	_ = postOK

	// ---- rule 4: another task's fence is never overwritten or cleared ---------
	for _, ch := range scope {
		pm, ok := pre.Metas[ch]
		if !ok || pm.WriteFenceToken == "" {
			continue
		}
		own := hasNamed && cmd.Task.Ch == ch && pm.WriteFenceToken == cmd.Task.ID
		if own {
			continue
		}
		r.Count("rule4.commands_seen_with_foreign_fence", 1)
		qm, ok2 := post.Metas[ch]
		if !ok2 || !c17FenceEq(pm, qm) {
			h.violate(c17Sig("foreign-fence-modified", kind, cross),
				h.witness("no command overwrites or clears another task's fence", cmd, result, pre, post,
					map[string]any{"channel": ch, "fence_owner": pm.WriteFenceToken, "pre_channel_meta": pm, "post_channel_meta": qm}))
		} else if result != "ok" {
			r.Count("rule4.foreign_fence_cmd_rejected."+kind, 1)
		}
	}
	inScope := func(ch c17Chan) bool {
		for _, c := range scope {
			if c == ch {
				return true
			}
		}
		return false
	}
	for ref, pt := range pre.Tasks {
		if (hasNamed && ref == cmd.Task) || !inScope(ref.Ch) {
			continue
		}
		qt, ok := post.Tasks[ref]
		if !ok {
			if cmd.Kind == c17KGC && pt.IsTerminal() {
				continue
			}
			h.violate("foreign-task-removed:"+kind, h.witness("command changed a task it does not name", cmd, result, pre, post, map[string]any{"other_task": pt}))
			continue
		}
		if pt.FenceToken != qt.FenceToken || pt.FenceVersion != qt.FenceVersion || pt.FenceUntilMS != qt.FenceUntilMS {
			h.violate(c17Sig("foreign-task-fence-modified", kind, cross),
				h.witness("no command overwrites or clears another task's fence", cmd, result, pre, post, map[string]any{"other_task_pre": pt, "other_task_post": qt}))
		}
	}

	// ---- rule 5: accepted step leaves the metadata valid -----------------------
	for _, ch := range scope {
		pm, ok1 := pre.Metas[ch]
		qm, ok2 := post.Metas[ch]
		if ok1 && ok2 && !c17MetaEq(pm, qm) {
			h.judgeMetaValid(cmd, result, pre, post, ch, pm.MinISR <= int64(len(pm.ISR)))
		}
	}
}

// judgeAborted: rule 3. A task that is post-cutover – by its pre-state row
// (phase reached only through commit/promote, or Completed) or because the
// monitor itself observed its commit/promote being applied earlier in this
// history – must never become Aborted, by whatever command. Three signatures:
//
//	abort-applied-after-cutover:phaseN            AbortChannelMigration accepted in a post-cutover pre-state
//	aborted-status-written-after-cutover          another command (Advance/Claim carry any status) wrote Aborted
//	aborted-after-observed-cutover:phase-rewound-by-<cmd>
//	                                              the row had first been moved back to a pre-cutover phase by <cmd>
//	…:embedded-commit-window variants of the three: the task is a replica
//	replacement whose EMBEDDED leader transfer was committed and whose
//	clear-fence step has not completed yet (row VerifyNewLeader+embedded, or the
//	monitor saw the embedded commit and no clear-fence since). After the clear
//	the task is back in AddLearner and may legally be aborted until its promote.
//
// (the command that finally wrote Aborted is in the witness; signatures stay
// few so that the kit's 10 witness slots are never exhausted by one family)
func (h *c17Hist) judgeAborted(mode c17JudgeMode, cmds []c17Cmd, results []string, pre, post c17State) {
	for ref, p := range pre.Tasks {
		q, ok := post.Tasks[ref]
		if !ok || p.Status == metadb.ChannelMigrationStatusAborted || q.Status != metadb.ChannelMigrationStatusAborted {
			continue
		}
		byRow := c17PostCutover(p)
		embRow := c17EmbeddedWindowRow(p)
		window := h.embeddedWindow[ref]
		if window && mode == c17Mixed {
			// a clear-fence applied in the same batch ends the window before the
			// later commands of the batch; not attributable without mid-batch state
			for i := range cmds {
				if cmds[i].Kind == c17KClearFence && cmds[i].Task == ref && results[i] == "ok" {
					window, embRow, byRow = false, false, false
				}
			}
		}
		if !byRow && h.cutoverDone[ref] == "" && !window {
			continue
		}
		// which command did it (exact for single / disjoint batches)
		var cmd *c17Cmd
		res := fmt.Sprint(results)
		for i := range cmds {
			if cmds[i].Task == ref && (mode != c17Mixed || len(cmds) == 1) {
				cmd, res = &cmds[i], results[i]
			}
		}
		what := "batch"
		if cmd != nil {
			what = cmd.Kind.String()
		} else if len(cmds) > 0 {
			cmd = &cmds[len(cmds)-1]
		}
		extra := map[string]any{"task_pre": p, "task_post": q, "observed_cutover": h.cutoverDone[ref], "aborted_by": what, "batch": c17BatchDesc(cmds)}
		extra["embedded_commit_window_open"] = window
		switch {
		case embRow && what == "abort":
			h.violate("abort-applied-after-cutover:embedded-commit-window",
				h.witness("a replica-replace task whose embedded leader transfer is committed but not yet cleared can not be aborted", cmd, res, pre, post, extra))
		case embRow:
			h.violate("aborted-status-written-after-cutover:embedded-commit-window",
				h.witness("a replica-replace task whose embedded leader transfer is committed but not yet cleared can not be aborted (status rewritten to Aborted)", cmd, res, pre, post, extra))
		case !byRow && h.cutoverDone[ref] == "":
			by := h.rewoundBy[ref]
			if by == "" {
				by = "unknown"
			}
			extra["phase_rewound_by"] = by
			h.violate("aborted-after-observed-cutover:embedded-commit-window:phase-rewound-by-"+by,
				h.witness("embedded leader transfer was committed, its clear-fence step never completed, the row was moved away from VerifyNewLeader and then became Aborted", cmd, res, pre, post, extra))
		case byRow && what == "abort":
			h.violate(fmt.Sprintf("abort-applied-after-cutover:phase%d", p.Phase),
				h.witness("a committed/promoted/completed task can no longer be aborted", cmd, res, pre, post, extra))
		case byRow:
			h.violate("aborted-status-written-after-cutover",
				h.witness("a committed/promoted/completed task can no longer be aborted (status rewritten to Aborted)", cmd, res, pre, post, extra))
		default:
			by := h.rewoundBy[ref]
			if by == "" {
				by = "unknown"
			}
			extra["phase_rewound_by"] = by
			h.violate("aborted-after-observed-cutover:phase-rewound-by-"+by,
				h.witness("a task whose commit/promote was observed earlier became Aborted after its phase was moved back", cmd, res, pre, post, extra))
		}
		return
	}
}

func (h *c17Hist) judge(mode c17JudgeMode, cmds []c17Cmd, results []string, pre, post c17State) {
	h.judgeInvariants(cmds, results, pre, post)
	h.judgeAborted(mode, cmds, results, pre, post)
	switch mode {
	case c17Single:
		h.judgeOne(&cmds[0], results[0], pre, post, h.chans)
	case c17Disjoint:
		for i := range cmds {
			h.judgeOne(&cmds[i], results[i], pre, post, []c17Chan{cmds[i].MetaCh})
		}
	case c17Mixed:
		// rule 5 on the batch post-state (validity part only: preservation of
		// MinISR<=len(ISR) is not attributable when an upsert is in the batch).
		hasUpsert := false
		for _, c := range cmds {
			if c.Kind == c17KUpsert {
				hasUpsert = true
			}
		}
		for _, ch := range h.chans {
			pm, ok1 := pre.Metas[ch]
			qm, ok2 := post.Metas[ch]
			if ok1 && ok2 && !c17MetaEq(pm, qm) {
				h.judgeMetaValid(&cmds[len(cmds)-1], fmt.Sprint(results), pre, post, ch, !hasUpsert && pm.MinISR <= int64(len(pm.ISR)))
			}
		}
		h.r.Count("observe.mixed_batches", 1)
	}
}

// violate records a refuting observation, counts it per signature (the kit
// keeps only the first few witnesses) and ends the history: the broken state is
// persistent, every later post-state would repeat the same alarm.
var c17ViolationCases = struct {
	sync.Mutex
	m map[string][]int
}{m: map[string][]int{}}

func (h *c17Hist) violate(sig string, witness any) {
	c17ViolationCases.Lock()
	seen := len(c17ViolationCases.m[sig])
	if seen < 20 {
		c17ViolationCases.m[sig] = append(c17ViolationCases.m[sig], h.caseIdx)
	}
	c17ViolationCases.Unlock()
	h.r.Count("violations."+sig, 1)
	h.dead = true
	if seen >= 1 {
		// The kit keeps 10 witnesses in total: never let one signature (e.g. a
		// known finding) crowd out a different one. Totals are in the counters.
		return
	}
	// histories run on several workers: re-attribute the kit's "current case"
	h.r.BeginCase(h.caseIdx, "history (violation)")
	h.r.Violation(sig, witness)
}

// c17Sig builds "<rule>:<detail>"; a command whose runtime guard names another
// channel than its task guard collapses to "<rule>:cross-channel" (one family,
// whatever the command kind).
func c17Sig(rule, detail, cross string) string {
	if cross != "" {
		return rule + cross
	}
	return rule + ":" + detail
}
