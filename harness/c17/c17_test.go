//go:build verif

package fsm_test

import (
	"context"
	"errors"
	"fmt"
	"hash/fnv"
	"math/rand/v2"
	"os"
	"path/filepath"
	"slices"
	"sort"
	"strings"
	"sync"
	"sync/atomic"
	"testing"
	"time"

	metadb "github.com/WuKongIM/WuKongIM/pkg/db/meta"
	"github.com/WuKongIM/WuKongIM/pkg/slot/fsm"
	"github.com/WuKongIM/WuKongIM/pkg/slot/multiraft"
	"github.com/WuKongIM/WuKongIM/pkg/verifkit"
)

// C17 harness, part 4: history driver, scheduler, test entry.

// c17Timing is evidence only (where the wall time went); never read by the oracle.
var c17Timing struct{ open, apply, read, closing atomic.Int64 }

type c17Hist struct {
	r       *verifkit.Run
	rng     *rand.Rand
	caseIdx int
	ctx     context.Context
	sm      multiraft.BatchStateMachine
	store   *metadb.ShardStore
	chans   []c17Chan
	now     int64
	index   uint64
	seq     int
	cur     c17State

	taskSnaps map[c17Ref][]c17Task
	metaSnaps map[c17Chan][]c17Meta
	sent      []c17Cmd
	shape     []string
	rejects   map[c17Ref]int
	wantAbort *c17Ref
	// cutoverDone: tasks whose own commit/promote the monitor saw applied
	// (forgotten when the row is garbage-collected: a re-created id is a new task)
	cutoverDone map[c17Ref]string
	rewoundBy   map[c17Ref]string // which command moved such a task back to a pre-cutover row
	// embeddedWindow: replica-replace tasks whose embedded leader commit was seen
	// applied and whose clear-fence step has not been seen applied since
	embeddedWindow    map[c17Ref]bool
	wantWindow        *c17Ref
	sawEmbeddedWindow bool

	sawCutover, sawStaleProof, sawAbortAfter bool
	dead                                     bool
}

func c17ResultClass(b []byte, err error) string {
	if err != nil {
		switch {
		case errors.Is(err, metadb.ErrInvalidArgument):
			return "error:invalid_argument"
		default:
			return "error:other"
		}
	}
	s := string(b)
	switch s {
	case fsm.ApplyResultOK, fsm.ApplyResultStaleMeta, fsm.ApplyResultHashSlotFenced:
		return s
	}
	if _, ok, derr := fsm.DecodeGarbageCollectTerminalChannelMigrationTasksResult(b); ok && derr == nil {
		return "gc"
	}
	return "other"
}

// apply sends cmds as ONE ApplyBatch, reads the DB back and judges.
func (h *c17Hist) apply(mode c17JudgeMode, cmds ...c17Cmd) []string {
	if h.dead || len(cmds) == 0 {
		return nil
	}
	pre := h.cur
	mc := make([]multiraft.Command, len(cmds))
	for i := range cmds {
		cmds[i].finalize()
		h.index++
		mc[i] = multiraft.Command{SlotID: c17Slot, Index: h.index, Term: 1, Data: cmds[i].data}
	}
	var res [][]byte
	var err error
	t0 := time.Now()
	if h.r.Guard("ApplyBatch:"+c17BatchKinds(cmds), c17BatchDesc(cmds), func() { res, err = h.sm.ApplyBatch(h.ctx, mc) }) {
		h.dead = true
		return nil
	}
	t1 := time.Now()
	post, rerr := c17ReadState(h.ctx, h.store, h.chans)
	c17Timing.apply.Add(int64(t1.Sub(t0)))
	c17Timing.read.Add(int64(time.Since(t1)))
	if rerr != nil {
		// The monitor cannot observe: the rows it wrote cannot be read back.
		h.violate("state-unreadable-after:"+c17BatchKinds(cmds), map[string]any{"case": h.caseIdx, "error": rerr.Error(), "batch": c17BatchDesc(cmds)})
		h.dead = true
		return nil
	}
	results := make([]string, len(cmds))
	for i := range cmds {
		var b []byte
		if err == nil && i < len(res) {
			b = res[i]
		}
		results[i] = c17ResultClass(b, err)
		h.r.Eval(1)
		h.r.Count("cmd."+cmds[i].Kind.String()+"."+results[i], 1)
		lab := cmds[i].Label
		if j := strings.IndexByte(lab, '|'); j >= 0 {
			h.r.Count("perturbation."+lab[j+1:], 1)
		}
		h.shape = append(h.shape, cmds[i].Kind.String()+"/"+lab+"/"+results[i])
		if err != nil && !errors.Is(err, metadb.ErrInvalidArgument) {
			h.r.Count("observe.hard_error_other."+cmds[i].Kind.String(), 1)
		}
	}
	h.judge(mode, cmds, results, pre, post)
	h.cur = post
	for ref := range h.cutoverDone {
		q, ok := post.Tasks[ref]
		if !ok {
			delete(h.cutoverDone, ref)
			delete(h.rewoundBy, ref)
			continue
		}
		if p, ok := pre.Tasks[ref]; ok && c17PostCutover(p) && !c17PostCutover(q) {
			by := "batch"
			if len(cmds) == 1 {
				by = cmds[0].Kind.String()
			}
			h.rewoundBy[ref] = by
			h.r.Count("observe.post_cutover_task_moved_back_by."+by, 1)
		}
	}
	for ref := range h.embeddedWindow {
		q, ok := post.Tasks[ref]
		if !ok {
			delete(h.embeddedWindow, ref)
			delete(h.rewoundBy, ref)
			continue
		}
		closed := false
		for i := range cmds {
			if cmds[i].Kind == c17KClearFence && cmds[i].Task == ref && results[i] == "ok" {
				if p, ok := pre.Tasks[ref]; ok && p != q {
					closed = true
				}
			}
		}
		if closed {
			delete(h.embeddedWindow, ref)
			delete(h.rewoundBy, ref)
			h.r.Count("embedded_window.closed_by_clear_fence", 1)
			continue
		}
		if p, ok := pre.Tasks[ref]; ok && c17EmbeddedWindowRow(p) && !c17EmbeddedWindowRow(q) && q.Status != c17Aborted {
			by := "batch"
			if len(cmds) == 1 {
				by = cmds[0].Kind.String()
			}
			h.rewoundBy[ref] = by
			h.r.Count("observe.embedded_window_task_moved_away_by."+by, 1)
		}
	}
	for i := range cmds {
		if cmds[i].Kind == c17KCommit && results[i] == "ok" && h.embeddedWindow[cmds[i].Task] {
			ref := cmds[i].Task
			h.wantWindow = &ref
		}
	}
	for ref, t := range post.Tasks {
		s := h.taskSnaps[ref]
		if len(s) == 0 || s[len(s)-1] != t {
			h.taskSnaps[ref] = append(s, t)
		}
	}
	for ch, m := range post.Metas {
		s := h.metaSnaps[ch]
		if len(s) == 0 || !c17MetaEq(s[len(s)-1], m) {
			h.metaSnaps[ch] = append(s, m)
		}
	}
	for i := range cmds {
		if cmds[i].Kind != c17KGC {
			h.sent = append(h.sent, cmds[i])
		}
		if (cmds[i].Kind == c17KCommit || cmds[i].Kind == c17KPromote) && results[i] == "ok" {
			ref := cmds[i].Task
			h.wantAbort = &ref
		}
		if strings.HasPrefix(cmds[i].Label, "happy") {
			if results[i] == "ok" {
				h.rejects[cmds[i].Task] = 0
			} else {
				h.rejects[cmds[i].Task]++
			}
		}
	}
	return results
}

func (h *c17Hist) sortedRefs(filter func(c17Task) bool) []c17Ref {
	var out []c17Ref
	for ref, t := range h.cur.Tasks {
		if filter == nil || filter(t) {
			out = append(out, ref)
		}
	}
	sort.Slice(out, func(i, j int) bool {
		if out[i].Ch != out[j].Ch {
			return out[i].Ch.ID < out[j].Ch.ID
		}
		return out[i].ID < out[j].ID
	})
	return out
}

func (h *c17Hist) pickTask(filter func(c17Task) bool) (c17Task, c17Meta, bool) {
	refs := h.sortedRefs(filter)
	if len(refs) == 0 {
		return c17Task{}, c17Meta{}, false
	}
	ref := refs[h.rng.IntN(len(refs))]
	m, ok := h.cur.Metas[ref.Ch]
	if !ok {
		m = c17Meta{ChannelID: ref.Ch.ID, ChannelType: ref.Ch.Type}
	}
	return h.cur.Tasks[ref], m, true
}

func (h *c17Hist) pickChan() (c17Chan, c17Meta) {
	ch := h.chans[h.rng.IntN(len(h.chans))]
	return ch, h.cur.Metas[ch]
}

func c17Active(t c17Task) bool { return t.IsActive() }

// createStep: a fresh task for a channel – as the first task, or as a second
// task while another one is in flight.
func (h *c17Hist) createStep() {
	ch, m := h.pickChan()
	t := h.genTask(ch, m)
	label := "create"
	if h.cur.Active[ch] != "" {
		label = "create:second-while-active"
	}
	guarded := h.rng.IntN(100) < 65
	c := h.mkCreate(t, m, guarded, label)
	if guarded && h.rng.IntN(6) == 0 {
		h.perturb(&c, t, m)
	}
	h.apply(c17Single, c)
}

// teleport starts a task directly in a deep phase, the way the repository's own
// tests do: an upsert installs the fence for the future task id, then a plain
// create writes the task row with fence/proof fields.
func (h *c17Hist) teleport() {
	ch, m := h.pickChan()
	if h.cur.Active[ch] != "" || m.WriteFenceToken != "" {
		return
	}
	t := h.genTask(ch, m)
	now := h.stamp()
	t.Status, t.OwnerNodeID, t.OwnerLeaseUntilMS = c17Running, 100, now+c17OwnerTTL
	n := m
	n.Replicas, n.ISR = slices.Clone(m.Replicas), slices.Clone(m.ISR)
	lt := c17IsLTKind(t.Kind)
	if !lt && m.Leader == t.SourceNode {
		// replica replacement of the leader: start inside its embedded transfer
		var cand []uint64
		for _, node := range m.ISR {
			if node != t.SourceNode {
				cand = append(cand, node)
			}
		}
		if len(cand) == 0 {
			return
		}
		t.EmbeddedLeaderTransfer, t.EmbeddedDesiredLeader = true, cand[h.rng.IntN(len(cand))]
		lt = true
	} else if !lt {
		n.Replicas = append(n.Replicas, t.TargetNode) // learner already added
		n.ChannelEpoch++
	}
	n.WriteFenceToken, n.WriteFenceVersion, n.WriteFenceReason, n.WriteFenceUntilMS = t.TaskID, m.WriteFenceVersion+1, 1, now+c17FenceTTL
	n.RouteGeneration = 0
	h.apply(c17Single, c17Cmd{Label: "teleport:fence", Req: &n})
	cur, ok := h.cur.Metas[ch]
	if !ok || cur.WriteFenceToken != t.TaskID {
		return
	}
	t.FenceToken, t.FenceVersion, t.FenceUntilMS = t.TaskID, cur.WriteFenceVersion, cur.WriteFenceUntilMS
	p := h.freshProof(t, cur)
	label := "teleport:task"
	if h.rng.IntN(100) < 40 {
		var f string
		p, f = h.staleProof(t, cur)
		label += ":proof-stale-" + f
	}
	t.CutoverLEO, t.CutoverHW, t.DrainedLeaderNode, t.DrainedRuntimeGeneration = p.CutoverLEO, p.CutoverHW, p.DrainedLeaderNode, p.DrainedRuntimeGeneration
	t.DrainedChannelEpoch, t.DrainedLeaderEpoch, t.DrainedFenceVersion = p.DrainedChannelEpoch, p.DrainedLeaderEpoch, p.DrainedFenceVersion
	switch x := h.rng.IntN(10); {
	case x < 6:
		t.Phase = c17PPromote
		if lt {
			t.Phase = c17PCommit
		}
	case x < 8:
		t.Phase = c17PFinal
	default:
		t.Phase = c17PCutFence
		if lt {
			t.Phase = c17PDrain
		}
	}
	h.apply(c17Single, h.mkCreate(t, cur, false, label))
}

func (h *c17Hist) happyStep() bool {
	t, m, ok := h.pickTask(c17Active)
	if !ok {
		return false
	}
	ref := c17RefOf(t.ChannelID, t.ChannelType, t.TaskID)
	if h.rejects[ref] >= 4 {
		// the executor gives up on a task that cannot make progress
		h.rejects[ref] = 0
		if h.rng.IntN(2) == 0 {
			h.apply(c17Single, h.mkAbort(t, m, "giveup:abort"))
		} else {
			h.apply(c17Single, h.mkAdvance(t, c17Failed, t.Phase, metadb.ChannelMigrationCutoverProof{}, "giveup:fail"))
		}
		return true
	}
	c, ok := h.happy(t, m)
	if !ok {
		return false
	}
	h.apply(c17Single, c)
	return true
}

func (h *c17Hist) perturbedStep() {
	t, m, ok := h.pickTask(nil)
	if !ok {
		h.createStep()
		return
	}
	var c c17Cmd
	switch x := h.rng.IntN(10); {
	case x < 4:
		// out of order: any kind, current guards
		c = h.buildKind(c17TaskKinds[h.rng.IntN(len(c17TaskKinds))], t, m, "out-of-order")
	case x < 8:
		var ok bool
		if c, ok = h.happy(t, m); !ok {
			c = h.buildKind(c17TaskKinds[h.rng.IntN(len(c17TaskKinds))], t, m, "on-terminal")
		}
		h.perturb(&c, t, m)
	default:
		c = h.buildKind(c17TaskKinds[h.rng.IntN(len(c17TaskKinds))], t, m, "out-of-order")
		h.perturb(&c, t, m)
	}
	h.apply(c17Single, c)
}

// rogueAdvance: task-only status rewrites no production proposer sends
// (terminal → active revival, Advance carrying Aborted/Completed).
func (h *c17Hist) rogueAdvance(t c17Task) c17Cmd {
	st := []metadb.ChannelMigrationStatus{c17Running, c17Pending, c17Aborted, c17Completed}[h.rng.IntN(4)]
	if t.IsTerminal() && h.rng.IntN(2) == 0 {
		st = c17Running
	}
	phases := c17RRPhases
	if c17LTMode(t) {
		phases = c17LTPhases
	}
	ph := t.Phase
	if h.rng.IntN(2) == 0 {
		ph = phases[h.rng.IntN(len(phases))]
	}
	c := h.mkAdvance(t, st, ph, metadb.ChannelMigrationCutoverProof{}, "rogue:status-rewrite")
	c.Rogue = true
	return c
}

func (h *c17Hist) abortStep() {
	var ref *c17Ref
	if h.wantAbort != nil {
		ref = h.wantAbort
		h.wantAbort = nil
	}
	var t c17Task
	var m c17Meta
	ok := false
	if ref != nil {
		if tt, found := h.cur.Tasks[*ref]; found {
			t, m, ok = tt, h.cur.Metas[ref.Ch], true
		}
	}
	if !ok {
		if t, m, ok = h.pickTask(c17PostCutover); !ok || h.rng.IntN(3) == 0 {
			if t, m, ok = h.pickTask(nil); !ok {
				return
			}
		}
	}
	c := h.mkAbort(t, m, "abort")
	if c17PostCutover(t) {
		c.Label = "abort:after-cutover"
	}
	if h.rng.IntN(5) == 0 {
		h.perturb(&c, t, m)
	}
	h.apply(c17Single, c)
}

// windowStep attacks the window between an applied EMBEDDED leader commit of a
// replica replacement and the completion of its clear-fence step.
func (h *c17Hist) windowStep(ref c17Ref) {
	rng := h.rng
	t, ok := h.cur.Tasks[ref]
	if !ok || t.IsTerminal() || !h.embeddedWindow[ref] {
		h.wantWindow = nil
		return
	}
	m := h.cur.Metas[ref.Ch]
	none := metadb.ChannelMigrationCutoverProof{}
	var c c17Cmd
	if !c17EmbeddedWindowRow(t) {
		// some earlier step moved the row away from VerifyNewLeader: now abort
		c = h.mkAbort(t, m, "window:abort-after-move")
		h.wantWindow = nil
	} else {
		switch rng.IntN(5) {
		case 0:
			c = h.mkAdvance(t, c17Aborted, t.Phase, none, "window:advance-to-aborted")
			c.Rogue = true
		case 1:
			ph := []metadb.ChannelMigrationPhase{c17PValidate, c17PProbe, c17PWriteFence, c17PCommit, c17PAddLearner}[rng.IntN(5)]
			c = h.mkAdvance(t, c17Running, ph, none, "window:advance-to-other-phase")
		case 2:
			if m.WriteFenceUntilMS > h.now {
				h.now = m.WriteFenceUntilMS + 1 + int64(rng.IntN(500)) // the fence lease runs out
			}
			c = h.mkReset(t, m, "window:reset-after-fence-expiry")
		case 3:
			c = h.mkAbort(t, m, "window:abort")
		default:
			c = h.mkClaim(t, h.owner(t), "window:claim-with-other-phase")
			c.Req.(*metadb.ChannelMigrationTaskClaim).Phase = []metadb.ChannelMigrationPhase{c17PProbe, c17PAddLearner}[rng.IntN(2)]
			c.Rogue = true
		}
		if rng.IntN(3) == 0 {
			h.wantWindow = nil
		}
	}
	label := c.Label
	if res := h.apply(c17Single, c); len(res) == 1 {
		h.r.Count("embedded_window.attempt."+strings.TrimPrefix(label, "window:")+"."+res[0], 1)
	}
}

func (h *c17Hist) replayStep() {
	if len(h.sent) == 0 {
		return
	}
	old := h.sent[h.rng.IntN(len(h.sent))]
	c := c17Cmd{Kind: old.Kind, Label: "replay", Req: old.Req, Task: old.Task, MetaCh: old.MetaCh, Rogue: old.Rogue, data: old.data}
	h.apply(c17Single, c)
}

func (h *c17Hist) claimGames() {
	filter := c17Active
	if c17RogueProposer {
		filter = nil
	}
	t, _, ok := h.pickTask(filter)
	if !ok {
		return
	}
	other := uint64(100 + h.rng.IntN(3))
	c := h.mkClaim(t, other, "claim:other-owner")
	q := c.Req.(*metadb.ChannelMigrationTaskClaim)
	switch h.rng.IntN(3) {
	case 0: // lease really expired (logical clock says so)
		if t.OwnerLeaseUntilMS > 0 && q.NowMS < t.OwnerLeaseUntilMS {
			h.now = t.OwnerLeaseUntilMS + 1
			q.NowMS, q.UpdatedAtMS, q.OwnerLeaseUntilMS = h.now, h.now, h.now+c17OwnerTTL
			c.Label = "claim:after-lease-expiry"
		}
	case 1: // claims expiry that has not happened
		c.Label = "claim:lease-not-expired"
	default: // renewal by the current owner
		q.OwnerNodeID = h.owner(t)
		c.Label = "claim:renew"
	}
	h.apply(c17Single, c)
}

func (h *c17Hist) batchStep() {
	rng := h.rng
	switch x := rng.IntN(10); {
	case x < 4 && len(h.chans) > 1:
		// one command per channel, each confined to its channel
		var cmds []c17Cmd
		for _, ch := range h.chans {
			m, ok := h.cur.Metas[ch]
			if !ok {
				continue
			}
			refs := h.sortedRefs(func(t c17Task) bool { return t.ChannelID == ch.ID && t.ChannelType == ch.Type })
			if len(refs) == 0 || rng.IntN(5) == 0 {
				cmds = append(cmds, h.envUpsert(m))
				continue
			}
			t := h.cur.Tasks[refs[rng.IntN(len(refs))]]
			c, ok := h.happy(t, m)
			if !ok || rng.IntN(3) == 0 {
				c = h.buildKind(c17TaskKinds[rng.IntN(len(c17TaskKinds))], t, m, "out-of-order")
			}
			c.Label = "batch-disjoint:" + c.Label
			cmds = append(cmds, c)
		}
		if len(cmds) > 1 {
			h.apply(c17Disjoint, cmds...)
			return
		}
		fallthrough
	case x < 7:
		// chain: an Advance followed by the step built on the predicted row
		t, m, ok := h.pickTask(c17Active)
		if !ok {
			return
		}
		c1, ok := h.happy(t, m)
		if !ok {
			return
		}
		adv, isAdv := c1.Req.(*metadb.ChannelMigrationTaskAdvance)
		if !isAdv {
			h.apply(c17Single, c1)
			return
		}
		t2 := t
		t2.Status, t2.Phase, t2.Attempt, t2.UpdatedAtMS, t2.Progress = adv.Status, adv.Phase, adv.Attempt, adv.UpdatedAtMS, adv.Progress
		t2.NextRunAtMS, t2.BlockerCode, t2.BlockerMessage, t2.LastError, t2.CompletedAtMS = 0, adv.BlockerCode, adv.BlockerMessage, adv.LastError, adv.CompletedAtMS
		if adv.CutoverProof != (metadb.ChannelMigrationCutoverProof{}) {
			p := adv.CutoverProof
			t2.CutoverLEO, t2.CutoverHW, t2.DrainedLeaderNode, t2.DrainedRuntimeGeneration = p.CutoverLEO, p.CutoverHW, p.DrainedLeaderNode, p.DrainedRuntimeGeneration
			t2.DrainedChannelEpoch, t2.DrainedLeaderEpoch, t2.DrainedFenceVersion = p.DrainedChannelEpoch, p.DrainedLeaderEpoch, p.DrainedFenceVersion
		}
		if adv.EmbeddedDesiredLeader != 0 {
			t2.EmbeddedLeaderTransfer, t2.EmbeddedDesiredLeader = true, adv.EmbeddedDesiredLeader
		}
		c2, ok := h.happy(t2, m)
		if !ok {
			h.apply(c17Single, c1)
			return
		}
		c1.Label, c2.Label = "batch-chain:"+c1.Label, "batch-chain:"+c2.Label
		h.apply(c17Mixed, c1, c2)
	default:
		// arbitrary commands against one channel in one batch, including
		// revival of a terminal task next to a create
		ch, m := h.pickChan()
		refs := h.sortedRefs(func(t c17Task) bool { return t.ChannelID == ch.ID && t.ChannelType == ch.Type })
		var cmds []c17Cmd
		n := 2 + rng.IntN(2)
		for i := 0; i < n; i++ {
			switch y := rng.IntN(10); {
			case y < 3 || len(refs) == 0:
				t := h.genTask(ch, m)
				cmds = append(cmds, h.mkCreate(t, m, rng.IntN(2) == 0, "batch-mixed:create"))
			case y < 5 && c17RogueProposer:
				cmds = append(cmds, h.rogueAdvance(h.cur.Tasks[refs[rng.IntN(len(refs))]]))
			case y < 6:
				cmds = append(cmds, h.envUpsert(m))
			default:
				t := h.cur.Tasks[refs[rng.IntN(len(refs))]]
				cmds = append(cmds, h.buildKind(c17TaskKinds[rng.IntN(len(c17TaskKinds))], t, m, "batch-mixed"))
			}
		}
		h.apply(c17Mixed, cmds...)
	}
}

func (h *c17Hist) step() {
	rng := h.rng
	h.now += int64(1 + rng.IntN(400))
	if rng.IntN(25) == 0 {
		h.now += 2 * c17FenceTTL // fences and owner leases expire
	}
	if h.wantWindow != nil && rng.IntN(100) < 85 {
		h.windowStep(*h.wantWindow)
		return
	}
	if h.wantAbort != nil && rng.IntN(100) < 75 {
		h.abortStep()
		return
	}
	anyActive := false
	for _, id := range h.cur.Active {
		if id != "" {
			anyActive = true
		}
	}
	switch x := rng.IntN(100); {
	case !anyActive && x < 60:
		if len(h.cur.Tasks) == 0 && rng.IntN(100) < 35 {
			h.teleport()
		} else {
			h.createStep()
		}
	case x < 5:
		h.createStep()
	case x < 52:
		if !h.happyStep() {
			h.createStep()
		}
	case x < 68:
		h.perturbedStep()
	case x < 75:
		h.abortStep()
	case x < 80:
		h.replayStep()
	case x < 87:
		_, m := h.pickChan()
		h.apply(c17Single, h.envUpsert(m))
	case x < 89:
		h.apply(c17Single, h.mkGC())
	case x < 92:
		h.claimGames()
	case x < 94 && c17RogueProposer:
		if t, _, ok := h.pickTask(nil); ok {
			h.apply(c17Single, h.rogueAdvance(t))
		}
	default:
		h.batchStep()
	}
}

func c17RunHistory(r *verifkit.Run, t *testing.T, base string, i int, steps int) {
	rng := r.Rand(17, uint64(i))
	dir := filepath.Join(base, fmt.Sprintf("h%d", i))
	t0 := time.Now()
	db, err := metadb.Open(dir)
	c17Timing.open.Add(int64(time.Since(t0)))
	if err != nil {
		r.Inconclusive("meta.Open: " + err.Error())
		return
	}
	defer func() {
		t0 := time.Now()
		_ = db.Close()
		_ = os.RemoveAll(dir)
		c17Timing.closing.Add(int64(time.Since(t0)))
	}()
	sm, err := fsm.NewStateMachine(db, c17Slot)
	if err != nil {
		r.Inconclusive("NewStateMachine: " + err.Error())
		return
	}
	h := &c17Hist{r: r, rng: rng, caseIdx: i, ctx: context.Background(), sm: sm.(multiraft.BatchStateMachine), store: db.ForSlot(c17Slot),
		now: c17T0 + int64(rng.IntN(1_000_000)), taskSnaps: map[c17Ref][]c17Task{}, metaSnaps: map[c17Chan][]c17Meta{}, rejects: map[c17Ref]int{}, cutoverDone: map[c17Ref]string{}, rewoundBy: map[c17Ref]string{}, embeddedWindow: map[c17Ref]bool{}}
	nch := 1 + rng.IntN(2)
	for k := 0; k < nch; k++ {
		h.chans = append(h.chans, c17Chan{ID: fmt.Sprintf("ch%d-%d", i, k), Type: 2})
	}
	h.cur, err = c17ReadState(h.ctx, h.store, h.chans)
	if err != nil {
		r.Inconclusive("initial read: " + err.Error())
		return
	}
	for _, ch := range h.chans {
		m := h.genMeta(ch)
		h.apply(c17Single, c17Cmd{Label: "init", Req: &m})
	}
	for s := 0; s < steps && !h.dead; s++ {
		h.step()
	}
	r.Max("max_history_len", len(h.shape))
	if h.sawCutover {
		r.Count("histories.reached_cutover", 1)
	}
	if h.sawStaleProof {
		r.Count("histories.with_stale_proof_attempt", 1)
	}
	if h.sawAbortAfter {
		r.Count("histories.with_abort_after_cutover_attempt", 1)
	}
	if h.sawCutover && h.sawStaleProof && h.sawAbortAfter {
		f := fnv.New64a()
		for _, s := range h.shape {
			f.Write([]byte(s))
			f.Write([]byte{0})
		}
		r.Nontrivial(fmt.Sprintf("%016x", f.Sum64()))
		if r.WantSample() {
			r.Sample(map[string]any{"case": i, "channels": len(h.chans), "history": h.shape})
		}
	}
}

func TestVerifC17(t *testing.T) {
	r := verifkit.Start(t, "C17", "main")
	defer r.Finish()
	r.SetRule("One history = a fresh meta DB + slot state machine, 1-2 channels, ~45 scheduler steps. Steps follow the production executor order for leader transfer / failover / replica replace (incl. embedded transfer) built from the rows just read back, and are perturbed: out-of-order kinds, every task-guard and runtime-guard field individually stale, stale snapshots, foreign/ghost task ids, cross-channel runtime guard, drain proofs stale in exactly one field, second create (plain and runtime-guarded) while a task is active, owner-lease games, verbatim replays, ordinary runtime-meta upserts bumping epochs/leader/fences, GC, deep-phase starts, multi-command batches; 35% of replica replacements target the leader (embedded transfer) and the window between the applied embedded commit and its clear-fence step is attacked with Advance->Aborted, Advance/Claim to another phase, fence expiry + Reset, Abort. After EVERY ApplyBatch the monitor lists all task rows, active-index answers and runtime metas and judges (pre, command, result, post). Non-trivial = history with >=1 applied commit/promote AND >=1 cutover attempt whose stored proof differed from the runtime meta AND >=1 abort attempt on a task whose pre-state was post-cutover/completed; distinct by the sequence of (kind, perturbation, result).")
	r.Assume("Ordinary UpsertChannelRuntimeMeta commands are environment input (they may bump epochs and, with a higher fence version, replace a fence by design of the monotonic upsert); rule 4 is judged for migration commands and GC only.")
	r.Assume("'Can no longer be aborted' is judged on the task row: a task that is post-cutover (phase VerifyNewLeader/VerifyMembership/ClearFence, or Completed, or whose commit/promote this monitor saw applied) must never get Status=Aborted, whether through AbortChannelMigration or through Advance/Claim, which carry an arbitrary status under a CAS guard and are not documented as anything other than a task update. For a replica replacement with an embedded leader transfer the window from the applied embedded commit until its clear-fence step is applied is post-cutover as well (signatures ...:embedded-commit-window); after the clear the task is back in AddLearner and may legally be aborted until its promote.")
	r.Assume("MinISR<=len(ISR) is judged as preservation by migration steps (ordinary upserts may legally store a shorter ISR); leader in ISR, ISR within replicas, 1<=MinISR<=len(replicas) are judged on every changed meta.")
	n := r.N(1000, 20000)
	base := t.TempDir()
	// Histories are independent (own DB, own PRNG stream keyed by the case
	// index); a few workers hide the commit latency of the storage engine.
	const workers = 8
	var next atomic.Int64
	var wg sync.WaitGroup
	for w := 0; w < workers; w++ {
		wg.Add(1)
		go func() {
			defer wg.Done()
			for {
				i := int(next.Add(1) - 1)
				if i >= n {
					return
				}
				if r.Skip(i) {
					continue
				}
				r.BeginCase(i, "history")
				c17RunHistory(r, t, base, i, 45)
				r.Count("histories", 1)
			}
		}()
	}
	wg.Wait()
	c17ViolationCases.Lock()
	if len(c17ViolationCases.m) > 0 {
		r.Note("violation_cases_by_signature", c17ViolationCases.m) // replay one with --case N
	}
	c17ViolationCases.Unlock()
	sec := func(v *atomic.Int64) float64 { return time.Duration(v.Load()).Seconds() }
	r.Note("timing_cpu_s_summed_over_workers", map[string]float64{"open": sec(&c17Timing.open), "apply": sec(&c17Timing.apply),
		"read_back": sec(&c17Timing.read), "close_remove": sec(&c17Timing.closing)})
}
