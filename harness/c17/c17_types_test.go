//go:build verif

package fsm_test

import (
	"context"
	"errors"
	"fmt"
	"slices"

	metadb "github.com/WuKongIM/WuKongIM/pkg/db/meta"
	"github.com/WuKongIM/WuKongIM/pkg/slot/fsm"
)

// C17 harness, part 1: observation types, command envelope, DB snapshot.

const (
	c17Slot     = 11
	c17T0       = int64(1_750_000_000_000)
	c17FenceTTL = int64(15_000)
	c17OwnerTTL = int64(10_000)
)

type c17Chan struct {
	ID   string
	Type int64
}

type c17Ref struct {
	Ch c17Chan
	ID string
}

type c17Kind uint8

const (
	c17KCreate c17Kind = iota
	c17KCreateGuarded
	c17KClaim
	c17KAdvance
	c17KSetFence
	c17KResetFence
	c17KCommit
	c17KAddLearner
	c17KPromote
	c17KClearFence
	c17KAbort
	c17KGC
	c17KUpsert
)

var c17KindNames = [...]string{"create", "create_guarded", "claim", "advance", "set_fence", "reset_fence",
	"commit_leader", "add_learner", "promote", "clear_fence", "abort", "gc", "upsert_meta"}

func (k c17Kind) String() string { return c17KindNames[k] }

// c17Cmd is one generated command. Req is a pointer to the metadb request
// struct so perturbations can edit it before it is encoded.
type c17Cmd struct {
	Kind   c17Kind
	Label  string
	Req    any
	Task   c17Ref  // task named by the command (zero for gc / upsert)
	MetaCh c17Chan // channel whose runtime meta the command addresses
	Rogue  bool    // shaped like no production proposer (status rewrite, cross-channel guard …)
	data   []byte
}

func c17RefOf(id string, typ int64, task string) c17Ref {
	return c17Ref{Ch: c17Chan{ID: id, Type: typ}, ID: task}
}

// c17Guards returns pointers to the task guard / runtime guard of a request.
func c17Guards(req any) (*metadb.ChannelMigrationTaskGuard, *metadb.ChannelMigrationRuntimeGuard) {
	switch q := req.(type) {
	case *metadb.ChannelMigrationTaskCreate:
		return nil, &q.RuntimeGuard
	case *metadb.ChannelMigrationTaskClaim:
		return &q.Guard, nil
	case *metadb.ChannelMigrationTaskAdvance:
		return &q.Guard, nil
	case *metadb.ChannelMigrationFenceRequest:
		return &q.Guard, &q.RuntimeGuard
	case *metadb.ChannelMigrationResetFenceRequest:
		return &q.Guard, &q.RuntimeGuard
	case *metadb.ChannelMigrationLeaderTransferRequest:
		return &q.Guard, &q.RuntimeGuard
	case *metadb.ChannelMigrationAddLearnerRequest:
		return &q.Guard, &q.RuntimeGuard
	case *metadb.ChannelMigrationPromoteLearnerRequest:
		return &q.Guard, &q.RuntimeGuard
	case *metadb.ChannelMigrationClearFenceRequest:
		return &q.Guard, &q.RuntimeGuard
	case *metadb.ChannelMigrationAbortRequest:
		return &q.Guard, &q.RuntimeGuard
	}
	return nil, nil
}

// finalize derives Kind/Task/MetaCh from the (possibly perturbed) request and
// encodes it with the exported fsm encoders.
func (c *c17Cmd) finalize() {
	if c.data != nil {
		return // replay of already encoded bytes
	}
	g, rg := c17Guards(c.Req)
	if g != nil {
		c.Task = c17RefOf(g.ChannelID, g.ChannelType, g.TaskID)
		c.MetaCh = c.Task.Ch
	}
	if rg != nil {
		c.MetaCh = c17Chan{ID: rg.ChannelID, Type: rg.ChannelType}
	}
	switch q := c.Req.(type) {
	case *metadb.ChannelMigrationTask:
		c.Kind = c17KCreate
		c.Task = c17RefOf(q.ChannelID, q.ChannelType, q.TaskID)
		c.MetaCh = c.Task.Ch
		c.data = fsm.EncodeCreateChannelMigrationTaskCommand(*q)
	case *metadb.ChannelMigrationTaskCreate:
		c.Kind = c17KCreateGuarded
		c.Task = c17RefOf(q.Task.ChannelID, q.Task.ChannelType, q.Task.TaskID)
		c.data = fsm.EncodeCreateChannelMigrationTaskWithRuntimeGuardCommand(*q)
	case *metadb.ChannelMigrationTaskClaim:
		c.Kind = c17KClaim
		c.data = fsm.EncodeClaimChannelMigrationTaskCommand(*q)
	case *metadb.ChannelMigrationTaskAdvance:
		c.Kind = c17KAdvance
		c.data = fsm.EncodeAdvanceChannelMigrationTaskCommand(*q)
	case *metadb.ChannelMigrationFenceRequest:
		c.Kind = c17KSetFence
		c.data = fsm.EncodeSetChannelWriteFenceCommand(*q)
	case *metadb.ChannelMigrationResetFenceRequest:
		c.Kind = c17KResetFence
		c.data = fsm.EncodeResetChannelWriteFenceToPreCutoverCommand(*q)
	case *metadb.ChannelMigrationLeaderTransferRequest:
		c.Kind = c17KCommit
		c.data = fsm.EncodeCommitChannelLeaderTransferCommand(*q)
	case *metadb.ChannelMigrationAddLearnerRequest:
		c.Kind = c17KAddLearner
		c.data = fsm.EncodeAddChannelLearnerCommand(*q)
	case *metadb.ChannelMigrationPromoteLearnerRequest:
		c.Kind = c17KPromote
		c.data = fsm.EncodePromoteLearnerAndRemoveReplicaCommand(*q)
	case *metadb.ChannelMigrationClearFenceRequest:
		c.Kind = c17KClearFence
		c.data = fsm.EncodeClearChannelWriteFenceCommand(*q)
	case *metadb.ChannelMigrationAbortRequest:
		c.Kind = c17KAbort
		c.data = fsm.EncodeAbortChannelMigrationCommand(*q)
	case *metadb.ChannelMigrationTaskGCRequest:
		c.Kind = c17KGC
		c.data = fsm.EncodeGarbageCollectTerminalChannelMigrationTasksCommand(*q)
	case *metadb.ChannelRuntimeMeta:
		c.Kind = c17KUpsert
		c.MetaCh = c17Chan{ID: q.ChannelID, Type: q.ChannelType}
		c.data = fsm.EncodeUpsertChannelRuntimeMetaCommand(*q)
	default:
		panic(fmt.Sprintf("c17: unknown request type %T", c.Req))
	}
}

// c17State is everything the monitor reads back from the DB after a command.
type c17State struct {
	Tasks  map[c17Ref]metadb.ChannelMigrationTask
	Metas  map[c17Chan]metadb.ChannelRuntimeMeta
	Active map[c17Chan]string // GetActiveChannelMigrationTask per world channel ("" = none)
}

func c17ReadState(ctx context.Context, store *metadb.ShardStore, chans []c17Chan) (c17State, error) {
	st := c17State{Tasks: map[c17Ref]metadb.ChannelMigrationTask{}, Metas: map[c17Chan]metadb.ChannelRuntimeMeta{}, Active: map[c17Chan]string{}}
	tasks, err := store.ListChannelMigrationTasks(ctx)
	if err != nil {
		return st, fmt.Errorf("ListChannelMigrationTasks: %w", err)
	}
	for _, t := range tasks {
		st.Tasks[c17RefOf(t.ChannelID, t.ChannelType, t.TaskID)] = t
	}
	for _, ch := range chans {
		m, err := store.GetChannelRuntimeMeta(ctx, ch.ID, ch.Type)
		if err == nil {
			st.Metas[ch] = m
		} else if !errors.Is(err, metadb.ErrNotFound) {
			return st, fmt.Errorf("GetChannelRuntimeMeta: %w", err)
		}
		a, ok, err := store.GetActiveChannelMigrationTask(ctx, ch.ID, ch.Type)
		if err != nil {
			return st, fmt.Errorf("GetActiveChannelMigrationTask: %w", err)
		}
		if ok {
			st.Active[ch] = a.TaskID
		}
	}
	return st, nil
}

func c17SetEq(a, b []uint64) bool {
	x := slices.Clone(a)
	y := slices.Clone(b)
	slices.Sort(x)
	slices.Sort(y)
	return slices.Equal(slices.Compact(x), slices.Compact(y))
}

func c17Has(s []uint64, v uint64) bool { return slices.Contains(s, v) }

func c17MetaEq(a, b metadb.ChannelRuntimeMeta) bool {
	ra, rb, ia, ib := a.Replicas, b.Replicas, a.ISR, b.ISR
	a.Replicas, b.Replicas, a.ISR, b.ISR = nil, nil, nil, nil
	if !c17SetEq(ra, rb) || !c17SetEq(ia, ib) {
		return false
	}
	return fmt.Sprintf("%+v", a) == fmt.Sprintf("%+v", b)
}

func c17FenceEq(a, b metadb.ChannelRuntimeMeta) bool {
	return a.WriteFenceToken == b.WriteFenceToken && a.WriteFenceVersion == b.WriteFenceVersion &&
		a.WriteFenceReason == b.WriteFenceReason && a.WriteFenceUntilMS == b.WriteFenceUntilMS
}

func c17IsLTKind(k metadb.ChannelMigrationKind) bool {
	return k == metadb.ChannelMigrationKindLeaderTransfer || k == metadb.ChannelMigrationKindLeaderFailover
}

// c17PostCutover reports whether the task row says the irreversible step
// (leader commit / learner promote) already happened, or the task completed.
// It mirrors the phases production reaches only through the cutover commands:
//   - leader transfer / failover: VerifyNewLeader, ClearFence
//   - replica replace: VerifyMembership, ClearFence; and VerifyNewLeader while
//     an embedded leader transfer is committed but its fence not yet cleared.
//
// After an embedded transfer's fence is cleared the task legitimately returns
// to AddLearner and may be aborted again (the replacement itself has not been
// promoted), so that is deliberately not "post-cutover".
func c17PostCutover(t metadb.ChannelMigrationTask) bool {
	if t.Status == metadb.ChannelMigrationStatusCompleted {
		return true
	}
	switch {
	case c17IsLTKind(t.Kind):
		return t.Phase == metadb.ChannelMigrationPhaseVerifyNewLeader || t.Phase == metadb.ChannelMigrationPhaseClearFence
	case t.Kind == metadb.ChannelMigrationKindReplicaReplace:
		if t.Phase == metadb.ChannelMigrationPhaseVerifyMembership || t.Phase == metadb.ChannelMigrationPhaseClearFence {
			return true
		}
		return t.EmbeddedLeaderTransfer && t.Phase == metadb.ChannelMigrationPhaseVerifyNewLeader
	}
	return false
}

// c17EmbeddedWindowRow: replica replacement whose embedded leader transfer is
// committed (VerifyNewLeader) and whose fence has not been cleared yet.
func c17EmbeddedWindowRow(t metadb.ChannelMigrationTask) bool {
	return t.Kind == metadb.ChannelMigrationKindReplicaReplace && t.EmbeddedLeaderTransfer &&
		t.Phase == metadb.ChannelMigrationPhaseVerifyNewLeader && t.Status != metadb.ChannelMigrationStatusCompleted
}

// c17ProofMismatch lists the proof fields of the stored task proof that differ
// from the runtime meta (the four fields named by the property).
func c17ProofMismatch(t metadb.ChannelMigrationTask, m metadb.ChannelRuntimeMeta) []string {
	var out []string
	if t.DrainedFenceVersion != m.WriteFenceVersion {
		out = append(out, "fence_version")
	}
	if t.DrainedChannelEpoch != m.ChannelEpoch {
		out = append(out, "channel_epoch")
	}
	if t.DrainedLeaderEpoch != m.LeaderEpoch {
		out = append(out, "leader_epoch")
	}
	if t.DrainedLeaderNode != m.Leader {
		out = append(out, "leader")
	}
	return out
}

func c17OwnsFence(t metadb.ChannelMigrationTask, m metadb.ChannelRuntimeMeta) bool {
	return m.WriteFenceToken != "" && m.WriteFenceToken == t.TaskID && t.FenceToken == t.TaskID &&
		t.FenceVersion != 0 && t.FenceVersion == m.WriteFenceVersion &&
		t.ChannelID == m.ChannelID && t.ChannelType == m.ChannelType
}

func c17TaskGuard(t metadb.ChannelMigrationTask) metadb.ChannelMigrationTaskGuard {
	return metadb.ChannelMigrationTaskGuard{ChannelID: t.ChannelID, ChannelType: t.ChannelType, TaskID: t.TaskID,
		ExpectedStatus: t.Status, ExpectedPhase: t.Phase, ExpectedOwnerNodeID: t.OwnerNodeID,
		ExpectedOwnerLeaseUntilMS: t.OwnerLeaseUntilMS, ExpectedUpdatedAtMS: t.UpdatedAtMS}
}

func c17RuntimeGuard(m metadb.ChannelRuntimeMeta) metadb.ChannelMigrationRuntimeGuard {
	return metadb.ChannelMigrationRuntimeGuard{ChannelID: m.ChannelID, ChannelType: m.ChannelType,
		ExpectedChannelEpoch: m.ChannelEpoch, ExpectedLeaderEpoch: m.LeaderEpoch, ExpectedLeader: m.Leader,
		ExpectedFenceToken: m.WriteFenceToken, ExpectedFenceVersion: m.WriteFenceVersion}
}

func c17GuardMatches(g metadb.ChannelMigrationTaskGuard, t metadb.ChannelMigrationTask) bool {
	return g == c17TaskGuard(t)
}

func c17RuntimeGuardMatches(g metadb.ChannelMigrationRuntimeGuard, m metadb.ChannelRuntimeMeta) bool {
	rg := c17RuntimeGuard(m)
	rg.ExpectedRouteGeneration = g.ExpectedRouteGeneration
	return g == rg && (g.ExpectedRouteGeneration == 0 || g.ExpectedRouteGeneration == m.RouteGeneration)
}
