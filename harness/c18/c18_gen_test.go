//go:build verif

package fsm_test

// Command-log generator for C18. Commands are produced ONLINE while variant A
// (one command per ApplyBatch) runs: the generator observes A's published state
// exactly like the real planners/executors do (they read the cluster state and
// build fenced commands from it), then perturbs the fences (revision, attempt,
// epoch, phase, ids) or the payload with some probability, and re-emits older
// commands from a pool so that stale/duplicate deliveries occur. The resulting
// byte log (command.Encode) is what every other variant replays.

import (
	"fmt"
	"math/rand/v2"
	"sort"
	"strings"
	"time"

	"github.com/WuKongIM/WuKongIM/pkg/controller/command"
	"github.com/WuKongIM/WuKongIM/pkg/controller/state"
)

type c18Gen struct {
	rng      *rand.Rand
	cfg      state.ClusterConfig
	initCmd  *command.Command
	seq      int
	pool     []command.Command
	tick     int64
	maxNode  uint64
	flavours map[string]int
	// forceSlot, when non-zero, makes the next generated command target this
	// slot / its active task (goal-directed "planner" mode).
	forceSlot uint32
	// forceNode, when non-zero, makes node-addressed generators target this node.
	forceNode uint64
	// dependent run: the next runLeft commands all touch one entity (a node, a
	// slot with its task, the controller voter set, the hash-slot table, the
	// scheduled-backup singleton, the OpsMCP singleton), so that commands whose
	// guards depend on each other's effects are adjacent in the log and batch
	// partitions place them both inside one batch and across a batch boundary.
	// lastEffective holds, per kind, the last command that changed durable state
	// in the reference run; next() re-sends one of them verbatim (new index,
	// identical payload) from time to time. lastResend names the kind of the
	// command just returned by next() when it is such a re-send.
	lastEffective map[command.Kind]command.Command
	lastResend    command.Kind
	runLeft       int
	runKind       string
	runSlot       uint32
	runNode       uint64
}

func newC18Gen(rng *rand.Rand) *c18Gen {
	g := &c18Gen{rng: rng, maxNode: 6, flavours: map[string]int{}}
	g.cfg = state.ClusterConfig{SlotCount: uint32(2 + rng.IntN(3)), HashSlotCount: 8, ReplicaCount: uint16(2 + rng.IntN(2))}
	if rng.IntN(4) == 0 {
		g.cfg.HashSlotCount = 256
	}
	if rng.IntN(3) == 0 {
		g.cfg.DefaultCapacityWeight = uint32(rng.IntN(3))
	}
	return g
}

func (g *c18Gen) p(pct int) bool { return g.rng.IntN(100) < pct }

func (g *c18Gen) issuedAt() time.Time {
	g.tick++
	switch g.rng.IntN(10) {
	case 0:
		return time.Time{}
	case 1:
		// non-UTC zone: the FSM must normalise to UTC deterministically
		return time.Unix(1_700_000_000+g.tick, int64(g.rng.IntN(1000))).In(time.FixedZone("x", 3600*(g.rng.IntN(25)-12)))
	case 2:
		// timestamps going backwards
		return time.Unix(1_700_000_000-g.tick, 0).UTC()
	default:
		return time.Unix(1_700_000_000+g.tick, 0).UTC()
	}
}

func (g *c18Gen) expRev(st state.ClusterState) *uint64 {
	var v uint64
	switch x := g.rng.IntN(100); {
	case x < 45:
		return nil
	case x < 88:
		v = st.Revision
	case x < 94:
		if st.Revision > 0 {
			v = st.Revision - uint64(1+g.rng.IntN(2))
			if v > st.Revision {
				v = 0
			}
		}
		g.flavours["stale_revision"]++
	case x < 97:
		v = st.Revision + 1
		g.flavours["future_revision"]++
	default:
		v = 0
	}
	return &v
}

func c18Addr(id uint64) string { return fmt.Sprintf("n%d:1", id) }

func (g *c18Gen) baseNode(id uint64, voter bool) state.Node {
	roles := []state.NodeRole{state.NodeRoleData}
	if voter {
		roles = append(roles, state.NodeRoleControllerVoter)
	}
	return state.Node{NodeID: id, Addr: c18Addr(id), Roles: roles, JoinState: state.NodeJoinStateActive, Status: state.NodeStatusAlive, CapacityWeight: 1}
}

func (g *c18Gen) genInit(st state.ClusterState) command.Command {
	if g.initCmd != nil && g.p(70) {
		c := *g.initCmd
		if g.p(40) {
			// conflicting re-init
			init := *c.Init
			init.ClusterID = init.ClusterID + "x"
			c.Init = &init
			g.flavours["init_conflict"]++
		} else {
			g.flavours["init_duplicate"]++
		}
		c.IssuedAt = g.issuedAt()
		return c
	}
	n := 4 + g.rng.IntN(2)
	var nodes []state.Node
	var ctrl []state.ControllerVoter
	for id := uint64(1); id <= uint64(n); id++ {
		voter := id <= 3
		nodes = append(nodes, g.baseNode(id, voter))
		if voter && (id == 1 || g.p(70)) {
			ctrl = append(ctrl, state.ControllerVoter{NodeID: id, Addr: c18Addr(id), Role: state.ControllerRoleVoter})
		}
	}
	init := &command.InitClusterState{ClusterID: "cluster-a", Config: g.cfg, Controllers: ctrl, Nodes: nodes}
	c := command.Command{Kind: command.KindInitClusterState, IssuedAt: g.issuedAt(), Init: init}
	switch g.rng.IntN(12) {
	case 0:
		init.ClusterID = ""
		g.flavours["init_invalid"]++
		return c
	case 1:
		init.Controllers = nil
		g.flavours["init_invalid"]++
		return c
	case 2:
		init.Config.SlotCount = uint32(init.Config.HashSlotCount) + 1
		g.flavours["init_invalid"]++
		return c
	case 3:
		init.Controllers = append(init.Controllers, state.ControllerVoter{NodeID: 9, Addr: "n9:1", Role: state.ControllerRoleVoter})
		g.flavours["init_invalid"]++
		return c
	case 4:
		c.Init = nil
		g.flavours["init_invalid"]++
		return c
	}
	if g.initCmd == nil {
		cc := c
		g.initCmd = &cc
	}
	return c
}

func c18FindNode(st state.ClusterState, id uint64) (state.Node, bool) {
	for _, n := range st.Nodes {
		if n.NodeID == id {
			return n, true
		}
	}
	return state.Node{}, false
}

func c18EligibleData(st state.ClusterState) []uint64 {
	var out []uint64
	for _, n := range st.Nodes {
		if n.HasRole(state.NodeRoleData) && (n.JoinState == state.NodeJoinStateActive || n.JoinState == state.NodeJoinStateLeaving) {
			out = append(out, n.NodeID)
		}
	}
	return out
}

func c18Contains(xs []uint64, v uint64) bool {
	for _, x := range xs {
		if x == v {
			return true
		}
	}
	return false
}

func c18Sorted(xs []uint64) []uint64 {
	out := append([]uint64(nil), xs...)
	sort.Slice(out, func(i, j int) bool { return out[i] < out[j] })
	return out
}

func (g *c18Gen) shuffled(xs []uint64) []uint64 {
	out := append([]uint64(nil), xs...)
	g.rng.Shuffle(len(out), func(i, j int) { out[i], out[j] = out[j], out[i] })
	return out
}

func (g *c18Gen) genUpsertNode(st state.ClusterState) command.Command {
	id := uint64(1 + g.rng.IntN(int(g.maxNode)))
	if g.p(4) {
		id = 0
	}
	if g.forceNode != 0 {
		id = g.forceNode
	}
	node, ok := c18FindNode(st, id)
	if !ok {
		node = g.baseNode(id, g.p(30))
		node.Name = fmt.Sprintf("node-%d", id)
		if g.p(30) {
			node.JoinState = state.NodeJoinStateJoining
		}
	} else {
		node.Roles = append([]state.NodeRole(nil), node.Roles...)
		switch g.rng.IntN(9) {
		case 0:
			node.Status = []state.NodeStatus{state.NodeStatusAlive, state.NodeStatusSuspect, state.NodeStatusDown}[g.rng.IntN(3)]
		case 1:
			// may break controller-voter / slot-peer invariants -> invalid_state + roll-back
			node.JoinState = []state.NodeJoinState{state.NodeJoinStateActive, state.NodeJoinStateJoining, state.NodeJoinStateLeaving, state.NodeJoinStateRemoved}[g.rng.IntN(4)]
		case 2:
			node.Roles = []state.NodeRole{state.NodeRoleData}
		case 3:
			node.Roles = []state.NodeRole{state.NodeRoleControllerVoter}
		case 4:
			node.Roles = []state.NodeRole{state.NodeRoleControllerVoter, state.NodeRoleData}
		case 5:
			node.CapacityWeight = uint32(g.rng.IntN(4))
		case 6:
			node.Name = fmt.Sprintf("renamed-%d", g.rng.IntN(3))
		case 7:
			node.Addr = fmt.Sprintf("n%d:%d", id, 1+g.rng.IntN(2))
		default:
			// identical -> no_change
		}
	}
	switch g.rng.IntN(25) {
	case 0:
		node.Status = "zombie"
		g.flavours["invalid_payload"]++
	case 1:
		node.Addr = ""
		g.flavours["invalid_payload"]++
	case 2:
		node.Roles = nil
		g.flavours["invalid_payload"]++
	case 3:
		node.Roles = []state.NodeRole{state.NodeRoleData, state.NodeRoleData}
		g.flavours["invalid_payload"]++
	case 4:
		node.JoinState = ""
		g.flavours["invalid_payload"]++
	}
	c := command.Command{Kind: command.KindUpsertNode, IssuedAt: g.issuedAt(), ExpectedRevision: g.expRev(st), Node: &node}
	if g.p(3) {
		c.Node = nil
		g.flavours["invalid_payload"]++
	}
	return c
}

func (g *c18Gen) genUpdateControllers(st state.ClusterState) command.Command {
	var ctrl []state.ControllerVoter
	for _, n := range st.Nodes {
		good := n.HasRole(state.NodeRoleControllerVoter) && n.JoinState == state.NodeJoinStateActive
		if (good && g.p(70)) || (!good && g.p(8)) {
			ctrl = append(ctrl, state.ControllerVoter{NodeID: n.NodeID, Addr: n.Addr, Role: state.ControllerRoleVoter})
		}
	}
	if g.p(5) && len(ctrl) > 0 {
		ctrl[0].Role = "observer"
		g.flavours["invalid_payload"]++
	}
	if g.p(5) && len(ctrl) > 0 {
		ctrl = append(ctrl, ctrl[0])
		g.flavours["invalid_payload"]++
	}
	g.rng.Shuffle(len(ctrl), func(i, j int) { ctrl[i], ctrl[j] = ctrl[j], ctrl[i] })
	return command.Command{Kind: command.KindUpdateControllerVoters, IssuedAt: g.issuedAt(), ExpectedRevision: g.expRev(st), Controllers: ctrl}
}

func (g *c18Gen) genPromote(st state.ClusterState) command.Command {
	var voters []uint64
	for _, c := range st.Controllers {
		voters = append(voters, c.NodeID)
	}
	target := uint64(1 + g.rng.IntN(int(g.maxNode)))
	if g.forceNode != 0 {
		target = g.forceNode
	}
	node, _ := c18FindNode(st, target)
	observed := append([]uint64(nil), voters...)
	if !c18Contains(observed, target) {
		observed = append(observed, target)
	}
	p := &command.ControllerVoterPromotion{TargetNodeID: target, TargetAddr: node.Addr, ObservedConfigIndex: uint64(1 + g.rng.IntN(50)), ObservedVoters: g.shuffled(observed)}
	if p.TargetAddr == "" {
		p.TargetAddr = c18Addr(target)
	}
	switch g.rng.IntN(12) {
	case 0:
		p.ObservedVoters = voters
		g.flavours["stale_proof"]++
	case 1:
		p.ObservedConfigIndex = 0
		g.flavours["invalid_payload"]++
	case 2:
		p.ExpectedPreviousVoters = g.shuffled(voters)
	case 3:
		if len(voters) > 0 {
			p.ExpectedPreviousVoters = voters[:len(voters)-1]
			g.flavours["stale_voter_set"]++
		}
	case 4:
		p.TargetAddr = "other:1"
	case 5:
		p.TargetNodeID = 0
		g.flavours["invalid_payload"]++
	}
	c := command.Command{Kind: command.KindPromoteControllerVoter, IssuedAt: g.issuedAt(), ExpectedRevision: g.expRev(st), ControllerVoterPromotion: p}
	if g.p(3) {
		c.ControllerVoterPromotion = nil
		g.flavours["invalid_payload"]++
	}
	return c
}

func (g *c18Gen) genHashSlots(st state.ClusterState) command.Command {
	h := int(g.cfg.HashSlotCount)
	if st.Revision != 0 {
		h = int(st.Config.HashSlotCount)
	}
	slotCount := int(g.cfg.SlotCount)
	table := state.HashSlotTable{Version: state.CurrentHashSlotTableVersion, SlotCount: uint16(h)}
	from := 0
	for from < h {
		width := 1 + g.rng.IntN(h/2+1)
		if from+width > h || g.p(10) {
			width = h - from
		}
		table.Ranges = append(table.Ranges, state.HashSlotRange{From: uint16(from), To: uint16(from + width - 1), SlotID: uint32(1 + g.rng.IntN(slotCount))})
		from += width
	}
	if g.p(30) && st.Revision != 0 {
		// identical to current -> no_change
		table = state.HashSlotTable{Version: st.HashSlots.Version, SlotCount: st.HashSlots.SlotCount, Ranges: append([]state.HashSlotRange(nil), st.HashSlots.Ranges...)}
	}
	switch g.rng.IntN(14) {
	case 0:
		table.Ranges[0].SlotID = 0
		g.flavours["invalid_payload"]++
	case 1:
		table.Ranges[len(table.Ranges)-1].SlotID = uint32(slotCount + 1)
		g.flavours["invalid_payload"]++
	case 2:
		table.Version = 2
		g.flavours["invalid_payload"]++
	case 3:
		table.SlotCount++
		g.flavours["invalid_payload"]++
	case 4:
		if len(table.Ranges) > 1 {
			table.Ranges = table.Ranges[:len(table.Ranges)-1]
			g.flavours["invalid_payload"]++
		}
	case 5:
		g.rng.Shuffle(len(table.Ranges), func(i, j int) { table.Ranges[i], table.Ranges[j] = table.Ranges[j], table.Ranges[i] })
	}
	c := command.Command{Kind: command.KindReplaceHashSlotTable, IssuedAt: g.issuedAt(), ExpectedRevision: g.expRev(st), HashSlots: &table}
	if g.p(3) {
		c.HashSlots = nil
		g.flavours["invalid_payload"]++
	}
	return c
}

func c18Hex64(b byte) string { return strings.Repeat(fmt.Sprintf("%02x", b), 32) }

func (g *c18Gen) genBackup(st state.ClusterState) command.Command {
	sb := state.ScheduledBackupState{Revision: uint64(g.rng.IntN(4)), ManagerSessionEpoch: uint64(g.rng.IntN(3))}
	if st.ScheduledBackup != nil && g.p(25) {
		sb = st.ScheduledBackup.Clone() // identical -> no_change
	}
	if sb.Revision == 0 {
		g.flavours["invalid_payload"]++
	}
	for i := 0; i < g.rng.IntN(3); i++ {
		rec := state.BackupTaskRecord{ID: fmt.Sprintf("h%d", g.rng.IntN(3)), Kind: []string{"backup", "restore", "verification", "retention"}[g.rng.IntN(4)], Initiator: "ops", Status: "succeeded", StartedUnixMillis: int64(10 + g.rng.IntN(5)), CompletedUnixMillis: int64(20 + g.rng.IntN(5))}
		if g.p(8) {
			rec.Kind = "bogus"
			g.flavours["invalid_payload"]++
		}
		if g.p(5) {
			rec.CompletedUnixMillis = 1
			g.flavours["invalid_payload"]++
		}
		sb.History = append(sb.History, rec)
	}
	if g.p(20) {
		op := &state.BackupArchiveOperation{Token: "tok", Kind: []string{"verify", "hold", "delete", "retention", "restore", "explode"}[g.rng.IntN(6)], StartedUnixMillis: 5, ExpiresUnixMillis: int64(4 + g.rng.IntN(4))}
		if g.p(50) {
			op.CoordinatorNodeID, op.CoordinatorTerm = 1, uint64(g.rng.IntN(2))
		}
		sb.ActiveArchiveOperation = op
	}
	if g.p(35) {
		plan := &state.BackupPlan{Revision: uint64(1 + g.rng.IntN(2)), Enabled: g.p(50), Store: state.BackupStoreConfig{Kind: state.BackupStoreKindFile}, Cron: "0 3 * * *", TimeZone: "UTC", RetentionCount: 1 + g.rng.IntN(3), RateBytesPerSec: 1 << 20, WorkersPerNode: 1 + g.rng.IntN(4), MaxDurationMillis: 2 * 60 * 60 * 1000, CreatedUnixMillis: 100, UpdatedUnixMillis: 100 + int64(g.rng.IntN(3)), ScheduleCursorUnixMillis: 100}
		if g.p(10) {
			plan.Store.Kind = state.BackupStoreKindS3 // missing endpoint -> invalid
			g.flavours["invalid_payload"]++
		}
		if g.p(8) {
			plan.WorkersPerNode = 9
			g.flavours["invalid_payload"]++
		}
		sb.Plan = plan
		if g.p(12) {
			// an active backup job is only valid while the Controller task set is empty
			job := &state.ScheduledBackupJob{ID: "job-1", Trigger: state.BackupTriggerManual, Status: state.BackupJobStatusExporting, PlanRevision: plan.Revision, StartedAtUnixMillis: 200, DeadlineUnixMillis: 900, UpdatedUnixMillis: 200 + int64(g.rng.IntN(5))}
			for hs := 0; hs < state.BackupHashSlotCount; hs++ {
				job.Slots = append(job.Slots, state.BackupSlotProgress{HashSlot: uint16(hs), Status: state.BackupSlotStatusPending})
			}
			if g.p(15) {
				job.Slots[3].Status = state.BackupSlotStatusRunning // no authority fence -> invalid
				g.flavours["invalid_payload"]++
			}
			sb.ActiveBackup = job
			g.flavours["active_backup"]++
		}
	}
	c := command.Command{Kind: command.KindReplaceScheduledBackupState, IssuedAt: g.issuedAt(), ExpectedRevision: g.expRev(st), ScheduledBackup: &sb}
	if g.p(3) {
		c.ScheduledBackup = nil
		g.flavours["invalid_payload"]++
	}
	return c
}

func (g *c18Gen) genOpsMCP(st state.ClusterState) command.Command {
	ops := state.OpsMCPState{Enabled: g.p(50), OwnerNodeID: uint64(g.rng.IntN(int(g.maxNode) + 1))}
	if st.OpsMCP != nil && g.p(50) {
		ops.OwnerNodeID = st.OpsMCP.OwnerNodeID
	}
	for i := 0; i < g.rng.IntN(4); i++ {
		cred := state.OpsMCPCredential{ID: fmt.Sprintf("k%d", g.rng.IntN(3)), DigestSHA256: c18Hex64(byte(g.rng.IntN(3))), CreatedAtUnixMillis: int64(1 + g.rng.IntN(3))}
		if g.p(6) {
			cred.ID = "Bad ID"
			g.flavours["invalid_payload"]++
		}
		if g.p(6) {
			cred.DigestSHA256 = "zz"
			g.flavours["invalid_payload"]++
		}
		ops.Credentials = append(ops.Credentials, cred)
	}
	if g.p(5) {
		ops.ProfileFenceUntilUnixMillis = -1
		g.flavours["invalid_payload"]++
	}
	if st.OpsMCP != nil && g.p(20) {
		ops = st.OpsMCP.Clone()
	}
	c := command.Command{Kind: command.KindReplaceOpsMCPState, IssuedAt: g.issuedAt(), ExpectedRevision: g.expRev(st), OpsMCP: &ops}
	if g.p(3) {
		c.OpsMCP = nil
		g.flavours["invalid_payload"]++
	}
	return c
}

func c18Assignment(st state.ClusterState, slot uint32) (state.SlotAssignment, bool) {
	for _, a := range st.Slots {
		if a.SlotID == slot {
			return a, true
		}
	}
	return state.SlotAssignment{}, false
}

func c18TaskBySlot(st state.ClusterState, slot uint32) (state.ReconcileTask, bool) {
	for _, t := range st.Tasks {
		if t.SlotID == slot {
			return t, true
		}
	}
	return state.ReconcileTask{}, false
}

func (g *c18Gen) pickSlot() uint32 {
	if g.forceSlot != 0 {
		return g.forceSlot
	}
	if g.p(4) {
		return uint32(g.rng.IntN(2)) * (g.cfg.SlotCount + 1) // 0 or SlotCount+1
	}
	return uint32(1 + g.rng.IntN(int(g.cfg.SlotCount)))
}

func (g *c18Gen) taskID(prefix string, slot uint32) string {
	g.seq++
	return fmt.Sprintf("%s-%d-%d", prefix, slot, g.seq%5)
}

func (g *c18Gen) genAssignTask(st state.ClusterState) command.Command {
	slot := g.pickSlot()
	eligible := c18EligibleData(st)
	asg, has := c18Assignment(st, slot)
	existing, hasTask := c18TaskBySlot(st, slot)
	var task state.ReconcileTask
	replicas := int(g.cfg.ReplicaCount)
	if st.Revision != 0 {
		replicas = int(st.Config.ReplicaCount)
	}
	if !has || g.p(25) {
		// bootstrap (or re-bootstrap with a new epoch)
		peers := g.shuffled(eligible)
		if len(peers) > replicas {
			peers = peers[:replicas]
		}
		if g.p(6) && len(peers) > 1 {
			peers = peers[:len(peers)-1] // wrong replica count
			g.flavours["invalid_payload"]++
		}
		if g.p(5) {
			peers = append(peers[:0:0], peers...)
			if len(peers) > 0 {
				peers[0] = 9 // unknown node
				g.flavours["invalid_payload"]++
			}
		}
		epoch := uint64(1)
		if has {
			epoch = asg.ConfigEpoch + uint64(g.rng.IntN(2))
		}
		var leader uint64
		if len(peers) > 0 && g.p(85) {
			leader = peers[g.rng.IntN(len(peers))]
		}
		asg = state.SlotAssignment{SlotID: slot, DesiredPeers: peers, ConfigEpoch: epoch, PreferredLeader: leader}
		task = state.ReconcileTask{TaskID: g.taskID("bs", slot), SlotID: slot, Kind: state.TaskKindBootstrap, Step: state.TaskStepCreateSlot, TargetNode: leader, TargetPeers: c18Sorted(peers), CompletionPolicy: state.TaskCompletionPolicySingleObserver, ConfigEpoch: epoch, Status: state.TaskStatusPending}
		if g.p(45) {
			task.CompletionPolicy = state.TaskCompletionPolicyAllTargetPeers
			for _, p := range task.TargetPeers {
				task.ParticipantProgress = append(task.ParticipantProgress, state.TaskParticipantProgress{NodeID: p, Status: state.TaskParticipantStatusPending})
			}
			if g.p(8) && len(task.ParticipantProgress) > 0 {
				task.ParticipantProgress = task.ParticipantProgress[1:]
				g.flavours["invalid_payload"]++
			}
		}
	} else {
		// leader transfer on the existing assignment
		peers := asg.DesiredPeers
		source := asg.PreferredLeader
		var target uint64
		for _, p := range g.shuffled(peers) {
			if p != source {
				target = p
				break
			}
		}
		if source == 0 && len(peers) > 0 {
			source = peers[0]
			if target == source && len(peers) > 1 {
				target = peers[1]
			}
		}
		asg = state.SlotAssignment{SlotID: slot, DesiredPeers: append([]uint64(nil), peers...), ConfigEpoch: asg.ConfigEpoch, PreferredLeader: target}
		task = state.ReconcileTask{TaskID: g.taskID("lt", slot), SlotID: slot, Kind: state.TaskKindLeaderTransfer, Step: state.TaskStepTransferLeader, SourceNode: source, TargetNode: target, TargetPeers: c18Sorted(peers), CompletionPolicy: state.TaskCompletionPolicySingleObserver, ConfigEpoch: asg.ConfigEpoch, Status: state.TaskStatusPending}
		if g.p(8) {
			task.SourceNode = task.TargetNode
			g.flavours["invalid_payload"]++
		}
	}
	if hasTask && g.p(85) {
		task.TaskID = existing.TaskID // replace the active task instead of violating one-task-per-slot
	}
	if g.p(4) {
		task.SlotID = slot + 1
		g.flavours["invalid_payload"]++
	}
	if g.p(3) {
		task.Status = "bogus"
		g.flavours["invalid_payload"]++
	}
	if g.p(3) {
		task.Kind = "bogus"
		g.flavours["invalid_payload"]++
	}
	c := command.Command{Kind: command.KindUpsertSlotAssignmentAndTask, IssuedAt: g.issuedAt(), ExpectedRevision: g.expRev(st), Assignment: &asg, Task: &task}
	if g.p(3) {
		c.Task = nil
		g.flavours["invalid_payload"]++
	}
	return c
}

func c18ReplacePeer(peers []uint64, source, target uint64) []uint64 {
	out := append([]uint64(nil), peers...)
	for i, p := range out {
		if p == source {
			out[i] = target
			break
		}
	}
	return c18Sorted(out)
}

func (g *c18Gen) genMoveTask(st state.ClusterState) command.Command {
	slot := g.pickSlot()
	asg, has := c18Assignment(st, slot)
	existing, hasTask := c18TaskBySlot(st, slot)
	task := state.ReconcileTask{TaskID: g.taskID("mv", slot), SlotID: slot, Kind: state.TaskKindSlotReplicaMove, Step: state.TaskStepOpenLearner, CompletionPolicy: state.TaskCompletionPolicySingleObserver, Status: state.TaskStatusPending}
	if has && len(asg.DesiredPeers) > 0 {
		task.SourceNode = asg.DesiredPeers[g.rng.IntN(len(asg.DesiredPeers))]
		for _, n := range g.shuffled(c18EligibleData(st)) {
			nd, _ := c18FindNode(st, n)
			if !c18Contains(asg.DesiredPeers, n) && nd.JoinState == state.NodeJoinStateActive {
				task.TargetNode = n
				break
			}
		}
		task.ConfigEpoch = asg.ConfigEpoch
		task.TargetPeers = c18ReplacePeer(asg.DesiredPeers, task.SourceNode, task.TargetNode)
	} else {
		task.SourceNode, task.TargetNode, task.ConfigEpoch, task.TargetPeers = 1, 2, 1, []uint64{2, 3}
	}
	switch g.rng.IntN(24) {
	case 0:
		task.ConfigEpoch++
		g.flavours["stale_epoch"]++
	case 1:
		task.TargetNode = task.SourceNode
		g.flavours["invalid_payload"]++
	case 2:
		task.Kind = state.TaskKindBootstrap
		g.flavours["invalid_payload"]++
	case 3:
		task.Step = state.TaskStepCreateSlot
		g.flavours["invalid_payload"]++
	case 4:
		task.ObservedVoters = []uint64{1, 1}
		g.flavours["invalid_payload"]++
	case 5:
		task.CompletionPolicy = state.TaskCompletionPolicyAllTargetPeers
		g.flavours["invalid_payload"]++
	}
	if hasTask && g.p(50) {
		task.TaskID = existing.TaskID
	}
	c := command.Command{Kind: command.KindUpsertSlotReplicaMoveTask, IssuedAt: g.issuedAt(), ExpectedRevision: g.expRev(st), Task: &task}
	if g.p(3) {
		c.Task = nil
		g.flavours["invalid_payload"]++
	}
	return c
}

func (g *c18Gen) pickTask(st state.ClusterState, kind state.TaskKind) (state.ReconcileTask, bool) {
	if g.forceSlot != 0 {
		if t, ok := c18TaskBySlot(st, g.forceSlot); ok {
			return t, true
		}
	}
	var cands []state.ReconcileTask
	for _, t := range st.Tasks {
		if kind == "" || t.Kind == kind {
			cands = append(cands, t)
		}
	}
	if len(cands) == 0 {
		if len(st.Tasks) > 0 && g.p(50) {
			return st.Tasks[g.rng.IntN(len(st.Tasks))], true
		}
		return state.ReconcileTask{}, false
	}
	return cands[g.rng.IntN(len(cands))], true
}

func (g *c18Gen) genAdvance(st state.ClusterState) command.Command {
	task, ok := g.pickTask(st, state.TaskKindSlotReplicaMove)
	ph := &command.SlotReplicaMovePhaseAdvance{TaskID: "mv-1-1", SlotID: 1, ConfigEpoch: 1, NextStep: state.TaskStepAddLearner}
	if ok {
		ph = &command.SlotReplicaMovePhaseAdvance{TaskID: task.TaskID, SlotID: task.SlotID, ConfigEpoch: task.ConfigEpoch, Attempt: task.Attempt, ExpectedPhaseIndex: task.PhaseIndex, ObservedConfigIndex: uint64(1 + g.rng.IntN(90))}
		sourcePeers := c18ReplacePeer(task.TargetPeers, task.TargetNode, task.SourceNode)
		both := append(append([]uint64(nil), sourcePeers...), task.TargetNode)
		switch task.Step {
		case state.TaskStepOpenLearner:
			ph.NextStep = state.TaskStepAddLearner
		case state.TaskStepAddLearner:
			if g.p(60) {
				ph.NextStep = state.TaskStepPromoteLearner
				ph.ObservedVoters = g.shuffled(sourcePeers)
				ph.ObservedLearners = []uint64{task.TargetNode}
			} else {
				ph.NextStep = state.TaskStepRemoveVoter
				ph.ObservedVoters = g.shuffled(both)
			}
		case state.TaskStepPromoteLearner:
			ph.NextStep = state.TaskStepRemoveVoter
			ph.ObservedVoters = g.shuffled(both)
		case state.TaskStepRemoveVoter:
			if g.p(70) {
				ph.NextStep = state.TaskStepCommitAssignment
				ph.ObservedVoters = g.shuffled(task.TargetPeers)
			} else {
				ph.NextStep = state.TaskStepRemoveVoter
				ph.ObservedVoters = g.shuffled(both)
			}
		default:
			ph.NextStep = state.TaskStepCommitAssignment
			ph.ObservedVoters = g.shuffled(task.TargetPeers)
		}
	}
	switch g.rng.IntN(36) {
	case 0:
		ph.ExpectedPhaseIndex++
		g.flavours["stale_phase"]++
	case 1:
		if ph.ExpectedPhaseIndex > 0 {
			ph.ExpectedPhaseIndex--
		}
		g.flavours["stale_phase"]++
	case 2:
		ph.Attempt++
		g.flavours["stale_attempt"]++
	case 3:
		ph.ConfigEpoch++
		g.flavours["stale_epoch"]++
	case 4:
		ph.NextStep = state.TaskStepOpenLearner
	case 5:
		ph.ObservedConfigIndex = 0
	case 6:
		ph.TaskID = "mv-none"
	case 7:
		ph.SlotID++
	case 8:
		ph.ObservedVoters = nil
	case 9:
		ph.NextStep = ""
		g.flavours["invalid_payload"]++
	case 10:
		ph.ObservedVoters = append(ph.ObservedVoters, ph.ObservedVoters...) // duplicates -> invalid state after apply
	}
	c := command.Command{Kind: command.KindAdvanceSlotReplicaMovePhase, IssuedAt: g.issuedAt(), ExpectedRevision: g.expRev(st), SlotReplicaMovePhase: ph}
	if g.p(3) {
		c.SlotReplicaMovePhase = nil
		g.flavours["invalid_payload"]++
	}
	return c
}

func (g *c18Gen) genCommit(st state.ClusterState) command.Command {
	task, ok := g.pickTask(st, state.TaskKindSlotReplicaMove)
	cm := &command.SlotReplicaMoveCommit{TaskID: "mv-1-1", SlotID: 1, ConfigEpoch: 1, ObservedConfigIndex: 3}
	if ok {
		cm = &command.SlotReplicaMoveCommit{TaskID: task.TaskID, SlotID: task.SlotID, ConfigEpoch: task.ConfigEpoch, Attempt: task.Attempt, ObservedConfigIndex: uint64(1 + g.rng.IntN(90)), ObservedVoters: g.shuffled(task.TargetPeers)}
	}
	switch g.rng.IntN(26) {
	case 0:
		cm.Attempt++
		g.flavours["stale_attempt"]++
	case 1:
		cm.ConfigEpoch++
		g.flavours["stale_epoch"]++
	case 2:
		cm.ObservedConfigIndex = 0
	case 3:
		cm.ObservedVoters = nil
	case 4:
		cm.TaskID = "mv-none"
	case 5:
		cm.SlotID++
	case 6:
		cm.ConfigEpoch = 0
		g.flavours["invalid_payload"]++
	}
	c := command.Command{Kind: command.KindCommitSlotReplicaMove, IssuedAt: g.issuedAt(), ExpectedRevision: g.expRev(st), SlotReplicaMoveCommit: cm}
	if g.p(3) {
		c.SlotReplicaMoveCommit = nil
		g.flavours["invalid_payload"]++
	}
	return c
}

func (g *c18Gen) genTaskResult(st state.ClusterState, kind command.Kind) command.Command {
	task, ok := g.pickTask(st, "")
	tr := &command.TaskResult{TaskID: "bs-1-1", SlotID: 1, TaskKind: state.TaskKindBootstrap, ConfigEpoch: 1}
	if ok {
		tr = &command.TaskResult{TaskID: task.TaskID, SlotID: task.SlotID, TaskKind: task.Kind, ConfigEpoch: task.ConfigEpoch, Attempt: task.Attempt}
	}
	if kind == command.KindFailTask {
		tr.Err = "boom"
		if g.p(15) {
			tr.Err = strings.Repeat("错误x", 300) // > 1024 bytes, multi-byte: truncation path
		}
	}
	if g.p(40) {
		tr.FinishedAt = g.issuedAt()
	}
	switch g.rng.IntN(30) {
	case 0:
		tr.Attempt++
		g.flavours["stale_attempt"]++
	case 1:
		if tr.Attempt > 0 {
			tr.Attempt--
		}
		g.flavours["stale_attempt"]++
	case 2:
		tr.ConfigEpoch++
		g.flavours["stale_epoch"]++
	case 3:
		tr.TaskKind = state.TaskKindLeaderTransfer
	case 4:
		tr.SlotID++
	case 5:
		tr.TaskID = "gone-1"
	case 6:
		tr.TaskID = ""
		g.flavours["invalid_payload"]++
	case 7:
		tr.SlotID = 0
		g.flavours["invalid_payload"]++
	case 8:
		tr.TaskKind = ""
		g.flavours["invalid_payload"]++
	}
	c := command.Command{Kind: kind, IssuedAt: g.issuedAt(), ExpectedRevision: g.expRev(st), TaskResult: tr}
	if g.p(3) {
		c.TaskResult = nil
		g.flavours["invalid_payload"]++
	}
	return c
}

func (g *c18Gen) genProgress(st state.ClusterState) command.Command {
	var task state.ReconcileTask
	ok := false
	for _, t := range st.Tasks {
		if t.CompletionPolicy == state.TaskCompletionPolicyAllTargetPeers && (!ok || g.p(50)) && g.forceSlot == 0 {
			task, ok = t, true
		}
	}
	if !ok {
		task, ok = g.pickTask(st, "")
	}
	tp := &command.TaskProgress{TaskID: "bs-1-1", SlotID: 1, TaskKind: state.TaskKindBootstrap, ConfigEpoch: 1, ParticipantNodeID: 1, Status: state.TaskParticipantStatusDone}
	if ok {
		tp = &command.TaskProgress{TaskID: task.TaskID, SlotID: task.SlotID, TaskKind: task.Kind, ConfigEpoch: task.ConfigEpoch, TaskAttempt: task.Attempt, Status: []state.TaskParticipantStatus{state.TaskParticipantStatusDone, state.TaskParticipantStatusDone, state.TaskParticipantStatusFailed, state.TaskParticipantStatusPending}[g.rng.IntN(4)]}
		if len(task.TargetPeers) > 0 {
			tp.ParticipantNodeID = task.TargetPeers[g.rng.IntN(len(task.TargetPeers))]
		}
		for _, pp := range task.ParticipantProgress {
			if pp.NodeID == tp.ParticipantNodeID {
				tp.ParticipantAttempt = pp.Attempt
			}
		}
	}
	if tp.Status == state.TaskParticipantStatusFailed {
		tp.Err = "participant failed"
	}
	switch g.rng.IntN(28) {
	case 0:
		tp.TaskAttempt++
		g.flavours["stale_attempt"]++
	case 1:
		if tp.ParticipantAttempt > 0 {
			tp.ParticipantAttempt--
			g.flavours["stale_attempt"]++
		}
	case 2:
		tp.ParticipantAttempt++
	case 3:
		tp.ConfigEpoch++
		g.flavours["stale_epoch"]++
	case 4:
		tp.ParticipantNodeID = 9
	case 5:
		tp.Status = "bogus"
		g.flavours["invalid_payload"]++
	case 6:
		tp.ParticipantNodeID = 0
		g.flavours["invalid_payload"]++
	case 7:
		tp.TaskID = "gone-2"
	case 8:
		tp.SlotID++
	}
	c := command.Command{Kind: command.KindReportTaskProgress, IssuedAt: g.issuedAt(), ExpectedRevision: g.expRev(st), TaskProgress: tp}
	if g.p(3) {
		c.TaskProgress = nil
		g.flavours["invalid_payload"]++
	}
	return c
}

func (g *c18Gen) genHealth(st state.ClusterState) command.Command {
	hid := uint64(1 + g.rng.IntN(int(g.maxNode)))
	if g.forceNode != 0 {
		hid = g.forceNode
	}
	h := &state.NodeHealthReport{NodeID: hid, Status: []state.NodeStatus{state.NodeStatusAlive, state.NodeStatusSuspect, state.NodeStatusDown}[g.rng.IntN(3)], RuntimeReady: g.p(70), ObservedControlRevision: st.Revision, ReportSeq: uint64(g.rng.IntN(4)), ReportedAtUnixMilli: int64(g.rng.IntN(3))}
	switch g.rng.IntN(16) {
	case 0:
		h.NodeID = 0
		g.flavours["invalid_payload"]++
	case 1:
		h.NodeID = 9
		g.flavours["invalid_payload"]++
	case 2:
		h.Status = "bad"
		g.flavours["invalid_payload"]++
	case 3:
		h.ReportedAtUnixMilli = -1
		g.flavours["invalid_payload"]++
	case 4:
		h.ErrorCode = strings.Repeat("e", 129)
		g.flavours["invalid_payload"]++
	case 5:
		h.AppliedRaftIndex = 7777 // must be overwritten by the FSM with the entry index
	}
	// identical re-report (-> no_change) happens through the stale pool.
	c := command.Command{Kind: command.KindReportNodeHealth, IssuedAt: g.issuedAt(), ExpectedRevision: g.expRev(st), NodeHealth: h}
	if g.p(3) {
		c.NodeHealth = nil
		g.flavours["invalid_payload"]++
	}
	return c
}

// noteResult tells the generator what the reference run made of cmd.
func (g *c18Gen) noteResult(cmd command.Command, changedDurableState bool) {
	if changedDurableState {
		if g.lastEffective == nil {
			g.lastEffective = map[command.Kind]command.Command{}
		}
		g.lastEffective[cmd.Kind] = cmd
	}
}

// c18TwiddleShapes flips nil <-> empty for slices that may legitimately be
// empty and whose JSON field has no omitempty (so the distinction survives
// command.Encode/Decode), and drops / adds optional structs. These are the
// shapes that differ between a freshly built in-memory value and one that went
// through a codec.
func (g *c18Gen) twiddleShapes(c *command.Command) {
	flip := func(n int) bool { return n == 0 && g.p(50) }
	if c.OpsMCP != nil && flip(len(c.OpsMCP.Credentials)) {
		if c.OpsMCP.Credentials == nil {
			c.OpsMCP.Credentials = []state.OpsMCPCredential{}
		} else {
			c.OpsMCP.Credentials = nil
		}
	}
	if c.ScheduledBackup != nil {
		sb := c.ScheduledBackup
		if flip(len(sb.History)) {
			if sb.History == nil {
				sb.History = []state.BackupTaskRecord{}
			} else {
				sb.History = nil
			}
		}
		if sb.Plan != nil && sb.Plan.RepositoryVerification == nil && g.p(30) {
			v := &state.BackupRepositoryVerification{Status: state.BackupRepositoryVerificationUnverified}
			if g.p(50) {
				v = &state.BackupRepositoryVerification{Status: state.BackupRepositoryVerificationVerified, VerifiedAtUnixMillis: 150}
			}
			sb.Plan.RepositoryVerification = v
		}
		if sb.Plan != nil && sb.Plan.Store.CredentialCiphertext == nil && g.p(20) {
			sb.Plan.Store.CredentialCiphertext = []byte{}
		}
	}
	if c.ControllerVoterPromotion != nil && c.ControllerVoterPromotion.ExpectedPreviousVoters == nil && g.p(10) {
		c.ControllerVoterPromotion.ExpectedPreviousVoters = []uint64{} // non-nil empty: a fence against "no voters"
	}
	if c.Task != nil {
		if flip(len(c.Task.ParticipantProgress)) && c.Task.ParticipantProgress == nil {
			c.Task.ParticipantProgress = []state.TaskParticipantProgress{}
		}
		if flip(len(c.Task.ObservedVoters)) && c.Task.ObservedVoters == nil {
			c.Task.ObservedVoters = []uint64{}
		}
		if flip(len(c.Task.ObservedLearners)) && c.Task.ObservedLearners == nil {
			c.Task.ObservedLearners = []uint64{}
		}
	}
	if c.SlotReplicaMovePhase != nil && flip(len(c.SlotReplicaMovePhase.ObservedLearners)) && c.SlotReplicaMovePhase.ObservedLearners == nil {
		c.SlotReplicaMovePhase.ObservedLearners = []uint64{}
	}
	if c.HashSlots != nil && flip(len(c.HashSlots.Ranges)) && c.HashSlots.Ranges == nil {
		c.HashSlots.Ranges = []state.HashSlotRange{}
	}
	if c.Kind == command.KindUpdateControllerVoters && flip(len(c.Controllers)) && c.Controllers == nil {
		c.Controllers = []state.ControllerVoter{}
	}
	if c.Node != nil && flip(len(c.Node.Roles)) && c.Node.Roles == nil {
		c.Node.Roles = []state.NodeRole{}
	}
	if c.Assignment != nil && flip(len(c.Assignment.DesiredPeers)) && c.Assignment.DesiredPeers == nil {
		c.Assignment.DesiredPeers = []uint64{}
	}
	if c.Init != nil && g.p(10) {
		init := *c.Init
		if init.Controllers == nil {
			init.Controllers = []state.ControllerVoter{}
		}
		if init.Nodes == nil {
			init.Nodes = []state.Node{}
		}
		c.Init = &init
	}
}

// next produces the next command given A's current published state.
func (g *c18Gen) next(st state.ClusterState) command.Command {
	g.lastResend = ""
	if st.Revision != 0 && len(g.lastEffective) > 0 && g.p(8) {
		// idempotent re-send: the last effective command of one kind, verbatim
		kinds := make([]string, 0, len(g.lastEffective))
		for k := range g.lastEffective {
			kinds = append(kinds, string(k))
		}
		sort.Strings(kinds)
		k := command.Kind(kinds[g.rng.IntN(len(kinds))])
		c := g.lastEffective[k]
		if g.p(50) {
			c.ExpectedRevision = nil
		}
		g.lastResend = k
		g.flavours["idempotent_resend"]++
		return c
	}
	c := g.nextFresh(st)
	g.twiddleShapes(&c)
	return c
}

func (g *c18Gen) nextFresh(st state.ClusterState) command.Command {
	if len(g.pool) > 0 && g.p(14) {
		g.flavours["replayed_old_command"]++
		return g.pool[g.rng.IntN(len(g.pool))]
	}
	var c command.Command
	if st.Revision != 0 && g.runLeft == 0 && g.p(16) {
		g.startRun(st)
	}
	if st.Revision == 0 {
		g.runLeft = 0
		if g.p(70) {
			c = g.genInit(st)
		} else {
			c = g.pickKind(st)
		}
	} else if g.runLeft > 0 {
		g.runLeft--
		c = g.runCommand(st)
		g.flavours["dependent_run_commands"]++
		if g.runLeft == 0 {
			g.runKind, g.runSlot, g.runNode = "", 0, 0
		}
	} else {
		switch {
		case g.p(4):
			c = g.genInit(st)
		case g.p(55):
			c = g.planned(st)
		default:
			c = g.pickKind(st)
		}
	}
	g.pool = append(g.pool, c)
	if len(g.pool) > 24 {
		g.pool = g.pool[1:]
	}
	return c
}

var c18RunKinds = []string{"node", "controllers", "hashslots", "backup", "opsmcp", "slot", "slot", "slot", "health", "init"}

func (g *c18Gen) startRun(st state.ClusterState) {
	g.runKind = c18RunKinds[g.rng.IntN(len(c18RunKinds))]
	g.runLeft = 2 + g.rng.IntN(3)
	g.runNode = uint64(1 + g.rng.IntN(int(g.maxNode)))
	g.runSlot = 0
	if g.runKind == "slot" && st.Config.SlotCount > 0 {
		g.runSlot = uint32(1 + g.rng.IntN(int(st.Config.SlotCount)))
	}
	g.flavours["dependent_runs."+g.runKind]++
}

// runCommand emits one command of the current dependent run.
func (g *c18Gen) runCommand(st state.ClusterState) command.Command {
	switch g.runKind {
	case "node":
		// one node: its record, its controller-voter promotion, its health
		g.forceNode = g.runNode
		defer func() { g.forceNode = 0 }()
		switch x := g.rng.IntN(10); {
		case x < 6:
			return g.genUpsertNode(st)
		case x < 8:
			return g.genPromote(st)
		default:
			return g.genHealth(st)
		}
	case "controllers":
		g.forceNode = g.runNode
		defer func() { g.forceNode = 0 }()
		switch x := g.rng.IntN(10); {
		case x < 5:
			return g.genUpdateControllers(st)
		case x < 8:
			return g.genPromote(st)
		default:
			return g.genUpsertNode(st)
		}
	case "hashslots":
		return g.genHashSlots(st)
	case "backup":
		// the backup singleton, interleaved with the task set it is validated against
		if g.p(25) {
			return g.planned(st)
		}
		return g.genBackup(st)
	case "opsmcp":
		return g.genOpsMCPRun(st)
	case "health":
		g.forceNode = g.runNode
		defer func() { g.forceNode = 0 }()
		if g.p(25) {
			return g.genUpsertNode(st)
		}
		return g.genHealth(st)
	case "init":
		return g.genInit(st)
	default: // one slot: assignment, its task and every task command
		if g.p(80) {
			return g.planned(st)
		}
		g.forceSlot = g.runSlot
		defer func() { g.forceSlot = 0 }()
		switch g.rng.IntN(7) {
		case 0:
			return g.genAssignTask(st)
		case 1:
			return g.genMoveTask(st)
		case 2:
			return g.genAdvance(st)
		case 3:
			return g.genCommit(st)
		case 4:
			return g.genTaskResult(st, command.KindCompleteTask)
		case 5:
			return g.genTaskResult(st, command.KindFailTask)
		default:
			return g.genProgress(st)
		}
	}
}

// genOpsMCPRun emits mostly well-formed OpsMCP replacements over two candidate
// owners: enable / stop / hand over / rotate credentials. Which of them is
// accepted depends on the OpsMCP state left by the previous command (owner may
// not change while enabled).
func (g *c18Gen) genOpsMCPRun(st state.ClusterState) command.Command {
	var active []uint64
	for _, n := range st.Nodes {
		if n.JoinState == state.NodeJoinStateActive {
			active = append(active, n.NodeID)
		}
	}
	if len(active) == 0 || g.p(12) {
		return g.genOpsMCP(st)
	}
	owner := active[g.rng.IntN(len(active))]
	if st.OpsMCP != nil && st.OpsMCP.OwnerNodeID != 0 && g.p(45) {
		owner = st.OpsMCP.OwnerNodeID
	}
	ops := state.OpsMCPState{Enabled: g.p(55), OwnerNodeID: owner, Credentials: []state.OpsMCPCredential{{ID: fmt.Sprintf("k%d", g.rng.IntN(2)), DigestSHA256: c18Hex64(byte(g.rng.IntN(2))), CreatedAtUnixMillis: 1}}}
	if !ops.Enabled && g.p(30) {
		ops.OwnerNodeID = 0
	}
	return command.Command{Kind: command.KindReplaceOpsMCPState, IssuedAt: g.issuedAt(), ExpectedRevision: g.expRev(st), OpsMCP: &ops}
}

// planned emits the command a well-behaved planner/executor would propose
// next for one PRNG slot (bootstrap -> complete, move: open -> add -> promote ->
// remove -> commit, leader transfer -> complete), so that deep workflow states
// are reached; the per-kind generators still perturb fences with some
// probability.
func (g *c18Gen) planned(st state.ClusterState) command.Command {
	slots := int(st.Config.SlotCount)
	if slots == 0 {
		return g.pickKind(st)
	}
	g.forceSlot = uint32(1 + g.rng.IntN(slots))
	if g.runSlot != 0 {
		g.forceSlot = g.runSlot
	}
	defer func() { g.forceSlot = 0 }()
	g.flavours["planned"]++
	_, has := c18Assignment(st, g.forceSlot)
	task, hasTask := c18TaskBySlot(st, g.forceSlot)
	switch {
	case !has:
		return g.genAssignTask(st)
	case hasTask && task.Kind == state.TaskKindSlotReplicaMove:
		if task.Step == state.TaskStepCommitAssignment {
			return g.genCommit(st)
		}
		if g.p(8) {
			return g.genTaskResult(st, command.KindFailTask)
		}
		return g.genAdvance(st)
	case hasTask:
		if task.CompletionPolicy == state.TaskCompletionPolicyAllTargetPeers && g.p(55) {
			return g.genProgress(st)
		}
		switch x := g.rng.IntN(100); {
		case x < 65:
			return g.genTaskResult(st, command.KindCompleteTask)
		case x < 90:
			return g.genTaskResult(st, command.KindFailTask)
		default:
			return g.genProgress(st)
		}
	default:
		if g.p(60) {
			return g.genMoveTask(st)
		}
		return g.genAssignTask(st)
	}
}

func (g *c18Gen) pickKind(st state.ClusterState) command.Command {
	switch x := g.rng.IntN(100); {
	case x < 10:
		return g.genUpsertNode(st)
	case x < 14:
		return g.genUpdateControllers(st)
	case x < 19:
		return g.genPromote(st)
	case x < 24:
		return g.genHashSlots(st)
	case x < 29:
		return g.genBackup(st)
	case x < 34:
		return g.genOpsMCP(st)
	case x < 50:
		return g.genAssignTask(st)
	case x < 58:
		return g.genMoveTask(st)
	case x < 70:
		return g.genAdvance(st)
	case x < 76:
		return g.genCommit(st)
	case x < 83:
		return g.genTaskResult(st, command.KindCompleteTask)
	case x < 89:
		return g.genTaskResult(st, command.KindFailTask)
	case x < 95:
		return g.genProgress(st)
	case x < 99:
		return g.genHealth(st)
	default:
		g.flavours["invalid_payload"]++
		return command.Command{Kind: "bogus_kind", IssuedAt: g.issuedAt(), ExpectedRevision: g.expRev(st)}
	}
}
