//go:build verif

package fsm_test

// C18 — Controller state machine applies commands deterministically.
//
// Differential + invariant monitor around the real pkg/controller/fsm state
// machine over the real statefile store (tmpfs) and an in-memory Store:
//
//	A   one committed entry per ApplyBatch (reference run; the log is generated
//	    online from A's published state, see c18_gen_test.go)
//	B   the same byte log (command.Encode -> command.Decode, as the Raft apply
//	    scheduler does) under PRNG batch partitions
//	X   every one of the 2^(m-1) partitions of a window of m<=6/8 entries,
//	    started from A's persisted state in front of the window
//	C   restart from the persisted state file at PRNG points followed by a
//	    replay that overlaps already applied indices
//	R   restart (state-file Load, and snapshot Decode+Restore into a fresh FSM)
//	    placed so that the FIRST command afterwards is a verbatim re-send of the
//	    last effective command of some kind
//
// Asserted (only what the statement promises):
//   - state after every batch == A's state after the same entry (canonical
//     state.Encode bytes) and per-entry ApplyResult equal to A's;
//   - Rejected/Noop => canonical state minus AppliedRaftIndex/Checksum unchanged;
//   - Changed => Revision == previous+1 exactly; an entry that is not Changed
//     never moves the revision;
//   - replayed index (<= persisted AppliedRaftIndex) => Noop/already_applied and
//     nothing changes;
//   - every state handed to Store.Save and every published Snapshot with
//     Revision != 0 passes Validate and Decode(Encode(s)) with matching checksum;
//   - after each batch the file on disk decodes to FinalState == Snapshot.
//
// No wall clock is involved: IssuedAt values are logical and part of the log.

import (
	"bytes"
	"context"
	"encoding/json"
	"fmt"
	"hash/fnv"
	"math/rand/v2"
	"os"
	"path/filepath"
	"reflect"
	"sort"
	"strings"
	"testing"

	"github.com/WuKongIM/WuKongIM/pkg/controller/command"
	"github.com/WuKongIM/WuKongIM/pkg/controller/fsm"
	"github.com/WuKongIM/WuKongIM/pkg/controller/state"
	"github.com/WuKongIM/WuKongIM/pkg/controller/statefile"
	"github.com/WuKongIM/WuKongIM/pkg/verifkit"
)

var c18Ctx = context.Background()

type c18Entry struct {
	Index uint64
	Term  uint64
	Raw   []byte
	Cmd   command.Command
	// Resend is the kind of the command when it is a verbatim re-send of the
	// last effective command of that kind ("" otherwise).
	Resend command.Kind
}

// c18MemStore is an in-memory fsm.Store with the same encode-on-save /
// decode-on-load semantics as the state file.
type c18MemStore struct{ data []byte }

func (m *c18MemStore) Load(context.Context) (state.ClusterState, error) {
	if m.data == nil {
		return state.ClusterState{}, fmt.Errorf("c18 mem store: %w", os.ErrNotExist)
	}
	return state.Decode(m.data)
}

func (m *c18MemStore) Save(_ context.Context, st state.ClusterState) error {
	data, err := state.Encode(st)
	if err != nil {
		return err
	}
	m.data = data
	return nil
}

// c18Store wraps the real store and checks every state handed to Save.
type c18Store struct {
	r       *verifkit.Run
	inner   fsm.Store
	saves   int
	lastEnc []byte // canonical encoding of the last state handed to Save
}

func (s *c18Store) Load(ctx context.Context) (state.ClusterState, error) { return s.inner.Load(ctx) }

func (s *c18Store) Save(ctx context.Context, st state.ClusterState) error {
	s.saves++
	s.r.Count("states_saved_checked", 1)
	// state.Encode validates the normalized state; an invalid candidate handed
	// to the store is a refutation whether or not the store would reject it.
	if err := st.Validate(); err != nil {
		s.r.Violation("invalid-state:saved", map[string]any{"err": err.Error(), "state": string(c18CanonNoIndex(st))})
	} else if enc, err := state.Encode(st); err != nil {
		s.r.Violation("encode-fails:saved", err.Error())
	} else {
		s.lastEnc = enc
		if cs, cerr := state.Checksum(st); cerr != nil || st.Checksum != cs {
			s.r.Violation("checksum-mismatch:saved", map[string]any{"computed": cs, "carried": st.Checksum})
		}
	}
	return s.inner.Save(ctx, st)
}

func c18Canon(st state.ClusterState) []byte {
	if st.Revision != 0 {
		if b, err := state.Encode(st); err == nil {
			return b
		}
	}
	c := st.Clone()
	c.Normalize()
	b, _ := json.Marshal(c)
	return b
}

func c18CanonNoIndex(st state.ClusterState) []byte {
	c := st.Clone()
	c.Normalize()
	c.AppliedRaftIndex = 0
	c.Checksum = ""
	b, _ := json.Marshal(c)
	return b
}

// c18CheckState: a persisted/published state with Revision != 0 must validate
// and survive the canonical codec with a matching checksum.
func c18CheckState(r *verifkit.Run, where string, st state.ClusterState) {
	if st.Revision == 0 {
		return
	}
	if err := st.Validate(); err != nil {
		r.Violation("invalid-state:"+where, map[string]any{"err": err.Error(), "state": string(c18CanonNoIndex(st))})
		return
	}
	enc, err := state.Encode(st)
	if err != nil {
		r.Violation("encode-fails:"+where, err.Error())
		return
	}
	dec, err := state.Decode(enc)
	if err != nil {
		r.Violation("decode-of-encode-fails:"+where, map[string]any{"err": err.Error(), "enc": string(enc)})
		return
	}
	cs, err := state.Checksum(st)
	if err != nil || dec.Checksum != cs || (st.Checksum != "" && st.Checksum != cs) {
		r.Violation("checksum-mismatch:"+where, map[string]any{"decoded": dec.Checksum, "computed": cs, "carried": st.Checksum})
		return
	}
	enc2, err := state.Encode(dec)
	if err != nil || !bytes.Equal(enc, enc2) {
		r.Violation("codec-not-canonical:"+where, map[string]any{"enc": string(enc), "enc2": string(enc2)})
	}
}

// c18DeepDiff names the first section in which two states differ under
// reflect.DeepEqual ("" when deep-equal). The FSM's own no-op detection uses
// reflect.DeepEqual on in-memory sections, so a state that went through the
// codec must have exactly the in-memory shape (nil vs empty included), not just
// the same canonical bytes.
func c18DeepDiff(a, b state.ClusterState) string {
	if c18SkipDeep {
		return ""
	}
	switch {
	case a.SchemaVersion != b.SchemaVersion || a.ClusterID != b.ClusterID || a.Revision != b.Revision || a.AppliedRaftIndex != b.AppliedRaftIndex || a.Checksum != b.Checksum:
		return "header"
	case !reflect.DeepEqual(a.UpdatedAt, b.UpdatedAt):
		return "updated_at"
	case !reflect.DeepEqual(a.Config, b.Config):
		return "config"
	case !reflect.DeepEqual(a.Controllers, b.Controllers):
		return "controllers"
	case !reflect.DeepEqual(a.Nodes, b.Nodes):
		return "nodes"
	case !reflect.DeepEqual(a.Slots, b.Slots):
		return "slots"
	case !reflect.DeepEqual(a.NodeHealthReports, b.NodeHealthReports):
		return "node_health_reports"
	case !reflect.DeepEqual(a.HashSlots, b.HashSlots):
		return "hash_slots"
	case !reflect.DeepEqual(a.Tasks, b.Tasks):
		return "tasks"
	case !reflect.DeepEqual(a.ScheduledBackup, b.ScheduledBackup):
		return "scheduled_backup"
	case !reflect.DeepEqual(a.OpsMCP, b.OpsMCP):
		return "ops_mcp"
	case !reflect.DeepEqual(a, b):
		return "other"
	}
	return ""
}

// c18SkipDeep (VERIF_C18_SKIP_DEEP=1) switches the direct deep-equality
// assertions off. It exists only for sensitivity experiments that want to see
// whether the differential restart variants alone catch a codec-shape bug; the
// runner never sets it.
var c18SkipDeep = os.Getenv("VERIF_C18_SKIP_DEEP") == "1"

func c18ShapeJSON(v any) string {
	return fmt.Sprintf("%#v", v)
}

type c18Machine struct {
	sm    *fsm.StateMachine
	store *c18Store
	file  *statefile.Store
	mem   *c18MemStore
	canon []byte // canonical bytes of the state published by the last batch
}

func c18NewFileMachine(r *verifkit.Run, path string) (*c18Machine, error) {
	f := statefile.New(path)
	st := &c18Store{r: r, inner: f}
	sm, err := fsm.New(st)
	if err != nil {
		return nil, err
	}
	if err := sm.Load(c18Ctx); err != nil {
		return nil, err
	}
	return &c18Machine{sm: sm, store: st, file: f}, nil
}

func c18NewMemMachine(r *verifkit.Run, preload []byte) (*c18Machine, error) {
	m := &c18MemStore{}
	if preload != nil {
		m.data = append([]byte(nil), preload...)
	}
	st := &c18Store{r: r, inner: m}
	sm, err := fsm.New(st)
	if err != nil {
		return nil, err
	}
	if err := sm.Load(c18Ctx); err != nil {
		return nil, err
	}
	return &c18Machine{sm: sm, store: st, mem: m}, nil
}

func c18ResultJSON(res fsm.ApplyResult) string {
	b, _ := json.Marshal(res)
	return string(b)
}

func c18Class(res fsm.ApplyResult) string {
	var parts []string
	if res.Changed {
		parts = append(parts, "changed")
	}
	if res.Updated {
		parts = append(parts, "updated")
	}
	if res.Noop {
		parts = append(parts, "noop")
	}
	if res.Rejected {
		parts = append(parts, "rejected")
	}
	if len(parts) == 0 {
		return "none"
	}
	return strings.Join(parts, "+")
}

// c18ApplyBatch applies entries[lo:hi] as one batch to m and performs the
// checks that hold for every batch of every variant. It returns the results
// (nil on failure).
func c18ApplyBatch(r *verifkit.Run, variant string, m *c18Machine, entries []c18Entry, lo, hi int) []fsm.ApplyResult {
	batch := make([]fsm.AppliedCommand, 0, hi-lo)
	for _, e := range entries[lo:hi] {
		batch = append(batch, fsm.AppliedCommand{Index: e.Index, Term: e.Term, Command: e.Cmd})
	}
	var out fsm.BatchApplyResult
	var err error
	if r.Guard("ApplyBatch:"+variant, map[string]any{"lo": lo, "hi": hi}, func() { out, err = m.sm.ApplyBatch(c18Ctx, batch) }) {
		return nil
	}
	r.Eval(1)
	r.Count("batches."+variant, 1)
	r.Max("max_batch_len", hi-lo)
	if variant == "B" || variant == "X" {
		c18CountDependentPairs(r, entries, lo, hi)
	}
	if err != nil {
		// healthy store + committed log: the only error sources are Encode's
		// validation of an invalid candidate state or a checksum failure.
		r.Violation("apply-error:"+variant, map[string]any{"err": err.Error(), "lo": lo, "hi": hi, "degraded": m.sm.IsDegraded()})
		return nil
	}
	if len(out.Results) != hi-lo {
		r.Violation("result-count:"+variant, map[string]any{"want": hi - lo, "got": len(out.Results)})
		return nil
	}
	snap := m.sm.Snapshot(c18Ctx)
	if !reflect.DeepEqual(snap, out.FinalState) && !bytes.Equal(c18Canon(snap), c18Canon(out.FinalState)) {
		r.Violation("finalstate-differs-from-snapshot:"+variant, map[string]any{"final": string(c18Canon(out.FinalState)), "snapshot": string(c18Canon(snap))})
	}
	m.canon = nil
	if snap.Revision != 0 {
		// published state: valid, canonical, equal to what was saved, and equal
		// to what the store gives back (Decode of the persisted Encode image).
		enc, eerr := state.Encode(snap)
		if eerr != nil {
			r.Violation("invalid-state:published", map[string]any{"err": eerr.Error(), "state": string(c18CanonNoIndex(snap))})
			m.canon = c18Canon(snap)
		} else {
			m.canon = enc
			if m.store.lastEnc != nil && !bytes.Equal(enc, m.store.lastEnc) {
				r.Violation("published-differs-from-saved:"+variant, map[string]any{"published": string(enc), "saved": string(m.store.lastEnc)})
			}
			loaded, lerr := m.store.inner.Load(c18Ctx)
			if lerr != nil {
				r.Violation("persisted-state-unloadable:"+variant, lerr.Error())
			} else {
				enc2, e2 := state.Encode(loaded)
				if e2 != nil || !bytes.Equal(enc2, enc) {
					r.Violation("persisted-state-differs:"+variant, map[string]any{"disk": string(c18Canon(loaded)), "published": string(enc)})
				}
				if sec := c18DeepDiff(snap, loaded); sec != "" {
					r.Violation("restart-state-not-deep-equal:"+sec, map[string]any{"variant": variant, "published": c18ShapeJSON(snap), "decoded_from_store": c18ShapeJSON(loaded)})
				}
				r.Count("persisted_image_deep_equal_checks", 1)
				if loaded.Checksum != snap.Checksum || snap.Checksum == "" {
					r.Violation("checksum-mismatch:published", map[string]any{"decoded": loaded.Checksum, "carried": snap.Checksum})
				}
			}
			r.Count("persisted_image_checks", 1)
		}
	} else {
		m.canon = c18Canon(snap)
		if m.file != nil {
			if _, serr := os.Stat(m.file.Path()); serr == nil {
				// not promised either way; observed for evidence only
				r.Count("file_exists_before_init", 1)
			}
		}
	}
	// revision chain inside the batch
	last := out.Results[len(out.Results)-1]
	if snap.Revision != last.Revision {
		r.Violation("result-revision-differs-from-state:"+variant, map[string]any{"result": last.Revision, "state": snap.Revision})
	}
	return out.Results
}

// c18Entities names the state entities a command's guard or effect depends on.
func c18Entities(c command.Command) []string {
	var out []string
	node := func(id uint64) { out = append(out, fmt.Sprintf("node:%d", id)) }
	slot := func(id uint32) { out = append(out, fmt.Sprintf("slot:%d", id)) }
	task := func(id string) { out = append(out, "task:"+id) }
	switch c.Kind {
	case command.KindInitClusterState:
		out = append(out, "init")
	case command.KindUpsertNode:
		if c.Node != nil {
			node(c.Node.NodeID)
		}
	case command.KindUpdateControllerVoters:
		out = append(out, "controllers")
		for _, v := range c.Controllers {
			node(v.NodeID)
		}
	case command.KindPromoteControllerVoter:
		out = append(out, "controllers")
		if c.ControllerVoterPromotion != nil {
			node(c.ControllerVoterPromotion.TargetNodeID)
		}
	case command.KindReplaceHashSlotTable:
		out = append(out, "hashslots")
	case command.KindReplaceScheduledBackupState:
		out = append(out, "backup")
	case command.KindReplaceOpsMCPState:
		out = append(out, "opsmcp")
		if c.OpsMCP != nil && c.OpsMCP.OwnerNodeID != 0 {
			node(c.OpsMCP.OwnerNodeID)
		}
	case command.KindUpsertSlotAssignmentAndTask, command.KindUpsertSlotReplicaMoveTask:
		if c.Assignment != nil {
			slot(c.Assignment.SlotID)
		}
		if c.Task != nil {
			slot(c.Task.SlotID)
			task(c.Task.TaskID)
		}
	case command.KindAdvanceSlotReplicaMovePhase:
		if c.SlotReplicaMovePhase != nil {
			slot(c.SlotReplicaMovePhase.SlotID)
			task(c.SlotReplicaMovePhase.TaskID)
		}
	case command.KindCommitSlotReplicaMove:
		if c.SlotReplicaMoveCommit != nil {
			slot(c.SlotReplicaMoveCommit.SlotID)
			task(c.SlotReplicaMoveCommit.TaskID)
		}
	case command.KindCompleteTask, command.KindFailTask:
		if c.TaskResult != nil {
			slot(c.TaskResult.SlotID)
			task(c.TaskResult.TaskID)
		}
	case command.KindReportTaskProgress:
		if c.TaskProgress != nil {
			slot(c.TaskProgress.SlotID)
			task(c.TaskProgress.TaskID)
		}
	case command.KindReportNodeHealth:
		if c.NodeHealth != nil {
			node(c.NodeHealth.NodeID)
		}
	}
	return out
}

var c18AllKinds = []command.Kind{command.KindInitClusterState, command.KindUpsertNode, command.KindUpdateControllerVoters, command.KindPromoteControllerVoter, command.KindUpsertSlotAssignmentAndTask, command.KindUpsertSlotReplicaMoveTask, command.KindAdvanceSlotReplicaMovePhase, command.KindCommitSlotReplicaMove, command.KindCompleteTask, command.KindFailTask, command.KindReportTaskProgress, command.KindReportNodeHealth, command.KindReplaceHashSlotTable, command.KindReplaceScheduledBackupState, command.KindReplaceOpsMCPState}

var c18ResendKinds = map[string]int{}

var (
	c18PairsInBatch = map[command.Kind]int{} // kind of the LATER command of a dependent pair that shares a batch
	c18PairsSplit   = map[command.Kind]int{} // adjacent dependent pair separated by a batch boundary
)

// c18CountDependentPairs records, for evidence, how often a command shares its
// batch with an earlier command on the same entity (same node, slot, task,
// singleton), per kind and per same-kind / cross-kind, and how often an
// adjacent dependent pair is cut by the batch boundary in front of this batch.
func c18CountDependentPairs(r *verifkit.Run, entries []c18Entry, lo, hi int) {
	share := func(a, b command.Command) bool {
		for _, x := range c18Entities(a) {
			for _, y := range c18Entities(b) {
				if x == y {
					return true
				}
			}
		}
		return false
	}
	for j := lo + 1; j < hi; j++ {
		same, cross := false, false
		for i := lo; i < j; i++ {
			if share(entries[i].Cmd, entries[j].Cmd) {
				if entries[i].Cmd.Kind == entries[j].Cmd.Kind {
					same = true
				} else {
					cross = true
				}
			}
		}
		k := entries[j].Cmd.Kind
		if same || cross {
			c18PairsInBatch[k]++
		}
		if same {
			r.Count("dependent_pair_in_one_batch.same_kind."+string(k), 1)
		}
		if cross {
			r.Count("dependent_pair_in_one_batch.related_kind."+string(k), 1)
		}
	}
	if lo > 0 && share(entries[lo-1].Cmd, entries[lo].Cmd) {
		c18PairsSplit[entries[lo].Cmd.Kind]++
		r.Count("dependent_pair_split_by_batch_boundary."+string(entries[lo].Cmd.Kind), 1)
	}
}

type c18Ref struct {
	entries []c18Entry
	results []fsm.ApplyResult
	states  [][]byte             // canonical state after entry i
	snaps   []state.ClusterState // state after entry i
	flav    map[string]int
}

func c18Shape(sizes []int) string {
	var sb strings.Builder
	for i, s := range sizes {
		if i > 0 {
			sb.WriteByte(',')
		}
		fmt.Fprintf(&sb, "%d", s)
		if sb.Len() > 48 {
			sb.WriteString("..")
			break
		}
	}
	return sb.String()
}

func c18Partition(rng *rand.Rand, n int) []int {
	var sizes []int
	style := rng.IntN(4)
	for n > 0 {
		var s int
		switch style {
		case 0:
			s = 1 + rng.IntN(3)
		case 1:
			s = 1 + rng.IntN(12)
		case 2:
			s = []int{1, 1, 2, 3, 5, 8, 13, 40}[rng.IntN(8)]
		default:
			s = 1 + rng.IntN(n)
		}
		if s > n {
			s = n
		}
		sizes = append(sizes, s)
		n -= s
	}
	return sizes
}

// c18Compare checks results[lo:hi] and the end-of-batch state against the
// reference. stateIdx is the reference entry whose state must match.
func c18Compare(r *verifkit.Run, variant string, ref *c18Ref, m *c18Machine, res []fsm.ApplyResult, lo, hi, stateIdx int, replayedBelow uint64, replayActive bool) (mixed bool) {
	var sawChanged, sawRejected bool
	for k, got := range res {
		i := lo + k
		e := ref.entries[i]
		if replayActive && e.Index <= replayedBelow {
			r.Count("replayed_entries", 1)
			if !got.Noop || got.Reason != fsm.ReasonAlreadyApplied || got.Changed || got.Updated || got.Rejected {
				r.Violation("replayed-index-not-already-applied:"+variant, map[string]any{"index": e.Index, "applied": replayedBelow, "kind": e.Cmd.Kind, "result": c18ResultJSON(got)})
			}
			continue
		}
		want := ref.results[i]
		if c18ResultJSON(got) != c18ResultJSON(want) {
			r.Violation("result-differs-from-one-by-one:"+variant+":"+string(e.Cmd.Kind), map[string]any{"entry": i, "index": e.Index, "kind": e.Cmd.Kind, "one_by_one": c18ResultJSON(want), "batched": c18ResultJSON(got), "cmd": string(e.Raw)})
		}
		if got.Changed {
			sawChanged = true
		}
		if got.Rejected {
			sawRejected = true
		}
	}
	if got, want := m.canon, ref.states[stateIdx]; !bytes.Equal(got, want) {
		r.Violation("state-differs-from-one-by-one:"+variant, map[string]any{"after_entry": stateIdx, "index": ref.entries[stateIdx].Index, "one_by_one": string(want), "variant": string(got), "lo": lo, "hi": hi})
	}
	return sawChanged && sawRejected
}

func c18RunReference(r *verifkit.Run, rng *rand.Rand, dir string, n int) *c18Ref {
	g := newC18Gen(rng)
	a, err := c18NewFileMachine(r, filepath.Join(dir, "a.json"))
	if err != nil {
		r.Inconclusive("reference machine: " + err.Error())
		return nil
	}
	ref := &c18Ref{flav: g.flavours}
	var index, term uint64 = 0, 1
	for k := 0; k < n; k++ {
		index++
		if rng.IntN(5) == 0 {
			index += uint64(rng.IntN(3)) // gaps: conf changes / empty entries
		}
		if rng.IntN(15) == 0 {
			term++
		}
		before := a.sm.Snapshot(c18Ctx)
		cmd := g.next(before)
		raw, err := command.Encode(cmd)
		if err != nil {
			r.Inconclusive("command.Encode: " + err.Error())
			return nil
		}
		dec, err := command.Decode(raw)
		if err != nil {
			r.Violation("command-decode-of-encode-fails", map[string]any{"err": err.Error(), "raw": string(raw)})
			return nil
		}
		e := c18Entry{Index: index, Term: term, Raw: raw, Cmd: dec, Resend: g.lastResend}
		ref.entries = append(ref.entries, e)
		res := c18ApplyBatch(r, "A", a, ref.entries, k, k+1)
		if res == nil {
			return nil
		}
		got := res[0]
		after := a.sm.Snapshot(c18Ctx)
		ref.results = append(ref.results, got)
		ref.states = append(ref.states, append([]byte(nil), a.canon...))
		ref.snaps = append(ref.snaps, after)

		g.noteResult(cmd, got.Changed || got.Updated)
		class := c18Class(got)
		if e.Resend != "" {
			r.Count("resend_in_reference."+string(e.Resend)+"."+class, 1)
		}
		r.Count("outcome."+class, 1)
		r.Count("kind."+string(cmd.Kind)+"."+class, 1)
		if got.Reason != "" {
			r.Count("reason."+got.Reason, 1)
		}
		wit := func() map[string]any {
			return map[string]any{"entry": k, "index": index, "cmd": string(raw), "result": c18ResultJSON(got), "before": string(c18Canon(before)), "after": string(c18Canon(after))}
		}
		stateSame := bytes.Equal(c18CanonNoIndex(before), c18CanonNoIndex(after))
		if (got.Rejected || got.Noop) && !stateSame {
			r.Violation("rejected-or-noop-changed-state:"+string(cmd.Kind), wit())
		}
		if got.Changed {
			if after.Revision != before.Revision+1 {
				r.Violation("changed-revision-not-plus-one:"+string(cmd.Kind), wit())
			}
		} else if after.Revision != before.Revision {
			r.Violation("revision-moved-without-changed:"+string(cmd.Kind), wit())
		}
		if got.Revision != after.Revision {
			r.Violation("result-revision-differs-from-state:A", wit())
		}
		if after.Revision != 0 {
			if after.AppliedRaftIndex != index || got.AppliedRaftIndex != index {
				r.Violation("applied-index-not-advanced:"+string(cmd.Kind), wit())
			}
		}
	}
	return ref
}

func TestVerifC18(t *testing.T) {
	r := verifkit.Start(t, "C18", "main")
	defer r.Finish()
	r.SetRule("Each case = one PRNG controller command log (25..120 entries, all command kinds, fences built from the observed state then perturbed: stale revision/attempt/epoch/phase, invalid payloads, duplicates and re-delivered old commands; index gaps and term bumps) applied one-by-one (A), under PRNG batch partitions (B), under all 2^(m-1) partitions of a PRNG window (X, started from A's persisted state) and with restarts from the state file plus overlapping replay (C). An evaluation is one ApplyBatch call with all its checks. Non-trivial = a (log, partition) pair whose log holds >=1 stale and >=1 invalid command and whose partition has a batch mixing a changing and a rejected entry; distinct by (outcome multiset of the log, partition shape).")
	r.Assume("Entries of one log have strictly increasing Raft indices (gaps allowed); a replay after restart re-delivers a strictly increasing suffix starting at or below the persisted applied index. The Store (tmpfs state file / memory) never fails.")
	r.Assume("Commands reach the FSM as command.Decode(command.Encode(cmd)), as in controller/raft.applyScheduler; undecodable payloads never reach the FSM (the scheduler fails before ApplyBatch) and are only checked for panic-freedom of command.Decode.")

	base := t.TempDir()
	nCases := r.N(130, 2400)
	winMax := r.N(6, 8)
	for i := 0; i < nCases; i++ {
		if r.Skip(i) {
			continue
		}
		rng := r.Rand(18, uint64(i))
		n := 25 + rng.IntN(96)
		r.BeginCase(i, fmt.Sprintf("log n=%d", n))
		dir := filepath.Join(base, fmt.Sprintf("c%d", i))
		if err := os.MkdirAll(dir, 0o755); err != nil {
			r.Inconclusive("mkdir: " + err.Error())
			return
		}
		ref := c18RunReference(r, rng, dir, n)
		if ref == nil {
			_ = os.RemoveAll(dir)
			continue
		}
		r.Max("max_log_len", n)
		hasStale := false
		hasInvalid := ref.flav["invalid_payload"] > 0 || ref.flav["init_invalid"] > 0
		for k, v := range ref.flav {
			r.Count("gen."+k, v)
			if strings.HasPrefix(k, "stale_") || k == "replayed_old_command" {
				hasStale = hasStale || v > 0
			}
		}
		// outcome multiset fingerprint of the log
		ms := map[string]int{}
		for k, res := range ref.results {
			ms[string(ref.entries[k].Cmd.Kind)+"/"+c18Class(res)+"/"+res.Reason]++
		}
		keys := make([]string, 0, len(ms))
		for k, v := range ms {
			keys = append(keys, fmt.Sprintf("%s=%d", k, v))
		}
		sort.Strings(keys)
		h := fnv.New64a()
		h.Write([]byte(strings.Join(keys, ";")))
		logFP := fmt.Sprintf("%016x", h.Sum64())
		note := func(mixed bool, shape string) {
			if mixed && hasStale && hasInvalid {
				r.Nontrivial(logFP + "|" + shape)
			}
		}

		// ---- B: PRNG partitions over the state file -------------------------
		for v := 0; v < 3; v++ {
			var m *c18Machine
			var err error
			if v == 0 {
				m, err = c18NewFileMachine(r, filepath.Join(dir, fmt.Sprintf("b%d.json", v)))
			} else {
				m, err = c18NewMemMachine(r, nil)
			}
			if err != nil {
				r.Inconclusive("B machine: " + err.Error())
				break
			}
			sizes := c18Partition(rng, n)
			lo, mixed := 0, false
			for _, s := range sizes {
				res := c18ApplyBatch(r, "B", m, ref.entries, lo, lo+s)
				if res == nil {
					break
				}
				if c18Compare(r, "B", ref, m, res, lo, lo+s, lo+s-1, 0, false) {
					mixed = true
				}
				lo += s
			}
			r.Count("partitions.prng", 1)
			note(mixed, c18Shape(sizes))
		}

		// ---- X: exhaustive partitions of a window ---------------------------
		{
			w := winMax
			if w > n {
				w = n
			}
			start := 0
			if rng.IntN(4) != 0 {
				start = rng.IntN(n - w + 1)
			}
			var preload []byte
			if start > 0 && ref.snaps[start-1].Revision != 0 {
				preload = ref.states[start-1]
			}
			for mask := 0; mask < 1<<(w-1); mask++ {
				m, err := c18NewMemMachine(r, preload)
				if err != nil {
					r.Violation("load-of-persisted-state-fails:X", err.Error())
					break
				}
				var sizes []int
				lo, cur, mixed := start, 1, false
				flush := func() bool {
					res := c18ApplyBatch(r, "X", m, ref.entries, lo, lo+cur)
					if res == nil {
						return false
					}
					if c18Compare(r, "X", ref, m, res, lo, lo+cur, lo+cur-1, 0, false) {
						mixed = true
					}
					sizes = append(sizes, cur)
					lo += cur
					cur = 1
					return true
				}
				ok := true
				for b := 0; b < w-1 && ok; b++ {
					if mask&(1<<b) != 0 {
						ok = flush()
					} else {
						cur++
					}
				}
				if ok {
					flush()
				}
				r.Count("partitions.exhaustive", 1)
				note(mixed, fmt.Sprintf("@%d:", start)+c18Shape(sizes))
			}
		}

		// ---- R: restart, then the FIRST command is an idempotent re-send ---------
		// A restarted replica holds a state that went through the codec (state
		// file Load, or raft snapshot -> state.Decode -> Restore); a replica that
		// never restarted holds the state its handlers built. The first command
		// after the restart sees that state untouched by any handler, so a verbatim
		// re-send of the last effective command of a kind (Noop/reject in the
		// reference) is the most shape-sensitive probe. Both restart paths, every
		// re-send position of the log.
		{
			done := 0
			for p := 1; p < n && done < 10; p++ {
				kind := ref.entries[p].Resend
				if kind == "" || ref.snaps[p-1].Revision == 0 {
					continue
				}
				done++
				for _, path := range []string{"state_file", "snapshot_restore"} {
					var m *c18Machine
					var err error
					if path == "state_file" {
						m, err = c18NewMemMachine(r, ref.states[p-1])
						if err != nil {
							r.Violation("load-of-persisted-state-fails:R", err.Error())
							continue
						}
					} else {
						m, err = c18NewMemMachine(r, nil)
						if err != nil {
							continue
						}
						st, derr := state.Decode(ref.states[p-1]) // raft snapshot payload = state.Encode bytes
						if derr != nil {
							r.Violation("decode-of-encode-fails:snapshot", derr.Error())
							continue
						}
						if rerr := m.sm.Restore(c18Ctx, st); rerr != nil {
							r.Violation("restore-of-snapshot-fails:R", rerr.Error())
							continue
						}
					}
					restarted := m.sm.Snapshot(c18Ctx)
					if sec := c18DeepDiff(ref.snaps[p-1], restarted); sec != "" {
						r.Violation("restart-state-not-deep-equal:"+sec, map[string]any{"variant": "R/" + path, "after_entry": p - 1, "never_restarted": c18ShapeJSON(ref.snaps[p-1]), "restarted": c18ShapeJSON(restarted)})
					}
					r.Count("restart_then_idempotent_resend."+path+"."+string(kind)+"."+c18Class(ref.results[p]), 1)
					c18ResendKinds[path+"/"+string(kind)]++
					res := c18ApplyBatch(r, "R", m, ref.entries, p, p+1)
					if res == nil {
						continue
					}
					c18Compare(r, "R/"+path, ref, m, res, p, p+1, p, 0, false)
					if hi := p + 1 + rng.IntN(3); hi > p+1 && hi <= n {
						if res := c18ApplyBatch(r, "R", m, ref.entries, p+1, hi); res != nil {
							c18Compare(r, "R/"+path, ref, m, res, p+1, hi, hi-1, 0, false)
						}
					}
				}
			}
		}

		// ---- C: restart from the state file + overlapping replay -------------
		for v := 0; v < 2; v++ {
			path := filepath.Join(dir, fmt.Sprintf("c%d.json", v))
			m, err := c18NewFileMachine(r, path)
			if err != nil {
				r.Inconclusive("C machine: " + err.Error())
				break
			}
			pos := 0 // next never-applied entry
			mixedAny := false
			var shape []int
			for pos < n {
				// apply a stretch in PRNG batches
				stretch := 1 + rng.IntN(n-pos)
				if rng.IntN(3) == 0 && stretch > 10 {
					stretch = 1 + rng.IntN(10)
				}
				end := pos + stretch
				for pos < end {
					s := 1 + rng.IntN(8)
					if pos+s > end {
						s = end - pos
					}
					res := c18ApplyBatch(r, "C", m, ref.entries, pos, pos+s)
					if res == nil {
						pos = n + 1
						break
					}
					if c18Compare(r, "C", ref, m, res, pos, pos+s, pos+s-1, 0, false) {
						mixedAny = true
					}
					shape = append(shape, s)
					pos += s
				}
				if pos > n {
					break
				}
				// restart: new machine over the same file
				m2, err := c18NewFileMachine(r, path)
				if err != nil {
					r.Violation("load-of-persisted-state-fails:C", map[string]any{"err": err.Error(), "after_entry": pos - 1})
					pos = n + 1
					break
				}
				r.Count("restarts", 1)
				reloaded := m2.sm.Snapshot(c18Ctx)
				c18CheckState(r, "reloaded", reloaded)
				want := ref.snaps[pos-1]
				if want.Revision == 0 {
					if reloaded.Revision != 0 {
						r.Violation("restart-state-differs", map[string]any{"after_entry": pos - 1, "got": string(c18Canon(reloaded))})
					}
				} else if !bytes.Equal(c18Canon(reloaded), ref.states[pos-1]) {
					r.Violation("restart-state-differs", map[string]any{"after_entry": pos - 1, "got": string(c18Canon(reloaded)), "want": string(ref.states[pos-1])})
				} else if sec := c18DeepDiff(want, reloaded); sec != "" {
					r.Violation("restart-state-not-deep-equal:"+sec, map[string]any{"variant": "C", "after_entry": pos - 1, "never_restarted": c18ShapeJSON(want), "reloaded": c18ShapeJSON(reloaded)})
				}
				m = m2
				applied := reloaded.AppliedRaftIndex
				replayActive := reloaded.Revision != 0
				// replay from an earlier entry, overlapping applied indices, and
				// run on into new entries inside the same batches
				from := pos - rng.IntN(pos+1)
				if rng.IntN(3) == 0 && pos > 6 {
					from = pos - rng.IntN(6)
				}
				// (if nothing was persisted yet the machine is empty again and
				// the re-delivered entries are simply applied a second time; all
				// of them were stateless pre-init rejects in A as well.)
				upto := pos
				if pos < n {
					upto = pos + rng.IntN(n-pos+1)
				}
				q := from
				for q < upto {
					s := 1 + rng.IntN(8)
					if q+s > upto {
						s = upto - q
					}
					res := c18ApplyBatch(r, "C", m, ref.entries, q, q+s)
					if res == nil {
						pos = n + 1
						break
					}
					stateIdx := q + s - 1
					if replayActive && stateIdx < pos-1 {
						stateIdx = pos - 1
					}
					if c18Compare(r, "C", ref, m, res, q, q+s, stateIdx, applied, replayActive) {
						mixedAny = true
					}
					shape = append(shape, -s)
					q += s
				}
				if pos > n {
					break
				}
				if upto > pos {
					pos = upto
				}
			}
			if pos == n {
				final := m.sm.Snapshot(c18Ctx)
				if !bytes.Equal(c18Canon(final), ref.states[n-1]) {
					r.Violation("final-state-differs:C", map[string]any{"got": string(c18Canon(final)), "want": string(ref.states[n-1])})
				}
			}
			note(mixedAny, "restart:"+c18Shape(shape))
		}

		// ---- command.Decode on damaged payloads: error or value, no panic ----
		for v := 0; v < 4; v++ {
			raw := append([]byte(nil), ref.entries[rng.IntN(n)].Raw...)
			switch rng.IntN(6) {
			case 0:
				raw = raw[:rng.IntN(len(raw))]
			case 1:
				raw[rng.IntN(len(raw))] ^= byte(1 << rng.IntN(8))
			case 2:
				raw = append(raw, []byte(` {"x":1}`)...)
			case 3:
				raw = bytes.Replace(raw, []byte(`"version":1`), []byte(`"version":2`), 1)
			case 4:
				raw = bytes.Replace(raw, []byte(`"kind"`), []byte(`"kind_x":1,"kind"`), 1)
			default:
				raw = []byte(strings.Repeat("[", 1+rng.IntN(2000)))
			}
			var derr error
			var cmd command.Command
			if r.Guard("command.Decode", string(raw), func() { cmd, derr = command.Decode(raw) }) {
				continue
			}
			r.Eval(1)
			if derr != nil {
				r.Count("damaged_payload.rejected", 1)
				continue
			}
			r.Count("damaged_payload.decoded", 1)
			// still a syntactically valid command: the FSM must not panic on it
			var preload []byte
			if ref.snaps[n-1].Revision != 0 {
				preload = ref.states[n-1]
			}
			m, err := c18NewMemMachine(r, preload)
			if err != nil {
				continue
			}
			extra := []c18Entry{{Index: ref.entries[n-1].Index + 1, Term: ref.entries[n-1].Term, Raw: raw, Cmd: cmd}}
			c18ApplyBatch(r, "damaged", m, extra, 0, 1)
		}

		if r.WantSample() && hasStale && hasInvalid {
			var cmds []string
			for k := 0; k < 6 && k < n; k++ {
				cmds = append(cmds, fmt.Sprintf("#%d %s -> %s", ref.entries[k].Index, ref.entries[k].Cmd.Kind, c18ResultJSON(ref.results[k])))
			}
			r.Sample(map[string]any{"case": i, "log_len": n, "generator_flavours": ref.flav, "first_entries": cmds, "final_state": string(ref.states[n-1])})
		}
		_ = os.RemoveAll(dir)
		if r.NumViolations() > 40 {
			r.Note("stopped_early", "more than 40 violations recorded")
			break
		}
	}
	zeroIn, zeroSplit := []string{}, []string{}
	for _, k := range c18AllKinds {
		if c18PairsInBatch[k] == 0 {
			zeroIn = append(zeroIn, string(k))
		}
		if c18PairsSplit[k] == 0 {
			zeroSplit = append(zeroSplit, string(k))
		}
	}
	zeroResend := []string{}
	for _, path := range []string{"state_file", "snapshot_restore"} {
		for _, k := range c18AllKinds {
			if c18ResendKinds[path+"/"+string(k)] == 0 {
				zeroResend = append(zeroResend, path+"/"+string(k))
			}
		}
	}
	r.Note("kinds_without_restart_followed_by_idempotent_resend", zeroResend)
	r.Note("kinds_without_dependent_pair_in_one_batch", zeroIn)
	r.Note("kinds_without_dependent_pair_split_by_boundary", zeroSplit)
}
