//go:build verif

package statefile_test

// C19 — Controller state file is replaced atomically.
//
// Three monitors over the real statefile.Store / state.Decode:
//
//  kill     a child process (re-exec of this test binary) performs a fixed
//           sequence of Save calls on a real directory; the parent runs it under
//           `strace -f -e inject=<syscall>:signal=SIGKILL:when=N`, sweeping N
//           over every syscall class Save uses, so the process dies at every
//           syscall boundary of Save. After each kill the parent calls
//           Store.Load: the result must be exactly one of the complete states
//           the child may have published (previous or in-flight), never an
//           error once a first save completed, never anything else.
//  systrace the same child under `strace -f -y`; an offline checker verifies
//           the durability ordering per Save: last write to the temp file <
//           fsync(temp) < rename(temp→final) (the directory fsync is counted only).
//           (A process kill keeps the page cache, so a dropped fsync is only
//           observable as a syscall-order violation.)
//  corrupt  bytes of a saved file are flipped / truncated / extended /
//           spliced at PRNG offsets; Load must reject the file, or, if it
//           accepts it, return a state whose canonical encoding is exactly the
//           saved encoding (semantically neutral corruption such as JSON
//           key-case or whitespace).

import (
	"bufio"
	"bytes"
	"context"
	"fmt"
	"math/rand/v2"
	"os"
	"os/exec"
	"path/filepath"
	"regexp"
	"runtime"
	"sort"
	"strconv"
	"strings"
	"testing"
	"time"

	"github.com/WuKongIM/WuKongIM/pkg/controller/state"
	"github.com/WuKongIM/WuKongIM/pkg/controller/statefile"
	"github.com/WuKongIM/WuKongIM/pkg/verifkit"
)

const c19ChildEnv = "VERIF_C19_CHILD_DIR"

// c19State builds the k-th valid cluster state of a deterministic family
// (distinct revision, node count and name lengths so encodings differ in size).
func c19State(seed uint64, k int) state.ClusterState {
	table, err := state.BuildInitialHashSlotTable(1, 16)
	if err != nil {
		panic(err)
	}
	rng := rand.New(rand.NewPCG(seed, uint64(k)*7919+1))
	nodes := []state.Node{
		{NodeID: 1, Name: "n1", Addr: "n1", Roles: []state.NodeRole{state.NodeRoleControllerVoter, state.NodeRoleData}, JoinState: state.NodeJoinStateActive, Status: state.NodeStatusAlive, CapacityWeight: 100},
		{NodeID: 2, Name: "n2", Addr: "n2", Roles: []state.NodeRole{state.NodeRoleControllerVoter, state.NodeRoleData}, JoinState: state.NodeJoinStateActive, Status: state.NodeStatusAlive, CapacityWeight: 100},
		{NodeID: 3, Name: "n3", Addr: "n3", Roles: []state.NodeRole{state.NodeRoleData}, JoinState: state.NodeJoinStateActive, Status: state.NodeStatusAlive, CapacityWeight: 100},
	}
	extra := rng.IntN(5)
	for i := 0; i < extra; i++ {
		id := uint64(4 + i)
		name := fmt.Sprintf("node-%d-%s", id, strings.Repeat("x", rng.IntN(40)))
		nodes = append(nodes, state.Node{NodeID: id, Name: name, Addr: fmt.Sprintf("10.0.0.%d:7000", id), Roles: []state.NodeRole{state.NodeRoleData}, JoinState: state.NodeJoinStateActive, Status: state.NodeStatusAlive, CapacityWeight: uint32(1 + rng.IntN(200))})
	}
	return state.ClusterState{
		SchemaVersion:    state.CurrentSchemaVersion,
		ClusterID:        "wk-verif-c19",
		Revision:         uint64(100 + k),
		AppliedRaftIndex: uint64(1000 + 10*k + rng.IntN(10)),
		UpdatedAt:        time.Date(2026, 5, 24, 10, 0, k%60, 0, time.UTC),
		Config:           state.ClusterConfig{SlotCount: 1, HashSlotCount: 16, ReplicaCount: 3},
		Controllers: []state.ControllerVoter{
			{NodeID: 1, Addr: "n1", Role: state.ControllerRoleVoter},
			{NodeID: 2, Addr: "n2", Role: state.ControllerRoleVoter},
		},
		Nodes:     nodes,
		Slots:     []state.SlotAssignment{{SlotID: 1, DesiredPeers: []uint64{1, 2, 3}, ConfigEpoch: uint64(1 + k), PreferredLeader: uint64(1 + k%3)}},
		HashSlots: table,
	}
}

const c19Saves = 4

// c19SaveInput is what a caller hands to Save for generation k. Odd generations
// do what the controller does in practice: start from the state read back from
// the store (which carries the checksum of the PREVIOUS generation) and mutate
// it; the content is made equal to c19State(seed, k) so the expected encodings
// do not depend on the path taken.
func c19SaveInput(st *statefile.Store, seed uint64, k int) state.ClusterState {
	want := c19State(seed, k)
	if k%2 == 1 {
		if prev, err := st.Load(context.Background()); err == nil {
			want.Checksum = prev.Checksum // stale checksum travels with the loaded value
		}
	}
	return want
}

// c19ShortState is the shortest member of the family (no extra nodes, short ids).
func c19ShortState() state.ClusterState {
	st := c19State(0, 0)
	st.Nodes = st.Nodes[:3]
	st.Revision = 7
	st.AppliedRaftIndex = 7
	return st
}

// TestVerifC19Child is the crash victim. It does nothing unless selected by env.
func TestVerifC19Child(t *testing.T) {
	dir := os.Getenv(c19ChildEnv)
	if dir == "" {
		t.Skip("child only")
	}
	runtime.LockOSThread()
	seed, _ := strconv.ParseUint(os.Getenv("VERIF_C19_CHILD_SEED"), 10, 64)
	prog, err := os.OpenFile(filepath.Join(dir, "progress"), os.O_CREATE|os.O_WRONLY|os.O_APPEND, 0o644)
	if err != nil {
		t.Fatal(err)
	}
	st := statefile.New(filepath.Join(dir, "cluster-state.json"))
	for k := 0; k < c19Saves; k++ {
		fmt.Fprintf(prog, "begin %d\n", k)
		if err := st.Save(context.Background(), c19SaveInput(st, seed, k)); err != nil {
			fmt.Fprintf(prog, "error %d %v\n", k, err)
			t.Fatalf("save %d: %v", k, err)
		}
		fmt.Fprintf(prog, "end %d\n", k)
	}
	fmt.Fprintf(prog, "done\n")
}

// c19Progress parses the child's progress file: last begun and last ended save (-1 if none).
func c19Progress(dir string) (begun, ended int, done bool) {
	begun, ended = -1, -1
	b, err := os.ReadFile(filepath.Join(dir, "progress"))
	if err != nil {
		return
	}
	sc := bufio.NewScanner(bytes.NewReader(b))
	for sc.Scan() {
		f := strings.Fields(sc.Text())
		if len(f) == 2 && f[0] == "begin" {
			begun, _ = strconv.Atoi(f[1])
		}
		if len(f) == 2 && f[0] == "end" {
			ended, _ = strconv.Atoi(f[1])
		}
		if len(f) == 1 && f[0] == "done" {
			done = true
		}
	}
	return
}

func c19DiskDir(t *testing.T) string {
	base := os.Getenv("VERIF_DISK")
	if base == "" {
		base = os.TempDir()
	}
	d, err := os.MkdirTemp(base, "c19.")
	if err != nil {
		t.Fatal(err)
	}
	t.Cleanup(func() { os.RemoveAll(d) })
	return d
}

func c19Self() string {
	if s := os.Getenv("VERIF_SELF"); s != "" {
		return s
	}
	s, _ := os.Executable()
	return s
}

func c19ChildCmd(dir string, seed uint64, straceArgs ...string) *exec.Cmd {
	args := append([]string{}, straceArgs...)
	args = append(args, c19Self(), "-test.run", "^TestVerifC19Child$", "-test.count=1")
	cmd := exec.Command("strace", args...)
	env := []string{}
	for _, e := range os.Environ() {
		if strings.HasPrefix(e, "GORACE=") || strings.HasPrefix(e, "VERIF_OUT=") || strings.HasPrefix(e, "GOMAXPROCS=") {
			continue
		}
		env = append(env, e)
	}
	env = append(env, c19ChildEnv+"="+dir, "VERIF_C19_CHILD_SEED="+strconv.FormatUint(seed, 10), "GOMAXPROCS=1", "VERIF_OUT=")
	cmd.Env = env
	return cmd
}

func TestVerifC19Kill(t *testing.T) {
	r := verifkit.Start(t, "C19", "kill")
	defer r.Finish()
	r.SetRule("child performs 4 Saves of distinct valid states on a real directory; parent kills it with SIGKILL injected by strace at the N-th call of each syscall class Save uses (openat, write, fsync, close, renameat, unlinkat, fcntl), N swept over the whole run; after each kill Store.Load must return exactly the last completed or the in-flight state. Non-trivial = the kill landed while a Save was in flight (begin logged, end not); distinct by (syscall class, save index, observed state: old/new, temp file present).")
	r.Assume("SIGKILL keeps the page cache: power loss is judged by the syscall-order unit, not here")
	if _, err := exec.LookPath("strace"); err != nil {
		r.Inconclusive("strace not found")
		return
	}
	seed := r.Seed
	want := make([][]byte, c19Saves)
	for k := range want {
		b, err := state.Encode(c19State(seed, k))
		if err != nil {
			t.Fatalf("encode %d: %v", k, err)
		}
		want[k] = b
	}
	classes := []string{"openat", "write", "fsync", "close", "renameat", "unlinkat", "fcntl", "newfstatat"}
	maxN := r.N(70, 260)
	stride := r.N(1, 1)
	caseIdx := 0
	for _, cl := range classes {
		missesInRow := 0
		for n := 1; n <= maxN; n += stride {
			caseIdx++
			if r.Skip(caseIdx) {
				continue
			}
			r.BeginCase(caseIdx, fmt.Sprintf("kill at %s #%d", cl, n))
			dir := c19DiskDir(t)
			cmd := c19ChildCmd(dir, seed, "-f", "-o", "/dev/null", "-e", "trace="+cl, "-e", fmt.Sprintf("inject=%s:signal=SIGKILL:when=%d", cl, n))
			out, _ := cmd.CombinedOutput()
			r.Eval(1)
			begun, ended, done := c19Progress(dir)
			if done {
				// the injection point was never reached by any thread: sweep of this class is over
				r.Count("kill.not_reached."+cl, 1)
				missesInRow++
				os.RemoveAll(dir)
				if missesInRow >= 3 {
					break
				}
				continue
			}
			missesInRow = 0
			r.Count("kill.killed."+cl, 1)
			st := statefile.New(filepath.Join(dir, "cluster-state.json"))
			got, err := st.Load(context.Background())
			tmps, _ := filepath.Glob(filepath.Join(dir, "cluster-state.json.*.tmp"))
			wit := map[string]any{"class": cl, "n": n, "begun": begun, "ended": ended, "temp_files": len(tmps), "child_output_tail": c19Tail(string(out), 400)}
			if err != nil {
				switch {
				case ended >= 0:
					r.Violation("load-error-after-completed-save", c19With(wit, "err", err.Error()))
				case c19Exists(filepath.Join(dir, "cluster-state.json")):
					// first save in flight: rename is atomic, so the main file may only exist complete
					r.Violation("partial-file-visible-during-first-save", c19With(wit, "err", err.Error()))
				default:
					r.Count("kill.no_file_yet", 1)
				}
				os.RemoveAll(dir)
				continue
			}
			enc, eerr := state.Encode(got)
			if eerr != nil {
				r.Violation("loaded-state-does-not-reencode", c19With(wit, "err", eerr.Error()))
				os.RemoveAll(dir)
				continue
			}
			which := -1
			for k := range want {
				if bytes.Equal(enc, want[k]) {
					which = k
				}
			}
			lo, hi := ended, begun
			if lo < 0 {
				lo = 0
			}
			switch {
			case which < 0:
				r.Violation("loaded-state-is-no-saved-state", c19With(wit, "loaded_revision", got.Revision))
			case which < lo || which > hi:
				r.Violation("loaded-state-outside-prev-or-new", c19With(wit, "loaded_save", which))
			default:
				obs := "old"
				if which == begun && begun != ended {
					obs = "new"
				}
				if begun != ended {
					r.Nontrivial(fmt.Sprintf("%s|save%d|%s|tmp%d", cl, begun, obs, len(tmps)))
					r.Count("kill.inflight."+obs, 1)
				} else {
					r.Count("kill.between_saves", 1)
				}
				if r.WantSample() && begun != ended {
					r.Sample(map[string]any{"killed_at": fmt.Sprintf("%s #%d", cl, n), "save_in_flight": begun, "last_completed": ended, "loaded_save": which, "temp_files_left": len(tmps)})
				}
			}
			// Continuation after the crash: a restarted process keeps saving into the same
			// directory (whatever the killed Save left behind). Every later completed Save
			// must again load back exactly, for states shorter and longer than any leftover.
			for j, cs := range []state.ClusterState{c19ShortState(), c19State(seed, 50+n%7), c19ShortState()} {
				wantEnc, eerr := state.Encode(cs)
				if eerr != nil {
					t.Fatalf("encode continuation state: %v", eerr)
				}
				if serr := st.Save(context.Background(), cs); serr != nil {
					r.Violation("save-after-crash-failed", c19With(wit, "err", serr.Error()))
					break
				}
				got2, lerr := st.Load(context.Background())
				if lerr != nil {
					r.Violation("load-error-after-post-crash-save", c19With(c19With(wit, "err", lerr.Error()), "continuation_step", j))
					break
				}
				enc2, _ := state.Encode(got2)
				if !bytes.Equal(enc2, wantEnc) {
					r.Violation("post-crash-save-loaded-differently", c19With(wit, "continuation_step", j))
					break
				}
				r.Count("kill.post_crash_save_roundtrips", 1)
				// and once more the way the controller does it: mutate the value just loaded
				// (it carries that generation's checksum) and save it again
				mut := got2
				mut.Revision += 1000
				mut.AppliedRaftIndex += 1000
				expect := mut
				expect.Checksum = ""
				wantMut, eerr2 := state.Encode(expect)
				if eerr2 != nil {
					t.Fatalf("encode mutated state: %v", eerr2)
				}
				if serr := st.Save(context.Background(), mut); serr != nil {
					r.Violation("save-of-loaded-then-mutated-state-failed", c19With(wit, "err", serr.Error()))
					break
				}
				got3, lerr3 := st.Load(context.Background())
				if lerr3 != nil {
					r.Violation("load-error-after-save-of-loaded-then-mutated-state", c19With(c19With(wit, "err", lerr3.Error()), "continuation_step", j))
					break
				}
				enc3, _ := state.Encode(got3)
				if !bytes.Equal(enc3, wantMut) {
					r.Violation("loaded-then-mutated-state-loaded-differently", c19With(wit, "continuation_step", j))
					break
				}
				r.Count("kill.loaded_then_mutated_save_roundtrips", 1)
			}
			os.RemoveAll(dir)
		}
	}
}

func c19Exists(p string) bool { _, err := os.Stat(p); return err == nil }

func c19With(m map[string]any, k string, v any) map[string]any {
	o := map[string]any{}
	for a, b := range m {
		o[a] = b
	}
	o[k] = v
	return o
}

func c19Tail(s string, n int) string {
	if len(s) > n {
		return s[len(s)-n:]
	}
	return s
}

var c19LineRe = regexp.MustCompile(`^(\d+)\s+(.*)$`)

type c19Ev struct {
	line int
	kind string // write-tmp, fsync-tmp, rename, fsync-dir, begin, end, open-final-write
	arg  string
}

func TestVerifC19Systrace(t *testing.T) {
	r := verifkit.Start(t, "C19", "systrace")
	defer r.Finish()
	r.SetRule("child Save sequence under `strace -f -y`; per Save the trace must show: last write(temp) < fsync(temp) < rename(temp→final) before the end marker, and no write to the final path in place (directory fsync after rename is counted, not asserted: without it the file is still previous-or-new). Non-trivial = a Save whose four events were all found; distinct by (save index, run).")
	if _, err := exec.LookPath("strace"); err != nil {
		r.Inconclusive("strace not found")
		return
	}
	runs := r.N(3, 12)
	for run := 0; run < runs; run++ {
		if r.Skip(run) {
			continue
		}
		r.BeginCase(run, "systrace run")
		dir := c19DiskDir(t)
		trace := filepath.Join(dir, "trace.txt")
		cmd := c19ChildCmd(dir, r.Seed+uint64(run), "-f", "-y", "-s", "64", "-o", trace, "-e", "trace=openat,write,pwrite64,fsync,fdatasync,rename,renameat,renameat2,close,unlinkat")
		out, err := cmd.CombinedOutput()
		_, _, done := c19Progress(dir)
		if err != nil || !done {
			r.Inconclusive(fmt.Sprintf("traced child did not finish: %v %s", err, c19Tail(string(out), 300)))
			continue
		}
		tb, _ := os.ReadFile(trace)
		final := filepath.Join(dir, "cluster-state.json")
		var evs []c19Ev
		lines := strings.Split(string(tb), "\n")
		// resumed lines complete an earlier unfinished call of the same pid
		pending := map[string]string{}
		for i, ln := range lines {
			m := c19LineRe.FindStringSubmatch(ln)
			if m == nil {
				continue
			}
			pid, rest := m[1], m[2]
			if strings.HasSuffix(rest, "<unfinished ...>") {
				pending[pid] = strings.TrimSuffix(rest, "<unfinished ...>")
				// a rename is timed at its START (conservative for "fsync before rename")
				if strings.HasPrefix(rest, "rename") && strings.Contains(rest, final) {
					evs = append(evs, c19Ev{i, "rename", rest})
					pending[pid] = "SKIP"
				}
				continue
			}
			if strings.HasPrefix(rest, "<... ") {
				head := pending[pid]
				delete(pending, pid)
				if head == "SKIP" {
					continue
				}
				rest = head + rest
			}
			switch {
			case strings.HasPrefix(rest, "write(") || strings.HasPrefix(rest, "pwrite64("):
				switch {
				case strings.Contains(rest, "/progress>"):
					if strings.Contains(rest, `"begin `) {
						evs = append(evs, c19Ev{i, "begin", rest})
					} else if strings.Contains(rest, `"end `) {
						evs = append(evs, c19Ev{i, "end", rest})
					}
				case strings.Contains(rest, ".tmp>"):
					evs = append(evs, c19Ev{i, "write-tmp", rest})
				case strings.Contains(rest, "<"+final+">"):
					evs = append(evs, c19Ev{i, "write-final", rest})
				}
			case strings.HasPrefix(rest, "fsync(") || strings.HasPrefix(rest, "fdatasync("):
				switch {
				case strings.Contains(rest, ".tmp>"):
					evs = append(evs, c19Ev{i, "fsync-tmp", rest})
				case strings.Contains(rest, "<"+dir+">"):
					evs = append(evs, c19Ev{i, "fsync-dir", rest})
				}
			case strings.HasPrefix(rest, "rename"):
				if strings.Contains(rest, final) {
					evs = append(evs, c19Ev{i, "rename", rest})
				}
			}
		}
		sort.Slice(evs, func(a, b int) bool { return evs[a].line < evs[b].line })
		// split by begin/end markers
		save := -1
		var cur []c19Ev
		r.Eval(1)
		for _, e := range evs {
			switch e.kind {
			case "begin":
				save++
				cur = nil
			case "end":
				lastWrite, fsyncTmp, rename, fsyncDir := -1, -1, -1, -1
				for _, c := range cur {
					switch c.kind {
					case "write-tmp":
						lastWrite = c.line
					case "fsync-tmp":
						fsyncTmp = c.line
					case "rename":
						if rename < 0 {
							rename = c.line
						}
					case "fsync-dir":
						fsyncDir = c.line
					case "write-final":
						r.Violation("final-path-written-in-place", map[string]any{"save": save, "line": c.arg})
					}
				}
				wit := map[string]any{"save": save, "last_write_tmp": lastWrite, "fsync_tmp": fsyncTmp, "rename": rename, "fsync_dir": fsyncDir, "end": e.line}
				switch {
				case rename < 0:
					r.Violation("no-rename-to-final-path", wit)
				case lastWrite < 0:
					r.Violation("no-temp-file-write", wit)
				case fsyncTmp < 0 || fsyncTmp < lastWrite || fsyncTmp > rename:
					r.Violation("temp-not-fsynced-between-last-write-and-rename", wit)
				default:
					// The directory fsync after rename decides whether the NEW state survives
					// power loss; without it the file is still previous-or-new, which is all the
					// statement requires. Observed and counted, not asserted.
					if fsyncDir >= rename && fsyncDir <= e.line {
						r.Count("systrace.dir_fsync_after_rename_observed", 1)
					} else {
						r.Count("systrace.dir_fsync_after_rename_missing", 1)
					}
					r.Nontrivial(fmt.Sprintf("run%d|save%d", run, save))
					r.Count("systrace.saves_ordered_ok", 1)
					if r.WantSample() {
						r.Sample(wit)
					}
				}
				cur = nil
			default:
				cur = append(cur, e)
			}
		}
		if save+1 != c19Saves {
			r.Inconclusive(fmt.Sprintf("trace shows %d saves, expected %d", save+1, c19Saves))
		}
		os.RemoveAll(dir)
	}
}

func TestVerifC19Corrupt(t *testing.T) {
	r := verifkit.Start(t, "C19", "corrupt")
	defer r.Finish()
	r.SetRule("a saved state file is corrupted (bit flip, byte replace, truncate, extend, splice of two saved files, digit edit inside the checksum or a numeric field) at PRNG offsets; Load must fail, or return a state whose canonical encoding equals the saved bytes. Non-trivial = corruption changed ≥1 byte of the file; distinct by (mutation kind, offset bucket of 16, outcome class).")
	dir := t.TempDir()
	n := r.N(60_000, 1_200_000)
	path := filepath.Join(dir, "cluster-state.json")
	st := statefile.New(path)
	var files [][]byte
	for k := 0; k < 6; k++ {
		if err := st.Save(context.Background(), c19State(r.Seed, k)); err != nil {
			t.Fatalf("save: %v", err)
		}
		b, err := os.ReadFile(path)
		if err != nil {
			t.Fatal(err)
		}
		files = append(files, b)
		got, err := st.Load(context.Background())
		if err != nil {
			r.Violation("clean-file-rejected", err.Error())
			continue
		}
		enc, _ := state.Encode(got)
		if !bytes.Equal(enc, b) {
			r.Violation("clean-roundtrip-differs", map[string]any{"k": k})
		}
	}
	rng := r.Rand(19)
	for i := 0; i < n; i++ {
		if r.Skip(i) {
			continue
		}
		orig := files[rng.IntN(len(files))]
		mut := append([]byte(nil), orig...)
		kind := ""
		off := 0
		switch rng.IntN(9) {
		case 0:
			off = rng.IntN(len(mut))
			mut[off] ^= 1 << rng.IntN(8)
			kind = "bitflip"
		case 1:
			off = rng.IntN(len(mut))
			mut[off] = byte(rng.IntN(256))
			kind = "byte"
		case 2:
			off = rng.IntN(len(mut))
			mut = mut[:off]
			kind = "truncate"
		case 3:
			extra := make([]byte, 1+rng.IntN(8))
			for j := range extra {
				extra[j] = " \n\t{}[]0a\""[rng.IntN(10)]
			}
			off = len(mut)
			mut = append(mut, extra...)
			kind = "extend"
		case 4:
			other := files[rng.IntN(len(files))]
			off = rng.IntN(len(mut))
			if off < len(other) {
				mut = append(append([]byte(nil), mut[:off]...), other[off:]...)
			}
			kind = "splice"
		case 5:
			// edit a digit somewhere (numeric fields, checksum hex)
			var idx []int
			for j, c := range mut {
				if c >= '0' && c <= '9' {
					idx = append(idx, j)
				}
			}
			off = idx[rng.IntN(len(idx))]
			mut[off] = byte('0' + (int(mut[off]-'0')+1+rng.IntN(8))%10)
			kind = "digit"
		case 6:
			// delete a byte range
			off = rng.IntN(len(mut))
			l := 1 + rng.IntN(6)
			if off+l > len(mut) {
				l = len(mut) - off
			}
			mut = append(mut[:off:off], mut[off+l:]...)
			kind = "delete"
		case 7:
			// duplicate a byte range
			off = rng.IntN(len(mut))
			l := 1 + rng.IntN(12)
			if off+l > len(mut) {
				l = len(mut) - off
			}
			seg := append([]byte(nil), mut[off:off+l]...)
			mut = append(mut[:off+l:off+l], append(seg, mut[off+l:]...)...)
			kind = "duplicate"
		case 8:
			// checksum field edits
			p := bytes.Index(mut, []byte("crc32c:"))
			if p >= 0 {
				off = p + 7 + rng.IntN(8)
				mut[off] = "0123456789abcdef"[rng.IntN(16)]
			}
			kind = "checksum"
		}
		r.Eval(1)
		same := false
		for _, f := range files {
			// a splice at a common prefix reproduces another complete saved file: not a corruption
			if bytes.Equal(mut, f) {
				same = true
			}
		}
		if same {
			r.Count("corrupt.noop", 1)
			continue
		}
		if i%4096 == 0 {
			r.BeginCase(i, kind)
		}
		if err := os.WriteFile(path, mut, 0o644); err != nil {
			t.Fatal(err)
		}
		var got state.ClusterState
		var err error
		if r.Guard("Load", map[string]any{"kind": kind, "off": off}, func() { got, err = st.Load(context.Background()) }) {
			continue
		}
		outcome := "rejected"
		if err == nil {
			enc, eerr := state.Encode(got)
			if eerr != nil || !bytes.Equal(enc, orig) {
				r.Violation("corrupted-file-loaded-as-different-state:"+kind, map[string]any{"kind": kind, "offset": off, "orig_len": len(orig), "mut_len": len(mut), "around": string(mut[c19Max(0, off-30):c19Min(len(mut), off+30)]), "loaded_revision": got.Revision})
				continue
			}
			outcome = "accepted-same-state"
			r.Count("corrupt.accepted_semantically_equal."+kind, 1)
		} else {
			r.Count("corrupt.rejected."+kind, 1)
		}
		r.Nontrivial(fmt.Sprintf("%s|%d|%s", kind, off/16, outcome))
		if r.WantSample() && i%9973 == 1 {
			r.Sample(map[string]any{"kind": kind, "offset": off, "outcome": outcome})
		}
	}
}

func c19Max(a, b int) int {
	if a > b {
		return a
	}
	return b
}
func c19Min(a, b int) int {
	if a < b {
		return a
	}
	return b
}
