//go:build verif

package state_test

// C20, controller side: the durable range table built by
// pkg/controller/state.BuildInitialHashSlotTable must map every hash slot to
// exactly one physical slot (ranges disjoint, covering 0..h-1, non-zero
// targets), each slot within one hash slot of its ideal share, and a cluster
// state carrying it must survive Encode/Decode with the table unchanged.

import (
	"fmt"
	"reflect"
	"testing"
	"time"

	"github.com/WuKongIM/WuKongIM/pkg/controller/state"
	"github.com/WuKongIM/WuKongIM/pkg/verifkit"
)

func TestVerifC20CtlState(t *testing.T) {
	r := verifkit.Start(t, "C20", "ctlstate")
	defer r.Finish()
	r.SetRule("BuildInitialHashSlotTable(slots, hashSlots) for every hashSlots in 1..H (H=600 quick, 4096 thorough) plus {1024,4095,4096,65535} and every slots in 1..min(64,hashSlots) plus rejected combinations; non-trivial = accepted table with >=2 slots; distinct by (slots, hashSlots).")
	maxH := r.N(600, 4096)
	hs := make([]int, 0, maxH+4)
	for h := 1; h <= maxH; h++ {
		hs = append(hs, h)
	}
	hs = append(hs, 1024, 4095, 4096, 65535)
	idx := 0
	for _, h := range hs {
		r.BeginCase(idx, fmt.Sprintf("h=%d", h))
		idx++
		for s := 0; s <= 65; s++ {
			r.Eval(1)
			var tbl state.HashSlotTable
			var err error
			if r.Guard("BuildInitialHashSlotTable", map[string]int{"slots": s, "hash_slots": h}, func() {
				tbl, err = state.BuildInitialHashSlotTable(uint32(s), uint16(h))
			}) {
				continue
			}
			if err != nil {
				// rejecting is always allowed by the statement
				r.Count("rejected", 1)
				if s >= 1 && s <= h {
					r.Count("rejected_feasible_combination", 1)
				}
				continue
			}
			r.Count("accepted", 1)
			w := func() any { return map[string]any{"slots": s, "hash_slots": h, "table": tbl} }
			if int(tbl.SlotCount) != h {
				r.Violation("ctl-table-count-differs", w())
				continue
			}
			owner := make([]uint32, h)
			counts := map[uint32]int{}
			bad := false
			for _, rg := range tbl.Ranges {
				if rg.SlotID == 0 || rg.From > rg.To || int(rg.To) >= h {
					r.Violation("ctl-range-invalid", w())
					bad = true
					break
				}
				for x := int(rg.From); x <= int(rg.To); x++ {
					if owner[x] != 0 {
						r.Violation("ctl-hashslot-mapped-twice", w())
						bad = true
						break
					}
					owner[x] = rg.SlotID
					counts[rg.SlotID]++
				}
				if bad {
					break
				}
			}
			if bad {
				continue
			}
			for x, o := range owner {
				if o == 0 {
					r.Violation("ctl-hashslot-unmapped", map[string]any{"hash_slot": x, "case": w()})
					bad = true
					break
				}
			}
			if bad {
				continue
			}
			if s > 0 {
				lo, hi := h/s, (h+s-1)/s
				if len(counts) != s {
					r.Violation("ctl-slot-without-share", w())
				}
				for id, c := range counts {
					if c < lo || c > hi {
						r.Violation("ctl-slot-off-ideal-share", map[string]any{"slot": id, "count": c, "floor": lo, "ceil": hi, "case": w()})
						break
					}
				}
			}
			if s >= 2 {
				r.Nontrivial(fmt.Sprintf("%d|%d", s, h))
			}
			// round trip inside a minimal valid cluster state (a subset: the
			// codec works on whole states)
			if h%37 == 0 || h <= 40 || h >= 4095 {
				st := c20MinimalState(uint32(s), uint16(h), tbl)
				var enc []byte
				var dec state.ClusterState
				var eerr, derr error
				if r.Guard("state.Encode/Decode", w(), func() {
					enc, eerr = state.Encode(st)
					if eerr == nil {
						dec, derr = state.Decode(enc)
					}
				}) {
					continue
				}
				if eerr != nil {
					// our minimal state may be rejected for reasons unrelated to the table
					r.Count("state_encode_rejected", 1)
					r.Note("state_encode_reject_example", eerr.Error())
					continue
				}
				if derr != nil {
					r.Violation("ctl-state-decode-error", map[string]any{"err": derr.Error(), "case": w()})
					continue
				}
				if !reflect.DeepEqual(dec.HashSlots, tbl) {
					r.Violation("ctl-roundtrip-table-differs", map[string]any{"decoded": dec.HashSlots, "case": w()})
				}
				r.Count("state_roundtrips", 1)
			}
		}
	}
}

func c20MinimalState(slots uint32, hashSlots uint16, tbl state.HashSlotTable) state.ClusterState {
	st := state.ClusterState{
		SchemaVersion: state.CurrentSchemaVersion,
		ClusterID:     "c20",
		Revision:      1,
		UpdatedAt:     time.Unix(1_700_000_000, 0).UTC(),
		Config:        state.ClusterConfig{SlotCount: slots, HashSlotCount: hashSlots, ReplicaCount: 1},
		Controllers:   []state.ControllerVoter{{NodeID: 1, Addr: "127.0.0.1:1", Role: state.ControllerRoleVoter}},
		Nodes: []state.Node{{NodeID: 1, Addr: "127.0.0.1:1", Roles: []state.NodeRole{state.NodeRoleControllerVoter, state.NodeRoleData},
			JoinState: state.NodeJoinStateActive, Status: state.NodeStatusAlive, CapacityWeight: 1}},
		HashSlots: tbl,
		Tasks:     []state.ReconcileTask{},
	}
	for id := uint32(1); id <= slots; id++ {
		st.Slots = append(st.Slots, state.SlotAssignment{SlotID: id, DesiredPeers: []uint64{1}, ConfigEpoch: 1, PreferredLeader: 1})
	}
	return st
}
