//go:build verif

package hashslot_test

// C20 — "The hash-slot table maps every hash slot to one physical slot,
// survives encode/decode unchanged including active migrations, and its
// version strictly increases on every effective change. Add, remove and
// rebalance plans move each hash slot at most once and only away from its
// current owner, and applying a plan leaves every participating slot within
// one hash slot of its ideal share."
//
// The monitor drives the real pkg/hashslot API only through exported
// functions and observes state only through exported accessors (Lookup,
// HashSlotsOf, AssignedSlotIDs, ActiveMigrations, GetMigration, Version,
// HashSlotCount, Encode/DecodeHashSlotTable). Three workloads:
//
//   A  bounded BFS over every operation on tiny tables (all reachable
//      states up to a cap per size),
//   B  every assignment vector {0..h-1} -> {1..s} for small (h,s) (plans on
//      arbitrary, including wildly unbalanced, layouts),
//   C  PRNG walks on tables up to h=4096, s=64 (reassignments, skew,
//      migrations in every phase, plans applied through the migration API,
//      decoded tables swapped in for the original).
//
// Interpretations (see also the evidence counters):
//
//   * "effective change" = the observable state (owner of any hash slot, the
//     set of active migrations incl. phase) differs before/after a call. Then
//     Version must be strictly greater. Version must never decrease. The
//     statement does not promise that a no-op leaves the version alone, so a
//     bump on a no-op is only counted (noop_version_bump.*).
//   * balance: ComputeRebalancePlan is asserted unconditionally. Add/remove
//     plans are documented (docs/superpowers/plans/2026-04-14-hash-slot-
//     operator.md) as "give the new slot its share from surplus owners" /
//     "spread the removed slot over the emptiest owners"; they do not repair a
//     pre-existing imbalance (that is ComputeRebalancePlan's job). So for
//     add/remove the full "every participating slot in floor..ceil" clause is
//     asserted when the input layout was itself balanced; on an unbalanced
//     input the monitor asserts what still must hold (new slot lands inside
//     floor..ceil, removed slot is empty, no donor is drained below floor, no
//     receiver is filled above ceil) and counts literal misses in
//     literal_miss.* for the report.
//     In addition (coordinator decision) the clause is judged literally on
//     ANY input for all three plan kinds: every slot that appears as From or
//     To and shares the range after the plan must end with |count*k-h| <= k
//     (within one hash slot of h/k). Signature
//     plan-leaves-participant-off-ideal:<kind>:<unbalanced|balanced>-input;
//     at most two witnesses per signature (first seen, smallest seen), the
//     rest counted (literal_judged_miss.*, note literal_clause_occurrences_*).
//   * removing the only active slot has no possible plan; counted, not
//     asserted.
//   * hash slots are only ever reassigned to non-zero physical slot ids (0 is
//     the API's "unassigned" value).

import (
	"bytes"
	"fmt"
	"math/rand/v2"
	"sort"
	"strings"
	"testing"
	"time"

	"github.com/WuKongIM/WuKongIM/pkg/hashslot"
	"github.com/WuKongIM/WuKongIM/pkg/slot/multiraft"
	"github.com/WuKongIM/WuKongIM/pkg/verifkit"
)

// ---------------------------------------------------------------------------
// observable state

type c20Snap struct {
	Version uint64                       `json:"version"`
	Count   uint16                       `json:"count"`
	Assign  []multiraft.SlotID           `json:"assign"`
	// Migs is the accessor-independent view: GetMigration(hs) for every hash
	// slot 0..h-1, in hash-slot order. State identity, the version clause and
	// the round-trip clause are judged on it.
	Migs []hashslot.HashSlotMigration `json:"migs"`
	// Active is what ActiveMigrations() lists (must name the same records).
	Active []hashslot.HashSlotMigration `json:"active"`
}

func c20PhaseName(p hashslot.MigrationPhase) string {
	switch p {
	case hashslot.PhaseSnapshot:
		return "snapshot"
	case hashslot.PhaseDelta:
		return "delta"
	case hashslot.PhaseSwitching:
		return "switching"
	case hashslot.PhaseDone:
		return "done"
	}
	return "other"
}

func c20Snapshot(t *hashslot.HashSlotTable, h int) c20Snap {
	s := c20Snap{Version: t.Version(), Count: t.HashSlotCount(), Assign: make([]multiraft.SlotID, h)}
	for i := 0; i < h; i++ {
		s.Assign[i] = t.Lookup(uint16(i))
		if g := t.GetMigration(uint16(i)); g != nil {
			s.Migs = append(s.Migs, *g)
		}
	}
	s.Active = t.ActiveMigrations()
	return s
}

func c20SameMigs(a, b []hashslot.HashSlotMigration) bool {
	if len(a) != len(b) {
		return false
	}
	for i := range a {
		if a[i] != b[i] {
			return false
		}
	}
	return true
}

func c20SameAssign(a, b []multiraft.SlotID) bool {
	if len(a) != len(b) {
		return false
	}
	for i := range a {
		if a[i] != b[i] {
			return false
		}
	}
	return true
}

// c20SameState compares everything except the version.
func c20SameState(a, b c20Snap) bool {
	return a.Count == b.Count && c20SameAssign(a.Assign, b.Assign) && c20SameMigs(a.Migs, b.Migs)
}

func (s c20Snap) key() string {
	var sb strings.Builder
	for _, a := range s.Assign {
		fmt.Fprintf(&sb, "%d,", a)
	}
	sb.WriteByte('|')
	for _, m := range s.Migs {
		fmt.Fprintf(&sb, "%d:%d>%d@%d,", m.HashSlot, m.Source, m.Target, m.Phase)
	}
	return sb.String()
}

func (s c20Snap) witness() any {
	if len(s.Assign) <= 64 {
		return s
	}
	// large tables: run-length summary
	type run struct {
		From, To int
		Slot     multiraft.SlotID
	}
	var runs []run
	for i := 0; i < len(s.Assign); {
		j := i
		for j+1 < len(s.Assign) && s.Assign[j+1] == s.Assign[i] {
			j++
		}
		runs = append(runs, run{i, j, s.Assign[i]})
		i = j + 1
		if len(runs) > 200 {
			break
		}
	}
	return map[string]any{"version": s.Version, "count": s.Count, "runs": runs, "migs": s.Migs}
}

func c20Counts(assign []multiraft.SlotID) map[multiraft.SlotID]int {
	m := map[multiraft.SlotID]int{}
	for _, a := range assign {
		m[a]++
	}
	return m
}

// ---------------------------------------------------------------------------
// operations

const (
	c20Reassign = iota
	c20Start
	c20Advance
	c20Finalize
	c20Abort
	c20NumKinds
)

var c20KindName = [...]string{"Reassign", "StartMigration", "AdvanceMigration", "FinalizeMigration", "AbortMigration"}

type c20Op struct {
	Kind  int                     `json:"kind"`
	HS    uint16                  `json:"hash_slot"`
	A     multiraft.SlotID        `json:"a"`
	B     multiraft.SlotID        `json:"b"`
	Phase hashslot.MigrationPhase `json:"phase"`
}

func (o c20Op) String() string {
	switch o.Kind {
	case c20Reassign:
		return fmt.Sprintf("Reassign(%d,%d)", o.HS, o.A)
	case c20Start:
		return fmt.Sprintf("StartMigration(%d,%d,%d)", o.HS, o.A, o.B)
	case c20Advance:
		return fmt.Sprintf("AdvanceMigration(%d,%d)", o.HS, o.Phase)
	case c20Finalize:
		return fmt.Sprintf("FinalizeMigration(%d)", o.HS)
	default:
		return fmt.Sprintf("AbortMigration(%d)", o.HS)
	}
}

func c20Apply(t *hashslot.HashSlotTable, o c20Op) {
	switch o.Kind {
	case c20Reassign:
		t.Reassign(o.HS, o.A)
	case c20Start:
		t.StartMigration(o.HS, o.A, o.B)
	case c20Advance:
		t.AdvanceMigration(o.HS, o.Phase)
	case c20Finalize:
		t.FinalizeMigration(o.HS)
	case c20Abort:
		t.AbortMigration(o.HS)
	}
}

// ---------------------------------------------------------------------------
// monitor

type c20Mon struct {
	r *verifkit.Run
	// skipCleanNoops: do not re-run the mapping/round-trip checks after a call
	// that changed neither the observable state nor the version (BFS only; the
	// identical state was checked when it was first reached).
	skipCleanNoops bool
	// literal (judged) balance clause bookkeeping, see judgeLiteral
	lit map[string]*c20LitSig
}

// c20LitSig tracks one "plan-leaves-participant-off-ideal:..." signature: the
// first occurrence is reported at once, the smallest one (by h, then owners,
// then plan length) at the end of the run; everything else is only counted.
type c20LitSig struct {
	n        int
	firstKey [3]int
	minKey   [3]int
	minWit   any
}

// versionStep checks the version clause across one call that turned state
// `before` into `after`.
func (m *c20Mon) versionStep(what string, before, after c20Snap, ctx func() any) (changed bool) {
	changed = !c20SameState(before, after)
	switch {
	case after.Version < before.Version:
		m.r.Violation("version-decreased:"+what, map[string]any{"before": before.witness(), "after": after.witness(), "ctx": ctx()})
	case changed && after.Version == before.Version:
		m.r.Violation("version-not-increased:"+what, map[string]any{"before": before.witness(), "after": after.witness(), "ctx": ctx()})
	case !changed && after.Version != before.Version:
		// not promised either way by the statement
		m.r.Count("noop_version_bump."+what, 1)
	}
	if changed {
		m.r.Count("effective."+what, 1)
	} else {
		m.r.Count("noop."+what, 1)
	}
	return changed
}

// checkMapping: every hash slot has exactly one non-zero owner, and the
// per-slot views partition the range. `full` also walks HashSlotsOf for every
// owner (O(h*k)); otherwise only for the ids in `touched`.
func (m *c20Mon) checkMapping(t *hashslot.HashSlotTable, h int, s c20Snap, full bool, touched []multiraft.SlotID, ctx func() any) {
	r := m.r
	if int(s.Count) != h {
		r.Violation("hashslot-count-changed", map[string]any{"want": h, "got": s.Count, "ctx": ctx()})
		return
	}
	counts := c20Counts(s.Assign)
	for i, a := range s.Assign {
		if a == 0 {
			r.Violation("lookup-unassigned", map[string]any{"hash_slot": i, "state": s.witness(), "ctx": ctx()})
			return
		}
		if again := t.Lookup(uint16(i)); again != a {
			r.Violation("lookup-not-single-valued", map[string]any{"hash_slot": i, "first": a, "second": again, "ctx": ctx()})
			return
		}
	}
	checkOwner := func(id multiraft.SlotID, seen []bool) bool {
		hs := t.HashSlotsOf(id)
		if len(hs) != counts[id] {
			r.Violation("hashslotsof-count-mismatch", map[string]any{"slot": id, "hashslotsof": len(hs), "lookup_count": counts[id], "state": s.witness(), "ctx": ctx()})
			return false
		}
		for _, x := range hs {
			if int(x) >= h || s.Assign[x] != id {
				r.Violation("hashslotsof-disagrees-with-lookup", map[string]any{"slot": id, "hash_slot": x, "state": s.witness(), "ctx": ctx()})
				return false
			}
			if seen != nil {
				if seen[x] {
					r.Violation("hashslotsof-overlap", map[string]any{"slot": id, "hash_slot": x, "state": s.witness(), "ctx": ctx()})
					return false
				}
				seen[x] = true
			}
		}
		return true
	}
	if !full {
		for _, id := range touched {
			if id != 0 && !checkOwner(id, nil) {
				return
			}
		}
		return
	}
	ids := t.AssignedSlotIDs()
	if len(ids) != len(counts) {
		r.Violation("assignedslotids-mismatch", map[string]any{"ids": ids, "owners_by_lookup": len(counts), "state": s.witness(), "ctx": ctx()})
		return
	}
	seen := make([]bool, h)
	total := 0
	for i, id := range ids {
		if id == 0 || (i > 0 && ids[i-1] >= id) || counts[id] == 0 {
			r.Violation("assignedslotids-mismatch", map[string]any{"ids": ids, "state": s.witness(), "ctx": ctx()})
			return
		}
		if !checkOwner(id, seen) {
			return
		}
		total += counts[id]
	}
	if total != h {
		r.Violation("hashslotsof-not-covering", map[string]any{"covered": total, "want": h, "state": s.witness(), "ctx": ctx()})
	}
	r.Count("partition_checks", 1)
}

// checkMigrationViews: GetMigration agrees with ActiveMigrations.
func (m *c20Mon) checkMigrationViews(t *hashslot.HashSlotTable, s c20Snap, ctx func() any) {
	// GetMigration(hs) must report the hash slot it was asked for
	for _, mg := range s.Migs {
		if g := t.GetMigration(mg.HashSlot); g == nil || *g != mg {
			m.r.Violation("getmigration-not-single-valued", map[string]any{"first": mg, "second": g, "ctx": ctx()})
			return
		}
	}
	for i, mg := range s.Active {
		if i > 0 && s.Active[i-1].HashSlot >= mg.HashSlot {
			m.r.Violation("activemigrations-duplicate-hashslot", map[string]any{"state": s.witness(), "ctx": ctx()})
			return
		}
	}
	// ActiveMigrations and GetMigration must name the same set of records, in
	// every phase the type defines (the code documents no phase as "not
	// active": a record exists until FinalizeMigration/AbortMigration).
	byHS := make(map[uint16]hashslot.HashSlotMigration, len(s.Active))
	for _, mg := range s.Active {
		byHS[mg.HashSlot] = mg
	}
	for _, mg := range s.Migs {
		a, ok := byHS[mg.HashSlot]
		if !ok {
			m.r.Violation("activemigrations-omits-record:"+c20PhaseName(mg.Phase), map[string]any{"getmigration": mg, "state": s.witness(), "ctx": ctx()})
			return
		}
		if a != mg {
			m.r.Violation("getmigration-disagrees", map[string]any{"listed": a, "get": mg, "ctx": ctx()})
			return
		}
		delete(byHS, mg.HashSlot)
	}
	for _, a := range byHS {
		m.r.Violation("getmigration-omits-record:"+c20PhaseName(a.Phase), map[string]any{"listed": a, "state": s.witness(), "ctx": ctx()})
		return
	}
}

// checkRoundTrip: Decode(Encode(t)) is observably equal to t, incl. version
// and active migrations, and re-encodes to the same bytes. Returns the decoded
// table (nil on failure).
func (m *c20Mon) checkRoundTrip(t *hashslot.HashSlotTable, h int, s c20Snap, ctx func() any) *hashslot.HashSlotTable {
	r := m.r
	var dec *hashslot.HashSlotTable
	var err error
	var enc []byte
	if r.Guard("Encode/Decode", ctx(), func() {
		enc = t.Encode()
		dec, err = hashslot.DecodeHashSlotTable(enc)
	}) {
		return nil
	}
	if err != nil || dec == nil {
		r.Violation("roundtrip-decode-error", map[string]any{"err": fmt.Sprint(err), "state": s.witness(), "ctx": ctx()})
		return nil
	}
	ds := c20Snapshot(dec, h)
	switch {
	case ds.Count != s.Count:
		r.Violation("roundtrip-count-differs", map[string]any{"orig": s.witness(), "decoded": ds.witness(), "ctx": ctx()})
	case !c20SameAssign(ds.Assign, s.Assign):
		r.Violation("roundtrip-assignment-differs", map[string]any{"orig": s.witness(), "decoded": ds.witness(), "ctx": ctx()})
	case !c20SameMigs(ds.Migs, s.Migs):
		// judged on GetMigration(hs) of both tables, hash slot by hash slot
		om := map[uint16]hashslot.HashSlotMigration{}
		for _, mg := range s.Migs {
			om[mg.HashSlot] = mg
		}
		phase, detail := "other", map[string]any{}
		for _, mg := range ds.Migs {
			if o, ok := om[mg.HashSlot]; !ok {
				phase, detail = c20PhaseName(mg.Phase), map[string]any{"hash_slot": mg.HashSlot, "original": nil, "decoded": mg}
			} else if o != mg {
				phase, detail = c20PhaseName(o.Phase), map[string]any{"hash_slot": mg.HashSlot, "original": o, "decoded": mg}
				delete(om, mg.HashSlot)
			} else {
				delete(om, mg.HashSlot)
			}
		}
		for _, o := range s.Migs {
			if _, lost := om[o.HashSlot]; lost {
				phase, detail = c20PhaseName(o.Phase), map[string]any{"hash_slot": o.HashSlot, "original": o, "decoded": nil}
				break
			}
		}
		r.Violation("roundtrip-migration-record-differs:"+phase, map[string]any{"record": detail, "orig": s.witness(), "decoded": ds.witness(), "ctx": ctx()})
	case !c20SameMigs(ds.Active, s.Active):
		r.Violation("roundtrip-migrations-differ", map[string]any{"orig": s.witness(), "decoded": ds.witness(), "ctx": ctx()})
	case ds.Version != s.Version:
		r.Violation("roundtrip-version-differs", map[string]any{"orig": s.witness(), "decoded": ds.witness(), "ctx": ctx()})
	default:
		if !bytes.Equal(dec.Encode(), enc) {
			r.Violation("roundtrip-reencode-differs", map[string]any{"orig": s.witness(), "ctx": ctx()})
		}
		// the original must be untouched by Encode
		if now := c20Snapshot(t, h); !c20SameState(now, s) || now.Version != s.Version {
			r.Violation("encode-mutated-table", map[string]any{"before": s.witness(), "after": now.witness(), "ctx": ctx()})
		}
		r.Count("roundtrips", 1)
		if len(s.Migs) > 0 {
			var seenPhase [5]bool
			for _, mg := range s.Migs {
				i := int(mg.Phase)
				if i > 4 {
					i = 4
				}
				if !seenPhase[i] {
					seenPhase[i] = true
					r.Count("roundtrips_with_migration_in_phase."+c20PhaseName(mg.Phase), 1)
				}
			}
			r.Count("roundtrips_with_active_migrations", 1)
			r.Max("max_active_migrations_roundtripped", len(s.Migs))
		}
		return dec
	}
	return nil
}

// step applies op to t (which is in state `before`) and checks everything.
func (m *c20Mon) step(t *hashslot.HashSlotTable, h int, before c20Snap, o c20Op, full bool, hist func() any) (after c20Snap, changed bool) {
	ctx := func() any { return map[string]any{"op": o.String(), "history": hist()} }
	name := c20KindName[o.Kind]
	if m.r.Guard(name, ctx(), func() { c20Apply(t, o) }) {
		return c20Snapshot(t, h), true
	}
	m.r.Eval(1)
	after = c20Snapshot(t, h)
	changed = m.versionStep(name, before, after, ctx)
	if !changed && after.Version == before.Version && m.skipCleanNoops {
		// observably identical to `before`, which was fully checked already
		return after, false
	}
	var touched []multiraft.SlotID
	if int(o.HS) < h {
		touched = []multiraft.SlotID{before.Assign[o.HS], after.Assign[o.HS], o.A, o.B}
	}
	m.checkMapping(t, h, after, full, touched, ctx)
	m.checkMigrationViews(t, after, ctx)
	m.checkRoundTrip(t, h, after, ctx)
	return after, changed
}

// ---------------------------------------------------------------------------
// plans

func c20Floor(h, k int) int { return h / k }
func c20Ceil(h, k int) int  { return (h + k - 1) / k }

func c20Balanced(counts map[multiraft.SlotID]int, h int) bool {
	k := len(counts)
	if k == 0 {
		return true
	}
	lo, hi := c20Floor(h, k), c20Ceil(h, k)
	for _, c := range counts {
		if c < lo || c > hi {
			return false
		}
	}
	return true
}

type c20PlanResult struct {
	Len     int
	Applied []multiraft.SlotID // assignment after applying the plan
	OK      bool               // generic clauses held (safe to apply)
}

// checkPlan verifies the generic clauses of one plan against state s and
// returns the assignment after applying it to a clone.
func (m *c20Mon) checkPlan(kind string, t *hashslot.HashSlotTable, h int, s c20Snap, plan []hashslot.MigrationPlan, ctx func() any) c20PlanResult {
	r := m.r
	res := c20PlanResult{Len: len(plan), OK: true}
	wit := func(extra map[string]any) any {
		p := plan
		if len(p) > 64 {
			p = p[:64]
		}
		w := map[string]any{"plan_len": len(plan), "plan_head": p, "state": s.witness(), "ctx": ctx()}
		for k, v := range extra {
			w[k] = v
		}
		return w
	}
	seen := make(map[uint16]struct{}, len(plan))
	for i, p := range plan {
		if int(p.HashSlot) >= h {
			r.Violation("plan-hashslot-out-of-range:"+kind, wit(map[string]any{"index": i}))
			res.OK = false
			continue
		}
		if _, dup := seen[p.HashSlot]; dup {
			r.Violation("plan-moves-hashslot-twice:"+kind, wit(map[string]any{"index": i, "hash_slot": p.HashSlot}))
			res.OK = false
		}
		seen[p.HashSlot] = struct{}{}
		if p.From != s.Assign[p.HashSlot] {
			r.Violation("plan-from-not-current-owner:"+kind, wit(map[string]any{"index": i, "entry": p, "owner": s.Assign[p.HashSlot]}))
			res.OK = false
		}
		if p.To == p.From || p.To == s.Assign[p.HashSlot] {
			r.Violation("plan-moves-to-current-owner:"+kind, wit(map[string]any{"index": i, "entry": p}))
			res.OK = false
		}
		if p.To == 0 {
			r.Violation("plan-moves-to-slot-zero:"+kind, wit(map[string]any{"index": i, "entry": p}))
			res.OK = false
		}
	}
	// computing a plan must not change the table
	if now := c20Snapshot(t, h); !c20SameState(now, s) || now.Version != s.Version {
		// a hidden mutation without a version increase is a violation; a
		// pure version bump is only counted (see versionStep)
		m.versionStep("Compute"+kind+"Plan", s, now, ctx)
	}
	// apply to a clone through Reassign
	cl := t.Clone()
	for _, p := range plan {
		if int(p.HashSlot) < h && p.To != 0 {
			cl.Reassign(p.HashSlot, p.To)
		}
	}
	res.Applied = c20Snapshot(cl, h).Assign
	// the clone is independent: the original is still in state s
	if now := c20Snapshot(t, h); !c20SameState(now, s) || now.Version != s.Version {
		r.Violation("clone-shares-state", wit(nil))
		res.OK = false
	}
	r.Count("plans."+kind, 1)
	if len(plan) > 0 {
		r.Count("plans_nonempty."+kind, 1)
		r.Max("max_plan_len."+kind, len(plan))
	}
	return res
}

// applyViaMigrations drives a plan through the migration API on t.
func c20ApplyViaMigrations(t *hashslot.HashSlotTable, plan []hashslot.MigrationPlan) {
	for _, mg := range t.ActiveMigrations() {
		t.AbortMigration(mg.HashSlot)
	}
	for _, p := range plan {
		t.StartMigration(p.HashSlot, p.From, p.To)
		t.AdvanceMigration(p.HashSlot, hashslot.PhaseDelta)
		t.AdvanceMigration(p.HashSlot, hashslot.PhaseSwitching)
		t.FinalizeMigration(p.HashSlot)
	}
}

func c20SortedIDs(counts map[multiraft.SlotID]int) []multiraft.SlotID {
	ids := make([]multiraft.SlotID, 0, len(counts))
	for id := range counts {
		ids = append(ids, id)
	}
	sort.Slice(ids, func(i, j int) bool { return ids[i] < ids[j] })
	return ids
}

type c20PlanSummary struct {
	rebalanceLen int
	addLen       int
	removeLen    int
	rebalance    []hashslot.MigrationPlan
	add          []hashslot.MigrationPlan
	addID        multiraft.SlotID
	remove       []hashslot.MigrationPlan
	ok           bool
}

// judgeLiteral is the statement's balance clause read literally, on ANY
// input: every participating slot (one that appears as From or To in the plan
// and shares the range after the plan) ends within one hash slot of its ideal
// share h/k, i.e. |count*k - h| <= k, where k = number of slots sharing the
// range after the plan (`sharing`). Slots the plan does not touch are not
// judged. This is looser than floor..ceil, which stays asserted separately
// for balanced inputs / Rebalance.
func (m *c20Mon) judgeLiteral(kind, call string, h int, sharing map[multiraft.SlotID]struct{}, plan []hashslot.MigrationPlan,
	s c20Snap, before, after map[multiraft.SlotID]int, inBalanced bool) (miss bool) {
	k := len(sharing)
	if k == 0 || len(plan) == 0 {
		return false
	}
	judged := map[multiraft.SlotID]struct{}{}
	for _, p := range plan {
		for _, id := range [2]multiraft.SlotID{p.From, p.To} {
			if _, ok := sharing[id]; ok {
				judged[id] = struct{}{}
			}
		}
	}
	var worst multiraft.SlotID
	worstDev := -1
	for id := range judged {
		dev := after[id]*k - h
		if dev < 0 {
			dev = -dev
		}
		if dev > k && (dev > worstDev || (dev == worstDev && id < worst)) {
			worst, worstDev = id, dev
		}
	}
	m.r.Count("literal_judged."+kind, 1)
	if worstDev < 0 {
		return false
	}
	sig := "plan-leaves-participant-off-ideal:" + kind + ":unbalanced-input"
	if inBalanced {
		sig = "plan-leaves-participant-off-ideal:" + kind + ":balanced-input"
	}
	m.r.Count("literal_judged_miss."+kind, 1)
	if m.lit == nil {
		m.lit = map[string]*c20LitSig{}
	}
	ls := m.lit[sig]
	key := [3]int{h, len(before), len(plan)}
	mk := func() any {
		p := plan
		if len(p) > 32 {
			p = p[:32]
		}
		return map[string]any{"h": h, "owners_vector": s.witness(), "call": call, "plan_len": len(plan), "plan_head": p,
			"k": k, "ideal_share": fmt.Sprintf("%d/%d", h, k), "slot": worst, "count_after": after[worst],
			"counts_before": c20CountsJSON(before), "counts_after": c20CountsJSON(after), "input_balanced": inBalanced}
	}
	less := func(a, b [3]int) bool {
		for i := range a {
			if a[i] != b[i] {
				return a[i] < b[i]
			}
		}
		return false
	}
	if ls == nil {
		ls = &c20LitSig{firstKey: key, minKey: key}
		m.lit[sig] = ls
		m.r.Violation(sig, mk()) // first occurrence, kept witness 1 of 2
	} else if less(key, ls.minKey) {
		ls.minKey, ls.minWit = key, mk()
	}
	ls.n++
	return true
}

// emitLiteralMinima reports, once per signature, the smallest witness seen if
// it is smaller than the first one (kept witness 2 of 2), and the totals.
func (m *c20Mon) emitLiteralMinima() {
	occ := map[string]int{}
	for sig, ls := range m.lit {
		occ[sig] = ls.n
		if ls.minWit != nil && ls.minKey != ls.firstKey {
			m.r.Violation(sig, ls.minWit)
		}
	}
	m.r.Note("literal_clause_occurrences_per_signature", occ)
}

// checkPlans computes and checks rebalance, add (for the given new ids) and
// remove (for the given ids) plans on t in state s.
func (m *c20Mon) checkPlans(t *hashslot.HashSlotTable, h int, s c20Snap, addIDs, removeIDs []multiraft.SlotID, hist func() any) c20PlanSummary {
	r := m.r
	sum := c20PlanSummary{ok: true}
	before := c20Counts(s.Assign)
	k0 := len(before)
	inBalanced := c20Balanced(before, h)
	if inBalanced {
		r.Count("plan_inputs.balanced", 1)
	} else {
		r.Count("plan_inputs.unbalanced", 1)
	}

	// --- rebalance
	{
		ctx := func() any { return map[string]any{"op": "ComputeRebalancePlan", "history": hist()} }
		var plan []hashslot.MigrationPlan
		if !r.Guard("ComputeRebalancePlan", ctx(), func() { plan = hashslot.ComputeRebalancePlan(t) }) {
			r.Eval(1)
			res := m.checkPlan("Rebalance", t, h, s, plan, ctx)
			sum.ok = sum.ok && res.OK
			after := c20Counts(res.Applied)
			// participating = owners before plus every target
			part := map[multiraft.SlotID]struct{}{}
			for id := range before {
				part[id] = struct{}{}
			}
			for _, p := range plan {
				part[p.To] = struct{}{}
			}
			k := len(part)
			lo, hi := c20Floor(h, k), c20Ceil(h, k)
			for id := range part {
				if c := after[id]; c < lo || c > hi {
					r.Violation("plan-leaves-slot-off-ideal:Rebalance", map[string]any{"slot": id, "count_after": c, "floor": lo, "ceil": hi, "k": k, "h": h,
						"counts_before": c20CountsJSON(before), "counts_after": c20CountsJSON(after), "plan_len": len(plan), "ctx": ctx()})
					sum.ok = false
					break
				}
			}
			// a literal miss does not stop the walk from applying the plan
			m.judgeLiteral("Rebalance", "ComputeRebalancePlan(t)", h, part, plan, s, before, after, inBalanced)
			if inBalanced && k == k0 && len(plan) > 0 {
				// not promised: a balanced table may still be shuffled towards
				// the canonical remainder placement. Evidence only.
				r.Count("rebalance_moves_on_balanced_input", 1)
			}
			sum.rebalance, sum.rebalanceLen = plan, len(plan)
		}
	}

	// --- add
	for _, newID := range addIDs {
		ctx := func() any {
			return map[string]any{"op": fmt.Sprintf("ComputeAddSlotPlan(%d)", newID), "history": hist()}
		}
		var plan []hashslot.MigrationPlan
		if r.Guard("ComputeAddSlotPlan", ctx(), func() { plan = hashslot.ComputeAddSlotPlan(t, newID) }) {
			continue
		}
		r.Eval(1)
		res := m.checkPlan("AddSlot", t, h, s, plan, ctx)
		sum.ok = sum.ok && res.OK
		if _, exists := before[newID]; exists || newID == 0 {
			r.Count("add_existing_slot", 1)
			if len(plan) > 0 {
				r.Count("add_existing_slot_nonempty_plan", 1)
			}
			continue
		}
		after := c20Counts(res.Applied)
		k := k0 + 1
		lo, hi := c20Floor(h, k), c20Ceil(h, k)
		w := func(extra map[string]any) any {
			o := map[string]any{"new_slot": newID, "floor": lo, "ceil": hi, "k": k, "h": h, "input_balanced": inBalanced,
				"counts_before": c20CountsJSON(before), "counts_after": c20CountsJSON(after), "plan_len": len(plan), "ctx": ctx()}
			for kk, v := range extra {
				o[kk] = v
			}
			return o
		}
		bad := false
		if c := after[newID]; c < lo || c > hi {
			r.Violation("plan-leaves-new-slot-off-ideal:AddSlot", w(map[string]any{"count_after": c}))
			bad = true
		}
		donors := map[multiraft.SlotID]struct{}{}
		for _, p := range plan {
			donors[p.From] = struct{}{}
			if p.To != newID {
				r.Count("add_plan_moves_to_other_slot", 1)
			}
		}
		for id := range donors {
			if after[id] < lo && !bad {
				r.Violation("plan-drains-donor-below-floor:AddSlot", w(map[string]any{"slot": id, "count_after": after[id]}))
				bad = true
			}
		}
		literalMiss := false
		part := map[multiraft.SlotID]struct{}{newID: {}}
		for id := range before {
			part[id] = struct{}{}
		}
		m.judgeLiteral("AddSlot", fmt.Sprintf("ComputeAddSlotPlan(t, %d)", newID), h, part, plan, s, before, after, inBalanced)
		for id := range part {
			if c := after[id]; c < lo || c > hi {
				if inBalanced {
					if !bad {
						r.Violation("plan-leaves-slot-off-ideal:AddSlot", w(map[string]any{"slot": id, "count_after": c}))
						bad = true
					}
				} else {
					literalMiss = true
					if _, isDonor := donors[id]; isDonor {
						r.Count("literal_miss.add_unbalanced_input.donor_still_above_ceil", 1)
					}
				}
			}
		}
		if literalMiss {
			r.Count("literal_miss.add_unbalanced_input", 1)
		} else {
			r.Count("add_result_balanced", 1)
		}
		if bad {
			sum.ok = false
		}
		if sum.add == nil {
			sum.add, sum.addID, sum.addLen = plan, newID, len(plan)
		}
	}

	// --- remove
	for _, rmID := range removeIDs {
		ctx := func() any {
			return map[string]any{"op": fmt.Sprintf("ComputeRemoveSlotPlan(%d)", rmID), "history": hist()}
		}
		var plan []hashslot.MigrationPlan
		if r.Guard("ComputeRemoveSlotPlan", ctx(), func() { plan = hashslot.ComputeRemoveSlotPlan(t, rmID) }) {
			continue
		}
		r.Eval(1)
		res := m.checkPlan("RemoveSlot", t, h, s, plan, ctx)
		sum.ok = sum.ok && res.OK
		if before[rmID] == 0 {
			r.Count("remove_non_owner", 1)
			if len(plan) > 0 {
				r.Count("remove_non_owner_nonempty_plan", 1)
			}
			continue
		}
		if k0 == 1 {
			// nowhere to move the hash slots to: no plan can empty the slot
			r.Count("remove_only_slot", 1)
			continue
		}
		after := c20Counts(res.Applied)
		k := k0 - 1
		lo, hi := c20Floor(h, k), c20Ceil(h, k)
		w := func(extra map[string]any) any {
			o := map[string]any{"removed_slot": rmID, "floor": lo, "ceil": hi, "k": k, "h": h, "input_balanced": inBalanced,
				"counts_before": c20CountsJSON(before), "counts_after": c20CountsJSON(after), "plan_len": len(plan), "ctx": ctx()}
			for kk, v := range extra {
				o[kk] = v
			}
			return o
		}
		bad := false
		if after[rmID] != 0 {
			r.Violation("plan-leaves-removed-slot-nonempty:RemoveSlot", w(map[string]any{"count_after": after[rmID]}))
			bad = true
		}
		receivers := map[multiraft.SlotID]struct{}{}
		for _, p := range plan {
			receivers[p.To] = struct{}{}
			if p.From != rmID {
				r.Count("remove_plan_moves_from_other_slot", 1)
			}
		}
		for id := range receivers {
			if after[id] > hi && !bad {
				r.Violation("plan-fills-receiver-above-ceil:RemoveSlot", w(map[string]any{"slot": id, "count_after": after[id]}))
				bad = true
			}
		}
		literalMiss := false
		remaining := map[multiraft.SlotID]struct{}{}
		for id := range before {
			if id != rmID {
				remaining[id] = struct{}{}
			}
		}
		// the removed slot itself does not share the range afterwards: it is
		// judged by the "removed slot empty" clause, not by the ideal share
		m.judgeLiteral("RemoveSlot", fmt.Sprintf("ComputeRemoveSlotPlan(t, %d)", rmID), h, remaining, plan, s, before, after, inBalanced)
		for id := range before {
			if id == rmID {
				continue
			}
			if c := after[id]; c < lo || c > hi {
				if inBalanced {
					if !bad {
						r.Violation("plan-leaves-slot-off-ideal:RemoveSlot", w(map[string]any{"slot": id, "count_after": c}))
						bad = true
					}
				} else {
					literalMiss = true
					if _, isRecv := receivers[id]; isRecv {
						r.Count("literal_miss.remove_unbalanced_input.receiver_still_below_floor", 1)
					}
				}
			}
		}
		for id := range receivers {
			if _, known := before[id]; !known {
				r.Count("remove_plan_moves_to_non_owner", 1)
			}
		}
		if literalMiss {
			r.Count("literal_miss.remove_unbalanced_input", 1)
		} else {
			r.Count("remove_result_balanced", 1)
		}
		if bad {
			sum.ok = false
		}
		if sum.remove == nil {
			sum.remove, sum.removeLen = plan, len(plan)
		}
	}
	return sum
}

func c20CountsJSON(c map[multiraft.SlotID]int) map[string]int {
	out := make(map[string]int, len(c))
	for id, n := range c {
		out[fmt.Sprint(uint64(id))] = n
	}
	return out
}

// c20PlanIDs picks add/remove candidates for a state: every owner (capped) for
// removal plus a non-owner; for add an id above all owners, the smallest free
// id (sorts before some owners => exercises remainder placement), an owner
// (expected: empty plan).
func c20PlanIDs(s c20Snap, rng *rand.Rand, capN int) (add, remove []multiraft.SlotID) {
	counts := c20Counts(s.Assign)
	ids := c20SortedIDs(counts)
	maxID := ids[len(ids)-1]
	add = append(add, maxID+1)
	for id := multiraft.SlotID(1); id <= maxID; id++ {
		if _, ok := counts[id]; !ok {
			add = append(add, id)
			break
		}
	}
	if rng != nil {
		add = append(add, maxID+1+multiraft.SlotID(rng.IntN(1000)), ids[rng.IntN(len(ids))])
		if len(ids) > 1 {
			mid := ids[0] + (ids[len(ids)-1]-ids[0])/2
			if _, ok := counts[mid]; !ok {
				add = append(add, mid)
			}
		}
	} else {
		add = append(add, ids[0])
	}
	if len(ids) <= capN || rng == nil {
		remove = append(remove, ids...)
	} else {
		for i := 0; i < capN; i++ {
			remove = append(remove, ids[rng.IntN(len(ids))])
		}
		remove = append(remove, ids[0], ids[len(ids)-1])
	}
	remove = append(remove, maxID+7)
	return
}

// ---------------------------------------------------------------------------
// workload A: bounded BFS on tiny tables

func (m *c20Mon) bfs(h, s, cap int, caseIdx int) {
	r := m.r
	r.BeginCase(caseIdx, fmt.Sprintf("bfs h=%d s=%d cap=%d", h, s, cap))
	m.skipCleanNoops = true
	defer func() { m.skipCleanNoops = false }()
	init := hashslot.NewHashSlotTable(uint16(h), s)
	is := c20Snapshot(init, h)
	noHist := func() any { return "initial NewHashSlotTable" }
	if is.Version == 0 {
		r.Count("initial_version_zero", 1)
	}
	m.checkMapping(init, h, is, true, nil, noHist)
	m.checkRoundTrip(init, h, is, noHist)

	// op universe
	var ops []c20Op
	hsList := make([]uint16, 0, h+1)
	for i := 0; i <= h; i++ { // h itself = out of range
		hsList = append(hsList, uint16(i))
	}
	for _, x := range hsList {
		for id := 1; id <= s; id++ {
			ops = append(ops, c20Op{Kind: c20Reassign, HS: x, A: multiraft.SlotID(id)})
		}
		for a := 0; a <= s; a++ {
			for b := 0; b <= s; b++ {
				ops = append(ops, c20Op{Kind: c20Start, HS: x, A: multiraft.SlotID(a), B: multiraft.SlotID(b)})
			}
		}
		for ph := hashslot.PhaseSnapshot; ph <= hashslot.PhaseDone; ph++ {
			ops = append(ops, c20Op{Kind: c20Advance, HS: x, Phase: ph})
		}
		ops = append(ops, c20Op{Kind: c20Finalize, HS: x}, c20Op{Kind: c20Abort, HS: x})
	}

	type node struct {
		t     *hashslot.HashSlotTable
		snap  c20Snap
		depth int
		path  string
	}
	seen := map[string]struct{}{is.key(): {}}
	queue := []node{{init, is, 0, ""}}
	explored := 0
	exhausted := true
	for len(queue) > 0 {
		n := queue[0]
		queue = queue[1:]
		explored++
		hist := func() any { return map[string]any{"h": h, "s": s, "path": n.path} }
		// plans on every explored state
		add, rm := c20PlanIDs(n.snap, nil, 1<<30)
		m.checkPlans(n.t, h, n.snap, add, rm, hist)
		for _, o := range ops {
			c := n.t.Clone()
			after, changed := m.step(c, h, n.snap, o, true, hist)
			// the clone's mutation must not leak into its origin
			if now := c20Snapshot(n.t, h); !c20SameState(now, n.snap) || now.Version != n.snap.Version {
				r.Violation("clone-shares-state", map[string]any{"op": o.String(), "history": hist()})
			}
			if !changed {
				continue
			}
			k := after.key()
			if _, ok := seen[k]; ok {
				continue
			}
			if len(seen) >= cap {
				exhausted = false
				continue
			}
			seen[k] = struct{}{}
			r.Nontrivial(fmt.Sprintf("bfs|%d|%d|%s", h, s, k))
			queue = append(queue, node{c, after, n.depth + 1, n.path + " " + o.String()})
			r.Max("bfs_max_depth", n.depth+1)
		}
	}
	r.Count("bfs_states_explored", explored)
	if exhausted {
		r.Count("bfs_sizes_exhausted", 1)
	} else {
		r.Count("bfs_sizes_capped", 1)
	}
}

// ---------------------------------------------------------------------------
// workload B: every assignment vector for small sizes

func (m *c20Mon) allVectors(h, s int, caseIdx int) {
	r := m.r
	r.BeginCase(caseIdx, fmt.Sprintf("vectors h=%d s=%d", h, s))
	vec := make([]int, h)
	n := 0
	for {
		t := hashslot.NewHashSlotTable(uint16(h), s)
		for i, v := range vec {
			t.Reassign(uint16(i), multiraft.SlotID(v+1))
		}
		sn := c20Snapshot(t, h)
		hist := func() any { return map[string]any{"h": h, "s": s, "vector": append([]int(nil), vec...)} }
		add, rm := c20PlanIDs(sn, nil, 1<<30)
		m.checkPlans(t, h, sn, add, rm, hist)
		if len(c20Counts(sn.Assign)) >= 2 {
			r.Nontrivial(fmt.Sprintf("vec|%d|%d|%s", h, s, sn.key()))
		}
		n++
		// next vector
		i := 0
		for i < h {
			vec[i]++
			if vec[i] < s {
				break
			}
			vec[i] = 0
			i++
		}
		if i == h {
			break
		}
	}
	r.Count("vectors_enumerated", n)
}

// ---------------------------------------------------------------------------
// workload C: PRNG walks on larger tables

func c20PickSize(rng *rand.Rand) (h, s int) {
	switch rng.IntN(10) {
	case 0, 1, 2:
		h = 1 + rng.IntN(32)
	case 3, 4, 5, 6:
		h = 33 + rng.IntN(480)
	case 7, 8:
		h = 513 + rng.IntN(4096-512)
	default:
		h = []int{4096, 4095, 1024, 256, 255, 257, 64, 65, 2, 1}[rng.IntN(10)]
	}
	switch rng.IntN(4) {
	case 0:
		s = 1 + rng.IntN(4)
	case 1:
		s = 1 + rng.IntN(16)
	default:
		s = 1 + rng.IntN(64)
	}
	return
}

func (m *c20Mon) randomWalk(caseIdx int, rng *rand.Rand) {
	r := m.r
	h, s := c20PickSize(rng)
	nOps := 15 + rng.IntN(45)
	r.BeginCase(caseIdx, fmt.Sprintf("walk h=%d s=%d ops=%d", h, s, nOps))
	t := hashslot.NewHashSlotTable(uint16(h), s)
	var trace []string
	hist := func() any {
		tr := trace
		if len(tr) > 80 {
			tr = tr[len(tr)-80:]
		}
		return map[string]any{"h": h, "s": s, "case": caseIdx, "trace_tail": append([]string(nil), tr...)}
	}
	snap := c20Snapshot(t, h)
	m.checkMapping(t, h, snap, true, nil, hist)
	m.checkRoundTrip(t, h, snap, hist)
	maxID := multiraft.SlotID(s)
	randID := func() multiraft.SlotID {
		switch rng.IntN(12) {
		case 0:
			maxID++
			return maxID
		case 1:
			return multiraft.SlotID(1 + rng.Uint64N(1<<40)) // exercises the 64-bit encoding
		default:
			return multiraft.SlotID(1 + rng.Uint64N(uint64(maxID)))
		}
	}
	effective := 0
	plansNonEmpty := 0
	kindsSeen := map[string]struct{}{}
	do := func(o c20Op, full bool) {
		trace = append(trace, o.String())
		var ch bool
		snap, ch = m.step(t, h, snap, o, full, hist)
		if ch {
			effective++
			kindsSeen[c20KindName[o.Kind]] = struct{}{}
		}
	}
	for i := 0; i < nOps; i++ {
		full := h <= 256 || i%16 == 15 || i == nOps-1
		x := uint16(rng.IntN(h))
		if rng.IntN(40) == 0 {
			x = uint16(h + rng.IntN(3)) // out of range: must be harmless
		}
		switch c := rng.IntN(100); {
		case c < 22:
			do(c20Op{Kind: c20Reassign, HS: x, A: randID()}, full)
		case c < 30: // skew: hand a contiguous run to one slot (checked as one composite step)
			id := randID()
			n := 1 + rng.IntN(1+h/4)
			if int(x) >= h {
				x = uint16(rng.IntN(h))
			}
			trace = append(trace, fmt.Sprintf("Reassign(%d..+%d,%d)", x, n, id))
			before := snap
			if r.Guard("Reassign", hist(), func() {
				for j := 0; j < n && int(x)+j < h; j++ {
					t.Reassign(x+uint16(j), id)
				}
			}) {
				return
			}
			r.Eval(1)
			snap = c20Snapshot(t, h)
			if m.versionStep("ReassignRun", before, snap, hist) {
				effective++
			}
			m.checkMapping(t, h, snap, full, []multiraft.SlotID{id}, hist)
			m.checkRoundTrip(t, h, snap, hist)
		case c < 52:
			src := multiraft.SlotID(0)
			if int(x) < h {
				src = snap.Assign[x]
			}
			tgt := randID()
			if rng.IntN(8) == 0 { // invalid variants
				switch rng.IntN(4) {
				case 0:
					src = randID()
				case 1:
					tgt = src
				case 2:
					tgt = 0
				case 3:
					src = 0
				}
			}
			do(c20Op{Kind: c20Start, HS: x, A: src, B: tgt}, full)
		case c < 70:
			if len(snap.Migs) > 0 && rng.IntN(5) != 0 {
				x = snap.Migs[rng.IntN(len(snap.Migs))].HashSlot
			}
			ph := hashslot.MigrationPhase(rng.IntN(4))
			if rng.IntN(20) == 0 {
				ph = hashslot.MigrationPhase(rng.IntN(256))
			}
			do(c20Op{Kind: c20Advance, HS: x, Phase: ph}, full)
		case c < 80:
			if len(snap.Migs) > 0 && rng.IntN(5) != 0 {
				x = snap.Migs[rng.IntN(len(snap.Migs))].HashSlot
			}
			do(c20Op{Kind: c20Finalize, HS: x}, full)
		case c < 86:
			if len(snap.Migs) > 0 && rng.IntN(5) != 0 {
				x = snap.Migs[rng.IntN(len(snap.Migs))].HashSlot
			}
			do(c20Op{Kind: c20Abort, HS: x}, full)
		case c < 90:
			// continue on the decoded copy: it must behave like the original
			if dec := m.checkRoundTrip(t, h, snap, hist); dec != nil {
				t = dec
				trace = append(trace, "swap-in-decoded")
				r.Count("decoded_table_swapped_in", 1)
			}
		default:
			// plans; sometimes drive one into the table through the migration API
			add, rm := c20PlanIDs(snap, rng, 3)
			sum := m.checkPlans(t, h, snap, add, rm, hist)
			if sum.rebalanceLen+sum.addLen+sum.removeLen > 0 {
				plansNonEmpty++
			}
			if !sum.ok {
				continue
			}
			var plan []hashslot.MigrationPlan
			var name string
			switch rng.IntN(4) {
			case 0:
				plan, name = sum.rebalance, "rebalance"
			case 1:
				plan, name = sum.add, fmt.Sprintf("add(%d)", sum.addID)
				if sum.addID > maxID {
					maxID = sum.addID
				}
			case 2:
				plan, name = sum.remove, "remove"
			}
			if len(plan) == 0 {
				continue
			}
			want := t.Clone()
			for _, p := range plan {
				want.Reassign(p.HashSlot, p.To)
			}
			wantAssign := c20Snapshot(want, h).Assign
			trace = append(trace, fmt.Sprintf("apply-%s-plan(len=%d)-via-migrations", name, len(plan)))
			before := snap
			if r.Guard("apply-plan-via-migrations", hist(), func() { c20ApplyViaMigrations(t, plan) }) {
				return
			}
			snap = c20Snapshot(t, h)
			m.versionStep("ApplyPlanViaMigrations", before, snap, hist)
			m.checkMapping(t, h, snap, true, nil, hist)
			m.checkRoundTrip(t, h, snap, hist)
			if !c20SameAssign(snap.Assign, wantAssign) || len(snap.Migs) != 0 {
				// StartMigration/FinalizeMigration semantics are outside the
				// statement; evidence only.
				r.Count("plan_via_migrations_differs_from_reassign", 1)
			} else {
				r.Count("plan_via_migrations_matches_reassign", 1)
			}
			effective++
		}
	}
	counts := c20Counts(snap.Assign)
	r.Max("max_hash_slots", h)
	r.Max("max_owners", len(counts))
	if effective >= 3 && len(counts) >= 2 {
		ks := make([]string, 0, len(kindsSeen))
		for k := range kindsSeen {
			ks = append(ks, k[:2])
		}
		sort.Strings(ks)
		r.Nontrivial(fmt.Sprintf("walk|h=%d|k=%d|m=%d|e=%d|p=%d|%s|bal=%v", h, len(counts), len(snap.Migs), effective, plansNonEmpty, strings.Join(ks, ""), c20Balanced(counts, h)))
	}
	if r.WantSample() && caseIdx%97 == 5 {
		r.Sample(map[string]any{"h": h, "s": s, "ops": nOps, "effective": effective, "owners": len(counts), "active_migrations": len(snap.Migs), "version": snap.Version, "trace_tail": hist()})
	}
}

// ---------------------------------------------------------------------------

func TestVerifC20(t *testing.T) {
	r := verifkit.Start(t, "C20", "main")
	defer r.Finish()
	r.SetRule("A: BFS from NewHashSlotTable(h,s) over every Reassign/StartMigration/AdvanceMigration/FinalizeMigration/AbortMigration argument combination (incl. out-of-range and invalid ones) up to a state cap per size; B: every assignment vector {0..h-1}->{1..s} for small h,s; C: PRNG walks (15-60 ops: reassign, skewed runs, migrations valid/invalid in all phases, decoded table swapped in, plans applied through the migration API) on tables h<=4096, s<=64 plus fresh 64-bit slot ids. After every call: mapping/partition, encode/decode round trip, version clause; plans (rebalance, add for free ids, remove for owners) checked on every BFS state, every vector and at random walk points. Non-trivial = BFS state reached by >=1 effective op (distinct by size+state); vector with >=2 owners (distinct by size+vector); walk with >=3 effective changes and >=2 owners (distinct by abstract shape: h, owners, active migrations, effective ops, op kinds, balanced?).")
	r.Assume("hash slots are only reassigned/migrated to non-zero physical slot ids; slot id 0 is the API's 'unassigned' value")
	r.Assume("literal clause (judged on every input, all plan kinds): each slot named as From/To that still shares the range ends with |count*k-h|<=k, k = slots sharing the range after the plan; the removed slot is judged by 'ends empty' instead")
	r.Assume("strict floor..ceil for add/remove is required only when the input layout is balanced; on unbalanced inputs: new slot inside floor..ceil, removed slot empty, no donor below floor, no receiver above ceil (literal misses counted in literal_miss.*)")
	r.Assume("a version bump on a call that changes nothing observable is not a violation (statement only constrains effective changes); a version decrease always is")
	m := &c20Mon{r: r}
	defer m.emitLiteralMinima() // runs before r.Finish
	idx := 0
	phaseStart := time.Now() // evidence only (phase_wall_s), never decides anything
	phaseWall := map[string]float64{}
	endPhase := func(name string) {
		phaseWall[name] = time.Since(phaseStart).Seconds()
		phaseStart = time.Now()
		r.Note("phase_wall_s", phaseWall)
	}

	// A
	bfsCap := r.N(300, 4000)
	type sz struct{ h, s int }
	var sizes []sz
	for h := 1; h <= r.N(5, 7); h++ {
		for s := 1; s <= 3; s++ {
			sizes = append(sizes, sz{h, s})
		}
	}
	sizes = append(sizes, sz{8, 4}, sz{12, 5}, sz{24, 6}, sz{3, 5})
	for _, z := range sizes {
		if !r.Skip(idx) {
			m.bfs(z.h, z.s, bfsCap, idx)
		}
		idx++
	}

	endPhase("A_bfs")

	// B
	vecCap := r.N(30_000, 400_000)
	for s := 1; s <= 5; s++ {
		for h := 1; h <= 16; h++ {
			n := 1
			for i := 0; i < h && n <= vecCap; i++ {
				n *= s
			}
			if n > vecCap {
				break
			}
			if !r.Skip(idx) {
				m.allVectors(h, s, idx)
			}
			idx++
		}
	}

	endPhase("B_vectors")

	// C
	nWalks := r.N(2000, 30_000)
	for i := 0; i < nWalks; i++ {
		if !r.Skip(idx) {
			m.randomWalk(idx, r.Rand(20, uint64(i)))
		}
		idx++
	}
	endPhase("C_walks")
}
