//go:build verif

package c21_test

// C21 unit "cross": the exported key->hash-slot mappings compared directly:
// pkg/hashslot.HashSlotForKey (canonical), pkg/cluster/routing.HashSlotForKey
// (hand-rolled table CRC), and the routing table paths that embed it
// (Router.RouteKey / RouteKeys / RouteAuthorities -> Route.HashSlot) with an
// installed table whose physical slot count differs from its hash-slot count.

import (
	"fmt"
	"sync"
	"testing"

	"github.com/WuKongIM/WuKongIM/pkg/cluster/control"
	"github.com/WuKongIM/WuKongIM/pkg/cluster/routing"
	"github.com/WuKongIM/WuKongIM/pkg/hashslot"
	"github.com/WuKongIM/WuKongIM/pkg/verifkit"
	"github.com/WuKongIM/WuKongIM/verifrt/c21"
)

// c21Snapshot builds a valid control snapshot with `count` hash slots spread
// over min(3,count) physical slots (so slot count != hash-slot count whenever
// count > 3).
func c21Snapshot(count uint16) (control.Snapshot, []routing.SlotStatus) {
	k := 3
	if int(count) < k {
		k = int(count)
	}
	snap := control.Snapshot{
		Revision:     1,
		ControllerID: 1,
		Nodes:        []control.Node{{NodeID: 1, Addr: "127.0.0.1:1001", Roles: []control.Role{control.RoleData}, Status: control.NodeAlive}},
		HashSlots:    control.HashSlotTable{Revision: 1, Count: count},
	}
	var leaders []routing.SlotStatus
	per := int(count) / k
	from := 0
	for i := 1; i <= k; i++ {
		to := from + per - 1
		if i == k {
			to = int(count) - 1
		}
		snap.Slots = append(snap.Slots, control.SlotAssignment{SlotID: uint32(i), DesiredPeers: []uint64{1}, ConfigEpoch: 1, PreferredLeader: 1})
		snap.HashSlots.Ranges = append(snap.HashSlots.Ranges, control.HashSlotRange{From: uint16(from), To: uint16(to), SlotID: uint32(i)})
		leaders = append(leaders, routing.SlotStatus{SlotID: uint32(i), Leader: 1})
		from = to + 1
	}
	return snap, leaders
}

type c21Routers struct {
	r    *verifkit.Run
	mu   sync.Mutex
	m    map[uint16]*routing.Router
	once sync.Once
}

func (c *c21Routers) get(count uint16) *routing.Router {
	c.mu.Lock()
	defer c.mu.Unlock()
	if rt, ok := c.m[count]; ok {
		return rt
	}
	rt := routing.NewRouter()
	snap, leaders := c21Snapshot(count)
	if err := rt.UpdateControlSnapshot(snap); err != nil {
		c.once.Do(func() { c.r.Inconclusive(fmt.Sprintf("harness: UpdateControlSnapshot(count=%d): %v", count, err)) })
		c.m[count] = nil
		return nil
	}
	rt.UpdateSlotLeaders(leaders)
	c.m[count] = rt
	return rt
}

func (c *c21Routers) fail(what string, count uint16, err error) {
	c.r.Count("router_route_errors", 1)
	c.once.Do(func() { c.r.Inconclusive(fmt.Sprintf("harness: %s(count=%d) returned error: %v", what, count, err)) })
}

func TestVerifC21Cross(t *testing.T) {
	r := verifkit.Start(t, "C21", "cross")
	defer r.Finish()
	r.SetRule("keys: fixed dictionary (empty, uids, person/group/cmd channel ids, device keys, unicode, NUL/0xff/non-UTF-8, CRC check strings, long) and PRNG keys of the same classes incl. arbitrary bytes and 4KiB..1MiB keys; counts: every 1..65535 for a subset of the dictionary, edge values (1, powers of two +-1, 65521, 65535) and PRNG counts otherwise. Non-trivial = (key,count) with count>=2; distinct by (key class, key-length bucket, count).")
	r.Assume("pkg/hashslot.HashSlotForKey is taken as the canonical component the others are compared with (the others document themselves as mirrors of it); crc32.ChecksumIEEE(key)%count is evidence only")
	canon := c21.Component{Name: "hashslot.HashSlotForKey", Fn: hashslot.HashSlotForKey}
	c21.Drive(r, canon, []c21.Component{
		{Name: "routing.HashSlotForKey", Fn: routing.HashSlotForKey},
	}, c21.Options{FixedKeys: r.N(6, 47), RandomPairs: r.N(150_000, 3_000_000), LongKeys: r.N(12, 300), ConcurrentPairs: r.N(20_000, 400_000), Goroutines: 4})

	rs := &c21Routers{r: r, m: map[uint16]*routing.Router{}}
	c21.Drive(r, canon, []c21.Component{
		{Name: "routing.Router.RouteKey", Fn: func(key string, count uint16) uint16 {
			rt := rs.get(count)
			if rt == nil {
				return hashslot.HashSlotForKey(key, count)
			}
			route, err := rt.RouteKey(key)
			if err != nil {
				rs.fail("RouteKey", count, err)
				return hashslot.HashSlotForKey(key, count)
			}
			return route.HashSlot
		}},
		{Name: "routing.Router.RouteAuthorities", Fn: func(key string, count uint16) uint16 {
			rt := rs.get(count)
			if rt == nil {
				return hashslot.HashSlotForKey(key, count)
			}
			routes, err := rt.RouteAuthorities([]string{"other-key", key})
			if err != nil || len(routes) != 2 {
				rs.fail("RouteAuthorities", count, err)
				return hashslot.HashSlotForKey(key, count)
			}
			return routes[1].HashSlot
		}},
		{Name: "routing.Router.RouteKeysPartial", Fn: func(key string, count uint16) uint16 {
			rt := rs.get(count)
			if rt == nil {
				return hashslot.HashSlotForKey(key, count)
			}
			res, err := rt.RouteKeysPartial([]string{key})
			if err != nil || len(res) != 1 || res[0].Err != nil {
				if err == nil && len(res) == 1 {
					err = res[0].Err
				}
				rs.fail("RouteKeysPartial", count, err)
				return hashslot.HashSlotForKey(key, count)
			}
			return res[0].Route.HashSlot
		}},
	}, c21.Options{CaseBase: 1000, FixedKeys: 6, CountPool: r.N(160, 1200), RandomPairs: r.N(30_000, 1_000_000), ConcurrentPairs: r.N(5_000, 100_000), Goroutines: 4})

	c21RouterHistories(r, 5000)
}
