//go:build verif

// Package c21 is the shared workload/oracle of the C21 monitor ("every
// component routes a key to the same hash slot"). It is overlaid at
// /repo/verifrt/c21 and imported by the per-package units, which plug in the
// real key->hash-slot functions of their package.
//
// Statement: "Every component that maps a user, channel or device key to a
// hash slot computes the same value for the same key and hash-slot count, the
// value is below the count, and it depends on nothing but the key and the
// count."
//
// Oracle per (key, count), count in 1..65535:
//   - agreement: every component returns the value the canonical component
//     (pkg/hashslot.HashSlotForKey, the one the others say they mirror)
//     returns                                        -> "disagree:<c>-vs-<canon>"
//   - range: value < count                           -> "out-of-range:<c>"
//   - purity: the same (key bytes, count) gives the same value when asked
//     again, after other keys/counts were asked in between, through a string
//     with a different backing array/alignment, and from several goroutines at
//     once (units run under -race)                   -> "unstable:<c>", "backing-dependent:<c>"
//
// The statement does not fix the formula, so crc32.ChecksumIEEE(key)%count is
// computed only as evidence (ref_agree / ref_disagree.<c>): a disagreement with
// it that all components share would not contradict the statement.
// count == 0 is outside the quantifier (1..65535); agreement there is counted,
// not asserted.
package c21

import (
	"encoding/hex"
	"fmt"
	"hash/crc32"
	"math/rand/v2"
	"runtime/debug"
	"strconv"
	"strings"
	"sync"
	"unicode/utf8"

	"github.com/WuKongIM/WuKongIM/pkg/verifkit"
)

// Component is one key->hash-slot mapping under observation.
type Component struct {
	Name string
	Fn   func(key string, count uint16) uint16
}

// Options sizes one unit's run.
type Options struct {
	// FixedKeys: how many keys of the fixed dictionary are run against every
	// count 1..65535 (0 = phase skipped).
	FixedKeys int
	// CountPool > 0 restricts all counts to a deterministic pool of that many
	// values (for components that need a constructed object per count).
	CountPool int
	// RandomPairs: PRNG (key, count) pairs.
	RandomPairs int
	// LongKeys: keys of 4 KiB..1 MiB.
	LongKeys int
	// Goroutines for the concurrent stability phase (0 = 4).
	Goroutines int
	// ConcurrentPairs evaluated by every goroutine.
	ConcurrentPairs int
	// CaseBase offsets the case indices (several Drive calls in one unit).
	CaseBase int
}

type keyCase struct {
	Key   string
	Class string
}

var fixedDict = []keyCase{
	{"", "empty"},
	{"u1", "uid"}, {"u2", "uid"}, {"user_10001", "uid"}, {"10001", "uid"}, {"alice", "uid"}, {"bob", "uid"},
	{"9f1c2a7e-6b0d-4d55-8b1e-0c9d2f3a4b5c", "uuid"}, {"c3b1f0a29d7e4c11a5e0b6d2f8e91234", "uuid"},
	{"alice@bob", "person-channel"}, {"u1@u2", "person-channel"}, {"10001@10002", "person-channel"},
	{"g_1000", "group-channel"}, {"group-7f3a", "group-channel"}, {"bench-run1-groups-hs-12", "group-channel"}, {"bench-run1-groups-hs-12-3", "group-channel"},
	{"alice____cmd", "cmd-channel"}, {"alice@bob____cmd", "cmd-channel"},
	{"u1-1-web", "device"}, {"u1:0:app", "device"}, {"device/ABCDEF0123456789", "device"},
	{"用户一", "unicode"}, {"频道@用户", "unicode"}, {"😀😀", "unicode"}, {"é", "unicode"},
	{"\x00", "binary"}, {"\x00\x00\x00\x00", "binary"}, {"\xff", "binary"}, {"\xff\xff\xff\xff", "binary"}, {"\x80", "binary"}, {"\x7f\x80\x81\xfe\xff", "binary"},
	{"\xc3\x28", "non-utf8"}, {"abc\xf0\x28\x8c\xbc", "non-utf8"}, {"\xed\xa0\x80", "non-utf8"},
	{" ", "space"}, {"a b", "space"}, {"a\nb", "space"}, {"a\tb\r", "space"},
	{"a", "short"}, {"b", "short"}, {"ab", "short"}, {"ba", "short"}, {"aaaaaaaaaaaaaaaaaaaaaaaaaaaaaaaaaaaaaaaaaaaaaaaaaaaaaaaaaaaaaaaa", "repeat"},
	{"123456789", "crc-check-string"}, {"The quick brown fox jumps over the lazy dog", "crc-check-string"},
	{strings.Repeat("\xff", 300), "binary"}, {strings.Repeat("k", 4097), "long"},
}

var edgeCounts = []uint16{1, 2, 3, 4, 5, 7, 8, 15, 16, 17, 31, 32, 63, 64, 100, 127, 128, 255, 256, 257, 511, 512, 1000, 1023, 1024, 1025, 4095, 4096, 4097, 8191, 8192, 16384, 32767, 32768, 32769, 65521, 65534, 65535}

func genKey(rng *rand.Rand) keyCase {
	const alnum = "abcdefghijklmnopqrstuvwxyzABCDEFGHIJKLMNOPQRSTUVWXYZ0123456789_-"
	switch rng.IntN(12) {
	case 0: // uid-like numeric
		return keyCase{"u" + strconv.FormatUint(rng.Uint64N(10_000_000), 10), "uid"}
	case 1:
		return keyCase{strconv.FormatUint(rng.Uint64(), 10), "uid"}
	case 2: // person channel
		a := "u" + strconv.FormatUint(rng.Uint64N(100000), 10)
		b := "u" + strconv.FormatUint(rng.Uint64N(100000), 10)
		return keyCase{a + "@" + b, "person-channel"}
	case 3: // hex uuid
		b := make([]byte, 16)
		for i := range b {
			b[i] = byte(rng.UintN(256))
		}
		return keyCase{hex.EncodeToString(b), "uuid"}
	case 4: // device
		return keyCase{fmt.Sprintf("u%d-%d-%s", rng.IntN(100000), rng.IntN(3), []string{"app", "web", "pc"}[rng.IntN(3)]), "device"}
	case 5, 6: // arbitrary bytes, short
		n := rng.IntN(24)
		b := make([]byte, n)
		for i := range b {
			b[i] = byte(rng.UintN(256))
		}
		k := string(b)
		if utf8.ValidString(k) {
			return keyCase{k, "bytes-utf8"}
		}
		return keyCase{k, "non-utf8"}
	case 7: // high bytes only
		n := 1 + rng.IntN(40)
		b := make([]byte, n)
		for i := range b {
			b[i] = byte(0x80 + rng.UintN(128))
		}
		return keyCase{string(b), "non-utf8"}
	case 8: // unicode text
		runes := []rune("用户频道群组消息测试éüñ😀🚀Ωж")
		n := 1 + rng.IntN(12)
		var sb strings.Builder
		for i := 0; i < n; i++ {
			sb.WriteRune(runes[rng.IntN(len(runes))])
		}
		return keyCase{sb.String(), "unicode"}
	case 9: // medium arbitrary
		n := 24 + rng.IntN(400)
		b := make([]byte, n)
		for i := range b {
			b[i] = byte(rng.UintN(256))
		}
		return keyCase{string(b), "bytes-medium"}
	case 10: // group/bench ids
		return keyCase{fmt.Sprintf("bench-r%d-groups-hs-%d-%d", rng.IntN(100), rng.IntN(4096), rng.IntN(50)), "group-channel"}
	default:
		n := 1 + rng.IntN(32)
		b := make([]byte, n)
		for i := range b {
			b[i] = alnum[rng.IntN(len(alnum))]
		}
		return keyCase{string(b), "alnum"}
	}
}

func genCount(rng *rand.Rand) uint16 {
	switch rng.IntN(6) {
	case 0:
		return edgeCounts[rng.IntN(len(edgeCounts))]
	case 1:
		return uint16(1 + rng.IntN(64))
	case 2:
		return uint16(1) << rng.IntN(16)
	default:
		return uint16(1 + rng.IntN(65535))
	}
}

func lenBucket(n int) int {
	b := 0
	for n > 0 {
		n >>= 1
		b++
	}
	return b
}

type driver struct {
	r      *verifkit.Run
	canon  Component
	others []Component
	pool   []uint16
	// counters of the single-goroutine phases, flushed at the end (a kit
	// counter costs a mutex; there are millions of evaluations)
	local       map[string]int
	evals       int
	refAgree    []int
	refDisagree []int
}

func (d *driver) cnt(key string, n int) { d.local[key] += n }

func (d *driver) flush() {
	for k, v := range d.local {
		if strings.Contains(k, "count0") {
			d.r.Count(k, v)
		} else {
			d.r.Count("class."+k, v)
		}
	}
	d.local = map[string]int{}
	d.r.Eval(d.evals)
	d.evals = 0
	for i, c := range append([]Component{d.canon}, d.others...) {
		if d.refAgree[i] > 0 {
			d.r.Count("ref_agree."+c.Name, d.refAgree[i])
		}
		if d.refDisagree[i] > 0 {
			d.r.Count("ref_disagree."+c.Name, d.refDisagree[i])
		}
		d.refAgree[i], d.refDisagree[i] = 0, 0
	}
}

func (d *driver) witness(k keyCase, count uint16, extra map[string]any) map[string]any {
	key := k.Key
	w := map[string]any{"class": k.Class, "key_len": len(key), "count": count}
	if len(key) <= 128 {
		w["key_hex"] = hex.EncodeToString([]byte(key))
		if utf8.ValidString(key) {
			w["key"] = key
		}
	} else {
		w["key_hex_head"] = hex.EncodeToString([]byte(key[:64]))
		w["key_crc32_ieee"] = crc32.ChecksumIEEE([]byte(key))
	}
	for kk, v := range extra {
		w[kk] = v
	}
	return w
}

// call runs one component; a panic becomes a violation (witness built lazily:
// this is the hot path).
func (d *driver) call(c Component, k keyCase, count uint16) (v uint16, ok bool) {
	defer func() {
		if p := recover(); p != nil {
			ok = false
			d.r.Violation("panic:"+c.Name, d.witness(k, count, map[string]any{"panic": fmt.Sprint(p), "stack": string(debug.Stack())}))
		}
	}()
	return c.Fn(k.Key, count), true
}

// eval compares all components on one (key, count) and returns the canonical value.
func (d *driver) eval(k keyCase, count uint16, fp bool) uint16 {
	r := d.r
	if count == 0 {
		// outside the quantifier: evidence only, panics swallowed
		agree := true
		var cv uint16
		for i, o := range append([]Component{d.canon}, d.others...) {
			var v uint16
			panicked := false
			func() {
				defer func() {
					if recover() != nil {
						panicked = true
					}
				}()
				v = o.Fn(k.Key, 0)
			}()
			if i == 0 {
				cv = v
			}
			if panicked || v != cv {
				agree = false
			}
		}
		if agree {
			d.cnt("count0_agree", 1)
		} else {
			d.cnt("count0_disagree_or_panic", 1)
		}
		return cv
	}
	cv, ok := d.call(d.canon, k, count)
	if !ok {
		return 0
	}
	d.evals++
	if cv >= count {
		r.Violation("out-of-range:"+d.canon.Name, d.witness(k, count, map[string]any{"value": cv}))
	}
	ref := uint16(crc32.ChecksumIEEE([]byte(k.Key)) % uint32(count))
	if cv == ref {
		d.refAgree[0]++
	} else {
		d.refDisagree[0]++
	}
	for i, o := range d.others {
		v, ok := d.call(o, k, count)
		if !ok {
			continue
		}
		d.evals++
		if v != cv {
			r.Violation("disagree:"+o.Name+"-vs-"+d.canon.Name, d.witness(k, count, map[string]any{o.Name: v, d.canon.Name: cv, "crc32_ieee_mod_count": ref}))
		}
		if v >= count {
			r.Violation("out-of-range:"+o.Name, d.witness(k, count, map[string]any{"value": v}))
		}
		if v == ref {
			d.refAgree[i+1]++
		} else {
			d.refDisagree[i+1]++
		}
	}
	if fp && count >= 2 {
		var sb [48]byte
		b := append(sb[:0], k.Class...)
		b = append(b, '|')
		b = strconv.AppendInt(b, int64(lenBucket(len(k.Key))), 10)
		b = append(b, '|')
		b = strconv.AppendUint(b, uint64(count), 10)
		r.Nontrivial(string(b))
	}
	d.local[k.Class]++
	return cv
}

func (d *driver) count(rng *rand.Rand) uint16 {
	if len(d.pool) > 0 {
		return d.pool[rng.IntN(len(d.pool))]
	}
	return genCount(rng)
}

// Drive runs the whole workload. canon is the component the others are
// compared against.
func Drive(r *verifkit.Run, canon Component, others []Component, o Options) {
	d := &driver{r: r, canon: canon, others: others, local: map[string]int{},
		refAgree: make([]int, len(others)+1), refDisagree: make([]int, len(others)+1)}
	defer d.flush()
	names := []string{canon.Name}
	for _, c := range others {
		names = append(names, c.Name)
	}
	r.Note("components", names)
	r.Note("canonical_component", canon.Name)
	if o.CountPool > 0 {
		rng := r.Rand(21, 1)
		seen := map[uint16]struct{}{}
		for _, c := range edgeCounts {
			if len(d.pool) < o.CountPool {
				d.pool = append(d.pool, c)
				seen[c] = struct{}{}
			}
		}
		for len(d.pool) < o.CountPool {
			c := genCount(rng)
			if _, ok := seen[c]; ok {
				continue
			}
			seen[c] = struct{}{}
			d.pool = append(d.pool, c)
		}
		r.Note("count_pool_size", len(d.pool))
	}
	caseIdx := o.CaseBase

	// phase 1: fixed dictionary x every count
	nFixed := o.FixedKeys
	if nFixed > len(fixedDict) {
		nFixed = len(fixedDict)
	}
	if nFixed > 0 {
		// spread the picked keys over the dictionary (it is grouped by class)
		step := len(fixedDict) / nFixed
		if step < 1 {
			step = 1
		}
		for i := 0; i < nFixed; i++ {
			k := fixedDict[(i*step)%len(fixedDict)]
			if !r.Skip(caseIdx) {
				r.BeginCase(caseIdx, fmt.Sprintf("fixed key #%d class=%s len=%d x all counts", i, k.Class, len(k.Key)))
				if len(d.pool) > 0 {
					for _, c := range d.pool {
						d.eval(k, c, true)
					}
				} else {
					for c := 1; c <= 65535; c++ {
						d.eval(k, uint16(c), i < 8)
					}
					r.Count("keys_run_against_all_65535_counts", 1)
				}
				if len(d.pool) == 0 {
					d.eval(k, 0, false) // outside the quantifier; evidence only
				}
			}
			caseIdx++
		}
	}
	// every dictionary key against the edge counts (or the pool)
	if !r.Skip(caseIdx) {
		r.BeginCase(caseIdx, "dictionary x edge counts")
		cs := edgeCounts
		if len(d.pool) > 0 {
			cs = d.pool
			if len(cs) > 64 {
				cs = cs[:64]
			}
		}
		for _, k := range fixedDict {
			for _, c := range cs {
				d.eval(k, c, true)
			}
		}
	}
	caseIdx++

	// phase 2: PRNG pairs
	const chunk = 20000
	for off := 0; off < o.RandomPairs; off += chunk {
		if !r.Skip(caseIdx) {
			r.BeginCase(caseIdx, fmt.Sprintf("prng pairs %d..", off))
			rng := r.Rand(21, 2, uint64(off))
			n := chunk
			if o.RandomPairs-off < n {
				n = o.RandomPairs - off
			}
			for i := 0; i < n; i++ {
				k := genKey(rng)
				c := d.count(rng)
				v := d.eval(k, c, true)
				if i%64 == 0 {
					// same bytes, different backing array and alignment
					pad := strings.Repeat("x", 1+rng.IntN(7))
					k2 := (pad + k.Key + "y")[len(pad) : len(pad)+len(k.Key)]
					for _, comp := range append([]Component{d.canon}, d.others...) {
						var v2 uint16
						if r.Guard(comp.Name, d.witness(k, c, nil), func() { v2 = comp.Fn(k2, c) }) {
							continue
						}
						if comp.Name == d.canon.Name && v2 != v {
							r.Violation("backing-dependent:"+comp.Name, d.witness(k, c, map[string]any{"first": v, "second": v2}))
						} else if comp.Name != d.canon.Name && v2 != v {
							// either backing dependence or disagreement; the plain call above decides which
							var v1 uint16
							r.Guard(comp.Name, nil, func() { v1 = comp.Fn(k.Key, c) })
							if v1 != v2 {
								r.Violation("backing-dependent:"+comp.Name, d.witness(k, c, map[string]any{"first": v1, "second": v2}))
							}
						}
					}
					r.Count("backing_checks", 1)
				}
				if r.WantSample() && i == 7 {
					r.Sample(d.witness(k, c, map[string]any{"value": v}))
				}
			}
		}
		caseIdx++
	}

	// phase 3: long keys
	if o.LongKeys > 0 {
		if !r.Skip(caseIdx) {
			r.BeginCase(caseIdx, "long keys")
			rng := r.Rand(21, 3)
			for i := 0; i < o.LongKeys; i++ {
				n := 4096 << rng.IntN(9) // 4 KiB .. 1 MiB
				n += rng.IntN(17) - 8
				b := make([]byte, n)
				x := rng.Uint64()
				for j := range b {
					x = x*6364136223846793005 + 1442695040888963407
					b[j] = byte(x >> 56)
				}
				k := keyCase{string(b), "long"}
				for j := 0; j < 3; j++ {
					d.eval(k, d.count(rng), true)
				}
				r.Max("max_key_len", n)
			}
		}
		caseIdx++
	}

	// phase 4: stability under repetition, interleaving and concurrency
	if o.ConcurrentPairs > 0 {
		if !r.Skip(caseIdx) {
			r.BeginCase(caseIdx, "stability: repeated / shuffled / concurrent")
			rng := r.Rand(21, 4)
			type pair struct {
				k keyCase
				c uint16
			}
			pairs := make([]pair, o.ConcurrentPairs)
			for i := range pairs {
				if i%5 == 0 {
					pairs[i] = pair{fixedDict[rng.IntN(len(fixedDict))], d.count(rng)}
				} else {
					pairs[i] = pair{genKey(rng), d.count(rng)}
				}
			}
			comps := append([]Component{d.canon}, d.others...)
			base := make([][]uint16, len(comps))
			for ci, comp := range comps {
				base[ci] = make([]uint16, len(pairs))
				comp := comp
				if r.Guard(comp.Name, "baseline", func() {
					for i, p := range pairs {
						base[ci][i] = comp.Fn(p.k.Key, p.c)
					}
				}) {
					return
				}
			}
			g := o.Goroutines
			if g <= 0 {
				g = 4
			}
			var wg sync.WaitGroup
			for w := 0; w < g; w++ {
				wg.Add(1)
				wrng := r.Rand(21, 5, uint64(w))
				go func(w int) {
					defer wg.Done()
					order := wrng.Perm(len(pairs))
					for _, i := range order {
						p := pairs[i]
						for ci, comp := range comps {
							v, ok := d.call(comp, p.k, p.c)
							if !ok {
								return
							}
							if v != base[ci][i] {
								r.Violation("unstable:"+comp.Name, d.witness(p.k, p.c, map[string]any{"baseline": base[ci][i], "concurrent": v, "goroutine": w}))
							}
						}
					}
					r.Count("concurrent_evaluations", len(comps)*len(order))
				}(w)
			}
			wg.Wait()
			r.Eval(g * len(pairs) * len(comps))
		}
		caseIdx++
	}
}
