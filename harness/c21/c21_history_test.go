//go:build verif

package c21_test

// C21 family "count-changing snapshot histories" (part of unit cross): ONE
// Router receives a PRNG sequence of 3-8 UpdateControlSnapshot installs whose
// hash-slot counts grow, shrink and repeat, with layouts (a) one Slot owning
// everything, (b) contiguous ranges whose first range covers a smaller earlier
// or later count, (c) random ranges. After EVERY install, for a few hundred
// keys: the router's hash slot (RouteKey / RouteAuthorities / RouteKeysPartial
// and the table's HashSlotCount) must equal
// hashslot.HashSlotForKey(key, count of the snapshot just installed), be below
// that count, and equal what a FRESH router given only that snapshot answers
// (the mapping depends on nothing but key and count, not on snapshot history).

import (
	"fmt"
	"math/rand/v2"
	"testing"

	"github.com/WuKongIM/WuKongIM/pkg/cluster/control"
	"github.com/WuKongIM/WuKongIM/pkg/cluster/routing"
	"github.com/WuKongIM/WuKongIM/pkg/hashslot"
	"github.com/WuKongIM/WuKongIM/pkg/verifkit"
)

var _ = testing.Short

func c21HistorySnapshot(rng *rand.Rand, rev uint64, count uint16, layout int, hint uint16) (control.Snapshot, []routing.SlotStatus) {
	snap := control.Snapshot{
		Revision:     rev,
		ControllerID: 1,
		Nodes:        []control.Node{{NodeID: 1, Addr: "127.0.0.1:1001", Roles: []control.Role{control.RoleData}, Status: control.NodeAlive}},
		HashSlots:    control.HashSlotTable{Revision: rev, Count: count},
	}
	var leaders []routing.SlotStatus
	for id := uint32(1); id <= 3; id++ {
		snap.Slots = append(snap.Slots, control.SlotAssignment{SlotID: id, DesiredPeers: []uint64{1}, ConfigEpoch: 1, PreferredLeader: 1})
		leaders = append(leaders, routing.SlotStatus{SlotID: id, Leader: 1, LeaderTerm: 1})
	}
	n := int(count)
	var cuts []int // exclusive ends of all ranges but the last
	switch layout {
	case 0: // one Slot for everything
	case 1: // first range covers the hinted (smaller) count, rest split once more
		first := int(hint)
		if first <= 0 || first >= n {
			first = n * 3 / 4
		}
		if first >= 1 && first < n {
			cuts = append(cuts, first)
			if rest := n - first; rest >= 2 {
				cuts = append(cuts, first+1+rng.IntN(rest-1))
			}
		}
	default: // random ranges
		for c, k := 0, rng.IntN(5); k > 0 && c+1 < n; k-- {
			c += 1 + rng.IntN(n-c-1)
			cuts = append(cuts, c)
		}
	}
	from := 0
	slot := uint32(1)
	if layout == 2 {
		slot = uint32(1 + rng.IntN(3))
	}
	for _, c := range append(cuts, n) {
		snap.HashSlots.Ranges = append(snap.HashSlots.Ranges, control.HashSlotRange{From: uint16(from), To: uint16(c - 1), SlotID: slot})
		from = c
		if layout == 2 {
			slot = uint32(1 + rng.IntN(3))
		} else if slot < 3 {
			slot++
		}
	}
	return snap, leaders
}

func c21RouterHistories(r *verifkit.Run, caseBase int) {
	hostile := []uint16{1, 2, 3, 5, 7, 12, 16, 17, 63, 64, 100, 255, 256, 257, 1000, 1023, 1024, 4095, 4096, 4097, 8191, 65521, 65535}
	keys := make([]string, 0, 300)
	krng := r.Rand(21, 11)
	for _, k := range []string{"", "u1", "alice@bob", "g_1000", "u1-1-web", "用户一", "\x00", "\xff\xff\xff\xff", "\xc3\x28", "123456789"} {
		keys = append(keys, k)
	}
	for len(keys) < 300 {
		n := 1 + krng.IntN(24)
		b := make([]byte, n)
		for i := range b {
			if krng.IntN(3) == 0 {
				b[i] = byte(krng.UintN(256))
			} else {
				b[i] = "abcdefghijklmnopqrstuvwxyz0123456789@_-"[krng.IntN(39)]
			}
		}
		keys = append(keys, string(b))
	}
	seen := map[string]int{}
	violate := func(sig string, w map[string]any) {
		seen[sig]++
		if seen[sig] <= 2 {
			r.Violation(sig, w)
		}
		r.Count("occurrences."+sig, 1)
	}
	nHist := r.N(120, 3000)
	for hi := 0; hi < nHist; hi++ {
		ci := caseBase + hi
		if r.Skip(ci) {
			continue
		}
		rng := r.Rand(21, 12, uint64(hi))
		steps := 3 + rng.IntN(6)
		counts := make([]uint16, steps)
		layouts := make([]int, steps)
		for i := range counts {
			switch rng.IntN(5) {
			case 0:
				counts[i] = uint16(1 + rng.IntN(65535))
			case 1:
				if i > 0 { // repeat an earlier count
					counts[i] = counts[rng.IntN(i)]
					break
				}
				fallthrough
			default:
				counts[i] = hostile[rng.IntN(len(hostile))]
			}
			layouts[i] = rng.IntN(3)
		}
		if hi == 0 {
			counts, layouts = []uint16{256, 12, 4096, 12, 1}, []int{0, 0, 1, 0, 0}
		}
		r.BeginCase(ci, fmt.Sprintf("router history counts=%v layouts=%v", counts, layouts))
		rt := routing.NewRouter()
		for i, c := range counts {
			hint := uint16(0)
			if i+1 < len(counts) && counts[i+1] < c {
				hint = counts[i+1] // first range covers the next, smaller count
			} else if i > 0 && counts[i-1] < c {
				hint = counts[i-1]
			}
			snap, leaders := c21HistorySnapshot(rng, uint64(i+1), c, layouts[i], hint)
			fresh := routing.NewRouter()
			if err := fresh.UpdateControlSnapshot(snap); err != nil {
				r.Inconclusive(fmt.Sprintf("harness: snapshot rejected (count=%d layout=%d): %v", c, layouts[i], err))
				return
			}
			fresh.UpdateSlotLeaders(leaders)
			if err := rt.UpdateControlSnapshot(snap); err != nil {
				violate("router-rejects-snapshot-a-fresh-router-accepts", map[string]any{"counts": counts[:i+1], "layouts": layouts[:i+1], "err": err.Error()})
				break
			}
			rt.UpdateSlotLeaders(leaders)
			w := func(extra map[string]any) map[string]any {
				m := map[string]any{"history_counts": counts[:i+1], "history_layouts": layouts[:i+1], "installed_count": c, "ranges": snap.HashSlots.Ranges}
				for k, v := range extra {
					m[k] = v
				}
				return m
			}
			if tc := rt.Table().HashSlotCount; tc != c {
				violate("router-hashslot-depends-on-snapshot-history", w(map[string]any{"what": "Table().HashSlotCount", "got": tc, "fresh_router": fresh.Table().HashSlotCount}))
			}
			auth, aerr := rt.RouteAuthorities(keys)
			for ki, key := range keys {
				want := hashslot.HashSlotForKey(key, c)
				got := map[string]uint16{}
				if route, err := rt.RouteKey(key); err == nil {
					got["routing.Router.RouteKey"] = route.HashSlot
				} else {
					r.Count("history_route_errors", 1)
					r.Note("history_route_error_example", err.Error())
				}
				if aerr == nil && len(auth) == len(keys) {
					got["routing.Router.RouteAuthorities"] = auth[ki].HashSlot
				}
				var freshHS uint16
				freshOK := false
				if route, err := fresh.RouteKey(key); err == nil {
					freshHS, freshOK = route.HashSlot, true
				}
				for comp, v := range got {
					ww := func() map[string]any {
						return w(map[string]any{"component": comp, "key": fmt.Sprintf("%q", key), "got": v, "hashslot.HashSlotForKey": want, "fresh_router": freshHS})
					}
					if v != want || (freshOK && v != freshHS) {
						violate("router-hashslot-depends-on-snapshot-history", ww())
					}
					if v >= c {
						violate("out-of-range-after-snapshot-history:"+comp, ww())
					}
					r.Eval(1)
				}
				if freshOK && freshHS != want {
					violate("disagree:routing.Router.RouteKey-vs-hashslot.HashSlotForKey", w(map[string]any{"key": fmt.Sprintf("%q", key), "fresh_router": freshHS, "hashslot.HashSlotForKey": want}))
				}
			}
			if aerr != nil {
				r.Count("history_route_errors", 1)
				r.Note("history_route_error_example", aerr.Error())
			}
			r.Count("history_installs", 1)
			if i > 0 && c < counts[i-1] {
				r.Count("history_installs_shrinking", 1)
				r.Nontrivial(fmt.Sprintf("hist|%d>%d|L%d", counts[i-1], c, layouts[i]))
			} else if i > 0 && c > counts[i-1] {
				r.Count("history_installs_growing", 1)
				r.Nontrivial(fmt.Sprintf("hist|%d<%d|L%d", counts[i-1], c, layouts[i]))
			}
		}
	}
}
