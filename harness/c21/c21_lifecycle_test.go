//go:build verif

package chatlifecycle

// C21 unit "lifecycle": internal/bench/chatlifecycle.lifecycleHashSlotForKey
// (a second unexported copy of the mapping, not listed in the anchors but a
// "component that maps a channel key to a hash slot") against the canonical
// pkg/hashslot.HashSlotForKey.

import (
	"testing"

	"github.com/WuKongIM/WuKongIM/pkg/hashslot"
	"github.com/WuKongIM/WuKongIM/pkg/verifkit"
	"github.com/WuKongIM/WuKongIM/verifrt/c21"
)

func TestVerifC21Lifecycle(t *testing.T) {
	r := verifkit.Start(t, "C21", "lifecycle")
	defer r.Finish()
	r.SetRule("same key/count workload as unit cross, components: hashslot.HashSlotForKey (canonical), chatlifecycle.lifecycleHashSlotForKey. Non-trivial = count>=2; distinct by (key class, key-length bucket, count).")
	canon := c21.Component{Name: "hashslot.HashSlotForKey", Fn: hashslot.HashSlotForKey}
	c21.Drive(r, canon, []c21.Component{
		{Name: "chatlifecycle.lifecycleHashSlotForKey", Fn: lifecycleHashSlotForKey},
	}, c21.Options{FixedKeys: r.N(2, 47), RandomPairs: r.N(80_000, 1_500_000), LongKeys: r.N(6, 100), ConcurrentPairs: r.N(10_000, 200_000), Goroutines: 4})
}
