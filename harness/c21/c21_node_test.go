//go:build verif

package cluster

// C21 unit "node": (*cluster.Node).HashSlotForKey and the Node routing paths.
// In-package because the count the Node uses comes from unexported state
// (installed router table, readiness snapshot, control snapshot, config) and a
// Node cannot install a table without a running control plane. Each source of
// the count is exercised separately; the installed table always has a
// physical slot count different from its hash-slot count.

import (
	"fmt"
	"sync"
	"testing"

	"github.com/WuKongIM/WuKongIM/pkg/cluster/control"
	"github.com/WuKongIM/WuKongIM/pkg/cluster/routing"
	"github.com/WuKongIM/WuKongIM/pkg/hashslot"
	"github.com/WuKongIM/WuKongIM/pkg/verifkit"
	"github.com/WuKongIM/WuKongIM/verifrt/c21"
)

func c21NodeSnapshot(count uint16) (control.Snapshot, []routing.SlotStatus) {
	k := 3
	if int(count) < k {
		k = int(count)
	}
	snap := control.Snapshot{
		Revision:     7,
		ControllerID: 1,
		Nodes:        []control.Node{{NodeID: 1, Addr: "127.0.0.1:1001", Roles: []control.Role{control.RoleData}, Status: control.NodeAlive}},
		HashSlots:    control.HashSlotTable{Revision: 9, Count: count},
	}
	var leaders []routing.SlotStatus
	per := int(count) / k
	from := 0
	for i := 1; i <= k; i++ {
		to := from + per - 1
		if i == k {
			to = int(count) - 1
		}
		snap.Slots = append(snap.Slots, control.SlotAssignment{SlotID: uint32(i), DesiredPeers: []uint64{1}, ConfigEpoch: 1, PreferredLeader: 1})
		snap.HashSlots.Ranges = append(snap.HashSlots.Ranges, control.HashSlotRange{From: uint16(from), To: uint16(to), SlotID: uint32(i)})
		leaders = append(leaders, routing.SlotStatus{SlotID: uint32(i), Leader: 1})
		from = to + 1
	}
	return snap, leaders
}

type c21NodeSet struct {
	table, snapshot, control, config *Node
}

type c21Nodes struct {
	r    *verifkit.Run
	dir  string
	mu   sync.Mutex
	m    map[uint16]*c21NodeSet
	once sync.Once
}

func (c *c21Nodes) bad(format string, args ...any) {
	c.once.Do(func() { c.r.Inconclusive("harness: " + fmt.Sprintf(format, args...)) })
}

func (c *c21Nodes) newNode(cfgCount uint16) *Node {
	cfg := Config{NodeID: 1, ListenAddr: "127.0.0.1:0", DataDir: c.dir}
	cfg.Slots.HashSlotCount = cfgCount
	n, err := New(cfg)
	if err != nil {
		c.bad("cluster.New: %v", err)
		return nil
	}
	return n
}

// decoy is a count different from `count` placed in the lower-priority
// sources, so that reading the wrong source is visible.
func c21Decoy(count uint16) uint16 {
	if count == 257 {
		return 263
	}
	return 257
}

func (c *c21Nodes) get(count uint16) *c21NodeSet {
	c.mu.Lock()
	defer c.mu.Unlock()
	if s, ok := c.m[count]; ok {
		return s
	}
	var set *c21NodeSet
	func() {
		snap, leaders := c21NodeSnapshot(count)
		// (a) installed router table decides; every other source holds a decoy
		a := c.newNode(c21Decoy(count))
		// (b) no table; readiness snapshot decides
		b := c.newNode(c21Decoy(count))
		// (c) no table, empty readiness snapshot; control snapshot decides
		cc := c.newNode(c21Decoy(count))
		// (d) nothing installed; configuration decides
		d := c.newNode(count)
		if a == nil || b == nil || cc == nil || d == nil {
			return
		}
		if err := a.router.UpdateControlSnapshot(snap); err != nil {
			c.bad("UpdateControlSnapshot(count=%d): %v", count, err)
			return
		}
		a.router.UpdateSlotLeaders(leaders)
		a.controlSnapshot = snap
		a.snapshot = Snapshot{NodeID: 1, StateRevision: snap.Revision, RoutesReady: true, SlotsReady: true, ChannelsReady: true, SlotCount: uint32(len(snap.Slots)), HashSlotCount: count}
		a.started.Store(true)
		b.snapshot = Snapshot{NodeID: 1, SlotCount: 3, HashSlotCount: count}
		b.controlSnapshot.HashSlots.Count = c21Decoy(count)
		cc.controlSnapshot.HashSlots.Count = count
		cc.controlSnapshot.Slots = snap.Slots
		set = &c21NodeSet{table: a, snapshot: b, control: cc, config: d}
	}()
	c.m[count] = set
	return set
}

func TestVerifC21Node(t *testing.T) {
	r := verifkit.Start(t, "C21", "node")
	defer r.Finish()
	r.SetRule("same key generator as unit cross; counts from a deterministic pool (edge values + PRNG); for each count four Nodes whose hash-slot count comes from (a) the installed route table (3 physical slots), (b) the readiness snapshot, (c) the control snapshot, (d) the configuration, lower-priority sources holding a different decoy count; components: hashslot.HashSlotForKey (canonical), Node.HashSlotForKey on each, Node.RouteKey/RouteAuthorities/SlotForKey-consistent HashSlot on (a), routing.HashSlotForKey. Non-trivial = count>=2; distinct by (key class, key-length bucket, count).")
	ns := &c21Nodes{r: r, dir: t.TempDir(), m: map[uint16]*c21NodeSet{}}
	canon := c21.Component{Name: "hashslot.HashSlotForKey", Fn: hashslot.HashSlotForKey}
	via := func(name string, pick func(*c21NodeSet) *Node) c21.Component {
		return c21.Component{Name: name, Fn: func(key string, count uint16) uint16 {
			s := ns.get(count)
			if s == nil {
				return hashslot.HashSlotForKey(key, count)
			}
			return pick(s).HashSlotForKey(key)
		}}
	}
	c21.Drive(r, canon, []c21.Component{
		via("cluster.Node.HashSlotForKey[table]", func(s *c21NodeSet) *Node { return s.table }),
		via("cluster.Node.HashSlotForKey[snapshot]", func(s *c21NodeSet) *Node { return s.snapshot }),
		via("cluster.Node.HashSlotForKey[control-snapshot]", func(s *c21NodeSet) *Node { return s.control }),
		via("cluster.Node.HashSlotForKey[config]", func(s *c21NodeSet) *Node { return s.config }),
		{Name: "cluster.Node.RouteKey", Fn: func(key string, count uint16) uint16 {
			s := ns.get(count)
			if s == nil {
				return hashslot.HashSlotForKey(key, count)
			}
			route, err := s.table.RouteKey(key)
			if err != nil {
				r.Count("node_route_errors", 1)
				ns.bad("Node.RouteKey(count=%d): %v", count, err)
				return hashslot.HashSlotForKey(key, count)
			}
			return route.HashSlot
		}},
		{Name: "routing.HashSlotForKey", Fn: routing.HashSlotForKey},
	}, c21.Options{FixedKeys: 8, CountPool: r.N(150, 600), RandomPairs: r.N(40_000, 400_000), LongKeys: r.N(4, 60), ConcurrentPairs: r.N(6_000, 100_000), Goroutines: 4})
	r.Count("nodes_constructed", 4*len(ns.m))
}
