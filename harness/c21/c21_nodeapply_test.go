//go:build verif

package cluster

// C21 unit "nodeapply": the Node's key->hash-slot mapping while a control
// snapshot is being applied. The static `node` unit fixes the count sources as
// fields; here the REAL Node.applySnapshot runs (first apply and later applies
// that change the hash-slot count) on a Node built with New(), and the
// mappings are evaluated
//
//   - from inside the apply, at the seams the Node itself calls between
//     "route table installed" and "snapshot published" (the slot reconciler and
//     the task executor, injected with the package's own options), and after
//     publication (Config.Control.SnapshotObserver);
//   - from a goroutine spinning concurrently with the applies (-race).
//
// Components compared per key: Node.HashSlotForKey, Node.RouteKey(.HashSlot),
// the installed Router's RouteKey(.HashSlot) and the canonical
// hashslot.HashSlotForKey(key, count of the installed route table). They must
// agree and be < that count ("disagree-during-snapshot-apply:<component>",
// "out-of-range-during-snapshot-apply:<component>").
//
// Soundness of the concurrent observer: the installed table is an immutable
// value behind an atomic pointer. An observation is judged only if the pointer
// loaded before the calls is the same pointer after them (the observer still
// references it, so the address cannot be recycled): then every component saw
// that very table. Observations that straddle a swap are counted, not judged.
// Route errors (no leader yet, not started) are counted, not judged.

import (
	"context"
	"errors"
	"fmt"
	"runtime"
	"sync"
	"sync/atomic"
	"testing"

	"github.com/WuKongIM/WuKongIM/pkg/cluster/control"
	"github.com/WuKongIM/WuKongIM/pkg/cluster/routing"
	"github.com/WuKongIM/WuKongIM/pkg/hashslot"
	"github.com/WuKongIM/WuKongIM/pkg/verifkit"
)

type c21ApplyHook struct {
	phase string
	fn    func(phase string, snap control.Snapshot)
}

func (h *c21ApplyHook) Reconcile(_ context.Context, snap control.Snapshot) error {
	h.fn(h.phase, snap)
	return nil
}

func (h *c21ApplyHook) ObserveControlSnapshot(snap control.Snapshot) { h.fn(h.phase, snap) }

// c21ApplySnapshot: `count` hash slots over `k` physical slots, revision rev;
// epoch makes the Slots section differ from the previous snapshot so that the
// Node calls its slot reconciler / task executor again.
func c21ApplySnapshot(rev uint64, count uint16, k int, epoch uint64) (control.Snapshot, []routing.SlotStatus) {
	if k > int(count) {
		k = int(count)
	}
	if k < 1 {
		k = 1
	}
	snap := control.Snapshot{
		Revision:     rev,
		ControllerID: 1,
		Nodes:        []control.Node{{NodeID: 1, Addr: "127.0.0.1:1001", Roles: []control.Role{control.RoleData}, Status: control.NodeAlive}},
		HashSlots:    control.HashSlotTable{Revision: rev, Count: count},
	}
	var leaders []routing.SlotStatus
	per := int(count) / k
	from := 0
	for i := 1; i <= k; i++ {
		to := from + per - 1
		if i == k {
			to = int(count) - 1
		}
		snap.Slots = append(snap.Slots, control.SlotAssignment{SlotID: uint32(i), DesiredPeers: []uint64{1}, ConfigEpoch: epoch, PreferredLeader: 1})
		snap.HashSlots.Ranges = append(snap.HashSlots.Ranges, control.HashSlotRange{From: uint16(from), To: uint16(to), SlotID: uint32(i)})
		leaders = append(leaders, routing.SlotStatus{SlotID: uint32(i), Leader: 1, LeaderTerm: 1})
		from = to + 1
	}
	return snap, leaders
}

var c21ApplyKeys = []string{
	"", "u1", "u2", "alice", "alice@bob", "10001@10002", "g_1000", "bench-run1-groups-hs-12", "alice____cmd", "u1-1-web",
	"用户一", "😀😀", "\x00", "\xff\xff\xff\xff", "\x7f\x80\x81\xfe\xff", "\xc3\x28", "a b", "123456789",
	"slot-proxy-key-0", "slot-proxy-key-1", "slot-proxy-key-2", "slot-proxy-key-3", "slot-proxy-key-4", "slot-proxy-key-5",
}

type c21ApplyObs struct {
	r *verifkit.Run
	// witness caps: first two per signature are reported, the rest counted
	mu   sync.Mutex
	seen map[string]int
}

func (o *c21ApplyObs) violate(sig string, w map[string]any) {
	o.mu.Lock()
	o.seen[sig]++
	n := o.seen[sig]
	o.mu.Unlock()
	if n <= 2 {
		o.r.Violation(sig, w)
	}
	o.r.Count("occurrences."+sig, 1)
}

// observe evaluates every component for every key against the table installed
// right now. where = seam / "concurrent". Returns the number of judged keys.
func (o *c21ApplyObs) observe(n *Node, where string, ctx func() map[string]any) int {
	r := o.r
	t1 := n.router.Table()
	if t1 == nil {
		r.Count("obs_no_table."+where, 1)
		return 0
	}
	count := t1.HashSlotCount
	type res struct {
		node, nodeRoute, router uint16
		nodeRouteOK, routerOK   bool
	}
	out := make([]res, len(c21ApplyKeys))
	tolerated := 0
	for i, key := range c21ApplyKeys {
		out[i].node = n.HashSlotForKey(key)
		if route, err := n.RouteKey(key); err == nil {
			out[i].nodeRoute, out[i].nodeRouteOK = route.HashSlot, true
		} else if errors.Is(err, ErrNoSlotLeader) || errors.Is(err, ErrNotStarted) || errors.Is(err, ErrRouteNotReady) {
			tolerated++
		} else {
			r.Count("obs_route_error_other."+where, 1)
			r.Note("obs_route_error_other_example", err.Error())
		}
		if route, err := n.router.RouteKey(key); err == nil {
			out[i].router, out[i].routerOK = route.HashSlot, true
		}
	}
	if tolerated > 0 {
		r.Count("obs_route_error_tolerated."+where, tolerated)
	}
	if t2 := n.router.Table(); t2 != t1 {
		// a table swap happened while we were looking: not judged
		r.Count("obs_straddled_table_swap."+where, 1)
		return 0
	}
	judged := 0
	for i, key := range c21ApplyKeys {
		want := hashslot.HashSlotForKey(key, count)
		w := func(comp string, got uint16) map[string]any {
			m := ctx()
			m["where"], m["component"], m["key"], m["key_hex"] = where, comp, key, fmt.Sprintf("%x", key)
			m["installed_table_hash_slot_count"], m["got"], m["hashslot.HashSlotForKey"] = count, got, want
			return m
		}
		check := func(comp string, got uint16) {
			if got != want {
				o.violate("disagree-during-snapshot-apply:"+comp, w(comp, got))
			}
			if got >= count {
				o.violate("out-of-range-during-snapshot-apply:"+comp, w(comp, got))
			}
		}
		check("cluster.Node.HashSlotForKey", out[i].node)
		if out[i].nodeRouteOK {
			check("cluster.Node.RouteKey", out[i].nodeRoute)
		}
		if out[i].routerOK {
			check("routing.Router.RouteKey", out[i].router)
		}
		judged++
	}
	r.Eval(judged * 3)
	r.Count("obs_judged."+where, 1)
	return judged
}

func TestVerifC21NodeApply(t *testing.T) {
	r := verifkit.Start(t, "C21", "nodeapply")
	defer r.Finish()
	r.SetRule("scenarios: a Node from cluster.New with a local configured hash-slot count L (default 256, or PRNG/edge) receives a PRNG sequence of 3-7 control snapshots through the real Node.applySnapshot, each with a different hash-slot count (edge values and PRNG, e.g. 256->12->4096->1) and a changed Slots section; 24 fixed keys are evaluated inside every apply at the slot-reconcile and task-reconcile seams (after the route table is installed, before the snapshot is published), at the SnapshotObserver (after publication), after the apply returns, and by a goroutine spinning during the applies. Non-trivial = an in-apply observation where the applied count differs from the previously visible count (or first apply with count != L); distinct by (seam, previous count, new count).")
	r.Assume("the hash-slot count in force for a key lookup is the count of the route table installed at that moment; concurrent observations are judged only when the table pointer is identical before and after the observation")
	obs := &c21ApplyObs{r: r, seen: map[string]int{}}
	edge := []uint16{1, 2, 3, 12, 16, 64, 255, 256, 257, 1024, 4096, 4097}
	nScen := r.N(24, 400)
	for sc := 0; sc < nScen; sc++ {
		if r.Skip(sc) {
			continue
		}
		rng := r.Rand(21, 9, uint64(sc))
		local := uint16(0) // 0 => package default (256)
		switch rng.IntN(3) {
		case 1:
			local = edge[rng.IntN(len(edge))]
		case 2:
			local = uint16(1 + rng.IntN(65535))
		}
		nApply := 3 + rng.IntN(5)
		counts := make([]uint16, nApply)
		for i := range counts {
			for {
				c := edge[rng.IntN(len(edge))]
				switch rng.IntN(12) {
				case 0, 1, 2:
					c = uint16(1 + rng.IntN(4096))
				case 3:
					c = uint16(1 + rng.IntN(65535)) // big tables make the apply slow under -race: rare
				}
				if i > 0 && c == counts[i-1] {
					continue
				}
				counts[i] = c
				break
			}
		}
		if sc == 0 { // the coordinator's example
			local, counts = 0, []uint16{12, 4096, 1, 256}
		}
		r.BeginCase(sc, fmt.Sprintf("local=%d counts=%v", local, counts))

		var node *Node
		var cur atomic.Value // current step description for witnesses
		cur.Store(map[string]any{})
		ctx := func() map[string]any {
			m := map[string]any{"scenario": sc, "local_config_count": local, "count_sequence": counts}
			for k, v := range cur.Load().(map[string]any) {
				m[k] = v
			}
			return m
		}
		var leadersNow atomic.Value
		hook := func(phase string, snap control.Snapshot) {
			if node == nil {
				return
			}
			if phase != "after-publish" {
				// make Route* answer instead of ErrNoSlotLeader: what the slot
				// runtime's leader observation would do a moment later
				if l, ok := leadersNow.Load().([]routing.SlotStatus); ok {
					node.router.UpdateSlotLeaders(l)
				}
			}
			if obs.observe(node, phase, ctx) > 0 && phase != "after-publish" {
				st := cur.Load().(map[string]any)
				if st["previous_visible_count"] != st["applying_count"] {
					r.Nontrivial(fmt.Sprintf("%s|%v|%v", phase, st["previous_visible_count"], st["applying_count"]))
				}
			}
		}
		cfg := Config{NodeID: 1, ListenAddr: "127.0.0.1:0", DataDir: t.TempDir()}
		cfg.Slots.HashSlotCount = local
		cfg.Control.SnapshotObserver = &c21ApplyHook{phase: "after-publish", fn: hook}
		n, err := New(cfg, withSlotReconciler(&c21ApplyHook{phase: "slot-reconcile", fn: hook}), withTaskExecutor(&c21ApplyHook{phase: "task-reconcile", fn: hook}))
		if err != nil {
			r.Inconclusive(fmt.Sprintf("harness: cluster.New: %v", err))
			return
		}
		node = n
		node.started.Store(true)
		effLocal := node.cfg.Slots.HashSlotCount

		// concurrent observer
		stop := make(chan struct{})
		var wg sync.WaitGroup
		wg.Add(1)
		go func() {
			defer wg.Done()
			for {
				select {
				case <-stop:
					return
				default:
				}
				obs.observe(node, "concurrent", ctx)
				runtime.Gosched()
			}
		}()

		prev := effLocal
		for i, c := range counts {
			snap, leaders := c21ApplySnapshot(uint64(i+1), c, 1+rng.IntN(3), uint64(i+1))
			leadersNow.Store(leaders)
			cur.Store(map[string]any{"apply_index": i, "applying_count": c, "previous_visible_count": prev, "applying_slots": len(snap.Slots)})
			var aerr error
			if r.Guard("Node.applySnapshot", ctx(), func() { aerr = node.applySnapshot(context.Background(), snap) }) {
				break
			}
			if aerr != nil {
				r.Inconclusive(fmt.Sprintf("harness: applySnapshot(count=%d): %v", c, aerr))
				break
			}
			r.Count("applies", 1)
			if i == 0 {
				r.Count("first_applies", 1)
			} else {
				r.Count("count_changing_applies", 1)
			}
			node.router.UpdateSlotLeaders(leaders)
			obs.observe(node, "after-apply", ctx)
			prev = c
		}
		close(stop)
		wg.Wait()
		if r.WantSample() {
			r.Sample(map[string]any{"local_config_count": effLocal, "count_sequence": counts})
		}
	}
}
