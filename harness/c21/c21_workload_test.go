//go:build verif

package workload

// C21 unit "workload": internal/bench/workload.physicalHashSlotForKey (an
// unexported copy, hence in-package) against pkg/hashslot.HashSlotForKey and
// pkg/cluster/routing.HashSlotForKey, plus the id generator built on it.

import (
	"testing"

	"github.com/WuKongIM/WuKongIM/pkg/cluster/routing"
	"github.com/WuKongIM/WuKongIM/pkg/hashslot"
	"github.com/WuKongIM/WuKongIM/pkg/verifkit"
	"github.com/WuKongIM/WuKongIM/verifrt/c21"
)

func TestVerifC21Workload(t *testing.T) {
	r := verifkit.Start(t, "C21", "workload")
	defer r.Finish()
	r.SetRule("same key/count workload as unit cross (fixed dictionary x every count 1..65535 for a subset, edge counts, PRNG keys incl. non-UTF-8/empty/long x PRNG counts), components: hashslot.HashSlotForKey (canonical), workload.physicalHashSlotForKey, routing.HashSlotForKey; plus GroupChannelIDForHashSlot ids re-hashed by the canonical component. Non-trivial = count>=2; distinct by (key class, key-length bucket, count).")
	canon := c21.Component{Name: "hashslot.HashSlotForKey", Fn: hashslot.HashSlotForKey}
	c21.Drive(r, canon, []c21.Component{
		{Name: "workload.physicalHashSlotForKey", Fn: physicalHashSlotForKey},
		{Name: "routing.HashSlotForKey", Fn: routing.HashSlotForKey},
	}, c21.Options{FixedKeys: r.N(3, 47), RandomPairs: r.N(100_000, 2_000_000), LongKeys: r.N(8, 200), ConcurrentPairs: r.N(15_000, 300_000), Goroutines: 4})

	// The generator promises "a channel ID that hashes to the requested
	// physical hash slot": every other component must place its output there.
	r.BeginCase(5000, "GroupChannelIDForHashSlot")
	rng := r.Rand(21, 77)
	n := r.N(400, 20000)
	for i := 0; i < n; i++ {
		count := uint16(1 + rng.IntN(r.N(512, 4096)))
		if i%7 == 0 {
			count = uint16(1 + rng.IntN(64))
		}
		idx := rng.IntN(100000)
		var id string
		if r.Guard("GroupChannelIDForHashSlot", map[string]any{"count": count, "index": idx}, func() {
			id = GroupChannelIDForHashSlot("run", "groups", idx, count)
		}) {
			continue
		}
		r.Eval(1)
		want := uint16(idx % int(count))
		for _, c := range []c21.Component{canon, {Name: "routing.HashSlotForKey", Fn: routing.HashSlotForKey}} {
			if got := c.Fn(id, count); got != want {
				r.Violation("disagree:workload.GroupChannelIDForHashSlot-vs-"+c.Name, map[string]any{"id": id, "count": count, "index": idx, "generator_target": want, c.Name: got})
			}
		}
		r.Count("generated_ids_rehashed", 1)
	}
}
