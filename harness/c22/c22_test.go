//go:build verif

package codec

// C22 — WKProto frames round-trip exactly.
//
// In-package (package codec) only because the statement's third clause is
// about the *precomputed* size, whose only handle is the unexported
// encodedFrameSize; everything else goes through the public
// New()/EncodeFrame/DecodeFrame/WriteFrame/ToFixHeaderUint8/FramerFromUint8.

import (
	"bytes"
	"fmt"
	"testing"

	"github.com/WuKongIM/WuKongIM/pkg/protocol/frame"
	"github.com/WuKongIM/WuKongIM/pkg/verifkit"
)

type c22Checker struct {
	r    *verifkit.Run
	p    *WKProto
	prev [frame.LatestVersion + 1]struct {
		b   []byte
		exp frame.Frame
	}
}

func (c *c22Checker) viol(sig string, f frame.Frame, v uint8, extra map[string]any) {
	w := map[string]any{"version": v, "frame": c22Describe(f)}
	for k, x := range extra {
		w[k] = x
	}
	c.r.Violation(sig, w)
}

// check runs every clause of the statement on one (frame, version).
func (c *c22Checker) check(f frame.Frame, v uint8, kind string) {
	r := c.r
	ft := f.GetFrameType()
	tn := ft.String()
	r.Eval(1)
	r.Count("frames."+tn, 1)
	r.Count("kind."+kind, 1)

	var b []byte
	var err error
	var pre int
	if r.Guard("EncodeFrame:"+tn, c22Describe(f), func() {
		pre = encodedFrameSize(f, v)
		b, err = c.p.EncodeFrame(f, v)
	}) {
		return
	}
	if err != nil {
		c.viol("encode-error-within-limits:"+tn, f, v, map[string]any{"err": err.Error()})
		return
	}
	// clause 3: precomputed size == bytes produced
	if pre != len(b) {
		c.viol("presize-mismatch:"+tn, f, v, map[string]any{"precomputed": pre, "len": len(b)})
	}
	// the remaining length on the wire is itself a precomputed (per-type) size
	wft, wflags, rem, hdr, ok := c22ParseHeader(b)
	if !ok || wft != ft {
		c.viol("wire-header-malformed:"+tn, f, v, map[string]any{"head": verifkit.Hex8(b)})
		return
	}
	if hdr+rem != len(b) {
		c.viol("wire-remaining-length-mismatch:"+tn, f, v, map[string]any{"remaining": rem, "hdr": hdr, "len": len(b)})
	}
	if hdr > 1 {
		r.Count(fmt.Sprintf("varint_len.%d", hdr-1), 1)
	}
	_ = wflags

	// WriteFrame must produce the same bytes as EncodeFrame
	var wb bytes.Buffer
	if !r.Guard("WriteFrame:"+tn, c22Describe(f), func() { err = c.p.WriteFrame(&wb, f, v) }) {
		if err != nil || !bytes.Equal(wb.Bytes(), b) {
			c.viol("writeframe-differs:"+tn, f, v, map[string]any{"err": fmt.Sprint(err), "wlen": wb.Len(), "len": len(b)})
		}
	}

	// clauses 1+2: decode yields an equal frame and consumes exactly len(b)
	exp := c22Project(f, v)
	exact := b[:len(b):len(b)]
	var g frame.Frame
	var n int
	if r.Guard("DecodeFrame:"+tn, c22Describe(f), func() { g, n, err = c.p.DecodeFrame(exact, v) }) {
		return
	}
	if err != nil {
		c.viol("decode-error:"+tn, f, v, map[string]any{"err": err.Error(), "len": len(b)})
		return
	}
	if g == nil {
		c.viol("decode-incomplete:"+tn, f, v, map[string]any{"len": len(b), "n": n})
		return
	}
	if n != len(b) {
		c.viol("consumed-mismatch:"+tn, f, v, map[string]any{"consumed": n, "len": len(b)})
	}
	if d := c22Diff(exp, g); d != "" {
		c.viol("roundtrip-mismatch:"+tn+":"+d, f, v, map[string]any{"field": d, "decoded": c22Describe(g), "expected": c22Describe(exp)})
	}
	if int(g.GetRemainingLength()) != rem {
		c.viol("decoded-remaining-length-wrong:"+tn, f, v, map[string]any{"got": g.GetRemainingLength(), "wire": rem})
	}
	if ft == frame.CONNACK && g.GetNoPersist() {
		r.Count("interp.connack_nopersist_mirrors_hasserverversion", 1)
	}

	// concatenation b‖b' decodes to two frames with n consumed each
	pv := &c.prev[v]
	if pv.b != nil {
		cat := make([]byte, 0, len(b)+len(pv.b))
		cat = append(append(cat, b...), pv.b...)
		var g1, g2 frame.Frame
		var n1, n2 int
		var e1, e2 error
		if !r.Guard("DecodeFrame-concat:"+tn, c22Describe(f), func() {
			g1, n1, e1 = c.p.DecodeFrame(cat, v)
			if e1 == nil && n1 > 0 && n1 <= len(cat) {
				g2, n2, e2 = c.p.DecodeFrame(cat[n1:], v)
			}
		}) {
			switch {
			case e1 != nil || g1 == nil || n1 != len(b):
				c.viol("concat-first-wrong:"+tn, f, v, map[string]any{"n1": n1, "len": len(b), "err": fmt.Sprint(e1)})
			case c22Diff(exp, g1) != "":
				c.viol("concat-first-mismatch:"+tn+":"+c22Diff(exp, g1), f, v, map[string]any{"decoded": c22Describe(g1)})
			case e2 != nil || g2 == nil || n2 != len(pv.b):
				c.viol("concat-second-wrong:"+pv.exp.GetFrameType().String(), pv.exp, v, map[string]any{"n2": n2, "len": len(pv.b), "err": fmt.Sprint(e2), "first": tn})
			case c22Diff(pv.exp, g2) != "":
				c.viol("concat-second-mismatch:"+pv.exp.GetFrameType().String()+":"+c22Diff(pv.exp, g2), pv.exp, v, map[string]any{"decoded": c22Describe(g2), "first": tn})
			default:
				r.Count("concat_ok", 1)
				if g1.GetFrameSize() != int64(n1) {
					// Framer.FrameSize is len(input), not the frame's size, when
					// frames are sticky. "不参与编码解码": evidence only.
					r.Count("interp.framesize_is_input_len_not_frame_len", 1)
				}
			}
		}
	}
	// keep small frames as the b' of later cases (bounded memory)
	if len(b) <= 4096 || pv.b == nil {
		pv.b, pv.exp = b, exp
	}

	if c22VersionDependent(ft) {
		r.Nontrivial(c22Shape(f, v))
	}
	if r.WantSample() && kind == "random" && c22VersionDependent(ft) && len(b) < 200 {
		r.Sample(map[string]any{"version": v, "frame": c22Describe(f), "wire_hex": fmt.Sprintf("%x", b), "decoded": c22Describe(g)})
	}
}

func TestVerifC22(t *testing.T) {
	r := verifkit.Start(t, "C22", "main")
	defer r.Finish()
	r.SetRule("Frames of all 12 types x versions 0..LatestVersion: (S1) all 64 combinations of the 6 Framer flag fields, (S2) all 256 Setting bytes for SEND/RECV/SUB, " +
		"(S3) every string field at 0/1/2/127/128/255/256/32766/32767 bytes, (S4) remaining length steered to 127/128/16383/16384 (+1 MiB-1, 1 MiB for RECV/EVENT, max SEND payload), " +
		"(S5) every integer field at its extremes incl. the MessageSeq width switch, (S6) every uint8 field at all 256 values, then PRNG frames mixing all of these. " +
		"Each frame: EncodeFrame, encodedFrameSize, WriteFrame, DecodeFrame, compare with the version projection, concatenate with the previous frame of that version. " +
		"Non-trivial = frame type carries >= 1 version-dependent or optional field (CONNACK, SEND, SENDACK, RECV, RECVACK); distinct = (type, version, flag bits, Stream/Topic bits, length class of every string/payload, value class of every integer).")
	r.Assume("protocol limits: strings <= 32767 B, SEND payload <= PayloadMaxSize, remaining length <= MaxRemaingLength, ClientSeq <= MaxUint32, MessageSeq <= MaxUint32 for v <= 5")
	r.Assume("projection table written from frame field comments; numeric version gates (stream 2<=v<5, expire v>=3, nodeId v>=4) and the CONNACK/PING header rules were read from the codec")

	c := &c22Checker{r: r, p: New()}
	versions := make([]uint8, 0, frame.LatestVersion+1)
	for v := 0; v <= frame.LatestVersion; v++ {
		versions = append(versions, uint8(v))
	}
	caseIdx := 0
	next := func(desc string) bool {
		i := caseIdx
		caseIdx++
		if r.Skip(i) {
			return false
		}
		r.BeginCase(i, desc)
		return true
	}

	// ---- fixed-header flag byte: all 256 values -----------------------------
	if next("flag-byte 256 values + 64 flag combos per type") {
		for x := 0; x < 256; x++ {
			v := uint8(x)
			r.Eval(1)
			r.Guard("FramerFromUint8", v, func() {
				fr := FramerFromUint8(v)
				back := ToFixHeaderUint8(fr)
				want := v
				if fr.FrameType == frame.CONNACK {
					want = v & 0xf1 // only bit0 (HasServerVersion) is defined for CONNACK
				}
				if back != want {
					r.Violation(fmt.Sprintf("flagbyte-roundtrip:%s", frame.FrameType(v>>4)), map[string]any{"byte": v, "back": back, "framer": fmt.Sprintf("%+v", fr)})
				}
				if fr.FrameType != frame.FrameType(v>>4) || fr.End {
					r.Violation("flagbyte-type-nibble", map[string]any{"byte": v, "framer": fmt.Sprintf("%+v", fr)})
				}
				r.Count("flagbyte_values", 1)
			})
		}
		// frame -> byte -> frame for every type and all 64 combinations of the 6 flag fields
		for _, ft := range c22AllTypes {
			for bits := uint8(0); bits < 64; bits++ {
				in := frame.Framer{FrameType: ft, NoPersist: bits&1 != 0, RedDot: bits&2 != 0, SyncOnce: bits&4 != 0, DUP: bits&8 != 0,
					HasServerVersion: bits&16 != 0, End: bits&32 != 0}
				r.Eval(1)
				r.Guard("ToFixHeaderUint8", bits, func() {
					out := FramerFromUint8(ToFixHeaderUint8(in))
					bad := out.FrameType != ft || out.End
					if ft == frame.CONNACK {
						bad = bad || out.HasServerVersion != in.HasServerVersion || out.RedDot || out.SyncOnce || out.DUP
					} else {
						bad = bad || out.NoPersist != in.NoPersist || out.RedDot != in.RedDot || out.SyncOnce != in.SyncOnce || out.DUP != in.DUP || out.HasServerVersion
					}
					if bad {
						r.Violation("flags-roundtrip:"+ft.String(), map[string]any{"in": fmt.Sprintf("%+v", in), "out": fmt.Sprintf("%+v", out)})
					}
					r.Count("flag_combos", 1)
				})
			}
		}
	}

	// ---- systematic sweeps ---------------------------------------------------
	for ti, ft := range c22AllTypes {
		tn := ft.String()
		rng := r.Rand(22, 1, uint64(ti))
		g := c22NewGen(rng)

		if next("S1 flags x versions " + tn) {
			for _, v := range versions {
				for bits := uint8(0); bits < 64; bits++ {
					c.check(g.gen(ft, v, bits), v, "S1-flags")
				}
			}
		}
		if next("S2 setting x versions " + tn) {
			if ft == frame.SEND || ft == frame.RECV || ft == frame.SUB {
				for _, v := range versions {
					for s := 0; s < 256; s++ {
						f := g.gen(ft, v, uint8(rng.UintN(64)))
						c22SetField(f, "Setting", frame.Setting(s))
						c.check(f, v, "S2-setting")
					}
				}
			}
		}
		if next("S3 string boundaries " + tn) {
			proto := g.gen(ft, 0, 0)
			for _, field := range c22StringFields(proto) {
				for _, v := range versions {
					for _, n := range []int{0, 1, 2, 127, 128, 255, 256, c22MaxStr - 1, c22MaxStr} {
						for rep := 0; rep < 2; rep++ {
							g.tiny = rep == 0 // other fields tiny / other fields arbitrary
							f := g.gen(ft, v, uint8(rng.UintN(64)))
							g.tiny = false
							if rep == 0 {
								// make every optional field present so the boundary field is carried
								if c22HasSetting(f) {
									c22SetField(f, "Setting", frame.SettingStream|frame.SettingTopic|frame.Setting(rng.UintN(256)))
								}
							}
							c22SetString(f, field, g.strN(n))
							c.check(f, v, "S3-strlen")
						}
					}
				}
			}
			// all string fields at the maximum at once
			for _, v := range versions {
				f := g.gen(ft, v, 15)
				if c22HasSetting(f) {
					c22SetField(f, "Setting", frame.SettingStream|frame.SettingTopic)
				}
				for _, field := range c22StringFields(f) {
					c22SetString(f, field, g.strN(c22MaxStr))
				}
				c.check(f, v, "S3-allmax")
			}
		}
		if next("S4 remaining-length boundaries " + tn) {
			targets := []int{126, 127, 128, 129, 16382, 16383, 16384, 16385}
			if ft == frame.RECV || ft == frame.EVENT {
				targets = append(targets, int(MaxRemaingLength)-1, int(MaxRemaingLength))
			}
			for _, v := range versions {
				for _, target := range targets {
					for rep := 0; rep < 3; rep++ {
						g.tiny = true
						f := g.gen(ft, v, uint8(rng.UintN(64)))
						g.tiny = false
						if !g.setFill(f, 1) {
							continue
						}
						b, err := c.p.EncodeFrame(f, v)
						if err != nil {
							continue
						}
						_, _, rem, _, ok := c22ParseHeader(b)
						if !ok || !g.setFill(f, target-(rem-1)) {
							r.Count("S4_target_unreachable", 1)
							continue
						}
						c.check(f, v, "S4-remlen")
						b2, _ := c.p.EncodeFrame(f, v)
						if _, _, rem2, _, ok := c22ParseHeader(b2); ok && rem2 == target {
							r.Count(fmt.Sprintf("S4_hit.%d", target), 1)
						}
					}
				}
				if ft == frame.SEND {
					for _, n := range []int{PayloadMaxSize - 1, PayloadMaxSize} {
						f := g.gen(ft, v, uint8(rng.UintN(64)))
						g.setFill(f, n)
						c.check(f, v, "S4-maxpayload")
					}
				}
			}
		}
		if next("S5 integer extremes " + tn) {
			proto := g.gen(ft, 0, 0)
			for _, field := range c22IntFields(proto) {
				for _, v := range versions {
					for _, x := range c22IntExtremes(proto, field, v) {
						g.tiny = true
						f := g.gen(ft, v, uint8(rng.UintN(64)))
						g.tiny = false
						c22SetField(f, field, x)
						c.check(f, v, "S5-int")
					}
				}
			}
		}
		if next("S6 uint8 fields all values " + tn) {
			proto := g.gen(ft, 0, 0)
			for _, field := range c22U8Fields(proto) {
				if field == "Setting" {
					continue // S2
				}
				for _, v := range versions {
					for x := 0; x < 256; x++ {
						g.tiny = true
						f := g.gen(ft, v, uint8(rng.UintN(64)))
						g.tiny = false
						c22SetField(f, field, uint8(x))
						c.check(f, v, "S6-u8")
					}
				}
			}
		}
	}

	// ---- PRNG frames ----------------------------------------------------------
	const batch = 2000
	batches := r.N(150, 4500)
	for bi := 0; bi < batches; bi++ {
		if !next(fmt.Sprintf("random batch %d", bi)) {
			continue
		}
		rng := r.Rand(22, 2, uint64(bi))
		g := c22NewGen(rng)
		for k := 0; k < batch; k++ {
			// bias towards the types with version-dependent fields
			var ft frame.FrameType
			if rng.IntN(3) == 0 {
				ft = c22AllTypes[rng.IntN(len(c22AllTypes))]
			} else {
				ft = []frame.FrameType{frame.CONNACK, frame.SEND, frame.SENDACK, frame.RECV, frame.RECVACK}[rng.IntN(5)]
			}
			v := versions[rng.IntN(len(versions))]
			c.check(g.gen(ft, v, uint8(rng.UintN(64))), v, "random")
		}
	}

	// ---- outside the statement: recorded, never asserted ----------------------
	if next("out-of-limit probes (evidence only)") {
		notes := map[string]any{}
		probe := func(name string, f frame.Frame, v uint8) {
			defer func() {
				if p := recover(); p != nil {
					notes[name] = "EncodeFrame panics: " + fmt.Sprint(p)
				}
			}()
			b, err := c.p.EncodeFrame(f, v)
			if err != nil {
				notes[name] = "EncodeFrame error: " + err.Error()
				return
			}
			g, n, derr := c.p.DecodeFrame(b, v)
			notes[name] = fmt.Sprintf("encoded %d bytes; decode n=%d nil=%v err=%v", len(b), n, g == nil, derr)
		}
		big := string(make([]byte, c22MaxStr+1))
		probe("string_32768", &frame.DisconnectPacket{Reason: big}, frame.LatestVersion)
		probe("send_payload_32768", &frame.SendPacket{Payload: make([]byte, PayloadMaxSize+1)}, frame.LatestVersion)
		probe("legacy_seq_over_u32", &frame.RecvackPacket{MessageSeq: 1 << 32}, frame.LegacyMessageSeqVersion)
		probe("clientseq_over_u32", &frame.SendPacket{ClientSeq: 1<<32 + 5}, frame.LatestVersion)
		probe("recv_remaining_over_1MiB", &frame.RecvPacket{Payload: make([]byte, int(MaxRemaingLength))}, frame.LatestVersion)
		r.Note("out_of_limit_probes", notes)
	}
}

func c22HasSetting(f frame.Frame) bool {
	switch f.(type) {
	case *frame.SendPacket, *frame.RecvPacket, *frame.SubPacket:
		return true
	}
	return false
}
