//go:build verif

package wkproto_test

// C22 unit "conc" — the round trip must also hold when ONE codec (and one
// gateway wkproto Adapter, which owns one codec for all sessions) is used by
// many goroutines at once, as the gateway does. Each goroutine checks its own
// results against its own inputs and against the bytes a PRIVATE codec
// produces for the same frame; the race detector (runner attribution) covers
// unsynchronised shared state inside the codec.

import (
	"bytes"
	"encoding/json"
	"fmt"
	"io"
	"runtime"
	"sync"
	"testing"

	adapterpkg "github.com/WuKongIM/WuKongIM/pkg/gateway/protocol/wkproto"
	"github.com/WuKongIM/WuKongIM/pkg/gateway/session"
	"github.com/WuKongIM/WuKongIM/pkg/gateway/testkit"
	gatewaytypes "github.com/WuKongIM/WuKongIM/pkg/gateway/types"
	codec "github.com/WuKongIM/WuKongIM/pkg/protocol/codec"
	"github.com/WuKongIM/WuKongIM/pkg/protocol/frame"
	"github.com/WuKongIM/WuKongIM/pkg/verifkit"
)

// c22xYieldWriter is a codec.Writer whose Write/WriteByte hand the processor
// to other goroutines BEFORE consuming the bytes, so that another encoder can
// run between the codec preparing bytes and the writer copying them.
type c22xYieldWriter struct {
	buf []byte
	n   int
}

func (w *c22xYieldWriter) yield() {
	w.n++
	if w.n%3 == 0 {
		runtime.Gosched()
	}
}
func (w *c22xYieldWriter) Write(p []byte) (int, error) {
	w.yield()
	w.buf = append(w.buf, p...)
	return len(p), nil
}
func (w *c22xYieldWriter) WriteByte(b byte) error {
	w.yield()
	w.buf = append(w.buf, b)
	return nil
}
func (w *c22xYieldWriter) WriteTo(o io.Writer) (int64, error) {
	n, err := o.Write(w.buf)
	return int64(n), err
}
func (w *c22xYieldWriter) Bytes() []byte { return w.buf }
func (w *c22xYieldWriter) Len() int      { return len(w.buf) }

func TestVerifC22Conc(t *testing.T) {
	r := verifkit.Start(t, "C22", "conc")
	defer r.Finish()
	const G = 8
	r.SetRule(fmt.Sprintf("%d goroutines share ONE codec.New() and ONE wkproto Adapter; each generates frames of all 12 types x versions 0..LatestVersion (C22 generator) and per frame runs shared EncodeFrame, shared WriteFrame into a bytes.Buffer and into a yielding writer, Adapter.Encode/Decode on its own session, shared DecodeFrame; results are compared with the bytes of a goroutine-private codec and with the version projection. Non-trivial = every frame (all are encoded while other goroutines encode different types/lengths); distinct = C22 shape fingerprint.", G))
	r.Assume("a private codec.New() per goroutine is the single-threaded reference")

	shared := codec.New()
	adapter := adapterpkg.New()
	perG := r.N(20000, 200000)

	var wg sync.WaitGroup
	for gi := 0; gi < G; gi++ {
		wg.Add(1)
		go func(gi int) {
			defer wg.Done()
			rng := r.Rand(22, 7, uint64(gi))
			g := c22xNewGen(rng)
			g.maxPayload = 3000
			private := codec.New()
			sessions := map[uint8]session.Session{}
			for v := 1; v <= frame.LatestVersion; v++ {
				s := testkit.NewProtocolSession()
				s.SetValue(gatewaytypes.SessionValueProtocolVersion, uint8(v))
				sessions[uint8(v)] = s
			}
			cnt := map[string]int{}
			evals := 0
			defer func() {
				for k, n := range cnt {
					r.Count(k, n)
				}
				r.Eval(evals)
			}()
			viol := func(sig string, f frame.Frame, v uint8, extra map[string]any) {
				w := map[string]any{"goroutine": gi, "version": v, "frame": c22xDescribe(f)}
				for k, x := range extra {
					w[k] = x
				}
				r.Violation(sig, w)
			}
			for k := 0; k < perG; k++ {
				if k%2000 == 0 {
					r.BeginCase(gi*1000+k/2000, fmt.Sprintf("goroutine %d frames %d..", gi, k))
				}
				ft := c22xAllTypes[rng.IntN(len(c22xAllTypes))]
				v := uint8(rng.IntN(frame.LatestVersion + 1))
				g.tiny = rng.IntN(3) == 0
				f := g.gen(ft, v, uint8(rng.UintN(64)))
				tn := ft.String()
				evals++
				want, err := private.EncodeFrame(f, v)
				if err != nil {
					viol("encode-error-within-limits:"+tn, f, v, map[string]any{"err": err.Error()})
					continue
				}
				exp := c22xProject(f, v)

				// shared EncodeFrame
				var got []byte
				if r.Guard("shared.EncodeFrame:"+tn, c22xLazy{f}, func() { got, err = shared.EncodeFrame(f, v) }) {
					continue
				}
				if err != nil || !bytes.Equal(got, want) {
					viol("shared-codec-encoding-differs-from-private:EncodeFrame:"+tn, f, v, map[string]any{"err": fmt.Sprint(err), "shared": c22xHex(got), "private": c22xHex(want)})
				}
				// shared WriteFrame into per-goroutine writers
				var bb bytes.Buffer
				if !r.Guard("shared.WriteFrame:"+tn, c22xLazy{f}, func() { err = shared.WriteFrame(&bb, f, v) }) {
					if err != nil || !bytes.Equal(bb.Bytes(), want) {
						viol("shared-codec-encoding-differs-from-private:WriteFrame:"+tn, f, v, map[string]any{"err": fmt.Sprint(err), "shared": c22xHex(bb.Bytes()), "private": c22xHex(want)})
					}
				}
				yw := &c22xYieldWriter{n: k}
				if !r.Guard("shared.WriteFrame-yield:"+tn, c22xLazy{f}, func() { err = shared.WriteFrame(yw, f, v) }) {
					if err != nil || !bytes.Equal(yw.buf, want) {
						viol("shared-codec-encoding-differs-from-private:WriteFrame-yielding-writer:"+tn, f, v, map[string]any{"err": fmt.Sprint(err), "shared": c22xHex(yw.buf), "private": c22xHex(want)})
					}
					cnt["writeframe_yielding"]++
				}
				// round trip through the shared codec on the shared-encoded bytes
				var dg frame.Frame
				var n int
				if r.Guard("shared.DecodeFrame:"+tn, c22xLazy{f}, func() { dg, n, err = shared.DecodeFrame(got, v) }) {
					continue
				}
				if err != nil || dg == nil || n != len(got) {
					viol("concurrent-decode-wrong:"+tn, f, v, map[string]any{"err": fmt.Sprint(err), "nil": dg == nil, "consumed": n, "len": len(got), "wire": c22xHex(got)})
				} else if d := c22xDiff(exp, dg); d != "" {
					viol("concurrent-roundtrip-mismatch:"+tn+":"+d, f, v, map[string]any{"decoded": c22xDescribe(dg), "wire": c22xHex(got)})
				}
				// the gateway adapter (one codec for all sessions)
				if v >= 1 {
					sess := sessions[v]
					var ab []byte
					if r.Guard("Adapter.Encode:"+tn, c22xLazy{f}, func() { ab, err = adapter.Encode(sess, f, session.OutboundMeta{}) }) {
						continue
					}
					if err != nil || !bytes.Equal(ab, want) {
						viol("shared-codec-encoding-differs-from-private:Adapter.Encode:"+tn, f, v, map[string]any{"err": fmt.Sprint(err), "shared": c22xHex(ab), "private": c22xHex(want)})
					}
					var frames []frame.Frame
					var consumed int
					if r.Guard("Adapter.Decode:"+tn, c22xLazy{f}, func() { frames, consumed, err = adapter.Decode(sess, want) }) {
						continue
					}
					if err != nil || len(frames) != 1 || consumed != len(want) {
						viol("concurrent-adapter-decode-wrong:"+tn, f, v, map[string]any{"err": fmt.Sprint(err), "frames": len(frames), "consumed": consumed, "len": len(want)})
					} else if d := c22xDiff(exp, frames[0]); d != "" {
						viol("concurrent-roundtrip-mismatch:"+tn+":"+d, f, v, map[string]any{"decoded": c22xDescribe(frames[0]), "via": "Adapter.Decode"})
					}
					cnt["adapter_roundtrips"]++
				}
				cnt["conc_frames."+tn]++
				r.Nontrivial(c22xShape(f, v))
			}
		}(gi)
	}
	wg.Wait()
	r.Count("goroutines", G)
}

type c22xLazy struct{ f frame.Frame }

func (l c22xLazy) MarshalJSON() ([]byte, error) { return json.Marshal(c22xDescribe(l.f)) }

func c22xHex(b []byte) string {
	if len(b) > 48 {
		return fmt.Sprintf("%x..(%d bytes)", b[:48], len(b))
	}
	return fmt.Sprintf("%x", b)
}
