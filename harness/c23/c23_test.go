//go:build verif

package wkproto_test

// C23 — Client stream decoding is robust to arbitrary bytes and splits.
//
// The adapter is fed the way pkg/gateway/core.Server.onData feeds it: a buffer
// that grows by chunks, Decode is repeated while it makes progress, the buffer
// is advanced by the returned `consumed` (state.inbound = state.inbound[consumed:]).
// One Adapter is shared by all workers (the gateway shares listener.adapter
// between all connections), each worker owns its sessions.

import (
	"bytes"
	"encoding/json"
	"fmt"
	"math/rand/v2"
	"reflect"
	"sync"
	"testing"

	adapterpkg "github.com/WuKongIM/WuKongIM/pkg/gateway/protocol/wkproto"
	"github.com/WuKongIM/WuKongIM/pkg/gateway/session"
	"github.com/WuKongIM/WuKongIM/pkg/gateway/testkit"
	gatewaytypes "github.com/WuKongIM/WuKongIM/pkg/gateway/types"
	codec "github.com/WuKongIM/WuKongIM/pkg/protocol/codec"
	"github.com/WuKongIM/WuKongIM/pkg/protocol/frame"
	"github.com/WuKongIM/WuKongIM/pkg/protocol/wkprotoenc"
	"github.com/WuKongIM/WuKongIM/pkg/verifkit"
)

const (
	c23ModePlain = iota
	c23ModeCrypto // SessionValueCrypto + keys (fast path)
	c23ModeKeys   // only AESKey/AESIV values (fallback path)
	c23ModeNilSession
)

var c23ModeNames = []string{"plain", "enc-crypto", "enc-keys", "nil-session"}

type c23Conf struct {
	name string
	ver  int   // value stored in the session, -1 = not set
	eff  uint8 // version the adapter must decode with
	mode int
	sess session.Session
}

type c23Worker struct {
	r       *verifkit.Run
	id      int
	adapter *adapterpkg.Adapter
	proto   *codec.WKProto
	confs   []*c23Conf
	crypto  *wkprotoenc.SessionCrypto
	keys    wkprotoenc.SessionKeys
	// counters are kept per worker and flushed per batch (the Run mutex is
	// shared by all workers)
	cnt   map[string]int
	max   map[string]int
	evals int
	// scratch input buffers, reused to keep -race allocation cost down
	sc [4][]byte
}

// buf returns scratch buffer i resized to exactly n bytes with capacity n+extra.
func (w *c23Worker) buf(i, n, extra int) []byte {
	if cap(w.sc[i]) < n+extra {
		w.sc[i] = make([]byte, (n+extra)*2+64)
	}
	return w.sc[i][: n : n+extra]
}

func (w *c23Worker) count(k string, n int) { w.cnt[k] += n }
func (w *c23Worker) maxOf(k string, n int) {
	if n > w.max[k] {
		w.max[k] = n
	}
}
func (w *c23Worker) flush() {
	for k, n := range w.cnt {
		w.r.Count(k, n)
		delete(w.cnt, k)
	}
	for k, n := range w.max {
		w.r.Max(k, n)
	}
	w.r.Eval(w.evals)
	w.evals = 0
}

func c23NewWorker(r *verifkit.Run, id int, adapter *adapterpkg.Adapter) *c23Worker {
	w := &c23Worker{r: r, id: id, adapter: adapter, proto: codec.New(), cnt: map[string]int{}, max: map[string]int{}}
	rng := r.Rand(23, 99, uint64(id))
	key, iv := make([]byte, 16), make([]byte, 16)
	for i := range key {
		key[i], iv[i] = byte(rng.UintN(256)), byte(rng.UintN(256))
	}
	w.keys = wkprotoenc.SessionKeys{AESKey: key, AESIV: iv}
	var err error
	if w.crypto, err = wkprotoenc.NewSessionCrypto(w.keys); err != nil {
		panic(err)
	}
	add := func(ver int, mode int) {
		eff := uint8(frame.LatestVersion)
		if ver > 0 {
			eff = uint8(ver)
		}
		c := &c23Conf{ver: ver, eff: eff, mode: mode}
		c.name = fmt.Sprintf("%s/v%d", c23ModeNames[mode], ver)
		if mode != c23ModeNilSession {
			s := testkit.NewProtocolSession()
			if ver >= 0 {
				s.SetValue(gatewaytypes.SessionValueProtocolVersion, uint8(ver))
			}
			if mode == c23ModeCrypto || mode == c23ModeKeys {
				s.SetValue(gatewaytypes.SessionValueEncryptionEnabled, true)
				s.SetValue(gatewaytypes.SessionValueAESKey, key)
				s.SetValue(gatewaytypes.SessionValueAESIV, iv)
				if mode == c23ModeCrypto {
					s.SetValue(gatewaytypes.SessionValueCrypto, w.crypto)
				}
			}
			c.sess = s
		}
		w.confs = append(w.confs, c)
	}
	for ver := -1; ver <= frame.LatestVersion; ver++ {
		add(ver, c23ModePlain)
		add(ver, c23ModeCrypto)
	}
	add(frame.LatestVersion, c23ModeKeys)
	add(frame.LegacyMessageSeqVersion, c23ModeKeys)
	add(-1, c23ModeNilSession)
	return w
}

func (c *c23Conf) encrypted() bool { return c.mode == c23ModeCrypto || c.mode == c23ModeKeys }

// session returns the interface value handed to Decode (a true nil interface for nil-session).
func (c *c23Conf) session() session.Session {
	if c.mode == c23ModeNilSession {
		return nil
	}
	return c.sess
}

type c23Stream struct {
	conf   *c23Conf
	wire   []byte
	bounds []int // bounds[k] = total length of the first k frames (bounds[0]=0)
	exp    []frame.Frame
	types  string
}

var c23ClientTypes = []frame.FrameType{frame.CONNECT, frame.SEND, frame.SEND, frame.SEND, frame.RECVACK, frame.PING, frame.SUB, frame.DISCONNECT, frame.EVENT}

// buildStream concatenates 1..12 encoded frames valid for the session.
func (w *c23Worker) buildStream(g *c23Gen, conf *c23Conf, n int, maxLen int) *c23Stream {
	st := &c23Stream{conf: conf, bounds: []int{0}}
	v := conf.eff
	for i := 0; i < n; i++ {
		var ft frame.FrameType
		if g.rng.IntN(3) == 0 {
			ft = c23AllTypes[g.rng.IntN(len(c23AllTypes))]
		} else {
			ft = c23ClientTypes[g.rng.IntN(len(c23ClientTypes))]
		}
		f := g.gen(ft, v, uint8(g.rng.UintN(64)))
		exp := c23Project(f, v)
		if send, ok := f.(*frame.SendPacket); ok && conf.encrypted() && !send.Setting.IsSet(frame.SettingNoEncrypt) {
			// what a real encrypted client sends: sealed payload + msg key
			plain := send.Payload
			if len(plain) > 20000 {
				plain = plain[:20000]
			}
			sealed, err := wkprotoenc.EncryptPayloadWithCrypto(plain, w.crypto)
			if err != nil {
				panic(err)
			}
			send.Payload = sealed
			if send.MsgKey, err = wkprotoenc.SendMsgKeyWithCrypto(send, w.crypto); err != nil {
				panic(err)
			}
			e := c23Project(send, v).(*frame.SendPacket)
			e.Payload = plain
			exp = e
			w.count("valid.encrypted_send_frames", 1)
		}
		b, err := w.proto.EncodeFrame(f, v)
		if err != nil {
			panic(fmt.Sprintf("c23: generator produced an unencodable frame: %v", err))
		}
		if maxLen > 0 && len(st.wire)+len(b) > maxLen {
			if len(st.exp) == 0 {
				i-- // need at least one frame
			}
			continue
		}
		st.wire = append(st.wire, b...)
		st.bounds = append(st.bounds, len(st.wire))
		st.exp = append(st.exp, exp)
		st.types += ft.String()[:2] + "."
	}
	return st
}

// decodeCall is one guarded Adapter.Decode with the per-call clauses that hold
// for ANY input (valid or hostile).
func (w *c23Worker) decodeCall(conf *c23Conf, buf []byte, kind string, wit func() map[string]any) (frames []frame.Frame, consumed int, err error, bad bool) {
	r := w.r
	w.evals++
	if r.Guard("Adapter.Decode:"+kind, c23LazyWitness{wit}, func() { frames, consumed, err = w.adapter.Decode(conf.session(), buf) }) {
		return nil, 0, nil, true
	}
	fail := func(sig string) {
		m := wit()
		m["consumed"], m["nframes"], m["err"], m["buflen"] = consumed, len(frames), fmt.Sprint(err), len(buf)
		r.Violation(sig+":"+kind, m)
		bad = true
	}
	switch {
	case consumed < 0:
		fail("consumed-negative")
	case consumed > len(buf):
		fail("consumed-exceeds-input")
	case err == nil && len(frames) > 0 && consumed == 0:
		fail("frames-without-progress")
	case err == nil && len(frames) == 0 && consumed != 0:
		fail("progress-without-frames")
	}
	for _, f := range frames {
		if f == nil || (reflect.ValueOf(f).Kind() == reflect.Pointer && reflect.ValueOf(f).IsNil()) {
			fail("nil-frame-returned")
			break
		}
	}
	if err != nil && (len(frames) > 0 || consumed != 0) {
		w.count("interp.error_with_partial_result", 1)
	}
	return
}

type c23LazyWitness struct{ f func() map[string]any }

func (l c23LazyWitness) MarshalJSON() ([]byte, error) { return json.Marshal(l.f()) }

func c23Hex(b []byte) string {
	if len(b) > 96 {
		return fmt.Sprintf("%x..(%d bytes)", b[:96], len(b))
	}
	return fmt.Sprintf("%x", b)
}

// feedValid delivers st.wire in the chunks given by cuts (ascending offsets in
// (0,L)) and checks the stream clauses. slack=true leaves the not yet
// delivered bytes in the capacity of the buffer (like a re-sliced
// state.inbound); slack=false caps the slice so any access past the supplied
// bytes faults.
func (w *c23Worker) feedValid(st *c23Stream, cuts []int, slack bool, kind string) {
	r := w.r
	L := len(st.wire)
	store := w.buf(0, L, 0)
	copy(store, st.wire)
	start, emitted, calls := 0, 0, 0
	var sends []int // indices of emitted SEND frames
	var got []frame.Frame
	wit := func() map[string]any {
		return map[string]any{"session": st.conf.name, "types": st.types, "cuts": cuts, "slack": slack, "stream": c23Hex(st.wire), "emitted": emitted, "start": start}
	}
	step := func(end int) bool {
		for start < end {
			var buf []byte
			if slack {
				buf = store[start:end]
			} else {
				buf = store[start:end:end]
			}
			calls++
			if calls > 2*L+len(cuts)+8 {
				r.Violation("decode-loop-no-termination:"+kind, wit())
				return false
			}
			frames, consumed, err, bad := w.decodeCall(st.conf, buf, kind, wit)
			if bad {
				return false
			}
			if err != nil {
				m := wit()
				m["err"] = err.Error()
				r.Violation("valid-stream-rejected:"+kind, m)
				return false
			}
			if emitted+len(frames) > len(st.exp) {
				r.Violation("more-frames-than-sent:"+kind, wit())
				return false
			}
			// never reports progress on an incomplete frame: total consumed is
			// exactly the total length of the frames emitted so far
			if start+consumed != st.bounds[emitted+len(frames)] {
				m := wit()
				m["consumed"], m["nframes"], m["want_total"] = consumed, len(frames), st.bounds[emitted+len(frames)]
				r.Violation("consumed-not-at-frame-boundary:"+kind, m)
				return false
			}
			for i, f := range frames {
				if d := c23Diff(st.exp[emitted+i], f); d != "" {
					m := wit()
					m["index"], m["field"], m["decoded"], m["expected"] = emitted+i, d, c23Describe(f), c23Describe(st.exp[emitted+i])
					r.Violation("frame-mismatch:"+st.exp[emitted+i].GetFrameType().String()+":"+d+":"+kind, m)
					return false
				}
				if _, ok := f.(*frame.SendPacket); ok {
					sends = append(sends, emitted+i)
				}
			}
			got = append(got, frames...)
			emitted += len(frames)
			if consumed == 0 {
				// waiting for more data
				complete := 0
				for complete < len(st.exp) && st.bounds[complete+1] <= end {
					complete++
				}
				if emitted < complete {
					w.count("interp.not_prompt", 1)
				}
				return true
			}
			// the transport reuses delivered bytes: consumed input is dead
			for i := start; i < start+consumed; i++ {
				store[i] = 0xEE
			}
			start += consumed
		}
		return true
	}
	for _, c := range cuts {
		if !step(c) {
			return
		}
	}
	if !step(L) {
		return
	}
	if emitted != len(st.exp) || start != L {
		m := wit()
		m["want_frames"] = len(st.exp)
		r.Violation("stream-end-frames-missing:"+kind, m)
		return
	}
	// async-dispatched SEND payloads must not alias the (now overwritten) input
	for _, i := range sends {
		if d := c23Diff(st.exp[i], got[i]); d != "" {
			m := wit()
			m["index"], m["field"] = i, d
			r.Violation("send-aliases-input-buffer:"+d, m)
			return
		}
	}
	aliased := 0
	for i, f := range got {
		if _, ok := f.(*frame.SendPacket); !ok && c23Diff(st.exp[i], f) != "" {
			aliased++
		}
	}
	if aliased > 0 {
		// RECV.Payload / EVENT.Data are sub-slices of the input; they are
		// dispatched synchronously, the statement does not forbid it.
		w.count("interp.non_send_payload_aliases_input", aliased)
	}
	w.count("valid.feeds."+kind, 1)
	w.maxOf("max_decode_calls_per_feed", calls)
}

func c23Cuts(set map[int]struct{}, L int) []int {
	out := make([]int, 0, len(set))
	for c := range set {
		if c > 0 && c < L {
			out = append(out, c)
		}
	}
	for i := 1; i < len(out); i++ { // insertion sort, sets are small
		for j := i; j > 0 && out[j] < out[j-1]; j-- {
			out[j], out[j-1] = out[j-1], out[j]
		}
	}
	return out
}

func c23Dribble(L int) []int {
	out := make([]int, 0, L)
	for i := 1; i < L; i++ {
		out = append(out, i)
	}
	return out
}

// smallBatch: streams <= 64 bytes, ALL single split points, ALL pairs of split
// points, 1-byte dribble, whole.
func (w *c23Worker) smallBatch(bi int, perBatch int) {
	rng := w.r.Rand(23, 1, uint64(bi))
	g := c23NewGen(rng)
	g.tiny = true
	for k := 0; k < perBatch; k++ {
		conf := w.confs[rng.IntN(len(w.confs))]
		st := w.buildStream(g, conf, 1+rng.IntN(12), 64)
		L := len(st.wire)
		slack := rng.IntN(2) == 0
		w.feedValid(st, nil, slack, "small-whole")
		w.feedValid(st, c23Dribble(L), !slack, "small-dribble")
		for a := 1; a < L; a++ {
			w.feedValid(st, []int{a}, (a+k)%2 == 0, "small-1cut")
		}
		for a := 1; a < L; a++ {
			for b := a + 1; b < L; b++ {
				w.feedValid(st, []int{a, b}, (a+b+k)%3 == 0, "small-2cuts")
			}
		}
		w.r.Nontrivial(fmt.Sprintf("small|%s|%s|L%d", conf.name, st.types, L))
		w.count("valid.small_streams", 1)
		w.count("valid.frames", len(st.exp))
		if w.r.WantSample() && k == 0 && bi < 2 {
			w.r.Sample(map[string]any{"kind": "small valid stream, all 1- and 2-cut splits", "session": conf.name, "types": st.types, "stream": c23Hex(st.wire), "bounds": st.bounds})
		}
	}
}

// largeBatch: longer streams with PRNG split sets.
func (w *c23Worker) largeBatch(bi int, perBatch int) {
	rng := w.r.Rand(23, 2, uint64(bi))
	g := c23NewGen(rng)
	g.maxPayload = 4000
	for k := 0; k < perBatch; k++ {
		conf := w.confs[rng.IntN(len(w.confs))]
		g.tiny = rng.IntN(4) == 0
		st := w.buildStream(g, conf, 1+rng.IntN(12), 0)
		L := len(st.wire)
		if L < 2 {
			w.feedValid(st, nil, false, "large-whole")
			continue
		}
		w.feedValid(st, nil, rng.IntN(2) == 0, "large-whole")
		// random cut sets of growing density
		for _, n := range []int{1, 2, 3, 5, 9, 17, 40} {
			set := map[int]struct{}{}
			for i := 0; i < n; i++ {
				set[1+rng.IntN(L-1)] = struct{}{}
			}
			w.feedValid(st, c23Cuts(set, L), rng.IntN(2) == 0, "large-random-cuts")
		}
		// cuts around every frame boundary and inside every header
		set := map[int]struct{}{}
		for _, b := range st.bounds {
			for d := -2; d <= 5; d++ {
				if rng.IntN(3) != 0 {
					set[b+d] = struct{}{}
				}
			}
		}
		w.feedValid(st, c23Cuts(set, L), rng.IntN(2) == 0, "large-boundary-cuts")
		// geometric chunk sizes (1,2,4,...) then MTU-like 1460
		set = map[int]struct{}{}
		for p, s := 0, 1; p < L; p, s = p+s, s*2 {
			set[p] = struct{}{}
		}
		w.feedValid(st, c23Cuts(set, L), false, "large-geometric")
		if L > 1460 {
			set = map[int]struct{}{}
			for p := 1460; p < L; p += 1460 {
				set[p] = struct{}{}
			}
			w.feedValid(st, c23Cuts(set, L), true, "large-mtu")
		}
		if L <= 3000 {
			w.feedValid(st, c23Dribble(L), rng.IntN(2) == 0, "large-dribble")
		}
		lc := "s"
		switch {
		case L > 65536:
			lc = "XL"
		case L > 16384:
			lc = "L"
		case L > 1024:
			lc = "m"
		}
		w.r.Nontrivial(fmt.Sprintf("large|%s|%s|%s", conf.name, st.types, lc))
		w.count("valid.large_streams", 1)
		w.count("valid.frames", len(st.exp))
		w.maxOf("max_stream_len", L)
	}
}

// ---------------------------------------------------------------------------
// hostile bytes

var c23Runs = []byte{0x00, 0x7f, 0x80, 0xff}

func c23Varint(x int) []byte {
	var out []byte
	for x > 0 {
		d := byte(x % 0x80)
		x /= 0x80
		if x > 0 {
			d |= 0x80
		}
		out = append(out, d)
	}
	return out
}

func c23RandBytes(rng *rand.Rand, n int) []byte {
	out := make([]byte, n)
	for i := range out {
		out[i] = byte(rng.UintN(256))
	}
	return out
}

// hostileInput builds one hostile byte string; base is a valid stream to mutate.
func c23HostileInput(rng *rand.Rand, base *c23Stream) (string, []byte) {
	valid := append([]byte(nil), base.wire...)
	hdr := base.bounds[rng.IntN(len(base.bounds)-1)] // start offset of a random frame
	switch rng.IntN(14) {
	case 0:
		n := 1 + rng.IntN(24)
		if rng.IntN(8) == 0 {
			n = 1 + rng.IntN(300)
		}
		return "prng", c23RandBytes(rng, n)
	case 1: // plausible header, random body of (about) the declared length
		n := rng.IntN(60)
		decl := n + []int{0, 0, 0, 1, -1, 2, 7}[rng.IntN(7)]
		if decl < 0 {
			decl = 0
		}
		out := []byte{byte(1+rng.IntN(12))<<4 | byte(rng.UintN(16))}
		if decl == 0 {
			out = append(out, 0)
		} else {
			out = append(out, c23Varint(decl)...)
		}
		return "prng-typed", append(out, c23RandBytes(rng, n)...)
	case 2:
		for i, n := 0, 1+rng.IntN(4); i < n; i++ {
			valid[rng.IntN(len(valid))] ^= 1 << rng.UintN(8)
		}
		return "bitflip", valid
	case 3:
		for i, n := 0, 1+rng.IntN(3); i < n; i++ {
			valid[rng.IntN(len(valid))] = c23Runs[rng.IntN(4)]
		}
		return "byteset", valid
	case 4: // length-prefix bytes replaced by a run
		run := bytes.Repeat([]byte{c23Runs[rng.IntN(4)]}, 1+rng.IntN(6))
		_, _, _, h, ok := c23ParseHeader(valid[hdr:])
		if !ok || h < 2 {
			h = 1
		}
		var out []byte
		out = append(out, valid[:hdr+1]...)
		out = append(out, run...)
		if rng.IntN(2) == 0 {
			out = append(out, valid[hdr+h:]...) // replace
		} else {
			out = append(out, valid[hdr+1:]...) // insert in front of the real length
		}
		return "lenprefix-run", out
	case 5: // oversize remaining length
		big := []int{1<<20 + 1, 1 << 21, 1<<21 - 1, 1<<28 - 1, 1<<20 + 128, 1 << 27}[rng.IntN(6)]
		out := append([]byte(nil), valid[:hdr]...)
		ft := byte(1 + rng.IntN(12))
		if ft == byte(frame.PING) || ft == byte(frame.PONG) {
			ft = byte(frame.SEND)
		}
		out = append(out, ft<<4|byte(rng.UintN(16)))
		out = append(out, c23Varint(big)...)
		out = append(out, c23RandBytes(rng, rng.IntN(40))...)
		return "oversize-remaining", out
	case 6: // 5+-byte varints
		out := append([]byte(nil), valid[:hdr]...)
		out = append(out, byte(1+rng.IntN(6))<<4|byte(rng.UintN(16)))
		for i, n := 0, 4+rng.IntN(6); i < n; i++ {
			out = append(out, 0x80|byte(rng.UintN(128))&[]byte{0x00, 0x7f, 0x01}[rng.IntN(3)])
		}
		if rng.IntN(3) != 0 {
			out = append(out, byte(rng.UintN(128)))
		}
		out = append(out, valid[hdr:]...)
		return "long-varint", out
	case 7: // type nibble out of range
		valid[hdr] = []byte{0, 13, 14, 15}[rng.IntN(4)]<<4 | valid[hdr]&0x0f
		return "bad-type", valid
	case 8:
		return "truncated", valid[:rng.IntN(len(valid))]
	case 9: // a two-byte big-endian length somewhere in the body
		if len(valid) >= hdr+6 {
			p := hdr + 2 + rng.IntN(len(valid)-hdr-3)
			x := [][2]byte{{0x7f, 0xff}, {0x80, 0x00}, {0xff, 0xff}, {0x00, 0x00}, {0x01, 0x00}, {0x00, 0xff}}[rng.IntN(6)]
			valid[p], valid[p+1] = x[0], x[1]
		}
		return "strlen-set", valid
	case 10:
		p := rng.IntN(len(valid) + 1)
		ins := c23RandBytes(rng, 1+rng.IntN(4))
		return "insert", append(append(append([]byte(nil), valid[:p]...), ins...), valid[p:]...)
	case 11:
		p := rng.IntN(len(valid))
		q := p + 1 + rng.IntN(3)
		if q > len(valid) {
			q = len(valid)
		}
		return "delete", append(append([]byte(nil), valid[:p]...), valid[q:]...)
	case 12: // remaining length off by a little (body shorter/longer than declared)
		_, _, rem, h, ok := c23ParseHeader(valid[hdr:])
		if !ok || h < 2 {
			return "prng", c23RandBytes(rng, 1+rng.IntN(20))
		}
		nr := rem + []int{-1, 1, -2, 2, 5, -rem}[rng.IntN(6)]
		if nr < 0 {
			nr = 0
		}
		vi := c23Varint(nr)
		if nr == 0 {
			vi = []byte{0}
		}
		out := append([]byte(nil), valid[:hdr+1]...)
		out = append(out, vi...)
		return "remaining-off", append(out, valid[hdr+h:]...)
	default: // valid prefix followed by garbage
		return "valid-then-garbage", append(valid, c23RandBytes(rng, 1+rng.IntN(12))...)
	}
}

// c23WaitUnjustified: "waits for more data" is only a legitimate answer when
// more data can complete a frame. Judged with the harness's own header parse
// (standard 1..4 byte varint); returns "" when the wait is justified or the
// header is outside what that parse defines.
func c23WaitUnjustified(in []byte) string {
	if len(in) == 0 {
		return ""
	}
	ft := frame.FrameType(in[0] >> 4)
	if ft == frame.UNKNOWN {
		return "" // counted separately
	}
	if ft == frame.PING || ft == frame.PONG {
		return "complete-one-byte-frame"
	}
	if len(in) > 1+5+int(codec.MaxRemaingLength) {
		return "holds-more-than-a-maximal-frame"
	}
	_, _, rem, hdr, ok := c23ParseHeader(in)
	if !ok {
		return "" // length prefix unterminated so far, or a 5+-byte varint (undefined by the parse)
	}
	if rem > int(codec.MaxRemaingLength) {
		return "oversize-remaining-length"
	}
	if hdr+rem <= len(in) {
		return "declared-frame-complete"
	}
	return ""
}

// hostileOne applies the arbitrary-bytes clauses to one input on one session.
func (w *c23Worker) hostileOne(rng *rand.Rand, conf *c23Conf, kind string, in []byte) {
	r := w.r
	wit := func() map[string]any { return map[string]any{"session": conf.name, "input": c23Hex(in), "kind": kind} }

	// (A) whole buffer, capacity == length: any access past the input faults
	exact := w.buf(1, len(in), 0)
	copy(exact, in)
	fa, ca, ea, bad := w.decodeCall(conf, exact[:len(exact):len(exact)], kind, wit)
	if bad {
		return
	}
	switch {
	case ea != nil:
		w.count("hostile.outcome.error", 1)
	case ca > 0:
		w.count("hostile.outcome.frames", 1)
		w.count("hostile.frames_decoded", len(fa))
	default:
		w.count("hostile.outcome.wait", 1)
		if why := c23WaitUnjustified(in); why != "" {
			m := wit()
			m["why"] = why
			r.Violation("wait-not-justified:"+why, m)
			return
		}
		if len(in) > 0 && in[0]>>4 == 0 {
			// type nibble 0 (UNKNOWN): DecodeFrame answers "need more data"
			// for ever. Allowed by the statement's trichotomy; evidence only.
			w.count("interp.type0_waits_forever", 1)
		}
	}
	// the decoder did not write into its input
	if !bytes.Equal(exact, in) {
		r.Violation("decoder-mutated-input:"+kind, wit())
		return
	}

	// (B) same bytes with poison in the spare capacity: a result that depends
	// on bytes behind len(in) means the decoder read past its input
	slack := w.buf(2, len(in), 48)
	copy(slack, in)
	poison := slack[len(in):cap(slack)]
	for i := range poison {
		poison[i] = byte(rng.UintN(256))
	}
	if rng.IntN(2) == 0 && len(in) > 0 {
		copy(poison, in) // plausible continuation
	}
	fb, cb, eb, bad := w.decodeCall(conf, slack, kind, wit)
	if bad {
		return
	}
	if ca != cb || (ea == nil) != (eb == nil) || len(fa) != len(fb) {
		m := wit()
		m["exact"], m["slack"] = fmt.Sprintf("frames=%d consumed=%d err=%v", len(fa), ca, ea), fmt.Sprintf("frames=%d consumed=%d err=%v", len(fb), cb, eb)
		r.Violation("result-depends-on-bytes-past-input:"+kind, m)
		return
	}
	for i := range fa {
		if d := c23Diff(fa[i], fb[i]); d != "" {
			m := wit()
			m["index"], m["field"] = i, d
			r.Violation("result-depends-on-bytes-past-input:"+kind, m)
			return
		}
	}

	// (C) frames reported as consumed are decodable from exactly those bytes
	if ea == nil && ca > 0 {
		pre := w.buf(3, ca, 0)
		copy(pre, in[:ca])
		fc, cc, ec, bad := w.decodeCall(conf, pre, kind, wit)
		if bad {
			return
		}
		ok := ec == nil && cc == ca && len(fc) == len(fa)
		for i := 0; ok && i < len(fa); i++ {
			ok = c23Diff(fa[i], fc[i]) == ""
		}
		if !ok {
			m := wit()
			m["whole"], m["prefix"] = fmt.Sprintf("frames=%d consumed=%d", len(fa), ca), fmt.Sprintf("frames=%d consumed=%d err=%v", len(fc), cc, ec)
			r.Violation("consumed-prefix-not-self-contained:"+kind, m)
			return
		}
		// one byte less must not yield the last frame
		if ca >= 1 {
			fd, cd, ed, bad := w.decodeCall(conf, pre[:ca-1:ca-1], kind, wit)
			if bad {
				return
			}
			if ed == nil && (cd >= ca || len(fd) >= len(fa)) {
				m := wit()
				m["whole"], m["short"] = fmt.Sprintf("frames=%d consumed=%d", len(fa), ca), fmt.Sprintf("frames=%d consumed=%d", len(fd), cd)
				r.Violation("progress-on-incomplete-frame:"+kind, m)
				return
			}
		}
	}

	// (D) streamed in random chunks with the core's loop; step counter
	if len(in) > 0 {
		store := w.buf(0, len(in), 0)
		copy(store, in)
		var cuts []int
		mode := rng.IntN(3)
		if mode == 0 && len(in) > 256 {
			mode = 1
		}
		switch mode {
		case 0:
			cuts = c23Dribble(len(in))
		case 1:
			set := map[int]struct{}{}
			for i, n := 0, 1+rng.IntN(4); i < n; i++ {
				set[rng.IntN(len(in)+1)] = struct{}{}
			}
			cuts = c23Cuts(set, len(in))
		}
		cuts = append(cuts, len(in))
		start, calls := 0, 0
	feed:
		for _, end := range cuts {
			for start < end {
				calls++
				if calls > 2*len(in)+len(cuts)+8 {
					r.Violation("decode-loop-no-termination:"+kind, wit())
					return
				}
				_, c, e, bad := w.decodeCall(conf, store[start:end:end], kind, wit)
				if bad {
					return
				}
				if e != nil {
					w.count("hostile.stream.error", 1)
					break feed
				}
				if c == 0 {
					break
				}
				start += c
			}
		}
		w.maxOf("max_hostile_decode_calls", calls)
	}

	// (E) the codec's DecodeFrame driven like pkg/client.readerLoop (non-empty buffer, advance by n)
	buf := exact[:len(exact):len(exact)]
	for steps := 0; len(buf) > 0; steps++ {
		if steps > len(in)+2 {
			r.Violation("decodeframe-loop-no-termination:"+kind, wit())
			return
		}
		var f frame.Frame
		var n int
		var err error
		w.evals++
		if r.Guard("DecodeFrame:"+kind, c23LazyWitness{wit}, func() { f, n, err = w.proto.DecodeFrame(buf, conf.eff) }) {
			return
		}
		if n < 0 || n > len(buf) || (err == nil && (f == nil) != (n == 0)) {
			m := wit()
			m["n"], m["nil"], m["err"], m["buflen"] = n, f == nil, fmt.Sprint(err), len(buf)
			r.Violation("decodeframe-bad-step:"+kind, m)
			return
		}
		if err != nil || n == 0 {
			break
		}
		buf = buf[n:]
	}
	w.count("hostile.inputs."+kind, 1)
}

func (w *c23Worker) hostileBatch(bi int, perBatch int) {
	rng := w.r.Rand(23, 3, uint64(bi))
	g := c23NewGen(rng)
	g.tiny = true
	var base *c23Stream
	for k := 0; k < perBatch; k++ {
		conf := w.confs[rng.IntN(len(w.confs))]
		if base == nil || base.conf != conf || k%4 == 0 {
			g.tiny = rng.IntN(5) != 0
			g.maxPayload = 300
			base = w.buildStream(g, conf, 1+rng.IntN(4), 1500)
		}
		kind, in := c23HostileInput(rng, base)
		w.hostileOne(rng, conf, kind, in)
		w.r.Nontrivial("hostile|" + kind + "|" + conf.name + "|" + c23LenClass(len(in)) + "|" + fmt.Sprintf("%02x", c23FirstByte(in)))
	}
}

func c23FirstByte(b []byte) byte {
	if len(b) == 0 {
		return 0
	}
	return b[0]
}

func TestVerifC23(t *testing.T) {
	r := verifkit.Start(t, "C23", "main")
	defer r.Finish()
	r.SetRule("(a) valid streams of 1-12 generated frames (all 12 types, C22 generator) per session config {version unset,0..LatestVersion} x {plain, encrypted with SessionCrypto, encrypted keys-only, nil session}: streams <= 64 B get the whole buffer, every single split point, every pair of split points and 1-byte dribble; longer streams get PRNG cut sets of 1..40 cuts, cuts around every frame boundary/header, geometric and MTU chunks, dribble (<= 3000 B). " +
		"(b) hostile inputs of 14 kinds (PRNG, typed PRNG, bit flips, 00/7f/80/ff byte sets, length-prefix runs, oversize remaining length, 5+-byte varints, type nibble 0/13/14/15, truncation, hostile string lengths, insert, delete, remaining length off by k, valid+garbage): whole buffer with exact capacity, with poisoned spare capacity, consumed-prefix re-decode, chunked feed with a step counter, and the codec's DecodeFrame in the client reader loop. " +
		"Every Decode call counts as one evaluation. Non-trivial = any valid stream (needs reassembly) or hostile input; distinct = (session config, frame-type sequence, length class) resp. (kind, session config, length class, first byte).")
	r.Assume("Adapter.Decode is fed as core.Server.onData does: Decode repeated while it progresses, buffer advanced by consumed; DecodeFrame is only ever called with a non-empty buffer (both in-repo callers guard it)")
	r.Assume("payload detachment is asserted for SEND only (async dispatch, adapter_test.go documents it); RECV.Payload/EVENT.Data aliasing the input is counted, not asserted")

	adapter := adapterpkg.New()
	const W = 4
	workers := make([]*c23Worker, W)
	for i := range workers {
		workers[i] = c23NewWorker(r, i, adapter)
	}

	// trivia: empty input and nil receivers must be a clean "wait"
	r.BeginCase(0, "empty inputs and >1 MiB runs")
	if !r.Skip(0) {
		for _, conf := range workers[0].confs {
			for _, in := range [][]byte{nil, {}} {
				f, c, e, bad := workers[0].decodeCall(conf, in, "empty", func() map[string]any { return map[string]any{"session": conf.name} })
				if !bad && (len(f) != 0 || c != 0 || e != nil) {
					r.Violation("empty-input-not-wait", map[string]any{"session": conf.name, "consumed": c, "err": fmt.Sprint(e)})
				}
			}
		}
		// a decoder may never sit on more than a maximal frame: runs of
		// continuation bytes / zero bytes longer than 1 MiB + header
		big := make([]byte, 1+5+int(codec.MaxRemaingLength)+64)
		for _, fill := range []byte{0x80, 0xff, 0x81} {
			for i := range big {
				big[i] = fill
			}
			for _, ft := range []frame.FrameType{frame.CONNECT, frame.SEND, frame.RECVACK, frame.EVENT, 13, 15} {
				big[0] = byte(ft) << 4
				for _, conf := range []*c23Conf{workers[0].confs[0], workers[0].confs[len(workers[0].confs)-1], workers[0].confs[3]} {
					workers[0].hostileOne(r.Rand(23, 4, uint64(fill), uint64(ft)), conf, "huge-run", big)
				}
			}
		}
		workers[0].flush()
		// recorded, not asserted: the codec entry point itself has a non-empty precondition
		func() {
			defer func() {
				if p := recover(); p != nil {
					r.Note("decodeframe_empty_input", "panics: "+fmt.Sprint(p)+" (all in-repo callers guard len>0)")
				}
			}()
			f, n, err := codec.New().DecodeFrame(nil, frame.LatestVersion)
			r.Note("decodeframe_empty_input", fmt.Sprintf("nil=%v n=%d err=%v", f == nil, n, err))
		}()
	}

	type job struct {
		idx   int
		phase int
		bi    int
	}
	var jobs []job
	idx := 1
	for bi := 0; bi < r.N(24, 200); bi++ {
		jobs = append(jobs, job{idx, 1, bi})
		idx++
	}
	for bi := 0; bi < r.N(40, 320); bi++ {
		jobs = append(jobs, job{idx, 2, bi})
		idx++
	}
	for bi := 0; bi < r.N(80, 800); bi++ {
		jobs = append(jobs, job{idx, 3, bi})
		idx++
	}
	var wg sync.WaitGroup
	for wi := 0; wi < W; wi++ {
		wg.Add(1)
		go func(w *c23Worker) {
			defer wg.Done()
			for ji := w.id; ji < len(jobs); ji += W {
				j := jobs[ji]
				if r.Skip(j.idx) {
					continue
				}
				switch j.phase {
				case 1:
					r.BeginCase(j.idx, fmt.Sprintf("small valid streams batch %d", j.bi))
					w.smallBatch(j.bi, 10)
				case 2:
					r.BeginCase(j.idx, fmt.Sprintf("large valid streams batch %d", j.bi))
					w.largeBatch(j.bi, 50)
				case 3:
					r.BeginCase(j.idx, fmt.Sprintf("hostile batch %d", j.bi))
					w.hostileBatch(j.bi, 2000)
				}
				w.flush()
			}
		}(workers[wi])
	}
	wg.Wait()
}
