//go:build verif

package core_test

// Frame generator, version projection table and semantic equality for C22.
// MECHANICAL COPY of harness/c22/c22_gen_test.go (prefix, package clause and
// codec. qualifiers changed by sed); edit the C22 file and regenerate.
//
// PROJECTION TABLE — which frame fields a (type, version) carries on the wire.
// There is no WKProto wire document in /repo (only pkg/protocol/jsonrpc has a
// protocol.md), so the table is written from the frame field comments
// (frame/recv.go: "以下三个字段在5版本后不再支持" for StreamNo/StreamId/StreamFlag and
// "以下不参与编码" for RecvPacket.ClientSeq; frame/common.go: Framer flag comments,
// "HasServerVersion … connack包用到", FrameSize "不参与编码解码",
// LegacyMessageSeqVersion=5 / MessageSeqU64Version=6 with the 4/8 byte sizes,
// ClientSeqByteSize=4) and — for the numeric gates that no comment states —
// from reading the codec (encoder and decoder agree on them):
//
//	fixed header   type nibble | DUP<<3 | SyncOnce<<2 | RedDot<<1 | NoPersist
//	               CONNACK: only bit0 = HasServerVersion (read from codec/common.go)
//	               PING/PONG: one byte type<<4, no flags     (read from codec/protocol.go)
//	               Framer.End is never carried by WKProto (only by JSON-RPC headers)
//	CONNECT  all v: Version DeviceFlag DeviceID UID Token ClientTimestamp ClientKey
//	CONNACK  [ServerVersion iff HasServerVersion] TimeDiff ReasonCode ServerKey Salt [NodeId iff v>=4]   (gate read from codec/connack.go)
//	SEND     Setting ClientSeq(u32) ClientMsgNo [StreamNo iff 2<=v<5 && Setting.Stream] ChannelID ChannelType
//	         [Expire iff v>=3] MsgKey [Topic iff Setting.Topic] Payload(rest)     (gates 2 and 3 read from codec/send.go)
//	SENDACK  MessageID ClientSeq(u32) MessageSeq(u32 iff v<=5 else u64) ReasonCode [ClientMsgNo iff non-empty]
//	RECV     Setting MsgKey FromUID ChannelID ChannelType [Expire iff v>=3] ClientMsgNo
//	         [StreamFlag StreamNo StreamId iff 2<=v<5 && Setting.Stream] MessageID MessageSeq Timestamp
//	         [Topic iff Setting.Topic] Payload(rest); ClientSeq never
//	RECVACK  MessageID MessageSeq
//	DISCONNECT ReasonCode Reason;  SUB Setting SubNo ChannelID ChannelType Action Param
//	SUBACK   SubNo ChannelID ChannelType Action ReasonCode;  EVENT Id Type Timestamp Data(rest)
//
// PROTOCOL LIMITS (frames outside are excluded by the statement): strings
// <= 32767 bytes (int16 length prefix, decoder rejects negative; the encoder
// panics above it), SEND payload <= codec.PayloadMaxSize, remaining length <=
// codec.MaxRemaingLength (1 MiB), ClientSeq <= MaxUint32 (4 wire bytes), MessageSeq
// <= MaxUint32 when v <= LegacyMessageSeqVersion.

import (
	"bytes"
	"fmt"
	"math"
	"math/rand/v2"
	"reflect"
	"strconv"
	"strings"

	codec "github.com/WuKongIM/WuKongIM/pkg/protocol/codec"
	"github.com/WuKongIM/WuKongIM/pkg/protocol/frame"
)

const c23MaxStr = math.MaxInt16 // 32767

var c23AllTypes = []frame.FrameType{frame.CONNECT, frame.CONNACK, frame.SEND, frame.SENDACK, frame.RECV, frame.RECVACK,
	frame.PING, frame.PONG, frame.DISCONNECT, frame.SUB, frame.SUBACK, frame.EVENT}

// c23VersionDependent: types that carry >= 1 version-dependent or optional field.
func c23VersionDependent(ft frame.FrameType) bool {
	switch ft {
	case frame.CONNACK, frame.SEND, frame.SENDACK, frame.RECV, frame.RECVACK:
		return true
	}
	return false
}

type c23Gen struct {
	rng  *rand.Rand
	blob string // random bytes, sliced (zero-copy) for string contents
	bb   []byte
	tiny bool // only very short fields (C23 small streams)
	// maxPayload bounds RECV/EVENT payloads (SEND is always <= codec.PayloadMaxSize)
	maxPayload int
}

func c23NewGen(rng *rand.Rand) *c23Gen {
	bb := make([]byte, 1<<17)
	for i := 0; i < len(bb); i += 8 {
		x := rng.Uint64()
		for j := 0; j < 8; j++ {
			bb[i+j] = byte(x >> (8 * j))
		}
	}
	// sprinkle some friendlier stretches so samples are readable
	copy(bb[100:], []byte("uid_01@channel-é用户\x00\xff"))
	return &c23Gen{rng: rng, blob: string(bb), bb: bb, maxPayload: 70000}
}

func (g *c23Gen) strN(n int) string {
	if n == 0 {
		return ""
	}
	off := g.rng.IntN(len(g.blob) - n)
	return g.blob[off : off+n]
}

func (g *c23Gen) bytesN(n int) []byte {
	if n == 0 {
		if g.rng.IntN(2) == 0 {
			return nil
		}
		return []byte{}
	}
	out := make([]byte, n)
	if n >= len(g.bb)/2 {
		off := g.rng.IntN(len(g.bb))
		for i := 0; i < n; {
			i += copy(out[i:], g.bb[off:])
			off = 0
		}
		return out
	}
	off := g.rng.IntN(len(g.bb) - n)
	copy(out, g.bb[off:off+n])
	return out
}

func (g *c23Gen) slen() int {
	if g.tiny {
		return g.rng.IntN(4)
	}
	switch x := g.rng.IntN(1000); {
	case x < 200:
		return 0
	case x < 700:
		return 1 + g.rng.IntN(12)
	case x < 850:
		return []int{127, 128, 255, 256}[g.rng.IntN(4)]
	case x < 975:
		return g.rng.IntN(300)
	case x < 995:
		return 1000 + g.rng.IntN(5000)
	default:
		return []int{c23MaxStr - 1, c23MaxStr}[g.rng.IntN(2)]
	}
}

func (g *c23Gen) str() string { return g.strN(g.slen()) }

func (g *c23Gen) plen(max int) int {
	if g.tiny {
		return g.rng.IntN(9)
	}
	var n int
	switch x := g.rng.IntN(1000); {
	case x < 150:
		n = 0
	case x < 600:
		n = 1 + g.rng.IntN(40)
	case x < 800:
		n = []int{100, 126, 127, 128, 129, 255, 256}[g.rng.IntN(7)]
	case x < 950:
		n = g.rng.IntN(2000)
	case x < 990:
		n = 16300 + g.rng.IntN(200)
	default:
		n = max - g.rng.IntN(3)
	}
	if n > max {
		n = max
	}
	return n
}

func (g *c23Gen) u64() uint64 {
	switch g.rng.IntN(10) {
	case 0:
		return 0
	case 1:
		return 1
	case 2:
		return math.MaxUint32
	case 3:
		return math.MaxUint32 + 1
	case 4:
		return math.MaxUint64
	case 5:
		return math.MaxUint64 - 1
	case 6:
		return 1 << 63
	case 7:
		return math.MaxUint32 - 1
	}
	return g.rng.Uint64() >> g.rng.IntN(64)
}

func (g *c23Gen) u32() uint32 {
	switch g.rng.IntN(8) {
	case 0:
		return 0
	case 1:
		return 1
	case 2:
		return math.MaxUint32
	case 3:
		return math.MaxInt32
	case 4:
		return math.MaxInt32 + 1
	}
	return g.rng.Uint32() >> g.rng.IntN(32)
}

func (g *c23Gen) i64() int64 {
	switch g.rng.IntN(8) {
	case 0:
		return 0
	case 1:
		return -1
	case 2:
		return math.MinInt64
	case 3:
		return math.MaxInt64
	case 4:
		return 1
	}
	return int64(g.rng.Uint64())
}

func (g *c23Gen) i32() int32 {
	switch g.rng.IntN(8) {
	case 0:
		return 0
	case 1:
		return -1
	case 2:
		return math.MinInt32
	case 3:
		return math.MaxInt32
	}
	return int32(g.rng.Uint32())
}

func (g *c23Gen) u8() uint8 {
	switch g.rng.IntN(6) {
	case 0:
		return 0
	case 1:
		return 255
	case 2:
		return 128
	}
	return uint8(g.rng.UintN(256))
}

// seq returns a MessageSeq within the limits of version v.
func (g *c23Gen) seq(v uint8) uint64 {
	x := g.u64()
	if v <= frame.LegacyMessageSeqVersion && x > math.MaxUint32 {
		x = uint64(g.u32())
	}
	return x
}

func (g *c23Gen) setting() frame.Setting {
	s := frame.Setting(g.rng.UintN(256))
	switch g.rng.IntN(4) {
	case 0:
		s &^= frame.SettingStream | frame.SettingTopic
	case 1:
		s |= frame.SettingStream | frame.SettingTopic
	}
	return s
}

// c23Framer builds a Framer from 6 flag bits (0 NoPersist,1 RedDot,2 SyncOnce,3 DUP,4 HasServerVersion,5 End).
// RemainingLength / FrameSize / FrameType are input-side garbage on purpose:
// the encoder must derive them from the packet, not from these fields.
func (g *c23Gen) framer(bits uint8) frame.Framer {
	fr := frame.Framer{NoPersist: bits&1 != 0, RedDot: bits&2 != 0, SyncOnce: bits&4 != 0, DUP: bits&8 != 0,
		HasServerVersion: bits&16 != 0, End: bits&32 != 0}
	if g.rng.IntN(4) == 0 {
		fr.RemainingLength = g.rng.Uint32()
		fr.FrameSize = int64(g.rng.Uint32())
	}
	return fr
}

// gen builds one frame of type ft whose fields are within the limits of version v.
func (g *c23Gen) gen(ft frame.FrameType, v uint8, flagBits uint8) frame.Frame {
	fr := g.framer(flagBits)
	switch ft {
	case frame.CONNECT:
		return &frame.ConnectPacket{Framer: fr, Version: g.u8(), ClientKey: g.str(), DeviceID: g.str(), DeviceFlag: frame.DeviceFlag(g.u8()),
			ClientTimestamp: g.i64(), UID: g.str(), Token: g.str()}
	case frame.CONNACK:
		return &frame.ConnackPacket{Framer: fr, ServerVersion: g.u8(), ServerKey: g.str(), Salt: g.str(), TimeDiff: g.i64(),
			ReasonCode: frame.ReasonCode(g.u8()), NodeId: g.u64()}
	case frame.SEND:
		return &frame.SendPacket{Framer: fr, Setting: g.setting(), MsgKey: g.str(), Expire: g.u32(), ClientSeq: uint64(g.u32()),
			ClientMsgNo: g.str(), StreamNo: g.str(), ChannelID: g.str(), ChannelType: g.u8(), Topic: g.str(),
			Payload: g.bytesN(g.plen(codec.PayloadMaxSize))}
	case frame.SENDACK:
		p := &frame.SendackPacket{Framer: fr, MessageID: g.i64(), MessageSeq: g.seq(v), ClientSeq: uint64(g.u32()), ReasonCode: frame.ReasonCode(g.u8())}
		if g.rng.IntN(3) != 0 {
			p.ClientMsgNo = g.str()
		}
		return p
	case frame.RECV:
		return &frame.RecvPacket{Framer: fr, Setting: g.setting(), MsgKey: g.str(), Expire: g.u32(), MessageID: g.i64(), MessageSeq: g.seq(v),
			ClientMsgNo: g.str(), StreamNo: g.str(), StreamId: g.u64(), StreamFlag: frame.StreamFlag(g.u8()), Timestamp: g.i32(),
			ChannelID: g.str(), ChannelType: g.u8(), Topic: g.str(), FromUID: g.str(), Payload: g.bytesN(g.plen(g.maxPayload)),
			ClientSeq: g.u64()}
	case frame.RECVACK:
		return &frame.RecvackPacket{Framer: fr, MessageID: g.i64(), MessageSeq: g.seq(v)}
	case frame.PING:
		return &frame.PingPacket{Framer: fr}
	case frame.PONG:
		return &frame.PongPacket{Framer: fr}
	case frame.DISCONNECT:
		return &frame.DisconnectPacket{Framer: fr, ReasonCode: frame.ReasonCode(g.u8()), Reason: g.str()}
	case frame.SUB:
		return &frame.SubPacket{Framer: fr, Setting: g.setting(), SubNo: g.str(), ChannelID: g.str(), ChannelType: g.u8(),
			Action: frame.Action(g.u8()), Param: g.str()}
	case frame.SUBACK:
		return &frame.SubackPacket{Framer: fr, SubNo: g.str(), ChannelID: g.str(), ChannelType: g.u8(), Action: frame.Action(g.u8()),
			ReasonCode: frame.ReasonCode(g.u8())}
	case frame.EVENT:
		return &frame.EventPacket{Framer: fr, Id: g.str(), Type: g.str(), Timestamp: g.i64(), Data: g.bytesN(g.plen(g.maxPayload))}
	}
	panic("c23: unknown frame type")
}

// c23FramerOf returns a pointer to the embedded Framer.
func c23FramerOf(f frame.Frame) *frame.Framer {
	switch p := f.(type) {
	case *frame.ConnectPacket:
		return &p.Framer
	case *frame.ConnackPacket:
		return &p.Framer
	case *frame.SendPacket:
		return &p.Framer
	case *frame.SendackPacket:
		return &p.Framer
	case *frame.RecvPacket:
		return &p.Framer
	case *frame.RecvackPacket:
		return &p.Framer
	case *frame.PingPacket:
		return &p.Framer
	case *frame.PongPacket:
		return &p.Framer
	case *frame.DisconnectPacket:
		return &p.Framer
	case *frame.SubPacket:
		return &p.Framer
	case *frame.SubackPacket:
		return &p.Framer
	case *frame.EventPacket:
		return &p.Framer
	}
	return nil
}

func c23StreamCarried(v uint8, s frame.Setting) bool {
	return v >= 2 && v < 5 && s&frame.SettingStream != 0
}

// c23Project returns the frame a decoder at version v must produce for f
// (fields the version does not carry are zero). See the table at the top.
func c23Project(f frame.Frame, v uint8) frame.Frame {
	ft := f.GetFrameType()
	in := c23FramerOf(f)
	fr := frame.Framer{FrameType: ft}
	switch ft {
	case frame.PING, frame.PONG:
	case frame.CONNACK:
		fr.HasServerVersion = in.HasServerVersion
	default:
		fr.NoPersist, fr.RedDot, fr.SyncOnce, fr.DUP = in.NoPersist, in.RedDot, in.SyncOnce, in.DUP
	}
	switch p := f.(type) {
	case *frame.ConnectPacket:
		q := *p
		q.Framer = fr
		return &q
	case *frame.ConnackPacket:
		q := *p
		q.Framer = fr
		if !in.HasServerVersion {
			q.ServerVersion = 0
		}
		if v < 4 {
			q.NodeId = 0
		}
		return &q
	case *frame.SendPacket:
		q := *p
		q.Framer = fr
		if !c23StreamCarried(v, p.Setting) {
			q.StreamNo = ""
		}
		if v < 3 {
			q.Expire = 0
		}
		if p.Setting&frame.SettingTopic == 0 {
			q.Topic = ""
		}
		return &q
	case *frame.SendackPacket:
		q := *p
		q.Framer = fr
		return &q
	case *frame.RecvPacket:
		q := *p
		q.Framer = fr
		if !c23StreamCarried(v, p.Setting) {
			q.StreamNo, q.StreamId, q.StreamFlag = "", 0, 0
		}
		if v < 3 {
			q.Expire = 0
		}
		if p.Setting&frame.SettingTopic == 0 {
			q.Topic = ""
		}
		q.ClientSeq = 0
		return &q
	case *frame.RecvackPacket:
		q := *p
		q.Framer = fr
		return &q
	case *frame.PingPacket:
		return &frame.PingPacket{Framer: fr}
	case *frame.PongPacket:
		return &frame.PongPacket{Framer: fr}
	case *frame.DisconnectPacket:
		q := *p
		q.Framer = fr
		return &q
	case *frame.SubPacket:
		q := *p
		q.Framer = fr
		return &q
	case *frame.SubackPacket:
		q := *p
		q.Framer = fr
		return &q
	case *frame.EventPacket:
		q := *p
		q.Framer = fr
		return &q
	}
	panic("c23: project: unknown frame")
}

// c23Diff compares the expected (projected) frame with a decoded one and
// returns the name of the first differing field ("" if semantically equal).
// Framer.RemainingLength and Framer.FrameSize are derived by the decoder
// ("不参与编码解码") and excluded; nil and empty byte slices are equal.
// CONNACK: header bit0 is HasServerVersion, which FramerFromUint8 also mirrors
// into NoPersist; NoPersist is not a CONNACK field, so for CONNACK it may be
// false or equal to HasServerVersion (interpretation, see report).
func c23Diff(exp, got frame.Frame) string {
	if got == nil {
		return "nil"
	}
	ev, gv := reflect.ValueOf(exp), reflect.ValueOf(got)
	if ev.Type() != gv.Type() {
		return "gotype(" + gv.Type().String() + ")"
	}
	ev, gv = ev.Elem(), gv.Elem()
	t := ev.Type()
	for i := 0; i < t.NumField(); i++ {
		name := t.Field(i).Name
		ef, gf := ev.Field(i), gv.Field(i)
		if name == "Framer" {
			e, g := c23FramerOf(exp), c23FramerOf(got)
			if e.FrameType != g.FrameType {
				return "Framer.FrameType"
			}
			if e.FrameType == frame.CONNACK {
				if g.NoPersist && !e.HasServerVersion {
					return "Framer.NoPersist"
				}
			} else if e.NoPersist != g.NoPersist {
				return "Framer.NoPersist"
			}
			if e.RedDot != g.RedDot {
				return "Framer.RedDot"
			}
			if e.SyncOnce != g.SyncOnce {
				return "Framer.SyncOnce"
			}
			if e.DUP != g.DUP {
				return "Framer.DUP"
			}
			if e.HasServerVersion != g.HasServerVersion {
				return "Framer.HasServerVersion"
			}
			if e.End != g.End {
				return "Framer.End"
			}
			continue
		}
		switch ef.Kind() {
		case reflect.Slice:
			if !bytes.Equal(ef.Bytes(), gf.Bytes()) {
				return name
			}
		case reflect.String:
			if ef.String() != gf.String() {
				return name
			}
		case reflect.Uint8, reflect.Uint32, reflect.Uint64:
			if ef.Uint() != gf.Uint() {
				return name
			}
		case reflect.Int32, reflect.Int64:
			if ef.Int() != gf.Int() {
				return name
			}
		default:
			panic("c23: unhandled field kind " + ef.Kind().String() + " for " + name)
		}
	}
	return ""
}

func c23LenClass(n int) string {
	switch {
	case n <= 2:
		return strconv.Itoa(n)
	case n < 127:
		return "s"
	case n <= 128, n == 255, n == 256, n >= c23MaxStr-1 && n <= c23MaxStr, n == 16383, n == 16384:
		return strconv.Itoa(n)
	case n < 16383:
		return "m"
	default:
		return "L"
	}
}

func c23U64Class(x uint64) string {
	switch {
	case x <= 1:
		return strconv.FormatUint(x, 10)
	case x < math.MaxUint32:
		return "a"
	case x == math.MaxUint32:
		return "M32"
	case x == math.MaxUint64:
		return "M64"
	case x >= 1<<63:
		return "h"
	default:
		return "b"
	}
}

// c23Shape is the abstract shape used as non-trivial fingerprint and for samples.
func c23Shape(f frame.Frame, v uint8) string {
	var sb strings.Builder
	sb.WriteString(f.GetFrameType().String())
	sb.WriteString("|v")
	sb.WriteString(strconv.Itoa(int(v)))
	rv := reflect.ValueOf(f).Elem()
	t := rv.Type()
	for i := 0; i < t.NumField(); i++ {
		fv := rv.Field(i)
		sb.WriteByte('|')
		switch fv.Kind() {
		case reflect.Struct:
			fr := fv.Interface().(frame.Framer)
			b := 0
			for k, x := range []bool{fr.NoPersist, fr.RedDot, fr.SyncOnce, fr.DUP, fr.HasServerVersion, fr.End} {
				if x {
					b |= 1 << k
				}
			}
			sb.WriteString(strconv.Itoa(b))
		case reflect.String:
			sb.WriteString(c23LenClass(fv.Len()))
		case reflect.Slice:
			sb.WriteString(c23LenClass(fv.Len()))
		case reflect.Uint8:
			if t.Field(i).Name == "Setting" {
				sb.WriteString(strconv.Itoa(int(fv.Uint() & uint64(frame.SettingStream|frame.SettingTopic))))
			} else if fv.Uint() == 0 {
				sb.WriteByte('0')
			} else {
				sb.WriteByte('x')
			}
		case reflect.Uint32, reflect.Uint64:
			sb.WriteString(c23U64Class(fv.Uint()))
		case reflect.Int32, reflect.Int64:
			x := fv.Int()
			switch {
			case x == 0:
				sb.WriteByte('0')
			case x < 0:
				sb.WriteByte('-')
			default:
				sb.WriteByte('+')
			}
		}
	}
	return sb.String()
}

// c23Describe renders a frame for witnesses/samples without dumping big payloads.
func c23Describe(f frame.Frame) map[string]any {
	out := map[string]any{}
	if f == nil {
		return out
	}
	rv := reflect.ValueOf(f)
	out["gotype"] = rv.Type().String()
	if rv.Kind() != reflect.Pointer || rv.IsNil() {
		return out
	}
	rv = rv.Elem()
	t := rv.Type()
	for i := 0; i < t.NumField(); i++ {
		fv := rv.Field(i)
		name := t.Field(i).Name
		switch fv.Kind() {
		case reflect.String:
			s := fv.String()
			if len(s) > 24 {
				out[name] = fmt.Sprintf("len=%d %x..", len(s), s[:12])
			} else {
				out[name] = fmt.Sprintf("%q", s)
			}
		case reflect.Slice:
			b := fv.Bytes()
			if len(b) > 24 {
				out[name] = fmt.Sprintf("len=%d %x..", len(b), b[:12])
			} else {
				out[name] = fmt.Sprintf("%x", b)
			}
		case reflect.Struct:
			out[name] = fmt.Sprintf("%+v", fv.Interface())
		default:
			out[name] = fmt.Sprint(fv.Interface())
		}
	}
	return out
}

// c23ParseHeader parses type byte + varint remaining length independently of
// the codec. ok=false if b is not a well-formed single header.
func c23ParseHeader(b []byte) (ft frame.FrameType, flags uint8, rem int, hdr int, ok bool) {
	if len(b) == 0 {
		return 0, 0, 0, 0, false
	}
	ft = frame.FrameType(b[0] >> 4)
	flags = b[0] & 0x0f
	if ft == frame.PING || ft == frame.PONG {
		return ft, flags, 0, 1, true
	}
	shift := 0
	for i := 1; i < len(b) && i <= 4; i++ {
		rem |= int(b[i]&0x7f) << shift
		if b[i]&0x80 == 0 {
			return ft, flags, rem, i + 1, true
		}
		shift += 7
	}
	return ft, flags, 0, 0, false
}

// c23StringFields lists the string fields of a frame type (for boundary sweeps).
func c23StringFields(f frame.Frame) []string {
	var out []string
	t := reflect.TypeOf(f).Elem()
	for i := 0; i < t.NumField(); i++ {
		if t.Field(i).Type.Kind() == reflect.String {
			out = append(out, t.Field(i).Name)
		}
	}
	return out
}

func c23SetString(f frame.Frame, field, val string) {
	reflect.ValueOf(f).Elem().FieldByName(field).SetString(val)
}

// c23IntFields lists integer (non-uint8) fields.
func c23IntFields(f frame.Frame) []string {
	var out []string
	t := reflect.TypeOf(f).Elem()
	for i := 0; i < t.NumField(); i++ {
		switch t.Field(i).Type.Kind() {
		case reflect.Uint32, reflect.Uint64, reflect.Int32, reflect.Int64:
			out = append(out, t.Field(i).Name)
		}
	}
	return out
}

func c23U8Fields(f frame.Frame) []string {
	var out []string
	t := reflect.TypeOf(f).Elem()
	for i := 0; i < t.NumField(); i++ {
		if t.Field(i).Type.Kind() == reflect.Uint8 {
			out = append(out, t.Field(i).Name)
		}
	}
	return out
}

// c23IntExtremes returns the boundary values of an integer field within the
// limits of (type, field, version).
func c23IntExtremes(f frame.Frame, field string, v uint8) []any {
	fv := reflect.ValueOf(f).Elem().FieldByName(field)
	wire32 := field == "ClientSeq" && f.GetFrameType() != frame.RECV || field == "MessageSeq" && v <= frame.LegacyMessageSeqVersion
	switch fv.Kind() {
	case reflect.Uint64:
		if wire32 {
			return []any{uint64(0), uint64(1), uint64(math.MaxUint32 - 1), uint64(math.MaxUint32)}
		}
		return []any{uint64(0), uint64(1), uint64(math.MaxUint32), uint64(math.MaxUint32 + 1), uint64(1 << 63), uint64(math.MaxUint64 - 1), uint64(math.MaxUint64)}
	case reflect.Uint32:
		return []any{uint32(0), uint32(1), uint32(math.MaxInt32), uint32(math.MaxInt32 + 1), uint32(math.MaxUint32)}
	case reflect.Int64:
		return []any{int64(0), int64(1), int64(-1), int64(math.MinInt64), int64(math.MaxInt64)}
	case reflect.Int32:
		return []any{int32(0), int32(1), int32(-1), int32(math.MinInt32), int32(math.MaxInt32)}
	}
	return nil
}

func c23SetField(f frame.Frame, field string, val any) {
	reflect.ValueOf(f).Elem().FieldByName(field).Set(reflect.ValueOf(val).Convert(reflect.ValueOf(f).Elem().FieldByName(field).Type()))
}

// c23SetFill sets the filler field (payload for SEND/RECV/EVENT, else the first
// string field) to n bytes. Returns false if the type has no filler or n is
// outside the field's limit.
func (g *c23Gen) setFill(f frame.Frame, n int) bool {
	if n < 0 {
		return false
	}
	switch p := f.(type) {
	case *frame.SendPacket:
		if n > codec.PayloadMaxSize {
			return false
		}
		p.Payload = g.bytesN(n)
		return true
	case *frame.RecvPacket:
		p.Payload = g.bytesN(n)
		return true
	case *frame.EventPacket:
		p.Data = g.bytesN(n)
		return true
	}
	fields := c23StringFields(f)
	if len(fields) == 0 || n > c23MaxStr {
		return false
	}
	name := fields[0]
	if f.GetFrameType() == frame.SENDACK && n == 0 {
		return false // empty ClientMsgNo is omitted together with its length prefix
	}
	c23SetString(f, name, g.strN(n))
	return true
}
