//go:build verif

package core_test

// C23 unit "core" — the same valid-stream / split-point oracle, but through
// the REAL gateway core.Server.onData (testkit fake transport, real wkproto
// adapter, recording handler), so buffer handling between Decode and dispatch
// is part of what is observed.
//
// Dispatchability: without an Authenticator the core marks wkproto sessions
// authenticated at open and hands EVERY decoded frame type to Handler.OnFrame
// (SEND asynchronously through the send executor, all other types
// synchronously inside onData), so EVENT/RECV/... client->server frames are
// observable at the handler. OnSessionOpen runs at connection open; the
// handler uses it to install the negotiated protocol version / encryption keys
// on the session (what the CONNECT auth path would do).

import (
	"bytes"
	"encoding/json"
	"fmt"
	"strconv"
	"strings"
	"sync"
	"sync/atomic"
	"testing"
	"time"

	"github.com/WuKongIM/WuKongIM/pkg/gateway/core"
	adapterpkg "github.com/WuKongIM/WuKongIM/pkg/gateway/protocol/wkproto"
	"github.com/WuKongIM/WuKongIM/pkg/gateway/testkit"
	gatewaytypes "github.com/WuKongIM/WuKongIM/pkg/gateway/types"
	codec "github.com/WuKongIM/WuKongIM/pkg/protocol/codec"
	"github.com/WuKongIM/WuKongIM/pkg/protocol/frame"
	"github.com/WuKongIM/WuKongIM/pkg/protocol/wkprotoenc"
	"github.com/WuKongIM/WuKongIM/pkg/verifkit"
)

const c23cListener = "verif-l"

type c23cConf struct {
	name      string
	ver       int // -1 unset
	eff       uint8
	encrypted bool
}

type c23cGot struct {
	copy frame.Frame // deep copy taken AT DISPATCH
	ref  frame.Frame // the frame object the handler was given (retained)
}

// c23cRec is the per-connection record kept by the handler.
type c23cRec struct {
	conf   *c23cConf
	crypto *wkprotoenc.SessionCrypto
	keys   wkprotoenc.SessionKeys

	mu      sync.Mutex
	got     []c23cGot
	closed  bool
	reason  string
	errs    []string
	changed chan struct{}
}

func (rec *c23cRec) signalLocked() {
	if rec.changed != nil {
		close(rec.changed)
		rec.changed = nil
	}
}

type c23cHandler struct {
	mu     sync.RWMutex
	byConn map[uint64]*c23cRec
	bySess map[uint64]*c23cRec
}

func (h *c23cHandler) register(connID uint64, rec *c23cRec) {
	h.mu.Lock()
	h.byConn[connID] = rec
	h.mu.Unlock()
}

func (h *c23cHandler) unregister(connID uint64) {
	h.mu.Lock()
	rec := h.byConn[connID]
	delete(h.byConn, connID)
	for id, r := range h.bySess {
		if r == rec {
			delete(h.bySess, id)
		}
	}
	h.mu.Unlock()
}

func (h *c23cHandler) rec(ctx gatewaytypes.Context) *c23cRec {
	if ctx.Session == nil {
		return nil
	}
	h.mu.RLock()
	defer h.mu.RUnlock()
	return h.bySess[ctx.Session.ID()]
}

func (h *c23cHandler) OnListenerError(string, error) {}

func (h *c23cHandler) OnSessionOpen(ctx gatewaytypes.Context) error {
	if ctx.Session == nil {
		return nil
	}
	// testkit.FakeConn.RemoteAddr() is "fake-remote-<connID>"
	id, err := strconv.ParseUint(strings.TrimPrefix(ctx.Session.RemoteAddr(), "fake-remote-"), 10, 64)
	if err != nil {
		return nil
	}
	h.mu.Lock()
	rec := h.byConn[id]
	if rec != nil {
		h.bySess[ctx.Session.ID()] = rec
	}
	h.mu.Unlock()
	if rec == nil {
		return nil
	}
	if rec.conf.ver >= 0 {
		ctx.Session.SetValue(gatewaytypes.SessionValueProtocolVersion, uint8(rec.conf.ver))
	}
	if rec.conf.encrypted {
		ctx.Session.SetValue(gatewaytypes.SessionValueEncryptionEnabled, true)
		ctx.Session.SetValue(gatewaytypes.SessionValueAESKey, rec.keys.AESKey)
		ctx.Session.SetValue(gatewaytypes.SessionValueAESIV, rec.keys.AESIV)
		ctx.Session.SetValue(gatewaytypes.SessionValueCrypto, rec.crypto)
	}
	return nil
}

func c23cDeepCopy(f frame.Frame) frame.Frame {
	switch p := f.(type) {
	case *frame.ConnectPacket:
		q := *p
		return &q
	case *frame.ConnackPacket:
		q := *p
		return &q
	case *frame.SendPacket:
		q := *p
		q.Payload = bytes.Clone(p.Payload)
		return &q
	case *frame.SendackPacket:
		q := *p
		return &q
	case *frame.RecvPacket:
		q := *p
		q.Payload = bytes.Clone(p.Payload)
		return &q
	case *frame.RecvackPacket:
		q := *p
		return &q
	case *frame.PingPacket:
		q := *p
		return &q
	case *frame.PongPacket:
		q := *p
		return &q
	case *frame.DisconnectPacket:
		q := *p
		return &q
	case *frame.SubPacket:
		q := *p
		return &q
	case *frame.SubackPacket:
		q := *p
		return &q
	case *frame.EventPacket:
		q := *p
		q.Data = bytes.Clone(p.Data)
		return &q
	}
	return f
}

func (h *c23cHandler) OnFrame(ctx gatewaytypes.Context, f frame.Frame) error {
	rec := h.rec(ctx)
	if rec == nil {
		return nil
	}
	cp := c23cDeepCopy(f)
	rec.mu.Lock()
	rec.got = append(rec.got, c23cGot{copy: cp, ref: f})
	rec.signalLocked()
	rec.mu.Unlock()
	return nil
}

func (h *c23cHandler) OnSessionClose(ctx gatewaytypes.Context) error {
	if rec := h.rec(ctx); rec != nil {
		rec.mu.Lock()
		rec.closed = true
		rec.reason = fmt.Sprint(ctx.CloseReason)
		rec.signalLocked()
		rec.mu.Unlock()
	}
	return nil
}

func (h *c23cHandler) OnSessionError(ctx gatewaytypes.Context, err error) {
	if rec := h.rec(ctx); rec != nil {
		rec.mu.Lock()
		rec.errs = append(rec.errs, fmt.Sprint(ctx.CloseReason)+": "+fmt.Sprint(err))
		rec.mu.Unlock()
	}
}

type c23cStream struct {
	conf   *c23cConf
	wire   []byte
	bounds []int
	exp    []frame.Frame
	types  string
}

type c23cWorker struct {
	r       *verifkit.Run
	id      int
	srv     *core.Server
	tf      *testkit.FakeTransportFactory
	h       *c23cHandler
	proto   *codec.WKProto
	confs   []*c23cConf
	crypto  *wkprotoenc.SessionCrypto
	keys    wkprotoenc.SessionKeys
	connSeq *atomic.Uint64
	tbuf    []byte // the "transport read buffer", reused for every chunk like a real event loop does
	cnt     map[string]int
	max     map[string]int
	evals   int
	dead    bool // a watchdog fired; stop driving
}

func (w *c23cWorker) count(k string, n int) { w.cnt[k] += n }
func (w *c23cWorker) flush() {
	for k, n := range w.cnt {
		w.r.Count(k, n)
		delete(w.cnt, k)
	}
	for k, n := range w.max {
		w.r.Max(k, n)
	}
	w.r.Eval(w.evals)
	w.evals = 0
}

var c23cClientTypes = []frame.FrameType{frame.EVENT, frame.EVENT, frame.RECV, frame.SEND, frame.SEND, frame.RECVACK, frame.PING, frame.SUB, frame.CONNECT, frame.DISCONNECT}

func (w *c23cWorker) buildStream(g *c23Gen, conf *c23cConf, n int, maxLen int) *c23cStream {
	st := &c23cStream{conf: conf, bounds: []int{0}}
	v := conf.eff
	for i := 0; i < n; i++ {
		var ft frame.FrameType
		if g.rng.IntN(4) == 0 {
			ft = c23AllTypes[g.rng.IntN(len(c23AllTypes))]
		} else {
			ft = c23cClientTypes[g.rng.IntN(len(c23cClientTypes))]
		}
		f := g.gen(ft, v, uint8(g.rng.UintN(64)))
		// payload-bearing frames must carry data for aliasing to be visible
		switch p := f.(type) {
		case *frame.EventPacket:
			if len(p.Data) == 0 {
				p.Data = g.bytesN(1 + g.rng.IntN(12))
			}
		case *frame.RecvPacket:
			if len(p.Payload) == 0 {
				p.Payload = g.bytesN(1 + g.rng.IntN(12))
			}
		case *frame.SendPacket:
			p.ClientSeq = uint64(len(st.exp) + 1) // unique per stream: identifies async-dispatched SENDs
		}
		exp := c23Project(f, v)
		if send, ok := f.(*frame.SendPacket); ok && conf.encrypted && !send.Setting.IsSet(frame.SettingNoEncrypt) {
			plain := send.Payload
			if len(plain) > 20000 {
				plain = plain[:20000]
			}
			sealed, err := wkprotoenc.EncryptPayloadWithCrypto(plain, w.crypto)
			if err != nil {
				panic(err)
			}
			send.Payload = sealed
			if send.MsgKey, err = wkprotoenc.SendMsgKeyWithCrypto(send, w.crypto); err != nil {
				panic(err)
			}
			e := c23Project(send, v).(*frame.SendPacket)
			e.Payload = plain
			exp = e
		}
		b, err := w.proto.EncodeFrame(f, v)
		if err != nil {
			panic(fmt.Sprintf("c23core: generator produced an unencodable frame: %v", err))
		}
		if maxLen > 0 && len(st.wire)+len(b) > maxLen {
			if len(st.exp) == 0 {
				i--
			}
			continue
		}
		st.wire = append(st.wire, b...)
		st.bounds = append(st.bounds, len(st.wire))
		st.exp = append(st.exp, exp)
		st.types += ft.String()[:2] + "."
	}
	return st
}

func c23cHex(b []byte) string {
	if len(b) > 96 {
		return fmt.Sprintf("%x..(%d bytes)", b[:96], len(b))
	}
	return fmt.Sprintf("%x", b)
}

type c23cLazy struct{ f func() map[string]any }

func (l c23cLazy) MarshalJSON() ([]byte, error) { return json.Marshal(l.f()) }

// feed opens a fresh connection on the real server, delivers st.wire in the
// chunks given by cuts and checks what the handler was given.
func (w *c23cWorker) feed(st *c23cStream, cuts []int, kind string) {
	if w.dead {
		return
	}
	r := w.r
	L := len(st.wire)
	connID := w.connSeq.Add(1)
	rec := &c23cRec{conf: st.conf, crypto: w.crypto, keys: w.keys}
	w.h.register(connID, rec)
	defer w.h.unregister(connID)
	lis := w.tf.MustListener(c23cListener)
	wit := func() map[string]any {
		return map[string]any{"session": st.conf.name, "types": st.types, "cuts": cuts, "stream": c23cHex(st.wire), "bounds": st.bounds}
	}
	if r.Guard("core.onOpen:"+kind, c23cLazy{wit}, func() { lis.MustOpen(connID) }) {
		return
	}
	defer func() {
		r.Guard("core.onClose:"+kind, c23cLazy{wit}, func() { lis.EmitClose(connID, nil) })
	}()

	// expected sequences
	var expSync, expSend []int
	for i, f := range st.exp {
		if _, ok := f.(*frame.SendPacket); ok {
			expSend = append(expSend, i)
		} else {
			expSync = append(expSync, i)
		}
	}
	checkedSync := 0
	// checkNow compares everything dispatched so far (deep copies taken at dispatch).
	checkNow := func(supplied int) bool {
		rec.mu.Lock()
		got := append([]c23cGot(nil), rec.got...)
		closed, reason, errs := rec.closed, rec.reason, append([]string(nil), rec.errs...)
		rec.mu.Unlock()
		if closed || len(errs) > 0 {
			m := wit()
			m["close_reason"], m["errors"], m["supplied"] = reason, errs, supplied
			r.Violation("core-closed-valid-stream:"+kind, m)
			return false
		}
		complete := 0
		for complete < len(st.exp) && st.bounds[complete+1] <= supplied {
			complete++
		}
		if len(got) > complete {
			m := wit()
			m["dispatched"], m["complete_frames"], m["supplied"] = len(got), complete, supplied
			r.Violation("core-dispatched-from-incomplete-prefix:"+kind, m)
			return false
		}
		si := 0
		for _, g := range got {
			if _, ok := g.copy.(*frame.SendPacket); ok {
				continue
			}
			if si >= len(expSync) {
				m := wit()
				m["extra"] = c23Describe(g.copy)
				r.Violation("core-dispatched-extra-frame:"+kind, m)
				return false
			}
			if si >= checkedSync {
				want := st.exp[expSync[si]]
				if st.bounds[expSync[si]+1] > supplied {
					m := wit()
					m["index"], m["supplied"] = expSync[si], supplied
					r.Violation("core-dispatched-from-incomplete-prefix:"+kind, m)
					return false
				}
				if d := c23Diff(want, g.copy); d != "" {
					m := wit()
					m["index"], m["field"], m["dispatched"], m["expected"], m["supplied"] = expSync[si], d, c23Describe(g.copy), c23Describe(want), supplied
					r.Violation("core-dispatched-frame-differs:"+want.GetFrameType().String()+":"+d, m)
					return false
				}
			}
			si++
		}
		checkedSync = si
		return true
	}

	prev := 0
	for _, end := range append(append([]int(nil), cuts...), L) {
		if end <= prev {
			continue
		}
		n := end - prev
		if cap(w.tbuf) < n {
			w.tbuf = make([]byte, 2*n+64)
		}
		chunk := w.tbuf[:n:n]
		copy(chunk, st.wire[prev:end])
		w.evals++
		var derr error
		if r.Guard("core.onData:"+kind, c23cLazy{wit}, func() { derr = lis.EmitData(connID, chunk) }) {
			return
		}
		if derr != nil {
			m := wit()
			m["err"] = derr.Error()
			r.Violation("core-ondata-error:"+kind, m)
			return
		}
		// the event loop reuses its read buffer as soon as OnData returns
		for i := range chunk {
			chunk[i] = 0xEE
		}
		prev = end
		if !checkNow(end) {
			return
		}
	}

	// all non-SEND frames are dispatched synchronously inside OnData
	if checkedSync != len(expSync) {
		m := wit()
		m["sync_dispatched"], m["sync_expected"] = checkedSync, len(expSync)
		r.Violation("core-frames-missing:"+kind, m)
		return
	}
	// SEND frames arrive from the async send executor: wait (generous
	// watchdog, expiry is inconclusive, never a verdict)
	deadline := time.Now().Add(120 * time.Second)
	for {
		rec.mu.Lock()
		n := len(rec.got)
		closed := rec.closed
		var ch chan struct{}
		if n < len(st.exp) && !closed {
			if rec.changed == nil {
				rec.changed = make(chan struct{})
			}
			ch = rec.changed
		}
		rec.mu.Unlock()
		if ch == nil {
			break
		}
		select {
		case <-ch:
		case <-time.After(time.Until(deadline)):
			r.Inconclusive("watchdog: async SEND dispatch did not finish within 120s (" + kind + ")")
			w.dead = true
			return
		}
	}
	if !checkNow(L) {
		return
	}
	rec.mu.Lock()
	got := append([]c23cGot(nil), rec.got...)
	rec.mu.Unlock()
	if len(got) != len(st.exp) || checkedSync != len(expSync) {
		m := wit()
		m["dispatched"], m["expected"] = len(got), len(st.exp)
		r.Violation("core-frames-missing:"+kind, m)
		return
	}
	// SENDs: in order among themselves, equal to the originals
	si := 0
	for _, g := range got {
		sp, ok := g.copy.(*frame.SendPacket)
		if !ok {
			continue
		}
		want := st.exp[expSend[si]]
		if d := c23Diff(want, sp); d != "" {
			m := wit()
			m["index"], m["field"], m["dispatched"], m["expected"] = expSend[si], d, c23Describe(sp), c23Describe(want)
			r.Violation("core-dispatched-frame-differs:SEND:"+d, m)
			return
		}
		si++
	}
	// retained frame objects, after the transport buffer was overwritten:
	// SEND (async, documented detach) must be intact; other payload-bearing
	// frames are handed out synchronously and may alias buffers - counted.
	si, yi := 0, 0
	for _, g := range got {
		if _, ok := g.ref.(*frame.SendPacket); ok {
			if d := c23Diff(st.exp[expSend[si]], g.ref); d != "" {
				m := wit()
				m["index"], m["field"] = expSend[si], d
				r.Violation("core-retained-send-changed-after-dispatch:"+d, m)
				return
			}
			si++
		} else {
			if c23Diff(st.exp[expSync[yi]], g.ref) != "" {
				w.count("interp.retained_non_send_frame_aliases_reused_buffer", 1)
			}
			yi++
		}
	}
	w.count("core.feeds."+kind, 1)
	w.count("core.frames_dispatched", len(got))
}

func c23cCuts(set map[int]struct{}, L int) []int {
	out := make([]int, 0, len(set))
	for c := range set {
		if c > 0 && c < L {
			out = append(out, c)
		}
	}
	for i := 1; i < len(out); i++ {
		for j := i; j > 0 && out[j] < out[j-1]; j-- {
			out[j], out[j-1] = out[j-1], out[j]
		}
	}
	return out
}

func c23cDribble(L int) []int {
	out := make([]int, 0, L)
	for i := 1; i < L; i++ {
		out = append(out, i)
	}
	return out
}

func (w *c23cWorker) smallBatch(bi, per int) {
	rng := w.r.Rand(23, 11, uint64(bi))
	g := c23NewGen(rng)
	g.tiny = true
	for k := 0; k < per && !w.dead; k++ {
		conf := w.confs[rng.IntN(len(w.confs))]
		st := w.buildStream(g, conf, 2+rng.IntN(8), 56)
		L := len(st.wire)
		w.feed(st, nil, "small-whole")
		w.feed(st, c23cDribble(L), "small-dribble")
		for a := 1; a < L; a++ {
			w.feed(st, []int{a}, "small-1cut")
		}
		for a := 1; a < L; a++ {
			for b := a + 1; b < L; b++ {
				w.feed(st, []int{a, b}, "small-2cuts")
			}
		}
		w.r.Nontrivial(fmt.Sprintf("core-small|%s|%s|L%d", conf.name, st.types, L))
		w.count("core.small_streams", 1)
		if w.r.WantSample() && k == 0 && bi < 2 {
			w.r.Sample(map[string]any{"kind": "small stream through core.Server, all 1- and 2-cut splits", "session": conf.name, "types": st.types, "stream": c23cHex(st.wire), "bounds": st.bounds})
		}
	}
}

func (w *c23cWorker) largeBatch(bi, per int) {
	rng := w.r.Rand(23, 12, uint64(bi))
	g := c23NewGen(rng)
	g.maxPayload = 3000
	for k := 0; k < per && !w.dead; k++ {
		conf := w.confs[rng.IntN(len(w.confs))]
		g.tiny = rng.IntN(3) == 0
		st := w.buildStream(g, conf, 2+rng.IntN(11), 400000)
		L := len(st.wire)
		if L < 3 {
			continue
		}
		w.feed(st, nil, "large-whole")
		for _, n := range []int{1, 2, 3, 5, 9, 20} {
			set := map[int]struct{}{}
			for i := 0; i < n; i++ {
				set[1+rng.IntN(L-1)] = struct{}{}
			}
			w.feed(st, c23cCuts(set, L), "large-random-cuts")
		}
		set := map[int]struct{}{}
		for _, b := range st.bounds {
			for d := -2; d <= 5; d++ {
				if rng.IntN(3) != 0 {
					set[b+d] = struct{}{}
				}
			}
		}
		w.feed(st, c23cCuts(set, L), "large-boundary-cuts")
		// every frame split in the middle: chunk ends mid-frame, next chunk
		// completes it and brings a partial successor
		set = map[int]struct{}{}
		for i := 0; i+1 < len(st.bounds); i++ {
			a, b := st.bounds[i], st.bounds[i+1]
			set[a+1+rng.IntN(b-a)] = struct{}{}
		}
		w.feed(st, c23cCuts(set, L), "large-midframe-cuts")
		if L <= 1500 {
			w.feed(st, c23cDribble(L), "large-dribble")
		}
		lc := "s"
		switch {
		case L > 65536:
			lc = "XL"
		case L > 16384:
			lc = "L"
		case L > 1024:
			lc = "m"
		}
		w.r.Nontrivial(fmt.Sprintf("core-large|%s|%s|%s", conf.name, st.types, lc))
		w.count("core.large_streams", 1)
		if L > w.max["core.max_stream_len"] {
			w.max["core.max_stream_len"] = L
		}
	}
}

func TestVerifC23Core(t *testing.T) {
	r := verifkit.Start(t, "C23", "core")
	defer r.Finish()
	r.SetRule("Valid streams of 2-12 generated frames (EVENT with Data, RECV with payload, SEND, SUB, CONNECT, ... all 12 types) are written to fresh connections of a REAL core.Server (fake transport, real wkproto adapter, no authenticator) by 4 concurrent drivers; the transport chunk buffer is reused and overwritten after every OnData like an event loop's read buffer. Streams <= 56 B: whole, every single split point, every pair of split points, 1-byte dribble; longer: PRNG cut sets, cuts around every boundary/header, one cut inside every frame, dribble (<= 1500 B). Session configs: version unset/1..LatestVersion, plain and encrypted (values installed in OnSessionOpen). The handler deep-copies every frame AT DISPATCH and retains the object. Every OnData call is one evaluation. Non-trivial = every stream; distinct = (session config, frame-type sequence, length class).")
	r.Assume("no Authenticator: every decoded frame type reaches Handler.OnFrame (SEND via the async send executor, others synchronously); SEND order is asserted among SENDs only, cross order SEND vs other types is asynchronous by design")
	r.Assume("retained non-SEND frames aliasing the reused transport/inbound buffer after dispatch are counted, not asserted (synchronous dispatch; only SEND detachment is documented)")

	h := &c23cHandler{byConn: map[uint64]*c23cRec{}, bySess: map[uint64]*c23cRec{}}
	tf := testkit.NewFakeTransportFactory("verif-fake-transport")
	adapter := adapterpkg.New()
	registry := core.NewRegistry()
	if err := registry.RegisterTransport(tf); err != nil {
		t.Fatalf("register transport: %v", err)
	}
	if err := registry.RegisterProtocol(adapter); err != nil {
		t.Fatalf("register protocol: %v", err)
	}
	srv, err := core.NewServer(registry, &gatewaytypes.Options{
		Handler: h,
		Runtime: gatewaytypes.RuntimeOptions{AsyncSendWorkers: 8},
		Listeners: []gatewaytypes.ListenerOptions{{Name: c23cListener, Network: "tcp", Address: "127.0.0.1:9", Transport: tf.Name(), Protocol: adapter.Name()}},
	})
	if err != nil {
		t.Fatalf("new server: %v", err)
	}
	if err := srv.Start(); err != nil {
		t.Fatalf("start: %v", err)
	}
	defer srv.Stop()

	const W = 4
	var connSeq atomic.Uint64
	workers := make([]*c23cWorker, W)
	for i := range workers {
		w := &c23cWorker{r: r, id: i, srv: srv, tf: tf, h: h, proto: codec.New(), connSeq: &connSeq, cnt: map[string]int{}, max: map[string]int{}}
		rng := r.Rand(23, 98, uint64(i))
		key, iv := make([]byte, 16), make([]byte, 16)
		for j := range key {
			key[j], iv[j] = byte(rng.UintN(256)), byte(rng.UintN(256))
		}
		w.keys = wkprotoenc.SessionKeys{AESKey: key, AESIV: iv}
		if w.crypto, err = wkprotoenc.NewSessionCrypto(w.keys); err != nil {
			t.Fatal(err)
		}
		for ver := -1; ver <= frame.LatestVersion; ver++ {
			if ver == 0 {
				continue
			}
			eff := uint8(frame.LatestVersion)
			if ver > 0 {
				eff = uint8(ver)
			}
			w.confs = append(w.confs, &c23cConf{name: fmt.Sprintf("plain/v%d", ver), ver: ver, eff: eff})
			if ver == -1 || ver >= 5 {
				w.confs = append(w.confs, &c23cConf{name: fmt.Sprintf("enc/v%d", ver), ver: ver, eff: eff, encrypted: true})
			}
		}
		workers[i] = w
	}

	type job struct{ idx, phase, bi int }
	var jobs []job
	idx := 0
	for bi := 0; bi < r.N(16, 120); bi++ {
		jobs = append(jobs, job{idx, 1, bi})
		idx++
	}
	for bi := 0; bi < r.N(24, 200); bi++ {
		jobs = append(jobs, job{idx, 2, bi})
		idx++
	}
	var wg sync.WaitGroup
	for wi := 0; wi < W; wi++ {
		wg.Add(1)
		go func(w *c23cWorker) {
			defer wg.Done()
			for ji := w.id; ji < len(jobs); ji += W {
				j := jobs[ji]
				if r.Skip(j.idx) {
					continue
				}
				switch j.phase {
				case 1:
					r.BeginCase(j.idx, fmt.Sprintf("core small streams batch %d", j.bi))
					w.smallBatch(j.bi, 5)
				case 2:
					r.BeginCase(j.idx, fmt.Sprintf("core large streams batch %d", j.bi))
					w.largeBatch(j.bi, 25)
				}
				w.flush()
			}
		}(workers[wi])
	}
	wg.Wait()
}
