//go:build verif

package c24

// Generators, an order-preserving JSON tree (so duplicate keys, key order and
// raw number literals can be expressed), an independent renderer/parser and
// the carried-field table of the JSON-RPC <-> frame bridge.
//
// Nothing in this file calls pkg/protocol/jsonrpc: it is the harness-side
// ("client SDK") view of the documented wire format.

import (
	"bytes"
	"encoding/base64"
	"encoding/json"
	"fmt"
	"io"
	"math"
	"math/rand/v2"
	"strconv"
	"strings"
	"unicode/utf8"

	"github.com/WuKongIM/WuKongIM/pkg/protocol/frame"
)

// ---------------------------------------------------------------------------
// Carried-field table (evidence + documentation of what is asserted).
//
// src: "protocol.md" = field table in pkg/protocol/jsonrpc/protocol.md,
//      "schema"      = only in wukongim_rpc_schema.json,
//      "code"        = had to be learned from types.go/codec.go.

type c24Field struct {
	Frame string `json:"frame_field"`
	JSON  string `json:"json_path"`
	Type  string `json:"json_type"`
	Src   string `json:"source"`
}

var c24HeaderFields = []c24Field{
	{"Framer.NoPersist", "header.noPersist", "boolean", "protocol.md"},
	{"Framer.RedDot", "header.redDot", "boolean", "protocol.md"},
	{"Framer.SyncOnce", "header.syncOnce", "boolean", "protocol.md"},
	{"Framer.DUP", "header.dup", "boolean", "protocol.md"},
	{"Framer.End", "header.end", "boolean", "schema"},
}

var c24SettingFields = []c24Field{
	{"Setting&Receipt(1<<7)", "setting.receipt", "boolean", "protocol.md"},
	{"Setting&Signal(1<<5)", "setting.signal", "boolean", "schema"},
	{"Setting&Stream(1<<1)", "setting.stream", "boolean", "protocol.md"},
	{"Setting&Topic(1<<3)", "setting.topic", "boolean", "protocol.md"},
}

var c24Carried = map[string]any{
	"server_to_client(FromFrame)": map[string]any{
		"CONNACK -> response.result": append(append([]c24Field{}, c24HeaderFields...),
			c24Field{"ServerVersion", "serverVersion", "integer", "protocol.md"},
			c24Field{"ServerKey", "serverKey", "string", "protocol.md"},
			c24Field{"Salt", "salt", "string", "protocol.md"},
			c24Field{"TimeDiff", "timeDiff", "integer(int64)", "protocol.md"},
			c24Field{"ReasonCode", "reasonCode", "integer", "protocol.md"},
			c24Field{"NodeId", "nodeId", "integer(uint64)", "protocol.md"}),
		"SENDACK -> response.result": append(append([]c24Field{}, c24HeaderFields...),
			c24Field{"MessageID", "messageId", "string(decimal int64)", "protocol.md"},
			c24Field{"MessageSeq", "messageSeq", "integer(uint64)", "protocol.md"},
			c24Field{"ReasonCode", "reasonCode", "integer", "protocol.md"}),
		"RECV -> notification recv.params": append(append(append([]c24Field{}, c24HeaderFields...), c24SettingFields...),
			c24Field{"MsgKey", "msgKey", "string", "protocol.md"},
			c24Field{"Expire", "expire", "integer(uint32)", "protocol.md"},
			c24Field{"MessageID", "messageId", "string(decimal int64)", "protocol.md"},
			c24Field{"MessageSeq", "messageSeq", "integer(uint64)", "protocol.md"},
			c24Field{"ClientMsgNo", "clientMsgNo", "string", "protocol.md"},
			c24Field{"StreamNo", "streamNo", "string", "protocol.md"},
			c24Field{"StreamId", "streamId", "string(decimal uint64)", "protocol.md"},
			c24Field{"StreamFlag", "streamFlag", "integer", "protocol.md"},
			c24Field{"Timestamp", "timestamp", "integer(int32)", "protocol.md"},
			c24Field{"ChannelID", "channelId", "string", "protocol.md"},
			c24Field{"ChannelType", "channelType", "integer", "protocol.md"},
			c24Field{"Topic", "topic", "string", "protocol.md"},
			c24Field{"FromUID", "fromUid", "string", "protocol.md"},
			c24Field{"Payload", "payload", "string(base64 std) -- docs say 'object'; wire form learned from code ([]byte)", "code"}),
		"EVENT -> notification event.params": append(append([]c24Field{}, c24HeaderFields...),
			c24Field{"Id", "id", "string", "schema"},
			c24Field{"Type", "type", "string", "schema"},
			c24Field{"Timestamp", "timestamp", "integer(int64)", "schema"},
			c24Field{"Data", "data", "string (valid UTF-8 only: JSON strings cannot carry other bytes)", "schema"}),
		"DISCONNECT -> notification disconnect.params": []c24Field{
			{"ReasonCode", "reasonCode", "integer", "protocol.md"},
			{"Reason", "reason", "string", "protocol.md"}},
		"PONG -> response": []c24Field{{"(none)", "id only", "-", "protocol.md"}},
	},
	"client_to_server(ToFrame)": map[string]any{
		"connect -> CONNECT": append(append([]c24Field{}, c24HeaderFields...),
			c24Field{"Version (0/absent => frame.LatestVersion, learned from code+test)", "version", "integer", "protocol.md"},
			c24Field{"ClientKey", "clientKey", "string", "protocol.md"},
			c24Field{"DeviceID", "deviceId", "string", "protocol.md"},
			c24Field{"DeviceFlag", "deviceFlag", "integer", "protocol.md"},
			c24Field{"ClientTimestamp", "clientTimestamp", "integer(int64)", "protocol.md"},
			c24Field{"UID", "uid", "string", "protocol.md"},
			c24Field{"Token", "token", "string", "protocol.md"}),
		"send -> SEND": append(append(append([]c24Field{}, c24HeaderFields...), c24SettingFields...),
			c24Field{"MsgKey", "msgKey", "string", "protocol.md"},
			c24Field{"Expire", "expire", "integer(uint32)", "protocol.md"},
			c24Field{"ClientMsgNo", "clientMsgNo", "string", "protocol.md"},
			c24Field{"StreamNo", "streamNo", "string", "protocol.md"},
			c24Field{"ChannelID", "channelId", "string", "protocol.md"},
			c24Field{"ChannelType", "channelType", "integer", "protocol.md"},
			c24Field{"Topic", "topic", "string", "protocol.md"},
			c24Field{"Payload", "payload", "string(base64 std) -- docs say 'object'; learned from code", "code"}),
		"recvack -> RECVACK": append(append([]c24Field{}, c24HeaderFields...),
			c24Field{"MessageID", "messageId", "string(decimal int64)", "protocol.md"},
			c24Field{"MessageSeq", "messageSeq", "integer(uint64)", "protocol.md"}),
		"ping -> PING":             []c24Field{{"(none)", "-", "-", "protocol.md"}},
		"disconnect -> DISCONNECT": []c24Field{{"ReasonCode", "reasonCode", "integer", "protocol.md"}, {"Reason", "reason", "string", "protocol.md"}},
		"subscribe/unsubscribe":    "decoded by Decode, ToFrame returns an error (protocol.md: 暂不支持) -- only 'error, no panic' asserted",
	},
	"not_carried_by_design(not asserted)": []string{
		"Framer.FrameType/RemainingLength/FrameSize/HasServerVersion (wire-level, learned from code)",
		"SEND.ClientSeq, RECV.ClientSeq, SENDACK.ClientSeq, SENDACK.ClientMsgNo (no JSON member in protocol.md; correlation is by id)",
		"Setting bits outside receipt/signal/stream/topic, e.g. NoEncrypt 1<<4 (SettingFlags has 4 members)",
	},
	"documented_but_not_carried(observed, reported, not asserted)": []string{
		"disconnect.params.header: listed in protocol.md and schema, DisconnectParams has no Header member; Framer flags carry no meaning on DISCONNECT",
		"send/recv payload: documented as JSON 'object', implemented as base64 string",
		"PONG is encoded as {jsonrpc,id} with neither result nor error; schema PongResponse requires nothing, so it conforms, but jsonrpc.Decode itself rejects it",
	},
}

// ---------------------------------------------------------------------------
// Strings and numbers.

var c24Tokens = []string{
	"a", "b", "z", "A", "Z", "0", "1", "9", "_", "-", ".", "@", " ", "req-", "uid", "user",
	"\"", "\\", "/", "\n", "\t", "\r", "\b", "\f", "\x00", "\x01", "\x1f", "\x7f",
	"<", ">", "&", "'", "{", "}", "[", "]", ":", ",",
	"\u00e9", "\u00df", "\u7528", "\u6237", "\u6d88\u606f", "\U0001f600", "\U0001f469\u200d\U0001f469\u200d\U0001f467", "\u2028", "\u2029", "\ufeff", "\ufffd", "e\u0301", "\U0010ffff", "\u00a0", "\ud7ff", "\ue000",
	"null", "true", "1e3", "\\u0041", "\\n",
}

func c24Str(rng *rand.Rand, maxTok int) string {
	if maxTok <= 0 {
		return ""
	}
	n := rng.IntN(maxTok + 1)
	if rng.IntN(256) == 0 {
		n = 200 + rng.IntN(1800)
	}
	var sb strings.Builder
	for i := 0; i < n; i++ {
		sb.WriteString(c24Tokens[rng.IntN(len(c24Tokens))])
	}
	return sb.String()
}

// c24OptStr returns "" half of the time (optional members).
func c24OptStr(rng *rand.Rand, maxTok int) string {
	if rng.IntN(2) == 0 {
		return ""
	}
	return c24Str(rng, maxTok)
}

var c24U64Edges = []uint64{0, 1, 2, 255, 256, 65535, 65536, 1<<31 - 1, 1 << 31, 1<<32 - 1, 1 << 32, 1<<53 - 1, 1 << 53, 1<<53 + 1, 1<<63 - 1, 1 << 63, math.MaxUint64 - 1, math.MaxUint64}

func c24U64(rng *rand.Rand) uint64 {
	switch rng.IntN(3) {
	case 0:
		return c24U64Edges[rng.IntN(len(c24U64Edges))]
	case 1:
		return rng.Uint64() >> uint(rng.IntN(64))
	}
	return rng.Uint64()
}

func c24I64(rng *rand.Rand) int64 {
	switch rng.IntN(4) {
	case 0:
		edges := []int64{0, 1, -1, math.MaxInt32, math.MinInt32, 1<<53 + 1, -(1<<53 + 1), math.MaxInt64, math.MinInt64, math.MinInt64 + 1}
		return edges[rng.IntN(len(edges))]
	case 1:
		return int64(rng.Uint64()>>uint(rng.IntN(64))) * int64(1-2*rng.IntN(2))
	}
	return int64(rng.Uint64())
}

func c24U32(rng *rand.Rand) uint32 {
	if rng.IntN(3) == 0 {
		e := []uint32{0, 1, 255, 65535, 1<<31 - 1, 1 << 31, math.MaxUint32}
		return e[rng.IntN(len(e))]
	}
	return rng.Uint32() >> uint(rng.IntN(32))
}

func c24I32(rng *rand.Rand) int32 {
	if rng.IntN(3) == 0 {
		e := []int32{0, 1, -1, math.MaxInt32, math.MinInt32}
		return e[rng.IntN(len(e))]
	}
	return int32(rng.Uint32())
}

func c24U8(rng *rand.Rand) uint8 {
	if rng.IntN(3) == 0 {
		e := []uint8{0, 1, 2, 127, 128, 255}
		return e[rng.IntN(len(e))]
	}
	return uint8(rng.Uint32())
}

func c24Bytes(rng *rand.Rand) []byte {
	switch rng.IntN(8) {
	case 0:
		return nil
	case 1:
		return []byte{}
	case 2:
		return []byte(`{"content":"Hello!","type":1}`)
	case 3:
		n := 100 + rng.IntN(400)
		if rng.IntN(8) == 0 {
			n = 1000 + rng.IntN(30000)
		}
		b := make([]byte, n)
		for i := range b {
			b[i] = byte(rng.Uint32())
		}
		return b
	}
	n := rng.IntN(70)
	b := make([]byte, n)
	for i := range b {
		b[i] = byte(rng.Uint32())
	}
	return b
}

// c24GenID returns a request id and its class.
func c24GenID(rng *rand.Rand) (string, string) {
	switch rng.IntN(10) {
	case 0:
		return "", "empty"
	case 1:
		nl := []string{"0", "1", "123", "007", "-0", "-1", "1e3", "1.5", "9007199254740993", "18446744073709551616", "0x10", "+1", " 1", "1 ", "١٢٣"}
		return nl[rng.IntN(len(nl))], "numeric-looking"
	case 2:
		jl := []string{"null", "true", "false", `{"a":1}`, `[1]`, `"q"`, `A`, `\`, `"`, `\"`, "</script>", " "}
		return jl[rng.IntN(len(jl))], "json-looking"
	case 3:
		return c24Str(rng, 12), "unicode"
	case 4:
		return strings.Repeat(c24Tokens[rng.IntN(len(c24Tokens))], 1+rng.IntN(4000)), "long"
	case 5:
		ws := []string{" ", "\t", "\n", "\x00", " ", "  x  "}
		return ws[rng.IntN(len(ws))], "whitespace/control"
	}
	return "req-" + strconv.Itoa(rng.IntN(1_000_000)), "ascii"
}

// ---------------------------------------------------------------------------
// Frame generators. Non-carried members get noise on purpose: the bridge must
// not let them leak into carried members.

func c24GenFramer(rng *rand.Rand, ft frame.FrameType) frame.Framer {
	f := frame.Framer{}
	if rng.IntN(2) == 0 {
		f.FrameType = ft
	}
	if rng.IntN(3) == 0 { // most frames: no flags
		m := rng.IntN(32)
		if rng.IntN(4) == 0 {
			m = 31
		}
		f.NoPersist = m&1 != 0
		f.RedDot = m&2 != 0
		f.SyncOnce = m&4 != 0
		f.DUP = m&8 != 0
		f.End = m&16 != 0
	}
	f.HasServerVersion = rng.IntN(2) == 0
	if rng.IntN(2) == 0 {
		f.RemainingLength = rng.Uint32()
		f.FrameSize = int64(rng.Uint32())
	}
	return f
}

func c24FlagMask(f frame.Framer) int {
	m := 0
	for i, b := range []bool{f.NoPersist, f.RedDot, f.SyncOnce, f.DUP, f.End} {
		if b {
			m |= 1 << i
		}
	}
	return m
}

const c24SettingCarried = frame.SettingReceiptEnabled | frame.SettingSignal | frame.SettingStream | frame.SettingTopic

func c24GenSetting(rng *rand.Rand) frame.Setting {
	switch rng.IntN(4) {
	case 0:
		return 0
	case 1:
		return frame.Setting(rng.Uint32()) // includes non-carried bits
	}
	var s frame.Setting
	for _, b := range []frame.Setting{frame.SettingReceiptEnabled, frame.SettingSignal, frame.SettingStream, frame.SettingTopic} {
		if rng.IntN(2) == 0 {
			s |= b
		}
	}
	return s
}

func c24GenConnack(rng *rand.Rand) *frame.ConnackPacket {
	return &frame.ConnackPacket{Framer: c24GenFramer(rng, frame.CONNACK), ServerVersion: c24U8(rng), ServerKey: c24OptStr(rng, 10),
		Salt: c24OptStr(rng, 6), TimeDiff: c24I64(rng), ReasonCode: frame.ReasonCode(c24U8(rng)), NodeId: c24U64(rng)}
}

func c24GenSendack(rng *rand.Rand) *frame.SendackPacket {
	return &frame.SendackPacket{Framer: c24GenFramer(rng, frame.SENDACK), MessageID: c24I64(rng), MessageSeq: c24U64(rng),
		ClientSeq: c24U64(rng), ClientMsgNo: c24OptStr(rng, 4), ReasonCode: frame.ReasonCode(c24U8(rng))}
}

func c24GenRecv(rng *rand.Rand) *frame.RecvPacket {
	return &frame.RecvPacket{Framer: c24GenFramer(rng, frame.RECV), Setting: c24GenSetting(rng), MsgKey: c24OptStr(rng, 6), Expire: c24U32(rng),
		MessageID: c24I64(rng), MessageSeq: c24U64(rng), ClientMsgNo: c24OptStr(rng, 6), StreamNo: c24OptStr(rng, 4), StreamId: c24U64(rng),
		StreamFlag: frame.StreamFlag(c24U8(rng)), Timestamp: c24I32(rng), ChannelID: c24Str(rng, 6), ChannelType: c24U8(rng),
		Topic: c24OptStr(rng, 4), FromUID: c24Str(rng, 6), Payload: c24Bytes(rng), ClientSeq: c24U64(rng)}
}

func c24GenEvent(rng *rand.Rand) *frame.EventPacket {
	e := &frame.EventPacket{Framer: c24GenFramer(rng, frame.EVENT), Id: c24OptStr(rng, 6), Type: c24OptStr(rng, 3), Timestamp: c24I64(rng)}
	switch rng.IntN(6) {
	case 0:
		e.Data = nil
	case 1:
		e.Data = c24Bytes(rng) // may be non-UTF-8: such cases are observed, not asserted
	default:
		e.Data = []byte(c24Str(rng, 20))
	}
	return e
}

func c24GenDisconnect(rng *rand.Rand) *frame.DisconnectPacket {
	return &frame.DisconnectPacket{Framer: c24GenFramer(rng, frame.DISCONNECT), ReasonCode: frame.ReasonCode(c24U8(rng)), Reason: c24OptStr(rng, 8)}
}

func c24GenConnect(rng *rand.Rand) *frame.ConnectPacket {
	return &frame.ConnectPacket{Framer: c24GenFramer(rng, frame.CONNECT), Version: c24U8(rng), ClientKey: c24OptStr(rng, 8), DeviceID: c24OptStr(rng, 6),
		DeviceFlag: frame.DeviceFlag(c24U8(rng)), ClientTimestamp: c24I64(rng), UID: c24Str(rng, 6), Token: c24Str(rng, 8)}
}

func c24GenSend(rng *rand.Rand) *frame.SendPacket {
	return &frame.SendPacket{Framer: c24GenFramer(rng, frame.SEND), Setting: c24GenSetting(rng), MsgKey: c24OptStr(rng, 6), Expire: c24U32(rng),
		ClientSeq: c24U64(rng), ClientMsgNo: c24OptStr(rng, 6), StreamNo: c24OptStr(rng, 4), ChannelID: c24Str(rng, 6), ChannelType: c24U8(rng),
		Topic: c24OptStr(rng, 4), Payload: c24Bytes(rng)}
}

func c24GenRecvack(rng *rand.Rand) *frame.RecvackPacket {
	return &frame.RecvackPacket{Framer: c24GenFramer(rng, frame.RECVACK), MessageID: c24I64(rng), MessageSeq: c24U64(rng)}
}

// ---------------------------------------------------------------------------
// Order-preserving JSON tree.

type c24KV struct {
	K string
	V any
}
type c24ObjT []c24KV // JSON object, order and duplicates preserved
type c24Raw string   // literal JSON text (numbers, deliberately odd literals)

func c24Num[T int | int64 | uint64 | uint32 | int32 | uint8](v T) c24Raw {
	return c24Raw(fmt.Sprint(v))
}

func (o c24ObjT) get(k string) (any, bool) {
	for i := len(o) - 1; i >= 0; i-- {
		if o[i].K == k {
			return o[i].V, true
		}
	}
	return nil, false
}

// c24RenderOpt controls the (semantically neutral) surface form.
type c24RenderOpt struct {
	rng      *rand.Rand
	ws       bool // random insignificant whitespace
	uescape  bool // random \uXXXX escapes inside strings
	shuffle  bool // shuffle object member order
	asciiOut bool
}

func c24Render(v any, o *c24RenderOpt) []byte {
	var b bytes.Buffer
	c24render(&b, v, o)
	return b.Bytes()
}

func c24ws(b *bytes.Buffer, o *c24RenderOpt) {
	if o == nil || !o.ws || o.rng.IntN(3) != 0 {
		return
	}
	b.WriteString([]string{" ", "\n", "\t", "\r\n", "  "}[o.rng.IntN(5)])
}

func c24render(b *bytes.Buffer, v any, o *c24RenderOpt) {
	switch x := v.(type) {
	case nil:
		b.WriteString("null")
	case bool:
		if x {
			b.WriteString("true")
		} else {
			b.WriteString("false")
		}
	case c24Raw:
		b.WriteString(string(x))
	case string:
		c24renderString(b, x, o)
	case c24ObjT:
		kv := x
		if o != nil && o.shuffle && len(kv) > 1 {
			kv = append(c24ObjT(nil), kv...)
			o.rng.Shuffle(len(kv), func(i, j int) { kv[i], kv[j] = kv[j], kv[i] })
		}
		b.WriteByte('{')
		for i, e := range kv {
			if i > 0 {
				b.WriteByte(',')
			}
			c24ws(b, o)
			c24renderString(b, e.K, nil)
			c24ws(b, o)
			b.WriteByte(':')
			c24ws(b, o)
			c24render(b, e.V, o)
		}
		c24ws(b, o)
		b.WriteByte('}')
	case []any:
		b.WriteByte('[')
		for i, e := range x {
			if i > 0 {
				b.WriteByte(',')
			}
			c24ws(b, o)
			c24render(b, e, o)
		}
		b.WriteByte(']')
	default:
		panic(fmt.Sprintf("c24render: unsupported %T", v))
	}
}

const c24hex = "0123456789abcdef"

func c24u16(b *bytes.Buffer, r rune) {
	b.WriteString(`\u`)
	for s := 12; s >= 0; s -= 4 {
		b.WriteByte(c24hex[(r>>uint(s))&0xf])
	}
}

// c24renderString writes a JSON string for a valid-UTF-8 Go string. It is an
// independent encoder (RFC 8259): mandatory escapes for '"', '\\' and
// controls; optionally any rune as \uXXXX (surrogate pair above the BMP).
func c24renderString(b *bytes.Buffer, s string, o *c24RenderOpt) {
	b.WriteByte('"')
	for _, r := range s {
		esc := o != nil && o.uescape && o.rng.IntN(4) == 0
		switch {
		case esc || r < 0x20:
			if r >= 0x10000 {
				r -= 0x10000
				c24u16(b, 0xd800+(r>>10))
				c24u16(b, 0xdc00+(r&0x3ff))
			} else {
				c24u16(b, r)
			}
		case r == '"':
			b.WriteString(`\"`)
		case r == '\\':
			b.WriteString(`\\`)
		case r == '/' && o != nil && o.uescape && o.rng.IntN(2) == 0:
			b.WriteString(`\/`)
		default:
			b.WriteRune(r)
		}
	}
	b.WriteByte('"')
}

// c24Parse parses one JSON document into the ordered tree using only the
// token stream of encoding/json (numbers kept as literal text).
func c24Parse(data []byte) (any, error) {
	dec := json.NewDecoder(bytes.NewReader(data))
	dec.UseNumber()
	v, err := c24parseValue(dec)
	if err != nil {
		return nil, err
	}
	if _, err := dec.Token(); err != io.EOF {
		return nil, fmt.Errorf("trailing data")
	}
	return v, nil
}

func c24parseValue(dec *json.Decoder) (any, error) {
	t, err := dec.Token()
	if err != nil {
		return nil, err
	}
	switch x := t.(type) {
	case json.Delim:
		switch x {
		case '{':
			obj := c24ObjT{}
			for dec.More() {
				kt, err := dec.Token()
				if err != nil {
					return nil, err
				}
				k, _ := kt.(string)
				v, err := c24parseValue(dec)
				if err != nil {
					return nil, err
				}
				obj = append(obj, c24KV{k, v})
			}
			if _, err := dec.Token(); err != nil {
				return nil, err
			}
			return obj, nil
		case '[':
			arr := []any{}
			for dec.More() {
				v, err := c24parseValue(dec)
				if err != nil {
					return nil, err
				}
				arr = append(arr, v)
			}
			if _, err := dec.Token(); err != nil {
				return nil, err
			}
			return arr, nil
		}
		return nil, fmt.Errorf("unexpected delim %v", x)
	case json.Number:
		return c24Raw(x.String()), nil
	case string:
		return x, nil
	case bool:
		return x, nil
	case nil:
		return nil, nil
	}
	return nil, fmt.Errorf("unexpected token %T", t)
}

// ---------------------------------------------------------------------------
// Reader over the ordered tree with type checking per the documented JSON type.

type c24Rd struct{ errs []string }

func (d *c24Rd) bad(path, want string, got any) {
	d.errs = append(d.errs, fmt.Sprintf("%s:want-%s-got-%T", path, want, got))
}

func (d *c24Rd) obj(o c24ObjT, k string) c24ObjT {
	v, ok := o.get(k)
	if !ok || v == nil {
		return nil
	}
	x, ok := v.(c24ObjT)
	if !ok {
		d.bad(k, "object", v)
	}
	return x
}

func (d *c24Rd) str(o c24ObjT, k string) string {
	v, ok := o.get(k)
	if !ok {
		return ""
	}
	x, ok := v.(string)
	if !ok {
		d.bad(k, "string", v)
	}
	return x
}

func (d *c24Rd) boolean(o c24ObjT, k string) bool {
	v, ok := o.get(k)
	if !ok {
		return false
	}
	x, ok := v.(bool)
	if !ok {
		d.bad(k, "boolean", v)
	}
	return x
}

func (d *c24Rd) i64(o c24ObjT, k string) int64 {
	v, ok := o.get(k)
	if !ok {
		return 0
	}
	x, ok := v.(c24Raw)
	if !ok {
		d.bad(k, "integer", v)
		return 0
	}
	n, err := strconv.ParseInt(string(x), 10, 64)
	if err != nil {
		d.bad(k, "int64-literal("+string(x)+")", v)
	}
	return n
}

func (d *c24Rd) u64(o c24ObjT, k string) uint64 {
	v, ok := o.get(k)
	if !ok {
		return 0
	}
	x, ok := v.(c24Raw)
	if !ok {
		d.bad(k, "integer", v)
		return 0
	}
	n, err := strconv.ParseUint(string(x), 10, 64)
	if err != nil {
		d.bad(k, "uint64-literal("+string(x)+")", v)
	}
	return n
}

// decimal-string members (messageId, streamId)
func (d *c24Rd) decI64(o c24ObjT, k string) int64 {
	s := d.str(o, k)
	if s == "" {
		if _, ok := o.get(k); !ok {
			return 0
		}
	}
	n, err := strconv.ParseInt(s, 10, 64)
	if err != nil {
		d.errs = append(d.errs, k+":not-decimal-int64")
	}
	return n
}

func (d *c24Rd) decU64(o c24ObjT, k string) uint64 {
	s := d.str(o, k)
	if s == "" {
		if _, ok := o.get(k); !ok {
			return 0
		}
	}
	n, err := strconv.ParseUint(s, 10, 64)
	if err != nil {
		d.errs = append(d.errs, k+":not-decimal-uint64")
	}
	return n
}

func (d *c24Rd) b64(o c24ObjT, k string) []byte {
	v, ok := o.get(k)
	if !ok || v == nil {
		return nil
	}
	s, ok := v.(string)
	if !ok {
		d.bad(k, "base64-string", v)
		return nil
	}
	b, err := base64.StdEncoding.DecodeString(s)
	if err != nil {
		d.errs = append(d.errs, k+":not-base64")
	}
	return b
}

func (d *c24Rd) header(o c24ObjT) frame.Framer {
	h := d.obj(o, "header")
	return frame.Framer{NoPersist: d.boolean(h, "noPersist"), RedDot: d.boolean(h, "redDot"), SyncOnce: d.boolean(h, "syncOnce"),
		DUP: d.boolean(h, "dup"), End: d.boolean(h, "end")}
}

func (d *c24Rd) setting(o c24ObjT) frame.Setting {
	s := d.obj(o, "setting")
	var out frame.Setting
	if d.boolean(s, "receipt") {
		out |= frame.SettingReceiptEnabled
	}
	if d.boolean(s, "signal") {
		out |= frame.SettingSignal
	}
	if d.boolean(s, "stream") {
		out |= frame.SettingStream
	}
	if d.boolean(s, "topic") {
		out |= frame.SettingTopic
	}
	return out
}

// ---------------------------------------------------------------------------
// Harness-side inverse for server->client documents (what a client SDK
// reconstructs from the documented members).

func c24ConnackFromDoc(d *c24Rd, res c24ObjT) *frame.ConnackPacket {
	return &frame.ConnackPacket{Framer: d.header(res), ServerVersion: uint8(d.i64(res, "serverVersion")), ServerKey: d.str(res, "serverKey"),
		Salt: d.str(res, "salt"), TimeDiff: d.i64(res, "timeDiff"), ReasonCode: frame.ReasonCode(d.i64(res, "reasonCode")), NodeId: d.u64(res, "nodeId")}
}

func c24SendackFromDoc(d *c24Rd, res c24ObjT) *frame.SendackPacket {
	return &frame.SendackPacket{Framer: d.header(res), MessageID: d.decI64(res, "messageId"), MessageSeq: d.u64(res, "messageSeq"),
		ReasonCode: frame.ReasonCode(d.i64(res, "reasonCode"))}
}

func c24RecvFromDoc(d *c24Rd, p c24ObjT) *frame.RecvPacket {
	return &frame.RecvPacket{Framer: d.header(p), Setting: d.setting(p), MsgKey: d.str(p, "msgKey"), Expire: uint32(d.u64(p, "expire")),
		MessageID: d.decI64(p, "messageId"), MessageSeq: d.u64(p, "messageSeq"), ClientMsgNo: d.str(p, "clientMsgNo"), StreamNo: d.str(p, "streamNo"),
		StreamId: d.decU64(p, "streamId"), StreamFlag: frame.StreamFlag(d.i64(p, "streamFlag")), Timestamp: int32(d.i64(p, "timestamp")),
		ChannelID: d.str(p, "channelId"), ChannelType: uint8(d.i64(p, "channelType")), Topic: d.str(p, "topic"), FromUID: d.str(p, "fromUid"),
		Payload: d.b64(p, "payload")}
}

func c24EventFromDoc(d *c24Rd, p c24ObjT) *frame.EventPacket {
	return &frame.EventPacket{Framer: d.header(p), Id: d.str(p, "id"), Type: d.str(p, "type"), Timestamp: d.i64(p, "timestamp"), Data: []byte(d.str(p, "data"))}
}

func c24DisconnectFromDoc(d *c24Rd, p c24ObjT) *frame.DisconnectPacket {
	return &frame.DisconnectPacket{ReasonCode: frame.ReasonCode(d.i64(p, "reasonCode")), Reason: d.str(p, "reason")}
}

// ---------------------------------------------------------------------------
// Equivalence on carried fields. Each returns the list of differing members.

func c24DiffFlags(w, g frame.Framer) []string {
	var out []string
	chk := func(n string, a, b bool) {
		if a != b {
			out = append(out, "header."+n)
		}
	}
	chk("noPersist", w.NoPersist, g.NoPersist)
	chk("redDot", w.RedDot, g.RedDot)
	chk("syncOnce", w.SyncOnce, g.SyncOnce)
	chk("dup", w.DUP, g.DUP)
	chk("end", w.End, g.End)
	return out
}

func c24ne[T comparable](out *[]string, name string, a, b T) {
	if a != b {
		*out = append(*out, name)
	}
}

func c24DiffConnack(w, g *frame.ConnackPacket) []string {
	out := c24DiffFlags(w.Framer, g.Framer)
	c24ne(&out, "serverVersion", w.ServerVersion, g.ServerVersion)
	c24ne(&out, "serverKey", w.ServerKey, g.ServerKey)
	c24ne(&out, "salt", w.Salt, g.Salt)
	c24ne(&out, "timeDiff", w.TimeDiff, g.TimeDiff)
	c24ne(&out, "reasonCode", w.ReasonCode, g.ReasonCode)
	c24ne(&out, "nodeId", w.NodeId, g.NodeId)
	return out
}

func c24DiffSendack(w, g *frame.SendackPacket) []string {
	out := c24DiffFlags(w.Framer, g.Framer)
	c24ne(&out, "messageId", w.MessageID, g.MessageID)
	c24ne(&out, "messageSeq", w.MessageSeq, g.MessageSeq)
	c24ne(&out, "reasonCode", w.ReasonCode, g.ReasonCode)
	return out
}

func c24DiffRecv(w, g *frame.RecvPacket) []string {
	out := c24DiffFlags(w.Framer, g.Framer)
	c24ne(&out, "setting", w.Setting&c24SettingCarried, g.Setting&c24SettingCarried)
	c24ne(&out, "msgKey", w.MsgKey, g.MsgKey)
	c24ne(&out, "expire", w.Expire, g.Expire)
	c24ne(&out, "messageId", w.MessageID, g.MessageID)
	c24ne(&out, "messageSeq", w.MessageSeq, g.MessageSeq)
	c24ne(&out, "clientMsgNo", w.ClientMsgNo, g.ClientMsgNo)
	c24ne(&out, "streamNo", w.StreamNo, g.StreamNo)
	c24ne(&out, "streamId", w.StreamId, g.StreamId)
	c24ne(&out, "streamFlag", w.StreamFlag, g.StreamFlag)
	c24ne(&out, "timestamp", w.Timestamp, g.Timestamp)
	c24ne(&out, "channelId", w.ChannelID, g.ChannelID)
	c24ne(&out, "channelType", w.ChannelType, g.ChannelType)
	c24ne(&out, "topic", w.Topic, g.Topic)
	c24ne(&out, "fromUid", w.FromUID, g.FromUID)
	if !bytes.Equal(w.Payload, g.Payload) {
		out = append(out, "payload")
	}
	return out
}

func c24DiffEvent(w, g *frame.EventPacket) []string {
	out := c24DiffFlags(w.Framer, g.Framer)
	c24ne(&out, "id", w.Id, g.Id)
	c24ne(&out, "type", w.Type, g.Type)
	c24ne(&out, "timestamp", w.Timestamp, g.Timestamp)
	if utf8.Valid(w.Data) && !bytes.Equal(w.Data, g.Data) {
		out = append(out, "data")
	}
	return out
}

func c24DiffDisconnect(w, g *frame.DisconnectPacket) []string {
	var out []string
	c24ne(&out, "reasonCode", w.ReasonCode, g.ReasonCode)
	c24ne(&out, "reason", w.Reason, g.Reason)
	return out
}

func c24DiffConnect(w, g *frame.ConnectPacket) []string {
	out := c24DiffFlags(w.Framer, g.Framer)
	wv := w.Version
	if wv == 0 {
		wv = frame.LatestVersion // documented default (TestConnectParamsToProtoDefaultsLatestVersion)
	}
	c24ne(&out, "version", wv, g.Version)
	c24ne(&out, "clientKey", w.ClientKey, g.ClientKey)
	c24ne(&out, "deviceId", w.DeviceID, g.DeviceID)
	c24ne(&out, "deviceFlag", w.DeviceFlag, g.DeviceFlag)
	c24ne(&out, "clientTimestamp", w.ClientTimestamp, g.ClientTimestamp)
	c24ne(&out, "uid", w.UID, g.UID)
	c24ne(&out, "token", w.Token, g.Token)
	return out
}

func c24DiffSend(w, g *frame.SendPacket) []string {
	out := c24DiffFlags(w.Framer, g.Framer)
	c24ne(&out, "setting", w.Setting&c24SettingCarried, g.Setting&c24SettingCarried)
	c24ne(&out, "msgKey", w.MsgKey, g.MsgKey)
	c24ne(&out, "expire", w.Expire, g.Expire)
	c24ne(&out, "clientMsgNo", w.ClientMsgNo, g.ClientMsgNo)
	c24ne(&out, "streamNo", w.StreamNo, g.StreamNo)
	c24ne(&out, "channelId", w.ChannelID, g.ChannelID)
	c24ne(&out, "channelType", w.ChannelType, g.ChannelType)
	c24ne(&out, "topic", w.Topic, g.Topic)
	if !bytes.Equal(w.Payload, g.Payload) {
		out = append(out, "payload")
	}
	return out
}

func c24DiffRecvack(w, g *frame.RecvackPacket) []string {
	out := c24DiffFlags(w.Framer, g.Framer)
	c24ne(&out, "messageId", w.MessageID, g.MessageID)
	c24ne(&out, "messageSeq", w.MessageSeq, g.MessageSeq)
	return out
}

// ---------------------------------------------------------------------------
// Independent client->server documents (ordered tree) from a frame, per the
// documented member tables. optional zero members are omitted or explicit.

func c24keep(rng *rand.Rand, zero bool) bool { return !zero || rng.IntN(2) == 0 }

func c24HeaderDoc(rng *rand.Rand, f frame.Framer) (c24ObjT, bool) {
	h := c24ObjT{}
	add := func(k string, v bool) {
		if c24keep(rng, !v) {
			h = append(h, c24KV{k, v})
		}
	}
	add("noPersist", f.NoPersist)
	add("redDot", f.RedDot)
	add("syncOnce", f.SyncOnce)
	add("dup", f.DUP)
	add("end", f.End)
	return h, len(h) > 0 || rng.IntN(2) == 0
}

func c24SettingDoc(rng *rand.Rand, s frame.Setting) (c24ObjT, bool) {
	o := c24ObjT{}
	add := func(k string, bit frame.Setting) {
		v := s&bit != 0
		if c24keep(rng, !v) {
			o = append(o, c24KV{k, v})
		}
	}
	add("receipt", frame.SettingReceiptEnabled)
	add("signal", frame.SettingSignal)
	add("stream", frame.SettingStream)
	add("topic", frame.SettingTopic)
	return o, len(o) > 0 || rng.IntN(2) == 0
}

func c24optS(rng *rand.Rand, o *c24ObjT, k, v string) {
	if c24keep(rng, v == "") {
		*o = append(*o, c24KV{k, v})
	}
}

func c24PayloadValue(rng *rand.Rand, p []byte) (any, bool) {
	if len(p) == 0 {
		switch rng.IntN(3) {
		case 0:
			return nil, true // "payload": null
		case 1:
			return nil, false // omitted
		}
		return "", true
	}
	return base64.StdEncoding.EncodeToString(p), true
}

// c24Envelope wraps params into a request/notification document.
func c24Envelope(rng *rand.Rand, method string, id *string, params any, withParams bool) c24ObjT {
	doc := c24ObjT{}
	if rng.IntN(3) != 0 {
		doc = append(doc, c24KV{"jsonrpc", "2.0"}) // optional per protocol.md
	}
	doc = append(doc, c24KV{"method", method})
	if withParams {
		doc = append(doc, c24KV{"params", params})
	}
	if id != nil {
		doc = append(doc, c24KV{"id", *id})
	}
	if rng.IntN(8) == 0 {
		doc = append(doc, c24KV{"x-unknown-member", c24ObjT{{"a", c24Raw("1")}}})
	}
	return doc
}

func c24ConnectParamsDoc(rng *rand.Rand, f *frame.ConnectPacket) c24ObjT {
	p := c24ObjT{}
	if h, ok := c24HeaderDoc(rng, f.Framer); ok {
		p = append(p, c24KV{"header", h})
	}
	if c24keep(rng, f.Version == 0) {
		p = append(p, c24KV{"version", c24Num(f.Version)})
	}
	c24optS(rng, &p, "clientKey", f.ClientKey)
	c24optS(rng, &p, "deviceId", f.DeviceID)
	if c24keep(rng, f.DeviceFlag == 0) {
		p = append(p, c24KV{"deviceFlag", c24Num(uint8(f.DeviceFlag))})
	}
	if c24keep(rng, f.ClientTimestamp == 0) {
		p = append(p, c24KV{"clientTimestamp", c24Num(f.ClientTimestamp)})
	}
	p = append(p, c24KV{"uid", f.UID}, c24KV{"token", f.Token})
	return p
}

func c24SendParamsDoc(rng *rand.Rand, f *frame.SendPacket) c24ObjT {
	p := c24ObjT{}
	if h, ok := c24HeaderDoc(rng, f.Framer); ok {
		p = append(p, c24KV{"header", h})
	}
	if s, ok := c24SettingDoc(rng, f.Setting); ok {
		p = append(p, c24KV{"setting", s})
	}
	c24optS(rng, &p, "msgKey", f.MsgKey)
	if c24keep(rng, f.Expire == 0) {
		p = append(p, c24KV{"expire", c24Num(f.Expire)})
	}
	c24optS(rng, &p, "clientMsgNo", f.ClientMsgNo)
	c24optS(rng, &p, "streamNo", f.StreamNo)
	p = append(p, c24KV{"channelId", f.ChannelID}, c24KV{"channelType", c24Num(f.ChannelType)})
	c24optS(rng, &p, "topic", f.Topic)
	if v, ok := c24PayloadValue(rng, f.Payload); ok {
		p = append(p, c24KV{"payload", v})
	}
	return p
}

func c24RecvackParamsDoc(rng *rand.Rand, f *frame.RecvackPacket) c24ObjT {
	p := c24ObjT{}
	if h, ok := c24HeaderDoc(rng, f.Framer); ok {
		p = append(p, c24KV{"header", h})
	}
	p = append(p, c24KV{"messageId", strconv.FormatInt(f.MessageID, 10)}, c24KV{"messageSeq", c24Num(f.MessageSeq)})
	return p
}

func c24DisconnectParamsDoc(rng *rand.Rand, f *frame.DisconnectPacket) c24ObjT {
	p := c24ObjT{{"reasonCode", c24Num(uint8(f.ReasonCode))}}
	c24optS(rng, &p, "reason", f.Reason)
	return p
}
