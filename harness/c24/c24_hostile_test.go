//go:build verif

package c24

// Unit "hostile": arbitrary and mutated JSON into Decode / ToFrame and the
// gateway adapters.
//
// Asserted (statement: "decoding arbitrary JSON input never panics and yields
// either a well-formed message or an error"):
//   * Decode never panics; exactly one of (message, error) is non-nil;
//   * an accepted message is one of the package's message types, carries
//     jsonrpc "2.0" and the method its type stands for, a response has exactly
//     one of result/error, and (requests/notifications with a non-empty id) it
//     is stable: Decode(Encode(msg)) == msg;
//   * ToFrame on whatever Decode returned (including nil) never panics and
//     returns exactly one of (frame, error); the frame type matches the
//     message type and the reply token is the message id;
//   * FromFrame/Encode on that frame never panic;
//   * jsonrpc adapter and wsmux on the same bytes never panic, agree with the
//     direct calls (frame DeepEqual, same reply token) and report 0 < consumed <= len.

import (
	"bytes"
	"encoding/json"
	"errors"
	"fmt"
	"io"
	"math/rand/v2"
	"reflect"
	"strings"
	"testing"

	gwjsonrpc "github.com/WuKongIM/WuKongIM/pkg/gateway/protocol/jsonrpc"
	"github.com/WuKongIM/WuKongIM/pkg/gateway/testkit"
	"github.com/WuKongIM/WuKongIM/pkg/protocol/frame"
	"github.com/WuKongIM/WuKongIM/pkg/protocol/jsonrpc"
	"github.com/WuKongIM/WuKongIM/pkg/verifkit"
)

var c24Vocab = []string{"jsonrpc", "id", "method", "params", "result", "error", "header", "setting", "payload", "channelId", "channelType",
	"uid", "token", "version", "clientKey", "deviceId", "deviceFlag", "clientTimestamp", "msgKey", "expire", "clientMsgNo", "streamNo", "topic",
	"messageId", "messageSeq", "reasonCode", "reason", "noPersist", "redDot", "syncOnce", "dup", "end", "receipt", "signal", "stream",
	"code", "message", "data", "subNo", "param", "type", "timestamp", "", "ID", "Method", "JSONRPC", "Params"}

var c24Methods = []string{"connect", "send", "recvack", "subscribe", "unsubscribe", "ping", "pong", "disconnect", "recv", "event", "", "Connect", "SEND", "nope", "rpc.discover", "connect ", "\u0000"}

var c24OddNumbers = []string{"1e400", "-1e400", "1e-400", "99999999999999999999999999", "-99999999999999999999", "1.5", "-1", "0.0", "1E2", "18446744073709551616",
	"18446744073709551615", "9223372036854775808", "-9223372036854775809", "256", "65536", "4294967296", "-0", "2147483648", "1e2", "0.1e1", "1" + strings.Repeat("0", 400)}

func c24RandScalar(rng *rand.Rand) any {
	switch rng.IntN(9) {
	case 0:
		return nil
	case 1:
		return rng.IntN(2) == 0
	case 2:
		return c24Raw(c24OddNumbers[rng.IntN(len(c24OddNumbers))])
	case 3:
		return c24Raw(fmt.Sprint(rng.IntN(300) - 20))
	case 4:
		return c24Methods[rng.IntN(len(c24Methods))]
	case 5:
		return "2.0"
	case 6:
		return c24Str(rng, 6)
	case 7:
		return "aGVsbG8=" // base64
	}
	return ""
}

func c24RandValue(rng *rand.Rand, depth int) any {
	if depth <= 0 || rng.IntN(3) == 0 {
		return c24RandScalar(rng)
	}
	if rng.IntN(4) == 0 {
		n := rng.IntN(4)
		arr := make([]any, n)
		for i := range arr {
			arr[i] = c24RandValue(rng, depth-1)
		}
		return arr
	}
	n := rng.IntN(6)
	o := c24ObjT{}
	for i := 0; i < n; i++ {
		o = append(o, c24KV{c24Vocab[rng.IntN(len(c24Vocab))], c24RandValue(rng, depth-1)})
	}
	return o
}

// c24RandEnvelope is a PRNG document biased to look like a JSON-RPC message.
func c24RandEnvelope(rng *rand.Rand) any {
	o := c24ObjT{}
	if rng.IntN(2) == 0 {
		o = append(o, c24KV{"jsonrpc", []any{"2.0", "2.0", "1.0", c24Raw("2.0"), c24Raw("2"), nil, ""}[rng.IntN(7)]})
	}
	if rng.IntN(4) != 0 {
		var m any = c24Methods[rng.IntN(len(c24Methods))]
		if rng.IntN(10) == 0 {
			m = c24RandValue(rng, 1)
		}
		o = append(o, c24KV{"method", m})
	}
	if rng.IntN(3) != 0 {
		var id any = "x"
		if rng.IntN(2) == 0 {
			id = c24RandValue(rng, 1)
		}
		o = append(o, c24KV{"id", id})
	}
	if rng.IntN(3) != 0 {
		o = append(o, c24KV{"params", c24RandValue(rng, 3)})
	}
	if rng.IntN(4) == 0 {
		o = append(o, c24KV{"result", c24RandValue(rng, 2)})
	}
	if rng.IntN(5) == 0 {
		o = append(o, c24KV{"error", c24RandValue(rng, 2)})
	}
	rng.Shuffle(len(o), func(i, j int) { o[i], o[j] = o[j], o[i] })
	return o
}

func c24Nest(depth int, leaf any, obj bool) any {
	// rendered iteratively by c24RenderNest; this builds only a marker
	return c24NestT{depth, leaf, obj}
}

type c24NestT struct {
	depth int
	leaf  any
	obj   bool
}

// c24RenderAny renders a tree that may contain c24NestT markers.
func c24RenderAny(v any, o *c24RenderOpt) []byte {
	var b bytes.Buffer
	c24renderAny(&b, v, o)
	return b.Bytes()
}

func c24renderAny(b *bytes.Buffer, v any, o *c24RenderOpt) {
	switch x := v.(type) {
	case c24NestT:
		for i := 0; i < x.depth; i++ {
			if x.obj {
				b.WriteString(`{"params":`)
			} else {
				b.WriteByte('[')
			}
		}
		c24renderAny(b, x.leaf, o)
		for i := 0; i < x.depth; i++ {
			if x.obj {
				b.WriteByte('}')
			} else {
				b.WriteByte(']')
			}
		}
	case c24ObjT:
		b.WriteByte('{')
		for i, e := range x {
			if i > 0 {
				b.WriteByte(',')
			}
			c24renderString(b, e.K, nil)
			b.WriteByte(':')
			c24renderAny(b, e.V, o)
		}
		b.WriteByte('}')
	case []any:
		b.WriteByte('[')
		for i, e := range x {
			if i > 0 {
				b.WriteByte(',')
			}
			c24renderAny(b, e, o)
		}
		b.WriteByte(']')
	default:
		c24render(b, v, o)
	}
}

// paths to every node of a tree (for picking a random node to mutate)
type c24Path []any // string key index (int position in object) or array index

func c24Walk(v any, cur c24Path, out *[]c24Path) {
	*out = append(*out, append(c24Path(nil), cur...))
	switch x := v.(type) {
	case c24ObjT:
		for i := range x {
			c24Walk(x[i].V, append(cur, i), out)
		}
	case []any:
		for i := range x {
			c24Walk(x[i], append(cur, i), out)
		}
	}
}

func c24Clone(v any) any {
	switch x := v.(type) {
	case c24ObjT:
		o := make(c24ObjT, len(x))
		for i := range x {
			o[i] = c24KV{x[i].K, c24Clone(x[i].V)}
		}
		return o
	case []any:
		a := make([]any, len(x))
		for i := range x {
			a[i] = c24Clone(x[i])
		}
		return a
	}
	return v
}

// c24Replace returns the tree with the node at p replaced by f(old).
func c24Replace(v any, p c24Path, f func(any) any) any {
	if len(p) == 0 {
		return f(v)
	}
	switch x := v.(type) {
	case c24ObjT:
		i := p[0].(int)
		x[i].V = c24Replace(x[i].V, p[1:], f)
		return x
	case []any:
		i := p[0].(int)
		x[i] = c24Replace(x[i], p[1:], f)
		return x
	}
	return v
}

func c24DropKey(o c24ObjT, k string) c24ObjT {
	out := c24ObjT{}
	for _, e := range o {
		if e.K != k {
			out = append(out, e)
		}
	}
	return out
}

var c24Mutations = []string{"type-change", "drop-method", "drop-params", "drop-id", "drop-random-key", "odd-number", "deep-nest", "dup-key", "bad-utf8",
	"truncate", "byte-flip", "null-all", "big-string", "version", "method", "id", "batch", "concat", "params-scalar", "swap-params"}

// c24Mutate applies one named mutation to a valid message; returns bytes.
func (h *c24H) mutate(rng *rand.Rand, base c24ObjT, other c24ObjT, kind string) []byte {
	t := c24Clone(base).(c24ObjT)
	ro := &c24RenderOpt{rng: rng, ws: rng.IntN(4) == 0}
	pickIn := func(tree any) c24Path {
		var ps []c24Path
		c24Walk(tree, nil, &ps)
		return ps[rng.IntN(len(ps))]
	}
	pick := func() c24Path { return pickIn(t) }
	switch kind {
	case "type-change":
		var out any = t
		for k := 0; k < 1+rng.IntN(3); k++ {
			out = c24Replace(out, pickIn(out), func(old any) any {
				for {
					nv := c24RandValue(rng, 1)
					if reflect.TypeOf(nv) != reflect.TypeOf(old) {
						return nv
					}
				}
			})
		}
		return c24RenderAny(out, ro)
	case "drop-method":
		return c24RenderAny(c24DropKey(t, "method"), ro)
	case "drop-params":
		return c24RenderAny(c24DropKey(t, "params"), ro)
	case "drop-id":
		return c24RenderAny(c24DropKey(t, "id"), ro)
	case "drop-random-key":
		var out any = t
		p := pick()
		if len(p) == 0 {
			return c24RenderAny(c24ObjT{}, ro)
		}
		out = c24Replace(out, p[:len(p)-1], func(old any) any {
			switch x := old.(type) {
			case c24ObjT:
				i := p[len(p)-1].(int)
				return append(append(c24ObjT{}, x[:i]...), x[i+1:]...)
			}
			return old
		})
		return c24RenderAny(out, ro)
	case "odd-number":
		var out any = t
		for k := 0; k < 1+rng.IntN(3); k++ {
			out = c24Replace(out, pickIn(out), func(old any) any {
				switch old.(type) {
				case c24ObjT, []any:
					if rng.IntN(4) != 0 {
						return old
					}
				}
				return c24Raw(c24OddNumbers[rng.IntN(len(c24OddNumbers))])
			})
		}
		return c24RenderAny(out, ro)
	case "deep-nest":
		depth := []int{5, 100, 1000, 9990, 10001, 20000}[rng.IntN(6)]
		if rng.IntN(16) == 0 {
			depth = 100000
		}
		leaf := c24RandScalar(rng)
		obj := rng.IntN(2) == 0
		var out any
		if rng.IntN(3) == 0 {
			out = c24Nest(depth, t, obj) // whole message buried
		} else {
			out = c24Replace(t, pick(), func(any) any { return c24Nest(depth, leaf, obj) })
		}
		return c24RenderAny(out, ro)
	case "dup-key":
		var out any = t
		var ps []c24Path
		c24Walk(t, nil, &ps)
		// choose an object node
		for try := 0; try < 8; try++ {
			p := ps[rng.IntN(len(ps))]
			done := false
			out = c24Replace(out, p, func(old any) any {
				o, ok := old.(c24ObjT)
				if !ok || len(o) == 0 {
					return old
				}
				done = true
				e := o[rng.IntN(len(o))]
				dup := c24KV{e.K, c24RandValue(rng, 1)}
				if rng.IntN(3) == 0 {
					dup.V = c24Clone(e.V)
				}
				if rng.IntN(2) == 0 {
					return append(c24ObjT{dup}, o...)
				}
				return append(o, dup)
			})
			if done {
				break
			}
		}
		return c24RenderAny(out, ro)
	case "bad-utf8":
		b := c24RenderAny(t, ro)
		bad := [][]byte{{0xff}, {0xc0, 0xaf}, {0xed, 0xa0, 0x80}, {0xf8, 0x88, 0x80, 0x80, 0x80}, {0x80}, {0xe2, 0x82}, []byte(`\ud800`), []byte(`\udc00\ud800`), []byte(`\u12`), []byte(`\x41`), {0x00}}
		for k := 0; k < 1+rng.IntN(3); k++ {
			// splice right after a random '"' so that it mostly lands inside a string or key
			idx := rng.IntN(len(b) + 1)
			for j := 0; j < len(b); j++ {
				if b[(idx+j)%len(b)] == '"' {
					idx = (idx+j)%len(b) + 1
					break
				}
			}
			ins := bad[rng.IntN(len(bad))]
			b = append(b[:idx:idx], append(append([]byte(nil), ins...), b[idx:]...)...)
		}
		return b
	case "truncate":
		b := c24RenderAny(t, ro)
		if len(b) == 0 {
			return b
		}
		return b[:rng.IntN(len(b))]
	case "byte-flip":
		b := c24RenderAny(t, ro)
		for k := 0; k < 1+rng.IntN(4); k++ {
			if len(b) > 0 {
				b[rng.IntN(len(b))] ^= 1 << uint(rng.IntN(8))
			}
		}
		return b
	case "null-all":
		var out any = t
		var ps []c24Path
		c24Walk(t, nil, &ps)
		for _, p := range ps {
			if len(p) > 0 && rng.IntN(2) == 0 {
				out = c24Replace(out, p, func(old any) any {
					switch old.(type) {
					case c24ObjT, []any:
						if rng.IntN(3) != 0 {
							return old
						}
					}
					return nil
				})
			}
		}
		return c24RenderAny(out, ro)
	case "big-string":
		tok := c24Tokens[rng.IntN(len(c24Tokens))]
		big := strings.Repeat(tok, (20_000+rng.IntN(300_000))/len(tok))
		out := c24Replace(t, pick(), func(old any) any {
			if _, ok := old.(c24ObjT); ok {
				return old
			}
			return big
		})
		return c24RenderAny(out, ro)
	case "version":
		t = c24DropKey(t, "jsonrpc")
		t = append(t, c24KV{"jsonrpc", []any{"1.0", "2", "2.00", "", c24Raw("2.0"), c24Raw("2"), nil, true, c24ObjT{}, []any{"2.0"}, " 2.0", "２.０"}[rng.IntN(12)]})
		return c24RenderAny(t, ro)
	case "method":
		t = c24DropKey(t, "method")
		var m any = c24Methods[rng.IntN(len(c24Methods))]
		if rng.IntN(5) == 0 {
			m = c24RandValue(rng, 1)
		}
		t = append(c24ObjT{{"method", m}}, t...)
		return c24RenderAny(t, ro)
	case "id":
		t = c24DropKey(t, "id")
		ids := []any{nil, c24Raw("0"), c24Raw("1"), c24Raw("-1"), c24Raw("1.5"), c24Raw("1e400"), true, false, c24ObjT{}, []any{}, []any{"a"}, "", " ", c24ObjT{{"id", "x"}}, c24Raw("12345678901234567890123")}
		t = append(t, c24KV{"id", ids[rng.IntN(len(ids))]})
		return c24RenderAny(t, ro)
	case "batch":
		n := rng.IntN(3)
		arr := []any{}
		for i := 0; i < n; i++ {
			arr = append(arr, c24Clone(t))
		}
		return c24RenderAny(arr, ro)
	case "concat":
		b := c24RenderAny(t, ro)
		tail := [][]byte{c24RenderAny(other, ro), []byte("garbage"), []byte("}"), []byte(`{"`), {0}, []byte("\ufeff"), []byte(" \n ")}[rng.IntN(7)]
		if rng.IntN(4) == 0 {
			return append(append([]byte("\ufeff"), b...), tail...)
		}
		return append(b, tail...)
	case "params-scalar":
		t = c24DropKey(t, "params")
		t = append(t, c24KV{"params", []any{nil, c24Raw("0"), "", "{}", []any{}, []any{c24ObjT{}}, true, c24ObjT{}, c24Raw("1e400")}[rng.IntN(9)]})
		return c24RenderAny(t, ro)
	case "swap-params":
		// params (or result) of another message type under this method
		if p, ok := other.get("params"); ok {
			t = c24DropKey(t, "params")
			t = append(t, c24KV{"params", c24Clone(p)})
		} else if p, ok := other.get("result"); ok {
			t = append(t, c24KV{"result", c24Clone(p)})
		}
		return c24RenderAny(t, ro)
	}
	panic("c24: unknown mutation " + kind)
}

// c24BaseDoc returns a valid message tree of any direction.
func (h *c24H) baseDoc(rng *rand.Rand) (c24ObjT, string) {
	if rng.IntN(3) == 0 {
		var f frame.Frame
		var kind string
		switch rng.IntN(6) {
		case 0:
			f, kind = c24GenConnack(rng), "connack"
		case 1:
			f, kind = c24GenSendack(rng), "sendack"
		case 2:
			f, kind = c24GenRecv(rng), "recv"
		case 3:
			f, kind = c24GenEvent(rng), "event"
		case 4:
			f, kind = c24GenDisconnect(rng), "disconnect-n"
		default:
			f, kind = &frame.PongPacket{}, "pong"
		}
		id, _ := c24GenID(rng)
		m, err := jsonrpc.FromFrame(id, f)
		if err == nil {
			if b, err := jsonrpc.Encode(m); err == nil {
				if tr, err := c24Parse(b); err == nil {
					if o, ok := tr.(c24ObjT); ok {
						return o, kind
					}
				}
			}
		}
	}
	c := h.genC2S(rng)
	id, _ := c24GenID(rng)
	if rng.IntN(8) == 0 {
		// subscribe / unsubscribe: decodable, not bridged
		m := []string{"subscribe", "unsubscribe"}[rng.IntN(2)]
		p := c24ObjT{{"subNo", c24Str(rng, 3)}, {"channelId", c24Str(rng, 3)}, {"channelType", c24Num(c24U8(rng))}}
		if rng.IntN(2) == 0 {
			p = append(p, c24KV{"param", c24Str(rng, 3)})
		}
		return c24Envelope(rng, m, &id, p, true), m
	}
	return c24IndepDoc(rng, c, id), c.method
}

// ---------------------------------------------------------------------------

func c24ErrClass(err error) string {
	switch {
	case err == nil:
		return "ok"
	case errors.Is(err, io.EOF):
		return "EOF"
	case errors.Is(err, io.ErrUnexpectedEOF):
		return "UnexpectedEOF"
	case errors.Is(err, jsonrpc.ErrInvalidVersion):
		return "ErrInvalidVersion"
	case errors.Is(err, jsonrpc.ErrMissingParams):
		return "ErrMissingParams"
	case errors.Is(err, jsonrpc.ErrUnknownMethod):
		return "ErrUnknownMethod"
	case errors.Is(err, jsonrpc.ErrUnmarshalFieldFailed):
		return "ErrUnmarshalFieldFailed"
	case errors.Is(err, jsonrpc.ErrRequestFormat):
		return "ErrRequestFormat"
	case errors.Is(err, jsonrpc.ErrResponseFormat):
		return "ErrResponseFormat"
	case errors.Is(err, jsonrpc.ErrNotificationFormat):
		return "ErrNotificationFormat"
	case errors.Is(err, jsonrpc.ErrInvalidStructure):
		return "ErrInvalidStructure"
	}
	var ute *json.UnmarshalTypeError
	if errors.As(err, &ute) {
		return "json.UnmarshalTypeError"
	}
	if strings.Contains(err.Error(), "jsonrpc decode:") {
		return "decodingError"
	}
	return "other"
}

// c24WellFormed checks an accepted message; returns (type name, method, id, isRequestOrNotification).
func (h *c24H) wellFormed(msg any, in []byte) (string, string, string, bool) {
	r := h.r
	chk := func(tn, gotMethod, wantMethod, ver string) {
		if gotMethod != wantMethod {
			r.Violation("decode-message-method-mismatch:"+tn, map[string]any{"method": gotMethod, "in": c24Trunc(in)})
		}
		if ver != "2.0" {
			r.Violation("decode-message-version:"+tn, map[string]any{"jsonrpc": ver, "in": c24Trunc(in)})
		}
	}
	switch m := msg.(type) {
	case jsonrpc.ConnectRequest:
		chk("ConnectRequest", m.Method, "connect", m.Jsonrpc)
		return "ConnectRequest", m.Method, m.ID, true
	case jsonrpc.SendRequest:
		chk("SendRequest", m.Method, "send", m.Jsonrpc)
		return "SendRequest", m.Method, m.ID, true
	case jsonrpc.SubscribeRequest:
		chk("SubscribeRequest", m.Method, "subscribe", m.Jsonrpc)
		return "SubscribeRequest", m.Method, m.ID, true
	case jsonrpc.UnsubscribeRequest:
		chk("UnsubscribeRequest", m.Method, "unsubscribe", m.Jsonrpc)
		return "UnsubscribeRequest", m.Method, m.ID, true
	case jsonrpc.PingRequest:
		chk("PingRequest", m.Method, "ping", m.Jsonrpc)
		return "PingRequest", m.Method, m.ID, true
	case jsonrpc.DisconnectRequest:
		chk("DisconnectRequest", m.Method, "disconnect", m.Jsonrpc)
		return "DisconnectRequest", m.Method, m.ID, true
	case jsonrpc.RecvNotification:
		chk("RecvNotification", m.Method, "recv", m.Jsonrpc)
		return "RecvNotification", m.Method, "", true
	case jsonrpc.RecvAckNotification:
		chk("RecvAckNotification", m.Method, "recvack", m.Jsonrpc)
		return "RecvAckNotification", m.Method, "", true
	case jsonrpc.DisconnectNotification:
		chk("DisconnectNotification", m.Method, "disconnect", m.Jsonrpc)
		return "DisconnectNotification", m.Method, "", true
	case jsonrpc.EventNotification:
		chk("EventNotification", m.Method, "event", m.Jsonrpc)
		return "EventNotification", m.Method, "", true
	case jsonrpc.GenericResponse:
		if m.Jsonrpc != "2.0" {
			r.Violation("decode-message-version:GenericResponse", map[string]any{"jsonrpc": m.Jsonrpc, "in": c24Trunc(in)})
		}
		if (m.Result != nil) == (m.Error != nil) {
			r.Violation("decode-response-result-xor-error", map[string]any{"in": c24Trunc(in), "result": string(m.Result), "error": fmt.Sprintf("%+v", m.Error)})
		}
		return "GenericResponse", "", m.ID, false
	}
	r.Violation("decode-unknown-message-type", map[string]any{"type": fmt.Sprintf("%T", msg), "in": c24Trunc(in)})
	return fmt.Sprintf("%T", msg), "", "", false
}

var c24WantFrame = map[string]string{"ConnectRequest": "*frame.ConnectPacket", "SendRequest": "*frame.SendPacket", "PingRequest": "*frame.PingPacket",
	"DisconnectRequest": "*frame.DisconnectPacket", "RecvAckNotification": "*frame.RecvackPacket"}

// hostile feeds one input through every entry point; returns outcome class.
func (h *c24H) hostile(in []byte) string {
	r := h.r
	var msg any
	var err error
	var probe jsonrpc.Probe
	dec := json.NewDecoder(bytes.NewReader(in))
	if r.Guard("Decode", c24Trunc(in), func() { msg, probe, err = jsonrpc.Decode(dec) }) {
		return "panic"
	}
	_ = probe
	if (msg == nil) == (err == nil) {
		r.Violation("decode-neither-message-nor-error", map[string]any{"in": c24Trunc(in), "msg": fmt.Sprintf("%+v", msg), "err": fmt.Sprint(err)})
		return "bad"
	}
	outcome := c24ErrClass(err)
	tn, wantID := "", ""
	if err == nil {
		var stable bool
		tn, _, wantID, stable = h.wellFormed(msg, in)
		outcome = tn
		// re-encode: never panics, valid JSON, and (requests/notifications with an id on the wire) decodes to the same message
		var enc []byte
		var eerr error
		if !r.Guard("Encode:decoded", c24Trunc(in), func() { enc, eerr = jsonrpc.Encode(msg) }) {
			if eerr != nil || !json.Valid(enc) {
				r.Violation("decoded-message-not-encodable:"+tn, map[string]any{"in": c24Trunc(in), "err": fmt.Sprint(eerr)})
			} else if stable && !(wantID == "" && strings.HasSuffix(tn, "Request")) {
				var again any
				var aerr error
				r.Guard("Decode:reencoded", c24Trunc(enc), func() { again, _, aerr = jsonrpc.Decode(json.NewDecoder(bytes.NewReader(enc))) })
				if aerr != nil || !reflect.DeepEqual(again, msg) {
					r.Violation("decoded-message-not-stable:"+tn, map[string]any{"in": c24Trunc(in), "reencoded": c24Trunc(enc), "err": fmt.Sprint(aerr)})
				}
				h.count("hostile.accepted_and_stable")
			}
		}
	}
	// ToFrame on whatever came back (nil included)
	var fr frame.Frame
	var tok string
	var terr error
	if r.Guard("ToFrame", map[string]any{"in": c24Trunc(in), "msg": fmt.Sprintf("%T", msg)}, func() { fr, tok, terr = jsonrpc.ToFrame(msg) }) {
		return "panic"
	}
	frameNil := fr == nil || (reflect.ValueOf(fr).Kind() == reflect.Ptr && reflect.ValueOf(fr).IsNil())
	if frameNil == (terr == nil) {
		r.Violation("toframe-neither-frame-nor-error", map[string]any{"in": c24Trunc(in), "msg": fmt.Sprintf("%T", msg), "frame": fmt.Sprintf("%T", fr), "err": fmt.Sprint(terr)})
	}
	if terr == nil && !frameNil {
		if want, ok := c24WantFrame[tn]; !ok || fmt.Sprintf("%T", fr) != want {
			r.Violation("toframe-wrong-frame-type:"+tn, map[string]any{"got": fmt.Sprintf("%T", fr), "in": c24Trunc(in)})
		}
		if tok != wantID {
			r.Violation("toframe-reply-token-differs-from-id:"+tn, map[string]any{"id": wantID, "token": tok, "in": c24Trunc(in)})
		}
		outcome += "->frame"
		r.Guard("FromFrame:bridged", fmt.Sprintf("%+v", fr), func() {
			if m2, e := jsonrpc.FromFrame(tok, fr); e == nil {
				_, _ = jsonrpc.Encode(m2)
			}
		})
	} else if err == nil {
		outcome += "->toframe-error"
	}

	// gateway adapter: same verdict, same frame, same token
	sess := testkit.NewProtocolSession()
	_ = h.ad.OnOpen(sess)
	var frames []frame.Frame
	var consumed int
	var aerr error
	if r.Guard("Adapter.Decode", c24Trunc(in), func() { frames, consumed, aerr = h.ad.Decode(sess, in) }) {
		return "panic"
	}
	directOK := err == nil && terr == nil && !frameNil
	switch {
	case directOK:
		if aerr != nil || len(frames) != 1 || !reflect.DeepEqual(frames[0], fr) {
			r.Violation("adapter-disagrees-with-bridge", map[string]any{"in": c24Trunc(in), "adapter_err": fmt.Sprint(aerr), "frames": len(frames)})
		} else if consumed <= 0 || consumed > len(in) {
			r.Violation("adapter-consumed-out-of-range", map[string]any{"in": c24Trunc(in), "consumed": consumed, "len": len(in)})
		}
		toks := h.ad.TakeReplyTokens(sess, 4)
		if (tok == "" && len(toks) != 0) || (tok != "" && (len(toks) != 1 || toks[0] != tok)) {
			r.Violation("adapter-reply-token-changed", map[string]any{"want": tok, "got": toks, "in": c24Trunc(in)})
		}
	default:
		if len(frames) != 0 || consumed != 0 {
			r.Violation("adapter-frames-on-rejected-input", map[string]any{"in": c24Trunc(in), "frames": len(frames), "consumed": consumed, "direct_err": fmt.Sprint(err), "toframe_err": fmt.Sprint(terr)})
		}
		if aerr == nil && !(errors.Is(err, io.EOF) || errors.Is(err, io.ErrUnexpectedEOF) || len(in) == 0) {
			r.Violation("adapter-swallows-error", map[string]any{"in": c24Trunc(in), "direct_err": fmt.Sprint(err), "toframe_err": fmt.Sprint(terr)})
		}
		if toks := h.ad.TakeReplyTokens(sess, 4); len(toks) != 0 {
			r.Violation("adapter-reply-token-on-rejected-input", toks)
		}
	}
	_ = h.ad.OnClose(sess)

	// wsmux on a fresh session (sniffs from the first bytes)
	msess := testkit.NewProtocolSession()
	var mframes []frame.Frame
	var merr error
	if r.Guard("wsmux.Decode", c24Trunc(in), func() { mframes, _, merr = h.mux.Decode(msess, in) }) {
		return "panic"
	}
	trimmed := bytes.TrimLeft(in, " \t\r\n")
	if len(trimmed) > 0 && (trimmed[0] == '{' || trimmed[0] == '[') {
		if directOK != (merr == nil && len(mframes) == 1) {
			r.Violation("wsmux-disagrees-with-bridge", map[string]any{"in": c24Trunc(in), "mux_err": fmt.Sprint(merr), "frames": len(mframes), "direct_ok": directOK})
		}
		h.count("hostile.wsmux_routed_json")
	} else {
		h.count("hostile.wsmux_routed_wkproto_or_empty")
	}
	r.Guard("wsmux.OnClose", nil, func() { _ = h.mux.OnClose(msess) })
	return outcome
}

func TestVerifC24Hostile(t *testing.T) {
	r := verifkit.Start(t, "C24", "hostile")
	defer r.Finish()
	r.SetRule("Case i (PRNG stream (2,i)) is one of: PRNG JSON-RPC-looking envelope (vocabulary of real member names, random value types, odd number literals), PRNG free-form JSON value, PRNG bytes / token soup, or a valid message (every direction and type, incl. subscribe/unsubscribe) hit by one named mutation: " + strings.Join(c24Mutations, ", ") + ". Every input goes through Decode, ToFrame, FromFrame, Encode, the jsonrpc gateway adapter and wsmux. Non-trivial = every case (each is a distinct hostile input); distinct by (generator/mutation, base message kind, outcome class = error sentinel or accepted message type and ToFrame result).")
	r.Assume("Inputs are bounded to ~2 MiB and nesting depth 100000 (encoding/json's own depth limit is 10000).")
	h := c24NewH(r)
	defer h.flush()
	n := r.N(100_000, 800_000)
	for i := 0; i < n; i++ {
		if r.Skip(i) {
			continue
		}
		rng := r.Rand(2, uint64(i))
		var in []byte
		var gen, base string
		switch sel := rng.IntN(100); {
		case sel < 18:
			gen = "prng-envelope"
			in = c24RenderAny(c24RandEnvelope(rng), &c24RenderOpt{rng: rng, ws: rng.IntN(3) == 0})
		case sel < 24:
			gen = "prng-json"
			in = c24RenderAny(c24RandValue(rng, 4), &c24RenderOpt{rng: rng})
		case sel < 28:
			gen = "prng-bytes"
			in = make([]byte, rng.IntN(120))
			for j := range in {
				in[j] = byte(rng.Uint32())
			}
			if rng.IntN(2) == 0 && len(in) > 0 {
				in[0] = '{'
			}
		case sel < 33:
			gen = "token-soup"
			toks := []string{"{", "}", "[", "]", ":", ",", `"`, `"id"`, `"method"`, `"params"`, `"connect"`, `"send"`, `"ping"`, "null", "true", "1", "-", "1e", `\`, " ", `"jsonrpc":"2.0"`, `"result"`, `"error"`, "\n"}
			var sb strings.Builder
			sb.WriteString("{")
			for k := rng.IntN(30); k > 0; k-- {
				sb.WriteString(toks[rng.IntN(len(toks))])
			}
			in = []byte(sb.String())
		default:
			gen = c24Mutations[rng.IntN(len(c24Mutations))]
			if gen == "big-string" && rng.IntN(24) != 0 { // keep the expensive one rare
				gen = "type-change"
			}
			if gen == "deep-nest" && rng.IntN(3) != 0 {
				gen = "odd-number"
			}
			var b c24ObjT
			b, base = h.baseDoc(rng)
			other, _ := h.baseDoc(rng)
			in = h.mutate(rng, b, other, gen)
		}
		r.BeginCase(i, gen+" "+base)
		r.Eval(1)
		outcome := h.hostile(in)
		h.count("gen." + gen)
		h.count("outcome." + outcome)
		r.Max("max_input_bytes", len(in))
		r.Nontrivial(gen + "|" + base + "|" + outcome)
		if r.WantSample() && i%4999 == 17 {
			r.Sample(map[string]any{"gen": gen, "base": base, "in": c24Trunc(in), "outcome": outcome})
		}
	}
}

var _ = gwjsonrpc.Name
