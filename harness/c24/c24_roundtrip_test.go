//go:build verif

package c24

// Unit "roundtrip": faithful-bridge monitor.
//
// The bridge is asymmetric by construction (read from codec.go):
//   FromFrame supports the server->client frames CONNACK, SENDACK, RECV, EVENT, DISCONNECT, PONG;
//   ToFrame   supports the client->server messages connect, send, ping, disconnect(request), recvack.
// No frame type can literally go FromFrame -> Encode -> Decode -> ToFrame
// (ToFrame rejects every message FromFrame produces), so "and back" is closed
// by the peer the message is meant for:
//   s2c: frame -> FromFrame -> Encode -> bytes -> {independent JSON parse + documented member table,
//        and jsonrpc.Decode + the package's own typed params} -> frame'   ; frame' == frame on carried fields
//   c2s: frame -> {independent document per the documented member table, or the package's typed
//        request structs + Encode} -> bytes -> Decode -> ToFrame -> frame' ; frame' == frame on carried fields
//   id : request id -> Decode/ToFrame -> reply token -> FromFrame(ack) -> Encode -> response "id" ; same JSON string
// The same is done through the gateway jsonrpc adapter and the wsmux adapter
// (which must add no translation: byte-identical output, DeepEqual frames).

import (
	"bytes"
	"encoding/json"
	"fmt"
	"math/rand/v2"
	"reflect"
	"strconv"
	"strings"
	"testing"
	"unicode/utf8"

	gwjsonrpc "github.com/WuKongIM/WuKongIM/pkg/gateway/protocol/jsonrpc"
	gwwkproto "github.com/WuKongIM/WuKongIM/pkg/gateway/protocol/wkproto"
	"github.com/WuKongIM/WuKongIM/pkg/gateway/protocol/wsmux"
	"github.com/WuKongIM/WuKongIM/pkg/gateway/session"
	"github.com/WuKongIM/WuKongIM/pkg/gateway/testkit"
	gatewaytypes "github.com/WuKongIM/WuKongIM/pkg/gateway/types"
	"github.com/WuKongIM/WuKongIM/pkg/protocol/codec"
	"github.com/WuKongIM/WuKongIM/pkg/protocol/frame"
	"github.com/WuKongIM/WuKongIM/pkg/protocol/jsonrpc"
	"github.com/WuKongIM/WuKongIM/pkg/verifkit"
)

type c24H struct {
	r   *verifkit.Run
	rng *rand.Rand
	cnt map[string]int
	ad  *gwjsonrpc.Adapter
	mux *wsmux.Adapter
	wk  *codec.WKProto
}

func c24NewH(r *verifkit.Run) *c24H {
	return &c24H{r: r, cnt: map[string]int{}, ad: gwjsonrpc.New(), mux: wsmux.New(), wk: codec.New()}
}

func (h *c24H) count(k string) { h.cnt[k]++ }
func (h *c24H) flush() {
	for k, v := range h.cnt {
		h.r.Count(k, v)
	}
}

func c24Trunc(b []byte) string {
	if len(b) > 600 {
		return string(b[:600]) + fmt.Sprintf("...(%d bytes)", len(b))
	}
	return string(b)
}

func c24ValidStrings(ss ...string) bool {
	for _, s := range ss {
		if !utf8.ValidString(s) {
			return false
		}
	}
	return true
}

// responseID extracts the "id" member of an encoded message with the
// independent parser: (value, present).
func c24DocID(doc c24ObjT) (any, bool) { return doc.get("id") }

// ---------------------------------------------------------------------------
// server -> client

func (h *c24H) s2c(kind string, f frame.Frame, reqID string, idClass string) (encoded []byte, ok bool) {
	r := h.r
	var msg any
	var err error
	if r.Guard("FromFrame:"+kind, map[string]any{"frame": fmt.Sprintf("%+v", f), "id": reqID}, func() { msg, err = jsonrpc.FromFrame(reqID, f) }) {
		return nil, false
	}
	if err != nil || msg == nil {
		r.Violation("s2c-fromframe-rejects-supported:"+kind, map[string]any{"frame": fmt.Sprintf("%+v", f), "err": fmt.Sprint(err)})
		return nil, false
	}
	var data []byte
	if r.Guard("Encode:"+kind, fmt.Sprintf("%+v", msg), func() { data, err = jsonrpc.Encode(msg) }) {
		return nil, false
	}
	if err != nil {
		r.Violation("s2c-encode-error:"+kind, map[string]any{"msg": fmt.Sprintf("%+v", msg), "err": err.Error()})
		return nil, false
	}
	if !json.Valid(data) || !utf8.Valid(data) {
		r.Violation("s2c-encode-invalid-json:"+kind, c24Trunc(data))
		return nil, false
	}
	tree, perr := c24Parse(data)
	doc, isObj := tree.(c24ObjT)
	if perr != nil || !isObj {
		r.Violation("s2c-encode-not-an-object:"+kind, map[string]any{"doc": c24Trunc(data), "err": fmt.Sprint(perr)})
		return nil, false
	}
	rd := &c24Rd{}
	if v, ok := doc.get("jsonrpc"); ok && v != "2.0" {
		r.Violation("s2c-bad-jsonrpc-member:"+kind, c24Trunc(data))
	}

	// --- id clause
	isResponse := kind == "CONNACK" || kind == "SENDACK" || kind == "PONG"
	idv, idPresent := c24DocID(doc)
	if isResponse {
		switch {
		case reqID == "":
			// An empty reply token has no JSON representation other than ""/absent; both are "empty".
			if idPresent && idv != "" {
				r.Violation("s2c-id-invented:"+kind, map[string]any{"doc": c24Trunc(data)})
			}
			h.count("id.empty_reply_token." + map[bool]string{true: "id_member_empty_string", false: "id_member_absent"}[idPresent])
		case !idPresent:
			r.Violation("s2c-id-dropped:"+kind, map[string]any{"want": reqID, "doc": c24Trunc(data)})
		default:
			s, isStr := idv.(string)
			if !isStr {
				r.Violation("s2c-id-retyped:"+kind, map[string]any{"want_string": reqID, "got": fmt.Sprintf("%T %v", idv, idv), "doc": c24Trunc(data)})
			} else if s != reqID {
				r.Violation("s2c-id-changed:"+kind, map[string]any{"want": reqID, "got": s, "class": idClass})
			}
			h.count("id.response_id_same")
		}
		if _, has := doc.get("method"); has {
			r.Violation("s2c-response-has-method:"+kind, c24Trunc(data))
		}
		_, hasRes := doc.get("result")
		_, hasErr := doc.get("error")
		if hasErr {
			r.Violation("s2c-ack-encoded-as-error:"+kind, c24Trunc(data))
		}
		if kind != "PONG" && !hasRes {
			r.Violation("s2c-response-without-result:"+kind, c24Trunc(data))
		}
	} else {
		if idPresent {
			r.Violation("s2c-notification-has-id:"+kind, c24Trunc(data))
		}
		wantMethod := map[string]string{"RECV": "recv", "EVENT": "event", "DISCONNECT": "disconnect"}[kind]
		if m, _ := doc.get("method"); m != wantMethod {
			r.Violation("s2c-notification-wrong-method:"+kind, c24Trunc(data))
		}
	}

	// --- carried fields, independent parse
	var diffs []string
	switch w := f.(type) {
	case *frame.ConnackPacket:
		diffs = c24DiffConnack(w, c24ConnackFromDoc(rd, rd.obj(doc, "result")))
	case *frame.SendackPacket:
		diffs = c24DiffSendack(w, c24SendackFromDoc(rd, rd.obj(doc, "result")))
	case *frame.RecvPacket:
		diffs = c24DiffRecv(w, c24RecvFromDoc(rd, rd.obj(doc, "params")))
	case *frame.EventPacket:
		if !utf8.Valid(w.Data) {
			h.count("s2c.event_data_not_utf8(data member not asserted)")
		}
		diffs = c24DiffEvent(w, c24EventFromDoc(rd, rd.obj(doc, "params")))
	case *frame.DisconnectPacket:
		diffs = c24DiffDisconnect(w, c24DisconnectFromDoc(rd, rd.obj(doc, "params")))
		if c24FlagMask(w.Framer) != 0 {
			if hd := rd.obj(rd.obj(doc, "params"), "header"); hd == nil {
				h.count("s2c.disconnect_header_flags_not_carried(documented member, observed only)")
			}
		}
	case *frame.PongPacket:
	}
	for _, e := range rd.errs {
		r.Violation("s2c-wrong-json-type:"+kind+"."+strings.SplitN(e, ":", 2)[0], map[string]any{"detail": e, "doc": c24Trunc(data)})
	}
	for _, d := range diffs {
		r.Violation("s2c-field-mismatch:"+kind+"."+d, map[string]any{"frame": fmt.Sprintf("%+v", f), "doc": c24Trunc(data), "via": "independent-parse"})
	}

	// --- carried fields, via the package's own Decode and typed members
	var back any
	var derr error
	if r.Guard("Decode:s2c:"+kind, c24Trunc(data), func() { back, _, derr = jsonrpc.Decode(json.NewDecoder(bytes.NewReader(data))) }) {
		return data, false
	}
	switch {
	case derr != nil:
		// Only responses without an id, and PONG (no result/error member), are
		// known to be rejected by the server-side Decode; anything else that
		// FromFrame+Encode produced must be decodable by the same package.
		if kind == "PONG" {
			h.count("s2c.pong_rejected_by_jsonrpc.Decode(observed only)")
		} else if isResponse && reqID == "" {
			h.count("s2c.idless_response_rejected_by_jsonrpc.Decode(observed only)")
		} else {
			r.Violation("s2c-own-encoding-not-decodable:"+kind, map[string]any{"doc": c24Trunc(data), "err": derr.Error()})
		}
	default:
		var tdiffs []string
		switch w := f.(type) {
		case *frame.ConnackPacket:
			g, isG := back.(jsonrpc.GenericResponse)
			if !isG || g.ID != reqID {
				r.Violation("s2c-decode-response-id:"+kind, map[string]any{"want": reqID, "got": fmt.Sprintf("%+v", back)})
				break
			}
			var res jsonrpc.ConnectResult
			if e := json.Unmarshal(g.Result, &res); e != nil {
				r.Violation("s2c-result-not-connectresult", map[string]any{"doc": c24Trunc(data), "err": e.Error()})
				break
			}
			got := &frame.ConnackPacket{ServerVersion: uint8(res.ServerVersion), ServerKey: res.ServerKey, Salt: res.Salt, TimeDiff: res.TimeDiff,
				ReasonCode: frame.ReasonCode(res.ReasonCode), NodeId: res.NodeID}
			if res.Header != nil {
				got.Framer = *res.Header.ToProto()
			}
			tdiffs = c24DiffConnack(w, got)
		case *frame.SendackPacket:
			g, isG := back.(jsonrpc.GenericResponse)
			if !isG || g.ID != reqID {
				r.Violation("s2c-decode-response-id:"+kind, map[string]any{"want": reqID, "got": fmt.Sprintf("%+v", back)})
				break
			}
			var res jsonrpc.SendResult
			if e := json.Unmarshal(g.Result, &res); e != nil {
				r.Violation("s2c-result-not-sendresult", map[string]any{"doc": c24Trunc(data), "err": e.Error()})
				break
			}
			id, perr := strconv.ParseInt(res.MessageID, 10, 64)
			if perr != nil {
				r.Violation("s2c-wrong-json-type:SENDACK.messageId", res.MessageID)
			}
			got := &frame.SendackPacket{MessageID: id, MessageSeq: res.MessageSeq, ReasonCode: frame.ReasonCode(res.ReasonCode)}
			if res.Header != nil {
				got.Framer = *res.Header.ToProto()
			}
			tdiffs = c24DiffSendack(w, got)
		case *frame.RecvPacket:
			n, isN := back.(jsonrpc.RecvNotification)
			if !isN {
				r.Violation("s2c-decode-wrong-type:RECV", fmt.Sprintf("%T", back))
				break
			}
			p := n.Params
			id, e1 := strconv.ParseInt(p.MessageID, 10, 64)
			sid, e2 := strconv.ParseUint(p.StreamID, 10, 64)
			if e1 != nil || e2 != nil {
				r.Violation("s2c-wrong-json-type:RECV.messageId/streamId", map[string]any{"messageId": p.MessageID, "streamId": p.StreamID})
			}
			got := &frame.RecvPacket{MsgKey: p.MsgKey, Expire: p.Expire, MessageID: id, MessageSeq: p.MessageSeq, ClientMsgNo: p.ClientMsgNo,
				StreamNo: p.StreamNo, StreamId: sid, StreamFlag: frame.StreamFlag(p.StreamFlag), Timestamp: p.Timestamp, ChannelID: p.ChannelID,
				ChannelType: uint8(p.ChannelType), Topic: p.Topic, FromUID: p.FromUID, Payload: p.Payload}
			if p.Header != nil {
				got.Framer = *p.Header.ToProto()
			}
			if p.Setting != nil {
				got.Setting = p.Setting.ToProto()
			}
			tdiffs = c24DiffRecv(w, got)
		case *frame.EventPacket:
			n, isN := back.(jsonrpc.EventNotification)
			if !isN {
				r.Violation("s2c-decode-wrong-type:EVENT", fmt.Sprintf("%T", back))
				break
			}
			got := &frame.EventPacket{Id: n.Params.ID, Type: n.Params.Type, Timestamp: n.Params.Timestamp, Data: []byte(n.Params.Data)}
			if n.Params.Header != nil {
				got.Framer = *n.Params.Header.ToProto()
			}
			tdiffs = c24DiffEvent(w, got)
		case *frame.DisconnectPacket:
			n, isN := back.(jsonrpc.DisconnectNotification)
			if !isN {
				r.Violation("s2c-decode-wrong-type:DISCONNECT", fmt.Sprintf("%T", back))
				break
			}
			tdiffs = c24DiffDisconnect(w, jsonrpc.DisconnectParams(n.Params).ToProto())
		case *frame.PongPacket:
			h.count("s2c.pong_accepted_by_jsonrpc.Decode")
		}
		for _, d := range tdiffs {
			r.Violation("s2c-field-mismatch:"+kind+"."+d, map[string]any{"frame": fmt.Sprintf("%+v", f), "doc": c24Trunc(data), "via": "jsonrpc.Decode+typed-members"})
		}
		// whatever Decode returned, ToFrame returns a frame or an error
		r.Guard("ToFrame:s2c:"+kind, c24Trunc(data), func() {
			fr, _, e := jsonrpc.ToFrame(back)
			if (fr == nil) == (e == nil) {
				r.Violation("toframe-neither-frame-nor-error", fmt.Sprintf("%T", back))
			}
		})
	}

	// --- gateway adapter adds no translation on the outbound side
	var adOut []byte
	var adErr error
	if !r.Guard("Adapter.Encode:"+kind, nil, func() {
		adOut, adErr = h.ad.Encode(testkit.NewProtocolSession(), f, session.OutboundMeta{ReplyToken: reqID})
	}) {
		if adErr != nil || !bytes.Equal(adOut, data) {
			r.Violation("adapter-encode-differs-from-bridge:"+kind, map[string]any{"adapter": c24Trunc(adOut), "bridge": c24Trunc(data), "err": fmt.Sprint(adErr)})
		}
	}
	return data, true
}

// ---------------------------------------------------------------------------
// client -> server

type c24C2S struct {
	kind   string // CONNECT, SEND, PING, DISCONNECT, RECVACK
	method string
	f      frame.Frame
	ack    frame.Frame // frame whose response carries the id back (nil for none)
	ackK   string
}

func (h *c24H) genC2S(rng *rand.Rand) c24C2S {
	switch rng.IntN(10) {
	case 0, 1, 2:
		return c24C2S{"CONNECT", "connect", c24GenConnect(rng), c24GenConnack(rng), "CONNACK"}
	case 3, 4, 5, 6:
		return c24C2S{"SEND", "send", c24GenSend(rng), c24GenSendack(rng), "SENDACK"}
	case 7:
		return c24C2S{"PING", "ping", &frame.PingPacket{Framer: c24GenFramer(rng, frame.PING)}, &frame.PongPacket{}, "PONG"}
	case 8:
		return c24C2S{"DISCONNECT", "disconnect", c24GenDisconnect(rng), nil, ""}
	}
	return c24C2S{"RECVACK", "recvack", c24GenRecvack(rng), nil, ""}
}

// c24TypedMessage renders the frame through the package's own request types
// (the frame->params mapping is the harness's, per the documented table).
func c24TypedMessage(c c24C2S, id string) any {
	base := jsonrpc.BaseRequest{Jsonrpc: "2.0", Method: c.method, ID: id}
	hdr := func(f frame.Framer) jsonrpc.Header {
		return jsonrpc.Header{NoPersist: f.NoPersist, RedDot: f.RedDot, SyncOnce: f.SyncOnce, Dup: f.DUP, End: f.End}
	}
	set := func(s frame.Setting) jsonrpc.SettingFlags {
		return jsonrpc.SettingFlags{Receipt: s&frame.SettingReceiptEnabled != 0, Signal: s&frame.SettingSignal != 0,
			Stream: s&frame.SettingStream != 0, Topic: s&frame.SettingTopic != 0}
	}
	switch f := c.f.(type) {
	case *frame.ConnectPacket:
		return jsonrpc.ConnectRequest{BaseRequest: base, Params: jsonrpc.ConnectParams{Header: hdr(f.Framer), Version: int(f.Version), ClientKey: f.ClientKey,
			DeviceID: f.DeviceID, DeviceFlag: jsonrpc.DeviceFlagEnum(f.DeviceFlag), ClientTimestamp: f.ClientTimestamp, UID: f.UID, Token: f.Token}}
	case *frame.SendPacket:
		return jsonrpc.SendRequest{BaseRequest: base, Params: jsonrpc.SendParams{Header: hdr(f.Framer), Setting: set(f.Setting), MsgKey: f.MsgKey, Expire: f.Expire,
			ClientMsgNo: f.ClientMsgNo, StreamNo: f.StreamNo, ChannelID: f.ChannelID, ChannelType: int(f.ChannelType), Topic: f.Topic, Payload: f.Payload}}
	case *frame.PingPacket:
		return jsonrpc.PingRequest{BaseRequest: base}
	case *frame.DisconnectPacket:
		return jsonrpc.DisconnectRequest{BaseRequest: base, Params: jsonrpc.DisconnectParams{ReasonCode: jsonrpc.ReasonCodeEnum(f.ReasonCode), Reason: f.Reason}}
	case *frame.RecvackPacket:
		return jsonrpc.RecvAckNotification{BaseNotification: jsonrpc.BaseNotification{Jsonrpc: "2.0", Method: c.method},
			Params: jsonrpc.RecvAckParams{Header: hdr(f.Framer), MessageID: strconv.FormatInt(f.MessageID, 10), MessageSeq: f.MessageSeq}}
	}
	return nil
}

// c24IndepDoc renders the frame as an independent document.
func c24IndepDoc(rng *rand.Rand, c c24C2S, id string) c24ObjT {
	idp := &id
	switch f := c.f.(type) {
	case *frame.ConnectPacket:
		return c24Envelope(rng, c.method, idp, c24ConnectParamsDoc(rng, f), true)
	case *frame.SendPacket:
		return c24Envelope(rng, c.method, idp, c24SendParamsDoc(rng, f), true)
	case *frame.PingPacket:
		switch rng.IntN(3) {
		case 0:
			return c24Envelope(rng, c.method, idp, nil, false) // protocol.md minimal example: no params
		case 1:
			return c24Envelope(rng, c.method, idp, nil, true) // "params": null
		}
		return c24Envelope(rng, c.method, idp, c24ObjT{}, true) // "params": {}
	case *frame.DisconnectPacket:
		return c24Envelope(rng, c.method, idp, c24DisconnectParamsDoc(rng, f), true)
	case *frame.RecvackPacket:
		return c24Envelope(rng, c.method, nil, c24RecvackParamsDoc(rng, f), true)
	}
	return nil
}

func c24DiffC2S(c c24C2S, got frame.Frame) ([]string, bool) {
	switch w := c.f.(type) {
	case *frame.ConnectPacket:
		g, ok := got.(*frame.ConnectPacket)
		if !ok || g == nil {
			return nil, false
		}
		return c24DiffConnect(w, g), true
	case *frame.SendPacket:
		g, ok := got.(*frame.SendPacket)
		if !ok || g == nil {
			return nil, false
		}
		return c24DiffSend(w, g), true
	case *frame.PingPacket:
		g, ok := got.(*frame.PingPacket)
		return nil, ok && g != nil
	case *frame.DisconnectPacket:
		g, ok := got.(*frame.DisconnectPacket)
		if !ok || g == nil {
			return nil, false
		}
		return c24DiffDisconnect(w, g), true
	case *frame.RecvackPacket:
		g, ok := got.(*frame.RecvackPacket)
		if !ok || g == nil {
			return nil, false
		}
		return c24DiffRecvack(w, g), true
	}
	return nil, false
}

func (h *c24H) c2s(rng *rand.Rand, c c24C2S, id, idClass string, style string) {
	r := h.r
	var data []byte
	if style == "typed" {
		msg := c24TypedMessage(c, id)
		var err error
		if r.Guard("Encode:"+c.kind, fmt.Sprintf("%+v", msg), func() { data, err = jsonrpc.Encode(msg) }) {
			return
		}
		if err != nil {
			r.Violation("c2s-encode-error:"+c.kind, err.Error())
			return
		}
	} else {
		data = c24Render(c24IndepDoc(rng, c, id), &c24RenderOpt{rng: rng, ws: rng.IntN(2) == 0, uescape: rng.IntN(2) == 0, shuffle: rng.IntN(2) == 0})
		if !json.Valid(data) {
			panic("c24 harness bug: independent renderer produced invalid JSON: " + c24Trunc(data))
		}
	}
	isRequest := c.kind != "RECVACK"
	// The typed request structs drop an empty id (omitempty): the document is
	// then a notification with a request-only method, which Decode may reject.
	idOnWire := isRequest && !(style == "typed" && id == "")

	var msg any
	var err error
	if r.Guard("Decode:c2s:"+c.kind, c24Trunc(data), func() { msg, _, err = jsonrpc.Decode(json.NewDecoder(bytes.NewReader(data))) }) {
		return
	}
	if err != nil {
		if isRequest && !idOnWire {
			if c.kind == "DISCONNECT" { // disconnect without id is the documented notification form
				r.Violation("c2s-decode-rejects-valid:"+c.kind, map[string]any{"doc": c24Trunc(data), "err": err.Error(), "style": style})
			}
			h.count("c2s.request_without_id_rejected(observed only)")
			return
		}
		r.Violation("c2s-decode-rejects-valid:"+c.kind, map[string]any{"doc": c24Trunc(data), "err": err.Error(), "style": style})
		return
	}
	if msg == nil {
		r.Violation("decode-nil-message-nil-error", c24Trunc(data))
		return
	}
	var got frame.Frame
	var gotID string
	if r.Guard("ToFrame:c2s:"+c.kind, c24Trunc(data), func() { got, gotID, err = jsonrpc.ToFrame(msg) }) {
		return
	}
	if !idOnWire && isRequest {
		// disconnect notification form: Decode yields DisconnectNotification, which ToFrame does not bridge.
		h.count("c2s.idless_" + c.kind + map[bool]string{true: "_toframe_error", false: "_toframe_ok"}[err != nil])
		return
	}
	if err != nil || got == nil {
		r.Violation("c2s-toframe-rejects-valid:"+c.kind, map[string]any{"doc": c24Trunc(data), "err": fmt.Sprint(err), "msg": fmt.Sprintf("%T", msg)})
		return
	}
	diffs, typeOK := c24DiffC2S(c, got)
	if !typeOK {
		r.Violation("c2s-wrong-frame-type:"+c.kind, map[string]any{"doc": c24Trunc(data), "got": fmt.Sprintf("%T", got)})
		return
	}
	if got.GetFrameType() != c.f.GetFrameType() {
		r.Violation("c2s-wrong-frame-type:"+c.kind, map[string]any{"got": fmt.Sprint(got.GetFrameType())})
	}
	for _, d := range diffs {
		r.Violation("c2s-field-mismatch:"+c.kind+"."+d, map[string]any{"frame": fmt.Sprintf("%+v", c.f), "got": fmt.Sprintf("%+v", got), "doc": c24Trunc(data), "style": style})
	}
	wantID := id
	if !isRequest {
		wantID = ""
	}
	if gotID != wantID {
		r.Violation("c2s-id-changed:"+c.kind, map[string]any{"want": wantID, "got": gotID, "class": idClass, "doc": c24Trunc(data)})
	}
	h.count("c2s.ok." + c.kind + "." + style)

	// --- the id travels back on the acknowledgement
	if c.ack != nil {
		h.s2c(c.ackK, c.ack, gotID, idClass)
	}

	// --- JSON -> frame -> JSON where the API composes (DISCONNECT is the only
	// type accepted by ToFrame *and* produced by FromFrame).
	if w, isDisc := c.f.(*frame.DisconnectPacket); isDisc {
		if enc, ok := h.s2c("DISCONNECT", got, "", "n/a"); ok {
			tree, _ := c24Parse(enc)
			doc, _ := tree.(c24ObjT)
			rd := &c24Rd{}
			p := rd.obj(doc, "params")
			if rd.i64(p, "reasonCode") != int64(w.ReasonCode) || rd.str(p, "reason") != w.Reason || len(rd.errs) > 0 {
				r.Violation("json-frame-json-mismatch:DISCONNECT", map[string]any{"in": c24Trunc(data), "out": c24Trunc(enc)})
			}
			h.count("json_frame_json.DISCONNECT")
		}
	}

	// --- through the gateway adapter: same frame, same reply token, exact consumption
	sess := testkit.NewProtocolSession()
	_ = h.ad.OnOpen(sess)
	var frames []frame.Frame
	var consumed int
	var aerr error
	in := append([]byte(nil), data...)
	if r.Guard("Adapter.Decode:"+c.kind, c24Trunc(data), func() { frames, consumed, aerr = h.ad.Decode(sess, in) }) {
		return
	}
	if aerr != nil || len(frames) != 1 || consumed != len(data) {
		r.Violation("adapter-decode-differs-from-bridge:"+c.kind, map[string]any{"doc": c24Trunc(data), "err": fmt.Sprint(aerr), "frames": len(frames), "consumed": consumed, "len": len(data)})
		return
	}
	if !reflect.DeepEqual(frames[0], got) {
		r.Violation("adapter-decode-differs-from-bridge:"+c.kind, map[string]any{"adapter": fmt.Sprintf("%+v", frames[0]), "bridge": fmt.Sprintf("%+v", got)})
	}
	// OwnsDecodedFrames: decoded frames must not alias the input buffer
	for i := range in {
		in[i] ^= 0xff
	}
	if !reflect.DeepEqual(frames[0], got) {
		r.Violation("adapter-frame-aliases-input:"+c.kind, c24Trunc(data))
	}
	toks := h.ad.TakeReplyTokens(sess, 1)
	switch {
	case wantID == "":
		if len(toks) != 0 {
			r.Violation("adapter-reply-token-invented:"+c.kind, toks)
		}
	case len(toks) != 1 || toks[0] != wantID:
		r.Violation("adapter-reply-token-changed:"+c.kind, map[string]any{"want": wantID, "got": toks, "class": idClass})
	default:
		h.count("adapter.reply_token_same")
	}
	_ = h.ad.OnClose(sess)
}

// ---------------------------------------------------------------------------
// non-string ids

var c24NumericIDs = []string{"0", "1", "-1", "123", "1.5", "1e3", "9007199254740993", "12345678901234567890", "-0", "0.0", "1E400", "true", "false", "[1]", `{"a":1}`, `["x"]`}

// numericID: protocol.md types id as string. A non-string id must be rejected,
// or - if a build accepts it - come back JSON-equal on the response (a JSON-RPC
// peer matches responses by id value *and type*; 7 re-encoded as "7" is a
// different id).
func (h *c24H) numericID(rng *rand.Rand, lit string) {
	r := h.r
	c := h.genC2S(rng)
	for c.ack == nil {
		c = h.genC2S(rng)
	}
	doc := c24IndepDoc(rng, c, "placeholder")
	for i := range doc {
		if doc[i].K == "id" {
			doc[i].V = c24Raw(lit)
		}
	}
	data := c24Render(doc, &c24RenderOpt{rng: rng})
	var msg any
	var err error
	if r.Guard("Decode:nonstring-id", c24Trunc(data), func() { msg, _, err = jsonrpc.Decode(json.NewDecoder(bytes.NewReader(data))) }) {
		return
	}
	if err != nil {
		if msg != nil {
			r.Violation("decode-message-and-error", c24Trunc(data))
		}
		h.count("id.nonstring_rejected")
		return
	}
	var tok string
	var fr frame.Frame
	if r.Guard("ToFrame:nonstring-id", c24Trunc(data), func() { fr, tok, err = jsonrpc.ToFrame(msg) }) {
		return
	}
	if err != nil || fr == nil {
		h.count("id.nonstring_rejected_by_toframe")
		return
	}
	h.count("id.nonstring_accepted")
	var out []byte
	r.Guard("FromFrame:nonstring-id", tok, func() {
		m, e := jsonrpc.FromFrame(tok, c.ack)
		if e == nil {
			out, _ = jsonrpc.Encode(m)
		}
	})
	tree, _ := c24Parse(out)
	rdoc, _ := tree.(c24ObjT)
	idv, _ := rdoc.get("id")
	want, _ := c24Parse([]byte(lit))
	if !reflect.DeepEqual(idv, want) {
		// compare numerically-equal literals leniently (1e3 vs 1000) -- different type is what matters
		_, wasRaw := want.(c24Raw)
		_, isRaw := idv.(c24Raw)
		if !(wasRaw && isRaw && c24SameNumber(string(want.(c24Raw)), string(idv.(c24Raw)))) {
			r.Violation("id-retyped-across-bridge", map[string]any{"request_id_json": lit, "response": c24Trunc(out)})
		}
	}
}

func c24SameNumber(a, b string) bool {
	fa, ea := strconv.ParseFloat(a, 64)
	fb, eb := strconv.ParseFloat(b, 64)
	return ea == nil && eb == nil && fa == fb
}

// ---------------------------------------------------------------------------
// wsmux: first-packet sniffing with both kinds

func (h *c24H) wsmuxCase(rng *rand.Rand) {
	r := h.r
	mux := h.mux
	conn := c24GenConnect(rng)
	connack := c24GenConnack(rng)
	id, idClass := c24GenID(rng)
	if id == "" {
		id = "req-1"
	}
	if rng.IntN(2) == 0 {
		// JSON first
		sess := testkit.NewProtocolSession()
		c := c24C2S{"CONNECT", "connect", conn, connack, "CONNACK"}
		data := c24Render(c24IndepDoc(rng, c, id), &c24RenderOpt{rng: rng, ws: true})
		lead := []string{"", " ", "\n", "\t\r\n  "}[rng.IntN(4)]
		in := append([]byte(lead), data...)
		var frames []frame.Frame
		var consumed int
		var err error
		if r.Guard("wsmux.Decode:json-first", c24Trunc(in), func() { frames, consumed, err = mux.Decode(sess, in) }) {
			return
		}
		if err != nil || len(frames) != 1 || consumed != len(in) {
			r.Violation("wsmux-json-first-not-decoded", map[string]any{"doc": c24Trunc(in), "err": fmt.Sprint(err), "frames": len(frames), "consumed": consumed, "len": len(in)})
			return
		}
		if name, _ := sess.Value(gatewaytypes.SessionValueProtocolName).(string); name != gwjsonrpc.Name {
			r.Violation("wsmux-sniffed-wrong-protocol:json", name)
		}
		if d, ok := c24DiffC2S(c, frames[0]); !ok || len(d) > 0 {
			r.Violation("wsmux-json-frame-mismatch", map[string]any{"diff": d, "got": fmt.Sprintf("%+v", frames[0])})
		}
		toks := mux.TakeReplyTokens(sess, 1)
		if len(toks) != 1 || toks[0] != id {
			r.Violation("wsmux-reply-token-changed", map[string]any{"want": id, "got": toks, "class": idClass})
			return
		}
		var out []byte
		if r.Guard("wsmux.Encode:json", nil, func() { out, err = mux.Encode(sess, connack, session.OutboundMeta{ReplyToken: toks[0]}) }) {
			return
		}
		direct, _ := h.ad.Encode(sess, connack, session.OutboundMeta{ReplyToken: id})
		if err != nil || !bytes.Equal(out, direct) || !jsonrpc.IsJSONObjectPrefix(out) {
			r.Violation("wsmux-json-encode-differs", map[string]any{"mux": c24Trunc(out), "direct": c24Trunc(direct), "err": fmt.Sprint(err)})
		}
		// sticky: binary on a JSON session must not panic, must not switch protocol
		wire, _ := h.wk.EncodeFrame(&frame.PingPacket{}, frame.LatestVersion)
		r.Guard("wsmux.Decode:binary-on-json-session", wire, func() { _, _, _ = mux.Decode(sess, wire) })
		if name, _ := sess.Value(gatewaytypes.SessionValueProtocolName).(string); name != gwjsonrpc.Name {
			r.Violation("wsmux-protocol-switched-mid-session:json", name)
		}
		_ = mux.OnClose(sess)
		h.count("wsmux.json_first")
		return
	}
	// wkproto first
	sess := testkit.NewProtocolSession()
	if !c24ValidStrings(conn.UID) { // never: generators emit valid UTF-8
		return
	}
	if conn.Version == 0 || conn.Version > frame.LatestVersion {
		conn.Version = frame.LatestVersion
	}
	wire, err := h.wk.EncodeFrame(conn, frame.LatestVersion)
	if err != nil || len(wire) == 0 {
		h.count("wsmux.wkproto_encode_failed(skip)")
		return
	}
	var frames []frame.Frame
	var consumed int
	if r.Guard("wsmux.Decode:wkproto-first", wire, func() { frames, consumed, err = mux.Decode(sess, wire) }) {
		return
	}
	if err != nil || len(frames) != 1 || consumed != len(wire) {
		r.Violation("wsmux-wkproto-first-not-decoded", map[string]any{"err": fmt.Sprint(err), "frames": len(frames), "consumed": consumed, "len": len(wire)})
		return
	}
	if name, _ := sess.Value(gatewaytypes.SessionValueProtocolName).(string); name != gwwkproto.Name {
		r.Violation("wsmux-sniffed-wrong-protocol:wkproto", name)
	}
	g, ok := frames[0].(*frame.ConnectPacket)
	if !ok || g.UID != conn.UID || g.Token != conn.Token || g.DeviceID != conn.DeviceID || g.ClientKey != conn.ClientKey {
		r.Violation("wsmux-wkproto-frame-mismatch", map[string]any{"want": fmt.Sprintf("%+v", conn), "got": fmt.Sprintf("%+v", frames[0])})
	}
	if toks := mux.TakeReplyTokens(sess, 1); len(toks) != 0 {
		r.Violation("wsmux-wkproto-has-reply-token", toks)
	}
	var out []byte
	if r.Guard("wsmux.Encode:wkproto", nil, func() { out, err = mux.Encode(sess, connack, session.OutboundMeta{ReplyToken: id}) }) {
		return
	}
	if err != nil || len(out) == 0 || out[0]>>4 != byte(frame.CONNACK) {
		r.Violation("wsmux-wkproto-encode-not-binary-connack", map[string]any{"out": out, "err": fmt.Sprint(err)})
	}
	// sticky: JSON on a wkproto session must not panic, must not switch protocol
	js := []byte(`{"method":"ping","id":"1"}`)
	r.Guard("wsmux.Decode:json-on-wkproto-session", string(js), func() { _, _, _ = mux.Decode(sess, js) })
	if name, _ := sess.Value(gatewaytypes.SessionValueProtocolName).(string); name != gwwkproto.Name {
		r.Violation("wsmux-protocol-switched-mid-session:wkproto", name)
	}
	_ = mux.OnClose(sess)
	h.count("wsmux.wkproto_first")
}

// stream: k valid messages back to back on one adapter session decode one by
// one with exact consumption, in order.
func (h *c24H) streamCase(rng *rand.Rand) {
	r := h.r
	k := 2 + rng.IntN(5)
	var buf []byte
	var want []c24C2S
	var ids []string
	for i := 0; i < k; i++ {
		c := h.genC2S(rng)
		id := "s-" + strconv.Itoa(i)
		buf = append(buf, c24Render(c24IndepDoc(rng, c, id), &c24RenderOpt{rng: rng, ws: rng.IntN(2) == 0})...)
		buf = append(buf, []string{"", " ", "\n", "\r\n"}[rng.IntN(4)]...)
		want = append(want, c)
		if c.kind == "RECVACK" {
			id = ""
		}
		ids = append(ids, id)
	}
	sess := testkit.NewProtocolSession()
	_ = h.ad.OnOpen(sess)
	rest := buf
	for i := 0; i < k; i++ {
		var frames []frame.Frame
		var consumed int
		var err error
		if r.Guard("Adapter.Decode:stream", c24Trunc(rest), func() { frames, consumed, err = h.ad.Decode(sess, rest) }) {
			return
		}
		if err != nil || len(frames) != 1 || consumed <= 0 || consumed > len(rest) {
			r.Violation("adapter-stream-framing", map[string]any{"i": i, "err": fmt.Sprint(err), "frames": len(frames), "consumed": consumed, "rest": c24Trunc(rest)})
			return
		}
		if d, ok := c24DiffC2S(want[i], frames[0]); !ok || len(d) > 0 {
			r.Violation("adapter-stream-frame-mismatch", map[string]any{"i": i, "diff": d, "kind": want[i].kind, "got": fmt.Sprintf("%T", frames[0])})
			return
		}
		rest = rest[consumed:]
	}
	if len(bytes.TrimSpace(rest)) != 0 {
		r.Violation("adapter-stream-leftover", c24Trunc(rest))
	}
	var wantToks []string
	for _, id := range ids {
		if id != "" {
			wantToks = append(wantToks, id)
		}
	}
	toks := h.ad.TakeReplyTokens(sess, k)
	if !reflect.DeepEqual(append([]string(nil), toks...), wantToks) && !(len(toks) == 0 && len(wantToks) == 0) {
		r.Violation("adapter-stream-reply-tokens", map[string]any{"want": wantToks, "got": toks})
	}
	h.count("stream.ok")
}

// ---------------------------------------------------------------------------

func TestVerifC24Roundtrip(t *testing.T) {
	r := verifkit.Start(t, "C24", "roundtrip")
	defer r.Finish()
	r.SetRule("Case i (PRNG stream (1,i)) picks one of: s2c frame (CONNACK/SENDACK/RECV/EVENT/DISCONNECT/PONG with boundary integers, unicode/escape-heavy strings, random Framer flags and noise in non-carried members) -> FromFrame -> Encode -> {independent token-level JSON parse against the documented member table; jsonrpc.Decode + typed members} -> frame' ; c2s frame (CONNECT/SEND/PING/DISCONNECT/RECVACK) rendered as an independent document (shuffled members, optional members omitted or explicit, \\u escapes, whitespace, optional jsonrpc member) or through the package's typed request structs -> Decode -> ToFrame -> frame', then the ack frame is sent back with the reply token and the response id compared; non-string ids; adapter stream framing; wsmux first-packet sniffing. Non-trivial = a case with at least one non-zero carried member or a non-ascii/empty id; distinct by (direction, frame kind, render style, id class, flag mask, set of non-zero optional members, payload length class).")
	r.Assume("String members hold valid UTF-8 (JSON cannot carry other byte strings); EVENT.Data with invalid UTF-8 is generated but its data member is not asserted.")
	r.Assume("Equivalence = equality on the members listed in notes.carried_fields; wire-level Framer members, ClientSeq and non-schema Setting bits are filled with noise and ignored.")
	r.Note("carried_fields", c24Carried)

	h := c24NewH(r)
	defer h.flush()
	n := r.N(50_000, 500_000)
	for i := 0; i < n; i++ {
		if r.Skip(i) {
			continue
		}
		rng := r.Rand(1, uint64(i))
		h.rng = rng
		sel := rng.IntN(100)
		switch {
		case sel < 40: // server -> client
			id, idClass := c24GenID(rng)
			var kind string
			var f frame.Frame
			shape := ""
			switch rng.IntN(8) {
			case 0, 1:
				x := c24GenConnack(rng)
				kind, f = "CONNACK", x
				shape = fmt.Sprintf("f%d|%t%t%t%t", c24FlagMask(x.Framer), x.ServerKey != "", x.Salt != "", x.TimeDiff != 0, x.NodeId != 0)
			case 2, 3:
				x := c24GenSendack(rng)
				kind, f = "SENDACK", x
				shape = fmt.Sprintf("f%d|%t%t%t", c24FlagMask(x.Framer), x.MessageID < 0, x.MessageSeq > 1<<53, x.ReasonCode != 0)
			case 4, 5:
				x := c24GenRecv(rng)
				kind, f = "RECV", x
				shape = fmt.Sprintf("f%d|s%d|%t%t%t%t%t|p%d", c24FlagMask(x.Framer), x.Setting&c24SettingCarried, x.MsgKey != "", x.ClientMsgNo != "", x.StreamNo != "", x.Topic != "", x.Expire != 0, c24LenClass(len(x.Payload)))
			case 6:
				x := c24GenEvent(rng)
				kind, f = "EVENT", x
				shape = fmt.Sprintf("f%d|%t%t%t", c24FlagMask(x.Framer), x.Id != "", x.Type != "", utf8.Valid(x.Data))
			default:
				if rng.IntN(2) == 0 {
					x := c24GenDisconnect(rng)
					kind, f = "DISCONNECT", x
					shape = fmt.Sprintf("%t", x.Reason != "")
				} else {
					kind, f = "PONG", &frame.PongPacket{Framer: c24GenFramer(rng, frame.PONG)}
				}
			}
			r.BeginCase(i, "s2c "+kind+" id="+idClass)
			r.Eval(1)
			if _, ok := h.s2c(kind, f, id, idClass); ok {
				h.count("s2c.ok." + kind)
			}
			r.Nontrivial("s2c|" + kind + "|" + idClass + "|" + shape)
			if r.WantSample() && i%997 == 5 {
				m, _ := jsonrpc.FromFrame(id, f)
				b, _ := jsonrpc.Encode(m)
				r.Sample(map[string]any{"dir": "s2c", "kind": kind, "id": id, "frame": fmt.Sprintf("%+v", f), "json": c24Trunc(b)})
			}
		case sel < 90: // client -> server (+ id echo on the ack)
			c := h.genC2S(rng)
			id, idClass := c24GenID(rng)
			style := "indep"
			if rng.IntN(3) == 0 {
				style = "typed"
			}
			r.BeginCase(i, "c2s "+c.kind+" "+style+" id="+idClass)
			r.Eval(1)
			h.c2s(rng, c, id, idClass, style)
			shape := ""
			switch x := c.f.(type) {
			case *frame.ConnectPacket:
				shape = fmt.Sprintf("f%d|%t%t%t%t%t", c24FlagMask(x.Framer), x.Version == 0, x.ClientKey != "", x.DeviceID != "", x.DeviceFlag != 0, x.ClientTimestamp != 0)
			case *frame.SendPacket:
				shape = fmt.Sprintf("f%d|s%d|%t%t%t%t%t|p%d", c24FlagMask(x.Framer), x.Setting&c24SettingCarried, x.MsgKey != "", x.ClientMsgNo != "", x.StreamNo != "", x.Topic != "", x.Expire != 0, c24LenClass(len(x.Payload)))
			case *frame.RecvackPacket:
				shape = fmt.Sprintf("f%d|%t%t", c24FlagMask(x.Framer), x.MessageID < 0, x.MessageSeq > 1<<53)
			case *frame.DisconnectPacket:
				shape = fmt.Sprintf("%t", x.Reason != "")
			}
			r.Nontrivial("c2s|" + c.kind + "|" + style + "|" + idClass + "|" + shape)
			if r.WantSample() && i%997 == 11 && style == "indep" {
				r.Sample(map[string]any{"dir": "c2s", "kind": c.kind, "id": id, "frame": fmt.Sprintf("%+v", c.f), "json": c24Trunc(c24Render(c24IndepDoc(rng, c, id), &c24RenderOpt{rng: rng}))})
			}
		case sel < 93:
			lit := c24NumericIDs[rng.IntN(len(c24NumericIDs))]
			r.BeginCase(i, "non-string id "+lit)
			r.Eval(1)
			h.numericID(rng, lit)
			r.Nontrivial("nonstring-id|" + lit)
		case sel < 97:
			r.BeginCase(i, "wsmux sniff")
			r.Eval(1)
			h.wsmuxCase(rng)
			r.Nontrivial("wsmux|" + strconv.Itoa(i%16))
		default:
			r.BeginCase(i, "adapter stream")
			r.Eval(1)
			h.streamCase(rng)
			r.Nontrivial("stream|" + strconv.Itoa(i%16))
		}
	}
}

func c24LenClass(n int) int {
	switch {
	case n == 0:
		return 0
	case n < 16:
		return 1
	case n < 100:
		return 2
	case n < 1000:
		return 3
	}
	return 4
}
