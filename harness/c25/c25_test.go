//go:build verif

package c25

// C25 -- end-to-end payload encryption is correct and tamper-evident.
//
// Clauses of the statement and where they are asserted:
//   (1) "both derive the same keys"            -> negotiate(): server side NegotiateServerSession / the real
//        gateway WKProto authenticator vs client side DeriveClientSession / testkit.WKProtoClient.
//   (2) "decrypting an encrypted payload returns the original bytes for every payload"
//                                              -> roundtrip(): lengths 0..4*16+1 exhaustively + PRNG lengths to 64 KiB,
//        plain-keys and cached-SessionCrypto variants, protocol and gateway packages, crossed between the two sides;
//        plus equality with a standard-library AES-CBC/PKCS7 reference (the stated mechanism; what SDKs implement).
//   (3) "a SEND whose payload or message key was altered fails validation instead of being accepted"
//                                              -> tamper(): every single-bit flip of the wire payload, of the raw
//        ciphertext, of MsgKey and of each header member the key covers; also through wkproto Adapter.Decode on an
//        encrypted testkit session (cached-crypto and keys-only sessions).
//
// Which members the key covers is read from wkprotoenc.SendMsgKeyWithCrypto and frame.SendPacket.VerityString:
//   decimal(ClientSeq) ++ ClientMsgNo ++ ChannelID ++ decimal(ChannelType) ++ Payload(as on the wire: base64 ciphertext)
// Not covered by design (flipped, observed, listed in evidence, not asserted): Setting, Expire, StreamNo, Topic,
// Framer flags. CBC bit flips may still decrypt to *something*; what is asserted is that validation (MsgKey) fails.

import (
	"bytes"
	"crypto/aes"
	"crypto/cipher"
	"crypto/md5"
	"encoding/base64"
	"encoding/hex"
	"errors"
	"fmt"
	"math/rand/v2"
	"strconv"
	"strings"
	"sync"
	"testing"
	"time"

	"github.com/WuKongIM/WuKongIM/pkg/gateway"
	gwwkproto "github.com/WuKongIM/WuKongIM/pkg/gateway/protocol/wkproto"
	"github.com/WuKongIM/WuKongIM/pkg/gateway/session"
	"github.com/WuKongIM/WuKongIM/pkg/gateway/testkit"
	gatewaytypes "github.com/WuKongIM/WuKongIM/pkg/gateway/types"
	genc "github.com/WuKongIM/WuKongIM/pkg/gateway/wkprotoenc"
	"github.com/WuKongIM/WuKongIM/pkg/protocol/codec"
	"github.com/WuKongIM/WuKongIM/pkg/protocol/frame"
	penc "github.com/WuKongIM/WuKongIM/pkg/protocol/wkprotoenc"
	"github.com/WuKongIM/WuKongIM/pkg/verifkit"
	"golang.org/x/crypto/curve25519"
)

const c25BS = aes.BlockSize

// ---------------------------------------------------------------------------
// Reference implementation (standard library only): what a client SDK does.

func c25RefPad(p []byte) []byte {
	n := c25BS - len(p)%c25BS
	out := make([]byte, len(p)+n)
	copy(out, p)
	for i := len(p); i < len(out); i++ {
		out[i] = byte(n)
	}
	return out
}

func c25RefEncryptRaw(p, key, iv []byte) []byte {
	blk, err := aes.NewCipher(key[:16])
	if err != nil {
		panic(err)
	}
	buf := c25RefPad(p)
	cipher.NewCBCEncrypter(blk, iv[:16]).CryptBlocks(buf, buf)
	return buf
}

func c25RefEncrypt(p, key, iv []byte) []byte {
	return []byte(base64.StdEncoding.EncodeToString(c25RefEncryptRaw(p, key, iv)))
}

func c25RefSigned(s *frame.SendPacket) []byte {
	var b []byte
	b = strconv.AppendUint(b, s.ClientSeq, 10)
	b = append(b, s.ClientMsgNo...)
	b = append(b, s.ChannelID...)
	b = strconv.AppendUint(b, uint64(s.ChannelType), 10)
	b = append(b, s.Payload...)
	return b
}

func c25RefMsgKey(signed, key, iv []byte) string {
	sum := md5.Sum(c25RefEncrypt(signed, key, iv))
	return hex.EncodeToString(sum[:])
}

// ---------------------------------------------------------------------------

type c25Sess struct {
	idx        int
	serverKeys penc.SessionKeys
	clientKeys penc.SessionKeys
	serverSC   *penc.SessionCrypto
	clientSC   *penc.SessionCrypto
	values     map[string]any // session values as produced by the real authenticator (nil if not negotiated through it)
}

type c25H struct {
	r   *verifkit.Run
	mu  sync.Mutex
	cnt map[string]int
	ad  *gwwkproto.Adapter
	wk  *codec.WKProto
}

func (h *c25H) count(k string, n int) { h.mu.Lock(); h.cnt[k] += n; h.mu.Unlock() }
func (h *c25H) flush() {
	for k, v := range h.cnt {
		h.r.Count(k, v)
	}
}

func c25RandBytes(rng *rand.Rand, n int) []byte {
	b := make([]byte, n)
	for i := 0; i+8 <= n; i += 8 {
		v := rng.Uint64()
		for j := 0; j < 8; j++ {
			b[i+j] = byte(v >> (8 * j))
		}
	}
	for i := n &^ 7; i < n; i++ {
		b[i] = byte(rng.Uint32())
	}
	return b
}

func c25KeysEqual(a, b penc.SessionKeys) bool {
	return bytes.Equal(a.AESKey, b.AESKey) && bytes.Equal(a.AESIV, b.AESIV)
}

// negotiate runs one key agreement; returns nil if it could not complete (already reported).
func (h *c25H) negotiate(i int, rng *rand.Rand) *c25Sess {
	r := h.r
	s := &c25Sess{idx: i}
	serverStyle := rng.IntN(3) // 0 protocol pkg, 1 gateway wrapper, 2 real authenticator
	clientStyle := rng.IntN(4) // 0 PRNG private key, 1 GenerateKeyPair, 2 edge private key, 3 testkit.WKProtoClient (needs authenticator)
	if clientStyle == 3 {
		serverStyle = 2
	}
	desc := fmt.Sprintf("server=%d client=%d", serverStyle, clientStyle)

	var priv, pub [32]byte
	var tkClient *testkit.WKProtoClient
	switch clientStyle {
	case 0:
		copy(priv[:], c25RandBytes(rng, 32))
	case 1:
		var gp [32]byte
		var err error
		if rng.IntN(2) == 0 {
			priv, gp, err = penc.GenerateKeyPair()
		} else {
			priv, gp, err = genc.GenerateKeyPair()
		}
		if err != nil {
			r.Inconclusive("GenerateKeyPair: " + err.Error())
			return nil
		}
		want, _ := curve25519.X25519(priv[:], curve25519.Basepoint)
		if !bytes.Equal(want, gp[:]) {
			r.Violation("keypair-public-not-x25519-of-private", map[string]any{"priv": hex.EncodeToString(priv[:]), "pub": hex.EncodeToString(gp[:])})
		}
	case 2:
		edges := [][32]byte{{}, {}, {}, {}}
		for j := range edges[1] {
			edges[1][j] = 0xff
		}
		edges[2][0] = 1
		edges[3][31] = 0x80
		priv = edges[rng.IntN(4)]
	case 3:
		var err error
		tkClient, err = testkit.NewWKProtoClient()
		if err != nil {
			r.Inconclusive("testkit.NewWKProtoClient: " + err.Error())
			return nil
		}
	}
	if tkClient == nil {
		p, err := curve25519.X25519(priv[:], curve25519.Basepoint)
		if err != nil {
			r.Inconclusive("harness X25519: " + err.Error())
			return nil
		}
		copy(pub[:], p)
	}

	var serverPub, salt string
	var err error
	switch serverStyle {
	case 0, 1:
		clientKey := penc.EncodePublicKey(pub)
		if serverStyle == 1 {
			clientKey = genc.EncodePublicKey(pub)
		}
		if r.Guard("NegotiateServerSession", clientKey, func() {
			if serverStyle == 0 {
				s.serverKeys, serverPub, err = penc.NegotiateServerSession(clientKey)
			} else {
				s.serverKeys, serverPub, err = genc.NegotiateServerSession(clientKey)
			}
		}) {
			return nil
		}
		if err != nil {
			r.Violation("negotiate-rejects-valid-client-key", map[string]any{"clientKey": clientKey, "err": err.Error(), "desc": desc})
			return nil
		}
		salt = string(s.serverKeys.AESIV) // what the authenticator puts into CONNACK.Salt
	case 2:
		auth := gateway.NewWKProtoAuthenticator(gateway.WKProtoAuthOptions{EncryptionEnabled: true, NodeID: 7, Now: func() time.Time { return time.Unix(1_700_000_000, 0) }})
		connect := &frame.ConnectPacket{Version: frame.LatestVersion, UID: "u" + strconv.Itoa(i), Token: "t", DeviceID: "d", ClientTimestamp: 1}
		if tkClient != nil {
			connect, _ = tkClient.UseClientKey(connect)
		} else {
			connect.ClientKey = penc.EncodePublicKey(pub)
		}
		var res *gateway.AuthResult
		if r.Guard("Authenticator.Authenticate", connect.ClientKey, func() { res, err = auth.Authenticate(nil, connect) }) {
			return nil
		}
		if err != nil || res == nil || res.Connack == nil || res.Connack.ReasonCode != frame.ReasonSuccess {
			r.Violation("authenticator-rejects-valid-client-key", map[string]any{"clientKey": connect.ClientKey, "err": fmt.Sprint(err), "desc": desc})
			return nil
		}
		serverPub, salt = res.Connack.ServerKey, res.Connack.Salt
		s.values = res.SessionValues
		k, _ := res.SessionValues[gateway.SessionValueAESKey].([]byte)
		iv, _ := res.SessionValues[gateway.SessionValueAESIV].([]byte)
		s.serverKeys = penc.SessionKeys{AESKey: k, AESIV: iv}
		if sc, _ := res.SessionValues[gateway.SessionValueCrypto].(*penc.SessionCrypto); sc != nil {
			s.serverSC = sc
		}
		if tkClient != nil {
			if err := tkClient.ApplyConnack(res.Connack); err != nil {
				r.Violation("client-derive-rejects-server-answer", map[string]any{"serverKey": serverPub, "salt": salt, "err": err.Error(), "desc": desc})
				return nil
			}
			s.clientKeys = tkClient.Keys()
		}
	}
	if tkClient == nil {
		if r.Guard("DeriveClientSession", map[string]any{"serverKey": serverPub, "salt": salt}, func() {
			if rng.IntN(2) == 0 {
				s.clientKeys, err = penc.DeriveClientSession(priv, serverPub, salt)
			} else {
				s.clientKeys, err = genc.DeriveClientSession(priv, serverPub, salt)
			}
		}) {
			return nil
		}
		if err != nil {
			r.Violation("client-derive-rejects-server-answer", map[string]any{"serverKey": serverPub, "salt": salt, "err": err.Error(), "desc": desc})
			return nil
		}
	}

	// (1) same keys on both sides
	if !c25KeysEqual(s.serverKeys, s.clientKeys) {
		what := "aes-key"
		if bytes.Equal(s.serverKeys.AESKey, s.clientKeys.AESKey) {
			what = "aes-iv"
		}
		r.Violation("session-keys-differ:"+what, map[string]any{"server_key": string(s.serverKeys.AESKey), "client_key": string(s.clientKeys.AESKey),
			"server_iv": string(s.serverKeys.AESIV), "client_iv": string(s.clientKeys.AESIV), "desc": desc})
		return nil
	}
	if len(s.serverKeys.AESKey) < c25BS || len(s.serverKeys.AESIV) < c25BS {
		r.Violation("session-keys-too-short", map[string]any{"key_len": len(s.serverKeys.AESKey), "iv_len": len(s.serverKeys.AESIV), "desc": desc})
		return nil
	}
	// observed only: documented derivation (learned from deriveAESKey): first 16 hex chars of md5(base64(X25519 secret))
	if tkClient == nil {
		if sp, e := penc.DecodePublicKey(serverPub); e == nil {
			if secret, e := curve25519.X25519(priv[:], sp[:]); e == nil {
				sum := md5.Sum([]byte(base64.StdEncoding.EncodeToString(secret)))
				if hex.EncodeToString(sum[:])[:16] == string(s.serverKeys.AESKey) {
					h.count("negotiate.aeskey_matches_md5_base64_secret_derivation(observed)", 1)
				} else {
					h.count("negotiate.aeskey_DIFFERS_from_md5_base64_secret_derivation(observed)", 1)
				}
			}
		}
	}
	if s.serverSC == nil {
		s.serverSC, err = penc.NewSessionCrypto(s.serverKeys)
		if err != nil {
			r.Violation("session-crypto-rejects-negotiated-keys", err.Error())
			return nil
		}
	}
	if rng.IntN(2) == 0 {
		s.clientSC, err = penc.NewSessionCrypto(s.clientKeys)
	} else {
		s.clientSC, err = genc.NewSessionCrypto(s.clientKeys)
	}
	if err != nil {
		r.Violation("session-crypto-rejects-negotiated-keys", err.Error())
		return nil
	}
	h.count(fmt.Sprintf("negotiate.ok.server_style_%d.client_style_%d", serverStyle, clientStyle), 1)
	r.Nontrivial("negotiate|" + desc + "|" + strconv.Itoa(i%64))
	return s
}

// hostileClientKey: a hostile CONNECT.ClientKey gives an error or keys, never a panic.
func (h *c25H) hostileClientKey(rng *rand.Rand) {
	var key string
	kind := rng.IntN(7)
	switch kind {
	case 0:
		key = base64.StdEncoding.EncodeToString(c25RandBytes(rng, rng.IntN(80)))
	case 1:
		key = string(c25RandBytes(rng, rng.IntN(60)))
	case 2: // low-order / non-canonical points
		pts := [][32]byte{{}, {1}, {0xe0, 0xeb, 0x7a, 0x7c, 0x3b, 0x41, 0xb8, 0xae, 0x16, 0x56, 0xe3, 0xfa, 0xf1, 0x9f, 0xc4, 0x6a, 0xda, 0x09, 0x8d, 0xeb, 0x9c, 0x32, 0xb1, 0xfd, 0x86, 0x62, 0x05, 0x16, 0x5f, 0x49, 0xb8, 0x00},
			{0x5f, 0x9c, 0x95, 0xbc, 0xa3, 0x50, 0x8c, 0x24, 0xb1, 0xd0, 0xb1, 0x55, 0x9c, 0x83, 0xef, 0x5b, 0x04, 0x44, 0x5c, 0xc4, 0x58, 0x1c, 0x8e, 0x86, 0xd8, 0x22, 0x4e, 0xdd, 0xd0, 0x9f, 0x11, 0x57},
			{0xec, 0xff, 0xff, 0xff, 0xff, 0xff, 0xff, 0xff, 0xff, 0xff, 0xff, 0xff, 0xff, 0xff, 0xff, 0xff, 0xff, 0xff, 0xff, 0xff, 0xff, 0xff, 0xff, 0xff, 0xff, 0xff, 0xff, 0xff, 0xff, 0xff, 0xff, 0x7f}}
		for j := range pts[0] {
			_ = j
		}
		key = base64.StdEncoding.EncodeToString(pts[rng.IntN(len(pts))][:])
	case 3:
		key = ""
	case 4:
		key = base64.URLEncoding.EncodeToString(c25RandBytes(rng, 32))
	case 5:
		key = base64.StdEncoding.EncodeToString(c25RandBytes(rng, 32)) + "\n"
	default:
		key = strings.Repeat("A", rng.IntN(200))
	}
	h.r.Guard("NegotiateServerSession:hostile", key, func() {
		keys, spub, err := penc.NegotiateServerSession(key)
		if err != nil {
			h.count("hostile_client_key.rejected", 1)
			if len(keys.AESKey) != 0 || spub != "" {
				h.r.Violation("negotiate-error-with-keys", key)
			}
			return
		}
		h.count("hostile_client_key.accepted(32-byte key)", 1)
		if _, e := penc.NewSessionCrypto(keys); e != nil {
			h.r.Violation("negotiate-returns-unusable-keys", map[string]any{"clientKey": key, "err": e.Error()})
		}
	})
	h.r.Guard("DeriveClientSession:hostile", key, func() {
		var p [32]byte
		_, _ = penc.DeriveClientSession(p, key, key)
	})
	h.r.Guard("Authenticator:hostile", key, func() {
		auth := gateway.NewWKProtoAuthenticator(gateway.WKProtoAuthOptions{EncryptionEnabled: true})
		res, err := auth.Authenticate(nil, &frame.ConnectPacket{Version: frame.LatestVersion, UID: "u", ClientKey: key})
		if err == nil && res != nil && res.Connack != nil && res.Connack.ReasonCode == frame.ReasonSuccess {
			if sc, _ := res.SessionValues[gateway.SessionValueCrypto].(*penc.SessionCrypto); sc == nil {
				h.r.Violation("authenticator-success-without-crypto", key)
			}
		}
	})
}

// ---------------------------------------------------------------------------
// (2) round trip

func c25Payload(rng *rand.Rand, n, kind int) []byte {
	p := c25RandBytes(rng, n)
	switch kind {
	case 1:
		for i := range p {
			p[i] = 0
		}
	case 2:
		for i := range p {
			p[i] = 0x10
		}
	case 3: // looks like PKCS7 padding at the tail
		if n > 0 {
			k := 1 + rng.IntN(16)
			for i := n - 1; i >= 0 && i >= n-k; i-- {
				p[i] = byte(k)
			}
		}
	case 4:
		for i := range p {
			p[i] = "{\"content\":\"hi\",\"type\":1}"[i%25]
		}
	}
	return p
}

func (h *c25H) roundtrip(s *c25Sess, p []byte, variant int, fp string) {
	r := h.r
	r.Eval(1)
	orig := append([]byte(nil), p...)
	var ct []byte
	var err error
	// encrypt on one side ...
	encName := ""
	if r.Guard("Encrypt", map[string]any{"len": len(p), "variant": variant}, func() {
		switch variant % 4 {
		case 0:
			encName = "client:EncryptPayload(keys)"
			ct, err = penc.EncryptPayload(p, s.clientKeys)
		case 1:
			encName = "client:EncryptPayloadWithCrypto"
			ct, err = penc.EncryptPayloadWithCrypto(p, s.clientSC)
		case 2:
			encName = "server:gateway.EncryptPayload(keys)"
			ct, err = genc.EncryptPayload(p, s.serverKeys)
		default:
			encName = "server:gateway.EncryptPayloadWithCrypto"
			ct, err = genc.EncryptPayloadWithCrypto(p, s.serverSC)
		}
	}) {
		return
	}
	if err != nil {
		r.Violation("encrypt-error", map[string]any{"len": len(p), "via": encName, "err": err.Error()})
		return
	}
	if !bytes.Equal(p, orig) {
		r.Violation("encrypt-mutates-input", map[string]any{"len": len(p), "via": encName})
	}
	// the stated mechanism: AES-CBC + PKCS7, base64 -- byte-identical to the standard-library reference
	if ref := c25RefEncrypt(orig, s.serverKeys.AESKey, s.serverKeys.AESIV); !bytes.Equal(ct, ref) {
		r.Violation("ciphertext-differs-from-aes-cbc-pkcs7-reference", map[string]any{"len": len(p), "via": encName, "got": verifkit.Hex8(ct), "want": verifkit.Hex8(ref)})
	}
	ctCopy := append([]byte(nil), ct...)
	// ... decrypt on the other side, both API variants
	for dv := 0; dv < 2; dv++ {
		var out []byte
		decName := ""
		if r.Guard("Decrypt", map[string]any{"len": len(p), "variant": variant, "dv": dv}, func() {
			clientEncrypted := variant%4 < 2
			switch {
			case clientEncrypted && dv == 0:
				decName = "server:DecryptPayload(keys)"
				out, err = genc.DecryptPayload(ct, s.serverKeys)
			case clientEncrypted:
				decName = "server:DecryptPayloadWithCrypto"
				out, err = penc.DecryptPayloadWithCrypto(ct, s.serverSC)
			case dv == 0:
				decName = "client:DecryptPayload(keys)"
				out, err = penc.DecryptPayload(ct, s.clientKeys)
			default:
				decName = "client:DecryptPayloadWithCrypto"
				out, err = genc.DecryptPayloadWithCrypto(ct, s.clientSC)
			}
		}) {
			return
		}
		if err != nil {
			r.Violation("decrypt-rejects-valid-ciphertext", map[string]any{"len": len(p), "enc": encName, "dec": decName, "err": err.Error()})
			return
		}
		if !bytes.Equal(out, orig) {
			r.Violation("decrypt-not-inverse-of-encrypt", map[string]any{"len": len(p), "enc": encName, "dec": decName, "got_len": len(out), "got": verifkit.Hex8(out), "want": verifkit.Hex8(orig)})
			return
		}
		if !bytes.Equal(ct, ctCopy) {
			r.Violation("decrypt-mutates-input", map[string]any{"len": len(p), "dec": decName})
		}
		if len(out) > 0 && len(ct) > 0 && &out[0] == &ct[0] {
			r.Violation("decrypt-aliases-input", decName)
		}
	}
	h.count("roundtrip.ok", 1)
	r.Nontrivial(fp)
	if r.WantSample() && len(p)%7 == 3 {
		r.Sample(map[string]any{"case": "roundtrip", "fingerprint": fp, "plain_len": len(p), "plain_head": verifkit.Hex8(p)})
	}
}

// ---------------------------------------------------------------------------
// (3) tamper evidence

type c25Validator struct {
	name string
	fn   func(*frame.SendPacket) error
}

func (s *c25Sess) validators() []c25Validator {
	return []c25Validator{
		{"ValidateSendPacket(keys)", func(p *frame.SendPacket) error { return penc.ValidateSendPacket(p, s.serverKeys) }},
		{"ValidateSendPacketWithCrypto", func(p *frame.SendPacket) error { return penc.ValidateSendPacketWithCrypto(p, s.serverSC) }},
		{"gateway.ValidateSendPacket(keys)", func(p *frame.SendPacket) error { return genc.ValidateSendPacket(p, s.serverKeys) }},
		{"gateway.ValidateSendPacketWithCrypto", func(p *frame.SendPacket) error { return genc.ValidateSendPacketWithCrypto(p, s.serverSC) }},
	}
}

func (h *c25H) encryptedSession(s *c25Sess, cached bool) session.Session {
	sess := testkit.NewProtocolSession()
	if s.values != nil {
		for k, v := range s.values {
			if k == gateway.SessionValueCrypto && !cached {
				continue
			}
			sess.SetValue(k, v)
		}
		return sess
	}
	sess.SetValue(gateway.SessionValueProtocolVersion, uint8(frame.LatestVersion))
	sess.SetValue(gateway.SessionValueEncryptionEnabled, true)
	sess.SetValue(gateway.SessionValueAESKey, s.serverKeys.AESKey)
	sess.SetValue(gateway.SessionValueAESIV, s.serverKeys.AESIV)
	if cached {
		sess.SetValue(gateway.SessionValueCrypto, s.serverSC)
	}
	return sess
}

func c25Clone(p *frame.SendPacket) *frame.SendPacket {
	c := *p
	c.Payload = append([]byte(nil), p.Payload...)
	return &c
}

func c25FlipStr(s string, bit int) string {
	b := []byte(s)
	b[bit/8] ^= 1 << uint(bit%8)
	return string(b)
}

type c25Packet struct {
	s       *c25Sess
	plain   []byte
	sealed  *frame.SendPacket
	vals    []c25Validator
	sessC   session.Session // cached crypto
	sessK   session.Session // keys only
	wireOK  bool            // representable on the wkproto wire (ClientSeq < 2^32)
	nCase   int
	lenCls  string
	exhaust bool
}

// expectReject checks one altered packet on every server-side path chosen for it.
func (h *c25H) expectReject(pk *c25Packet, alt *frame.SendPacket, kind string, bit int, viaAdapter bool) {
	r := h.r
	r.Eval(1)
	pk.nCase++
	v := pk.vals[pk.nCase%len(pk.vals)]
	var err error
	if r.Guard("Validate:"+kind, map[string]any{"kind": kind, "bit": bit, "plain_len": len(pk.plain)}, func() { err = v.fn(alt) }) {
		return
	}
	if err == nil {
		r.Violation("tampered-send-accepted:"+kind, map[string]any{"bit": bit, "plain_len": len(pk.plain), "validator": v.name,
			"orig": c25Desc(pk.sealed), "altered": c25Desc(alt)})
	} else if !errors.Is(err, penc.ErrMsgKeyMismatch) {
		h.count("tamper.rejected_with_other_error", 1)
	}
	if viaAdapter && pk.wireOK {
		sess := pk.sessC
		if pk.nCase%2 == 0 {
			sess = pk.sessK
		}
		wire, werr := h.wk.EncodeFrame(alt, frame.LatestVersion)
		if werr == nil {
			var frames []frame.Frame
			var aerr error
			if !r.Guard("Adapter.Decode:"+kind, map[string]any{"kind": kind, "bit": bit}, func() { frames, _, aerr = h.ad.Decode(sess, wire) }) {
				if aerr == nil && len(frames) > 0 {
					r.Violation("tampered-send-accepted-by-adapter:"+kind, map[string]any{"bit": bit, "plain_len": len(pk.plain), "altered": c25Desc(alt)})
				}
				h.count("tamper.adapter_cases", 1)
			}
		}
	}
	h.count("tamper."+kind, 1)
	if r.WantSample() && bit%97 == 5 {
		r.Sample(map[string]any{"case": "tamper", "kind": kind, "bit": bit, "plain_len": len(pk.plain), "outcome": "validation failed (as required)"})
	}
	if pk.exhaust {
		r.Nontrivial(kind + "|" + pk.lenCls + "|" + strconv.Itoa(bit))
	} else {
		r.Nontrivial(kind + "|" + pk.lenCls + "|prng" + strconv.Itoa(bit%64))
	}
}

func c25Desc(p *frame.SendPacket) map[string]any {
	pl := string(p.Payload)
	if len(pl) > 120 {
		pl = pl[:120] + "..."
	}
	return map[string]any{"clientSeq": p.ClientSeq, "clientMsgNo": p.ClientMsgNo, "channelId": p.ChannelID, "channelType": p.ChannelType, "msgKey": p.MsgKey, "payload_b64": pl, "setting": p.Setting}
}

// decryptLaw: whatever a (possibly altered) ciphertext decrypts to, Decrypt is
// the inverse of Encrypt on its accepted domain: Decrypt(c)=p' without error
// implies raw(Encrypt(p')) == raw(c). (Never a panic.) This is what makes a
// skipped padding check observable without asserting that CBC detects flips.
func (h *c25H) decryptLaw(s *c25Sess, ct []byte, kind string) {
	r := h.r
	var out []byte
	var err error
	if r.Guard("Decrypt:"+kind, verifkit.Hex8(ct), func() { out, err = penc.DecryptPayloadWithCrypto(ct, s.serverSC) }) {
		return
	}
	if err != nil {
		h.count("decrypt_altered.error", 1)
		return
	}
	h.count("decrypt_altered.some_bytes", 1)
	re, e2 := penc.EncryptPayloadWithCrypto(out, s.serverSC)
	rawIn := make([]byte, base64.StdEncoding.DecodedLen(len(ct)))
	n, e3 := base64.StdEncoding.Decode(rawIn, ct)
	rawRe, e4 := base64.StdEncoding.DecodeString(string(re))
	if e2 != nil || e3 != nil || e4 != nil || !bytes.Equal(rawIn[:n], rawRe) {
		r.Violation("decrypt-accepts-non-ciphertext:"+kind, map[string]any{"ct": verifkit.Hex8(ct), "ct_len": len(ct), "plain_len": len(out), "note": "Decrypt returned bytes whose encryption is not the input (padding not validated?)"})
	}
}

func (h *c25H) tamper(s *c25Sess, rng *rand.Rand, plainLen int, pktIdx int) {
	r := h.r
	plain := c25Payload(rng, plainLen, rng.IntN(5))
	sp := &frame.SendPacket{
		Framer:      frame.Framer{RedDot: rng.IntN(2) == 0, NoPersist: rng.IntN(4) == 0},
		Setting:     []frame.Setting{0, frame.SettingTopic, frame.SettingReceiptEnabled}[rng.IntN(3)],
		Expire:      rng.Uint32(),
		ClientSeq:   uint64(rng.Uint32()),
		ClientMsgNo: []string{"", "m", "c0ffee00-1111-2222-3333-444455556666", "9", "12"}[rng.IntN(5)],
		ChannelID:   []string{"g1", "u_a@u_b", "1", "频道", strings.Repeat("c", 40)}[rng.IntN(5)],
		ChannelType: []uint8{1, 2, 0, 255, 10}[rng.IntN(5)],
		Topic:       "t",
		StreamNo:    "s1",
	}
	wireOK := true
	if rng.IntN(4) == 0 {
		sp.ClientSeq = rng.Uint64() | 1<<40 // API-level only: the wkproto wire carries 32 bits
		wireOK = false
	}
	// --- seal client-side (like testkit.WKProtoClient.EncryptSendPacket), or with the reference SDK
	sealStyle := pktIdx % 3
	var err error
	switch sealStyle {
	case 0:
		sp.Payload, err = penc.EncryptPayload(plain, s.clientKeys)
		if err == nil {
			sp.MsgKey, err = penc.SendMsgKey(sp, s.clientKeys)
		}
	case 1:
		sp.Payload, err = genc.EncryptPayloadWithCrypto(plain, s.clientSC)
		if err == nil {
			sp.MsgKey, err = genc.SendMsgKeyWithCrypto(sp, s.clientSC)
		}
	default:
		sp.Payload = c25RefEncrypt(plain, s.clientKeys.AESKey, s.clientKeys.AESIV)
		sp.MsgKey = c25RefMsgKey(c25RefSigned(sp), s.clientKeys.AESKey, s.clientKeys.AESIV)
	}
	if err != nil {
		r.Violation("client-seal-error", err.Error())
		return
	}
	if string(c25RefSigned(sp)) != sp.VerityString() {
		h.count("signed_string.harness_differs_from_frame.VerityString(observed)", 1)
	}
	pk := &c25Packet{s: s, plain: plain, sealed: sp, vals: s.validators(), wireOK: wireOK, exhaust: plainLen <= 256,
		lenCls: strconv.Itoa(plainLen), sessC: h.encryptedSession(s, true), sessK: h.encryptedSession(s, false)}
	if !pk.exhaust {
		pk.lenCls = "big"
	}
	// --- untouched packet validates on every server path and decrypts to the plaintext
	for _, v := range pk.vals {
		r.Eval(1)
		var verr error
		if r.Guard("Validate:untouched", c25Desc(sp), func() { verr = v.fn(c25Clone(sp)) }) {
			return
		}
		if verr != nil {
			sig := "valid-send-rejected"
			if sealStyle == 2 {
				sig = "reference-sealed-send-rejected"
			}
			r.Violation(sig, map[string]any{"validator": v.name, "err": verr.Error(), "packet": c25Desc(sp), "seal_style": sealStyle})
			return
		}
	}
	if out, derr := penc.DecryptPayload(sp.Payload, s.serverKeys); derr != nil || !bytes.Equal(out, plain) {
		r.Violation("sealed-send-does-not-decrypt", map[string]any{"err": fmt.Sprint(derr), "plain_len": len(plain)})
		return
	}
	h.count("send.sealed_and_validated", 1)
	adapter := plainLen <= 64 || pktIdx%4 == 0
	if wireOK {
		for _, sess := range []session.Session{pk.sessC, pk.sessK} {
			wire, werr := h.wk.EncodeFrame(c25Clone(sp), frame.LatestVersion)
			if werr != nil { // wkproto limits the payload to 32767 bytes: API-level only
				h.count("send.too_large_for_wkproto_wire(api-level only)", 1)
				pk.wireOK = false
				break
			}
			var frames []frame.Frame
			var consumed int
			var aerr error
			if r.Guard("Adapter.Decode:untouched", c25Desc(sp), func() { frames, consumed, aerr = h.ad.Decode(sess, wire) }) {
				return
			}
			if aerr != nil || len(frames) != 1 || consumed != len(wire) {
				r.Violation("valid-send-rejected-by-adapter", map[string]any{"err": fmt.Sprint(aerr), "frames": len(frames), "packet": c25Desc(sp)})
				return
			}
			got, _ := frames[0].(*frame.SendPacket)
			if got == nil || !bytes.Equal(got.Payload, plain) || got.ClientSeq != sp.ClientSeq || got.ClientMsgNo != sp.ClientMsgNo || got.ChannelID != sp.ChannelID || got.ChannelType != sp.ChannelType {
				r.Violation("adapter-decrypt-wrong-plaintext", map[string]any{"packet": c25Desc(sp), "got": fmt.Sprintf("%+v", frames[0])})
				return
			}
			h.count("send.adapter_decrypted", 1)
		}
	}
	// --- cross-session: another session's keys must not validate it (done by caller)

	bits := func(n int) []int { // all bits when exhaustive, else a PRNG subset
		if pk.exhaust || n <= 256 {
			out := make([]int, n)
			for i := range out {
				out[i] = i
			}
			return out
		}
		out := make([]int, 256)
		for i := range out {
			out[i] = rng.IntN(n)
		}
		// always include first and last block/bytes
		out[0], out[1], out[2], out[3] = 0, 7, n-1, n-8
		return out
	}

	// payload as on the wire (base64 text)
	for _, b := range bits(len(sp.Payload) * 8) {
		alt := c25Clone(sp)
		alt.Payload[b/8] ^= 1 << uint(b%8)
		h.expectReject(pk, alt, "payload-wire-bit", b, adapter)
		if b%8 < 6 || !pk.exhaust { // keep the decrypt law affordable: skip 2 of 8 bits on exhaustive packets
			h.decryptLaw(s, alt.Payload, "payload-wire-bit")
		}
	}
	// raw ciphertext
	raw, _ := base64.StdEncoding.DecodeString(string(sp.Payload))
	for _, b := range bits(len(raw) * 8) {
		rr := append([]byte(nil), raw...)
		rr[b/8] ^= 1 << uint(b%8)
		alt := c25Clone(sp)
		alt.Payload = []byte(base64.StdEncoding.EncodeToString(rr))
		h.expectReject(pk, alt, "ciphertext-bit", b, adapter)
		h.decryptLaw(s, alt.Payload, "ciphertext-bit")
	}
	// ciphertext structural: truncated/extended by a block, blocks swapped
	if len(raw) >= 2*c25BS {
		for k, rr := range [][]byte{raw[:len(raw)-c25BS], append(append([]byte(nil), raw...), raw[:c25BS]...), append(append([]byte(nil), raw[c25BS:2*c25BS]...), append(append([]byte(nil), raw[:c25BS]...), raw[2*c25BS:]...)...)} {
			alt := c25Clone(sp)
			alt.Payload = []byte(base64.StdEncoding.EncodeToString(rr))
			if !bytes.Equal(alt.Payload, sp.Payload) {
				h.expectReject(pk, alt, "ciphertext-blocks", k, adapter)
				h.decryptLaw(s, alt.Payload, "ciphertext-blocks")
			}
		}
	}
	// message key
	for b := 0; b < len(sp.MsgKey)*8; b++ {
		alt := c25Clone(sp)
		alt.MsgKey = c25FlipStr(sp.MsgKey, b)
		h.expectReject(pk, alt, "msgkey-bit", b, adapter)
	}
	for k, mk := range []string{"", sp.MsgKey[:len(sp.MsgKey)-1], sp.MsgKey[:16], sp.MsgKey[:1], sp.MsgKey + "0", sp.MsgKey + sp.MsgKey, strings.ToUpper(sp.MsgKey), " " + sp.MsgKey, sp.MsgKey[1:] + sp.MsgKey[:1]} {
		if mk == sp.MsgKey {
			continue
		}
		alt := c25Clone(sp)
		alt.MsgKey = mk
		h.expectReject(pk, alt, "msgkey-shape", k, adapter)
	}
	// covered header members
	nSeqBits := 64
	for b := 0; b < nSeqBits; b++ {
		alt := c25Clone(sp)
		alt.ClientSeq ^= 1 << uint(b)
		h.expectReject(pk, alt, "clientSeq-bit", b, adapter && b < 32)
	}
	for b := 0; b < len(sp.ClientMsgNo)*8; b++ {
		alt := c25Clone(sp)
		alt.ClientMsgNo = c25FlipStr(sp.ClientMsgNo, b)
		h.expectReject(pk, alt, "clientMsgNo-bit", b, adapter)
	}
	for b := 0; b < len(sp.ChannelID)*8; b++ {
		alt := c25Clone(sp)
		alt.ChannelID = c25FlipStr(sp.ChannelID, b)
		h.expectReject(pk, alt, "channelId-bit", b, adapter)
	}
	for b := 0; b < 8; b++ {
		alt := c25Clone(sp)
		alt.ChannelType ^= 1 << uint(b)
		h.expectReject(pk, alt, "channelType-bit", b, adapter)
	}
	// single-member length changes (always change the length of the signed string)
	for k, f := range []func(*frame.SendPacket){
		func(p *frame.SendPacket) { p.ClientMsgNo += "x" },
		func(p *frame.SendPacket) { p.ChannelID += "1" },
		func(p *frame.SendPacket) {
			if p.ChannelID != "" {
				p.ChannelID = p.ChannelID[:len(p.ChannelID)-1]
			}
		},
		func(p *frame.SendPacket) {
			if p.ClientMsgNo != "" {
				p.ClientMsgNo = p.ClientMsgNo[1:]
			}
		},
	} {
		alt := c25Clone(sp)
		f(alt)
		if alt.ClientMsgNo == sp.ClientMsgNo && alt.ChannelID == sp.ChannelID {
			continue
		}
		h.expectReject(pk, alt, "member-length", k, adapter)
	}

	// --- not covered by design: observed only
	unc := []struct {
		name string
		f    func(*frame.SendPacket)
	}{
		{"Setting(receipt bit)", func(p *frame.SendPacket) { p.Setting ^= frame.SettingReceiptEnabled }},
		{"Expire", func(p *frame.SendPacket) { p.Expire ^= 1 }},
		{"StreamNo", func(p *frame.SendPacket) { p.StreamNo += "x" }},
		{"Topic", func(p *frame.SendPacket) { p.Topic += "x" }},
		{"Framer.NoPersist", func(p *frame.SendPacket) { p.NoPersist = !p.NoPersist }},
		{"Framer.RedDot", func(p *frame.SendPacket) { p.RedDot = !p.RedDot }},
		{"Framer.SyncOnce", func(p *frame.SendPacket) { p.SyncOnce = !p.SyncOnce }},
		{"Framer.DUP", func(p *frame.SendPacket) { p.DUP = !p.DUP }},
	}
	for _, u := range unc {
		alt := c25Clone(sp)
		u.f(alt)
		if pk.vals[0].fn(alt) == nil {
			h.count("uncovered_member_flip_still_validates(by design)."+u.name, 1)
		} else {
			h.count("uncovered_member_flip_rejected."+u.name, 1)
		}
	}
	// multi-member boundary shift keeps the signed string identical (concatenation without separators): observed only
	if len(sp.ClientMsgNo) > 0 {
		alt := c25Clone(sp)
		alt.ChannelID = sp.ClientMsgNo[len(sp.ClientMsgNo)-1:] + sp.ChannelID
		alt.ClientMsgNo = sp.ClientMsgNo[:len(sp.ClientMsgNo)-1]
		if pk.vals[0].fn(alt) == nil {
			h.count("boundary_shift_clientMsgNo_to_channelId_still_validates(two members changed; observed)", 1)
		}
	}
}

// ---------------------------------------------------------------------------

func TestVerifC25Crypto(t *testing.T) {
	r := verifkit.Start(t, "C25", "crypto")
	defer r.Finish()
	r.SetRule("Sessions: PRNG/edge/GenerateKeyPair/testkit client keys negotiated through protocol pkg, gateway wrapper or the real WKProto authenticator (stream (1,i)). Round trips: every session x every length 0..65 x 5 content kinds x 4 encrypt variants, crossed between client and server side, + PRNG lengths up to 64 KiB. Tamper: SEND packets sealed client-side (repo key API, repo cached-crypto API, or the harness's standard-library reference SDK), then every single-bit flip of the wire payload, the raw ciphertext, MsgKey and each covered header member (ClientSeq, ClientMsgNo, ChannelID, ChannelType) for plaintexts <= 256 B (PRNG 256 bits of payload/ciphertext for larger), block-level ciphertext edits, MsgKey shape edits, single-member length changes; validated on 4 server-side API variants in rotation and through wkproto Adapter.Decode on encrypted testkit sessions (cached-crypto and keys-only). Non-trivial = every round trip and every tamper case; distinct by (variant, length, content kind) resp. (tamper kind, plaintext length, bit index).")
	r.Assume("MD5/AES collisions are not expected within the run (a tampered packet validating by chance has probability ~2^-128 per case).")
	r.Assume("Server-side randomness (server key pair, IV) comes from crypto/rand inside the code under test; all client-side inputs and all case lists are a function of (seed, tier).")
	r.Note("msgkey_covers(read from SendMsgKeyWithCrypto and frame.SendPacket.VerityString)", []string{"ClientSeq (decimal)", "ClientMsgNo", "ChannelID", "ChannelType (decimal)", "Payload (wire form: base64 of AES-CBC ciphertext)"})
	r.Note("msgkey_does_not_cover(by design; flipped and observed, not asserted)", []string{"Setting (incl. NoEncrypt: a flipped NoEncrypt bit makes the adapter skip validation and decryption altogether)", "Expire", "StreamNo", "Topic", "Framer flags NoPersist/RedDot/SyncOnce/DUP/End", "member boundaries: the signed string is a plain concatenation, so moving bytes between adjacent members keeps it identical (two members altered; outside the single-member quantifier)"})
	r.Note("wire_note", "wkproto carries ClientSeq as uint32; packets with ClientSeq >= 2^32 are exercised at API level only, and ClientSeq bits >= 32 are not sent through the adapter")

	h := &c25H{r: r, cnt: map[string]int{}, ad: gwwkproto.New(), wk: codec.New()}
	defer h.flush()

	// --- (1) negotiation
	nSess := r.N(300, 3000)
	var sessions []*c25Sess
	for i := 0; i < nSess; i++ {
		if r.Skip(i) {
			continue
		}
		r.BeginCase(i, "negotiate")
		r.Eval(1)
		rng := r.Rand(1, uint64(i))
		if s := h.negotiate(i, rng); s != nil {
			sessions = append(sessions, s)
			// cheap functional cross-check on every session
			p := c25Payload(rng, rng.IntN(100), 0)
			h.roundtrip(s, p, i, fmt.Sprintf("rt|s|%d|%d", i%4, len(p)))
		}
		if i%3 == 0 {
			h.hostileClientKey(rng)
		}
	}
	if len(sessions) == 0 {
		if r.NumViolations() == 0 {
			r.Inconclusive("no session negotiated")
		}
		return
	}

	// --- (2) round trips: exhaustive block-boundary lengths
	base := 1_000_000
	nRT := r.N(6, 40)
	for k := 0; k < nRT && k < len(sessions); k++ {
		s := sessions[(k*37)%len(sessions)]
		if r.Skip(base + k) {
			continue
		}
		r.BeginCase(base+k, fmt.Sprintf("roundtrip exhaustive lengths 0..%d session %d", 4*c25BS+1, s.idx))
		rng := r.Rand(2, uint64(k))
		for n := 0; n <= 4*c25BS+1; n++ {
			for kind := 0; kind < 5; kind++ {
				for variant := 0; variant < 4; variant++ {
					h.roundtrip(s, c25Payload(rng, n, kind), variant, fmt.Sprintf("rt|%d|%d|%d", variant, n, kind))
				}
			}
		}
	}
	// PRNG lengths up to 64 KiB
	base = 2_000_000
	nBig := r.N(1500, 15000)
	for k := 0; k < nBig; k++ {
		if r.Skip(base + k) {
			continue
		}
		rng := r.Rand(3, uint64(k))
		n := rng.IntN(64*1024 + 1)
		switch rng.IntN(4) {
		case 0:
			n = rng.IntN(600)
		case 1:
			n = (1+rng.IntN(4096))*c25BS + rng.IntN(3) - 1 // around block boundaries
		}
		if n > 64*1024 {
			n = 64 * 1024
		}
		s := sessions[rng.IntN(len(sessions))]
		r.BeginCase(base+k, fmt.Sprintf("roundtrip len=%d", n))
		h.roundtrip(s, c25Payload(rng, n, rng.IntN(5)), rng.IntN(4), fmt.Sprintf("rt|big|%d|%d", n/1024, n%c25BS))
		r.Max("max_payload_len", n)
	}
	// hostile ciphertexts into Decrypt: error or bytes, never a panic; inverse law
	base = 3_000_000
	nH := r.N(4000, 40000)
	for k := 0; k < nH; k++ {
		if r.Skip(base + k) {
			continue
		}
		rng := r.Rand(4, uint64(k))
		s := sessions[rng.IntN(len(sessions))]
		var ct []byte
		switch rng.IntN(5) {
		case 0:
			ct = c25RandBytes(rng, rng.IntN(100))
		case 1:
			ct = []byte(base64.StdEncoding.EncodeToString(c25RandBytes(rng, rng.IntN(6)*c25BS)))
		case 2:
			ct = []byte(base64.StdEncoding.EncodeToString(c25RandBytes(rng, rng.IntN(100))))
		case 3:
			ct = []byte(base64.RawStdEncoding.EncodeToString(c25RandBytes(rng, c25BS*(1+rng.IntN(3)))))
		default:
			ct = nil
		}
		r.BeginCase(base+k, "hostile ciphertext")
		r.Eval(1)
		h.decryptLaw(s, ct, "hostile-ciphertext")
		r.Guard("DecryptPayload:hostile", verifkit.Hex8(ct), func() { _, _ = genc.DecryptPayload(ct, s.serverKeys) })
	}

	// --- (3) tamper evidence
	base = 4_000_000
	lens := []int{0, 1, 15, 16, 17, 31, 32, 33, 47, 48, 63, 64, 65, 100, 128, 200, 255, 256}
	nSmall := r.N(72, 540)
	nLarge := r.N(16, 120)
	for k := 0; k < nSmall+nLarge; k++ {
		if r.Skip(base + k) {
			continue
		}
		rng := r.Rand(5, uint64(k))
		n := lens[k%len(lens)]
		if k >= len(lens) && k < nSmall && rng.IntN(2) == 0 {
			n = rng.IntN(257)
		}
		if k >= nSmall {
			n = 257 + rng.IntN(64*1024-257)
			if rng.IntN(3) == 0 {
				n = 257 + rng.IntN(2000)
			}
		}
		s := sessions[rng.IntN(len(sessions))]
		r.BeginCase(base+k, fmt.Sprintf("tamper plain_len=%d session=%d", n, s.idx))
		h.tamper(s, rng, n, k)
		// cross-session: a SEND sealed under s must not validate under another session's keys
		o := sessions[rng.IntN(len(sessions))]
		if !c25KeysEqual(o.serverKeys, s.serverKeys) {
			sp := &frame.SendPacket{ClientSeq: 1, ClientMsgNo: "m", ChannelID: "c", ChannelType: 1}
			sp.Payload, _ = penc.EncryptPayload([]byte("x"), s.clientKeys)
			sp.MsgKey, _ = penc.SendMsgKey(sp, s.clientKeys)
			r.Eval(1)
			if penc.ValidateSendPacket(sp, o.serverKeys) == nil {
				r.Violation("cross-session-send-accepted", map[string]any{"sealed_under": s.idx, "validated_under": o.idx})
			}
			h.count("tamper.cross_session", 1)
		}
	}
	r.Guard("Validate:nil", nil, func() {
		if penc.ValidateSendPacket(nil, sessions[0].serverKeys) == nil || penc.ValidateSendPacketWithCrypto(nil, sessions[0].serverSC) == nil {
			r.Violation("nil-send-accepted", nil)
		}
	})
	r.Count("sessions_negotiated", len(sessions))
}

// ---------------------------------------------------------------------------
// Unit "concurrent" (race:true): one SessionCrypto used by many goroutines.

func TestVerifC25Concurrent(t *testing.T) {
	r := verifkit.Start(t, "C25", "concurrent")
	defer r.Finish()
	r.SetRule("G goroutines share ONE server SessionCrypto (and one client SessionCrypto, one wkproto Adapter): each iteration (PRNG stream (9,g)) encrypts a payload of PRNG length (block-boundary biased, up to 8 KiB), checks it against the standard-library reference computed by the harness, decrypts it, seals/validates a SEND, checks a flipped bit is rejected, seals a RECV and decrypts it, and decodes the SEND through Adapter.Decode on a per-goroutine encrypted session holding the shared crypto. Built with -race: a data race inside the code under test is a violation. Non-trivial = every iteration; distinct by (goroutine, payload length).")
	h := &c25H{r: r, cnt: map[string]int{}, ad: gwwkproto.New(), wk: codec.New()}
	defer h.flush()
	var s *c25Sess
	for i := 0; i < 8 && s == nil; i++ {
		s = h.negotiate(i, r.Rand(8, uint64(i)))
	}
	if s == nil {
		if r.NumViolations() == 0 {
			r.Inconclusive("no session negotiated")
		}
		return
	}
	key, iv := s.clientKeys.AESKey, s.clientKeys.AESIV
	G := 8
	iters := r.N(1500, 20000)
	var wg sync.WaitGroup
	done := verifkit.Watchdog(20*time.Minute, func() {
		for g := 0; g < G; g++ {
			wg.Add(1)
			go func(g int) {
				defer wg.Done()
				rng := r.Rand(9, uint64(g))
				sess := h.encryptedSession(s, true)
				vals := s.validators()
				for it := 0; it < iters; it++ {
					n := rng.IntN(300)
					switch rng.IntN(4) {
					case 0:
						n = rng.IntN(8192)
					case 1:
						n = (rng.IntN(8))*c25BS + rng.IntN(3)
					}
					p := c25Payload(rng, n, rng.IntN(5))
					r.Eval(1)
					panicked := r.Guard("concurrent", map[string]any{"g": g, "len": n}, func() {
						want := c25RefEncrypt(p, key, iv)
						var ct []byte
						var err error
						if it%2 == 0 {
							ct, err = penc.EncryptPayloadWithCrypto(p, s.serverSC)
						} else {
							ct, err = penc.EncryptPayloadWithCrypto(p, s.clientSC)
						}
						if err != nil || !bytes.Equal(ct, want) {
							r.Violation("concurrent-encrypt-wrong", map[string]any{"g": g, "len": n, "err": fmt.Sprint(err)})
							return
						}
						out, err := penc.DecryptPayloadWithCrypto(ct, s.serverSC)
						if err != nil || !bytes.Equal(out, p) {
							r.Violation("concurrent-decrypt-wrong", map[string]any{"g": g, "len": n, "err": fmt.Sprint(err)})
							return
						}
						sp := &frame.SendPacket{ClientSeq: uint64(rng.Uint32()), ClientMsgNo: "m" + strconv.Itoa(it), ChannelID: "ch" + strconv.Itoa(g), ChannelType: 2, Payload: ct}
						wantKey := c25RefMsgKey(c25RefSigned(sp), key, iv)
						sp.MsgKey, err = penc.SendMsgKeyWithCrypto(sp, s.clientSC)
						if err != nil || sp.MsgKey != wantKey {
							r.Violation("concurrent-msgkey-wrong", map[string]any{"g": g, "len": n, "got": sp.MsgKey, "want": wantKey, "err": fmt.Sprint(err)})
							return
						}
						v := vals[it%len(vals)]
						if e := v.fn(sp); e != nil {
							r.Violation("concurrent-valid-send-rejected", map[string]any{"g": g, "len": n, "validator": v.name, "err": e.Error()})
							return
						}
						alt := c25Clone(sp)
						b := rng.IntN(len(alt.Payload) * 8)
						alt.Payload[b/8] ^= 1 << uint(b%8)
						if e := v.fn(alt); e == nil {
							r.Violation("concurrent-tampered-send-accepted", map[string]any{"g": g, "len": n, "bit": b, "validator": v.name})
							return
						}
						wire, werr := h.wk.EncodeFrame(c25Clone(sp), frame.LatestVersion)
						if werr == nil {
							frames, _, aerr := h.ad.Decode(sess, wire)
							if aerr != nil || len(frames) != 1 {
								r.Violation("concurrent-adapter-rejects-valid-send", map[string]any{"g": g, "len": n, "err": fmt.Sprint(aerr)})
								return
							}
							if got, _ := frames[0].(*frame.SendPacket); got == nil || !bytes.Equal(got.Payload, p) {
								r.Violation("concurrent-adapter-wrong-plaintext", map[string]any{"g": g, "len": n})
								return
							}
						}
						recv := &frame.RecvPacket{MessageID: int64(it), MessageSeq: uint64(it), FromUID: "u", ChannelID: "c", ChannelType: 1, Timestamp: 1, Payload: p}
						sealed, err := penc.SealRecvPacketWithCrypto(recv, s.serverSC)
						if err != nil || sealed == nil {
							r.Violation("concurrent-seal-recv-error", fmt.Sprint(err))
							return
						}
						if !bytes.Equal(sealed.Payload, want) || !bytes.Equal(recv.Payload, p) {
							r.Violation("concurrent-seal-recv-wrong", map[string]any{"g": g, "len": n})
							return
						}
						out, err = penc.DecryptPayloadWithCrypto(sealed.Payload, s.clientSC)
						if err != nil || !bytes.Equal(out, p) {
							r.Violation("concurrent-recv-decrypt-wrong", map[string]any{"g": g, "len": n, "err": fmt.Sprint(err)})
						}
					})
					if panicked {
						return
					}
					r.Nontrivial("conc|" + strconv.Itoa(g) + "|" + strconv.Itoa(n))
					if r.WantSample() && n%5 == 1 {
						r.Sample(map[string]any{"case": "concurrent-roundtrip", "goroutine": g, "plain_len": n})
					}
				}
				h.count("concurrent.iterations", iters)
			}(g)
		}
		wg.Wait()
	})
	if !done {
		r.Inconclusive("watchdog: concurrent workers did not finish in 20 min")
	}
	var _ = gatewaytypes.SessionValueCrypto
}
