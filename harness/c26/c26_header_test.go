//go:build verif

// C26 unit "header": node-transport wire header round-trip / rejection monitor.
//
// Statement clauses covered here:
//   - "Every node-transport frame header round-trips"         -> c26hRoundTrip, c26hSoup (accept <=> reference predicate), c26hStream
//   - "malformed headers (bad magic, version, flags, reserved bits, kind,
//     priority or oversize body) are rejected"                -> c26hCorrupt (single field), c26hSoup (multi field)
//   - "... rejected before the body is allocated"             -> c26hOversizeStream (TotalAlloc delta + bytes consumed)
//
// The reference predicate is derived from the statement and the documented
// constants exported by package wire (Magic, Version, HeaderSize) plus the
// documented ranges of core.FrameKind / core.Priority; the byte layout is
// *not* assumed: corrupted inputs are produced by re-encoding a header whose
// single field differs, or by locating a field's bytes via differential
// encoding (encode two headers that differ in one field and diff the bytes).
package wire_test

import (
	"bytes"
	"encoding/binary"
	"fmt"
	"io"
	"math"
	"math/rand/v2"
	"runtime"
	"testing"

	"github.com/WuKongIM/WuKongIM/pkg/transport/internal/core"
	"github.com/WuKongIM/WuKongIM/pkg/transport/wire"
	"github.com/WuKongIM/WuKongIM/pkg/verifkit"
)

const (
	c26hKindMin = 1 // core.FrameKindData
	c26hKindMax = 5 // core.FrameKindControl
	c26hPriMin  = 1 // core.PriorityRaft
	c26hPriMax  = 4 // core.PriorityBulk
)

// Fixed layout facts that the statement names as individually validated
// fields. Offsets of magic/version/flags/reserved cannot be found by
// differential encoding (EncodeHeader has no such inputs), so they come from
// the wire format documentation in frame.go (24-byte big-endian prefix:
// magic u16, version u8, flags u8, kind u8, priority u8, service u16,
// request u64, body u32, reserved u32). The self-check c26hLayoutSelfCheck
// verifies the kind/priority/service/request/body offsets differentially and
// the magic/version offsets against the exported constants before any
// corruption verdict is issued; if it fails the unit is INCONCLUSIVE.
const (
	c26hOffMagic    = 0
	c26hOffVersion  = 2
	c26hOffFlags    = 3
	c26hOffKind     = 4
	c26hOffPriority = 5
	c26hOffService  = 6
	c26hOffRequest  = 8
	c26hOffBodyLen  = 16
	c26hOffReserved = 20
)

func c26hValidRef(b []byte, max int) bool {
	if len(b) < wire.HeaderSize {
		return false
	}
	if binary.BigEndian.Uint16(b[c26hOffMagic:]) != wire.Magic || b[c26hOffVersion] != wire.Version || b[c26hOffFlags] != 0 {
		return false
	}
	if binary.BigEndian.Uint32(b[c26hOffReserved:]) != 0 {
		return false
	}
	if k := b[c26hOffKind]; k < c26hKindMin || k > c26hKindMax {
		return false
	}
	if p := b[c26hOffPriority]; p < c26hPriMin || p > c26hPriMax {
		return false
	}
	if max < 0 {
		return false
	}
	return uint64(binary.BigEndian.Uint32(b[c26hOffBodyLen:])) <= uint64(max)
}

func c26hRefParse(b []byte) wire.Header {
	return wire.Header{
		Kind:      core.FrameKind(b[c26hOffKind]),
		Priority:  core.Priority(b[c26hOffPriority]),
		ServiceID: binary.BigEndian.Uint16(b[c26hOffService:]),
		RequestID: binary.BigEndian.Uint64(b[c26hOffRequest:]),
		BodyLen:   binary.BigEndian.Uint32(b[c26hOffBodyLen:]),
	}
}

func c26hLenClass(n uint32, max int) string {
	switch {
	case n == 0:
		return "0"
	case uint64(n) == uint64(max):
		return "max"
	case uint64(n)+1 == uint64(max):
		return "max-1"
	case n < 256:
		return "small"
	case n < 1<<16:
		return "mid"
	default:
		return "big"
	}
}

func c26hMaxClass(max int) string {
	switch {
	case max == 0:
		return "0"
	case max < 1<<10:
		return "<1K"
	case max < 1<<20:
		return "<1M"
	case max <= math.MaxInt32:
		return "<2G"
	default:
		return ">=2G"
	}
}

var c26hMaxes = []int{0, 1, 255, 1024, 65536, 1 << 20, 64 << 20, math.MaxInt32, math.MaxUint32, math.MaxInt64}

func c26hPickBodyLen(rng *rand.Rand, max int) uint32 {
	lim := uint64(max)
	if lim > math.MaxUint32 {
		lim = math.MaxUint32
	}
	switch rng.IntN(6) {
	case 0:
		return 0
	case 1:
		return uint32(lim)
	case 2:
		if lim > 0 {
			return uint32(lim - 1)
		}
		return 0
	default:
		return uint32(rng.Uint64N(lim + 1))
	}
}

func c26hPickU64(rng *rand.Rand) uint64 {
	switch rng.IntN(6) {
	case 0:
		return 0
	case 1:
		return 1
	case 2:
		return math.MaxUint64
	case 3:
		return 1 << uint(rng.IntN(64))
	default:
		return rng.Uint64()
	}
}

func c26hPickU16(rng *rand.Rand) uint16 {
	switch rng.IntN(5) {
	case 0:
		return 0
	case 1:
		return math.MaxUint16
	default:
		return uint16(rng.Uint32())
	}
}

func c26hRandValid(rng *rand.Rand, max int) wire.Header {
	return wire.Header{
		Kind:      core.FrameKind(c26hKindMin + rng.IntN(c26hKindMax-c26hKindMin+1)),
		Priority:  core.Priority(c26hPriMin + rng.IntN(c26hPriMax-c26hPriMin+1)),
		ServiceID: c26hPickU16(rng),
		RequestID: c26hPickU64(rng),
		BodyLen:   c26hPickBodyLen(rng, max),
	}
}

// c26hLayoutSelfCheck confirms the offsets the corruption generator relies on.
func c26hLayoutSelfCheck() error {
	base := wire.Header{Kind: 1, Priority: 1}
	b0 := wire.EncodeHeader(base)
	if len(b0) != wire.HeaderSize || wire.HeaderSize != 24 {
		return fmt.Errorf("header size %d", wire.HeaderSize)
	}
	if binary.BigEndian.Uint16(b0[c26hOffMagic:]) != wire.Magic || b0[c26hOffVersion] != wire.Version {
		return fmt.Errorf("magic/version not at documented offsets: % x", b0[:4])
	}
	diff := func(h wire.Header) (lo, hi int) {
		b := wire.EncodeHeader(h)
		lo, hi = -1, -1
		for i := range b {
			if b[i] != b0[i] {
				if lo < 0 {
					lo = i
				}
				hi = i
			}
		}
		return
	}
	type probe struct {
		h      wire.Header
		lo, hi int
		name   string
	}
	for _, p := range []probe{
		{wire.Header{Kind: 4, Priority: 1}, c26hOffKind, c26hOffKind, "kind"},
		{wire.Header{Kind: 1, Priority: 4}, c26hOffPriority, c26hOffPriority, "priority"},
		{wire.Header{Kind: 1, Priority: 1, ServiceID: 0xffff}, c26hOffService, c26hOffService + 1, "service"},
		{wire.Header{Kind: 1, Priority: 1, RequestID: math.MaxUint64}, c26hOffRequest, c26hOffRequest + 7, "request"},
		{wire.Header{Kind: 1, Priority: 1, BodyLen: math.MaxUint32}, c26hOffBodyLen, c26hOffBodyLen + 3, "bodylen"},
	} {
		lo, hi := diff(p.h)
		if lo != p.lo || hi != p.hi {
			return fmt.Errorf("field %s occupies bytes %d..%d, expected %d..%d", p.name, lo, hi, p.lo, p.hi)
		}
	}
	return nil
}

type c26hWitness struct {
	Bytes string `json:"bytes"`
	Max   int    `json:"max"`
	Field string `json:"field,omitempty"`
	Got   string `json:"got,omitempty"`
	Want  string `json:"want,omitempty"`
	Err   string `json:"err,omitempty"`
}

// c26hIn is a lazily formatted Guard input (formatting only on panic).
type c26hIn struct {
	b   []byte
	max int
}

func (i c26hIn) MarshalJSON() ([]byte, error) {
	return []byte(fmt.Sprintf(`{"bytes":"% x","max":%d}`, i.b, i.max)), nil
}

func c26hW(b []byte, max int, field string) c26hWitness {
	return c26hWitness{Bytes: fmt.Sprintf("% x", b), Max: max, Field: field}
}

// c26hCheckValid: a header that is valid by the statement must be accepted and
// decode to exactly the encoded fields; re-encoding must give the same bytes.
func c26hCheckValid(r *verifkit.Run, h wire.Header, max int) {
	r.Eval(1)
	var enc [wire.HeaderSize]byte
	var dec wire.Header
	var err error
	if r.Guard("EncodeDecodeHeader", struct {
		H   wire.Header
		Max int
	}{h, max}, func() {
		enc = wire.EncodeHeader(h)
		dec, err = wire.DecodeHeader(enc[:], max)
	}) {
		return
	}
	if err != nil {
		w := c26hW(enc[:], max, "")
		w.Err = err.Error()
		w.Want = fmt.Sprintf("%+v", h)
		r.Violation("header-valid-rejected", w)
		return
	}
	if dec != h {
		w := c26hW(enc[:], max, "")
		w.Got, w.Want = fmt.Sprintf("%+v", dec), fmt.Sprintf("%+v", h)
		r.Violation("header-roundtrip-mismatch", w)
		return
	}
	if re := wire.EncodeHeader(dec); re != enc {
		w := c26hW(enc[:], max, "")
		w.Got = fmt.Sprintf("% x", re[:])
		r.Violation("header-reencode-differs", w)
	}
	r.Count("roundtrip.ok", 1)
	r.Nontrivial(fmt.Sprintf("rt|k%d|p%d|len=%s|max=%s", h.Kind, h.Priority, c26hLenClass(h.BodyLen, max), c26hMaxClass(max)))
}

// c26hCheckCorrupt: b differs from a valid header in the named field only and
// must be rejected.
func c26hCheckCorrupt(r *verifkit.Run, b []byte, max int, field, variant string) {
	r.Eval(1)
	if c26hValidRef(b, max) {
		// generator bug guard: never judge an input that is in fact valid
		r.Count("corrupt.generator_produced_valid", 1)
		return
	}
	var dec wire.Header
	var err error
	if r.Guard("DecodeHeader:"+field, c26hIn{b, max}, func() { dec, err = wire.DecodeHeader(b, max) }) {
		return
	}
	if err == nil {
		w := c26hW(b, max, field)
		w.Got = fmt.Sprintf("%+v", dec)
		r.Violation("header-corrupt-accepted:"+field, w)
		return
	}
	r.Count("corrupt.rejected."+field, 1)
	r.Nontrivial("corrupt|" + field + "|" + variant + "|k" + fmt.Sprint(b[c26hOffKind]) + "|p" + fmt.Sprint(b[c26hOffPriority]))
}

func c26hCorruptions(r *verifkit.Run, rng *rand.Rand, base wire.Header, max int, full bool) {
	enc := wire.EncodeHeader(base)
	mut := func() []byte { return append([]byte(nil), enc[:]...) }

	// magic: every single-bit flip; full sweep of all 65535 wrong values on request
	for bit := 0; bit < 16; bit++ {
		b := mut()
		binary.BigEndian.PutUint16(b[c26hOffMagic:], wire.Magic^(1<<uint(bit)))
		c26hCheckCorrupt(r, b, max, "magic", "bit")
	}
	if full {
		for v := 0; v < 1<<16; v++ {
			if uint16(v) == wire.Magic {
				continue
			}
			b := mut()
			binary.BigEndian.PutUint16(b[c26hOffMagic:], uint16(v))
			c26hCheckCorrupt(r, b, max, "magic", "sweep")
		}
	} else {
		b := mut()
		v := uint16(rng.Uint32())
		if v == wire.Magic {
			v++
		}
		binary.BigEndian.PutUint16(b[c26hOffMagic:], v)
		c26hCheckCorrupt(r, b, max, "magic", "rand")
		b = mut() // byte-swapped magic
		b[c26hOffMagic], b[c26hOffMagic+1] = b[c26hOffMagic+1], b[c26hOffMagic]
		c26hCheckCorrupt(r, b, max, "magic", "swapped")
	}
	// version, flags, kind, priority: all 256 byte values, wrong ones only
	for v := 0; v < 256; v++ {
		if uint8(v) != wire.Version {
			b := mut()
			b[c26hOffVersion] = uint8(v)
			c26hCheckCorrupt(r, b, max, "version", "sweep")
		}
		if v != 0 {
			b := mut()
			b[c26hOffFlags] = uint8(v)
			c26hCheckCorrupt(r, b, max, "flags", "sweep")
		}
		if v < c26hKindMin || v > c26hKindMax {
			b := mut()
			b[c26hOffKind] = uint8(v)
			c26hCheckCorrupt(r, b, max, "kind", "sweep")
		}
		if v < c26hPriMin || v > c26hPriMax {
			b := mut()
			b[c26hOffPriority] = uint8(v)
			c26hCheckCorrupt(r, b, max, "priority", "sweep")
		}
	}
	// reserved: each single bit, each byte fully, random words
	for bit := 0; bit < 32; bit++ {
		b := mut()
		binary.BigEndian.PutUint32(b[c26hOffReserved:], 1<<uint(bit))
		c26hCheckCorrupt(r, b, max, "reserved", "bit")
	}
	for i := 0; i < 4; i++ {
		for v := 1; v < 256; v++ {
			b := mut()
			b[c26hOffReserved+i] = uint8(v)
			c26hCheckCorrupt(r, b, max, "reserved", "byte")
		}
	}
	for i := 0; i < 8; i++ {
		b := mut()
		v := rng.Uint32()
		if v == 0 {
			v = 1
		}
		binary.BigEndian.PutUint32(b[c26hOffReserved:], v)
		c26hCheckCorrupt(r, b, max, "reserved", "rand")
	}
	// oversize body: only meaningful when max < 2^32-1
	if uint64(max) < math.MaxUint32 {
		over := []uint32{uint32(max) + 1, math.MaxUint32, uint32(max) + 1 + uint32(rng.Uint64N(uint64(math.MaxUint32-uint32(max)))), 1 << 31}
		if max < 1<<30 {
			over = append(over, uint32(max)*2+2, uint32(max)+256)
		}
		for _, n := range over {
			if uint64(n) <= uint64(max) {
				continue
			}
			b := mut()
			binary.BigEndian.PutUint32(b[c26hOffBodyLen:], n)
			c26hCheckCorrupt(r, b, max, "bodylen", "over")
		}
	}
}

// c26hSoup: mostly-valid headers with 0..3 fields perturbed: acceptance must
// coincide with the reference predicate; accepted headers decode to the
// reference parse and are canonical (re-encode == input).
func c26hSoup(r *verifkit.Run, rng *rand.Rand, n int) {
	for i := 0; i < n; i++ {
		max := c26hMaxes[rng.IntN(len(c26hMaxes))]
		h := c26hRandValid(rng, max)
		enc := wire.EncodeHeader(h)
		b := enc[:]
		nm := rng.IntN(4)
		for j := 0; j < nm; j++ {
			switch rng.IntN(9) {
			case 0:
				b[c26hOffMagic+rng.IntN(2)] ^= 1 << uint(rng.IntN(8))
			case 1:
				b[c26hOffVersion] = uint8(rng.IntN(4))
			case 2:
				b[c26hOffFlags] = uint8(rng.IntN(3)) * uint8(1+rng.IntN(127))
			case 3:
				b[c26hOffKind] = uint8(rng.IntN(8))
			case 4:
				b[c26hOffPriority] = uint8(rng.IntN(7))
			case 5:
				binary.BigEndian.PutUint32(b[c26hOffBodyLen:], rng.Uint32()>>uint(rng.IntN(32)))
			case 6:
				b[c26hOffReserved+rng.IntN(4)] = uint8(rng.IntN(2)) * uint8(1<<uint(rng.IntN(8)))
			case 7:
				b[rng.IntN(len(b))] = uint8(rng.Uint32())
			case 8:
				b[c26hOffKind] = uint8(rng.Uint32())
				b[c26hOffPriority] = uint8(rng.Uint32())
			}
		}
		r.Eval(1)
		want := c26hValidRef(b, max)
		var dec wire.Header
		var err error
		if r.Guard("DecodeHeader:soup", c26hIn{b, max}, func() { dec, err = wire.DecodeHeader(b, max) }) {
			continue
		}
		switch {
		case want && err != nil:
			w := c26hW(b, max, "soup")
			w.Err = err.Error()
			r.Violation("header-valid-rejected", w)
		case !want && err == nil:
			w := c26hW(b, max, "soup")
			w.Got = fmt.Sprintf("%+v", dec)
			r.Violation("header-corrupt-accepted:soup", w)
		case want:
			if ref := c26hRefParse(b); dec != ref {
				w := c26hW(b, max, "soup")
				w.Got, w.Want = fmt.Sprintf("%+v", dec), fmt.Sprintf("%+v", ref)
				r.Violation("header-roundtrip-mismatch", w)
			} else if re := wire.EncodeHeader(dec); !bytes.Equal(re[:], b) {
				w := c26hW(b, max, "soup")
				w.Got = fmt.Sprintf("% x", re[:])
				r.Violation("header-reencode-differs", w)
			}
			r.Count("soup.accepted", 1)
		default:
			r.Count("soup.rejected", 1)
		}
	}
}

// c26hChunkReader hands out the stream in PRNG-sized pieces and counts bytes.
type c26hChunkReader struct {
	data     []byte
	pos      int
	rng      *rand.Rand
	infinite bool // after data: endless zero bytes instead of EOF
	consumed int
}

func (c *c26hChunkReader) Read(p []byte) (int, error) {
	if len(p) == 0 {
		return 0, nil
	}
	if c.pos >= len(c.data) {
		if !c.infinite {
			return 0, io.EOF
		}
		n := len(p)
		if n > 1<<16 {
			n = 1 << 16
		}
		clear(p[:n])
		c.consumed += n
		return n, nil
	}
	n := len(p)
	if c.rng != nil {
		lim := 64
		if c.rng.IntN(4) == 0 {
			lim = 8192
		}
		if k := 1 + c.rng.IntN(1+c.rng.IntN(lim)); k < n {
			n = k
		}
	}
	if rem := len(c.data) - c.pos; n > rem {
		n = rem
	}
	copy(p, c.data[c.pos:c.pos+n])
	c.pos += n
	c.consumed += n
	return n, nil
}

// c26hStream: frames written by the real writer, concatenated, are read back
// one by one through a fragmenting reader with identical header and body.
func c26hStream(r *verifkit.Run, rng *rand.Rand, nStreams int) {
	for s := 0; s < nStreams; s++ {
		max := []int{64, 1024, 65536, 1 << 20}[rng.IntN(4)]
		nf := 1 + rng.IntN(12)
		type sent struct {
			h    wire.Header
			body []byte
		}
		var frames []wire.Frame
		var want []sent
		for i := 0; i < nf; i++ {
			h := c26hRandValid(rng, max)
			var bl int
			switch rng.IntN(5) {
			case 0:
				bl = 0
			case 1:
				bl = max
			default:
				bl = rng.IntN(1 + rng.IntN(max+1))
			}
			body := make([]byte, bl)
			x := rng.Uint64() | 1
			for j := range body {
				x ^= x << 13
				x ^= x >> 7
				x ^= x << 17
				body[j] = uint8(x >> 24)
			}
			h.BodyLen = uint32(bl)
			frames = append(frames, wire.Frame{Header: h, Body: core.CopyOwnedBuffer(body)})
			want = append(want, sent{h, body})
		}
		var buf bytes.Buffer
		var werr error
		if r.Guard("WriteFrames", nil, func() {
			if rng.IntN(2) == 0 {
				werr = wire.WriteFrames(&buf, frames, max)
			} else {
				for _, f := range frames {
					if werr = wire.WriteFrame(&buf, f, max); werr != nil {
						return
					}
				}
			}
		}) {
			continue
		}
		if werr != nil {
			r.Violation("stream-valid-frame-not-written", map[string]any{"err": werr.Error(), "max": max})
			continue
		}
		rd := &c26hChunkReader{data: buf.Bytes(), rng: rng}
		for i, w := range want {
			r.Eval(1)
			var got wire.Frame
			var err error
			if r.Guard("ReadFrame", nil, func() { got, err = wire.ReadFrame(rd, max) }) {
				break
			}
			if err != nil {
				r.Violation("stream-valid-frame-rejected", map[string]any{"frame": i, "of": nf, "header": fmt.Sprintf("%+v", w.h), "max": max, "err": err.Error()})
				break
			}
			if got.Header != w.h || !bytes.Equal(got.Body.Bytes(), w.body) {
				r.Violation("stream-roundtrip-mismatch", map[string]any{"frame": i, "of": nf, "want": fmt.Sprintf("%+v", w.h), "got": fmt.Sprintf("%+v", got.Header), "body_equal": bytes.Equal(got.Body.Bytes(), w.body)})
				break
			}
			got.Body.Release()
			r.Count("stream.frames_ok", 1)
			r.Nontrivial(fmt.Sprintf("stream|k%d|p%d|len=%s", w.h.Kind, w.h.Priority, c26hLenClass(w.h.BodyLen, max)))
		}
		if _, err := wire.ReadFrame(rd, max); err == nil {
			r.Violation("stream-frame-from-nothing", map[string]any{"frames": nf})
		}
	}
}

var c26hSink []byte

func c26hTotalAlloc() uint64 {
	var ms runtime.MemStats
	runtime.ReadMemStats(&ms)
	return ms.TotalAlloc
}

// c26hOversizeStream: a stream whose (otherwise valid) header declares a body
// larger than the limit must be rejected by the stream reader without
// allocating anything body-sized. Allocation is observed as the process-wide
// TotalAlloc delta around the call (this test runs alone in its process; the
// bound is 1 MiB against declared bodies of 8..96 MiB).
func c26hOversizeStream(r *verifkit.Run, rng *rand.Rand, n int) {
	const bound = 1 << 20
	// instrument self-test: a real body-sized allocation must be visible
	before := c26hTotalAlloc()
	c26hSink = make([]byte, 8<<20)
	c26hSink[rng.IntN(len(c26hSink))] = 1
	probe := c26hTotalAlloc() - before
	c26hSink = nil
	r.Note("alloc_probe_8MiB_delta", probe)
	if probe < 8<<20 {
		r.Inconclusive(fmt.Sprintf("alloc instrument does not see an 8 MiB allocation (delta=%d)", probe))
		return
	}
	for i := 0; i < n; i++ {
		max := []int{0, 1, 1024, 65536, 1 << 20, 4 << 20}[rng.IntN(6)]
		declared := uint32(8<<20 + rng.IntN(88<<20))
		if rng.IntN(6) == 0 {
			declared = uint32(max) + 1 // boundary: rejection only, alloc bound is vacuous
		}
		h := c26hRandValid(rng, max)
		h.BodyLen = declared
		enc := wire.EncodeHeader(h)
		infinite := rng.IntN(2) == 0
		var tail []byte
		if !infinite && rng.IntN(2) == 0 {
			tail = make([]byte, rng.IntN(4096))
		}
		rd := &c26hChunkReader{data: append(append([]byte(nil), enc[:]...), tail...), infinite: infinite}
		if rng.IntN(2) == 0 {
			rd.rng = rng
		}
		r.Eval(1)
		var fr wire.Frame
		var err error
		gin := c26hIn{enc[:], max}
		a0 := c26hTotalAlloc()
		panicked := r.Guard("ReadFrame:oversize", gin, func() { fr, err = wire.ReadFrame(rd, max) })
		delta := c26hTotalAlloc() - a0
		if panicked {
			continue
		}
		w := map[string]any{"header": fmt.Sprintf("% x", enc[:]), "max": max, "declared": declared, "alloc_delta": delta, "consumed": rd.consumed, "infinite_tail": infinite}
		if err == nil {
			w["got_body_len"] = fr.Body.Len()
			r.Violation("stream-oversize-accepted", w)
			fr.Body.Release()
			continue
		}
		r.Max("oversize.max_alloc_delta", int(delta))
		if declared >= 8<<20 && delta > bound {
			w["err"] = err.Error()
			r.Violation("stream-oversize-allocated-before-reject", w)
			continue
		}
		if rd.consumed > wire.HeaderSize {
			// Not forbidden by the statement (a reader may read ahead), only recorded.
			r.Count("oversize.read_past_header", 1)
		}
		r.Count("oversize.rejected", 1)
		r.Nontrivial(fmt.Sprintf("oversize|max=%s|inf=%v|frag=%v|k%d|p%d", c26hMaxClass(max), infinite, rd.rng != nil, h.Kind, h.Priority))
	}
}

func TestVerifC26Header(t *testing.T) {
	r := verifkit.Start(t, "C26", "header")
	defer r.Finish()
	r.SetRule("header unit: (1) every valid kind(1..5) x priority(1..4) x {service,request,body-length boundary and PRNG values} x max-body limit is encoded and must decode to the same fields and re-encode to the same bytes; (2) for base headers, every single-field corruption (magic: 16 bit flips + full 65535-value sweep on one base; version/flags/kind/priority: all wrong byte values; reserved: 32 bits, every byte value, random words; body length: several values above the limit) must be rejected; (3) PRNG multi-field soups: acceptance must equal the reference predicate; (4) real writer -> fragmenting reader stream round trip; (5) oversize-declaring stream must be rejected with TotalAlloc delta < 1 MiB for declared bodies of 8..96 MiB. Non-trivial = every such evaluation; distinct by abstract shape (check kind, field, kind/priority value, length class, limit class), not payload bytes.")
	r.Assume("header layout offsets for magic/version/flags/reserved taken from the wire format doc in frame.go; kind/priority/service/request/body offsets verified differentially at start")
	r.Assume("TotalAlloc delta is attributed to ReadFrame because the unit runs single-goroutine in its own process")

	if err := c26hLayoutSelfCheck(); err != nil {
		r.Inconclusive("layout self-check failed: " + err.Error())
		return
	}
	rng := r.Rand(26, 1)

	// (1) exhaustive kind x priority x limit with boundary fields
	r.BeginCase(0, "roundtrip")
	reps := r.N(40, 400)
	for _, max := range c26hMaxes {
		for k := c26hKindMin; k <= c26hKindMax; k++ {
			for p := c26hPriMin; p <= c26hPriMax; p++ {
				for i := 0; i < reps; i++ {
					h := c26hRandValid(rng, max)
					h.Kind, h.Priority = core.FrameKind(k), core.Priority(p)
					c26hCheckValid(r, h, max)
				}
			}
		}
	}
	// (1b) exhaustive kind byte x priority byte acceptance table
	r.BeginCase(1, "kind-priority-table")
	for _, max := range []int{0, 4096} {
		for k := 0; k < 256; k++ {
			for p := 0; p < 256; p++ {
				enc := wire.EncodeHeader(wire.Header{Kind: core.FrameKind(k), Priority: core.Priority(p), ServiceID: 7, RequestID: 9})
				valid := k >= c26hKindMin && k <= c26hKindMax && p >= c26hPriMin && p <= c26hPriMax
				if valid {
					c26hCheckValid(r, wire.Header{Kind: core.FrameKind(k), Priority: core.Priority(p), ServiceID: 7, RequestID: 9}, max)
					continue
				}
				field := "kind+priority"
				if k >= c26hKindMin && k <= c26hKindMax {
					field = "priority"
				} else if p >= c26hPriMin && p <= c26hPriMax {
					field = "kind"
				}
				c26hCheckCorrupt(r, enc[:], max, field, "table")
			}
		}
	}
	// (2) single-field corruptions
	r.BeginCase(2, "single-field-corruption")
	nBases := r.N(60, 600)
	for i := 0; i < nBases; i++ {
		max := c26hMaxes[rng.IntN(len(c26hMaxes))]
		base := c26hRandValid(rng, max)
		if i < c26hKindMax*c26hPriMax { // make sure every kind x priority is a base at least once
			base.Kind = core.FrameKind(c26hKindMin + i%c26hKindMax)
			base.Priority = core.Priority(c26hPriMin + (i/c26hKindMax)%c26hPriMax)
		}
		c26hCorruptions(r, rng, base, max, i == 0 || (r.Thorough() && i%50 == 0))
	}
	// short inputs: not named by the statement; must not panic, and an
	// accepted short input would be a decode from nothing.
	r.BeginCase(3, "short-input")
	full := wire.EncodeHeader(wire.Header{Kind: 3, Priority: 3, ServiceID: 1, RequestID: 2, BodyLen: 3})
	for n := 0; n < wire.HeaderSize; n++ {
		r.Eval(1)
		var err error
		if r.Guard("DecodeHeader:short", n, func() { _, err = wire.DecodeHeader(full[:n], 1024) }) {
			continue
		}
		if err == nil {
			r.Violation("header-corrupt-accepted:short", map[string]any{"len": n})
		}
		r.Count("short.rejected", 1)
	}
	// (3) soups
	r.BeginCase(4, "soup")
	c26hSoup(r, rng, r.N(400_000, 6_000_000))
	// (4) stream round trip
	r.BeginCase(5, "stream-roundtrip")
	c26hStream(r, rng, r.N(300, 4000))
	// (5) oversize on the stream reader
	r.BeginCase(6, "stream-oversize")
	c26hOversizeStream(r, rng, r.N(300, 3000))
}
