//go:build verif

// C26 unit "rpc": RPC request/response correlation monitor.
//
// A real transport.Server on loopback TCP and a real transport.Client whose
// Dialer wraps every net.Conn in a fault-injecting conn. 2..64 concurrent
// callers issue Call with a payload that carries a run-unique call id and the
// behaviour the handler must show for it (answer f(id) now / after a delay /
// only after the caller gave up / after N further calls completed / never, or
// answer with an error that also carries the id). Callers use short deadlines,
// timers, pre-cancelled contexts and "cancel as soon as the handler started";
// a chaos goroutine resets / half-closes / stalls links mid-frame and calls
// ClosePeer at PRNG points of the case's logical progress.
//
// Oracle (statement: "Each concurrent RPC call receives exactly its own
// response or an error, never another call's response, including across
// timeouts, cancellations and connection loss"):
//
//	per call     success  => payload == f(own id, asked length) byte for byte (foreign-response / *-garbled)
//	             the returned slice is kept by the caller and must still be
//	             f(own id) after further calls completed and at the end of
//	             the case             (response-mutated-after-return / foreign-response)
//	             RemoteError produced by our handler => exactly own id's text (foreign-error-response / own-error-response-garbled)
//	             success  => the handler really ran for this id           (success-without-handler)
//	             any error is allowed (deadlines are workload, not oracle)
//	server side  every request body that reaches the handler is intact, and
//	             still is when the handler returns, however long it was parked
//	                                   (request-garbled / request-foreign / request-mutated-during-handler)
//	quiescence   every issued call returned (Go returns once; watchdog => inconclusive)
//	             pending-RPC gauge of every live connection returns to 0  (poll; watchdog => inconclusive)
//	             after every connection actor has exited, the final
//	             pending-RPC gauge of every connection is 0               (pending-leak-after-close, deterministic)
//
// The pending gauge is taken from the public Observer event "pending_rpc"
// (Stats().PendingRPC is never filled in by the client, so it cannot be
// used). The event stream is coalesced latest-state-per-connection by the
// client's observer drain and flushed by Client.Stop, so after Stop the last
// event per connection is the state after its last table mutation.
package c26_test

import (
	"bytes"
	"context"
	"encoding/binary"
	"errors"
	"fmt"
	"io"
	"math/rand/v2"
	"net"
	"runtime"
	"sort"
	"strconv"
	"strings"
	"sync"
	"sync/atomic"
	"testing"
	"time"

	"github.com/WuKongIM/WuKongIM/pkg/goroutine"
	"github.com/WuKongIM/WuKongIM/pkg/transport"
	"github.com/WuKongIM/WuKongIM/pkg/verifkit"
)

const (
	c26Svc     uint16           = 26
	c26CliNode transport.NodeID = 1
	c26SrvNode transport.NodeID = 2

	c26K1 uint64 = 0xa5c3_96e1_0f2d_4b87
	c26K2 uint64 = 0x1357_9bdf_2468_ace0

	c26ReqHdr  = 23
	c26RespHdr = 16
	c26ErrPfx  = "c26herr:"
)

// handler behaviours (carried in the request)
const (
	c26bEcho = iota
	c26bEchoDelay
	c26bErr
	c26bErrDelay
	c26bLate    // answer f(id) only after the caller's Call has returned
	c26bLateErr // answer the id-carrying error only after the caller's Call has returned
	c26bLag     // answer f(id) after `lag` further calls of the case have completed
	c26bNever   // answer f(id) only when the case is over
	c26bCount
)

var c26BehName = [...]string{"echo", "echo-delay", "err", "err-delay", "late", "late-err", "lag", "never"}

// caller policies
const (
	c26pLong = iota // 30 s deadline (never expected to fire)
	c26pBackground
	c26pShort
	c26pPreCancelled
	c26pCancelTimer
	c26pCancelOnHandled
	c26pCount
)

var c26PolName = [...]string{"long", "background", "short-deadline", "pre-cancelled", "cancel-timer", "cancel-on-handled"}

func c26Mix(x uint64) uint64 {
	x += 0x9e3779b97f4a7c15
	x = (x ^ (x >> 30)) * 0xbf58476d1ce4e5b9
	x = (x ^ (x >> 27)) * 0x94d049bb133111eb
	return x ^ (x >> 31)
}

// Keyed content: byte i of the content for key k is byte i%8 of
// c26Mix(k + i/8). It is generated and checked 8 bytes at a time into/out of
// private memory. (A shared pattern buffer would be far more expensive: under
// the race detector concurrent range reads of the same memory contend on its
// shadow cells.)
const c26MaxLen = 2<<20 + 64 // longest payload ever generated (largest frame limit + slack)

func c26FillKeyed(dst []byte, key uint64) {
	i := 0
	for ; i+8 <= len(dst); i += 8 {
		binary.LittleEndian.PutUint64(dst[i:], c26Mix(key+uint64(i>>3)))
	}
	if i < len(dst) {
		var w [8]byte
		binary.LittleEndian.PutUint64(w[:], c26Mix(key+uint64(i>>3)))
		copy(dst[i:], w[:])
	}
}

func c26IsKeyed(b []byte, key uint64) bool {
	i := 0
	for ; i+8 <= len(b); i += 8 {
		if binary.LittleEndian.Uint64(b[i:]) != c26Mix(key+uint64(i>>3)) {
			return false
		}
	}
	if i < len(b) {
		var w [8]byte
		binary.LittleEndian.PutUint64(w[:], c26Mix(key+uint64(i>>3)))
		return bytes.Equal(b[i:], w[:len(b)-i])
	}
	return true
}

type c26Req struct {
	id      uint64
	beh     uint8
	delay   time.Duration
	respLen uint32 // total length of the success payload, or of the error text padding
	lag     uint32
}

// c26BuildReq builds a request payload of exactly total bytes (>= c26ReqHdr).
func c26BuildReq(q c26Req, total int) []byte {
	b := make([]byte, total)
	binary.BigEndian.PutUint64(b[0:], q.id)
	b[8] = q.beh
	binary.BigEndian.PutUint16(b[9:], uint16(q.delay/(10*time.Microsecond)))
	binary.BigEndian.PutUint32(b[11:], q.respLen)
	binary.BigEndian.PutUint32(b[15:], q.lag)
	binary.BigEndian.PutUint32(b[19:], uint32(total-c26ReqHdr))
	c26FillKeyed(b[c26ReqHdr:], q.id^c26K2)
	return b
}

func c26ParseReq(p []byte) (c26Req, bool) {
	if len(p) < c26ReqHdr {
		return c26Req{}, false
	}
	q := c26Req{
		id:      binary.BigEndian.Uint64(p[0:]),
		beh:     p[8],
		delay:   time.Duration(binary.BigEndian.Uint16(p[9:])) * 10 * time.Microsecond,
		respLen: binary.BigEndian.Uint32(p[11:]),
		lag:     binary.BigEndian.Uint32(p[15:]),
	}
	pad := int(binary.BigEndian.Uint32(p[19:]))
	if pad != len(p)-c26ReqHdr || q.beh >= c26bCount || q.respLen > c26MaxLen || pad > c26MaxLen {
		return q, false
	}
	return q, c26IsKeyed(p[c26ReqHdr:], q.id^c26K2)
}

func c26RespHead(id uint64) (h [c26RespHdr]byte) {
	binary.BigEndian.PutUint64(h[0:], id^c26K1)
	binary.BigEndian.PutUint64(h[8:], c26Mix(id))
	return
}

// c26Resp is f(id, n): the only payload call `id` (which asked for n bytes)
// may successfully receive: the first n bytes of head(id) || keyed content.
func c26Resp(id uint64, n int) []byte {
	b := make([]byte, n)
	h := c26RespHead(id)
	copy(b, h[:])
	if n > c26RespHdr {
		c26FillKeyed(b[c26RespHdr:], id^c26K1^c26K2)
	}
	return b
}

// c26RespIs reports b == f(id, n) without allocating.
func c26RespIs(id uint64, n int, b []byte) bool {
	if len(b) != n {
		return false
	}
	h := c26RespHead(id)
	k := n
	if k > c26RespHdr {
		k = c26RespHdr
	}
	if !bytes.Equal(b[:k], h[:k]) {
		return false
	}
	return n <= c26RespHdr || c26IsKeyed(b[c26RespHdr:], id^c26K1^c26K2)
}

// c26ErrMsg is the only handler error text call `id` may receive.
func c26ErrMsg(id uint64, pad int) string {
	head := fmt.Sprintf("%s%016x:", c26ErrPfx, id)
	b := make([]byte, len(head)+(pad+7)&^7)
	copy(b, head)
	for i := len(head); i+8 <= len(b); i += 8 { // letters a..p
		binary.LittleEndian.PutUint64(b[i:], 0x6161616161616161+(c26Mix(id^c26K1+uint64(i))&0x0f0f0f0f0f0f0f0f))
	}
	return string(b[:len(head)+pad])
}

func c26FirstDiff(a, b []byte) int {
	n := len(a)
	if len(b) < n {
		n = len(b)
	}
	for i := 0; i < n; i++ {
		if a[i] != b[i] {
			return i
		}
	}
	if len(a) != len(b) {
		return n
	}
	return -1
}

// c26RespOwner recognises a well-formed f(x) header and returns x.
func c26RespOwner(b []byte) (uint64, bool) {
	if len(b) < c26RespHdr {
		return 0, false
	}
	x := binary.BigEndian.Uint64(b[0:]) ^ c26K1
	return x, binary.BigEndian.Uint64(b[8:]) == c26Mix(x)
}

// ---------------------------------------------------------------------------
// fault-injecting connection

type c26Conn struct {
	tcp *net.TCPConn
	cs  *c26Case
	id  int

	wmu  sync.Mutex
	wrng *rand.Rand
	rmu  sync.Mutex
	rrng *rand.Rand
	// rStallNext: the previous Read was cut short on purpose; stall before the next.
	rStallNext int32

	armW atomic.Int32 // 0 none, 1 stall mid-frame then continue, 2 stall mid-frame then reset
	armR atomic.Int32
	dead atomic.Bool
}

func (c *c26Conn) rst(kind string) bool {
	if !c.dead.CompareAndSwap(false, true) {
		return false
	}
	infl := c.cs.inflight.Load()
	_ = c.tcp.SetLinger(0)
	_ = c.tcp.Close()
	c.cs.noteLinkLoss(kind, infl)
	return true
}

func (c *c26Conn) Write(p []byte) (int, error) {
	c.wmu.Lock()
	defer c.wmu.Unlock()
	cs := c.cs
	if arm := c.armW.Swap(0); arm != 0 && len(p) > 0 {
		k := c.wrng.IntN(len(p) + 1)
		n, err := c.tcp.Write(p[:k])
		if err != nil {
			return n, err
		}
		cs.count("fault.write_stall_midframe", 1)
		time.Sleep(time.Duration(1+c.wrng.IntN(30)) * time.Millisecond)
		if arm == 2 {
			c.rst("reset-after-write-stall")
			return n, io.ErrClosedPipe
		}
		m, err := c.tcp.Write(p[k:])
		return n + m, err
	}
	if cs.linkFaults {
		switch x := c.wrng.IntN(2000); {
		case x < 30:
			cs.count("fault.write_delay", 1)
			time.Sleep(time.Duration(20+c.wrng.IntN(800)) * time.Microsecond)
		case x < 60 && len(p) > 1:
			cs.count("fault.write_fragmented", 1)
			k := 1 + c.wrng.IntN(len(p)-1)
			n, err := c.tcp.Write(p[:k])
			if err != nil {
				return n, err
			}
			time.Sleep(time.Duration(c.wrng.IntN(300)) * time.Microsecond)
			m, err := c.tcp.Write(p[k:])
			return n + m, err
		case x == 60 && len(p) > 1:
			k := c.wrng.IntN(len(p))
			n, _ := c.tcp.Write(p[:k])
			c.rst("reset-midframe-write")
			return n, io.ErrClosedPipe
		}
	}
	return c.tcp.Write(p)
}

func (c *c26Conn) Read(p []byte) (int, error) {
	c.rmu.Lock()
	defer c.rmu.Unlock()
	cs := c.cs
	if c.rStallNext != 0 {
		mode := c.rStallNext
		c.rStallNext = 0
		cs.count("fault.read_stall_midframe", 1)
		time.Sleep(time.Duration(1+c.rrng.IntN(30)) * time.Millisecond)
		if mode == 2 {
			c.rst("reset-after-read-stall")
			return 0, io.ErrClosedPipe
		}
	}
	if arm := c.armR.Swap(0); arm != 0 && len(p) > 1 {
		// deliver only a prefix of what the transport asked for (header or
		// body cut in the middle), stall before the rest
		k := 1 + c.rrng.IntN(len(p)-1)
		n, err := c.tcp.Read(p[:k])
		c.rStallNext = arm
		return n, err
	}
	if cs.linkFaults {
		switch x := c.rrng.IntN(2000); {
		case x < 30:
			cs.count("fault.read_delay", 1)
			time.Sleep(time.Duration(20+c.rrng.IntN(800)) * time.Microsecond)
		case x < 90 && len(p) > 1:
			cs.count("fault.read_fragmented", 1)
			return c.tcp.Read(p[:1+c.rrng.IntN(len(p)-1)])
		case x == 90:
			c.rst("reset-before-read")
			return 0, io.ErrClosedPipe
		}
	}
	return c.tcp.Read(p)
}

func (c *c26Conn) Close() error {
	c.dead.Store(true)
	c.cs.connClosed.Add(1)
	return c.tcp.Close()
}
func (c *c26Conn) LocalAddr() net.Addr                { return c.tcp.LocalAddr() }
func (c *c26Conn) RemoteAddr() net.Addr               { return c.tcp.RemoteAddr() }
func (c *c26Conn) SetDeadline(t time.Time) error      { return c.tcp.SetDeadline(t) }
func (c *c26Conn) SetReadDeadline(t time.Time) error  { return c.tcp.SetReadDeadline(t) }
func (c *c26Conn) SetWriteDeadline(t time.Time) error { return c.tcp.SetWriteDeadline(t) }

// ---------------------------------------------------------------------------
// observer: latest pending_rpc gauge per connection (SourceID)

type c26Obs struct {
	mu     sync.Mutex
	last   map[uint64]transport.Event
	events map[string]int
	maxInf int
}

func (o *c26Obs) ObserveTransport(e transport.Event) {
	o.mu.Lock()
	o.events[e.Name]++
	if e.Name == "pending_rpc" {
		if prev, ok := o.last[e.SourceID]; !ok || e.Revision >= prev.Revision {
			o.last[e.SourceID] = e
		}
		if e.Inflight > o.maxInf {
			o.maxInf = e.Inflight
		}
	}
	o.mu.Unlock()
}

// pending returns (connections seen, sum of latest gauges, the non-zero ones).
func (o *c26Obs) pending() (int, int, map[string]int) {
	o.mu.Lock()
	defer o.mu.Unlock()
	sum := 0
	var nz map[string]int
	for id, e := range o.last {
		if e.Inflight != 0 {
			sum += e.Inflight
			if nz == nil {
				nz = map[string]int{}
			}
			nz[fmt.Sprintf("conn#%d(%s)", id, e.Result)] = e.Inflight
		}
	}
	return len(o.last), sum, nz
}

type c26Disc string

func (d c26Disc) Resolve(transport.NodeID) (string, error) { return string(d), nil }

// ---------------------------------------------------------------------------
// one case

type c26Cfg struct {
	Callers     int    `json:"callers"`
	Total       int    `json:"calls"`
	Pool        int    `json:"pool"`
	Concurrency int    `json:"svc_concurrency"`
	QueueSize   int    `json:"svc_queue"`
	SvcTimeout  string `json:"svc_timeout"`
	BatchFrames int    `json:"max_batch_frames"`
	BatchBytes  int    `json:"max_batch_bytes"`
	QueueItems  int    `json:"max_queued_items"`
	BatchWait   string `json:"write_batch_wait"`
	Cooldown    string `json:"dial_cooldown"`
	LinkFaults  bool   `json:"link_faults"`
	Chaos       int    `json:"chaos_actions"`
	FrameLimit  int    `json:"max_frame_body"`
	Marathon    bool   `json:"marathon,omitempty"`
	LagHeavy    bool   `json:"lag_heavy,omitempty"`
	SizeHeavy   bool   `json:"size_heavy,omitempty"`
	DialFailPct int    `json:"dial_fail_pct"`
}

type c26Case struct {
	r    *verifkit.Run
	idx  int
	tag  uint64
	cfg  c26Cfg
	desc string

	client *transport.Client
	server *transport.Server
	obs    *c26Obs

	linkFaults bool
	parkCap    int64

	next       atomic.Int64
	completed  atomic.Int64
	inflight   atomic.Int64
	parked     atomic.Int64
	activeH    atomic.Int64
	connSeq    atomic.Int64
	connClosed atomic.Int64
	gate       chan struct{}

	done    []chan struct{}
	started []chan struct{}
	startFl []atomic.Uint32
	handled []atomic.Uint32
	plan    []atomic.Uint32 // beh<<8 | pol, for witnesses

	nmu   sync.Mutex
	conns []*c26Conn

	wmu     sync.Mutex
	waiters []c26Waiter
	wmin    atomic.Int64

	heldBytes atomic.Int64
	hmu       sync.Mutex
	finalHeld []c26Held

	cmu      sync.Mutex
	counters map[string]int
	// non-triviality facts
	lossAt8    int // link losses (reset/half-close) while >= 8 calls in flight
	closePeer8 int
	maxInfl    int64
}

// progress waiters: handlers of kind "lag" and the chaos goroutine sleep until
// the case's completed-call counter reaches a target (logical time, no polling).
type c26Waiter struct {
	target int64
	ch     chan struct{}
}

func (cs *c26Case) waitProgress(target int64) <-chan struct{} {
	ch := make(chan struct{})
	cs.wmu.Lock()
	cs.waiters = append(cs.waiters, c26Waiter{target, ch})
	if target < cs.wmin.Load() {
		cs.wmin.Store(target)
	}
	cs.wmu.Unlock()
	cs.notifyProgress(cs.completed.Load()) // re-check after publishing (no lost wake-up)
	return ch
}

func (cs *c26Case) notifyProgress(c int64) {
	if c < cs.wmin.Load() {
		return
	}
	cs.wmu.Lock()
	min := int64(1 << 62)
	keep := cs.waiters[:0]
	for _, w := range cs.waiters {
		if w.target <= c {
			close(w.ch)
			continue
		}
		keep = append(keep, w)
		if w.target < min {
			min = w.target
		}
	}
	cs.waiters = keep
	cs.wmin.Store(min)
	cs.wmu.Unlock()
}

func (cs *c26Case) count(k string, n int) {
	cs.cmu.Lock()
	cs.counters[k] += n
	cs.cmu.Unlock()
}

func (cs *c26Case) noteLinkLoss(kind string, infl int64) {
	cs.cmu.Lock()
	cs.counters["fault."+kind]++
	if infl >= 8 {
		cs.lossAt8++
		cs.counters["fault.linkloss_with_ge8_inflight"]++
	}
	cs.cmu.Unlock()
}

func (cs *c26Case) violate(sig string, w map[string]any) {
	w["case_cfg"] = cs.cfg
	cs.r.Violation(sig, w)
}

func (cs *c26Case) planOf(idx int) string {
	if idx < 0 || idx >= len(cs.plan) {
		return "?"
	}
	v := cs.plan[idx].Load()
	if v == 0 {
		return "not-issued"
	}
	v--
	return c26BehName[(v>>8)&0xff] + "/" + c26PolName[v&0xff]
}

func (cs *c26Case) dial(network, addr string, timeout time.Duration) (net.Conn, error) {
	n := cs.connSeq.Add(1)
	rng := cs.r.Rand(26, uint64(cs.idx), 7, uint64(n))
	if cs.linkFaults && rng.IntN(4) == 0 {
		time.Sleep(time.Duration(rng.IntN(1500)) * time.Microsecond) // lets other callers pile up on the dialing slot
	}
	if cs.cfg.DialFailPct > 0 && rng.IntN(100) < cs.cfg.DialFailPct {
		cs.count("fault.dial_failed", 1)
		return nil, errors.New("c26: injected dial failure")
	}
	d := net.Dialer{Timeout: timeout}
	raw, err := d.Dial(network, addr)
	if err != nil {
		cs.count("dial.real_error", 1)
		return nil, err
	}
	fc := &c26Conn{tcp: raw.(*net.TCPConn), cs: cs, id: int(n),
		wrng: cs.r.Rand(26, uint64(cs.idx), 8, uint64(n)), rrng: cs.r.Rand(26, uint64(cs.idx), 9, uint64(n))}
	cs.nmu.Lock()
	cs.conns = append(cs.conns, fc)
	cs.nmu.Unlock()
	cs.count("dial.ok", 1)
	return fc, nil
}

func (cs *c26Case) liveConn(rng *rand.Rand) *c26Conn {
	cs.nmu.Lock()
	defer cs.nmu.Unlock()
	var live []*c26Conn
	for _, c := range cs.conns {
		if !c.dead.Load() {
			live = append(live, c)
		}
	}
	if len(live) == 0 {
		return nil
	}
	return live[rng.IntN(len(live))]
}

// handle is the service handler. It must not retain p after returning.
func (cs *c26Case) handle(ctx context.Context, p []byte) ([]byte, error) {
	cs.activeH.Add(1)
	defer cs.activeH.Add(-1)
	q, ok := c26ParseReq(p)
	if !ok {
		head := p
		if len(head) > 32 {
			head = head[:32]
		}
		cs.violate("request-garbled", map[string]any{"len": len(p), "head": fmt.Sprintf("% x", head), "claimed_id": fmt.Sprintf("%#x", q.id)})
		return nil, errors.New("c26: garbled request")
	}
	idx := int(uint32(q.id))
	if q.id&^0xffffffff != cs.tag || idx >= len(cs.done) || cs.plan[idx].Load() == 0 {
		cs.violate("request-foreign", map[string]any{"id": fmt.Sprintf("%#x", q.id), "case_tag": fmt.Sprintf("%#x", cs.tag)})
		return nil, errors.New("c26: foreign request")
	}
	if cs.handled[idx].Add(1) > 1 {
		cs.count("handler.duplicate_delivery", 1) // not promised either way; evidence only
	}
	if cs.startFl[idx].CompareAndSwap(0, 1) {
		close(cs.started[idx])
	}
	cs.count("handler."+c26BehName[q.beh], 1)
	if len(p) > 65536 {
		cs.count("handler.request_over_64KiB", 1)
	}
	// The handler owns p until it returns (the service releases the slab only
	// afterwards): the body must still be this call's body when we are done,
	// however long we were parked. (Keeping p beyond return would be a handler
	// bug, so it is not done.)
	defer func() {
		if q2, ok2 := c26ParseReq(p); !ok2 || q2 != q {
			sig := "request-mutated-during-handler"
			if ok2 {
				sig = "request-became-foreign-during-handler"
			}
			cs.violate(sig, map[string]any{"id": fmt.Sprintf("%#x", q.id), "now_id": fmt.Sprintf("%#x", q2.id), "len": len(p), "plan": cs.planOf(idx)})
		}
	}()
	var herr error
	if q.beh == c26bErr || q.beh == c26bErrDelay || q.beh == c26bLateErr {
		herr = errors.New(c26ErrMsg(q.id, int(q.respLen)))
	}
	beh := q.beh
	if beh == c26bLag || beh == c26bNever {
		if cs.parked.Add(1) > cs.parkCap {
			cs.parked.Add(-1)
			cs.count("handler.park_cap_downgraded_to_late", 1)
			beh = c26bLate
		} else {
			defer cs.parked.Add(-1)
		}
	}
	switch beh {
	case c26bEcho:
		return c26Resp(q.id, int(q.respLen)), nil
	case c26bEchoDelay:
		time.Sleep(q.delay)
		return c26Resp(q.id, int(q.respLen)), nil
	case c26bErr:
		return nil, herr
	case c26bErrDelay:
		time.Sleep(q.delay)
		return nil, herr
	case c26bLate, c26bLateErr:
		select {
		case <-cs.done[idx]:
		case <-ctx.Done():
			return nil, ctx.Err()
		case <-cs.gate:
		}
		time.Sleep(q.delay)
		if beh == c26bLateErr {
			return nil, herr
		}
		return c26Resp(q.id, int(q.respLen)), nil
	case c26bLag:
		select {
		case <-cs.waitProgress(int64(idx) + int64(q.lag)):
			cs.count("handler.lag_released_midcase", 1)
		case <-ctx.Done():
			return nil, ctx.Err()
		case <-cs.gate:
		}
		return c26Resp(q.id, int(q.respLen)), nil
	default: // never
		select {
		case <-cs.gate:
		case <-ctx.Done():
			return nil, ctx.Err()
		}
		return c26Resp(q.id, int(q.respLen)), nil
	}
}

// c26SizeClass draws a payload length. Classes sit on every slab boundary of
// the transport's buffer pool (512, 4096, 65536, 1 MiB), on the frame limit,
// and in between. A request body is the payload itself; a response body is one
// status byte plus the payload, hence b-3..b+2 around each boundary b. Bodies
// above 64 KiB cost a 1 MiB slab each, so they are kept to a few percent.
func c26SizeClass(rng *rand.Rand, limit, min int, heavy, boostLarge bool) int {
	n := 0
	x := rng.IntN(1000)
	if !heavy {
		// race-detector unit: every byte of a large body costs ~50 ns per copy
		// under the detector, so bodies above 64 KiB are rare and mostly just
		// above the boundary; the size-heavy unit (no detector) does the rest
		switch {
		case x < 800:
			n = min + rng.IntN(64)
		case x < 830:
			n = rng.IntN(3)
		case x < 890:
			n = []int{512, 4096}[rng.IntN(2)] - 3 + rng.IntN(6)
		case x < 980:
			n = rng.IntN(4000)
		case x < 994:
			n = rng.IntN(60 << 10)
		case x < 998:
			n = 65536 - 3 + rng.IntN(6)
		case x < 999:
			n = 100 << 10
		default:
			if rng.IntN(2) == 0 {
				n = min + rng.IntN(64)
			} else {
				n = []int{512 << 10, 1<<20 - 2, limit - 2, limit - 1, limit, limit + 1}[rng.IntN(6)]
			}
		}
		if n < min {
			n = min
		}
		return n
	}
	if boostLarge && rng.IntN(100) < 10 {
		x = 900 + rng.IntN(100) // a call that will probably succeed: more large answers
	}
	switch {
	case x < 700:
		n = min + rng.IntN(64)
	case x < 730:
		n = rng.IntN(3)
	case x < 800:
		n = []int{512, 4096}[rng.IntN(2)] - 3 + rng.IntN(6)
	case x < 860:
		n = rng.IntN(4000)
	case x < 900:
		n = rng.IntN(60 << 10)
	case x < 930:
		n = 65536 - 3 + rng.IntN(6)
	case x < 965:
		n = []int{100 << 10, 512 << 10, 65537 + rng.IntN(limit-65537)}[rng.IntN(3)]
	case x < 985:
		n = 1<<20 - 3 + rng.IntN(6)
	default:
		n = limit - 3 + rng.IntN(6)
	}
	if n < min {
		n = min
	}
	return n
}

// c26Held is a result a caller keeps after Call returned, to be verified again later.
type c26Held struct {
	idx     int
	id      uint64
	n       int
	payload []byte // the very slice Call returned (never copied)
	msg     string // or the RemoteError text
	isErr   bool
	due     int64 // re-verify once the case's completed-call counter reaches this
}

const c26HeldCap = 64 << 20 // bytes of returned payloads kept per case

func (cs *c26Case) verifyHeld(h *c26Held, phase string) {
	cs.count("held.verified."+phase, 1)
	if h.isErr {
		if h.msg != c26ErrMsg(h.id, h.n) {
			cs.violate("error-text-mutated-after-return", map[string]any{"own_id": fmt.Sprintf("%#x", h.id), "phase": phase, "len": len(h.msg)})
		}
		return
	}
	if c26RespIs(h.id, h.n, h.payload) {
		return
	}
	w := map[string]any{"own_id": fmt.Sprintf("%#x", h.id), "own_plan": cs.planOf(h.idx), "phase": phase, "len": h.n,
		"first_diff_offset": c26FirstDiff(h.payload, c26Resp(h.id, h.n)),
		"note":              "payload was byte-equal to f(own id) when Call returned; re-verified later while the caller still held it"}
	if owner, ok := c26RespOwner(h.payload); ok && owner != h.id {
		w["now_id"] = fmt.Sprintf("%#x", owner)
		w["now_plan"] = cs.planOf(int(uint32(owner)))
		w["now_same_case"] = owner&^0xffffffff == cs.tag
		cs.violate("foreign-response", w)
		return
	}
	cs.violate("response-mutated-after-return", w)
}

func (cs *c26Case) caller(ci int, wg *sync.WaitGroup) {
	defer wg.Done()
	rng := cs.r.Rand(26, uint64(cs.idx), 1, uint64(ci))
	var fresh, kept []c26Held // fresh: waiting for the mid-case re-verification
	defer func() {
		cs.hmu.Lock()
		cs.finalHeld = append(append(cs.finalHeld, fresh...), kept...)
		cs.hmu.Unlock()
	}()
	for {
		idx := int(cs.next.Add(1) - 1)
		if idx >= cs.cfg.Total {
			return
		}
		if h := cs.oneCall(idx, rng); h != nil {
			h.due = cs.completed.Load() + int64(1+rng.IntN(1+rng.IntN(300)))
			fresh = append(fresh, *h)
			for cs.heldBytes.Add(0) > c26HeldCap && len(kept) > 0 { // bounded memory: drop own oldest
				cs.verifyHeld(&kept[0], "evicted")
				cs.heldBytes.Add(-int64(kept[0].n))
				kept[0] = c26Held{}
				kept = kept[1:]
			}
		}
		now := cs.completed.Load()
		w := fresh[:0]
		for i := range fresh {
			if now >= fresh[i].due {
				cs.verifyHeld(&fresh[i], "midcase")
				kept = append(kept, fresh[i])
			} else {
				w = append(w, fresh[i])
			}
		}
		for i := len(w); i < len(fresh); i++ {
			fresh[i] = c26Held{}
		}
		fresh = w
	}
}

func (cs *c26Case) pickPlan(idx int, rng *rand.Rand) (beh, pol int) {
	if cs.cfg.Marathon {
		// one long-lived connection; a call that was given up gets its answer
		// ~65536 request ids later, while the calls around that id are in flight
		if idx < cs.cfg.Total-66_000 && rng.IntN(100) == 0 {
			return c26bLag, c26pShort
		}
		return c26bEcho, c26pLong
	}
	x := rng.IntN(100)
	if cs.cfg.LagHeavy && rng.IntN(100) < 40 {
		x = 90 // lag
	}
	switch {
	case x < 30:
		beh = c26bEcho
	case x < 50:
		beh = c26bEchoDelay
	case x < 56:
		beh = c26bErr
	case x < 62:
		beh = c26bErrDelay
	case x < 78:
		beh = c26bLate
	case x < 84:
		beh = c26bLateErr
	case x < 96:
		beh = c26bLag
	default:
		beh = c26bNever
	}
	if beh >= c26bLate {
		// the handler will not answer while the caller waits: the caller must give up by itself
		pol = []int{c26pShort, c26pShort, c26pCancelTimer, c26pCancelOnHandled, c26pCancelOnHandled, c26pPreCancelled}[rng.IntN(6)]
		if pol == c26pPreCancelled && rng.IntN(4) != 0 {
			pol = c26pCancelOnHandled
		}
		return
	}
	switch x := rng.IntN(100); {
	case x < 50:
		pol = c26pLong
	case x < 66:
		pol = c26pBackground
	case x < 78:
		pol = c26pShort
	case x < 81:
		pol = c26pPreCancelled
	case x < 92:
		pol = c26pCancelTimer
	default:
		pol = c26pCancelOnHandled
	}
	return
}

func (cs *c26Case) oneCall(idx int, rng *rand.Rand) *c26Held {
	r := cs.r
	id := cs.tag | uint64(idx)
	beh, pol := cs.pickPlan(idx, rng)
	cs.plan[idx].Store(uint32(beh<<8|pol) + 1)
	q := c26Req{id: id, beh: uint8(beh), respLen: c26RespHdr}
	reqLen := c26ReqHdr
	limit := cs.cfg.FrameLimit
	isErrBeh := beh == c26bErr || beh == c26bErrDelay || beh == c26bLateErr
	if !cs.cfg.Marathon {
		q.respLen = uint32(c26SizeClass(rng, limit, 0, cs.cfg.SizeHeavy, beh <= c26bEchoDelay && (pol == c26pLong || pol == c26pBackground)))
		if isErrBeh && rng.IntN(3) != 0 {
			q.respLen = uint32(rng.IntN(40)) // most error texts are short
		}
		reqLen = c26SizeClass(rng, limit, c26ReqHdr, cs.cfg.SizeHeavy, false)
		if (pol == c26pLong || pol == c26pBackground) && int(q.respLen)+64 > limit {
			// the answer cannot fit a frame: the server drops it, nobody will
			// ever wake this caller, so it must give up by itself
			pol = c26pShort
		}
		q.delay = time.Duration(rng.IntN(300)) * 10 * time.Microsecond
		if rng.IntN(10) == 0 {
			q.delay = time.Duration(rng.IntN(1500)) * 10 * time.Microsecond
		}
		lagKind := rng.IntN(3)
		if cs.cfg.LagHeavy {
			lagKind = 2 + rng.IntN(6)
		}
		switch lagKind {
		case 0:
			q.lag = uint32(1 + rng.IntN(40))
		case 1:
			q.lag = uint32(40 + rng.IntN(400))
		default:
			q.lag = uint32(1 + rng.IntN(1+cs.cfg.Total))
		}
	} else {
		q.lag = uint32(65_536 - 72 + rng.IntN(112))
	}
	cs.plan[idx].Store(uint32(beh<<8|pol) + 1)
	payload := c26BuildReq(q, reqLen)
	wantLen := int(q.respLen)
	if reqLen > 65536 {
		cs.count("size.request_over_64KiB", 1)
	}

	var ctx context.Context
	cancel := func() {}
	var timer *time.Timer
	switch pol {
	case c26pLong:
		ctx, cancel = context.WithTimeout(context.Background(), 30*time.Second)
	case c26pBackground:
		ctx = context.Background()
	case c26pShort:
		d := time.Duration(20+rng.IntN(3000)) * time.Microsecond
		if rng.IntN(4) == 0 {
			d = time.Duration(3+rng.IntN(25)) * time.Millisecond
		}
		ctx, cancel = context.WithTimeout(context.Background(), d)
	case c26pPreCancelled:
		ctx, cancel = context.WithCancel(context.Background())
		cancel()
	case c26pCancelTimer:
		ctx, cancel = context.WithCancel(context.Background())
		timer = time.AfterFunc(time.Duration(rng.IntN(4000))*time.Microsecond, cancel)
	case c26pCancelOnHandled:
		// safety deadline: the request may never reach the handler (queue full, link lost)
		ctx, cancel = context.WithTimeout(context.Background(), time.Duration(20+rng.IntN(60))*time.Millisecond)
		extra := time.Duration(rng.IntN(3)) * time.Duration(rng.IntN(500)) * time.Microsecond
		go func(cancel func()) {
			select {
			case <-cs.started[idx]:
				if extra > 0 {
					time.Sleep(extra)
				}
				cancel()
			case <-cs.done[idx]:
			}
		}(cancel)
	}
	shard := rng.Uint64()
	pri := transport.Priority(1 + rng.IntN(4))

	infl := cs.inflight.Add(1)
	resp, err := cs.client.Call(ctx, c26SrvNode, shard, pri, c26Svc, payload)
	cs.inflight.Add(-1)
	close(cs.done[idx])
	cs.notifyProgress(cs.completed.Add(1))
	cancel()
	if timer != nil {
		timer.Stop()
	}
	r.Eval(1)
	cs.cmu.Lock()
	if infl > cs.maxInfl {
		cs.maxInfl = infl
	}
	cs.cmu.Unlock()

	wit := func() map[string]any {
		return map[string]any{"own_id": fmt.Sprintf("%#x", id), "own_plan": cs.planOf(idx), "inflight_at_call": infl,
			"err": fmt.Sprint(err), "req_len": reqLen, "resp_len": len(resp), "want_len": wantLen}
	}
	hold := func(h *c26Held) *c26Held {
		if cs.cfg.Marathon && idx%8 != 0 {
			return nil
		}
		cs.heldBytes.Add(int64(h.n))
		return h
	}
	if err == nil {
		if c26RespIs(id, wantLen, resp) {
			cs.count("call.ok", 1)
			if wantLen+1 > 65536 {
				cs.count("size.ok_response_body_over_64KiB", 1)
			}
			if cs.handled[idx].Load() == 0 {
				cs.violate("success-without-handler", wit())
			}
			return hold(&c26Held{idx: idx, id: id, n: wantLen, payload: resp})
		}
		w := wit()
		w["first_diff_offset"] = c26FirstDiff(resp, c26Resp(id, wantLen))
		if owner, ok := c26RespOwner(resp); ok && owner != id {
			oidx := int(uint32(owner))
			w["got_id"] = fmt.Sprintf("%#x", owner)
			w["got_same_case"] = owner&^0xffffffff == cs.tag
			w["got_plan"] = cs.planOf(oidx)
			w["got_is_exact_f_of_other"] = c26RespIs(owner, len(resp), resp)
			cs.violate("foreign-response", w)
		} else if ok {
			cs.violate("own-response-garbled", w)
		} else {
			head := resp
			if len(head) > 32 {
				head = head[:32]
			}
			w["head"] = fmt.Sprintf("% x", head)
			cs.violate("response-garbled", w)
		}
		return nil
	}
	// any error is an allowed outcome; classify for evidence
	var re transport.RemoteError
	switch {
	case errors.As(err, &re):
		if i := strings.Index(re.Message, c26ErrPfx); i >= 0 {
			hex := re.Message[i+len(c26ErrPfx):]
			if len(hex) > 16 {
				hex = hex[:16]
			}
			got, perr := strconv.ParseUint(hex, 16, 64)
			if perr != nil || got != id {
				w := wit()
				w["got_id"] = hex
				if perr == nil {
					w["got_plan"] = cs.planOf(int(uint32(got)))
				}
				cs.violate("foreign-error-response", w)
				return nil
			}
			if !isErrBeh || re.Message != c26ErrMsg(id, wantLen) {
				w := wit()
				w["msg_len"] = len(re.Message)
				w["first_diff_offset"] = c26FirstDiff([]byte(re.Message), []byte(c26ErrMsg(id, wantLen)))
				cs.violate("own-error-response-garbled", w)
				return nil
			}
			if cs.handled[idx].Load() == 0 {
				cs.violate("success-without-handler", wit())
			}
			cs.count("call.err.remote_handler_error_own", 1)
			if len(re.Message) > 65536 {
				cs.count("size.error_text_over_64KiB", 1)
			}
			return hold(&c26Held{idx: idx, id: id, n: wantLen, msg: re.Message, isErr: true})
		} else {
			cs.count("call.err.remote_other", 1)
		}
	case errors.Is(err, transport.ErrCanceled):
		cs.count("call.err.canceled", 1)
	case errors.Is(err, context.DeadlineExceeded):
		cs.count("call.err.deadline", 1)
		if pol == c26pLong {
			cs.count("call.err.long_deadline_fired", 1)
		}
	case errors.Is(err, context.Canceled):
		cs.count("call.err.ctx_canceled", 1)
	case errors.Is(err, transport.ErrStopped):
		cs.count("call.err.stopped", 1)
	case errors.Is(err, transport.ErrDialFailed):
		cs.count("call.err.dial", 1)
	case errors.Is(err, transport.ErrQueueFull):
		cs.count("call.err.queue_full", 1)
	case errors.Is(err, transport.ErrMsgTooLarge):
		cs.count("call.err.too_large", 1)
		if reqLen <= limit {
			cs.count("call.err.too_large_but_within_limit", 1) // error is allowed; recorded
		}
	default:
		cs.count("call.err.link", 1)
	}
	return nil
}

func (cs *c26Case) chaos(stop <-chan struct{}, doneCh chan<- struct{}) {
	defer close(doneCh)
	rng := cs.r.Rand(26, uint64(cs.idx), 2)
	n := cs.cfg.Chaos
	thr := make([]int64, n)
	for i := range thr {
		thr[i] = int64(cs.cfg.Total/25 + rng.IntN(cs.cfg.Total))
	}
	sort.Slice(thr, func(i, j int) bool { return thr[i] < thr[j] })
	for _, t := range thr {
		select {
		case <-cs.waitProgress(t):
		case <-stop:
			return
		}
		x := rng.IntN(100)
		infl := cs.inflight.Load()
		switch {
		case x < 30:
			if c := cs.liveConn(rng); c != nil {
				c.rst("reset")
			}
		case x < 40:
			if c := cs.liveConn(rng); c != nil {
				_ = c.tcp.CloseWrite()
				cs.noteLinkLoss("half-close-write", infl)
			}
		case x < 50:
			if c := cs.liveConn(rng); c != nil {
				_ = c.tcp.CloseRead()
				cs.noteLinkLoss("half-close-read", infl)
			}
		case x < 60:
			if c := cs.liveConn(rng); c != nil {
				c.armW.Store(1)
			}
		case x < 68:
			if c := cs.liveConn(rng); c != nil {
				c.armW.Store(2)
			}
		case x < 76:
			if c := cs.liveConn(rng); c != nil {
				c.armR.Store(1)
			}
		case x < 82:
			if c := cs.liveConn(rng); c != nil {
				c.armR.Store(2)
			}
		case x < 96:
			cs.client.ClosePeer(c26SrvNode)
			cs.count("fault.close_peer", 1)
			if infl >= 8 {
				cs.cmu.Lock()
				cs.closePeer8++
				cs.cmu.Unlock()
			}
		default:
			var w sync.WaitGroup
			for i := 0; i < 3; i++ {
				w.Add(1)
				go func() { defer w.Done(); cs.client.ClosePeer(c26SrvNode) }()
			}
			w.Wait()
			cs.count("fault.close_peer_concurrent", 1)
		}
	}
}

func c26ConnActors() int64 {
	snap := goroutine.Default().Snapshot()
	var n int64
	for _, m := range snap.Modules {
		for _, t := range m.Tasks {
			if t.Task == goroutine.TaskTransportConnRead || t.Task == goroutine.TaskTransportConnWrite {
				n += t.Active
			}
		}
	}
	return n
}

func c26Poll(d time.Duration, cond func() bool) bool {
	deadline := time.Now().Add(d)
	sleep := 50 * time.Microsecond
	for !cond() {
		if time.Now().After(deadline) {
			return false
		}
		time.Sleep(sleep)
		if sleep < 5*time.Millisecond {
			sleep *= 2
		}
	}
	return true
}

func c26Bucket(n int) string {
	switch {
	case n == 0:
		return "0"
	case n == 1:
		return "1"
	case n < 4:
		return "2-3"
	case n < 16:
		return "4-15"
	case n < 64:
		return "16-63"
	default:
		return "64+"
	}
}

func c26GenCfg(rng *rand.Rand, marathon, sizeHeavy bool) c26Cfg {
	if marathon {
		return c26Cfg{Callers: 48, Total: 72_000, Pool: 1, Concurrency: 64, QueueSize: 1024, SvcTimeout: "0s",
			BatchFrames: 64, BatchBytes: 1 << 20, QueueItems: 4096, BatchWait: "0s", Cooldown: "0s", Marathon: true, FrameLimit: 1 << 20}
	}
	cfg := c26Cfg{
		Callers:     2 + rng.IntN(63),
		Pool:        []int{1, 1, 2, 4}[rng.IntN(4)],
		Concurrency: []int{4, 8, 32, 128}[rng.IntN(4)],
		QueueSize:   []int{4, 64, 1024, 1024}[rng.IntN(4)],
		SvcTimeout:  []string{"0s", "0s", "0s", "20ms", "200ms"}[rng.IntN(5)],
		BatchFrames: []int{1, 2, 8, 64}[rng.IntN(4)],
		BatchBytes:  []int{512, 4096, 65536, 1 << 20}[rng.IntN(4)],
		QueueItems:  []int{8, 64, 4096, 4096}[rng.IntN(4)],
		BatchWait:   []string{"0s", "0s", "200µs"}[rng.IntN(3)],
		Cooldown:    []string{"0s", "1ms", "10ms"}[rng.IntN(3)],
		LinkFaults:  rng.IntN(4) != 0,
		Chaos:       rng.IntN(12),
		DialFailPct: []int{0, 0, 3, 10}[rng.IntN(4)],
		FrameLimit:  []int{1 << 20, 1 << 20, 2 << 20}[rng.IntN(3)],
	}
	if rng.IntN(5) != 0 && cfg.Callers < 12 {
		cfg.Callers += 10
	}
	if cfg.Chaos < 2 && rng.IntN(3) != 0 {
		cfg.Chaos += 3
	}
	cfg.Total = 400 + rng.IntN(1400)
	if rng.IntN(4) == 0 {
		// many answers that arrive long after their caller gave up, spread
		// over every request-id distance up to the case length, on one
		// long-lived connection with a wide window of calls in flight
		cfg.LagHeavy = true
		cfg.Pool, cfg.Concurrency, cfg.QueueSize, cfg.SvcTimeout = 1, 256, 1024, "0s"
		cfg.Callers = 32 + rng.IntN(33)
		cfg.DialFailPct, cfg.Chaos = 0, rng.IntN(3)
		cfg.QueueItems = 4096
		cfg.Total = 1200 + rng.IntN(800)
	}
	cfg.SizeHeavy = sizeHeavy
	return cfg
}

func c26Dur(s string) time.Duration {
	d, err := time.ParseDuration(s)
	if err != nil {
		panic(err)
	}
	return d
}

// c26RunCase runs one case; ok=false if the unit should stop.
func c26RunCase(r *verifkit.Run, ci int, cfg c26Cfg) (ok, nontrivial bool) {
	cs := &c26Case{r: r, idx: ci, tag: uint64(ci+1) << 32, cfg: cfg, counters: map[string]int{},
		linkFaults: cfg.LinkFaults, gate: make(chan struct{}),
		obs: &c26Obs{last: map[uint64]transport.Event{}, events: map[string]int{}}}
	cs.wmin.Store(1 << 62)
	cs.parkCap = int64(cfg.Concurrency / 2)
	if cfg.LagHeavy {
		cs.parkCap = int64(cfg.Concurrency - 48)
	}
	if cs.parkCap < 1 {
		cs.parkCap = 1
	}
	cs.done = make([]chan struct{}, cfg.Total)
	cs.started = make([]chan struct{}, cfg.Total)
	for i := range cs.done {
		cs.done[i] = make(chan struct{})
		cs.started[i] = make(chan struct{})
	}
	cs.startFl = make([]atomic.Uint32, cfg.Total)
	cs.handled = make([]atomic.Uint32, cfg.Total)
	cs.plan = make([]atomic.Uint32, cfg.Total)

	slim := transport.DefaultLimits()
	slim.MaxFrameBodyBytes = cfg.FrameLimit
	slim.MaxBatchBytes = cfg.BatchBytes
	slim.MaxBatchFrames = cfg.BatchFrames
	clim := slim
	clim.MaxQueuedItemsPerConn = cfg.QueueItems
	clim.WriteBatchMaxWait = c26Dur(cfg.BatchWait)
	clim.DialFailureCooldown = c26Dur(cfg.Cooldown)

	server, err := transport.NewServer(transport.ServerConfig{NodeID: c26SrvNode, Limits: slim})
	if err != nil {
		r.Inconclusive("NewServer: " + err.Error())
		return false, false
	}
	cs.server = server
	if err := server.Handle(c26Svc, cs.handle, transport.ServiceOptions{Alias: "c26", Concurrency: cfg.Concurrency,
		QueueSize: cfg.QueueSize, MaxQueueBytes: 64 << 20, Timeout: c26Dur(cfg.SvcTimeout)}); err != nil {
		server.Stop()
		r.Inconclusive("Handle: " + err.Error())
		return false, false
	}
	if err := server.ListenAndServe("127.0.0.1:0"); err != nil {
		server.Stop()
		r.Inconclusive("ListenAndServe: " + err.Error())
		return false, false
	}
	client, err := transport.NewClient(transport.ClientConfig{NodeID: c26CliNode, Discovery: c26Disc(server.Addr()),
		PoolSize: cfg.Pool, Dialer: cs.dial, Limits: clim, Observer: cs.obs})
	if err != nil {
		server.Stop()
		r.Inconclusive("NewClient: " + err.Error())
		return false, false
	}
	cs.client = client

	var wg sync.WaitGroup
	stopChaos := make(chan struct{})
	chaosDone := make(chan struct{})
	go cs.chaos(stopChaos, chaosDone)
	for i := 0; i < cfg.Callers; i++ {
		wg.Add(1)
		go cs.caller(i, &wg)
	}
	ok = true
	callersBack := verifkit.Watchdog(240*time.Second, wg.Wait)
	close(stopChaos)
	<-chaosDone
	if !callersBack {
		// Calls that never return: cannot be told from a very slow machine.
		r.Inconclusive(fmt.Sprintf("case %d: %d of %d calls had not returned after 240 s (in flight %d)", ci, int64(cfg.Total)-cs.completed.Load(), cfg.Total, cs.inflight.Load()))
		client.ClosePeer(c26SrvNode) // flush whatever still waits
		verifkit.Watchdog(60*time.Second, wg.Wait)
		ok = false
	}
	close(cs.gate)
	if ok && !c26Poll(90*time.Second, func() bool { return cs.activeH.Load() == 0 }) {
		r.Inconclusive(fmt.Sprintf("case %d: handlers still running 90 s after release", ci))
		ok = false
	}
	if cs.completed.Load() != int64(cfg.Total) && ok {
		cs.violate("calls-not-conserved", map[string]any{"issued": cfg.Total, "returned": cs.completed.Load()})
	}
	// live connections: pending gauge must come back to 0 now that every call returned
	if ok {
		if !c26Poll(90*time.Second, func() bool { _, sum, _ := cs.obs.pending(); return sum == 0 }) {
			_, sum, nz := cs.obs.pending()
			r.Inconclusive(fmt.Sprintf("case %d: pending-RPC gauge of live connections still %d (%v) 90 s after the last call returned", ci, sum, nz))
			r.Count("pending.live_poll_expired", 1)
		} else {
			r.Count("pending.live_zero_reached", 1)
		}
	}
	client.ClosePeer(c26SrvNode)
	server.Stop()
	actorsGone := c26Poll(90*time.Second, func() bool { return c26ConnActors() == 0 })
	client.Stop() // flushes the observer drain
	if !actorsGone {
		r.Inconclusive(fmt.Sprintf("case %d: %d connection actor goroutines still alive 90 s after ClosePeer+Stop", ci, c26ConnActors()))
	} else if ok && cs.connSeq.Load() > 1500 {
		// the client's observer drain coalesces per-connection state for at most
		// 8192 keys (several per connection); beyond that events may be dropped
		// and the last gauge seen could be stale. Never reached by this workload.
		r.Count("pending.final_check_skipped_too_many_conns", 1)
	} else if ok {
		nconn, sum, nz := cs.obs.pending()
		r.Count("pending.connections_observed", nconn)
		if sum != 0 {
			cs.violate("pending-leak-after-close", map[string]any{"connections": nconn, "leaked_entries": sum, "by_connection": nz,
				"note": "all calls returned and all connection read/write loops exited; last pending_rpc observation per connection should be 0"})
		} else {
			r.Count("pending.final_zero_cases", 1)
		}
	}

	// every payload the callers still hold must still be f(own id), now that
	// all traffic of the case (and every buffer reuse it caused) is over
	if callersBack {
		cs.hmu.Lock()
		final := cs.finalHeld
		cs.finalHeld = nil
		cs.hmu.Unlock()
		var bytesHeld int64
		for i := range final {
			cs.verifyHeld(&final[i], "end-of-case")
			bytesHeld += int64(final[i].n)
		}
		r.Max("held.max_bytes_at_case_end", int(bytesHeld))
		r.Count("held.results_at_case_end", len(final))
	}

	// evidence + non-triviality
	// (a handler that was still queued inside the stopped service may run a
	// little later; it only touches atomics and the locked counter map)
	cs.cmu.Lock()
	cnt := make(map[string]int, len(cs.counters))
	for k, v := range cs.counters {
		cnt[k] = v
	}
	loss8, cp8, maxInfl := cs.lossAt8, cs.closePeer8, cs.maxInfl
	cs.cmu.Unlock()
	for k, v := range cnt {
		r.Count(k, v)
	}
	r.Max("max_calls_in_flight", int(maxInfl))
	cs.obs.mu.Lock()
	for k, v := range cs.obs.events {
		r.Count("observer."+k, v)
	}
	r.Max("observer.max_pending_gauge", cs.obs.maxInf)
	cs.obs.mu.Unlock()
	r.Count("conns.dialed", int(cs.connSeq.Load()))
	r.Count("conns.closed_by_transport", int(cs.connClosed.Load()))
	giveups := cnt["call.err.canceled"] + cnt["call.err.deadline"] + cnt["call.err.ctx_canceled"]
	lateAnswers := cnt["handler.late"] + cnt["handler.late-err"] + cnt["handler.lag_released_midcase"]
	if ok && giveups >= 1 && loss8 >= 1 && cnt["call.ok"] >= 1 {
		nontrivial = true
		r.Count("cases.nontrivial", 1)
		r.Nontrivial(fmt.Sprintf("callers=%d|pool=%d|conc=%d|q=%d|bf=%d|loss8=%s|closepeer8=%s|stall=%s|giveup=%s|late=%s|ok=%s|remote=%s|stopped=%s|lf=%v",
			cfg.Callers, cfg.Pool, cfg.Concurrency, cfg.QueueSize, cfg.BatchFrames, c26Bucket(loss8), c26Bucket(cp8),
			c26Bucket(cnt["fault.write_stall_midframe"]+cnt["fault.read_stall_midframe"]), c26Bucket(giveups), c26Bucket(lateAnswers),
			c26Bucket(cnt["call.ok"]), c26Bucket(cnt["call.err.remote_handler_error_own"]), c26Bucket(cnt["call.err.stopped"]+cnt["call.err.link"]), cfg.LinkFaults))
	} else {
		r.Count("cases.trivial", 1)
	}
	if r.WantSample() && ci%7 == 3 {
		r.Sample(map[string]any{"case": ci, "cfg": cfg, "outcomes": cnt, "linkloss_with_ge8_inflight": loss8, "closepeer_with_ge8_inflight": cp8, "max_in_flight": maxInfl})
	}
	return ok, nontrivial
}

// TestVerifC26RPC runs under the race detector with mostly small payloads.
func TestVerifC26RPC(t *testing.T) { c26RunUnit(t, "rpc", false) }

// TestVerifC26RPCSize is the same monitor built without the race detector
// (large bodies are ~100x cheaper there) with payload sizes concentrated on
// the buffer-pool slab boundaries, the frame limit and multi-hundred-KiB
// bodies, so that buffer ownership bugs (a returned payload aliasing pooled
// memory, a body truncated or padded at a boundary) become visible.
func TestVerifC26RPCSize(t *testing.T) { c26RunUnit(t, "rpcsize", true) }

func c26RunUnit(t *testing.T, unit string, sizeHeavy bool) {
	r := verifkit.Start(t, "C26", unit)
	defer r.Finish()
	r.SetRule("one case = fresh transport.Server on loopback TCP + transport.Client (pool 1..4) over fault conns; 2..64 callers issue 400..1800 Calls whose payload carries a run-unique id and the handler behaviour; request, response and error-text lengths are drawn from classes on every buffer-pool slab boundary (512, 4096, 65536, 1 MiB, each -3..+2), 0/1/2, 100 KiB, 512 KiB and the frame limit (1 or 2 MiB, -3..+2, over-limit included), content keyed by the id over the whole length; callers keep every returned payload (<= 40 MiB per case) and re-verify it after 1..300 further calls completed and again after the case has shut down (echo f(id) now/after delay, id-carrying error, answer only after the caller gave up, answer after N further calls completed, never); callers use long/none/short deadlines, pre-cancelled ctx, timer cancel, cancel-when-handler-started; chaos at PRNG progress points: RST, half-close read/write, mid-frame stall (then continue or reset) in either direction, ClosePeer (also concurrent); per-op PRNG delays/fragmentation/resets inside the conn; config (service concurrency/queue/timeout, batch limits, queue limits, dial failures/cooldown) from the case PRNG. Thorough tier: two marathon cases (72k calls on one connection) separate a given-up call from its late answer by >65k request ids. Non-trivial case = >=1 call gave up by timeout/cancel AND >=1 link loss (reset/half-close) happened while >=8 calls were in flight AND >=1 call succeeded; distinct by abstract shape (sizes, fault/outcome buckets).")
	r.Assume("loopback TCP delivers bytes unmodified; the fault conn only delays, fragments, truncates-then-resets, never alters bytes")
	r.Assume("a success payload equal to f(id) can only originate from the handler invocation for id (f is injective, 128-bit tagged)")

	// The box is shared with other checks; fewer Ps than cores keeps the Go
	// scheduler from thrashing while still giving real parallelism.
	if runtime.GOMAXPROCS(0) > 8 {
		defer runtime.GOMAXPROCS(runtime.GOMAXPROCS(8))
	}
	nCases := r.N(24, 200)
	marathonEvery := 80 // thorough tier only: marathon cases 40, 120, 200...
	stream := uint64(0)
	if sizeHeavy {
		nCases = r.N(40, 250)
		marathonEvery = 1 << 30
		stream = 77
	}
	nontrivialFloor := nCases / 3
	ran, nNontrivial, aborted := 0, 0, false
	for ci := 0; ci < nCases; ci++ {
		if r.Skip(ci) {
			continue
		}
		rng := r.Rand(26, uint64(ci), stream)
		marathon := r.Thorough() && ci%marathonEvery == marathonEvery/2
		cfg := c26GenCfg(rng, marathon, sizeHeavy)
		r.BeginCase(ci, fmt.Sprintf("%+v", cfg))
		t0 := time.Now()
		ok, nt := c26RunCase(r, ci, cfg)
		t.Logf("case %d took %v nontrivial=%v cfg=%+v", ci, time.Since(t0).Round(time.Millisecond), nt, cfg)
		ran++
		if nt {
			nNontrivial++
		}
		if !ok {
			aborted = true
			break
		}
		if r.NumViolations() >= 3 {
			aborted = true
			break
		}
	}
	if !aborted && ran == nCases && nNontrivial < nontrivialFloor {
		r.Inconclusive(fmt.Sprintf("only %d of %d cases were non-trivial (floor %d)", nNontrivial, nCases, nontrivialFloor))
	}
}
