//go:build verif

// C27 unit "channels": node RPC envelopes of pkg/cluster/channels (pull / ack /
// hint / notify / append forward / last-visible / conversation-heads /
// committed-reads requests and their versioned result frames).  In-package:
// only EncodePullRequest/DecodePullRequest are exported.
package channels

import (
	"errors"
	"fmt"
	"math/rand/v2"
	"reflect"
	"testing"

	ch "github.com/WuKongIM/WuKongIM/pkg/channel"
	channeltransport "github.com/WuKongIM/WuKongIM/pkg/channel/transport"
	"github.com/WuKongIM/WuKongIM/pkg/verifkit"
	c27 "github.com/WuKongIM/WuKongIM/verifrt/c27"
)

// Application errors cross the wire as (code, message) and are rebuilt around
// the matching sentinel; unknown errors keep their (non-empty) message.
var c27ChErrors = []error{
	ch.ErrInvalidConfig, ch.ErrBackpressured, ch.ErrNotLeader, ch.ErrNotReady, ch.ErrStaleMeta, ch.ErrChannelNotFound,
	ch.ErrNotReplica, ch.ErrClosed, ch.ErrTooManyChannels,
	fmt.Errorf("%w: leader moved to node 7", ch.ErrNotLeader), fmt.Errorf("%w: epoch 3 < 4", ch.ErrStaleMeta),
	errors.New("disk on fire"), errors.New("x"),
}

// ch.Meta.RouteGeneration is documented as "a cache/version fence ... not part
// of the Channel state machine" and has no slot in the meta wire layout; it is
// generated as zero (listed under not_asserted).
var c27ChCustom = map[reflect.Type]func(rng *rand.Rand) reflect.Value{
	reflect.TypeOf(ch.Meta{}): func(rng *rand.Rand) reflect.Value {
		m := c27.New[ch.Meta](rng, &c27.FillOpts{MaxSlice: 3})
		m.RouteGeneration = 0
		return reflect.ValueOf(m)
	},
}

var c27ChOpts = &c27.FillOpts{MaxSlice: 3, Errors: c27ChErrors, Custom: c27ChCustom}
var c27ChNonNeg = &c27.FillOpts{MaxSlice: 3, Errors: c27ChErrors, NonNegInt: true, Custom: c27ChCustom}

// c27ErrSame additionally requires errors.Is-equivalence for every sentinel.
func c27ErrSame(want, got error) string {
	if (want == nil) != (got == nil) {
		return fmt.Sprintf("error nil-ness want=%v got=%v", want, got)
	}
	if want == nil {
		return ""
	}
	for _, s := range c27ChErrors[:9] {
		if errors.Is(want, s) != errors.Is(got, s) {
			return fmt.Sprintf("errors.Is(%v) want=%v got=%v (want %q got %q)", s, errors.Is(want, s), errors.Is(got, s), want, got)
		}
	}
	return ""
}

// c27ReqCodec builds a codec for a request frame: enc(v) → bytes, dec(bytes) → v.
func c27ReqCodec[T any](name string, o *c27.FillOpts, fix func(rng *rand.Rand, v *T), enc func(T) ([]byte, error), dec func([]byte) (T, error), extra func(want, got T) string) c27.Codec {
	return c27.Codec{
		Name: "channels." + name, Header: 2, Magic: 2,
		// byte 0 is the codec version: 3..7 are supported layouts, byte 1 is the frame kind
		MagicAlt: func(off int, b byte) bool {
			return off == 0 && b >= legacyCodecVersionV3 && b <= codecVersion
		},
		Gen: func(rng *rand.Rand) (c27.Case, bool) {
			v := c27.New[T](rng, o)
			if fix != nil {
				fix(rng, &v)
			}
			b, err := enc(v)
			if err != nil {
				return c27.Case{}, false
			}
			return c27.Case{Enc: b, Shape: c27.Shape(v), Verify: func() string {
				got, err := dec(b)
				if err != nil {
					return "decode error: " + err.Error()
				}
				if d := c27.Diff(v, got); d != "" {
					return d
				}
				if extra != nil {
					return extra(v, got)
				}
				return ""
			}}, true
		},
		Decode: func(d []byte) error { _, err := dec(d); return err },
	}
}

func c27ChannelsCodecs() []c27.Codec {
	resp := func(kind uint8, payload any) ([]byte, error) { return encodeRPCResult(kind, payload, nil) }
	codecs := []c27.Codec{
		c27ReqCodec("PullRequest", c27ChOpts, nil, EncodePullRequest, DecodePullRequest, nil),
		c27ReqCodec("PullBatchRequest", c27ChOpts, nil, encodePullBatchRequest, decodePullBatchRequest, nil),
		c27ReqCodec("AckRequest", c27ChOpts, nil, encodeAckRequest, decodeAckRequest, nil),
		c27ReqCodec("PullHintRequest", c27ChOpts, nil, encodePullHintRequest, decodePullHintRequest, nil),
		c27ReqCodec("PullHintBatchRequest", c27ChOpts, nil, encodePullHintBatchRequest, decodePullHintBatchRequest, nil),
		c27ReqCodec("NotifyRequest", c27ChOpts, nil, encodeNotifyRequest, decodeNotifyRequest, nil),
		c27ReqCodec("AppendRequest", c27ChOpts, nil, encodeAppendRequest, decodeAppendRequest, nil),
		c27ReqCodec("AppendBatchRequest", c27ChOpts, nil, encodeAppendBatchRequest, decodeAppendBatchRequest, nil),
		c27ReqCodec("LastVisibleRequest", c27ChNonNeg, nil, encodeLastVisibleRequest, decodeLastVisibleRequest, nil),
		c27ReqCodec("ConversationHeadsRequest", c27ChNonNeg, nil, encodeConversationHeadsRequest, decodeConversationHeadsRequest, nil),
		c27ReqCodec("CommittedReadsRequest", c27ChOpts, nil,
			func(v CommittedReadsRequest) ([]byte, error) {
				return encodeCommittedReadsRequestVersion(v, codecVersion)
			}, decodeCommittedReadsRequest, nil),

		c27ReqCodec("PullResponse", c27ChOpts, nil, encodePullResponse, decodePullResponse, nil),
		c27ReqCodec("PullBatchResponse", c27ChOpts, func(rng *rand.Rand, v *channeltransport.PullBatchResponse) {
			for i := range v.Items {
				if v.Items[i].Err != nil {
					v.Items[i].Response = channeltransport.PullResponse{} // an errored item carries no response on the wire
				}
			}
		}, encodePullBatchResponse, decodePullBatchResponse, func(w, g channeltransport.PullBatchResponse) string {
			for i := range w.Items {
				if d := c27ErrSame(w.Items[i].Err, g.Items[i].Err); d != "" {
					return d
				}
			}
			return ""
		}),
		c27ReqCodec("PullHintBatchResponse", c27ChOpts, nil,
			func(v channeltransport.PullHintBatchResponse) ([]byte, error) {
				return resp(kindPullHintBatchResponse, v)
			},
			func(d []byte) (channeltransport.PullHintBatchResponse, error) {
				var out channeltransport.PullHintBatchResponse
				return out, decodeRPCResult(d, kindPullHintBatchResponse, &out)
			}, func(w, g channeltransport.PullHintBatchResponse) string {
				for i := range w.Items {
					if d := c27ErrSame(w.Items[i].Err, g.Items[i].Err); d != "" {
						return d
					}
				}
				return ""
			}),
		c27ReqCodec("AppendResponse", c27ChOpts, nil, encodeAppendResponse, decodeAppendResponse, nil),
		c27ReqCodec("AppendBatchResponse", c27ChOpts, nil, encodeAppendBatchResponse, decodeAppendBatchResponse, func(w, g ch.AppendBatchResult) string {
			for i := range w.Items {
				if d := c27ErrSame(w.Items[i].Err, g.Items[i].Err); d != "" {
					return d
				}
			}
			return ""
		}),
		c27ReqCodec("LastVisibleResponse", c27ChOpts, func(rng *rand.Rand, v *LastVisibleResponse) {
			if !v.Found {
				v.Message = ch.Message{} // the message is on the wire only when Found
			}
		}, encodeLastVisibleResponse, decodeLastVisibleResponse, nil),
		c27ReqCodec("ConversationHeadsResponse", c27ChOpts, func(rng *rand.Rand, v *ConversationHeadsResponse) {
			for i := range v.Items {
				if !v.Items[i].Head.Found {
					v.Items[i].Head.Message = ch.Message{}
				}
			}
		}, encodeConversationHeadsResponse, decodeConversationHeadsResponse, func(w, g ConversationHeadsResponse) string {
			for i := range w.Items {
				if d := c27ErrSame(w.Items[i].Err, g.Items[i].Err); d != "" {
					return d
				}
			}
			return ""
		}),
		c27ReqCodec("CommittedReadsResponse", c27ChOpts, nil,
			func(v CommittedReadsResponse) ([]byte, error) { return resp(kindCommittedReadsResponse, v) }, decodeCommittedReadsResponse,
			func(w, g CommittedReadsResponse) string {
				for i := range w.Items {
					if d := c27ErrSame(w.Items[i].Err, g.Items[i].Err); d != "" {
						return d
					}
				}
				return ""
			}),
		// whole-call error frame: encodeRPCResult(kind, nil, err) → decodeRPCResult returns the rebuilt error
		{
			Name: "channels.RPCResultError", Header: 3, Magic: 2,
			MagicAlt: func(off int, b byte) bool {
				return off == 0 && b >= legacyCodecVersionV3 && b <= codecVersion
			},
			Gen: func(rng *rand.Rand) (c27.Case, bool) {
				want := c27ChErrors[rng.IntN(len(c27ChErrors))]
				kind := kindAppendResponse
				b, err := encodeRPCResult(kind, nil, want)
				if err != nil {
					return c27.Case{}, false
				}
				return c27.Case{Enc: b, Shape: fmt.Sprintf("k%d|%T", kind, want), Verify: func() string {
					var sink ch.AppendResult
					got := decodeRPCResult(b, kind, &sink)
					if got == nil {
						return "error frame decoded as success"
					}
					if got.Error() != want.Error() {
						return fmt.Sprintf("error want %q got %q", want, got)
					}
					return c27ErrSame(want, got)
				}}, true
			},
			// an error frame decodes to a non-nil (application) error by
			// construction; "accepted" here means "parsed as an application
			// error", which only complete frames may be
			Decode: func(d []byte) error {
				var sink ch.AppendResult
				err := decodeRPCResult(d, kindAppendResponse, &sink)
				if err == nil {
					return nil
				}
				for _, s := range c27ChErrors[:9] {
					if errors.Is(err, s) {
						return nil // rebuilt application error = the frame was accepted
					}
				}
				return err
			},
		},
	}
	return codecs
}

func TestVerifC27Channels(t *testing.T) {
	r := verifkit.Start(t, "C27", "channels")
	defer r.Finish()
	r.SetRule("one codec per cluster/channels request or result frame at the current codec version: reflection-filled values (edge-biased integers, hostile strings, nil/empty/short slices, optional meta pointer, zero and non-zero times, application errors from the sentinel pool) → round-trip equality (errors compared by message and errors.Is class; times by instant; nil≡empty slices); all strict prefixes; mutations (incl. the version and kind bytes); random bodies behind a valid header; huge lengths at every offset with allocation metering. Non-trivial = encoder accepted the value; distinct = (codec, phase, abstract value shape).")
	r.Assume("the process-wide heap allocation counter (runtime/metrics /gc/heap/allocs:bytes) read around one decode call in the serial phase (no other harness goroutine allocating) over-approximates the allocation of that call")
	b := c27.Budget{Values: r.N(40, 800), MutationsPer: r.N(8, 20), HostileValues: r.N(2, 12), RandomInputs: r.N(800, 24000), MaxTruncs: r.N(120, 1600), HostileOffs: r.N(400, 1600), Workers: 6}
	c27.Drive(r, c27ChannelsCodecs(), b)

	r.Note("not_asserted", []string{
		"ch.Meta.RouteGeneration through PullResponse.Meta: documented as a local cache/version fence outside the Channel state machine; the meta wire layout has no slot for it, so it is generated as zero",
		"nil vs empty slices (a nil payload and an empty payload are the same value to the codec)",
	})
	r.Note("uncovered", []string{
		"legacy codec versions 3-6 are exercised only as decode inputs (mutated version byte), not as round-trips: the package has no encoder for v3/v4 and v5/v6 omit fields by design",
	})
}
