//go:build verif

// C27 unit "fsm": slot metadata commands.  In-package because the command
// decoder (decodeCommand) and the decoded command structs are unexported; the
// exported entry points DecodeCommandHashSlots and DecodeCommandInspection are
// driven on every input as well.
package fsm

import (
	"bytes"
	"fmt"
	"math/rand/v2"
	"reflect"
	"sort"
	"testing"

	metadb "github.com/WuKongIM/WuKongIM/pkg/db/meta"
	"github.com/WuKongIM/WuKongIM/pkg/protocol/channelid"
	"github.com/WuKongIM/WuKongIM/pkg/slot/multiraft"
	"github.com/WuKongIM/WuKongIM/pkg/verifkit"
	c27 "github.com/WuKongIM/WuKongIM/verifrt/c27"
)

// c27Cmd describes one command encoder and where the decoder puts its payload.
type c27Cmd struct {
	name string
	// gen returns the encoding and the value the decoder must reproduce.
	gen func(rng *rand.Rand) (enc []byte, want any, ok bool)
	// got extracts the decoded payload from the decoded command (nil if the
	// command has another concrete type than expected).
	got func(c command) any
	// slots returns the hash slots DecodeCommandHashSlots must report (nil: the envelope slot).
	slots func(want any) []uint16
}

var c27Bin = &c27.FillOpts{MaxSlice: 4}
var c27JSON = &c27.FillOpts{ValidUTF8: true, MaxSlice: 3}

func c27NonEmpty(rng *rand.Rand, o *c27.FillOpts) string {
	return c27.Str(rng, o) + string(rune('a'+rng.IntN(26)))
}

func c27UIDs(rng *rand.Rand) []string {
	// NUL-joined sorted set on the wire: uids are non-empty and NUL-free by domain
	n := rng.IntN(6)
	if rng.IntN(20) == 0 {
		n = 200
	}
	out := make([]string, 0, n)
	o := &c27.FillOpts{NoNUL: true}
	for i := 0; i < n; i++ {
		out = append(out, c27NonEmpty(rng, o))
	}
	if n > 1 && rng.IntN(3) == 0 {
		out = append(out, out[0]) // duplicate: the set encoding drops it
	}
	return out
}

func c27CanonSet(in []string) []string {
	if len(in) == 0 {
		return nil
	}
	s := append([]string(nil), in...)
	sort.Strings(s)
	out := s[:1]
	for _, v := range s[1:] {
		if v != out[len(out)-1] {
			out = append(out, v)
		}
	}
	return out
}

func c27RuntimeMeta(rng *rand.Rand) metadb.ChannelRuntimeMeta {
	m := c27.New[metadb.ChannelRuntimeMeta](rng, c27Bin)
	m.DirectoryGeneration = 0 // store-owned, has no wire tag
	if rng.IntN(2) == 0 {
		m.ChannelType = 1 + rng.Int64N(3)
	}
	return m
}

func c27Channel(rng *rand.Rand) metadb.Channel {
	c := c27.New[metadb.Channel](rng, c27Bin)
	// store-owned fields without a wire tag
	c.SubscriberMutationVersion, c.SubscriberCount, c.DirectoryProjectionGeneration = 0, 0, 0
	c.DirectoryProjectionState = 0
	return c
}

func c27Memberships(rng *rand.Rand) []metadb.UserChannelMembership {
	n := 1 + rng.IntN(4)
	out := make([]metadb.UserChannelMembership, n)
	for i := range out {
		out[i] = c27.New[metadb.UserChannelMembership](rng, c27Bin)
	}
	return out
}

func c27CMDMemberships(rng *rand.Rand) []metadb.UserCMDChannelMembership {
	n := 1 + rng.IntN(4)
	out := make([]metadb.UserCMDChannelMembership, n)
	for i := range out {
		out[i] = c27.New[metadb.UserCMDChannelMembership](rng, c27Bin)
	}
	return out
}

var c27EventTypes = []string{metadb.EventTypeStreamOpen, metadb.EventTypeStreamDelta, metadb.EventTypeStreamClose, metadb.EventTypeStreamError, metadb.EventTypeStreamCancel, metadb.EventTypeStreamSnapshot, metadb.EventTypeStreamFinish}

func c27Event(rng *rand.Rand) metadb.MessageEventAppend {
	e := c27.New[metadb.MessageEventAppend](rng, c27Bin)
	e.ChannelID, e.ClientMsgNo, e.EventID = c27NonEmpty(rng, c27Bin), c27NonEmpty(rng, c27Bin), c27NonEmpty(rng, c27Bin)
	e.ChannelType = 1 + rng.Int64N(1<<40)
	e.EventType = c27EventTypes[rng.IntN(len(c27EventTypes))]
	return e
}

func c27PersonChannel(rng *rand.Rand) (id, left, right string) {
	o := &c27.FillOpts{ValidUTF8: true, NoNUL: true}
	for {
		a, b := "u"+c27.Str(rng, o), "v"+c27.Str(rng, o)
		id = channelid.EncodePersonChannel(a, b)
		l, r, err := channelid.DecodePersonChannel(id)
		if err == nil && channelid.EncodePersonChannel(l, r) == id {
			return id, l, r
		}
	}
}

type c27SubWant struct {
	ChannelID   string
	ChannelType int64
	UIDs        []string
	Version     uint64
}

type c27IDWant struct {
	ChannelID   string
	ChannelType int64
}

type c27OutboxWant struct {
	HashSlot   uint16
	Source     multiraft.SlotID
	Target     multiraft.SlotID
	IndexValue uint64
}

type c27DeltaWant struct {
	Source   multiraft.SlotID
	Index    uint64
	HashSlot uint16
	Original []byte
}

func c27Simple[T any](name string, o *c27.FillOpts, fix func(rng *rand.Rand, v *T), enc func(T) []byte, got func(c command) any) c27Cmd {
	return c27Cmd{name: name,
		gen: func(rng *rand.Rand) ([]byte, any, bool) {
			v := c27.New[T](rng, o)
			if fix != nil {
				fix(rng, &v)
			}
			return enc(v), v, true
		},
		got: got}
}

func c27DistinctSlots[T any](items []T, slot func(T) uint16) []uint16 {
	seen := map[uint16]bool{}
	var out []uint16
	for _, it := range items {
		if !seen[slot(it)] {
			seen[slot(it)] = true
			out = append(out, slot(it))
		}
	}
	sort.Slice(out, func(i, j int) bool { return out[i] < out[j] })
	return out
}

func c27Commands() []c27Cmd {
	cmds := []c27Cmd{
		{name: "Noop", gen: func(rng *rand.Rand) ([]byte, any, bool) { return EncodeNoopCommand(), struct{}{}, true },
			got: func(c command) any {
				if _, ok := c.(*noopCmd); ok {
					return struct{}{}
				}
				return nil
			}},
		c27Simple("UpsertUser", c27Bin, nil, EncodeUpsertUserCommand, func(c command) any {
			if t, ok := c.(*upsertUserCmd); ok {
				return t.user
			}
			return nil
		}),
		c27Simple("CreateUser", c27Bin, nil, EncodeCreateUserCommand, func(c command) any {
			if t, ok := c.(*createUserCmd); ok {
				return t.user
			}
			return nil
		}),
		c27Simple("UpsertDevice", c27Bin, nil, EncodeUpsertDeviceCommand, func(c command) any {
			if t, ok := c.(*upsertDeviceCmd); ok {
				return t.device
			}
			return nil
		}),
		{name: "UpsertChannel", gen: func(rng *rand.Rand) ([]byte, any, bool) {
			v := c27Channel(rng)
			return EncodeUpsertChannelCommand(v), v, true
		}, got: func(c command) any {
			if t, ok := c.(*upsertChannelCmd); ok {
				return t.channel
			}
			return nil
		}},
		{name: "CreateChannel", gen: func(rng *rand.Rand) ([]byte, any, bool) {
			v := c27Channel(rng)
			return EncodeCreateChannelCommand(v), v, true
		}, got: func(c command) any {
			if t, ok := c.(*createChannelCmd); ok {
				return t.channel
			}
			return nil
		}},
		{name: "PatchChannelBusinessFlags", gen: func(rng *rand.Rand) ([]byte, any, bool) {
			id, ty, fl := c27.Str(rng, c27Bin), c27.I64(rng), c27.New[metadb.ChannelBusinessFlags](rng, c27Bin)
			return EncodePatchChannelBusinessFlagsCommand(id, ty, fl), []any{id, ty, fl}, true
		}, got: func(c command) any {
			if t, ok := c.(*patchChannelBusinessFlagsCmd); ok {
				return []any{t.channelID, t.channelType, t.flags}
			}
			return nil
		}},
		{name: "DeleteChannel", gen: func(rng *rand.Rand) ([]byte, any, bool) {
			w := c27IDWant{c27.Str(rng, c27Bin), c27.I64(rng)}
			return EncodeDeleteChannelCommand(w.ChannelID, w.ChannelType), w, true
		}, got: func(c command) any {
			if t, ok := c.(*deleteChannelCmd); ok {
				return c27IDWant{t.channelID, t.channelType}
			}
			return nil
		}},
		{name: "UpsertChannelRuntimeMeta", gen: func(rng *rand.Rand) ([]byte, any, bool) {
			v := c27RuntimeMeta(rng)
			// the codec documents canonicalisation on both sides
			return EncodeUpsertChannelRuntimeMetaCommand(v), metadb.NormalizeChannelRuntimeMeta(v), true
		}, got: func(c command) any {
			if t, ok := c.(*upsertChannelRuntimeMetaCmd); ok {
				return t.meta
			}
			return nil
		}},
		{name: "DeleteChannelRuntimeMeta", gen: func(rng *rand.Rand) ([]byte, any, bool) {
			w := c27IDWant{c27.Str(rng, c27Bin), c27.I64(rng)}
			return EncodeDeleteChannelRuntimeMetaCommand(w.ChannelID, w.ChannelType), w, true
		}, got: func(c command) any {
			if t, ok := c.(*deleteChannelRuntimeMetaCmd); ok {
				return c27IDWant{t.channelID, t.channelType}
			}
			return nil
		}},
		c27Simple("AdvanceChannelRetentionThroughSeq", c27Bin, nil, EncodeAdvanceChannelRetentionThroughSeqCommand, func(c command) any {
			if t, ok := c.(*advanceChannelRetentionThroughSeqCmd); ok {
				return t.req
			}
			return nil
		}),
	}
	// subscribers (plain and checked encoders)
	for _, add := range []bool{true, false} {
		for _, checked := range []bool{false, true} {
			add, checked := add, checked
			name := map[bool]string{true: "AddSubscribers", false: "RemoveSubscribers"}[add]
			if checked {
				name += "Checked"
			}
			cmds = append(cmds, c27Cmd{name: name, gen: func(rng *rand.Rand) ([]byte, any, bool) {
				w := c27SubWant{ChannelID: c27.Str(rng, c27Bin), ChannelType: c27.I64(rng), UIDs: c27UIDs(rng)}
				var ver []uint64
				if rng.IntN(2) == 0 {
					w.Version = c27.U64(rng)
					ver = []uint64{w.Version}
				}
				var enc []byte
				var err error
				switch {
				case add && checked:
					enc, err = EncodeAddSubscribersCommandChecked(w.ChannelID, w.ChannelType, w.UIDs, ver...)
				case add:
					enc = EncodeAddSubscribersCommand(w.ChannelID, w.ChannelType, w.UIDs, ver...)
				case checked:
					enc, err = EncodeRemoveSubscribersCommandChecked(w.ChannelID, w.ChannelType, w.UIDs, ver...)
				default:
					enc = EncodeRemoveSubscribersCommand(w.ChannelID, w.ChannelType, w.UIDs, ver...)
				}
				if err != nil {
					return nil, nil, false
				}
				w.UIDs = c27CanonSet(w.UIDs) // documented: sorted, de-duplicated set
				return enc, w, true
			}, got: func(c command) any {
				if add {
					if t, ok := c.(*addSubscribersCmd); ok {
						return c27SubWant{t.channelID, t.channelType, t.uids, t.subscriberMutationVersion}
					}
					return nil
				}
				if t, ok := c.(*removeSubscribersCmd); ok {
					return c27SubWant{t.channelID, t.channelType, t.uids, t.subscriberMutationVersion}
				}
				return nil
			}})
		}
	}
	// user channel memberships
	type mEnc struct {
		name string
		enc  func([]metadb.UserChannelMembership) ([]byte, error)
		got  func(c command) any
	}
	wrap := func(f func([]metadb.UserChannelMembership) []byte) func([]metadb.UserChannelMembership) ([]byte, error) {
		return func(m []metadb.UserChannelMembership) ([]byte, error) { return f(m), nil }
	}
	for _, me := range []mEnc{
		{"UpsertUserChannelMemberships", wrap(EncodeUpsertUserChannelMembershipsCommand), func(c command) any {
			if t, ok := c.(*upsertUserChannelMembershipsCmd); ok {
				return t.memberships
			}
			return nil
		}},
		{"UpsertUserChannelMembershipsChecked", EncodeUpsertUserChannelMembershipsCommandChecked, func(c command) any {
			if t, ok := c.(*upsertUserChannelMembershipsCmd); ok {
				return t.memberships
			}
			return nil
		}},
		{"DeleteUserChannelMemberships", wrap(EncodeDeleteUserChannelMembershipsCommand), func(c command) any {
			if t, ok := c.(*deleteUserChannelMembershipsCmd); ok {
				return t.memberships
			}
			return nil
		}},
		{"DeleteUserChannelMembershipsChecked", EncodeDeleteUserChannelMembershipsCommandChecked, func(c command) any {
			if t, ok := c.(*deleteUserChannelMembershipsCmd); ok {
				return t.memberships
			}
			return nil
		}},
		{"AdvanceUserChannelMembershipReadSeq", wrap(EncodeAdvanceUserChannelMembershipReadSeqCommand), func(c command) any {
			if t, ok := c.(*advanceUserChannelMembershipReadSeqCmd); ok {
				return t.memberships
			}
			return nil
		}},
		{"HideUserChannelMembership", wrap(EncodeHideUserChannelMembershipCommand), func(c command) any {
			if t, ok := c.(*hideUserChannelMembershipCmd); ok {
				return t.memberships
			}
			return nil
		}},
		{"ActivateUserChannelMembership", wrap(EncodeActivateUserChannelMembershipCommand), func(c command) any {
			if t, ok := c.(*activateUserChannelMembershipCmd); ok {
				return t.memberships
			}
			return nil
		}},
	} {
		me := me
		cmds = append(cmds, c27Cmd{name: me.name, gen: func(rng *rand.Rand) ([]byte, any, bool) {
			v := c27Memberships(rng)
			enc, err := me.enc(v)
			if err != nil {
				return nil, nil, false
			}
			return enc, v, true
		}, got: me.got})
	}
	type cmEnc struct {
		name string
		enc  func([]metadb.UserCMDChannelMembership) []byte
		got  func(c command) any
	}
	for _, me := range []cmEnc{
		{"UpsertUserCMDChannelMemberships", EncodeUpsertUserCMDChannelMembershipsCommand, func(c command) any {
			if t, ok := c.(*upsertUserCMDChannelMembershipsCmd); ok {
				return t.memberships
			}
			return nil
		}},
		{"AdvanceUserCMDChannelMembershipAcks", EncodeAdvanceUserCMDChannelMembershipAcksCommand, func(c command) any {
			if t, ok := c.(*advanceUserCMDChannelMembershipAcksCmd); ok {
				return t.memberships
			}
			return nil
		}},
		{"TombstoneUserCMDChannelMemberships", EncodeTombstoneUserCMDChannelMembershipsCommand, func(c command) any {
			if t, ok := c.(*tombstoneUserCMDChannelMembershipsCmd); ok {
				return t.memberships
			}
			return nil
		}},
	} {
		me := me
		cmds = append(cmds, c27Cmd{name: me.name, gen: func(rng *rand.Rand) ([]byte, any, bool) {
			v := c27CMDMemberships(rng)
			return me.enc(v), v, true
		}, got: me.got})
	}
	gotLatest := func(c command) any {
		if t, ok := c.(*upsertChannelLatestCmd); ok {
			return t.latest
		}
		return nil
	}
	gotLatestBatch := func(c command) any {
		if t, ok := c.(*upsertChannelLatestBatchCmd); ok {
			return t.items
		}
		return nil
	}
	latestItems := func(rng *rand.Rand, valid bool) []ChannelLatestBatchItem {
		n := 1 + rng.IntN(4)
		out := make([]ChannelLatestBatchItem, n)
		for i := range out {
			out[i] = c27.New[ChannelLatestBatchItem](rng, c27Bin)
			if rng.IntN(2) == 0 {
				out[i].HashSlot = uint16(rng.IntN(3))
			}
			if valid {
				out[i].Latest.ChannelID = c27NonEmpty(rng, c27Bin)
				if out[i].Latest.ChannelType == 0 {
					out[i].Latest.ChannelType = 2
				}
			}
		}
		return out
	}
	latestSlots := func(w any) []uint16 {
		return c27DistinctSlots(w.([]ChannelLatestBatchItem), func(i ChannelLatestBatchItem) uint16 { return i.HashSlot })
	}
	cmds = append(cmds,
		c27Simple("UpsertChannelLatest", c27Bin, nil, EncodeUpsertChannelLatestCommand, gotLatest),
		c27Cmd{name: "UpsertChannelLatestChecked", gen: func(rng *rand.Rand) ([]byte, any, bool) {
			v := c27.New[metadb.ChannelLatest](rng, c27Bin)
			v.ChannelID = c27NonEmpty(rng, c27Bin)
			enc, err := EncodeUpsertChannelLatestCommandChecked(v)
			return enc, v, err == nil
		}, got: gotLatest},
		c27Cmd{name: "UpsertChannelLatestBatch", gen: func(rng *rand.Rand) ([]byte, any, bool) {
			v := latestItems(rng, false)
			return EncodeUpsertChannelLatestBatchCommand(v), v, true
		}, got: gotLatestBatch, slots: latestSlots},
		c27Cmd{name: "UpsertChannelLatestBatchChecked", gen: func(rng *rand.Rand) ([]byte, any, bool) {
			v := latestItems(rng, true)
			enc, err := EncodeUpsertChannelLatestBatchCommandChecked(v)
			return enc, v, err == nil
		}, got: gotLatestBatch, slots: latestSlots},
	)
	// message events
	gotEvent := func(c command) any {
		if t, ok := c.(*appendMessageEventCmd); ok {
			return t.event
		}
		return nil
	}
	gotEvents := func(c command) any {
		if t, ok := c.(*appendMessageEventsBatchCmd); ok {
			return t.events
		}
		return nil
	}
	events := func(rng *rand.Rand) []metadb.MessageEventAppend {
		n := 1 + rng.IntN(4)
		out := make([]metadb.MessageEventAppend, n)
		for i := range out {
			out[i] = c27Event(rng)
			out[i].ChannelID, out[i].ChannelType = out[0].ChannelID, out[0].ChannelType
		}
		return out
	}
	cmds = append(cmds,
		c27Cmd{name: "AppendMessageEvent", gen: func(rng *rand.Rand) ([]byte, any, bool) {
			// the unchecked encoder takes any field values; the single-event decoder requires presence only
			v := c27.New[metadb.MessageEventAppend](rng, c27Bin)
			return EncodeAppendMessageEventCommand(v), v, true
		}, got: gotEvent},
		c27Cmd{name: "AppendMessageEventChecked", gen: func(rng *rand.Rand) ([]byte, any, bool) {
			v := c27Event(rng)
			enc, err := EncodeAppendMessageEventCommandChecked(v)
			return enc, v, err == nil
		}, got: gotEvent},
		c27Cmd{name: "AppendMessageEvents", gen: func(rng *rand.Rand) ([]byte, any, bool) {
			// the batch decoder validates, so only valid batches are in the domain
			v := events(rng)
			return EncodeAppendMessageEventsCommand(v), v, true
		}, got: gotEvents},
		c27Cmd{name: "AppendMessageEventsChecked", gen: func(rng *rand.Rand) ([]byte, any, bool) {
			v := events(rng)
			enc, err := EncodeAppendMessageEventsCommandChecked(v)
			return enc, v, err == nil
		}, got: gotEvents},
	)
	// plugin bindings
	cmds = append(cmds,
		c27Simple("BindPluginUser", c27Bin, nil, EncodeBindPluginUserCommand, func(c command) any {
			if t, ok := c.(*bindPluginUserCmd); ok {
				return t.binding
			}
			return nil
		}),
		c27Cmd{name: "UnbindPluginUser", gen: func(rng *rand.Rand) ([]byte, any, bool) {
			u, p := c27.Str(rng, c27Bin), c27.Str(rng, c27Bin)
			return EncodeUnbindPluginUserCommand(u, p), []string{u, p}, true
		}, got: func(c command) any {
			if t, ok := c.(*unbindPluginUserCmd); ok {
				return []string{t.uid, t.pluginNo}
			}
			return nil
		}},
	)
	// hash-slot migration commands
	cmds = append(cmds,
		c27Cmd{name: "ApplyDelta", gen: func(rng *rand.Rand) ([]byte, any, bool) {
			w := c27DeltaWant{multiraft.SlotID(c27.U64(rng)), c27.U64(rng), uint16(c27.U64(rng)), c27.Bytes(rng, 200)}
			if rng.IntN(2) == 0 {
				w.Original = EncodeUpsertUserCommand(c27.New[metadb.User](rng, c27Bin))
			}
			return EncodeApplyDeltaCommand(w.Source, w.Index, w.HashSlot, w.Original), w, true
		}, got: func(c command) any {
			if t, ok := c.(*applyDeltaCmd); ok {
				return c27DeltaWant{t.SourceSlotID, t.SourceIndex, t.HashSlot, t.OriginalCmd}
			}
			return nil
		}},
		c27Cmd{name: "EnterFence", gen: func(rng *rand.Rand) ([]byte, any, bool) {
			hs := uint16(c27.U64(rng))
			if rng.IntN(2) == 0 {
				return EncodeEnterFenceCommand(hs), []uint64{uint64(hs), 0}, true
			}
			tg := multiraft.SlotID(c27.U64(rng))
			return EncodeEnterFenceCommandForTarget(hs, tg), []uint64{uint64(hs), uint64(tg)}, true
		}, got: func(c command) any {
			if t, ok := c.(*enterFenceCmd); ok {
				return []uint64{uint64(t.HashSlot), uint64(t.Target)}
			}
			return nil
		}},
		c27Cmd{name: "AckHashSlotMigrationOutbox", gen: func(rng *rand.Rand) ([]byte, any, bool) {
			w := c27OutboxWant{uint16(c27.U64(rng)), multiraft.SlotID(c27.U64(rng)), multiraft.SlotID(c27.U64(rng)), c27.U64(rng)}
			return EncodeAckHashSlotMigrationOutboxCommand(w.HashSlot, w.Source, w.Target, w.IndexValue), w, true
		}, got: func(c command) any {
			if t, ok := c.(*ackMigrationOutboxCmd); ok {
				return c27OutboxWant{t.HashSlot, t.SourceSlot, t.TargetSlot, t.SourceIndex}
			}
			return nil
		}},
		c27Cmd{name: "CleanupHashSlotMigrationOutbox", gen: func(rng *rand.Rand) ([]byte, any, bool) {
			w := c27OutboxWant{uint16(c27.U64(rng)), multiraft.SlotID(c27.U64(rng)), multiraft.SlotID(c27.U64(rng)), c27.U64(rng)}
			return EncodeCleanupHashSlotMigrationOutboxCommand(w.HashSlot, w.Source, w.Target, w.IndexValue), w, true
		}, got: func(c command) any {
			if t, ok := c.(*cleanupMigrationOutboxCmd); ok {
				return c27OutboxWant{t.HashSlot, t.SourceSlot, t.TargetSlot, t.ThroughIndex}
			}
			return nil
		}},
	)
	// channel migration commands (JSON payload inside one TLV)
	cmds = append(cmds,
		c27Simple("CreateChannelMigrationTask", c27JSON, nil, EncodeCreateChannelMigrationTaskCommand, func(c command) any {
			if t, ok := c.(*createChannelMigrationTaskCmd); ok {
				return t.task
			}
			return nil
		}),
		c27Simple("CreateChannelMigrationTaskWithRuntimeGuard", c27JSON, nil, EncodeCreateChannelMigrationTaskWithRuntimeGuardCommand, func(c command) any {
			if t, ok := c.(*createChannelMigrationTaskWithRuntimeGuardCmd); ok {
				return t.req
			}
			return nil
		}),
		c27Simple("ClaimChannelMigrationTask", c27JSON, nil, EncodeClaimChannelMigrationTaskCommand, func(c command) any {
			if t, ok := c.(*claimChannelMigrationTaskCmd); ok {
				return t.req
			}
			return nil
		}),
		c27Simple("AdvanceChannelMigrationTask", c27JSON, nil, EncodeAdvanceChannelMigrationTaskCommand, func(c command) any {
			if t, ok := c.(*advanceChannelMigrationTaskCmd); ok {
				return t.req
			}
			return nil
		}),
		c27Simple("SetChannelWriteFence", c27JSON, nil, EncodeSetChannelWriteFenceCommand, func(c command) any {
			if t, ok := c.(*setChannelWriteFenceCmd); ok {
				return t.req
			}
			return nil
		}),
		c27Simple("ResetChannelWriteFenceToPreCutover", c27JSON, nil, EncodeResetChannelWriteFenceToPreCutoverCommand, func(c command) any {
			if t, ok := c.(*resetChannelWriteFenceToPreCutoverCmd); ok {
				return t.req
			}
			return nil
		}),
		c27Simple("CommitChannelLeaderTransfer", c27JSON, nil, EncodeCommitChannelLeaderTransferCommand, func(c command) any {
			if t, ok := c.(*commitChannelLeaderTransferCmd); ok {
				return t.req
			}
			return nil
		}),
		c27Simple("AddChannelLearner", c27JSON, nil, EncodeAddChannelLearnerCommand, func(c command) any {
			if t, ok := c.(*addChannelLearnerCmd); ok {
				return t.req
			}
			return nil
		}),
		c27Simple("PromoteLearnerAndRemoveReplica", c27JSON, nil, EncodePromoteLearnerAndRemoveReplicaCommand, func(c command) any {
			if t, ok := c.(*promoteLearnerAndRemoveReplicaCmd); ok {
				return t.req
			}
			return nil
		}),
		c27Simple("ClearChannelWriteFence", c27JSON, nil, EncodeClearChannelWriteFenceCommand, func(c command) any {
			if t, ok := c.(*clearChannelWriteFenceCmd); ok {
				return t.req
			}
			return nil
		}),
		c27Simple("AbortChannelMigration", c27JSON, nil, EncodeAbortChannelMigrationCommand, func(c command) any {
			if t, ok := c.(*abortChannelMigrationCmd); ok {
				return t.req
			}
			return nil
		}),
		c27Simple("GarbageCollectTerminalChannelMigrationTasks", c27JSON, nil, EncodeGarbageCollectTerminalChannelMigrationTasksCommand, func(c command) any {
			if t, ok := c.(*garbageCollectMigrationTasksCmd); ok {
				return t.req
			}
			return nil
		}),
	)
	// canonical multi-hash-slot batches
	cmds = append(cmds,
		c27Cmd{name: "CreateChannelRuntimeMetaBatchChecked", gen: func(rng *rand.Rand) ([]byte, any, bool) {
			n := 1 + rng.IntN(4)
			items := make([]CreateChannelRuntimeMetaBatchItem, n)
			for i := range items {
				items[i] = CreateChannelRuntimeMetaBatchItem{HashSlot: uint16(rng.IntN(4)), Meta: c27RuntimeMeta(rng)}
				items[i].Meta.ChannelID = fmt.Sprintf("%s#%d", c27NonEmpty(rng, c27Bin), i)
				if items[i].Meta.ChannelType == 0 {
					items[i].Meta.ChannelType = 2
				}
			}
			enc, err := EncodeCreateChannelRuntimeMetaBatchCommandChecked(items)
			if err != nil {
				return nil, nil, false
			}
			want, err := canonicalCreateChannelRuntimeMetaBatch(items) // documented: sorted, normalised
			return enc, want, err == nil
		}, got: func(c command) any {
			if t, ok := c.(*createChannelRuntimeMetaBatchCmd); ok {
				return t.items
			}
			return nil
		}, slots: func(w any) []uint16 {
			return c27DistinctSlots(w.([]CreateChannelRuntimeMetaBatchItem), func(i CreateChannelRuntimeMetaBatchItem) uint16 { return i.HashSlot })
		}},
		c27Cmd{name: "AdmitPersonDirectoryTaskBatchChecked", gen: func(rng *rand.Rand) ([]byte, any, bool) {
			n := 1 + rng.IntN(3)
			items := make([]PersonDirectoryAdmissionBatchItem, n)
			for i := range items {
				id, _, _ := c27PersonChannel(rng)
				meta := c27RuntimeMeta(rng)
				meta.ChannelID, meta.ChannelType = id, 1
				created := c27.I64(rng)
				if created < 0 {
					created = -(created + 1)
				}
				items[i] = PersonDirectoryAdmissionBatchItem{HashSlot: uint16(rng.IntN(4)),
					Task: metadb.PersonDirectoryTask{ChannelID: id, ChannelType: 1, CommittedTail: c27.U64(rng), CreatedAt: created}, RuntimeMeta: meta}
			}
			enc, err := EncodeAdmitPersonDirectoryTaskBatchCommandChecked(items)
			if err != nil {
				return nil, nil, false
			}
			want, err := canonicalAdmissionBatch(items)
			return enc, want, err == nil
		}, got: func(c command) any {
			if t, ok := c.(*admitPersonDirectoryTaskBatchCmd); ok {
				return t.items
			}
			return nil
		}, slots: func(w any) []uint16 {
			return c27DistinctSlots(w.([]PersonDirectoryAdmissionBatchItem), func(i PersonDirectoryAdmissionBatchItem) uint16 { return i.HashSlot })
		}},
		c27Cmd{name: "EnsureUserChannelMembershipBatchChecked", gen: func(rng *rand.Rand) ([]byte, any, bool) {
			n := 1 + rng.IntN(3)
			items := make([]UserChannelMembershipBatchItem, n)
			for i := range items {
				id, l, r := c27PersonChannel(rng)
				m := c27.New[metadb.UserChannelMembership](rng, c27Bin)
				m.ChannelID, m.ChannelType, m.UID = id, 1, l
				if rng.IntN(2) == 0 {
					m.UID = r
				}
				items[i] = UserChannelMembershipBatchItem{HashSlot: uint16(rng.IntN(4)), Membership: m}
			}
			enc, err := EncodeEnsureUserChannelMembershipBatchCommandChecked(items)
			if err != nil {
				return nil, nil, false
			}
			want, err := canonicalPersonMembershipBatch(items)
			return enc, want, err == nil
		}, got: func(c command) any {
			if t, ok := c.(*ensureUserChannelMembershipBatchCmd); ok {
				return t.items
			}
			return nil
		}, slots: func(w any) []uint16 {
			return c27DistinctSlots(w.([]UserChannelMembershipBatchItem), func(i UserChannelMembershipBatchItem) uint16 { return i.HashSlot })
		}},
		c27Cmd{name: "CompletePersonDirectoryTaskBatchChecked", gen: func(rng *rand.Rand) ([]byte, any, bool) {
			n := 1 + rng.IntN(3)
			items := make([]PersonDirectoryCompletionBatchItem, n)
			for i := range items {
				id, _, _ := c27PersonChannel(rng)
				g := c27.U64(rng)
				if g == 0 {
					g = 1
				}
				items[i] = PersonDirectoryCompletionBatchItem{HashSlot: uint16(rng.IntN(4)), ChannelID: id, ChannelType: 1, Generation: g}
			}
			enc, err := EncodeCompletePersonDirectoryTaskBatchCommandChecked(items)
			if err != nil {
				return nil, nil, false
			}
			want, err := canonicalCompletionBatch(items)
			return enc, want, err == nil
		}, got: func(c command) any {
			if t, ok := c.(*completePersonDirectoryTaskBatchCmd); ok {
				return t.items
			}
			return nil
		}, slots: func(w any) []uint16 {
			return c27DistinctSlots(w.([]PersonDirectoryCompletionBatchItem), func(i PersonDirectoryCompletionBatchItem) uint16 { return i.HashSlot })
		}},
	)
	return cmds
}

// c27DecodeAll drives the three decode entry points on one input.  It returns
// decodeCommand's error; a disagreement between decodeCommand and the exported
// DecodeCommandHashSlots about acceptance is reported as a mismatch string.
func c27DecodeAll(data []byte, env uint16) (command, []uint16, error, string) {
	cmd, err := decodeCommand(data)
	slots, err2 := DecodeCommandHashSlots(data, env)
	_, _ = DecodeCommandInspection(data) // may refuse unsupported kinds by design; must not panic
	if (err == nil) != (err2 == nil) {
		return cmd, slots, err, fmt.Sprintf("decodeCommand err=%v but DecodeCommandHashSlots err=%v", err, err2)
	}
	return cmd, slots, err, ""
}

func c27CommandCodec(r *verifkit.Run, cd c27Cmd) c27.Codec {
	return c27.Codec{
		Name: "fsm.cmd." + cd.name, Header: 2, Magic: 1,
		Gen: func(rng *rand.Rand) (c27.Case, bool) {
			enc, want, ok := cd.gen(rng)
			if !ok {
				return c27.Case{}, false
			}
			env := uint16(rng.UintN(1 << 16))
			return c27.Case{Enc: enc, Shape: c27.Shape(want), Verify: func() string {
				cmd, slots, err, mis := c27DecodeAll(enc, env)
				if err != nil {
					return "decode error: " + err.Error()
				}
				if mis != "" {
					return mis
				}
				got := cd.got(cmd)
				if got == nil {
					return fmt.Sprintf("decoded to unexpected command type %T", cmd)
				}
				if d := c27.Diff(want, got); d != "" {
					return d
				}
				wantSlots := []uint16{env}
				if cd.slots != nil {
					if s := cd.slots(want); len(s) > 0 {
						wantSlots = s
					}
				}
				if !reflect.DeepEqual(wantSlots, slots) {
					return fmt.Sprintf("hash slots want %v got %v", wantSlots, slots)
				}
				if _, ierr := DecodeCommandInspection(enc); ierr != nil {
					r.Count("inspection.unsupported."+cd.name, 1)
				} else {
					r.Count("inspection.ok."+cd.name, 1)
				}
				return ""
			}}, true
		},
		Decode: func(d []byte) error {
			_, _, err, mis := c27DecodeAll(d, 7)
			if mis != "" {
				r.Violation("decode-entrypoints-disagree:"+cd.name, map[string]any{"in": fmt.Sprintf("%x", d), "what": mis})
			}
			return err
		},
		// Documented wire format: [version][type] then TLV fields; "unknown
		// tags are skipped ... new fields can be added" — a prefix that ends on
		// a top-level TLV boundary is a complete frame with fewer fields, which
		// decoders with optional fields accept by design.
		PrefixMayDecode: func(enc []byte, k int) bool { return c27.TLVBoundaries(enc, 2)[k] },
	}
}

func c27ResultCodecs() []c27.Codec {
	return []c27.Codec{
		{Name: "fsm.result.ChannelConditionalMutation", Header: 5, Magic: 5,
			Gen: func(rng *rand.Rand) (c27.Case, bool) {
				var in *metadb.ChannelConditionalMutationResult
				want := false
				if rng.IntN(3) != 0 {
					in = &metadb.ChannelConditionalMutationResult{Applied: rng.IntN(2) == 0}
					want = in.Applied
				}
				enc := EncodeChannelConditionalMutationResult(in)
				return c27.Case{Enc: enc, Shape: fmt.Sprint(in == nil, want), Verify: func() string {
					got, err := DecodeChannelConditionalMutationResult(enc)
					if err != nil {
						return "decode error: " + err.Error()
					}
					if got != want {
						return fmt.Sprintf("want %v got %v", want, got)
					}
					return ""
				}}, true
			},
			Decode: func(d []byte) error { _, err := DecodeChannelConditionalMutationResult(d); return err }},
		{Name: "fsm.result.SubscriberMutation", Header: 5, Magic: 5,
			Gen: func(rng *rand.Rand) (c27.Case, bool) {
				var in *metadb.SubscriberMutationResult
				var want metadb.SubscriberMutationResult
				if rng.IntN(4) != 0 {
					in = &metadb.SubscriberMutationResult{RequestedCount: int(c27.U64(rng) >> 1), ChangedCount: int(c27.U64(rng) >> 1)}
					want = *in
				}
				enc := EncodeSubscriberMutationResult(in)
				return c27.Case{Enc: enc, Shape: c27.Shape(want), Verify: func() string {
					got, err := DecodeSubscriberMutationResult(enc)
					if err != nil {
						return "decode error: " + err.Error()
					}
					return c27.Diff(want, got)
				}}, true
			},
			Decode: func(d []byte) error { _, err := DecodeSubscriberMutationResult(d); return err }},
		{Name: "fsm.result.GarbageCollectMigrationTasks", Header: 5, Magic: 5,
			Gen: func(rng *rand.Rand) (c27.Case, bool) {
				want := int(c27.U64(rng) >> 1)
				enc := EncodeGarbageCollectTerminalChannelMigrationTasksResult(want)
				return c27.Case{Enc: enc, Shape: fmt.Sprint(want == 0), Verify: func() string {
					got, ok, err := DecodeGarbageCollectTerminalChannelMigrationTasksResult(enc)
					if err != nil || !ok {
						return fmt.Sprintf("decode ok=%v err=%v", ok, err)
					}
					if got != want {
						return fmt.Sprintf("want %d got %d", want, got)
					}
					return ""
				}}, true
			},
			// ok=false ("ordinary non-GC apply result") is this API's way of not recognising the bytes
			Decode: func(d []byte) error {
				_, ok, err := DecodeGarbageCollectTerminalChannelMigrationTasksResult(d)
				if err == nil && !ok {
					return fmt.Errorf("not a gc result")
				}
				return err
			}},
		{Name: "fsm.result.CreateChannelRuntimeMetaBatch", Header: 5, Magic: 5,
			Gen: func(rng *rand.Rand) (c27.Case, bool) {
				n := 1 + rng.IntN(5)
				if rng.IntN(10) == 0 {
					n = MaxCreateChannelRuntimeMetaBatchItems
				}
				want := make([]CreateChannelRuntimeMetaBatchResult, n)
				for i := range want {
					want[i] = c27.New[CreateChannelRuntimeMetaBatchResult](rng, c27Bin)
					want[i].ChannelID = c27NonEmpty(rng, c27Bin)
				}
				enc := EncodeCreateChannelRuntimeMetaBatchResult(want)
				return c27.Case{Enc: enc, Shape: c27.Shape(want), Verify: func() string {
					got, err := DecodeCreateChannelRuntimeMetaBatchResult(enc)
					if err != nil {
						return "decode error: " + err.Error()
					}
					return c27.Diff(want, got)
				}}, true
			},
			Decode: func(d []byte) error { _, err := DecodeCreateChannelRuntimeMetaBatchResult(d); return err }},
		{Name: "fsm.result.AppendMessageEvent", Header: 5, Magic: 5,
			Gen: func(rng *rand.Rand) (c27.Case, bool) {
				want := c27.New[metadb.MessageEventAppendResult](rng, c27Bin)
				enc := EncodeAppendMessageEventResult(want)
				return c27.Case{Enc: enc, Shape: c27.Shape(want), Verify: func() string {
					got, err := DecodeAppendMessageEventResult(enc)
					if err != nil {
						return "decode error: " + err.Error()
					}
					if d := c27.Diff(want, got); d != "" {
						return d
					}
					all, err := DecodeAppendMessageEventResults(enc)
					if err != nil || len(all) != 1 {
						return fmt.Sprintf("Results() of a single result: n=%d err=%v", len(all), err)
					}
					return c27.Diff(want, all[0])
				}}, true
			},
			Decode:          func(d []byte) error { _, err := DecodeAppendMessageEventResult(d); return err },
			PrefixMayDecode: func(enc []byte, k int) bool { return c27.TLVBoundaries(enc, 5)[k] }},
		{Name: "fsm.result.AppendMessageEvents", Header: 5, Magic: 5,
			Gen: func(rng *rand.Rand) (c27.Case, bool) {
				n := 1 + rng.IntN(4)
				want := make([]metadb.MessageEventAppendResult, n)
				for i := range want {
					want[i] = c27.New[metadb.MessageEventAppendResult](rng, c27Bin)
				}
				enc := EncodeAppendMessageEventResults(want)
				return c27.Case{Enc: enc, Shape: c27.Shape(want), Verify: func() string {
					got, err := DecodeAppendMessageEventResults(enc)
					if err != nil {
						return "decode error: " + err.Error()
					}
					if d := c27.Diff(want, got); d != "" {
						return d
					}
					last, err := DecodeAppendMessageEventResult(enc)
					if err != nil {
						return "Result() of batch: " + err.Error()
					}
					return c27.Diff(want[n-1], last)
				}}, true
			},
			Decode: func(d []byte) error { _, err := DecodeAppendMessageEventResults(d); return err },
			// batch form: each entry is one TLV; a prefix ending on an entry boundary is a shorter batch
			PrefixMayDecode: func(enc []byte, k int) bool { return c27.TLVBoundaries(enc, 5)[k] }},
	}
}

func TestVerifC27Fsm(t *testing.T) {
	r := verifkit.Start(t, "C27", "fsm")
	defer r.Finish()
	r.SetRule("one codec per slot FSM command encoder (plain and Checked variants) and per exported apply-result codec: reflection-filled metadb payloads (edge-biased integers, hostile strings, nil/empty/short slices and byte payloads; JSON-carried commands with valid UTF-8) → decodeCommand reproduces the payload after the documented canonicalisation (runtime-meta normalisation, sorted/de-duplicated subscriber sets, canonical batch order), DecodeCommandHashSlots reports the expected slots and agrees with decodeCommand on acceptance, DecodeCommandInspection never panics; all strict prefixes; mutations; random bodies behind a valid header; huge lengths at every offset with allocation metering. Non-trivial = encoder accepted the value; distinct = (codec, phase, abstract payload shape).")
	r.Assume("the process-wide heap allocation counter (runtime/metrics /gc/heap/allocs:bytes) read around one decode call in the serial phase (no other harness goroutine allocating) over-approximates the allocation of that call")

	var codecs []c27.Codec
	covered := map[uint8]bool{}
	for _, cd := range c27Commands() {
		codecs = append(codecs, c27CommandCodec(r, cd))
		if enc, _, ok := cd.gen(r.Rand(99)); ok && len(enc) >= 2 {
			covered[enc[1]] = true
		}
	}
	codecs = append(codecs, c27ResultCodecs()...)

	// command types registered in the decoder table that no encoder of this unit produced
	var uncovered []int
	for ty := range commandDecoders {
		if !covered[ty] {
			uncovered = append(uncovered, int(ty))
		}
	}
	sort.Ints(uncovered)
	r.Note("uncovered", map[string]any{
		"decoder_table_command_types_without_driven_encoder": uncovered,
		"not_asserted": "DecodeCommandInspection success (it refuses command kinds it has no redacted view for, by an explicit default branch) — counted per command as inspection.ok / inspection.unsupported; ApplyBatch decode path is the same decodeCommand and is not driven through a state machine here",
	})
	r.Note("store_owned_fields_zeroed", "metadb.Channel{SubscriberMutationVersion,SubscriberCount,DirectoryProjectionState,DirectoryProjectionGeneration}, ChannelRuntimeMeta.DirectoryGeneration, PersonDirectoryTask.Generation have no wire tag (maintained by the store) and are generated as zero")
	r.Note("prefix_policy", "TLV commands: a prefix ending on a top-level TLV boundary is a complete frame with fewer fields (documented forward-compatible format); accepted prefixes of that kind are counted, every other accepted prefix is a violation")

	b := c27.Budget{Values: r.N(12, 150), MutationsPer: r.N(6, 20), HostileValues: r.N(1, 5), RandomInputs: r.N(250, 5000), MaxTruncs: r.N(80, 1600), HostileOffs: r.N(120, 1600), Workers: 6}
	c27.Drive(r, codecs, b)

	// extra: the TLV length field carries 32 bits; a frame whose only field
	// declares 4 GiB-1 must be rejected without allocating it.
	for ty := range commandDecoders {
		in := []byte{commandVersion, ty, 1, 0xff, 0xff, 0xff, 0xff}
		in = append(in, bytes.Repeat([]byte{0}, 32)...)
		r.Guard("decode-hostile-length:type", int(ty), func() {
			if _, err := decodeCommand(in); err == nil {
				r.Violation("declared-length-beyond-input-accepted", map[string]any{"type": ty})
			}
		})
		r.Eval(1)
	}
}
