//go:build verif

// Package c27 is the shared monitor kit of property C27 ("Internal cluster
// codecs round-trip and reject garbage").  It is overlaid into the new
// directory verifrt/c27 and imported by the in-package units that live in
// pkg/slot/fsm and pkg/cluster/channels.
//
// It contains no knowledge of any codec: a reflection-based generator of field
// values, a structural comparison that canonicalises nil/empty slices, and the
// driver that pushes every codec through the four observation phases
//
//	round-trip   decode(encode(v)) == v
//	truncation   every strict prefix of encode(v) must be rejected
//	mutation     bit flips / splices / random bytes never panic
//	hostile      huge declared lengths written at every offset never panic and
//	             never make one decode call allocate more than AllocBound
package c27

import (
	"encoding/binary"
	"fmt"
	"math"
	"math/rand/v2"
	"os"
	"reflect"
	"runtime/metrics"
	"sort"
	"strings"
	"sync"
	"sync/atomic"
	"time"
	"unicode/utf8"

	"github.com/WuKongIM/WuKongIM/pkg/verifkit"
)

// AllocBound is the per-call allocation ceiling for hostile inputs.  Hostile
// inputs are at most 8 KiB.  Every anchored codec bounds a collection either
// by a static limit (≤256 items of ≤2 KiB) or by the number of remaining input
// bytes (≤8192 elements of ≤300 B), and stops at the first element it cannot
// read, so correct code stays below ~5 MiB per call; the largest per-call
// figure observed on the unchanged tree is in evidence (max_call_alloc_bytes,
// per call, including the harness' own witness strings).
const AllocBound = 32 << 20

// ---------------------------------------------------------------------------
// value generation

// FillOpts tunes Fill.
type FillOpts struct {
	// ValidUTF8 restricts strings to valid UTF-8 (JSON codecs).
	ValidUTF8 bool
	// NoNUL removes NUL bytes from strings (NUL-joined string sets).
	NoNUL bool
	// MaxSlice bounds generated slice lengths (default 4).
	MaxSlice int
	// Custom overrides generation for exact types.
	Custom map[reflect.Type]func(rng *rand.Rand) reflect.Value
	// Errors is the pool for fields of interface type error (nil is always possible).
	Errors []error
	// NonNegInt makes plain int fields non-negative (sizes, counts).
	NonNegInt bool
}

var strTokens = []string{"a", "b", "u1", "uid", "@", ":", "/", "-", "_", ".", "0", "9", "Z", " ", "é", "用户", "😀", "\"", "\\", "<", "&", "\n", "\t", " "}
var rawTokens = []string{"\x00", "\xff", "\x80", "\xc3", "\xfe\xff", "\x01"}

// Str generates a string from a hostile alphabet.
func Str(rng *rand.Rand, o *FillOpts) string {
	n := rng.IntN(5)
	switch rng.IntN(12) {
	case 0:
		n = 0
	case 1:
		n = 8 + rng.IntN(40)
	case 2:
		n = 100 + rng.IntN(200)
	}
	var sb strings.Builder
	for i := 0; i < n; i++ {
		if (o == nil || !o.ValidUTF8) && rng.IntN(6) == 0 {
			t := rawTokens[rng.IntN(len(rawTokens))]
			if o != nil && o.NoNUL && strings.Contains(t, "\x00") {
				t = "\x01"
			}
			sb.WriteString(t)
			continue
		}
		sb.WriteString(strTokens[rng.IntN(len(strTokens))])
	}
	s := sb.String()
	if o != nil && o.ValidUTF8 && !utf8.ValidString(s) {
		s = strings.ToValidUTF8(s, "?")
	}
	return s
}

// Bytes generates a byte slice (nil, empty, short, or up to max bytes).
func Bytes(rng *rand.Rand, max int) []byte {
	switch rng.IntN(8) {
	case 0:
		return nil
	case 1:
		return []byte{}
	case 2:
		b := make([]byte, rng.IntN(max+1))
		for i := range b {
			b[i] = byte(rng.UintN(256))
		}
		return b
	default:
		b := make([]byte, rng.IntN(24))
		for i := range b {
			b[i] = byte(rng.UintN(256))
		}
		return b
	}
}

// U64 generates an edge-biased uint64.
func U64(rng *rand.Rand) uint64 {
	switch rng.IntN(10) {
	case 0:
		return 0
	case 1:
		return 1
	case 2:
		return math.MaxUint64
	case 3:
		return math.MaxInt64
	case 4:
		return uint64(1) << rng.UintN(64)
	case 5:
		return 127 + rng.Uint64N(3) // varint width boundary
	case 6:
		return rng.Uint64N(1 << 16)
	default:
		return rng.Uint64()
	}
}

// I64 generates an edge-biased int64.
func I64(rng *rand.Rand) int64 {
	switch rng.IntN(10) {
	case 0:
		return 0
	case 1:
		return -1
	case 2:
		return math.MaxInt64
	case 3:
		return math.MinInt64
	case 4:
		return 1
	case 5:
		return 1_700_000_000_000 + rng.Int64N(1_000_000)
	case 6:
		return rng.Int64N(1<<16) - 1<<15
	default:
		return int64(rng.Uint64())
	}
}

var timeType = reflect.TypeOf(time.Time{})
var errorType = reflect.TypeOf((*error)(nil)).Elem()

// Fill sets v (addressable) to a generated value.
func Fill(rng *rand.Rand, v reflect.Value, o *FillOpts) {
	if o == nil {
		o = &FillOpts{}
	}
	if f, ok := o.Custom[v.Type()]; ok {
		v.Set(f(rng))
		return
	}
	if v.Type() == timeType {
		switch rng.IntN(4) {
		case 0:
			v.Set(reflect.ValueOf(time.Time{}))
		default:
			// 1970..2200, nanosecond precision, UTC, no monotonic reading
			v.Set(reflect.ValueOf(time.Unix(0, rng.Int64N(7_258_118_400_000_000_000)).UTC()))
		}
		return
	}
	switch v.Kind() {
	case reflect.Bool:
		v.SetBool(rng.IntN(2) == 0)
	case reflect.Int, reflect.Int8, reflect.Int16, reflect.Int32, reflect.Int64:
		x := I64(rng)
		bits := v.Type().Bits()
		if bits < 64 {
			x = x << (64 - bits) >> (64 - bits)
		}
		if v.Kind() == reflect.Int && o.NonNegInt && x < 0 {
			x = -(x + 1)
		}
		v.SetInt(x)
	case reflect.Uint, reflect.Uint8, reflect.Uint16, reflect.Uint32, reflect.Uint64:
		x := U64(rng)
		bits := v.Type().Bits()
		if bits < 64 {
			x &= (uint64(1) << bits) - 1
		}
		v.SetUint(x)
	case reflect.String:
		v.SetString(Str(rng, o))
	case reflect.Slice:
		if v.Type().Elem().Kind() == reflect.Uint8 {
			v.SetBytes(Bytes(rng, 300))
			return
		}
		max := o.MaxSlice
		if max == 0 {
			max = 4
		}
		switch rng.IntN(6) {
		case 0:
			v.Set(reflect.Zero(v.Type()))
		case 1:
			v.Set(reflect.MakeSlice(v.Type(), 0, 0))
		default:
			n := 1 + rng.IntN(max)
			s := reflect.MakeSlice(v.Type(), n, n)
			for i := 0; i < n; i++ {
				Fill(rng, s.Index(i), o)
			}
			v.Set(s)
		}
	case reflect.Array:
		for i := 0; i < v.Len(); i++ {
			Fill(rng, v.Index(i), o)
		}
	case reflect.Pointer:
		if rng.IntN(3) == 0 {
			v.Set(reflect.Zero(v.Type()))
			return
		}
		p := reflect.New(v.Type().Elem())
		Fill(rng, p.Elem(), o)
		v.Set(p)
	case reflect.Struct:
		for i := 0; i < v.NumField(); i++ {
			if v.Type().Field(i).IsExported() {
				Fill(rng, v.Field(i), o)
			}
		}
	case reflect.Interface:
		if v.Type() == errorType {
			if len(o.Errors) == 0 || rng.IntN(2) == 0 {
				v.Set(reflect.Zero(v.Type()))
			} else {
				v.Set(reflect.ValueOf(o.Errors[rng.IntN(len(o.Errors))]))
			}
		}
	case reflect.Float32, reflect.Float64:
		v.SetFloat(float64(rng.IntN(1000)))
	}
}

// New returns a generated T.
func New[T any](rng *rand.Rand, o *FillOpts) T {
	var t T
	Fill(rng, reflect.ValueOf(&t).Elem(), o)
	return t
}

// ---------------------------------------------------------------------------
// structural comparison

// Diff returns "" if want and got are equal after canonicalisation, else the
// path and values of the first difference.  Canonicalisation: nil and empty
// slices are equal; time.Time compares by instant; error values compare by
// nil-ness and message.  Only exported fields are compared.
func Diff(want, got any) string {
	var out []string
	diff("", reflect.ValueOf(want), reflect.ValueOf(got), &out)
	return strings.Join(out, "\n")
}

const maxDiffs = 12

// diff appends every differing leaf (up to maxDiffs) to out; it does not stop
// at the first difference so that one run names every field a codec drops.
func diff(path string, a, b reflect.Value, out *[]string) {
	if len(*out) >= maxDiffs {
		return
	}
	add := func(format string, args ...any) { *out = append(*out, path+": "+fmt.Sprintf(format, args...)) }
	if !a.IsValid() || !b.IsValid() {
		if a.IsValid() != b.IsValid() {
			add("validity want=%v got=%v", a.IsValid(), b.IsValid())
		}
		return
	}
	if a.Type() != b.Type() {
		add("type want=%s got=%s", a.Type(), b.Type())
		return
	}
	if a.Type() == timeType {
		ta, tb := a.Interface().(time.Time), b.Interface().(time.Time)
		if !ta.Equal(tb) {
			add("time want=%s got=%s", ta.UTC().Format(time.RFC3339Nano), tb.UTC().Format(time.RFC3339Nano))
		}
		return
	}
	switch a.Kind() {
	case reflect.Bool:
		if a.Bool() != b.Bool() {
			add("want=%v got=%v", a.Bool(), b.Bool())
		}
	case reflect.Int, reflect.Int8, reflect.Int16, reflect.Int32, reflect.Int64:
		if a.Int() != b.Int() {
			add("want=%d got=%d", a.Int(), b.Int())
		}
	case reflect.Uint, reflect.Uint8, reflect.Uint16, reflect.Uint32, reflect.Uint64, reflect.Uintptr:
		if a.Uint() != b.Uint() {
			add("want=%d got=%d", a.Uint(), b.Uint())
		}
	case reflect.Float32, reflect.Float64:
		if a.Float() != b.Float() {
			add("want=%v got=%v", a.Float(), b.Float())
		}
	case reflect.String:
		if a.String() != b.String() {
			add("want=%q got=%q", short(a.String()), short(b.String()))
		}
	case reflect.Slice, reflect.Array:
		if a.Len() != b.Len() {
			add("len want=%d got=%d", a.Len(), b.Len())
			return
		}
		for i := 0; i < a.Len(); i++ {
			diff(fmt.Sprintf("%s[%d]", path, i), a.Index(i), b.Index(i), out)
		}
	case reflect.Pointer:
		if a.IsNil() != b.IsNil() {
			add("nil want=%v got=%v", a.IsNil(), b.IsNil())
			return
		}
		if !a.IsNil() {
			diff(path+"*", a.Elem(), b.Elem(), out)
		}
	case reflect.Interface:
		if a.IsNil() != b.IsNil() {
			add("nil want=%v got=%v", a.IsNil(), b.IsNil())
			return
		}
		if a.IsNil() {
			return
		}
		if a.Type() == errorType {
			ea, eb := a.Interface().(error), b.Interface().(error)
			if ea.Error() != eb.Error() {
				add("error want=%q got=%q", ea.Error(), eb.Error())
			}
			return
		}
		diff(path, a.Elem(), b.Elem(), out)
	case reflect.Struct:
		for i := 0; i < a.NumField(); i++ {
			f := a.Type().Field(i)
			if !f.IsExported() {
				continue
			}
			diff(path+"."+f.Name, a.Field(i), b.Field(i), out)
		}
	case reflect.Map:
		if a.Len() != b.Len() {
			add("map len want=%d got=%d", a.Len(), b.Len())
			return
		}
		for _, k := range a.MapKeys() {
			diff(fmt.Sprintf("%s[%v]", path, k), a.MapIndex(k), b.MapIndex(k), out)
		}
	}
}

// SigPath turns a Diff description into a stable signature fragment: the
// field path without indexes, or "decode-error".
func SigPath(d string) string {
	if strings.HasPrefix(d, "decode error") {
		return "decode-error"
	}
	i := strings.Index(d, ": ")
	if i < 0 || !strings.HasPrefix(d, ".") && !strings.HasPrefix(d, "[") {
		return "other"
	}
	p := d[:i]
	var sb strings.Builder
	skip := false
	for _, c := range p {
		switch {
		case c == '[':
			skip = true
			sb.WriteString("[]")
		case c == ']':
			skip = false
		case skip || c == '*':
		default:
			sb.WriteRune(c)
		}
	}
	return sb.String()
}

func short(s string) string {
	if len(s) > 40 {
		return s[:40] + fmt.Sprintf("..(%d)", len(s))
	}
	return s
}

// Shape renders an abstract fingerprint of v: kinds, nil-ness and length
// classes, never payload bytes.
func Shape(v any) string {
	var sb strings.Builder
	shape(&sb, reflect.ValueOf(v), 0)
	return sb.String()
}

func lenClass(n int) string {
	switch {
	case n == 0:
		return "0"
	case n == 1:
		return "1"
	case n < 8:
		return "s"
	case n < 128:
		return "m"
	default:
		return "l"
	}
}

func shape(sb *strings.Builder, v reflect.Value, depth int) {
	if !v.IsValid() || depth > 7 {
		sb.WriteByte('_')
		return
	}
	switch v.Kind() {
	case reflect.String:
		sb.WriteString("s" + lenClass(v.Len()))
	case reflect.Slice:
		if v.IsNil() {
			sb.WriteString("nil")
			return
		}
		sb.WriteString("[" + lenClass(v.Len()))
		if v.Len() > 0 && v.Type().Elem().Kind() != reflect.Uint8 {
			shape(sb, v.Index(0), depth+1)
		}
		sb.WriteByte(']')
	case reflect.Pointer, reflect.Interface:
		if v.IsNil() {
			sb.WriteString("nil")
			return
		}
		sb.WriteByte('*')
		shape(sb, v.Elem(), depth+1)
	case reflect.Struct:
		sb.WriteByte('{')
		for i := 0; i < v.NumField(); i++ {
			if v.Type().Field(i).IsExported() {
				shape(sb, v.Field(i), depth+1)
			}
		}
		sb.WriteByte('}')
	case reflect.Bool:
		if v.Bool() {
			sb.WriteByte('T')
		} else {
			sb.WriteByte('F')
		}
	case reflect.Int, reflect.Int8, reflect.Int16, reflect.Int32, reflect.Int64:
		switch x := v.Int(); {
		case x == 0:
			sb.WriteByte('0')
		case x < 0:
			sb.WriteByte('-')
		default:
			sb.WriteByte('+')
		}
	case reflect.Uint, reflect.Uint8, reflect.Uint16, reflect.Uint32, reflect.Uint64:
		if v.Uint() == 0 {
			sb.WriteByte('0')
		} else {
			sb.WriteByte('+')
		}
	default:
		sb.WriteByte('?')
	}
}

// ---------------------------------------------------------------------------
// driver

// Case is one generated valid value together with its encoding.
type Case struct {
	// Enc is the encoding of the generated value.
	Enc []byte
	// Shape is the abstract fingerprint of the generated value.
	Shape string
	// Verify decodes Enc and returns "" if the result equals the generated
	// value, else a description of the difference.
	Verify func() string
}

// Codec describes one encode/decode pair to the driver.
type Codec struct {
	Name string
	// Gen generates and encodes a valid value. ok=false: the encoder refused
	// the value (counted, not a violation).
	Gen func(rng *rand.Rand) (c Case, ok bool)
	// Decode decodes arbitrary bytes; a nil error means "accepted".
	Decode func(data []byte) error
	// PrefixMayDecode reports whether the strict prefix enc[:k] of a valid
	// encoding is, by the codec's documented framing, itself a complete
	// frame (TLV field boundary, opaque tail without a length).  nil = never.
	PrefixMayDecode func(enc []byte, k int) bool
	// Header is the number of leading bytes kept intact in "random body" inputs.
	Header int
	// Magic is the number of leading version / kind / magic bytes.  Changing
	// one of them to any other value must make the decoder refuse the frame,
	// unless MagicAlt says that value selects another supported layout.
	Magic    int
	MagicAlt func(off int, b byte) bool
	// Weight scales the per-codec budget (default 1).
	Weight float64
}

// Budget is the per-codec work of one tier.
type Budget struct {
	Values        int // generated values (round-trip + truncation)
	MutationsPer  int // random mutations per value
	HostileValues int // values pushed through the systematic huge-length sweep
	RandomInputs  int // header-preserving random inputs
	MaxTruncs     int // truncation points per value (all prefixes when the encoding is shorter)
	HostileOffs   int // offsets per value in the huge-length sweep (all offsets when shorter)
	Workers       int
}

// hugeLens feeds the random mutation phase.
var hugeLens = []uint64{1 << 16, 1 << 20, 1 << 24, math.MaxInt32, math.MaxUint32, 1 << 48, 1 << 62, math.MaxInt64, math.MaxUint64}

// mutate returns a randomly damaged copy of enc.
func mutate(rng *rand.Rand, enc []byte) []byte {
	out := append([]byte{}, enc...)
	n := 1 + rng.IntN(3)
	for ; n > 0; n-- {
		switch k := rng.IntN(8); {
		case len(out) == 0 || k == 0: // insert random byte
			i := rng.IntN(len(out) + 1)
			out = append(out[:i], append([]byte{byte(rng.UintN(256))}, out[i:]...)...)
		case k == 1: // delete a byte
			i := rng.IntN(len(out))
			out = append(out[:i], out[i+1:]...)
		case k == 2: // flip a bit
			out[rng.IntN(len(out))] ^= byte(1 << rng.UintN(8))
		case k == 3: // random byte
			out[rng.IntN(len(out))] = byte(rng.UintN(256))
		case k == 4: // set to an extreme byte
			out[rng.IntN(len(out))] = []byte{0, 1, 0x7f, 0x80, 0xff}[rng.IntN(5)]
		case k == 5: // splice a huge uvarint over one byte
			i := rng.IntN(len(out))
			v := binary.AppendUvarint(nil, hugeLens[rng.IntN(len(hugeLens))])
			out = append(out[:i], append(v, out[i+1:]...)...)
		case k == 6: // overwrite 4 bytes with a huge big-endian length
			if len(out) >= 4 {
				i := rng.IntN(len(out) - 3)
				binary.BigEndian.PutUint32(out[i:], []uint32{0xffffffff, 0x7fffffff, 0x80000000, 0x0000ffff, 0x0003ffff}[rng.IntN(5)])
			}
		default: // duplicate a slice of itself (repeats fields/entries)
			i := rng.IntN(len(out))
			j := i + rng.IntN(len(out)-i+1)
			if j-i > 256 {
				j = i + 256
			}
			out = append(out[:j], append(append([]byte{}, out[i:j]...), out[j:]...)...)
		}
	}
	return out
}

// hostileSweep is the ascending list of declared lengths written over every
// offset.  Ascending, and swept value-major, so that a missing bound is first
// met with a length whose allocation is large enough to be metered (tens of MiB
// to a few GiB; element sizes range from 8 B to 2 KiB) before lengths that can only crash the process are tried.
var hostileUvarints = []uint64{1 << 18, 1 << 20, 1 << 22, 1 << 24, math.MaxUint32, 1 << 62, math.MaxUint64}
var hostileBE32 = []uint32{0x00040000, 0x00400000, 0xffffffff}

// hostileVariants calls fn with enc where a huge declared length has been
// written at every offset (at most maxOffsets, evenly spread): as a uvarint
// splice over one byte, as a 4-byte big-endian overwrite and as 0xffff.  fn
// returns false to stop the sweep.
func hostileVariants(enc []byte, maxOffsets int, fn func(kind string, in []byte) bool) {
	step := 1
	if len(enc) > maxOffsets {
		step = len(enc)/maxOffsets + 1
	}
	for _, h := range hostileUvarints {
		v := binary.AppendUvarint(nil, h)
		for i := 0; i < len(enc); i += step {
			in := make([]byte, 0, len(enc)+len(v))
			in = append(append(append(in, enc[:i]...), v...), enc[i+1:]...)
			if !fn("uvarint", in) {
				return
			}
		}
	}
	for _, h := range hostileBE32 {
		for i := 0; i+4 <= len(enc); i += step {
			in := append([]byte{}, enc...)
			binary.BigEndian.PutUint32(in[i:], h)
			if !fn("be32", in) {
				return
			}
		}
	}
	for i := 0; i+2 <= len(enc); i += step {
		in := append([]byte{}, enc...)
		in[i], in[i+1] = 0xff, 0xff
		if !fn("be16", in) {
			return
		}
	}
}

var seenSigs sync.Map

// Violate reports the first observation of a signature as a violation with its
// witness and counts every further one (the kit keeps a bounded number of
// witnesses; one per distinct signature is the useful set).
func Violate(r *verifkit.Run, sig string, witness any) {
	if _, dup := seenSigs.LoadOrStore(sig, true); dup {
		r.Count("violation_repeats."+sig, 1)
		return
	}
	r.Violation(sig, witness)
}

var memMu sync.Mutex

// heapAllocs returns the cumulative bytes allocated on the heap by the process
// (runtime/metrics, no stop-the-world, so it is cheap enough to read around
// every single decode call).  Per-P allocation caches make it lag by at most a
// few hundred KiB, which is irrelevant against AllocBound.
func heapAllocs() uint64 {
	s := [1]metrics.Sample{{Name: "/gc/heap/allocs:bytes"}}
	metrics.Read(s[:])
	if s[0].Value.Kind() != metrics.KindUint64 {
		return 0
	}
	return s[0].Value.Uint64()
}

// inFlight describes the decode call currently metered by the serial phase so
// that the sampler can see a runaway allocation while the call is still running.
type inFlightCall struct {
	start uint64
	codec string
	phase string
	in    []byte
}

var inFlight atomic.Pointer[inFlightCall]

// startSampler watches the in-flight call of the serial phase.  A decode call
// that has already allocated more than AllocBound is reported immediately —
// the decision is the allocation counter, the ticker only paces the sampling —
// and, because a Go call cannot be interrupted and a codec without an
// allocation bound can keep a single call busy for hours, the fragment is
// written and the process ends there.
func startSampler(r *verifkit.Run) (stop func()) {
	done := make(chan struct{})
	go func() {
		t := time.NewTicker(20 * time.Millisecond)
		defer t.Stop()
		for {
			select {
			case <-done:
				return
			case <-t.C:
				c := inFlight.Load()
				if c == nil {
					continue
				}
				if d := heapAllocs() - c.start; d > 8*AllocBound {
					Violate(r, "alloc-unbounded:"+c.codec, map[string]any{"phase": c.phase, "input_len": len(c.in), "alloc_bytes_so_far": d, "bound": AllocBound,
						"in": hexCap(c.in, 320), "note": "call still running when sampled; run aborted after recording"})
					r.Note("aborted_after_runaway_allocation", c.codec)
					var sigs []string
					seenSigs.Range(func(k, _ any) bool { sigs = append(sigs, k.(string)); return true })
					sort.Strings(sigs)
					r.Note("violation_signatures", sigs)
					r.Finish()
					os.Exit(3)
				}
			}
		}
	}()
	return func() { close(done) }
}

// Drive runs every codec through all phases and reports to r.
func Drive(r *verifkit.Run, codecs []Codec, b Budget) {
	if b.Workers <= 0 {
		b.Workers = 6
	}
	sort.SliceStable(codecs, func(i, j int) bool { return codecs[i].Name < codecs[j].Name })
	names := make([]string, len(codecs))
	for i, c := range codecs {
		names[i] = c.Name
	}
	r.Note("codecs_covered", names)

	defer func() {
		var sigs []string
		seenSigs.Range(func(k, _ any) bool { sigs = append(sigs, k.(string)); return true })
		sort.Strings(sigs)
		if len(sigs) > 0 {
			r.Note("violation_signatures", sigs)
		}
	}()

	// Phase 1 (serial, allocation-metered): every hostile input — huge
	// declared lengths at every offset, random mutations, random bodies.  A
	// codec seen allocating beyond the bound is reported and its remaining
	// hostile inputs are skipped (they would only thrash memory).
	poisoned := make([]bool, len(codecs))
	func() {
		memMu.Lock()
		defer memMu.Unlock()
		defer startSampler(r)()
		for ci := range codecs {
			if r.Skip(ci) {
				continue
			}
			r.BeginCase(ci, "hostile inputs (metered) "+codecs[ci].Name)
			poisoned[ci] = hostileCodec(r, ci, codecs[ci], b)
			if poisoned[ci] {
				r.Count("hostile_phase_stopped_after_alloc_violation."+codecs[ci].Name, 1)
			}
		}
	}()

	// Phase 2 (parallel over codecs): round-trip, version/magic bytes, truncations.
	r.BeginCase(len(codecs), "round-trip/magic/truncation (parallel over codecs)")
	var wg sync.WaitGroup
	sem := make(chan struct{}, b.Workers)
	for ci := range codecs {
		if r.Skip(ci) {
			continue
		}
		wg.Add(1)
		sem <- struct{}{}
		go func(ci int) {
			defer wg.Done()
			defer func() { <-sem }()
			driveCodec(r, ci, codecs[ci], b)
		}(ci)
	}
	wg.Wait()
}

func weight(c Codec, n int) int {
	w := c.Weight
	if w == 0 {
		w = 1
	}
	m := int(float64(n) * w)
	if m < 1 && n > 0 {
		m = 1
	}
	return m
}

func driveCodec(r *verifkit.Run, ci int, c Codec, b Budget) {
	rng := r.Rand(27, uint64(ci), 1)
	nVal := weight(c, b.Values)
	refused := 0
	for i := 0; i < nVal; i++ {
		var cs Case
		var ok bool
		if r.Guard("encode:"+c.Name, i, func() { cs, ok = c.Gen(rng) }) {
			continue
		}
		if !ok {
			refused++
			continue
		}
		r.Eval(1)
		r.Count("roundtrip."+c.Name, 1)
		var d string
		if r.Guard("decode-own-encoding:"+c.Name, verifkit.Hex8(cs.Enc), func() { d = cs.Verify() }) {
			continue
		}
		if d != "" {
			// one violation per distinct field path (a value may lose several fields)
			for _, one := range strings.Split(d, "\n") {
				Violate(r, "roundtrip-mismatch:"+c.Name+":"+SigPath(one), map[string]any{"diff": one, "all_diffs": d, "enc_len": len(cs.Enc), "enc": hexCap(cs.Enc, 256), "shape": cs.Shape})
			}
			r.Count("roundtrip.mismatched."+c.Name, 1)
			// the remaining phases are independent of the mismatch: keep observing
		} else {
			r.Nontrivial(c.Name + "|rt|" + cs.Shape)
		}
		if r.WantSample() && i == 3 {
			r.Sample(map[string]any{"codec": c.Name, "shape": cs.Shape, "enc": hexCap(cs.Enc, 96), "enc_len": len(cs.Enc)})
		}

		enc := cs.Enc
		// version / kind / magic bytes: every other value must be refused
		if i < 6 {
			for off := 0; off < c.Magic && off < len(enc); off++ {
				for v := 0; v < 256; v++ {
					if byte(v) == enc[off] || (c.MagicAlt != nil && c.MagicAlt(off, byte(v))) {
						continue
					}
					in := append([]byte{}, enc...)
					in[off] = byte(v)
					var err error
					if r.Guard("decode-bad-magic:"+c.Name, map[string]any{"off": off, "v": v}, func() { err = c.Decode(in) }) {
						continue
					}
					r.Eval(1)
					if err == nil {
						Violate(r, fmt.Sprintf("version-or-magic-byte-ignored:%s:byte%d", c.Name, off), map[string]any{"offset": off, "value": v, "original": enc[off], "enc": hexCap(enc, 128)})
					} else {
						r.Count("magic.rejected."+c.Name, 1)
					}
				}
			}
		}

		// truncations: every strict prefix (sampled when the encoding is long)
		maxT := b.MaxTruncs
		if maxT <= 0 {
			maxT = 400
		}
		step := 1
		if len(enc) > maxT {
			step = len(enc)/(maxT/2) + 1
		}
		phase := 0
		if step > 1 {
			phase = rng.IntN(step)
		}
		for k := 0; k < len(enc); k++ {
			if step > 1 && k > maxT/4 && k < len(enc)-maxT/4 && k%step != phase {
				continue
			}
			var err error
			in := enc[:k:k]
			if r.Guard("decode-truncated:"+c.Name, map[string]any{"k": k, "enc": hexCap(enc, 256)}, func() { err = c.Decode(in) }) {
				continue
			}
			r.Eval(1)
			if err == nil {
				if c.PrefixMayDecode != nil && c.PrefixMayDecode(enc, k) {
					r.Count("truncation.legit_prefix_frame."+c.Name, 1)
					continue
				}
				Violate(r, "truncation-accepted:"+c.Name, map[string]any{"k": k, "len": len(enc), "enc": hexCap(enc, 256), "shape": cs.Shape})
				continue
			}
			r.Count("truncation.rejected."+c.Name, 1)
		}
		r.Nontrivial(c.Name + "|trunc|" + lenClass(len(enc)))

	}
	if refused > 0 {
		r.Count("encode.refused."+c.Name, refused)
	}

}

// meter decodes every input of ins with the heap allocation counter read
// before and after the call and reports the first call that allocated more than
// AllocBound.  It returns false in that case.
func meter(r *verifkit.Run, c Codec, phase string, ins [][]byte) bool {
	var maxOne uint64
	ok := true
	for _, in := range ins {
		in := in
		var err error
		a0 := heapAllocs()
		inFlight.Store(&inFlightCall{start: a0, codec: c.Name, phase: phase, in: in})
		panicked := r.Guard("decode-"+phase+":"+c.Name, map[string]any{"in": hexCap(in, 320)}, func() { err = c.Decode(in) })
		inFlight.Store(nil)
		one := heapAllocs() - a0
		r.Eval(1)
		if one > maxOne {
			maxOne = one
		}
		if one > AllocBound {
			Violate(r, "alloc-unbounded:"+c.Name, map[string]any{"phase": phase, "input_len": len(in), "alloc_bytes": one, "bound": AllocBound, "in": hexCap(in, 320), "decode_err": fmt.Sprint(err)})
			ok = false
			break
		}
		switch {
		case panicked:
		case err != nil:
			r.Count(phase+".rejected."+c.Name, 1)
		default:
			r.Count(phase+".decoded."+c.Name, 1)
		}
	}
	// the figure includes the harness' own witness strings (a few hundred bytes per call)
	r.Max("max_call_alloc_bytes."+phase+"."+c.Name, int(maxOne))
	return ok
}

// hostileCodec is the serial, allocation-metered part of a codec's run: the
// systematic huge-length sweep, random mutations of valid encodings and random
// bodies behind a valid header.  It returns true (and stops) when one decode
// call was seen allocating beyond AllocBound.
func hostileCodec(r *verifkit.Run, ci int, c Codec, b Budget) (poisoned bool) {
	rng := r.Rand(27, uint64(ci), 2)
	const batch = 64
	offs := b.HostileOffs
	if offs <= 0 {
		offs = 160
	}
	var pending [][]byte
	phase := "hostile-length"
	push := func(in []byte) bool {
		pending = append(pending, in)
		if len(pending) < batch {
			return true
		}
		ins := pending
		pending = nil
		return meter(r, c, phase, ins)
	}
	flush := func() bool {
		ins := pending
		pending = nil
		return meter(r, c, phase, ins)
	}

	// (a) a huge declared length at every offset of a few valid encodings
	nv := weight(c, b.HostileValues)
	for i := 0; i < nv; i++ {
		var cs Case
		var ok bool
		for tries := 0; tries < 20 && !ok; tries++ {
			cs, ok = c.Gen(rng)
			if ok && len(cs.Enc) > 8192 {
				ok = false // keep hostile inputs small: the bound is per call, input-size independent
			}
		}
		if !ok {
			r.Count("hostile.no_small_value."+c.Name, 1)
			continue
		}
		stop := false
		hostileVariants(cs.Enc, offs, func(kind string, in []byte) bool {
			if !push(in) {
				stop = true
			}
			return !stop
		})
		if stop || !flush() {
			return true
		}
		r.Nontrivial(c.Name + "|hostile|" + lenClass(len(cs.Enc)))
	}

	// (b) random mutations of valid encodings
	phase = "mutation"
	nm := weight(c, b.Values)
	for i := 0; i < nm; i++ {
		cs, ok := c.Gen(rng)
		if !ok {
			continue
		}
		for m := 0; m < b.MutationsPer; m++ {
			if !push(mutate(rng, cs.Enc)) {
				return true
			}
		}
	}
	if !flush() {
		return true
	}

	// (c) random bodies behind a valid header, and fully random inputs
	phase = "random"
	var hdr []byte
	for tries := 0; tries < 50 && hdr == nil; tries++ {
		if cs, ok := c.Gen(rng); ok && len(cs.Enc) >= c.Header {
			hdr = append([]byte{}, cs.Enc[:c.Header]...)
		}
	}
	for i := 0; i < weight(c, b.RandomInputs); i++ {
		n := rng.IntN(64)
		if rng.IntN(8) == 0 {
			n = rng.IntN(2048)
		}
		in := make([]byte, 0, len(hdr)+n)
		if rng.IntN(4) != 0 {
			in = append(in, hdr...)
		}
		for j := 0; j < n; j++ {
			switch rng.IntN(4) {
			case 0:
				in = append(in, []byte{0, 1, 2, 0x7f, 0x80, 0xff}[rng.IntN(6)])
			default:
				in = append(in, byte(rng.UintN(256)))
			}
		}
		if !push(in) {
			return true
		}
	}
	return !flush()
}

func hexCap(b []byte, max int) string {
	const hexd = "0123456789abcdef"
	n := len(b)
	if n > max {
		n = max
	}
	out := make([]byte, 0, 2*n+12)
	for i := 0; i < n; i++ {
		out = append(out, hexd[b[i]>>4], hexd[b[i]&15])
	}
	if len(b) > max {
		out = append(out, []byte(fmt.Sprintf("..(%d)", len(b)))...)
	}
	return string(out)
}

// TLVBoundaries returns the set of offsets of enc (after a header of hdr
// bytes) at which a [tag:1][len:4 BE][value] sequence ends.
func TLVBoundaries(enc []byte, hdr int) map[int]bool {
	out := map[int]bool{}
	off := hdr
	if len(enc) < hdr {
		return out
	}
	out[off] = true
	for off+5 <= len(enc) {
		l := int(binary.BigEndian.Uint32(enc[off+1:]))
		end := off + 5 + l
		if end > len(enc) {
			break
		}
		off = end
		out[off] = true
	}
	return out
}
