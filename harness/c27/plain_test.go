//go:build verif

// C27 unit "plain": codecs whose Encode/Decode pairs are exported and can be
// driven black-box from one place — replication exchange batches and results,
// slot proposal envelope and forwarding request, node RPC header, controller
// commands.
package c27_test

import (
	"bytes"
	"fmt"
	"math"
	"math/rand/v2"
	"testing"

	ch "github.com/WuKongIM/WuKongIM/pkg/channel"
	"github.com/WuKongIM/WuKongIM/pkg/channel/replication"
	clusternet "github.com/WuKongIM/WuKongIM/pkg/cluster/net"
	"github.com/WuKongIM/WuKongIM/pkg/cluster/propose"
	"github.com/WuKongIM/WuKongIM/pkg/controller/command"
	"github.com/WuKongIM/WuKongIM/pkg/verifkit"
	c27 "github.com/WuKongIM/WuKongIM/verifrt/c27"
)

func c27NZ(rng *rand.Rand) uint64 {
	for {
		if v := c27.U64(rng); v != 0 {
			return v
		}
	}
}

func c27Digest(rng *rand.Rand) (d [32]byte) {
	for i := range d {
		d[i] = byte(rng.UintN(256))
	}
	d[rng.IntN(32)] |= 1
	return
}

func c27Record(rng *rand.Rand, epoch uint64) ch.Record {
	o := &c27.FillOpts{}
	ts := c27.I64(rng)
	if ts <= 0 {
		ts = 1 + rng.Int64N(math.MaxInt64)
	}
	return ch.Record{ID: c27NZ(rng), Epoch: epoch, Setting: uint8(rng.UintN(256)), FromUID: c27.Str(rng, o), ClientMsgNo: c27.Str(rng, o),
		ServerTimestampMS: ts, SyncOnce: rng.IntN(2) == 0, Payload: c27.Bytes(rng, 600), SizeBytes: rng.IntN(1 << 20)}
}

// c27Sealed builds a structurally valid sealed proposal of n records after base.
func c27Sealed(rng *rand.Rand, base uint64, n int) (ch.ProposalManifest, []ch.Record, []ch.EntryIdentity) {
	for {
		m := ch.ProposalManifest{Version: ch.ProposalManifestVersion, ChannelEpoch: c27NZ(rng), LeaderTerm: c27NZ(rng), FenceVersion: c27NZ(rng),
			CommandID: c27Digest(rng), BaseOffset: base, LastOffset: base + uint64(n), PreviousIndex: base}
		if base != 0 {
			m.PreviousTerm, m.PreviousDigest = c27NZ(rng), c27Digest(rng)
		}
		recs := make([]ch.Record, n)
		for i := range recs {
			recs[i] = c27Record(rng, m.ChannelEpoch)
			if rng.IntN(2) == 0 {
				recs[i].Index = base + uint64(i) + 1
			}
		}
		sealed, ents, ok := ch.SealProposalManifest(m, recs)
		if ok {
			return sealed, recs, ents
		}
	}
}

func c27Base(rng *rand.Rand, n int) uint64 {
	switch rng.IntN(4) {
	case 0:
		return 0
	case 1:
		return math.MaxUint64 - uint64(n)
	default:
		return rng.Uint64N(1 << 40)
	}
}

func c27Identity(rng *rand.Rand) (ch.ChannelKey, ch.ChannelID, ch.NodeID, ch.NodeID) {
	o := &c27.FillOpts{}
	key := ch.ChannelKey(c27.Str(rng, o) + "k")
	id := ch.ChannelID{ID: c27.Str(rng, o) + "c", Type: uint8(rng.UintN(256))}
	l := ch.NodeID(c27NZ(rng))
	f := ch.NodeID(c27NZ(rng))
	for f == l {
		f = ch.NodeID(c27NZ(rng))
	}
	return key, id, l, f
}

func c27State(rng *rand.Rand, leo uint64) replication.ReplicaState {
	if leo == 0 {
		return replication.ReplicaState{}
	}
	n := 1 + rng.IntN(2)
	if uint64(n) > leo {
		n = int(leo)
	}
	m, _, ents := c27Sealed(rng, leo-uint64(n), n)
	return replication.ReplicaState{LEO: leo, Committed: rng.Uint64N(leo + 1), Manifest: m, TailIdentity: ents[len(ents)-1]}
}

func c27Indexes(rng *rand.Rand) []uint64 {
	switch rng.IntN(5) {
	case 0:
		return nil
	case 1:
		return []uint64{}
	}
	n := 1 + rng.IntN(5)
	if rng.IntN(10) == 0 {
		n = 256
	}
	seen := map[uint64]bool{}
	var out []uint64
	for len(out) < n {
		v := c27NZ(rng)
		if !seen[v] {
			seen[v] = true
			out = append(out, v)
		}
	}
	return out
}

func c27ExchangeBatch(rng *rand.Rand) replication.ExchangeBatch {
	b := replication.ExchangeBatch{Version: replication.ExchangeVersion, Priority: replication.ExchangePriority(rng.IntN(2))}
	n := 1 + rng.IntN(4)
	for i := 0; i < n; i++ {
		it := replication.ExchangeItem{RequestID: c27NZ(rng)}
		kind := 1 + rng.IntN(3)
		if b.Priority != replication.ExchangePriorityForeground {
			kind = 1
		}
		key, id, l, f := c27Identity(rng)
		switch kind {
		case 1:
			nr := 1 + rng.IntN(3)
			m, recs, _ := c27Sealed(rng, c27Base(rng, nr), nr)
			it.Kind = replication.ExchangeReplicate
			it.Replicate = &replication.ReplicateRequest{ChannelKey: key, ChannelID: id, Leader: l, Follower: f, Manifest: m, Records: recs,
				Committed: rng.Uint64N(m.LastOffset) + uint64(rng.IntN(2)), ServerAllocatedMessageIDs: rng.IntN(2) == 0}
		case 2:
			it.Kind = replication.ExchangeProbe
			it.Probe = &replication.ProbeRequest{ChannelKey: key, ChannelID: id, Leader: l, Follower: f, Indexes: c27Indexes(rng)}
		default:
			leo := 1 + rng.Uint64N(1<<30)
			from := 1 + rng.Uint64N(leo)
			through := from + rng.Uint64N(256)
			if through > leo {
				through = leo
			}
			var prev ch.EntryIdentity
			if from > 1 {
				_, _, ents := c27Sealed(rng, from-2, 1)
				prev = ents[0]
			}
			it.Kind = replication.ExchangeFetch
			it.Fetch = &replication.FetchRequest{ChannelKey: key, ChannelID: id, Leader: l, Follower: f, Expected: c27State(rng, leo),
				From: from, Through: through, Previous: prev, MaxBytes: 1 + rng.IntN(1<<30)}
		}
		b.Items = append(b.Items, it)
	}
	return b
}

func c27ExchangeResult(rng *rand.Rand) replication.ExchangeBatchResult {
	o := &c27.FillOpts{NonNegInt: true, MaxSlice: 3}
	res := replication.ExchangeBatchResult{Version: replication.ExchangeVersion}
	n := 1 + rng.IntN(3)
	for i := 0; i < n; i++ {
		it := c27.New[replication.ExchangeItemResult](rng, o)
		it.RequestID = c27NZ(rng)
		res.Items = append(res.Items, it)
	}
	return res
}

func c27PlainCodecs() []c27.Codec {
	var hdrVersion, hdrKind uint8 = 1, 1
	return []c27.Codec{
		{
			Name: "replication.ExchangeBatch", Header: 2, Weight: 0.6, Magic: 1,
			Gen: func(rng *rand.Rand) (c27.Case, bool) {
				v := c27ExchangeBatch(rng)
				enc, err := replication.EncodeExchangeBatch(v)
				if err != nil {
					return c27.Case{}, false
				}
				return c27.Case{Enc: enc, Shape: c27.Shape(v), Verify: func() string {
					got, err := replication.DecodeExchangeBatch(enc)
					if err != nil {
						return "decode error: " + err.Error()
					}
					return c27.Diff(v, got)
				}}, true
			},
			Decode: func(d []byte) error { _, err := replication.DecodeExchangeBatch(d); return err },
		},
		{
			Name: "replication.ExchangeBatchResult", Header: 1, Weight: 0.4, Magic: 1,
			Gen: func(rng *rand.Rand) (c27.Case, bool) {
				v := c27ExchangeResult(rng)
				enc, err := replication.EncodeExchangeBatchResult(v)
				if err != nil {
					return c27.Case{}, false
				}
				return c27.Case{Enc: enc, Shape: c27.Shape(v), Verify: func() string {
					got, err := replication.DecodeExchangeBatchResult(enc)
					if err != nil {
						return "decode error: " + err.Error()
					}
					return c27.Diff(v, got)
				}}, true
			},
			Decode: func(d []byte) error { _, err := replication.DecodeExchangeBatchResult(d); return err },
		},
		{
			Name: "propose.Payload", Header: 1, Magic: 1,
			Gen: func(rng *rand.Rand) (c27.Case, bool) {
				hs := uint16(c27.U64(rng))
				cmd := c27.Bytes(rng, 400)
				enc := propose.EncodePayload(hs, cmd)
				return c27.Case{Enc: enc, Shape: fmt.Sprintf("hs%v|%s", hs != 0, c27.Shape(cmd)), Verify: func() string {
					ghs, gcmd, err := propose.DecodePayload(enc)
					if err != nil {
						return "decode error: " + err.Error()
					}
					if ghs != hs || !bytes.Equal(gcmd, cmd) {
						return fmt.Sprintf("want (%d,%x) got (%d,%x)", hs, cmd, ghs, gcmd)
					}
					return ""
				}}, true
			},
			Decode: func(d []byte) error { _, _, err := propose.DecodePayload(d); return err },
			// [version:1][hashSlot:2][command...]: the command is an opaque
			// tail without a length, so every prefix that still holds the
			// 3-byte header is a complete envelope.
			PrefixMayDecode: func(enc []byte, k int) bool { return k >= 3 },
		},
		{
			Name: "propose.ForwardRequest", Header: 1, Magic: 1,
			// versions 1 and 2 are older layouts of the same request that the decoder still reads
			MagicAlt: func(off int, b byte) bool { return b == 1 || b == 2 || b == 3 },
			Gen: func(rng *rand.Rand) (c27.Case, bool) {
				v := propose.ForwardRequest{SlotID: uint32(c27NZ(rng)), HashSlot: uint16(c27.U64(rng)), Class: propose.ProposalClass(rng.IntN(4)),
					WantResult: rng.IntN(2) == 0, Payload: append([]byte{byte(rng.UintN(256))}, c27.Bytes(rng, 400)...)}
				if v.SlotID == 0 {
					v.SlotID = 1
				}
				enc, err := propose.EncodeForwardRequest(v)
				if err != nil {
					return c27.Case{}, false
				}
				want := v
				if want.Class != propose.ProposalClassBackground {
					want.Class = propose.ProposalClassForeground // documented normalisation of unknown classes
				}
				return c27.Case{Enc: enc, Shape: c27.Shape(v), Verify: func() string {
					got, err := propose.DecodeForwardRequest(enc)
					if err != nil {
						return "decode error: " + err.Error()
					}
					return c27.Diff(want, got)
				}}, true
			},
			Decode: func(d []byte) error { _, err := propose.DecodeForwardRequest(d); return err },
		},
		{
			Name: "clusternet.Header", Header: 2, Magic: 2,
			Gen: func(rng *rand.Rand) (c27.Case, bool) {
				hdrVersion, hdrKind = uint8(rng.UintN(256)), uint8(rng.UintN(256))
				ver, kind := hdrVersion, hdrKind
				body := c27.Bytes(rng, 200)
				prefix := c27.Bytes(rng, 8)
				enc := clusternet.PutHeader(append([]byte{}, prefix...), ver, kind)
				if !bytes.Equal(enc[:len(prefix)], prefix) {
					return c27.Case{Enc: enc, Shape: "prefix-clobbered", Verify: func() string { return "PutHeader clobbered the buffer prefix" }}, true
				}
				enc = append(enc[len(prefix):len(prefix)+2:len(prefix)+2], body...)
				return c27.Case{Enc: enc, Shape: c27.Shape(body), Verify: func() string {
					got, err := clusternet.CheckHeader(enc, ver, kind)
					if err != nil {
						return "decode error: " + err.Error()
					}
					if !bytes.Equal(got, body) {
						return fmt.Sprintf("payload want %x got %x", body, got)
					}
					// a different expected version or kind must be refused
					if _, err := clusternet.CheckHeader(enc, ver+1, kind); err == nil {
						return "wrong version accepted"
					}
					if _, err := clusternet.CheckHeader(enc, ver, kind+1); err == nil {
						return "wrong kind accepted"
					}
					return ""
				}}, true
			},
			Decode: func(d []byte) error { _, err := clusternet.CheckHeader(d, hdrVersion, hdrKind); return err },
			// [version][kind][payload...]: payload is an opaque tail.
			PrefixMayDecode: func(enc []byte, k int) bool { return k >= 2 },
		},
		{
			Name: "controller.Command", Header: 12, Weight: 0.3,
			Gen: func(rng *rand.Rand) (c27.Case, bool) {
				v := c27.New[command.Command](rng, &c27.FillOpts{ValidUTF8: true, MaxSlice: 3})
				enc, err := command.Encode(v)
				if err != nil {
					return c27.Case{}, false
				}
				return c27.Case{Enc: enc, Shape: c27.Shape(v), Verify: func() string {
					got, err := command.Decode(enc)
					if err != nil {
						return "decode error: " + err.Error()
					}
					// the envelope version is a JSON member: any other value must be refused
					for _, ver := range []string{"0", "2", "4294967295"} {
						other := bytes.Replace(enc, []byte(`{"version":1,`), []byte(`{"version":`+ver+`,`), 1)
						if bytes.Equal(other, enc) {
							return ".Envelope: does not start with the version member"
						}
						if _, err := command.Decode(other); err == nil {
							return ".Envelope.Version: unsupported value " + ver + " accepted"
						}
					}
					return c27.Diff(v, got)
				}}, true
			},
			Decode: func(d []byte) error { _, err := command.Decode(d); return err },
		},
	}
}

func TestVerifC27Plain(t *testing.T) {
	r := verifkit.Start(t, "C27", "plain")
	defer r.Finish()
	r.SetRule("per codec: PRNG valid values (reflection-filled structs with edge-biased integers, hostile strings, nil/empty/short slices; replication requests are sealed with the real SealProposalManifest so that Valid() holds) → round-trip equality; every strict prefix of each encoding; random mutations; header-preserving random bodies; a huge declared length written at every offset with per-call TotalAlloc metering. Non-trivial = a value the encoder accepted; distinct = (codec, phase, abstract value shape).")
	r.Assume("the process-wide heap allocation counter (runtime/metrics /gc/heap/allocs:bytes) read around one decode call in the serial phase (no other harness goroutine allocating) over-approximates the allocation of that call")
	b := c27.Budget{Values: r.N(150, 1000), MutationsPer: r.N(10, 20), HostileValues: r.N(4, 16), RandomInputs: r.N(3000, 80000), MaxTruncs: r.N(140, 1600), HostileOffs: r.N(400, 1600), Workers: 6}
	c27.Drive(r, c27PlainCodecs(), b)
	r.Note("uncovered", []string{
		"propose.ForwardRequest layouts v1 and v2 have no encoder: they are reached only as decode inputs (version byte rewritten to 1/2, mutations, random bodies)",
		"exported Encode*/Decode* symbols of the anchored packages were enumerated by hand when this harness was written; a codec added later is not picked up automatically",
	})
	r.Note("prefix_policy", "propose.Payload and clusternet.Header carry an opaque tail without a length: prefixes that still contain the fixed header are complete frames by construction and are counted (truncation.legit_prefix_frame), not asserted")
	r.Note("controller_command_domain", "JSON codec: strings restricted to valid UTF-8 (encoding/json replaces invalid bytes by U+FFFD, which is outside the field domain of addresses/ids)")
}
