//go:build verif

package gateway_test

// C28 — "On one client session, each accepted SEND frame receives exactly one
// SENDACK unless the session closes first, SENDACKs are written in the same
// order as their SENDs, and outbound frames are written in the order they were
// issued. After send draining starts, no new SEND is dispatched, while SENDs
// admitted earlier still complete."
//
// Composition (all real except the two usecases and the transport):
//   testkit fake transport -> real core.Server (async runtime, sessions,
//   dispatcher) -> real wkproto adapter (real CONNECT handshake through the
//   real async auth executor and gateway.NewWKProtoAuthenticator) -> real
//   internal/access/gateway.Handler -> FAKE message usecase (SendBatchEach) and
//   FAKE presence usecase (captures the session handle the real delivery path
//   would push RECV frames through).
//
// One goroutine per connection delivers bytes (transport callback contract),
// so "arrival order" of SENDs on a session is the feeder's program order:
// client seq 1,2,3... One pusher goroutine per session issues RECV frames
// (message seq 1,2,3...) through the captured handle -> session.WriteFrame.
// All instants are ticks of ONE logical clock (atomic counter); wall clock is
// only used for fake latency and for watchdogs (expiry => Inconclusive).
//
// Deciding oracle (offline, per case):
//  per session, on the frames written to its fake connection
//   (a) a SENDACK whose (client msg no, client seq) is not a SEND delivered on
//       this session                                  -> sendack-for-unknown-send
//   (b) two SENDACKs for one client seq                -> duplicate-sendack
//   (c) SENDACK client seqs not increasing             -> sendack-reordered
//   (d) session never closed (checked at a quiescent point: feeders and
//       pushers joined, DrainSends returned nil) and a delivered SEND without
//       SENDACK                                        -> send-without-sendack
//       (a rejected SEND closes the session, so on a never-closed session
//       every delivered SEND was accepted)
//   (e) same session, SENDACK present at the end but absent from the snapshot
//       taken right after the first nil DrainSends return
//                                         -> send-incomplete-when-drain-returned
//   (f) SENDACK says success <=> the fake usecase's pure per-item outcome is
//       success, and on success carries that item's message id
//                                                 -> sendack-result-of-other-item
//   (g) RECV frames: unknown / duplicated / not in issue order / (never-closed
//       session) a push that returned nil but is not on the wire
//  handler side (log kept by the fake usecase, appended under one mutex)
//   (h) one (session, seq) dispatched twice            -> send-dispatched-twice
//   (i) per session dispatch order != arrival order    -> send-dispatch-reordered
//   (j) a SEND whose delivery STARTED after any DrainSends/Stop call returned
//       (fence certainly set) reaches the usecase      -> send-dispatched-after-fence
//   (k) a usecase call that BEGINS after DrainSends returned nil
//                                           -> send-dispatched-after-drain-returned
//   (l) at a nil DrainSends return: #admissions the gateway itself reported
//       "ok" (AsyncSendAdmissionObserver, read first) > #items that reached the
//       usecase (read second)        -> admitted-sends-not-dispatched-at-drain-return
//   (m) never-closed session whose item context was already cancelled at the
//       usecase (request contexts are only cancelled by session close; a drain
//       caller's cancellation must not reach admitted work)
//                                              -> admitted-send-context-cancelled
//
// Drain-storm family (case index >= 100000): the window between submit()'s
// admission check and the accepted-work ownership hand-over contains no call
// into anything the harness can supply (core's own session.ID(), the queue
// mutex, a shard CAS; observers run before/after it), so a submitter cannot be
// parked there deterministically through public/testkit seams. Instead whole
// rounds of fresh servers are stormed concurrently on an oversubscribed
// GOMAXPROCS with the drainers released by the same gate as the feeders (see
// c28GenStorm). Same oracles; (j) is vacuous there because storm feeders do
// not tick the clock.
//
// Deliberately NOT asserted (counted only): sessions that closed (by the
// harness, queue-full/after-fence rejection, injected batch fault, or as
// collateral of another session's failed sendack write in a mixed batch) may
// have unacknowledged SENDs and ack gaps; PING->PONG pairing; any order
// between SENDACK, PONG and RECV streams (issued by different goroutines);
// whether an expired-context DrainSends returns the context error or nil.
// "Eventually" is restated as "when DrainSends returned nil"; if it does not
// within a generous watchdog the run is Inconclusive.

import (
	"context"
	"errors"
	"fmt"
	"io"
	"math/rand/v2"
	"os"
	"runtime"
	"sort"
	"strconv"
	"strings"
	"sync"
	"sync/atomic"
	"testing"
	"time"

	accessgateway "github.com/WuKongIM/WuKongIM/internal/access/gateway"
	"github.com/WuKongIM/WuKongIM/internal/usecase/message"
	"github.com/WuKongIM/WuKongIM/internal/usecase/presence"
	coregateway "github.com/WuKongIM/WuKongIM/pkg/gateway"
	"github.com/WuKongIM/WuKongIM/pkg/gateway/core"
	protowkproto "github.com/WuKongIM/WuKongIM/pkg/gateway/protocol/wkproto"
	"github.com/WuKongIM/WuKongIM/pkg/gateway/testkit"
	gatewaytypes "github.com/WuKongIM/WuKongIM/pkg/gateway/types"
	"github.com/WuKongIM/WuKongIM/pkg/protocol/codec"
	"github.com/WuKongIM/WuKongIM/pkg/protocol/frame"
	"github.com/WuKongIM/WuKongIM/pkg/verifkit"
)

const (
	c28StormBase = 100000 // case indices of the drain-storm family
	c28Listener  = "c28-listener"
	c28Watchdog  = 150 * time.Second
)

const (
	c28ScDrainAfter = iota
	c28ScDrainMid
	c28ScExpiredThenSecond
	c28ScStopMid
	c28ScConcurrentDrainers
	c28ScCount
	// c28ScStorm is the dedicated "drain storm" family (not part of the
	// round-robin over the regular scenarios).
	c28ScStorm = c28ScCount
)

var c28ScenarioNames = [...]string{"drain-after", "drain-mid", "expired-then-second", "stop-mid", "concurrent-drainers", "drain-storm"}

// ---------------------------------------------------------------- plan

type c28Write struct {
	data       []byte
	cuts       []int    // byte offsets at which the write is split into EmitData pieces
	sends      []uint64 // client seqs of SEND frames in this write
	pings      int
	closeAfter bool // harness peer-closes the connection after this write
}

type c28SessPlan struct {
	idx         int
	connID      uint64
	uid         string
	writes      []c28Write
	nSends      int
	nRecv       int
	stopOnFence bool
	window      int // >0: at most this many SENDs not yet seen by the usecase
}

type c28Cfg struct {
	scenario       int
	nSess          int
	workers        int
	capacity       int
	tight          bool
	allPaced       bool
	batchRecs      int
	batchWait      time.Duration
	batchBytes     int
	latMode        int
	itemErrPct     int
	faultPermille  int
	releaseTimeout time.Duration
	closePct       int
	shards         int
	shardCap       int
	trigger        int
	totalWrites    int
	totalSends     int
	sessions       []*c28SessPlan
	// drain-storm family only
	storm     bool
	drainers  int
	procs     int
	sub       int  // index of this server inside its storm round
	gateDrain bool // drainers are released by the same gate as the feeders
	yields    int  // scheduler yields each drainer performs before calling DrainSends
}

func (c *c28Cfg) desc() string {
	return fmt.Sprintf("%s sess=%d workers=%d cap=%d tight=%v paced=%v batch=%d/%s/%dB lat=%d err=%d%% fault=%d/1000 close=%d%% sends=%d trigger=%d/%d rel=%s",
		c28ScenarioNames[c.scenario], c.nSess, c.workers, c.capacity, c.tight, c.allPaced, c.batchRecs, c.batchWait, c.batchBytes,
		c.latMode, c.itemErrPct, c.faultPermille, c.closePct, c.totalSends, c.trigger, c.totalWrites, c.releaseTimeout) +
		func() string {
			if !c.storm {
				return ""
			}
			return fmt.Sprintf(" sub=%d drainers=%d procs=%d gate=%v yields=%d", c.sub, c.drainers, c.procs, c.gateDrain, c.yields)
		}()
}

// replica of core.asyncSendLogicalShardCount / asyncSendShardCapacity; only
// used to size client windows (a wrong replica costs coverage, not soundness).
func c28Shards(workers, capacity int) (int, int) {
	shards := 1
	switch {
	case workers <= 1:
		shards = 1
	case workers <= capacity/4:
		shards = workers * 4
	default:
		shards = capacity
	}
	return shards, (capacity + shards - 1) / shards
}

func c28Pick[T any](rng *rand.Rand, xs ...T) T { return xs[rng.IntN(len(xs))] }

func c28GenCfg(r *verifkit.Run, ci int) *c28Cfg {
	rng := r.Rand(uint64(ci), 0)
	c := &c28Cfg{}
	c.scenario = ci % c28ScCount
	switch x := rng.IntN(10); {
	case x == 0:
		c.nSess = 1
	case x < 5:
		c.nSess = 2 + rng.IntN(7)
	default:
		c.nSess = 9 + rng.IntN(24)
	}
	c.workers = c28Pick(rng, 1, 2, 3, 4, 8)
	c.tight = rng.IntN(3) == 0
	if c.tight {
		c.capacity = c28Pick(rng, 4, 8, 16, 32, 64, 128, 256, 512)
		c.allPaced = rng.IntN(2) == 0
	} else {
		c.capacity = 1 << 17
	}
	c.shards, c.shardCap = c28Shards(c.workers, c.capacity)
	c.batchRecs = c28Pick(rng, 1, 2, 8, 32, 128, 128)
	c.batchWait = c28Pick(rng, -1, 50*time.Microsecond, time.Millisecond)
	c.batchBytes = c28Pick(rng, 0, 0, 96, 1024)
	c.latMode = rng.IntN(4)
	if c.batchRecs <= 2 && c.latMode >= 2 {
		c.latMode = 1
	}
	c.itemErrPct = c28Pick(rng, 0, 10, 30)
	c.faultPermille = c28Pick(rng, 0, 0, 0, 5, 20, 60)
	c.closePct = c28Pick(rng, 0, 0, 0, 10, 25)
	c.releaseTimeout = 60 * time.Second
	if c.scenario == c28ScStopMid && rng.IntN(3) == 0 {
		c.releaseTimeout = time.Millisecond
	}

	budget := r.N(2600, 4200)
	heavy := rng.IntN(c.nSess)
	sizes := make([]int, c.nSess)
	total := 0
	for s := range sizes {
		switch {
		case s == heavy:
			sizes[s] = 60 + rng.IntN(441)
		case rng.IntN(4) == 0:
			sizes[s] = 1 + rng.IntN(8)
		default:
			sizes[s] = 10 + rng.IntN(140)
		}
		total += sizes[s]
	}
	if total > budget {
		rest := budget - sizes[heavy]
		for s := range sizes {
			if s != heavy {
				sizes[s] = 1 + sizes[s]*rest/(total-sizes[heavy]+1)
			}
		}
	}

	perShard := make([]int, c.shards)
	for s := 0; s < c.nSess; s++ {
		perShard[(s+1)%c.shards]++ // session ids are 1..n in open order
	}
	enc := codec.New()
	for s := 0; s < c.nSess; s++ {
		srng := r.Rand(uint64(ci), uint64(s+1))
		p := &c28SessPlan{idx: s, connID: uint64(s + 1), uid: "u" + strconv.Itoa(s), nSends: sizes[s]}
		p.stopOnFence = srng.IntN(3) != 0
		if c.tight && (c.allPaced || srng.IntN(2) == 0) {
			p.window = c.shardCap / perShard[(s+1)%c.shards]
			if p.window < 1 {
				p.window = 1
			}
		}
		p.nRecv = c28Pick(srng, 0, 5, 40, 120)
		maxPerWrite := 64
		if p.window > 0 && p.window < maxPerWrite {
			maxPerWrite = p.window
		}
		seq := uint64(0)
		remaining := p.nSends
		for remaining > 0 {
			burst := 1 + srng.IntN(remaining)
			if srng.IntN(3) == 0 && burst > 8 {
				burst = 1 + srng.IntN(8)
			}
			remaining -= burst
			for burst > 0 {
				k := 1 + srng.IntN(maxPerWrite)
				if k > burst {
					k = burst
				}
				burst -= k
				var w c28Write
				for j := 0; j < k; j++ {
					if srng.IntN(12) == 0 {
						b, _ := enc.EncodeFrame(&frame.PingPacket{}, frame.LatestVersion)
						w.data = append(w.data, b...)
						w.pings++
					}
					seq++
					payload := make([]byte, 1+srng.IntN(48))
					for i := range payload {
						payload[i] = byte('a' + (int(seq)+i)%26)
					}
					b, err := enc.EncodeFrame(&frame.SendPacket{
						ClientSeq: seq, ClientMsgNo: c28MsgNo(s, seq),
						ChannelID: "g" + strconv.Itoa(srng.IntN(4)), ChannelType: frame.ChannelTypeGroup,
						Payload: payload,
					}, frame.LatestVersion)
					if err != nil {
						panic(err)
					}
					w.data = append(w.data, b...)
					w.sends = append(w.sends, seq)
				}
				c28Cut(srng, &w)
				p.writes = append(p.writes, w)
			}
			if srng.IntN(3) == 0 { // ping-only write between bursts
				var w c28Write
				n := 1 + srng.IntN(3)
				for j := 0; j < n; j++ {
					b, _ := enc.EncodeFrame(&frame.PingPacket{}, frame.LatestVersion)
					w.data = append(w.data, b...)
					w.pings++
				}
				p.writes = append(p.writes, w)
			}
		}
		if c.closePct > 0 && srng.IntN(100) < c.closePct && len(p.writes) > 0 {
			p.writes[srng.IntN(len(p.writes))].closeAfter = true
		}
		c.totalWrites += len(p.writes)
		c.totalSends += p.nSends
		c.sessions = append(c.sessions, p)
	}
	c.trigger = -1
	if c.scenario != c28ScDrainAfter {
		lo, hi := c.totalWrites/8, c.totalWrites
		if rng.IntN(10) == 0 {
			lo = 0
		}
		c.trigger = lo + rng.IntN(hi-lo+1)
	}
	return c
}

// c28GenStorm builds one server of a "drain storm" round. A round runs 4-8
// fresh servers concurrently on GOMAXPROCS = 1x/2x/4x NumCPU (>= 8); each
// server has 16-64 sessions (64-512 feeders per round) whose feeders, released
// together by a start gate, blast single-frame writes in tight loops (no
// pacing, no per-write clock ticks, no pushers) at a 1-2 worker runtime with a
// tiny or moderate queue, while 2-4 goroutines call DrainSends - released by
// the same gate (3 of 4 servers, after 0-256 scheduler yields) or at a PRNG
// point in the middle of the writes. The aim is to have
// submitters between the admission check and their ownership hand-over at the
// instant the drain closes admission and finds the accepted-work count at zero.
// Feeders deliberately perform NO synchronising operation the drain caller
// later reads (no shared clock ticks), so the race detector sees submit() and
// drain() exactly as ordered by the code under test.
func c28GenStorm(r *verifkit.Run, ci, sub, procs int) *c28Cfg {
	rng := r.Rand(uint64(ci), uint64(sub), 0x5707)
	c := &c28Cfg{scenario: c28ScStorm, storm: true, sub: sub, procs: procs}
	c.nSess = 16 + rng.IntN(49)
	c.workers = c28Pick(rng, 1, 1, 1, 2)
	c.capacity = c28Pick(rng, 2, 4, 8, 16, 64, 256, 1<<17)
	c.tight = c.capacity < 1<<17
	c.shards, c.shardCap = c28Shards(c.workers, c.capacity)
	c.batchRecs = c28Pick(rng, 1, 4, 128)
	c.batchWait = c28Pick(rng, -1, -1, 50*time.Microsecond)
	c.latMode = c28Pick(rng, 0, 0, 0, 1)
	c.releaseTimeout = 60 * time.Second
	c.drainers = 2 + rng.IntN(3)
	// Most storm servers release the drainers together with the feeders: every
	// feeder's first SEND passes the admission check at about the same instant
	// and piles up behind the queue lock while the drain closes admission and
	// the worker empties the tiny queue. The rest drain at a PRNG point mid-run.
	c.gateDrain = rng.IntN(4) != 0
	c.yields = c28Pick(rng, 0, 0, 1, 4, 16, 64)
	perSess := c28Pick(rng, 3, 6, 12, 24)
	if c.gateDrain {
		perSess = c28Pick(rng, 1, 2, 3)
	}
	enc := codec.New()
	ping, _ := enc.EncodeFrame(&frame.PingPacket{}, frame.LatestVersion)
	pingPct := c28Pick(rng, 0, 20, 60)
	for s := 0; s < c.nSess; s++ {
		srng := r.Rand(uint64(ci), uint64(sub), uint64(s+1), 0x5707)
		p := &c28SessPlan{idx: s, connID: uint64(s + 1), uid: "u" + strconv.Itoa(s)}
		p.nSends = 1 + srng.IntN(perSess)
		for q := uint64(1); q <= uint64(p.nSends); q++ {
			for srng.IntN(100) < pingPct {
				p.writes = append(p.writes, c28Write{data: ping, pings: 1})
			}
			b, err := enc.EncodeFrame(&frame.SendPacket{
				ClientSeq: q, ClientMsgNo: c28MsgNo(s, q), ChannelID: "g0", ChannelType: frame.ChannelTypeGroup,
				Payload: []byte{byte('a' + q%26)},
			}, frame.LatestVersion)
			if err != nil {
				panic(err)
			}
			p.writes = append(p.writes, c28Write{data: b, sends: []uint64{q}})
		}
		c.totalWrites += len(p.writes)
		c.totalSends += p.nSends
		c.sessions = append(c.sessions, p)
	}
	c.trigger = c.totalWrites/5 + rng.IntN(c.totalWrites*3/5+1)
	return c
}

func c28Cut(rng *rand.Rand, w *c28Write) {
	if len(w.data) < 4 || rng.IntN(10) >= 3 {
		return
	}
	n := 1 + rng.IntN(3)
	for i := 0; i < n; i++ {
		w.cuts = append(w.cuts, 1+rng.IntN(len(w.data)-1))
	}
	sort.Ints(w.cuts)
}

func c28MsgNo(sess int, seq uint64) string {
	return "m" + strconv.Itoa(sess) + "-" + strconv.FormatUint(seq, 10)
}

// ---------------------------------------------------------------- fakes

type c28Clock struct{ n atomic.Int64 }

func (c *c28Clock) tick() int64 { return c.n.Add(1) }

func c28Mix(x uint64) uint64 {
	x += 0x9e3779b97f4a7c15
	x = (x ^ (x >> 30)) * 0xbf58476d1ce4e5b9
	x = (x ^ (x >> 27)) * 0x94d049bb133111eb
	return x ^ (x >> 31)
}

// c28Outcome is the fake usecase's pure per-item result.
func c28Outcome(seed uint64, sess int, seq uint64, errPct int) (uint64, error) {
	h := c28Mix(seed ^ c28Mix(uint64(sess)<<32|seq))
	if int(h%100) < errPct {
		switch (h >> 8) % 5 {
		case 0:
			return 0, message.ErrChannelNotFound
		case 1:
			return 0, message.ErrNotLeader
		case 2:
			return 0, context.DeadlineExceeded
		case 3:
			return 0, message.ErrInvalidCommand
		default:
			return 0, errors.New("c28 injected item error")
		}
	}
	return 1 + (h>>16)&0xffffffffff, nil
}

type c28Dispatch struct {
	sess   int
	seq    uint64
	u0     int64
	call   int
	ctxErr bool
}

var errC28Batch = errors.New("c28 injected whole-batch error")

type c28Usecase struct {
	clk           *c28Clock
	seed          uint64
	itemErrPct    int
	faultPermille int
	latMode       int

	seenTotal atomic.Int64
	inflight  atomic.Int64
	seen      []atomic.Int64

	mu       sync.Mutex
	log      []c28Dispatch
	calls    int
	maxBatch int
	faults   map[string]int
	orders   map[string]int
	unknown  int
	// sessions that were part of a call with an injected batch fault
	faultSess map[int]bool
}

func c28ParseUID(uid string) int {
	if !strings.HasPrefix(uid, "u") {
		return -1
	}
	n, err := strconv.Atoi(uid[1:])
	if err != nil {
		return -1
	}
	return n
}

func (u *c28Usecase) SendBatchEach(items []message.SendBatchItem, emit func(int, message.SendBatchItemResult) error) error {
	u.inflight.Add(1)
	defer u.inflight.Add(-1)
	if len(items) == 0 {
		return nil
	}
	u0 := u.clk.tick()
	u.mu.Lock()
	u.calls++
	call := u.calls
	if len(items) > u.maxBatch {
		u.maxBatch = len(items)
	}
	for _, it := range items {
		s := c28ParseUID(it.Command.FromUID)
		if s < 0 || s >= len(u.seen) {
			u.unknown++
			continue
		}
		ctxErr := it.Context != nil && it.Context.Err() != nil
		u.log = append(u.log, c28Dispatch{sess: s, seq: it.Command.ClientSeq, u0: u0, call: call, ctxErr: ctxErr})
	}
	u.mu.Unlock()
	for _, it := range items {
		if s := c28ParseUID(it.Command.FromUID); s >= 0 && s < len(u.seen) {
			u.seen[s].Add(1)
		}
	}
	u.seenTotal.Add(int64(len(items)))

	first := items[0].Command
	h := c28Mix(u.seed ^ c28Mix(uint64(c28ParseUID(first.FromUID)+1)<<40^first.ClientSeq<<8^uint64(len(items))))
	switch u.latMode {
	case 1:
		time.Sleep(time.Duration(h%100) * time.Microsecond)
	case 2:
		time.Sleep(time.Duration(h%2000) * time.Microsecond)
	case 3:
		if h%50 == 0 {
			time.Sleep(8 * time.Millisecond)
		} else {
			time.Sleep(time.Duration(h%400) * time.Microsecond)
		}
	}
	result := func(j int) message.SendBatchItemResult {
		it := items[j].Command
		id, err := c28Outcome(u.seed, c28ParseUID(it.FromUID), it.ClientSeq, u.itemErrPct)
		if err != nil {
			return message.SendBatchItemResult{Err: err}
		}
		return message.SendBatchItemResult{Result: message.SendResult{MessageID: id, MessageSeq: it.ClientSeq, Reason: message.ReasonSuccess}}
	}
	note := func(m map[string]int, k string) { u.mu.Lock(); m[k]++; u.mu.Unlock() }

	order := make([]int, len(items))
	for i := range order {
		order[i] = i
	}
	switch (h >> 20) % 10 {
	case 0:
		for i, j := 0, len(order)-1; i < j; i, j = i+1, j-1 {
			order[i], order[j] = order[j], order[i]
		}
		note(u.orders, "reversed")
	case 1, 2, 3:
		x := h
		for i := len(order) - 1; i > 0; i-- {
			x = c28Mix(x)
			j := int(x % uint64(i+1))
			order[i], order[j] = order[j], order[i]
		}
		note(u.orders, "permuted")
	default:
		note(u.orders, "in-order")
	}

	fault := -1
	if int((h>>32)%1000) < u.faultPermille {
		fault = int((h >> 44) % 5)
		u.mu.Lock()
		for _, it := range items {
			u.faultSess[c28ParseUID(it.Command.FromUID)] = true
		}
		u.mu.Unlock()
	}
	switch fault {
	case 0:
		note(u.faults, "whole-batch-error-before-emit")
		return errC28Batch
	case 1:
		note(u.faults, "whole-batch-error-after-prefix")
		n := int((h >> 48) % uint64(len(order)+1))
		for _, j := range order[:n] {
			if err := emit(j, result(j)); err != nil {
				return err
			}
		}
		return errC28Batch
	case 2:
		note(u.faults, "missing-result")
		skip := int((h >> 48) % uint64(len(order)))
		for k, j := range order {
			if k == skip {
				continue
			}
			if err := emit(j, result(j)); err != nil {
				return err
			}
		}
		return nil
	case 3:
		note(u.faults, "duplicate-result")
		dup := int((h >> 48) % uint64(len(order)))
		for k, j := range order {
			if err := emit(j, result(j)); err != nil {
				return err
			}
			if k == dup {
				if err := emit(j, result(j)); err != nil {
					return err
				}
			}
		}
		return nil
	case 4:
		note(u.faults, "out-of-range-result")
		if err := emit(len(items)+1, message.SendBatchItemResult{}); err != nil {
			return err
		}
	}
	for _, j := range order {
		if err := emit(j, result(j)); err != nil {
			return err
		}
	}
	return nil
}

type c28Presence struct {
	mu      sync.Mutex
	handles map[string]presence.SessionHandle
	touches atomic.Int64
}

func (p *c28Presence) Activate(_ context.Context, cmd presence.ActivateCommand) error {
	p.mu.Lock()
	p.handles[cmd.UID] = cmd.Session
	p.mu.Unlock()
	return nil
}
func (p *c28Presence) Deactivate(context.Context, presence.DeactivateCommand) error { return nil }
func (p *c28Presence) Touch(context.Context, presence.TouchCommand) error {
	p.touches.Add(1)
	return nil
}
func (p *c28Presence) handle(uid string) presence.SessionHandle {
	p.mu.Lock()
	defer p.mu.Unlock()
	return p.handles[uid]
}

type c28Observer struct {
	ok, full atomic.Int64
	maxDepth atomic.Int64
	mu       sync.Mutex
	closes   map[string]int
}

func (o *c28Observer) OnConnectionOpen(gatewaytypes.ConnectionEvent) {}
func (o *c28Observer) OnConnectionClose(ev gatewaytypes.ConnectionEvent) {
	o.mu.Lock()
	o.closes[string(ev.CloseReason)]++
	o.mu.Unlock()
}
func (o *c28Observer) OnAuth(gatewaytypes.AuthEvent)                     {}
func (o *c28Observer) OnFrameIn(gatewaytypes.FrameEvent)                 {}
func (o *c28Observer) OnFrameOut(gatewaytypes.FrameEvent)                {}
func (o *c28Observer) OnFrameHandled(gatewaytypes.FrameHandleEvent)      {}
func (o *c28Observer) OnAsyncSendBatch(gatewaytypes.AsyncSendBatchEvent) {}
func (o *c28Observer) OnAsyncSendDispatchWait(gatewaytypes.AsyncSendDispatchWaitEvent) {
}
func (o *c28Observer) OnAsyncSendQueue(ev gatewaytypes.AsyncSendQueueEvent) {
	for {
		cur := o.maxDepth.Load()
		if int64(ev.Depth) <= cur || o.maxDepth.CompareAndSwap(cur, int64(ev.Depth)) {
			return
		}
	}
}
func (o *c28Observer) OnAsyncSendAdmission(ev gatewaytypes.AsyncSendAdmissionEvent) {
	if ev.Result == "ok" {
		o.ok.Add(1)
	} else {
		o.full.Add(1)
	}
}

// ---------------------------------------------------------------- case runtime

type c28Sess struct {
	plan *c28SessPlan
	conn *testkit.FakeConn
	// feeder-owned, read after join
	sendT0, sendT1 []int64 // by client seq (1-based); 0 = not delivered
	pings          int
	delivered      int
	skipped        int
	pacedWaits     int
	pacedTimeouts  int
	harnessClosed  bool
	straddled      int // storm: SEND writes begun before and finished after the drain call was announced
	connackSeen    bool
	ready          chan struct{}
	// pusher-owned, read after join
	pushOK []bool
}

type c28DrainEv struct {
	kind   string
	c0, c1 int64
	err    string
	isNil  bool
}

type c28Snap struct {
	taken  bool
	acks   []map[uint64]int // per session: client seq -> count
	closed []bool
}

type c28Case struct {
	r   *verifkit.Run
	ci  int
	cfg *c28Cfg
	clk *c28Clock
	srv *core.Server
	uc  *c28Usecase
	pr  *c28Presence
	obs *c28Observer
	ss  []*c28Sess

	startGate      chan struct{}  // storm: released when every feeder finished CONNECT
	connected      sync.WaitGroup // storm
	writeCount     atomic.Int64
	triggerOnce    sync.Once
	triggerCh      chan struct{}
	fenceRequested atomic.Bool

	evMu            sync.Mutex
	events          []c28DrainEv
	snapD           c28Snap
	okAtNil         int64
	seenAtNil       int64
	fullBeforeFence int64
	stopped         bool
	inconclusive    string
}

func c28ConnClosed(c *testkit.FakeConn) bool {
	select {
	case <-c.CloseCh():
		return true
	default:
		return false
	}
}

func (cs *c28Case) fireTrigger() { cs.triggerOnce.Do(func() { close(cs.triggerCh) }) }

func (cs *c28Case) setInconclusive(s string) {
	cs.evMu.Lock()
	if cs.inconclusive == "" {
		cs.inconclusive = s
	}
	cs.evMu.Unlock()
}

func (cs *c28Case) feed(s *c28Sess) {
	defer close(s.ready)
	if cs.cfg.storm {
		arrived := false
		arrive := func() {
			if !arrived {
				arrived = true
				cs.connected.Done()
			}
		}
		defer arrive()
		cs.feedConnect(s)
		arrive()
		if !s.connackSeen {
			return
		}
		<-cs.startGate
		for wi := range s.plan.writes {
			w := &s.plan.writes[wi]
			if c28ConnClosed(s.conn) {
				break
			}
			// no clock ticks here (see c28GenStorm); 1 = "delivered, before any fence"
			for _, q := range w.sends {
				s.sendT0[q], s.sendT1[q] = 1, 1
			}
			before := cs.fenceRequested.Load()
			_ = s.conn.EmitData(w.data)
			if len(w.sends) > 0 && !before && cs.fenceRequested.Load() {
				s.straddled++
			}
			s.delivered += len(w.sends)
			s.pings += w.pings
			cs.bumpWrites()
		}
		return
	}
	cs.feedConnect(s)
	if !s.connackSeen {
		return
	}
	cs.feedWrites(s)
}

func (cs *c28Case) feedConnect(s *c28Sess) {
	connect, err := codec.New().EncodeFrame(&frame.ConnectPacket{
		Version: frame.LatestVersion, UID: s.plan.uid, DeviceID: "d" + s.plan.uid,
		DeviceFlag: frame.APP, ClientTimestamp: 1,
	}, frame.LatestVersion)
	if err != nil {
		panic(err)
	}
	_ = s.conn.EmitData(connect)
	deadline := time.Now().Add(c28Watchdog)
	for len(s.conn.Writes()) == 0 {
		if c28ConnClosed(s.conn) {
			return
		}
		if time.Now().After(deadline) {
			cs.setInconclusive("CONNACK not written within watchdog")
			return
		}
		time.Sleep(100 * time.Microsecond)
	}
	s.connackSeen = true
	s.ready <- struct{}{}
}

func (cs *c28Case) feedWrites(s *c28Sess) {
	sent := 0
	for wi := range s.plan.writes {
		w := &s.plan.writes[wi]
		if c28ConnClosed(s.conn) {
			break
		}
		if len(w.sends) > 0 {
			if s.plan.stopOnFence && cs.fenceRequested.Load() {
				s.skipped += len(w.sends)
				cs.bumpWrites()
				continue
			}
			if s.plan.window > 0 {
				waited := false
				wd := time.Now().Add(30 * time.Second)
				for int64(sent)-cs.uc.seen[s.plan.idx].Load()+int64(len(w.sends)) > int64(s.plan.window) {
					if c28ConnClosed(s.conn) {
						break
					}
					if time.Now().After(wd) {
						s.pacedTimeouts++
						break
					}
					waited = true
					time.Sleep(100 * time.Microsecond)
				}
				if waited {
					s.pacedWaits++
				}
			}
		}
		t0 := cs.clk.tick()
		for _, q := range w.sends {
			s.sendT0[q] = t0
		}
		prev := 0
		for _, cut := range w.cuts {
			if cut > prev {
				_ = s.conn.EmitData(w.data[prev:cut])
				prev = cut
			}
		}
		_ = s.conn.EmitData(w.data[prev:])
		t1 := cs.clk.tick()
		for _, q := range w.sends {
			s.sendT1[q] = t1
		}
		sent += len(w.sends)
		s.delivered += len(w.sends)
		s.pings += w.pings
		cs.bumpWrites()
		if w.closeAfter {
			if wi%2 == 0 {
				s.conn.EmitClose(nil)
			} else {
				s.conn.EmitClose(io.EOF)
			}
			s.harnessClosed = true
			break
		}
	}
	// account for writes never attempted so the trigger still fires
}

func (cs *c28Case) bumpWrites() {
	if n := cs.writeCount.Add(1); cs.cfg.trigger >= 0 && n >= int64(cs.cfg.trigger) {
		cs.fireTrigger()
	}
}

func (cs *c28Case) push(s *c28Sess, rng *rand.Rand) {
	if _, ok := <-s.ready; !ok {
		return
	}
	h := cs.pr.handle(s.plan.uid)
	if h == nil {
		return
	}
	for k := 1; k <= s.plan.nRecv; k++ {
		err := h.WriteDelivery(&frame.RecvPacket{
			MessageID: int64(k), MessageSeq: uint64(k), Timestamp: 1,
			ChannelID: "g0", ChannelType: frame.ChannelTypeGroup, FromUID: "peer",
			ClientMsgNo: "r" + strconv.Itoa(s.plan.idx) + "-" + strconv.Itoa(k),
			Payload:     []byte{byte(k)},
		})
		s.pushOK = append(s.pushOK, err == nil)
		if err != nil {
			return
		}
		switch rng.IntN(4) {
		case 0:
			runtime.Gosched()
		case 1:
			time.Sleep(time.Duration(rng.IntN(300)) * time.Microsecond)
		}
	}
}

func (cs *c28Case) snapshot() c28Snap {
	sn := c28Snap{taken: true, acks: make([]map[uint64]int, len(cs.ss)), closed: make([]bool, len(cs.ss))}
	dec := codec.New()
	for i, s := range cs.ss {
		sn.closed[i] = c28ConnClosed(s.conn)
		m := map[uint64]int{}
		for _, b := range s.conn.Writes() {
			f, _, err := dec.DecodeFrame(b, frame.LatestVersion)
			if err != nil || f == nil {
				continue
			}
			if a, ok := f.(*frame.SendackPacket); ok {
				m[a.ClientSeq]++
			}
		}
		sn.acks[i] = m
	}
	return sn
}

// drain calls DrainSends once and records the event; on the first nil return
// it reads the gateway's own admission counter, then the usecase counter, then
// snapshots every connection.
func (cs *c28Case) drain(kind string, ctx context.Context) (isNil bool) {
	if !cs.cfg.storm {
		cs.evMu.Lock()
		if len(cs.events) == 0 {
			cs.fullBeforeFence = cs.obs.full.Load()
		}
		cs.evMu.Unlock()
	}
	cs.fenceRequested.Store(true)
	c0 := cs.clk.tick()
	err := cs.srv.DrainSends(ctx)
	var okN, seenN int64
	if err == nil {
		okN = cs.obs.ok.Load()
		seenN = cs.uc.seenTotal.Load()
	}
	c1 := cs.clk.tick()
	ev := c28DrainEv{kind: kind, c0: c0, c1: c1, isNil: err == nil}
	if err != nil {
		ev.err = err.Error()
	}
	cs.evMu.Lock()
	first := err == nil && !cs.snapD.taken
	if first {
		cs.okAtNil, cs.seenAtNil = okN, seenN
		cs.snapD.taken = true // reserve
	}
	cs.events = append(cs.events, ev)
	cs.evMu.Unlock()
	if first {
		sn := cs.snapshot()
		cs.evMu.Lock()
		cs.snapD = sn
		cs.evMu.Unlock()
	}
	return err == nil
}

func (cs *c28Case) control(feedersDone <-chan struct{}) {
	if cs.cfg.storm && cs.cfg.gateDrain {
		<-cs.startGate
	} else {
		select {
		case <-cs.triggerCh:
		case <-feedersDone:
		}
	}
	switch cs.cfg.scenario {
	case c28ScDrainAfter:
		// nothing mid-run; the final drain does the work
	case c28ScDrainMid:
		ctx, cancel := context.WithTimeout(context.Background(), c28Watchdog)
		cs.drain("mid", ctx)
		cancel()
	case c28ScExpiredThenSecond:
		var ctx context.Context
		var cancel context.CancelFunc
		if cs.ci%2 == 0 {
			ctx, cancel = context.WithCancel(context.Background())
			cancel()
		} else {
			ctx, cancel = context.WithDeadline(context.Background(), time.Now().Add(-time.Second))
		}
		cs.drain("expired", ctx)
		cancel()
		ctx2, cancel2 := context.WithTimeout(context.Background(), c28Watchdog)
		cs.drain("second", ctx2)
		cancel2()
	case c28ScStopMid:
		cs.evMu.Lock()
		cs.fullBeforeFence = cs.obs.full.Load()
		cs.evMu.Unlock()
		cs.fenceRequested.Store(true)
		c0 := cs.clk.tick()
		ok := verifkit.Watchdog(c28Watchdog, func() { _ = cs.srv.Stop() })
		c1 := cs.clk.tick()
		if !ok {
			cs.setInconclusive("Stop did not return within watchdog")
			return
		}
		cs.evMu.Lock()
		cs.events = append(cs.events, c28DrainEv{kind: "stop", c0: c0, c1: c1})
		cs.stopped = true
		cs.evMu.Unlock()
	case c28ScStorm:
		var wg sync.WaitGroup
		for g := 0; g < cs.cfg.drainers; g++ {
			wg.Add(1)
			go func(g int) {
				defer wg.Done()
				ctx, cancel := context.WithTimeout(context.Background(), c28Watchdog)
				for y := 0; y < cs.cfg.yields*(g+1); y++ {
					runtime.Gosched()
				}
				cs.drain("storm-"+strconv.Itoa(g), ctx)
				cancel()
			}(g)
		}
		wg.Wait()
	case c28ScConcurrentDrainers:
		var wg sync.WaitGroup
		for g := 0; g < 3; g++ {
			wg.Add(1)
			go func(g int) {
				defer wg.Done()
				var ctx context.Context
				var cancel context.CancelFunc
				switch g {
				case 0:
					ctx, cancel = context.WithTimeout(context.Background(), c28Watchdog)
				case 1:
					ctx, cancel = context.WithTimeout(context.Background(), time.Duration(1+cs.ci%7)*100*time.Microsecond)
				default:
					ctx, cancel = context.WithCancel(context.Background())
					cancel()
				}
				cs.drain("concurrent-"+strconv.Itoa(g), ctx)
				cancel()
			}(g)
		}
		wg.Wait()
	}
}

var c28Phase [5]time.Duration // informational wall-clock phase split of the last case

func c28RunCase(r *verifkit.Run, ci int, cfg *c28Cfg) (abort bool) {
	tPhase := time.Now()
	mark := func(i int) {
		if !cfg.storm { // storm servers run concurrently
			c28Phase[i] = time.Since(tPhase)
			tPhase = time.Now()
		}
	}
	cs := &c28Case{r: r, ci: ci, cfg: cfg, clk: &c28Clock{}, triggerCh: make(chan struct{})}
	seed := c28Mix(r.Seed ^ c28Mix(uint64(ci)))
	cs.uc = &c28Usecase{clk: cs.clk, seed: seed, itemErrPct: cfg.itemErrPct, faultPermille: cfg.faultPermille,
		latMode: cfg.latMode, seen: make([]atomic.Int64, cfg.nSess), faults: map[string]int{}, orders: map[string]int{}, faultSess: map[int]bool{}}
	cs.pr = &c28Presence{handles: map[string]presence.SessionHandle{}}
	cs.obs = &c28Observer{closes: map[string]int{}}

	handler := accessgateway.New(accessgateway.Options{Messages: cs.uc, Presence: cs.pr, OwnerNodeID: 1, SendTimeout: time.Hour})
	tf := testkit.NewFakeTransportFactory("c28-fake")
	reg := core.NewRegistry()
	if err := reg.RegisterTransport(tf); err != nil {
		r.Inconclusive("register transport: " + err.Error())
		return true
	}
	if err := reg.RegisterProtocol(protowkproto.New()); err != nil {
		r.Inconclusive("register protocol: " + err.Error())
		return true
	}
	srv, err := core.NewServer(reg, &coregateway.Options{
		Handler:       handler,
		Authenticator: coregateway.NewWKProtoAuthenticator(coregateway.WKProtoAuthOptions{DisableEncryption: true}),
		Observer:      cs.obs,
		DefaultSession: coregateway.SessionOptions{
			IdleTimeout:              24 * time.Hour,
			AsyncSendBatchMaxWait:    cfg.batchWait,
			AsyncSendBatchMaxRecords: cfg.batchRecs,
			AsyncSendBatchMaxBytes:   cfg.batchBytes,
		},
		Runtime: coregateway.RuntimeOptions{
			AsyncSendWorkers:        cfg.workers,
			AsyncSendQueueCapacity:  cfg.capacity,
			AsyncAuthWorkers:        4,
			AsyncAuthQueueCapacity:  1024,
			AsyncPoolReleaseTimeout: cfg.releaseTimeout,
		},
		Listeners: []coregateway.ListenerOptions{{Name: c28Listener, Network: "tcp", Address: "127.0.0.1:9", Transport: tf.Name(), Protocol: protowkproto.Name}},
	})
	if err != nil {
		r.Inconclusive("core.NewServer: " + err.Error())
		return true
	}
	if err := srv.Start(); err != nil {
		r.Inconclusive("Server.Start: " + err.Error())
		return true
	}
	cs.srv = srv

	for _, p := range cfg.sessions {
		s := &c28Sess{plan: p, sendT0: make([]int64, p.nSends+1), sendT1: make([]int64, p.nSends+1), ready: make(chan struct{}, 1)}
		s.conn = tf.MustOpen(c28Listener, p.connID) // sequential: session ids 1..n
		cs.ss = append(cs.ss, s)
	}
	if cfg.trigger == 0 {
		cs.fireTrigger()
	}
	mark(0)

	var feeders, pushers sync.WaitGroup
	if cfg.storm {
		cs.startGate = make(chan struct{})
		cs.connected.Add(len(cs.ss))
		go func() { cs.connected.Wait(); close(cs.startGate) }()
	}
	for i, s := range cs.ss {
		feeders.Add(1)
		go func(s *c28Sess) { defer feeders.Done(); cs.feed(s) }(s)
		pushers.Add(1)
		prng := r.Rand(uint64(ci), uint64(i+1), 7)
		go func(s *c28Sess) { defer pushers.Done(); cs.push(s, prng) }(s)
	}
	feedersDone := make(chan struct{})
	go func() { feeders.Wait(); close(feedersDone) }()
	controlDone := make(chan struct{})
	go func() { defer close(controlDone); cs.control(feedersDone) }()

	joined := verifkit.Watchdog(2*c28Watchdog+30*time.Second, func() {
		<-feedersDone
		pushers.Wait()
		<-controlDone
	})
	mark(1)
	if !joined {
		r.Inconclusive(fmt.Sprintf("case %d (%s): feeders/pushers/control did not finish within watchdog", ci, cfg.desc()))
		return true
	}
	if cs.inconclusive != "" {
		r.Inconclusive(fmt.Sprintf("case %d (%s): %s", ci, cfg.desc(), cs.inconclusive))
		return true
	}

	if !cs.stopped {
		cs.evMu.Lock()
		haveNil := cs.snapD.taken
		cs.evMu.Unlock()
		ctx, cancel := context.WithTimeout(context.Background(), c28Watchdog)
		isNil := cs.drain("final", ctx)
		cancel()
		if !isNil && !haveNil {
			r.Inconclusive(fmt.Sprintf("case %d (%s): DrainSends did not return nil within %s (last: %v)", ci, cfg.desc(), c28Watchdog, cs.events[len(cs.events)-1].err))
			return true
		}
	} else {
		// Stop's own wait is bounded by the release budget; accepted work goes on
		// in the background. Wait (bounded) until the usecase has seen everything
		// the gateway reported as admitted.
		deadline := time.Now().Add(c28Watchdog)
		for cs.uc.inflight.Load() != 0 || cs.uc.seenTotal.Load() < cs.obs.ok.Load() {
			if time.Now().After(deadline) {
				r.Inconclusive(fmt.Sprintf("case %d (%s): %d admitted SENDs, %d dispatched %s after Stop", ci, cfg.desc(), cs.obs.ok.Load(), cs.uc.seenTotal.Load(), c28Watchdog))
				return true
			}
			time.Sleep(200 * time.Microsecond)
		}
	}

	mark(2)
	snapF := cs.snapshot()
	finalWrites := make([][][]byte, len(cs.ss))
	for i, s := range cs.ss {
		finalWrites[i] = s.conn.Writes()
	}
	if !cs.stopped {
		if !verifkit.Watchdog(c28Watchdog, func() { _ = cs.srv.Stop() }) {
			r.Inconclusive(fmt.Sprintf("case %d: final Stop did not return within watchdog", ci))
			return true
		}
	}
	mark(3)
	cs.analyse(snapF, finalWrites)
	mark(4)
	return false
}

// ---------------------------------------------------------------- oracle

func (cs *c28Case) violation(sig string, w map[string]any) {
	w["case"] = cs.ci
	w["cfg"] = cs.cfg.desc()
	w["events"] = cs.eventStrings()
	cs.r.Violation(sig, w)
}

func (cs *c28Case) eventStrings() []string {
	out := make([]string, 0, len(cs.events))
	for _, e := range cs.events {
		out = append(out, fmt.Sprintf("%s[%d..%d] nil=%v err=%q", e.kind, e.c0, e.c1, e.isNil, e.err))
	}
	return out
}

func c28Clip(xs []uint64, n int) []uint64 {
	if len(xs) > n {
		return xs[:n]
	}
	return xs
}

func (cs *c28Case) analyse(snapF c28Snap, finalWrites [][][]byte) {
	r, cfg := cs.r, cs.cfg
	r.Eval(1)
	r.Count("cases."+c28ScenarioNames[cfg.scenario], 1)
	if cfg.storm {
		straddled, nilDrains := 0, 0
		for _, s := range cs.ss {
			straddled += s.straddled
		}
		for _, e := range cs.events {
			if e.kind != "final" {
				r.Count("storm.drain_calls", 1)
				if e.isNil {
					nilDrains++
				}
			}
		}
		r.Count("storm.drain_calls_returned_nil", nilDrains)
		r.Count("storm.send_submits_in_flight_at_drain_call", straddled)
		if straddled > 0 {
			r.Count("storm.cases_with_submit_in_flight_at_drain_call", 1)
		}
		if straddled > 0 {
			r.Nontrivial(fmt.Sprintf("storm|w%d|cap%d|b%d|n%d|p%d|d%d", cfg.workers, cfg.capacity, cfg.batchRecs, cfg.nSess/32, cfg.procs, cfg.drainers))
		}
		r.Count("storm.rejected_submits(queue full or fence)", int(cs.obs.full.Load()))
		r.Max("storm.max_sessions", cfg.nSess)
	}

	var fence int64 = -1     // earliest return of any DrainSends/Stop call
	var firstCall int64 = -1 // earliest drain/stop call
	var nilRet int64 = -1    // return tick of first nil DrainSends
	for _, e := range cs.events {
		if fence < 0 || e.c1 < fence {
			fence = e.c1
		}
		if firstCall < 0 || e.c0 < firstCall {
			firstCall = e.c0
		}
		if e.isNil && (nilRet < 0 || e.c1 < nilRet) {
			nilRet = e.c1
		}
		switch {
		case e.kind == "stop":
			r.Count("drain.stop_calls", 1)
		case e.isNil:
			r.Count("drain.returned_nil", 1)
		default:
			r.Count("drain.returned_ctx_error", 1)
			if !strings.Contains(e.err, "context") {
				cs.violation("drain-unexpected-error", map[string]any{"err": e.err, "kind": e.kind})
			}
		}
	}
	if (cfg.scenario == c28ScExpiredThenSecond) && len(cs.events) >= 2 && !cs.events[1].isNil {
		// the second call had a generous deadline: its expiry is a watchdog
		r.Inconclusive(fmt.Sprintf("case %d: second DrainSends returned %q", cs.ci, cs.events[1].err))
	}

	// ---- handler side
	dec := codec.New()
	type key struct {
		sess int
		seq  uint64
	}
	seenDispatch := make(map[key]int, len(cs.uc.log))
	lastSeq := make([]uint64, len(cs.ss))
	dispatchU0 := make([]map[uint64]int64, len(cs.ss))
	for i := range dispatchU0 {
		dispatchU0[i] = map[uint64]int64{}
	}
	if cs.uc.unknown > 0 {
		cs.violation("dispatch-of-unknown-sender", map[string]any{"count": cs.uc.unknown})
	}
	for _, d := range cs.uc.log {
		s := cs.ss[d.sess]
		k := key{d.sess, d.seq}
		seenDispatch[k]++
		if seenDispatch[k] == 2 {
			cs.violation("send-dispatched-twice", map[string]any{"session": d.sess, "seq": d.seq, "call": d.call})
		}
		if d.seq == 0 || int(d.seq) >= len(s.sendT0) || s.sendT0[d.seq] == 0 {
			cs.violation("dispatch-of-undelivered-send", map[string]any{"session": d.sess, "seq": d.seq})
			continue
		}
		if d.seq <= lastSeq[d.sess] && seenDispatch[k] == 1 {
			cs.violation("send-dispatch-reordered", map[string]any{"session": d.sess, "seq": d.seq, "after": lastSeq[d.sess], "call": d.call})
		}
		if d.seq > lastSeq[d.sess] {
			lastSeq[d.sess] = d.seq
		}
		dispatchU0[d.sess][d.seq] = d.u0
		if fence >= 0 && s.sendT0[d.seq] > fence {
			cs.violation("send-dispatched-after-fence", map[string]any{"session": d.sess, "seq": d.seq, "delivery_started": s.sendT0[d.seq], "fence": fence, "dispatch": d.u0})
		}
		if nilRet >= 0 && d.u0 > nilRet {
			cs.violation("send-dispatched-after-drain-returned", map[string]any{"session": d.sess, "seq": d.seq, "dispatch": d.u0, "drain_returned_nil": nilRet, "delivery": []int64{s.sendT0[d.seq], s.sendT1[d.seq]}})
		}
		if d.ctxErr && !snapF.closed[d.sess] {
			cs.violation("admitted-send-context-cancelled", map[string]any{"session": d.sess, "seq": d.seq})
		}
		if d.ctxErr {
			r.Count("usecase.items_with_cancelled_ctx(closed sessions)", 1)
		}
	}
	if cs.snapD.taken && cs.okAtNil > cs.seenAtNil {
		cs.violation("admitted-sends-not-dispatched-at-drain-return", map[string]any{"admitted_ok": cs.okAtNil, "dispatched": cs.seenAtNil})
	}

	// ---- per session wire log
	overlapMax, anySaturated := 0, cs.fullBeforeFence > 0
	heavyOverlap, heavySaturated := false, false
	for i, s := range cs.ss {
		open := !snapF.closed[i]
		var acks []uint64
		ackCount := map[uint64]int{}
		var recvs []uint64
		pongs, connacks := 0, 0
		for wi, b := range finalWrites[i] {
			f, n, err := dec.DecodeFrame(b, frame.LatestVersion)
			if err != nil || f == nil || n != len(b) {
				cs.violation("undecodable-outbound-frame", map[string]any{"session": i, "write": wi, "len": len(b)})
				continue
			}
			switch p := f.(type) {
			case *frame.ConnackPacket:
				connacks++
				if wi != 0 {
					cs.violation("connack-not-first", map[string]any{"session": i, "write": wi})
				}
			case *frame.PongPacket:
				pongs++
			case *frame.RecvPacket:
				recvs = append(recvs, p.MessageSeq)
			case *frame.SendackPacket:
				q := p.ClientSeq
				if q == 0 || int(q) >= len(s.sendT0) || s.sendT0[q] == 0 || p.ClientMsgNo != c28MsgNo(i, q) {
					cs.violation("sendack-for-unknown-send", map[string]any{"session": i, "client_seq": q, "client_msg_no": p.ClientMsgNo, "write": wi})
					continue
				}
				ackCount[q]++
				if ackCount[q] == 2 {
					cs.violation("duplicate-sendack", map[string]any{"session": i, "client_seq": q, "open": open})
					continue
				}
				if len(acks) > 0 && q < acks[len(acks)-1] {
					cs.violation("sendack-reordered", map[string]any{"session": i, "client_seq": q, "after": acks[len(acks)-1], "open": open, "tail": c28Clip(acks[max(0, len(acks)-6):], 6)})
				}
				acks = append(acks, q)
				id, oerr := c28Outcome(cs.uc.seed, i, q, cfg.itemErrPct)
				if (oerr == nil) != (p.ReasonCode == frame.ReasonSuccess) || (oerr == nil && uint64(p.MessageID) != id) {
					cs.violation("sendack-result-of-other-item", map[string]any{"session": i, "client_seq": q, "reason": p.ReasonCode.String(), "message_id": p.MessageID, "want_id": id, "want_err": fmt.Sprint(oerr)})
				}
				if oerr == nil {
					r.Count("sendack.success", 1)
				} else {
					r.Count("sendack.error_reason", 1)
				}
			}
		}
		r.Count("frames.sendack", len(acks))
		r.Count("frames.pong", pongs)
		r.Count("frames.recv", len(recvs))
		r.Count("sends.delivered", s.delivered)
		r.Count("sends.skipped_after_fence_by_client", s.skipped)
		r.Count("pings.delivered", s.pings)
		r.Count("sessions.total", 1)
		r.Count("client.paced_waits", s.pacedWaits)
		r.Count("client.paced_timeouts", s.pacedTimeouts)

		var missing, lateAcks []uint64
		for q := 1; q < len(s.sendT0); q++ {
			if s.sendT0[q] == 0 {
				continue
			}
			if ackCount[uint64(q)] == 0 {
				missing = append(missing, uint64(q))
			} else if cs.snapD.taken && cs.snapD.acks[i][uint64(q)] == 0 {
				lateAcks = append(lateAcks, uint64(q))
			}
		}
		switch {
		case open && (cs.snapD.taken) && len(missing) > 0:
			cs.violation("send-without-sendack", map[string]any{"session": i, "delivered": s.delivered, "acked": len(acks), "missing": c28Clip(missing, 12), "n_missing": len(missing),
				"first_missing_delivery": []int64{s.sendT0[missing[0]], s.sendT1[missing[0]]}, "first_missing_dispatched_at": dispatchU0[i][missing[0]]})
		case !open && len(missing) > 0:
			r.Count("closed_sessions.unacked_sends", len(missing))
			if len(acks) > 0 && missing[0] < acks[len(acks)-1] {
				r.Count("closed_sessions.with_ack_gap", 1)
			}
		}
		if open && len(lateAcks) > 0 {
			cs.violation("send-incomplete-when-drain-returned", map[string]any{"session": i, "late": c28Clip(lateAcks, 12), "n_late": len(lateAcks)})
		}
		if open {
			r.Count("sessions.open_at_end", 1)
			r.Count("sends.acked_exactly_once_on_open_sessions", len(acks))
		} else if s.harnessClosed {
			r.Count("sessions.closed_by_harness", 1)
		} else {
			r.Count("sessions.closed_by_server", 1)
			// Not asserted (the statement exempts closed sessions): a session that
			// cannot have been rejected (ample queue, every SEND delivered before
			// any fence), was never in a faulted usecase call and was not closed by
			// the harness, yet was closed by the server. The only remaining cause
			// is another session's failed sendack write (closed session) in a
			// mixed-session batch: OnSendBatch returns that error and core closes
			// every session of the batch.
			lastT1 := int64(0)
			for _, t := range s.sendT1 {
				if t > lastT1 {
					lastT1 = t
				}
			}
			if !cfg.tight && !cs.stopped && !cs.uc.faultSess[i] && (firstCall < 0 || lastT1 < firstCall) {
				r.Count("sessions.closed_collaterally_by_other_sessions_failed_write(not asserted)", 1)
				if len(missing) > 0 {
					r.Count("sends.unacked_on_collaterally_closed_sessions(not asserted)", len(missing))
				}
			}
		}

		// outbound RECV order
		okPushed := 0
		for _, ok := range s.pushOK {
			if ok {
				okPushed++
			}
		}
		r.Count("recv.pushed_ok", okPushed)
		seenRecv := map[uint64]bool{}
		var lastRecv uint64
		for _, q := range recvs {
			if q == 0 || int(q) > len(s.pushOK) {
				cs.violation("outbound-recv-unknown", map[string]any{"session": i, "message_seq": q, "issued": len(s.pushOK)})
				continue
			}
			if seenRecv[q] {
				cs.violation("outbound-recv-duplicated", map[string]any{"session": i, "message_seq": q})
				continue
			}
			seenRecv[q] = true
			if q < lastRecv {
				cs.violation("outbound-recv-reordered", map[string]any{"session": i, "message_seq": q, "after": lastRecv})
			}
			lastRecv = q
		}
		if open {
			for k, ok := range s.pushOK {
				if ok && !seenRecv[uint64(k+1)] {
					cs.violation("outbound-recv-lost", map[string]any{"session": i, "message_seq": k + 1})
					break
				}
			}
		}
		if pongs > s.pings {
			cs.violation("pong-without-ping", map[string]any{"session": i, "pongs": pongs, "pings": s.pings})
		}
		if open && pongs != s.pings {
			r.Count("open_sessions.ping_pong_mismatch(not asserted)", 1)
		}

		// non-triviality bookkeeping
		overlap := 0
		if firstCall >= 0 {
			for q, u0 := range dispatchU0[i] {
				if s.sendT0[q] < firstCall && u0 > firstCall {
					overlap++
				}
			}
		}
		if overlap > overlapMax {
			overlapMax = overlap
		}
		sat := (cs.fullBeforeFence > 0 || s.pacedWaits > 0) && s.delivered >= 50
		if s.pacedWaits > 0 {
			anySaturated = true
		}
		if overlap >= 50 {
			heavyOverlap = true
		}
		if sat {
			heavySaturated = true
		}
	}

	// ---- evidence
	cs.uc.mu.Lock()
	r.Count("usecase.calls", cs.uc.calls)
	r.Count("usecase.items", len(cs.uc.log))
	r.Max("usecase.max_batch", cs.uc.maxBatch)
	for k, v := range cs.uc.faults {
		r.Count("usecase.fault."+k, v)
	}
	for k, v := range cs.uc.orders {
		r.Count("usecase.emit_order."+k, v)
	}
	cs.uc.mu.Unlock()
	r.Count("admission.ok", int(cs.obs.ok.Load()))
	r.Count("admission.rejected", int(cs.obs.full.Load()))
	r.Count("admission.rejected_before_fence", int(cs.fullBeforeFence))
	r.Max("queue.max_depth", int(cs.obs.maxDepth.Load()))
	r.Max("max_sends_in_flight_across_drain(one session)", overlapMax)
	cs.obs.mu.Lock()
	for k, v := range cs.obs.closes {
		r.Count("close_reason."+k, v)
	}
	cs.obs.mu.Unlock()
	if anySaturated {
		r.Count("cases.with_saturated_queue", 1)
	}
	if heavyOverlap {
		r.Count("cases.with_50+_sends_across_drain", 1)
	}
	if heavyOverlap || heavySaturated {
		ob := "ov0"
		switch {
		case overlapMax >= 200:
			ob = "ov200"
		case overlapMax >= 50:
			ob = "ov50"
		}
		r.Nontrivial(fmt.Sprintf("%s|w%d|tight=%v|paced=%v|b%d|n%d|fault=%v|close=%v|lat%d|%s|sat=%v",
			c28ScenarioNames[cfg.scenario], cfg.workers, cfg.tight, cfg.allPaced, cfg.batchRecs, (cfg.nSess+7)/8,
			cfg.faultPermille > 0, cfg.closePct > 0, cfg.latMode, ob, heavySaturated))
	}
	if r.WantSample() && (heavyOverlap || heavySaturated) {
		open := 0
		for _, c := range snapF.closed {
			if !c {
				open++
			}
		}
		r.Sample(map[string]any{"case": cs.ci, "cfg": cfg.desc(), "events": cs.eventStrings(), "sessions_open_at_end": open,
			"usecase_calls": cs.uc.calls, "admitted": cs.obs.ok.Load(), "rejected": cs.obs.full.Load(), "max_overlap": overlapMax})
	}
}

func TestVerifC28(t *testing.T) {
	r := verifkit.Start(t, "C28", "main")
	defer r.Finish()
	r.SetRule("Case = PRNG(seed, index): scenario (drain after / mid-run / expired-ctx then second call / Stop mid-run / 3 concurrent drainers), 1-32 wkproto sessions over the fake transport with real CONNECT, per session 1-500 SENDs in bursts (1-64 frames per transport write, writes split at random byte offsets, interleaved PINGs, harness RECV pushes through the presence session handle), workers 1-8, queue capacity ample or 4-512 (clients blasting or window-paced), batch limits 1-128 records / 96B-default bytes, fake usecase latency 0-8ms, per-item errors 0-30%, batch faults 0-6% (whole-batch error, short/duplicate/out-of-range results), out-of-order result emission, harness peer-closes. Non-trivial = some session with >=50 SENDs delivered before the first DrainSends/Stop call and dispatched after it, or >=50 SENDs on a session while the queue was saturated (admission rejected before any fence, or a paced client blocked on a full window). Distinct = (scenario, workers, capacity mode, batch size, session bucket, faults, closes, latency mode, overlap bucket). Plus the 'drain-storm' family (case index >= 100000 = one round of 4-8 fresh servers run concurrently on oversubscribed GOMAXPROCS; per server 16-64 sessions blasting single-frame SEND writes at 1-2 workers with queue capacity 2..ample, 2-4 concurrent DrainSends callers released with the feeders or mid-run); a storm server is non-trivial when >=1 SEND write began before and ended after the drain call was announced; distinct = (workers, capacity, batch, session bucket, GOMAXPROCS, drainers).")
	r.Assume("Bytes of one connection are delivered by one goroutine (transport callback contract), which defines SEND arrival order; RECV issue order is one pusher goroutine per session.")
	r.Assume("A session counts as 'stayed open' only if its connection was never closed when checked at a quiescent point (feeders/pushers joined, DrainSends returned nil); every SEND delivered on such a session was accepted because a rejected SEND closes the session.")
	r.Assume("The gateway's own AsyncSendAdmissionObserver 'ok' events are trusted as the count of admitted SENDs for the global drain-completeness check.")

	nReg, nStorm := r.N(45, 2000), r.N(30, 800)                             // regular cases, storm rounds
	if v, err := strconv.Atoi(os.Getenv("VERIF_C28_REGULAR")); err == nil { // tuning knob only
		nReg = v
	}
	if v, err := strconv.Atoi(os.Getenv("VERIF_C28_STORM")); err == nil { // tuning knob only
		nStorm = v
	}
	prevProcs := runtime.GOMAXPROCS(0)
	defer runtime.GOMAXPROCS(prevProcs)
	// storm cases (index >= c28StormBase) are interleaved with the regular ones
	type c28Slot struct {
		idx   int
		storm bool
	}
	var order []c28Slot
	si, acc := 0, 0
	for i := 0; i < nReg; i++ {
		order = append(order, c28Slot{i, false})
		for acc += nStorm; acc >= nReg && si < nStorm; acc -= nReg {
			order = append(order, c28Slot{c28StormBase + si, true})
			si++
		}
	}
	for ; si < nStorm; si++ {
		order = append(order, c28Slot{c28StormBase + si, true})
	}
	for _, slot := range order {
		i := slot.idx
		if r.Skip(i) {
			continue
		}
		if slot.storm {
			// one storm round = several fresh servers stormed concurrently
			rrng := r.Rand(uint64(i), 0x5708)
			procs := max(8, runtime.NumCPU()*c28Pick(rrng, 1, 2, 4))
			k := 4 + rrng.IntN(5)
			r.BeginCase(i, fmt.Sprintf("drain-storm round: %d servers, GOMAXPROCS=%d", k, procs))
			runtime.GOMAXPROCS(procs)
			var wg sync.WaitGroup
			var aborted atomic.Bool
			for sub := 0; sub < k; sub++ {
				cfg := c28GenStorm(r, i, sub, procs)
				wg.Add(1)
				go func() {
					defer wg.Done()
					if c28RunCase(r, i, cfg) {
						aborted.Store(true)
					}
				}()
			}
			wg.Wait()
			r.Count("storm.rounds", 1)
			if aborted.Load() {
				return
			}
			continue
		}
		cfg := c28GenCfg(r, i)
		runtime.GOMAXPROCS(prevProcs)
		r.BeginCase(i, cfg.desc())
		started := time.Now()
		nv := r.NumViolations()
		if c28RunCase(r, i, cfg) {
			return
		}
		if r.NumViolations() > nv {
			t.Logf("violating case %d: %s", i, cfg.desc())
		}
		el := time.Since(started)
		r.Max("slowest_case_ms(wall, informational)", int(el.Milliseconds()))
		if el > 2*time.Second {
			t.Logf("slow case %d: %s (setup %s, run %s, final-drain %s, snapshot+stop %s, analyse %s): %s", i, el.Round(time.Millisecond),
				c28Phase[0].Round(time.Millisecond), c28Phase[1].Round(time.Millisecond), c28Phase[2].Round(time.Millisecond), c28Phase[3].Round(time.Millisecond), c28Phase[4].Round(time.Millisecond), cfg.desc())
		}
	}
}
