//go:build verif

package channelappend_test

// C29 unit "adapter": the same driver and oracle as unit "main", but the
// Group's Appender / IdempotencyStore ports are the REAL adapters of
// internal/infra/cluster (ChannelAppender, ChannelIdempotencyStore, incl.
// mapAppendError and the payload-hash comparison of LookupSend) placed over a
// fake cluster node that forwards to the c29Model store and speaks pkg/channel
// types and error sentinels.

import (
	"context"
	"errors"
	"fmt"
	"testing"

	infracluster "github.com/WuKongIM/WuKongIM/internal/infra/cluster"
	ca "github.com/WuKongIM/WuKongIM/internal/runtime/channelappend"
	channelruntime "github.com/WuKongIM/WuKongIM/pkg/channel"
	channelstore "github.com/WuKongIM/WuKongIM/pkg/channel/store"
)

type c29Node struct{ m *c29Model }

// c29ToChannelErr re-expresses a model error with the pkg/channel sentinel the
// real node would return, so that the real mapAppendError decides the class.
func c29ToChannelErr(err error) error {
	switch {
	case err == nil:
		return nil
	case errors.Is(err, context.Canceled), errors.Is(err, context.DeadlineExceeded):
		return err
	case errors.Is(err, ca.ErrNotLeader):
		return fmt.Errorf("%w: %s", channelruntime.ErrNotLeader, err.Error())
	case errors.Is(err, ca.ErrStaleRoute):
		return fmt.Errorf("%w: %s", channelruntime.ErrStaleMeta, err.Error())
	case errors.Is(err, ca.ErrRouteNotReady):
		return fmt.Errorf("%w: %s", channelruntime.ErrNotReady, err.Error())
	case errors.Is(err, ca.ErrBackpressured):
		return fmt.Errorf("%w: %s", channelruntime.ErrBackpressured, err.Error())
	case errors.Is(err, ca.ErrChannelNotFound):
		return fmt.Errorf("%w: %s", channelruntime.ErrChannelNotFound, err.Error())
	default:
		return errors.New("c29 node: " + err.Error()) // unknown -> ErrAppendFailed by the adapter
	}
}

func (n c29Node) AppendChannelBatch(ctx context.Context, req channelruntime.AppendBatchRequest) (channelruntime.AppendBatchResult, error) {
	in := ca.AppendBatchRequest{ChannelID: ca.ChannelID{ID: req.ChannelID.ID, Type: req.ChannelID.Type}, ExpectedEpoch: req.ExpectedChannelEpoch, ExpectedLeaderEpoch: req.ExpectedLeaderEpoch,
		Attempt: req.Attempt, OmitResultPayload: req.OmitResultPayload, ServerAllocatedMessageIDs: req.ServerAllocatedMessageIDs}
	for _, msg := range req.Messages {
		in.Messages = append(in.Messages, ca.Message{MessageID: msg.MessageID, ChannelID: msg.ChannelID, ChannelType: msg.ChannelType, FromUID: msg.FromUID, ClientMsgNo: msg.ClientMsgNo, Payload: msg.Payload, ServerTimestampMS: msg.ServerTimestampMS})
	}
	res, err := n.m.AppendBatch(ctx, in)
	if err != nil {
		return channelruntime.AppendBatchResult{}, c29ToChannelErr(err)
	}
	out := channelruntime.AppendBatchResult{}
	for _, it := range res.Items {
		out.Items = append(out.Items, channelruntime.AppendBatchItemResult{MessageID: it.MessageID, MessageSeq: it.MessageSeq,
			Message: channelruntime.Message{MessageID: it.Message.MessageID, MessageSeq: it.Message.MessageSeq, ChannelID: it.Message.ChannelID, ChannelType: it.Message.ChannelType, FromUID: it.Message.FromUID, ClientMsgNo: it.Message.ClientMsgNo, Payload: it.Message.Payload},
			Err:     c29ToChannelErr(it.Err)})
	}
	return out, nil
}

func (n c29Node) LookupChannelIdempotency(ctx context.Context, id channelruntime.ChannelID, fromUID, clientMsgNo string) (channelstore.IdempotencyHit, bool, error) {
	// PayloadHash 0 = "do not compare": the node returns the raw stored row and
	// its hash; the real ChannelIdempotencyStore performs the comparison.
	res, ok, err := n.m.LookupSend(ctx, ca.IdempotencyQuery{FromUID: fromUID, ClientMsgNo: clientMsgNo, ChannelID: id.ID, ChannelType: id.Type})
	if err != nil || !ok {
		return channelstore.IdempotencyHit{}, false, c29ToChannelErr(err)
	}
	hash := n.m.storedHash(ca.ChannelID{ID: id.ID, Type: id.Type}, res.MessageSeq)
	return channelstore.IdempotencyHit{Message: channelruntime.Message{MessageID: res.MessageID, MessageSeq: res.MessageSeq, ChannelID: id.ID, ChannelType: id.Type, FromUID: fromUID, ClientMsgNo: clientMsgNo}, PayloadHash: hash}, true, nil
}

func init() {
	c29PortsHook = func(m *c29Model) (ca.Appender, ca.IdempotencyStore) {
		node := c29Node{m: m}
		return infracluster.NewChannelAppender(node), infracluster.NewChannelIdempotencyStore(node)
	}
}

func TestVerifC29Adapter(t *testing.T) { c29Main(t, "adapter", 40, 400) }
