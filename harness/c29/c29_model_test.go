//go:build verif

package channelappend_test

// Shared fakes for the C29 / C41 harnesses: a per-channel sequential log model
// standing in for the durable channel store behind the channelappend Appender
// and IdempotencyStore ports, plus gates, a PersistAfter sink, an id allocator,
// an authorizer and a local-only authority resolver.
//
// The model mirrors the contract of the real storage (pkg/db/message append.go,
// internal/infra/cluster/{appender,idempotency,error_map}.go):
//   - one AppendBatch is atomic; records get consecutive 1-based sequences;
//   - a non-empty (FromUID, ClientMsgNo) key that is already stored, or that
//     occurs twice inside one request, rejects the WHOLE batch with an error
//     that maps to ErrAppendFailed (dberrors.ErrConflict -> default branch of
//     mapAppendError), independent of the payload;
//   - LookupSend returns the stored (id, seq) only when the query's payload
//     hash is zero or equals the stored FNV-64a hash, otherwise a miss.

import (
	"bytes"
	"context"
	"errors"
	"fmt"
	"hash/fnv"
	"math/rand/v2"
	"runtime"
	"sync"
	"sync/atomic"
	"time"

	ca "github.com/WuKongIM/WuKongIM/internal/runtime/channelappend"
	"github.com/WuKongIM/WuKongIM/pkg/verifkit"
)

func c29Hash(p []byte) uint64 {
	h := fnv.New64a()
	_, _ = h.Write(p)
	return h.Sum64()
}

// ---------------------------------------------------------------------------
// Gate: harness-controlled barrier.

type c29Gate struct {
	mu sync.Mutex
	ch chan struct{} // nil = open
}

func (g *c29Gate) Close() {
	g.mu.Lock()
	if g.ch == nil {
		g.ch = make(chan struct{})
	}
	g.mu.Unlock()
}

func (g *c29Gate) Open() {
	g.mu.Lock()
	if g.ch != nil {
		close(g.ch)
		g.ch = nil
	}
	g.mu.Unlock()
}

func (g *c29Gate) waitC() <-chan struct{} {
	g.mu.Lock()
	defer g.mu.Unlock()
	return g.ch
}

// ---------------------------------------------------------------------------
// Model.

type c29Record struct {
	Seq     uint64 `json:"seq"`
	ID      uint64 `json:"id"`
	From    string `json:"from"`
	No      string `json:"no"`
	Hash    uint64 `json:"hash"`
	Payload string `json:"payload"`
	Stamp   int64  `json:"stamp"`
	CallNo  int    `json:"call"`
}

type c29ChanModel struct {
	log         []c29Record
	idx         map[[2]string]int // (from, clientNo) -> index into log
	inflight    int
	maxInflight int
	// held is non-nil while one AppendBatch call of this channel is held back by
	// the reorder mode; it is closed when ANOTHER call of the channel finishes
	// (so the two calls return out of order) or by ReleaseLoneHolds.
	held     chan struct{}
	heldCall int
}

// c29Faults are per-call probabilities in permille.
type c29Faults struct {
	FailBefore int // batch error, nothing applied
	FailAfter  int // batch applied, then batch error (ambiguous)
	ItemErr    int // one item carries an item-local error and is not applied
	Short      int // batch applied, result vector truncated
	LookupErr  int // IdempotencyStore lookup error
	Latency    int // 0 none, 1 yields, 2 yields + short sleeps
}

const (
	c29FateOK = iota
	c29FateFailBefore
	c29FateFailAfter
	c29FateItemErr
	c29FateShort
)

var c29BatchErrClasses = []error{ca.ErrAppendFailed, ca.ErrAppendFailed, ca.ErrAppendFailed, ca.ErrNotLeader, ca.ErrStaleRoute, ca.ErrRouteNotReady, ca.ErrBackpressured, ca.ErrChannelNotFound}
var c29AmbiguousErrClasses = []error{ca.ErrAppendFailed, ca.ErrAppendFailed, ca.ErrNotLeader, ca.ErrBackpressured}
var c29ItemErrClasses = []error{ca.ErrChannelNotFound, ca.ErrNotLeader, errors.New("c29: injected item failure")}

var errC29Lookup = errors.New("c29: injected idempotency lookup failure")

type c29Model struct {
	clock *verifkit.Clock
	gate  *c29Gate

	mu       sync.Mutex
	rng      *rand.Rand
	chans    map[ca.ChannelID]*c29ChanModel
	faults   c29Faults
	faultsOn bool
	seen     map[string]int // payload -> number of times handed to AppendBatch
	cnt      map[string]int
	callNo   int
	bad      []string // malformed requests observed (reported by the oracle)

	ctxCancelled atomic.Int64 // AppendBatch calls whose context was cancelled while waiting

	// reorder (guarded by mu) is the permille of calls held back until a later
	// same-channel call has returned; only meaningful with more than one
	// in-flight batch per channel. 0 = off.
	reorder int
}

// SetReorder arms (permille > 0) or disarms (0) the out-of-order mode.
// Disarming releases every held call that has no in-flight companion; a held
// call with a companion is released by the companion's return.
func (m *c29Model) SetReorder(permille int) {
	m.mu.Lock()
	m.reorder = permille
	if permille == 0 {
		for _, ch := range m.chans {
			if ch.held != nil && ch.inflight <= 1 {
				close(ch.held)
				ch.held = nil
				m.cnt["append.reorder.lone_hold_released"]++
			}
		}
	}
	m.mu.Unlock()
}

// ReorderSnapshot returns the number of channels with a held call and, of
// those, the number with at least one companion call in flight.
func (m *c29Model) ReorderSnapshot() (held, pairs int) {
	m.mu.Lock()
	defer m.mu.Unlock()
	for _, ch := range m.chans {
		if ch.held != nil {
			held++
			if ch.inflight >= 2 {
				pairs++
			}
		}
	}
	return held, pairs
}

// InflightCalls returns the number of AppendBatch calls currently executing.
func (m *c29Model) InflightCalls() int {
	m.mu.Lock()
	defer m.mu.Unlock()
	n := 0
	for _, ch := range m.chans {
		n += ch.inflight
	}
	return n
}

func newC29Model(clock *verifkit.Clock, rng *rand.Rand, faults c29Faults) *c29Model {
	return &c29Model{clock: clock, gate: &c29Gate{}, rng: rng, chans: map[ca.ChannelID]*c29ChanModel{}, faults: faults, faultsOn: true, seen: map[string]int{}, cnt: map[string]int{}}
}

func (m *c29Model) chanLocked(id ca.ChannelID) *c29ChanModel {
	ch := m.chans[id]
	if ch == nil {
		ch = &c29ChanModel{idx: map[[2]string]int{}}
		m.chans[id] = ch
	}
	return ch
}

func (m *c29Model) SetFaults(on bool) {
	m.mu.Lock()
	m.faultsOn = on
	m.mu.Unlock()
}

func (m *c29Model) delay(kind, n int) {
	switch kind {
	case 1:
		for i := 0; i < n; i++ {
			runtime.Gosched()
		}
	case 2:
		if n%3 == 0 {
			time.Sleep(time.Duration(20+n*15) * time.Microsecond)
		} else {
			for i := 0; i < n; i++ {
				runtime.Gosched()
			}
		}
	}
}

// AppendBatch implements channelappend.Appender.
func (m *c29Model) AppendBatch(ctx context.Context, req ca.AppendBatchRequest) (ca.AppendBatchResult, error) {
	m.mu.Lock()
	m.callNo++
	callNo := m.callNo
	ch := m.chanLocked(req.ChannelID)
	ch.inflight++
	if ch.inflight > ch.maxInflight {
		ch.maxInflight = ch.inflight
	}
	m.cnt["append.calls"]++
	m.cnt["append.messages"] += len(req.Messages)
	if req.Attempt > 1 {
		m.cnt["append.calls.recovery_attempt"]++
	}
	fate, pre, post, lat := c29FateOK, 0, 0, 0
	var fateErr error
	victim := -1
	if m.faultsOn {
		f := m.faults
		lat = f.Latency
		pre, post = m.rng.IntN(6), m.rng.IntN(4)
		x := m.rng.IntN(1000)
		switch {
		case x < f.FailBefore:
			fate, fateErr = c29FateFailBefore, c29BatchErrClasses[m.rng.IntN(len(c29BatchErrClasses))]
		case x < f.FailBefore+f.FailAfter:
			fate, fateErr = c29FateFailAfter, c29AmbiguousErrClasses[m.rng.IntN(len(c29AmbiguousErrClasses))]
		case x < f.FailBefore+f.FailAfter+f.ItemErr && len(req.Messages) > 0:
			fate, fateErr = c29FateItemErr, c29ItemErrClasses[m.rng.IntN(len(c29ItemErrClasses))]
			victim = m.rng.IntN(len(req.Messages))
		case x < f.FailBefore+f.FailAfter+f.ItemErr+f.Short && len(req.Messages) > 1:
			fate = c29FateShort
			victim = 1 + m.rng.IntN(len(req.Messages)-1) // keep [0,victim)
		}
	}
	var heldC chan struct{}
	if m.reorder > 0 && ch.held == nil && m.rng.IntN(1000) < m.reorder {
		ch.held = make(chan struct{})
		ch.heldCall = callNo
		heldC = ch.held
		m.cnt["append.reorder.calls_held"]++
	}
	seenInReq := map[string]struct{}{}
	for _, msg := range req.Messages {
		p := string(msg.Payload)
		m.seen[p]++
		if msg.ClientMsgNo != "" {
			if _, dup := seenInReq[msg.FromUID+"\x00"+msg.ClientMsgNo+"\x00"+p]; dup {
				m.cnt["append.same_request_same_payload_duplicate"]++
			}
			seenInReq[msg.FromUID+"\x00"+msg.ClientMsgNo+"\x00"+p] = struct{}{}
		}
		if msg.MessageID == 0 || msg.FromUID == "" || msg.ChannelID != req.ChannelID.ID || msg.ChannelType != req.ChannelID.Type {
			if len(m.bad) < 8 {
				m.bad = append(m.bad, fmt.Sprintf("call %d: message id=%d from=%q channel=%s/%d in request for %s/%d", callNo, msg.MessageID, msg.FromUID, msg.ChannelID, msg.ChannelType, req.ChannelID.ID, req.ChannelID.Type))
			}
		}
	}
	m.mu.Unlock()

	finish := func() {
		m.mu.Lock()
		ch.inflight--
		if ch.held != nil && ch.heldCall != callNo {
			// a later same-channel call returns first: out-of-order pair
			close(ch.held)
			ch.held = nil
			m.cnt["append.reorder.out_of_order_pairs"]++
		} else if ch.held != nil && ch.heldCall == callNo {
			close(ch.held) // the held call itself ends (context cancelled)
			ch.held = nil
		}
		m.mu.Unlock()
	}

	if c := m.gate.waitC(); c != nil {
		m.mu.Lock()
		m.cnt["append.gated"]++
		m.mu.Unlock()
		select {
		case <-c:
		case <-ctx.Done():
			// A real appender honours its context: cancelling the runtime
			// context while work is admitted surfaces as a cancelled append.
			m.ctxCancelled.Add(1)
			finish()
			return ca.AppendBatchResult{}, ctx.Err()
		}
	}
	if heldC != nil {
		select {
		case <-heldC:
		case <-ctx.Done():
			m.ctxCancelled.Add(1)
			finish()
			return ca.AppendBatchResult{}, ctx.Err()
		}
	}
	m.delay(lat, pre)
	if err := ctx.Err(); err != nil {
		m.ctxCancelled.Add(1)
		finish()
		return ca.AppendBatchResult{}, err
	}

	m.mu.Lock()
	var res ca.AppendBatchResult
	var err error
	switch fate {
	case c29FateFailBefore:
		m.cnt["append.fate.fail_before"]++
		err = fmt.Errorf("%w: c29 injected before apply (call %d)", fateErr, callNo)
	default:
		items, conflict := m.applyLocked(ch, req, callNo, func() int {
			if fate == c29FateItemErr {
				return victim
			}
			return -1
		}())
		if conflict {
			m.cnt["append.conflict_rejected"]++
			err = fmt.Errorf("%w: c29 model: duplicate idempotency key (call %d)", ca.ErrAppendFailed, callNo)
			break
		}
		switch fate {
		case c29FateOK:
			m.cnt["append.fate.ok"]++
			res.Items = items
		case c29FateFailAfter:
			m.cnt["append.fate.fail_after_apply"]++
			err = fmt.Errorf("%w: c29 injected after apply (call %d)", fateErr, callNo)
		case c29FateItemErr:
			m.cnt["append.fate.item_error"]++
			items[victim] = ca.AppendBatchItemResult{Err: fmt.Errorf("%w: c29 injected item error", fateErr)}
			res.Items = items
		case c29FateShort:
			m.cnt["append.fate.short_result"]++
			res.Items = items[:victim]
		}
	}
	m.mu.Unlock()
	m.delay(lat, post)
	finish()
	return res, err
}

// applyLocked validates and applies one request atomically. skip is the index
// of a message that is not applied (item-local failure) or -1.
func (m *c29Model) applyLocked(ch *c29ChanModel, req ca.AppendBatchRequest, callNo int, skip int) ([]ca.AppendBatchItemResult, bool) {
	inBatch := map[[2]string]struct{}{}
	for i, msg := range req.Messages {
		if i == skip || msg.ClientMsgNo == "" {
			continue
		}
		k := [2]string{msg.FromUID, msg.ClientMsgNo}
		if _, ok := ch.idx[k]; ok {
			return nil, true
		}
		if _, ok := inBatch[k]; ok {
			return nil, true
		}
		inBatch[k] = struct{}{}
	}
	items := make([]ca.AppendBatchItemResult, len(req.Messages))
	for i, msg := range req.Messages {
		if i == skip {
			continue
		}
		rec := c29Record{Seq: uint64(len(ch.log) + 1), ID: msg.MessageID, From: msg.FromUID, No: msg.ClientMsgNo,
			Hash: c29Hash(msg.Payload), Payload: string(msg.Payload), Stamp: m.clock.Tick(), CallNo: callNo}
		ch.log = append(ch.log, rec)
		if msg.ClientMsgNo != "" {
			ch.idx[[2]string{msg.FromUID, msg.ClientMsgNo}] = len(ch.log) - 1
		}
		out := ca.Message{MessageID: rec.ID, MessageSeq: rec.Seq, ChannelID: msg.ChannelID, ChannelType: msg.ChannelType, FromUID: msg.FromUID, ClientMsgNo: msg.ClientMsgNo, ServerTimestampMS: msg.ServerTimestampMS}
		if !req.OmitResultPayload {
			out.Payload = bytes.Clone(msg.Payload)
		}
		items[i] = ca.AppendBatchItemResult{MessageID: rec.ID, MessageSeq: rec.Seq, Message: out}
		m.cnt["append.records"]++
	}
	return items, false
}

// LookupSend implements channelappend.IdempotencyStore over the same model.
func (m *c29Model) LookupSend(_ context.Context, q ca.IdempotencyQuery) (ca.SendResult, bool, error) {
	m.mu.Lock()
	defer m.mu.Unlock()
	m.cnt["lookup.calls"]++
	if q.FromUID == "" || q.ClientMsgNo == "" || q.ChannelID == "" || q.ChannelType == 0 {
		return ca.SendResult{}, false, nil
	}
	if m.faultsOn && m.faults.LookupErr > 0 && m.rng.IntN(1000) < m.faults.LookupErr {
		m.cnt["lookup.injected_error"]++
		return ca.SendResult{}, false, errC29Lookup
	}
	ch := m.chans[ca.ChannelID{ID: q.ChannelID, Type: q.ChannelType}]
	if ch == nil {
		m.cnt["lookup.miss"]++
		return ca.SendResult{}, false, nil
	}
	i, ok := ch.idx[[2]string{q.FromUID, q.ClientMsgNo}]
	if !ok {
		m.cnt["lookup.miss"]++
		return ca.SendResult{}, false, nil
	}
	rec := ch.log[i]
	if q.PayloadHash == 0 {
		m.cnt["lookup.query_without_hash"]++
	}
	if q.PayloadHash != 0 && q.PayloadHash != rec.Hash {
		m.cnt["lookup.hash_mismatch_miss"]++
		return ca.SendResult{}, false, nil
	}
	m.cnt["lookup.hit"]++
	return ca.SendResult{MessageID: rec.ID, MessageSeq: rec.Seq, Reason: ca.ReasonSuccess}, true, nil
}

// storedHash returns the payload hash persisted with the record at seq.
func (m *c29Model) storedHash(id ca.ChannelID, seq uint64) uint64 {
	m.mu.Lock()
	defer m.mu.Unlock()
	ch := m.chans[id]
	if ch == nil || seq == 0 || seq > uint64(len(ch.log)) {
		return 0
	}
	return ch.log[seq-1].Hash
}

// Snapshot returns copies for the oracle (call when the system is quiescent or
// accept a consistent-at-an-instant view).
func (m *c29Model) Snapshot() (map[ca.ChannelID][]c29Record, map[ca.ChannelID]int, map[string]int, map[string]int, []string) {
	m.mu.Lock()
	defer m.mu.Unlock()
	logs := map[ca.ChannelID][]c29Record{}
	maxIn := map[ca.ChannelID]int{}
	for id, ch := range m.chans {
		logs[id] = append([]c29Record(nil), ch.log...)
		maxIn[id] = ch.maxInflight
	}
	seen := make(map[string]int, len(m.seen))
	for k, v := range m.seen {
		seen[k] = v
	}
	cnt := make(map[string]int, len(m.cnt))
	for k, v := range m.cnt {
		cnt[k] = v
	}
	return logs, maxIn, seen, cnt, append([]string(nil), m.bad...)
}

// ---------------------------------------------------------------------------
// PersistAfter sink (post-commit effect).

type c29Env struct {
	ID      uint64
	Seq     uint64
	From    string
	No      string
	Payload string
	Stamp   int64
}

type c29PostCommit struct {
	clock *verifkit.Clock
	gate  *c29Gate
	lat   int

	mu      sync.Mutex
	perChan map[ca.ChannelID][]c29Env
	byID    map[uint64]int
	n       int
}

func newC29PostCommit(clock *verifkit.Clock, lat int) *c29PostCommit {
	return &c29PostCommit{clock: clock, gate: &c29Gate{}, lat: lat, perChan: map[ca.ChannelID][]c29Env{}, byID: map[uint64]int{}}
}

func (p *c29PostCommit) EnqueuePersistAfter(_ context.Context, e ca.CommittedEnvelope) {
	if c := p.gate.waitC(); c != nil {
		<-c
	}
	p.mu.Lock()
	p.n++
	n := p.n
	id := ca.ChannelID{ID: e.ChannelID, Type: e.ChannelType}
	p.perChan[id] = append(p.perChan[id], c29Env{ID: e.MessageID, Seq: e.MessageSeq, From: e.FromUID, No: e.ClientMsgNo, Payload: string(e.Payload), Stamp: p.clock.Tick()})
	p.byID[e.MessageID]++
	p.mu.Unlock()
	if p.lat > 0 && n%5 == 0 {
		runtime.Gosched()
	}
}

func (p *c29PostCommit) Snapshot() (map[ca.ChannelID][]c29Env, map[uint64]int) {
	p.mu.Lock()
	defer p.mu.Unlock()
	per := map[ca.ChannelID][]c29Env{}
	for k, v := range p.perChan {
		per[k] = append([]c29Env(nil), v...)
	}
	by := make(map[uint64]int, len(p.byID))
	for k, v := range p.byID {
		by[k] = v
	}
	return per, by
}

// ---------------------------------------------------------------------------
// Small ports.

type c29IDs struct{ n atomic.Uint64 }

func (a *c29IDs) Next() uint64 { return a.n.Add(1) }

type c29Auth struct{}

func (c29Auth) AuthorizeSend(_ context.Context, cmd ca.SendCommand) (ca.Decision, error) {
	if bytes.HasPrefix(cmd.Payload, []byte("DENY")) {
		return ca.Decision{Allowed: false, Reason: ca.ReasonNotAllowSend}, nil
	}
	return ca.Decision{Allowed: true, Reason: ca.ReasonSuccess}, nil
}

// c29Resolver resolves every channel to the local node; every flaky-th call
// fails with a retryable route error.
type c29Resolver struct {
	node  uint64
	flaky int64
	n     atomic.Int64
	late  *c29Late // optional: items to cancel / expire during the lookup
}

// c29Late is the registry of items that must lose their context or deadline
// while their batch is between the router's pre-route check and submitGroup.
type c29Late struct {
	mu        sync.Mutex
	cancels   map[ca.ChannelID][]context.CancelFunc
	deadlines map[ca.ChannelID]time.Time
	fired     atomic.Int64
}

func (l *c29Late) fire(id ca.ChannelID) {
	l.mu.Lock()
	cancels := l.cancels[id]
	delete(l.cancels, id)
	deadline, has := l.deadlines[id]
	delete(l.deadlines, id)
	l.mu.Unlock()
	for _, c := range cancels {
		c()
		l.fired.Add(1)
	}
	if has {
		if d := time.Until(deadline); d > 0 && d < 5*time.Millisecond {
			time.Sleep(d + 50*time.Microsecond) // let the registered deadline pass during the lookup
		}
		l.fired.Add(1)
	}
}

func (r *c29Resolver) ResolveAppendAuthority(_ context.Context, id ca.ChannelID) (ca.AuthorityTarget, error) {
	if r.late != nil {
		r.late.fire(id)
	}
	n := r.n.Add(1)
	if r.flaky > 0 && n%r.flaky == 0 {
		return ca.AuthorityTarget{}, ca.ErrRouteNotReady
	}
	return ca.AuthorityTarget{ChannelID: id, LeaderNodeID: r.node, Epoch: 3, LeaderEpoch: 2}, nil
}

// c29FutureDone reports, without blocking, whether the future is complete.
// Future.Wait selects between the done channel and ctx.Done(); with an already
// cancelled context and a completed future each call returns the results with
// probability 1/2, so 128 attempts miss a completed future with probability
// 2^-128; an incomplete future always yields the context error.
func c29FutureDone(f *ca.Future) ([]ca.SendBatchItemResult, bool) {
	for i := 0; i < 128; i++ {
		if res, err := f.Wait(c29CancelledCtx); err == nil {
			return res, true
		}
	}
	return nil, false
}

var c29CancelledCtx = func() context.Context {
	ctx, cancel := context.WithCancel(context.Background())
	cancel()
	return ctx
}()

func c29IsSuccess(res ca.SendBatchItemResult) bool {
	return res.Err == nil && res.Result.Reason == ca.ReasonSuccess
}

func c29ErrClass(res ca.SendBatchItemResult) string {
	if res.Err == nil {
		if res.Result.Reason == ca.ReasonSuccess {
			return "success"
		}
		return fmt.Sprintf("reason_%d", res.Result.Reason)
	}
	for _, e := range []struct {
		err  error
		name string
	}{{ca.ErrAppendFailed, "append_failed"}, {ca.ErrNotLeader, "not_leader"}, {ca.ErrStaleRoute, "stale_route"}, {ca.ErrRouteNotReady, "route_not_ready"},
		{ca.ErrBackpressured, "backpressured"}, {ca.ErrChannelBusy, "channel_busy"}, {ca.ErrChannelNotFound, "channel_not_found"},
		{ca.ErrAppendResultMissing, "append_result_missing"}, {context.Canceled, "ctx_canceled"}, {context.DeadlineExceeded, "ctx_deadline"}, {errC29Lookup, "lookup_error"}} {
		if errors.Is(res.Err, e.err) {
			return "err_" + e.name
		}
	}
	return "err_other"
}

// ---------------------------------------------------------------------------
// Workload records shared by the C29 and C41 drivers.

const (
	c29Normal = iota
	c29Keyless
	c29Invalid
	c29NoAuth
	c29Deny
	c29Cancelled
	c29Expired
)

var c29KindNames = []string{"normal", "keyless", "invalid", "noauth", "deny", "cancelled", "expired"}

type c29Item struct {
	Kind    int    `json:"kind"`
	Ch      int    `json:"ch"`
	From    string `json:"from"`
	No      string `json:"no"`
	Payload string `json:"payload"`
	// Late (router mode): 1 = the item's context is cancelled, 2 = its deadline
	// passes, while the batch is being routed (during the authority lookup or
	// while waiting for a router group slot), i.e. after the pre-route check.
	Late int `json:"late,omitempty"`
}

type c29Batch struct {
	Prod   int
	N      int
	Phase  int
	Call   int64
	Ret    int64
	DoneAt int64 // stamp taken when the results became known to the harness
	Items  []c29Item
	Res    []ca.SendBatchItemResult
	Err    error // SubmitLocal error (local mode)
	fut    *ca.Future
	Done   bool
	Fenced bool
	Emits  []int // router SendBatchEach emit counts (nil when SendBatch was used)
}

func c29KeyedPayload(ch int, from, no string, variant int) string {
	return fmt.Sprintf("ch%d|%s|%s|v%d", ch, from, no, variant)
}

func c29ResKeys(res []ca.SendBatchItemResult) []string {
	out := make([]string, len(res))
	for i, r := range res {
		out[i] = fmt.Sprintf("%d/%d/%d/%v", r.Result.MessageID, r.Result.MessageSeq, r.Result.Reason, r.Err)
	}
	return out
}

