//go:build verif

package channelappend_test

// C29 — Send results are aligned, ordered and idempotent.
//
// Each case ("run") builds a fresh channelappend.Group (+ Router in router
// mode) over the c29Model store, lets 2-16 producers submit PRNG batches with
// duplicate keys inside a batch, across concurrent batches and after failures,
// under injected append failures (before / after apply), item errors, short
// results, lookup errors, backpressure, gates and (in some runs) a Stop, and
// then judges the complete history against the model.

import (
	"context"
	"errors"
	"fmt"
	"math/rand/v2"
	"reflect"
	"sort"
	"sync"
	"sync/atomic"
	"testing"
	"time"

	ca "github.com/WuKongIM/WuKongIM/internal/runtime/channelappend"
	"github.com/WuKongIM/WuKongIM/pkg/verifkit"
)

type c29Cfg struct {
	Mode       string    `json:"mode"`
	Producers  int       `json:"producers"`
	Channels   int       `json:"channels"`
	Shards     int       `json:"shards"`
	Advance    int       `json:"advance"`
	Effect     int       `json:"effect"`
	AdmitCap   int       `json:"admit_cap"`
	Backlog    int       `json:"backlog"`
	Inflight   int       `json:"inflight"`
	Coalesce   int       `json:"coalesce"`
	PostCommit bool      `json:"post_commit"`
	Depth      int       `json:"depth"`
	Batches    int       `json:"batches"`
	MaxBatch   int       `json:"max_batch"`
	UIDs       int       `json:"uids"`
	Pool       int       `json:"pool"`
	StopAt     int       `json:"stop_at"`
	StopKind   int       `json:"stop_kind"`
	Faults     c29Faults `json:"faults"`
}

func c29GenCfg(rng *rand.Rand) c29Cfg {
	c := c29Cfg{Mode: "local"}
	if rng.IntN(100) < 35 {
		c.Mode = "router"
	}
	c.Producers = 2 + rng.IntN(15)
	c.Channels = 1 + rng.IntN(6)
	c.Shards = 1 + rng.IntN(4)
	c.Advance = 1 + rng.IntN(4)
	c.Effect = 1 + rng.IntN(4)
	if rng.IntN(3) == 0 {
		c.AdmitCap = 2 + rng.IntN(30)
	}
	if rng.IntN(3) == 0 {
		c.Backlog = 4 + rng.IntN(60)
	}
	if rng.IntN(100) < 20 {
		c.Inflight = 2 + rng.IntN(3)
		if c.Effect < 2 {
			c.Effect = 2
		}
	}
	c.Coalesce = []int{0, 0, -1, 1}[rng.IntN(4)]
	c.PostCommit = rng.IntN(100) < 60 || c.Inflight > 0
	c.Depth = 1 + rng.IntN(8)
	c.MaxBatch = 1 + rng.IntN(12)
	total := 500 + rng.IntN(1300)
	c.Batches = total / (c.Producers * (1 + c.MaxBatch) / 2)
	if c.Batches < 4 {
		c.Batches = 4
	}
	if c.Batches > 120 {
		c.Batches = 120
	}
	c.UIDs = 1 + rng.IntN(4)
	c.Pool = 3 + rng.IntN(20)
	c.StopAt = -1
	if rng.IntN(100) < 25 {
		c.StopAt = rng.IntN(c.Producers*c.Batches + 1)
		c.StopKind = rng.IntN(2)
	}
	c.Faults = c29Faults{FailBefore: rng.IntN(120), FailAfter: rng.IntN(120), ItemErr: rng.IntN(50), Short: rng.IntN(40), LookupErr: rng.IntN(60), Latency: rng.IntN(3)}
	if rng.IntN(6) == 0 {
		c.Faults = c29Faults{Latency: rng.IntN(3)}
	}
	return c
}

type c29Run struct {
	r     *verifkit.Run
	idx   int
	cfg   c29Cfg
	clock *verifkit.Clock
	model *c29Model
	pc    *c29PostCommit
	group *ca.Group
	rt    *ca.Router
	chans []ca.ChannelID

	mu        sync.Mutex
	batches   []*c29Batch
	submitted atomic.Int64
	stopCall  atomic.Int64 // stamp taken before the first Stop call (0 = none)
	stopRet   atomic.Int64 // stamp taken after the first Stop call returned
	stopNil   atomic.Int64 // stamp taken after a Stop returned nil
	stopOnce  sync.Once
	stopDone  chan struct{}
	uniq      atomic.Int64
	late      *c29Late
	leaks     map[int]int // per kind: unsendable items that reached the appender (one witness per run)
}

func (run *c29Run) target(ch int, fenced bool) ca.AuthorityTarget {
	return ca.AuthorityTarget{ChannelID: run.chans[ch], LeaderNodeID: 1, Epoch: 3, LeaderEpoch: 2, WriteFenced: fenced}
}

func (run *c29Run) toSend(it c29Item) ca.SendBatchItem {
	id := run.chans[it.Ch]
	item := ca.SendBatchItem{Context: context.Background(), Command: ca.SendCommand{FromUID: it.From, ClientMsgNo: it.No, ChannelID: id.ID, ChannelType: id.Type, Payload: []byte(it.Payload), ClientSeq: 7}}
	switch it.Kind {
	case c29Invalid:
		item.Command.Payload = nil
	case c29NoAuth:
		item.Command.FromUID = ""
	case c29Cancelled:
		item.Context = c29CancelledCtx
	case c29Expired:
		item.Deadline = time.Unix(1, 0)
	}
	if it.Late != 0 && run.late != nil {
		run.late.mu.Lock()
		if it.Late == 1 {
			ctx, cancel := context.WithCancel(context.Background())
			item.Context = ctx
			run.late.cancels[id] = append(run.late.cancels[id], cancel)
		} else {
			item.Deadline = time.Now().Add(time.Duration(300+run.uniq.Add(1)%7*200) * time.Microsecond)
			if cur, ok := run.late.deadlines[id]; !ok || item.Deadline.After(cur) {
				run.late.deadlines[id] = item.Deadline
			}
		}
		run.late.mu.Unlock()
	}
	return item
}

// c29Producer generates and submits one producer's batches.
type c29Producer struct {
	run     *c29Run
	id      int
	rng     *rand.Rand
	history [][]c29Item // per channel: keyed items this producer sent before
	retryQ  [][]c29Item // per channel: keyed items whose last result was a failure
	gateTTL int
}

func (p *c29Producer) genItem(ch int, batch []c29Item, n, i int) c29Item {
	run, rng := p.run, p.rng
	uid := func() string { return fmt.Sprintf("u%d", rng.IntN(run.cfg.UIDs)) }
	var keyedInBatch []c29Item
	for _, it := range batch {
		if it.Kind == c29Normal && it.Ch == ch {
			keyedInBatch = append(keyedInBatch, it)
		}
	}
	x := rng.IntN(100)
	switch {
	case x < 6 && len(keyedInBatch) > 0:
		return keyedInBatch[rng.IntN(len(keyedInBatch))] // same key, same payload, same batch
	case x < 9 && len(keyedInBatch) > 0:
		it := keyedInBatch[rng.IntN(len(keyedInBatch))]
		it.Payload = c29KeyedPayload(ch, it.From, it.No, 1+rng.IntN(3)) // same key, other payload, same batch
		return it
	case x < 24 && len(p.retryQ[ch]) > 0:
		q := p.retryQ[ch]
		it := q[0]
		p.retryQ[ch] = q[1:]
		return it
	case x < 34 && len(p.history[ch]) > 0:
		return p.history[ch][rng.IntN(len(p.history[ch]))]
	case x < 46:
		from, no := uid(), fmt.Sprintf("s%d", rng.IntN(run.cfg.Pool))
		variant := 0
		if rng.IntN(100) < 12 {
			variant = 1 + rng.IntN(3)
		}
		return c29Item{Kind: c29Normal, Ch: ch, From: from, No: no, Payload: c29KeyedPayload(ch, from, no, variant)}
	case x < 50:
		from := uid()
		return c29Item{Kind: c29Keyless, Ch: ch, From: from, Payload: fmt.Sprintf("ch%d|%s||u%d", ch, from, run.uniq.Add(1))}
	case x < 52:
		return c29Item{Kind: c29Invalid, Ch: ch, From: uid(), No: fmt.Sprintf("x%d", run.uniq.Add(1))}
	case x < 54:
		return c29Item{Kind: c29NoAuth, Ch: ch, No: fmt.Sprintf("x%d", run.uniq.Add(1)), Payload: fmt.Sprintf("ch%d|noauth|u%d", ch, run.uniq.Add(1))}
	case x < 57:
		return c29Item{Kind: c29Deny, Ch: ch, From: uid(), No: fmt.Sprintf("x%d", run.uniq.Add(1)), Payload: fmt.Sprintf("DENY|ch%d|u%d", ch, run.uniq.Add(1))}
	case x < 59:
		return c29Item{Kind: c29Cancelled, Ch: ch, From: uid(), No: fmt.Sprintf("x%d", run.uniq.Add(1)), Payload: fmt.Sprintf("ch%d|cancelled|u%d", ch, run.uniq.Add(1))}
	case x < 60:
		return c29Item{Kind: c29Expired, Ch: ch, From: uid(), No: fmt.Sprintf("x%d", run.uniq.Add(1)), Payload: fmt.Sprintf("ch%d|expired|u%d", ch, run.uniq.Add(1))}
	}
	from, no := uid(), fmt.Sprintf("p%db%di%d", p.id, n, i)
	return c29Item{Kind: c29Normal, Ch: ch, From: from, No: no, Payload: c29KeyedPayload(ch, from, no, 0)}
}

func (p *c29Producer) genBatch(n int) *c29Batch {
	run, rng := p.run, p.rng
	size := 1 + rng.IntN(run.cfg.MaxBatch)
	if rng.IntN(3) == 0 {
		size = 1 + rng.IntN(2)
	}
	b := &c29Batch{Prod: p.id, N: n, Phase: 1}
	ch := rng.IntN(run.cfg.Channels)
	if rng.IntN(3) == 0 {
		ch = 0 // hot channel
	}
	if rng.IntN(100) < 12 {
		// A burst of sends whose deadline has already passed (a client that
		// kept sending after its deadline), in front of the ordinary items.
		for k := 1 + rng.IntN(3); k > 0; k-- {
			u := run.uniq.Add(1)
			b.Items = append(b.Items, c29Item{Kind: c29Expired, Ch: ch, From: fmt.Sprintf("u%d", rng.IntN(run.cfg.UIDs)), No: fmt.Sprintf("x%d", u), Payload: fmt.Sprintf("ch%d|expired|u%d", ch, u)})
		}
	}
	for i := 0; i < size; i++ {
		c := ch
		if run.cfg.Mode == "router" && rng.IntN(2) == 0 {
			c = rng.IntN(run.cfg.Channels)
		}
		b.Items = append(b.Items, p.genItem(c, b.Items, n, i))
	}
	if run.cfg.Mode == "router" && rng.IntN(100) < 30 {
		p.markLate(b)
	}
	return b
}

// markLate chooses, per channel group of the batch with at least two items, a
// proper subset of its fresh keyed items (first, middle, several - never the
// whole group) that lose their context / deadline while the batch is routed.
func (p *c29Producer) markLate(b *c29Batch) {
	rng := p.rng
	variant := 1 + rng.IntN(2)
	groups := map[int][]int{}
	keys := map[string]int{}
	for _, it := range b.Items {
		keys[it.Payload]++
	}
	for i, it := range b.Items {
		groups[it.Ch] = append(groups[it.Ch], i)
	}
	for _, idxs := range groups {
		if len(idxs) < 2 {
			continue
		}
		marked := 0
		for pos, i := range idxs {
			it := b.Items[i]
			if it.Kind != c29Normal || len(it.No) == 0 || it.No[0] != 'p' || keys[it.Payload] != 1 {
				continue
			}
			if marked+1 >= len(idxs) { // never the whole group
				break
			}
			want := pos == 0 && rng.IntN(2) == 0 || pos > 0 && pos < len(idxs)-1 && rng.IntN(2) == 0 || rng.IntN(6) == 0
			if want {
				b.Items[i].Late = variant
				marked++
			}
		}
	}
}

func (p *c29Producer) absorb(b *c29Batch) {
	if !b.Done {
		return
	}
	for i, it := range b.Items {
		if it.Kind != c29Normal {
			continue
		}
		it.Late = 0 // a retry is an ordinary send
		if len(p.history[it.Ch]) < 64 {
			p.history[it.Ch] = append(p.history[it.Ch], it)
		} else {
			p.history[it.Ch][p.rng.IntN(64)] = it
		}
		if i < len(b.Res) && !c29IsSuccess(b.Res[i]) && p.rng.IntN(100) < 70 && len(p.retryQ[it.Ch]) < 64 {
			p.retryQ[it.Ch] = append(p.retryQ[it.Ch], it)
		}
	}
}

func (run *c29Run) record(b *c29Batch) {
	run.mu.Lock()
	run.batches = append(run.batches, b)
	run.mu.Unlock()
}

// submitLocal submits one single-channel batch through Group.SubmitLocal.
func (run *c29Run) submitLocal(b *c29Batch) {
	items := make([]ca.SendBatchItem, len(b.Items))
	for i, it := range b.Items {
		items[i] = run.toSend(it)
	}
	b.Call = run.clock.Tick()
	fut, err := run.group.SubmitLocal(context.Background(), run.target(b.Items[0].Ch, b.Fenced), items)
	b.Ret = run.clock.Tick()
	b.fut, b.Err = fut, err
	run.submitted.Add(1)
	run.record(b)
}

func (run *c29Run) await(b *c29Batch) {
	if b.fut == nil || b.Done {
		return
	}
	res, err := b.fut.Wait(context.Background())
	if err != nil {
		return
	}
	again, _ := b.fut.Wait(context.Background())
	if !reflect.DeepEqual(c29ResKeys(res), c29ResKeys(again)) {
		run.r.Violation("future-results-changed-between-waits", map[string]any{"run": run.idx, "cfg": run.cfg, "first": c29ResKeys(res), "second": c29ResKeys(again)})
	}
	b.Res, b.Done = res, true
	b.DoneAt = run.clock.Tick()
}

func (run *c29Run) submitRouter(b *c29Batch, each bool) {
	items := make([]ca.SendBatchItem, len(b.Items))
	for i, it := range b.Items {
		items[i] = run.toSend(it)
	}
	b.Call = run.clock.Tick()
	if each {
		b.Emits = make([]int, len(items))
		b.Res = make([]ca.SendBatchItemResult, len(items))
		var extra int
		run.rt.SendBatchEach(items, func(i int, res ca.SendBatchItemResult) {
			if i < 0 || i >= len(b.Res) {
				extra++
				return
			}
			b.Emits[i]++
			b.Res[i] = res
		})
		if extra > 0 {
			run.r.Violation("router-emit-index-out-of-range", map[string]any{"run": run.idx, "cfg": run.cfg, "extra": extra})
		}
	} else {
		b.Res = run.rt.SendBatch(items)
	}
	b.Ret = run.clock.Tick()
	b.DoneAt = b.Ret
	b.Done = true
	run.submitted.Add(1)
	run.record(b)
}

func (p *c29Producer) gateStep() {
	if p.gateTTL > 0 {
		p.gateTTL--
		if p.gateTTL == 0 {
			p.run.model.gate.Open()
		}
		return
	}
	if p.rng.IntN(100) < 8 {
		p.run.model.gate.Close()
		p.gateTTL = 1 + p.rng.IntN(5)
	}
}

func (p *c29Producer) gateRelease() {
	if p.gateTTL > 0 {
		p.gateTTL = 0
		p.run.model.gate.Open()
	}
}

func (p *c29Producer) runLocal() {
	run := p.run
	var outstanding []*c29Batch
	for n := 0; n < run.cfg.Batches; n++ {
		run.maybeStop()
		b := p.genBatch(n)
		if len(outstanding) >= run.cfg.Depth {
			p.gateRelease() // never block while holding the gate closed
			run.await(outstanding[0])
			p.absorb(outstanding[0])
			outstanding = outstanding[1:]
		}
		p.gateStep()
		run.submitLocal(b)
		if b.fut != nil {
			outstanding = append(outstanding, b)
		}
	}
	p.gateRelease()
	for _, b := range outstanding {
		run.await(b)
	}
}

func (p *c29Producer) runRouter() {
	run := p.run
	for n := 0; n < run.cfg.Batches; n++ {
		run.maybeStop()
		b := p.genBatch(n)
		run.submitRouter(b, p.rng.IntN(3) == 0)
		p.absorb(b)
	}
}

// maybeStop starts the (single) stopper when the global submission counter
// has reached the run's PRNG instant.
func (run *c29Run) maybeStop() {
	if run.cfg.StopAt < 0 || run.submitted.Load() < int64(run.cfg.StopAt) {
		return
	}
	run.stopOnce.Do(func() {
		go func() {
			defer close(run.stopDone)
			run.stopCall.Store(run.clock.Tick())
			if run.cfg.StopKind == 1 {
				err := run.group.Stop(c29CancelledCtx)
				run.stopRet.Store(run.clock.Tick())
				if err == nil {
					run.stopNil.Store(run.clock.Tick())
					return
				}
				run.r.Count("stop.expired_ctx_returned_error", 1)
			}
			err := run.group.Stop(context.Background())
			run.stopRet.CompareAndSwap(0, run.clock.Tick())
			if err != nil {
				run.r.Violation("stop-background-returned-error", map[string]any{"run": run.idx, "err": fmt.Sprint(err)})
				return
			}
			run.stopNil.Store(run.clock.Tick())
		}()
	})
}

// c29PortsHook, when set by a unit, wraps the model into the ports handed to
// the Group (the "adapter" unit routes them through the real
// internal/infra/cluster adapters).
var c29PortsHook func(*c29Model) (ca.Appender, ca.IdempotencyStore)

func TestVerifC29(t *testing.T) { c29Main(t, "main", 90, 1300) }

func c29Main(t *testing.T, unit string, quick, thorough int) {
	r := verifkit.Start(t, "C29", unit)
	defer r.Finish()
	r.SetRule("One case = one fresh channelappend.Group (+Router in router mode) over a sequential-log store model; config (mode, 2-16 producers, 1-6 channels, shards, pools, admission/backlog limits, coalescing, in-flight limit, post-commit sink, pipeline depth, fault rates, optional Stop instant) and every producer's batch plan are PRNG functions of (seed, case). Non-trivial = the run contained an in-batch duplicate key, a retry of a send whose earlier attempt was applied by the store but reported as failed (ambiguous), and at least two producers with applied records on one channel. Distinct = (mode, producers, channels, in-flight limit, stop kind, log2 buckets of duplicates / recoveries / conflicts / records).")
	r.Assume("The store model reproduces the real storage contract: atomic batch, consecutive sequences, duplicate (FromUID, ClientMsgNo) rejects the whole batch with an ErrAppendFailed-class error, lookup compares the FNV-64a payload hash when the query carries one.")
	r.Assume("Submission order between two sends is taken as defined only when they are in the same batch (same channel), or the earlier batch's SubmitLocal/SendBatch call returned before the later one was invoked (logical clock).")

	nRuns := r.N(quick, thorough)
	for i := 0; i < nRuns; i++ {
		if r.Skip(i) {
			continue
		}
		rng := r.Rand(29, uint64(i))
		cfg := c29GenCfg(rng)
		r.BeginCase(i, fmt.Sprintf("%+v", cfg))
		run := &c29Run{r: r, idx: i, cfg: cfg, clock: &verifkit.Clock{}, stopDone: make(chan struct{}), leaks: map[int]int{}}
		ok := verifkit.Watchdog(240*time.Second, func() { run.execute(rng) })
		if !ok {
			r.Inconclusive(fmt.Sprintf("case %d: watchdog (240s) expired before the run finished; cfg=%+v", i, cfg))
			r.Count("runs.watchdog", 1)
			// The run's goroutines are leaked; its gates are opened so they can drain.
			run.model.gate.Open()
			if run.pc != nil {
				run.pc.gate.Open()
			}
			continue
		}
	}
}

func (run *c29Run) execute(rng *rand.Rand) {
	r, cfg := run.r, run.cfg
	run.model = newC29Model(run.clock, r.Rand(29, uint64(run.idx), 1), cfg.Faults)
	for c := 0; c < cfg.Channels; c++ {
		run.chans = append(run.chans, ca.ChannelID{ID: fmt.Sprintf("c29r%dch%d", run.idx, c), Type: 2})
	}
	var appender ca.Appender = run.model
	var idem ca.IdempotencyStore = run.model
	if c29PortsHook != nil {
		appender, idem = c29PortsHook(run.model)
	}
	opts := ca.Options{LocalNodeID: 1, Appender: appender, Idempotency: idem, MessageID: &c29IDs{}, Authorizer: c29Auth{},
		AuthorityShardCount: cfg.Shards, AdvancePoolSize: cfg.Advance, EffectPoolSize: cfg.Effect,
		AdmissionCapacityPerShard: cfg.AdmitCap, ChannelBacklogHighWatermark: cfg.Backlog, AppendInflightBatchesPerChannel: cfg.Inflight}
	switch cfg.Coalesce {
	case -1:
		opts.InboxCoalesceWindow = -1
	case 1:
		opts.InboxCoalesceWindow = time.Millisecond
		opts.InboxCoalesceMaxItems = 64
	}
	if cfg.PostCommit {
		run.pc = newC29PostCommit(run.clock, cfg.Faults.Latency)
		opts.PersistAfterEnqueuer = run.pc
	}
	opts.MessageID.(*c29IDs).n.Store(uint64(1000 + rng.IntN(1_000_000)))
	run.group = ca.New(opts)
	if err := run.group.Start(context.Background()); err != nil {
		r.Inconclusive(fmt.Sprintf("case %d: Start: %v", run.idx, err))
		return
	}
	if cfg.Mode == "router" {
		run.late = &c29Late{cancels: map[ca.ChannelID][]context.CancelFunc{}, deadlines: map[ca.ChannelID]time.Time{}}
		ropts := ca.RouterOptions{LocalNodeID: 1, Resolver: &c29Resolver{node: 1, flaky: int64(17 + rng.IntN(40)), late: run.late}, Local: run.group,
			RetryBackoff: 100 * time.Microsecond, MaxRouteAttempts: 3, MaxConcurrentGroupsPerBatch: 1 + rng.IntN(4)}
		if rng.IntN(3) == 0 {
			ropts.MaxConcurrentGroups = 1 + rng.IntN(3) // group-slot backpressure: deadlines pass while waiting for a slot
		}
		run.rt = ca.NewRouter(ropts)
	}

	// Phase 1: concurrent producers under faults.
	var wg sync.WaitGroup
	pulseStop := make(chan struct{})
	var pulseWG sync.WaitGroup
	if cfg.Mode == "router" {
		// SendBatch is synchronous, so a producer cannot hold the gate across its
		// own call; a pulser closes it for short periods instead (schedule noise
		// only, no oracle depends on it).
		pulseWG.Add(1)
		prng := r.Rand(29, uint64(run.idx), 2)
		go func() {
			defer pulseWG.Done()
			for {
				select {
				case <-pulseStop:
					run.model.gate.Open()
					return
				default:
				}
				time.Sleep(time.Duration(100+prng.IntN(1500)) * time.Microsecond)
				run.model.gate.Close()
				time.Sleep(time.Duration(50+prng.IntN(800)) * time.Microsecond)
				run.model.gate.Open()
			}
		}()
	}
	producers := make([]*c29Producer, cfg.Producers)
	for p := 0; p < cfg.Producers; p++ {
		prod := &c29Producer{run: run, id: p, rng: r.Rand(29, uint64(run.idx), 100+uint64(p)), history: make([][]c29Item, cfg.Channels), retryQ: make([][]c29Item, cfg.Channels)}
		producers[p] = prod
		wg.Add(1)
		go func() {
			defer wg.Done()
			if cfg.Mode == "router" {
				prod.runRouter()
			} else {
				prod.runLocal()
			}
		}()
	}
	wg.Wait()
	close(pulseStop)
	pulseWG.Wait()
	run.model.gate.Open()
	stopped := false
	if run.stopCall.Load() != 0 {
		<-run.stopDone
		stopped = true
	}

	// Phase 2 (only when the group is still running): faults off, one quiet
	// sequential producer re-sends every keyed logical send whose key is stored.
	run.model.SetFaults(false)
	if !stopped {
		run.phase2(rng)
		if err := run.group.Stop(context.Background()); err != nil {
			r.Violation("stop-background-returned-error", map[string]any{"run": run.idx, "err": fmt.Sprint(err)})
		}
		run.stopNil.CompareAndSwap(0, run.clock.Tick())
	}
	// After a nil Stop nothing is admitted any more.
	probe := &c29Batch{Prod: -1, Phase: 3, Items: []c29Item{{Kind: c29Normal, Ch: 0, From: "u0", No: "after-stop", Payload: c29KeyedPayload(0, "u0", "after-stop", 0)}}}
	run.submitLocal(probe) // judged with all other batches (admitted-after-stop-returned-nil)
	if probe.Err != nil && !errors.Is(probe.Err, ca.ErrRouteNotReady) {
		r.Count("after_stop.reject_other_error", 1)
	}
	run.judge(stopped)
}

func (run *c29Run) phase2(rng *rand.Rand) {
	cfg := run.cfg
	logs, _, _, _, _ := run.model.Snapshot()
	run.mu.Lock()
	all := append([]*c29Batch(nil), run.batches...)
	run.mu.Unlock()
	perCh := make([][]c29Item, cfg.Channels)
	seen := map[string]struct{}{}
	storedKeys := map[string]struct{}{}
	for c, id := range run.chans {
		for _, rec := range logs[id] {
			if rec.No != "" {
				storedKeys[fmt.Sprintf("%d|%s|%s", c, rec.From, rec.No)] = struct{}{}
			}
		}
	}
	for _, b := range all {
		for _, it := range b.Items {
			if it.Kind != c29Normal {
				continue
			}
			it.Late = 0
			k := fmt.Sprintf("%d|%s", it.Ch, it.Payload)
			if _, ok := seen[k]; ok {
				continue
			}
			seen[k] = struct{}{}
			if _, stored := storedKeys[fmt.Sprintf("%d|%s|%s", it.Ch, it.From, it.No)]; stored {
				perCh[it.Ch] = append(perCh[it.Ch], it)
			}
		}
	}
	maxB := 6
	if cfg.Backlog > 0 && cfg.Backlog < maxB {
		maxB = cfg.Backlog
	}
	n := 0
	for ch, items := range perCh {
		rng.Shuffle(len(items), func(i, j int) { items[i], items[j] = items[j], items[i] })
		if len(items) > 400 {
			items = items[:400]
		}
		for len(items) > 0 {
			k := 1 + rng.IntN(maxB)
			if k > len(items) {
				k = len(items)
			}
			b := &c29Batch{Prod: -2, N: n, Phase: 2, Items: append([]c29Item(nil), items[:k]...), Fenced: rng.IntN(4) == 0}
			items = items[k:]
			n++
			if cfg.Mode == "router" && rng.IntN(2) == 0 {
				run.submitRouter(b, false)
			} else {
				run.submitLocal(b)
				run.await(b)
			}
			_ = ch
		}
	}
}

// ---------------------------------------------------------------------------
// Oracle.

type c29Sub struct {
	b *c29Batch
	i int
}

type c29Logical struct {
	ch      int
	keyed   bool
	from    string
	no      string
	payload string
	subs    []c29Sub
	rec     *c29Record // the unique stored record of this logical send (nil if none or ambiguous)
	nrec    int
	pcStamp int64
	npc     int
}

func c29Precedes(x, y c29Sub) bool {
	if x.b == y.b {
		return x.i < y.i
	}
	return x.b.Ret < y.b.Call
}

func (run *c29Run) witness(b *c29Batch, i int, extra map[string]any) map[string]any {
	w := map[string]any{"run": run.idx, "cfg": run.cfg, "producer": b.Prod, "batch": b.N, "phase": b.Phase, "index": i, "call": b.Call, "ret": b.Ret, "items": b.Items}
	if b.Done {
		w["results"] = c29ResKeys(b.Res)
	}
	for k, v := range extra {
		w[k] = v
	}
	return w
}

func (run *c29Run) judge(stopped bool) {
	r, cfg := run.r, run.cfg
	logs, maxIn, seen, cnt, bad := run.model.Snapshot()
	run.mu.Lock()
	batches := append([]*c29Batch(nil), run.batches...)
	run.mu.Unlock()
	for k, v := range cnt {
		r.Count(k, v)
	}
	for _, b := range bad {
		r.Violation("appender-received-malformed-message", map[string]any{"run": run.idx, "cfg": cfg, "what": b})
	}
	for id, n := range maxIn {
		r.Max("append.max_concurrent_calls_one_channel", n)
		if cfg.Inflight == 0 && n > 1 {
			r.Count("append.concurrent_calls_one_channel_default_config", 1)
		}
		_ = id
	}

	// Store sanity: one record per key, consecutive sequences.
	keyIdx := map[ca.ChannelID]map[[2]string]int{}
	for id, log := range logs {
		keys := map[[2]string]int{}
		keyIdx[id] = map[[2]string]int{}
		for i, rec := range log {
			if rec.No != "" {
				if _, ok := keyIdx[id][[2]string{rec.From, rec.No}]; !ok {
					keyIdx[id][[2]string{rec.From, rec.No}] = i
				}
			}
			if rec.Seq != uint64(i+1) {
				r.Inconclusive(fmt.Sprintf("case %d: model log of %v not consecutive", run.idx, id))
			}
			if rec.No != "" {
				keys[[2]string{rec.From, rec.No}]++
			}
		}
		for k, n := range keys {
			if n != 1 {
				r.Violation("store-holds-several-records-for-one-key", map[string]any{"run": run.idx, "cfg": cfg, "channel": id, "key": k, "records": n})
			}
		}
	}

	logical := make([]map[string]*c29Logical, cfg.Channels)
	for c := range logical {
		logical[c] = map[string]*c29Logical{}
	}
	dupInBatch, ambiguousRetries, hung := 0, 0, 0
	stopRet, stopNil := run.stopRet.Load(), run.stopNil.Load()

	for _, b := range batches {
		// ---- alignment: one result per item, in position.
		if b.fut != nil && !b.Done {
			hung++
			continue
		}
		if b.Err != nil {
			r.Count("submit.rejected."+c29ErrClass(ca.SendBatchItemResult{Err: b.Err}), 1)
			if b.fut != nil {
				r.Violation("submitlocal-returned-future-and-error", run.witness(b, -1, nil))
			}
		}
		if b.Err == nil && b.fut == nil && b.Emits == nil && !b.Done {
			r.Violation("submitlocal-returned-neither-future-nor-error", run.witness(b, -1, nil))
			continue
		}
		if b.Done && len(b.Res) != len(b.Items) {
			r.Violation("result-count-differs-from-item-count", run.witness(b, -1, map[string]any{"results_len": len(b.Res)}))
			continue
		}
		if b.Emits != nil {
			for i, n := range b.Emits {
				if n != 1 {
					r.Violation("router-emitted-item-result-not-exactly-once", run.witness(b, i, map[string]any{"emits": b.Emits}))
				}
			}
		}
		if stopNil != 0 && b.Call > stopNil && b.Err == nil && b.fut != nil {
			r.Violation("admitted-after-stop-returned-nil", run.witness(b, -1, nil))
		}
		if stopRet != 0 && b.Call > stopRet && b.fut != nil {
			r.Count("c41.admitted_after_stop_call_returned", 1) // judged by C41
		}
		inBatchKeys := map[string]int{}
		for i, it := range b.Items {
			if it.Kind == c29Normal {
				inBatchKeys[fmt.Sprintf("%d|%s|%s", it.Ch, it.From, it.No)]++
			}
			if it.Kind == c29Normal || it.Kind == c29Keyless {
				l := logical[it.Ch][it.Payload]
				if l == nil {
					l = &c29Logical{ch: it.Ch, keyed: it.Kind == c29Normal, from: it.From, no: it.No, payload: it.Payload}
					logical[it.Ch][it.Payload] = l
				}
				l.subs = append(l.subs, c29Sub{b, i})
			}
			if !b.Done {
				continue
			}
			res := b.Res[i]
			r.Eval(1)
			r.Count("result."+c29KindNames[it.Kind]+"."+c29ErrClass(res), 1)
			if it.Late != 0 {
				r.Count(fmt.Sprintf("router_late.variant%d.%s", it.Late, c29ErrClass(res)), 1)
			}
			run.judgeItem(b, i, it, res, logs, keyIdx, seen)
		}
		for _, n := range inBatchKeys {
			if n > 1 {
				dupInBatch++
			}
		}
	}
	if hung > 0 {
		r.Inconclusive(fmt.Sprintf("case %d: %d admitted batches had no result when the run ended", run.idx, hung))
		return
	}

	// ---- bind logical sends to their stored record and post-commit envelope.
	var pcs map[ca.ChannelID][]c29Env
	if run.pc != nil {
		var byID map[uint64]int
		pcs, byID = run.pc.Snapshot()
		for _, n := range byID {
			if n > 1 {
				r.Count("postcommit.envelope_delivered_more_than_once", 1)
			}
		}
	}
	producersWithRecords := make([]map[int]struct{}, cfg.Channels)
	for c := 0; c < cfg.Channels; c++ {
		producersWithRecords[c] = map[int]struct{}{}
		byPayload := map[string][]int{}
		log := logs[run.chans[c]]
		for i, rec := range log {
			byPayload[rec.Payload] = append(byPayload[rec.Payload], i)
		}
		for _, l := range logical[c] {
			ids := byPayload[l.payload]
			l.nrec = len(ids)
			if len(ids) == 1 {
				l.rec = &log[ids[0]]
			}
			for _, s := range l.subs {
				if l.nrec > 0 {
					producersWithRecords[c][s.b.Prod] = struct{}{}
				}
			}
			if l.keyed && l.rec != nil {
				// ambiguous retry: an earlier submission finished with a failure
				// although the store holds the record, and a later one exists.
				failedDone := int64(-1)
				for _, s := range l.subs {
					if s.b.Done && !c29IsSuccess(s.b.Res[s.i]) && s.b.DoneAt > l.rec.Stamp && (failedDone < 0 || s.b.DoneAt < failedDone) {
						failedDone = s.b.DoneAt
					}
				}
				if failedDone >= 0 {
					for _, s := range l.subs {
						if s.b.Phase == 1 && s.b.Call > failedDone && s.b.Done && c29IsSuccess(s.b.Res[s.i]) {
							ambiguousRetries++
							break
						}
					}
				}
			}
		}
		for _, env := range pcs[run.chans[c]] {
			if l := logical[c][env.Payload]; l != nil {
				l.npc++
				l.pcStamp = env.Stamp
			}
		}
	}
	r.Count("dup.in_batch_keys", dupInBatch)
	r.Count("retry.success_after_ambiguous_failure", ambiguousRetries)

	// ---- order.
	pairs := 0
	for c := 0; c < cfg.Channels; c++ {
		ls := make([]*c29Logical, 0, len(logical[c]))
		for _, l := range logical[c] {
			if l.rec != nil {
				ls = append(ls, l)
			}
		}
		sort.Slice(ls, func(i, j int) bool { return ls[i].rec.Seq < ls[j].rec.Seq })
		for _, l1 := range ls {
			for _, l2 := range ls {
				if l1 == l2 {
					continue
				}
				all := true // every submission of l1 precedes every submission of l2
				var okWitness *c29Sub
				for i := range l1.subs {
					x := l1.subs[i]
					xAll := true
					for _, y := range l2.subs {
						if !c29Precedes(x, y) {
							xAll = false
							break
						}
					}
					if !xAll {
						all = false
					} else if okWitness == nil && x.b.Done && c29IsSuccess(x.b.Res[x.i]) && x.b.Res[x.i].Result.MessageSeq == l1.rec.Seq {
						xx := x
						okWitness = &xx
					}
				}
				if cfg.Inflight == 0 && (all || okWitness != nil) {
					pairs++
					if !(l1.rec.Seq < l2.rec.Seq) {
						x := l1.subs[0]
						if okWitness != nil {
							x = *okWitness
						}
						y := l2.subs[0]
						r.Violation("sequence-not-increasing-in-submission-order", map[string]any{"run": run.idx, "cfg": cfg, "channel": c,
							"earlier": map[string]any{"payload": l1.payload, "seq": l1.rec.Seq, "producer": x.b.Prod, "batch": x.b.N, "index": x.i, "call": x.b.Call, "ret": x.b.Ret, "submissions": len(l1.subs)},
							"later":   map[string]any{"payload": l2.payload, "seq": l2.rec.Seq, "producer": y.b.Prod, "batch": y.b.N, "index": y.i, "call": y.b.Call, "ret": y.b.Ret, "submissions": len(l2.subs)},
							"rule":    map[string]any{"all_earlier_submissions_precede": all, "successful_earlier_submission_precedes": okWitness != nil}})
					}
				}
				// Post-commit handoff order (FLOW.md: completions are drained in
				// append order so SENDACK and post-commit handoff stay in submission
				// order even with several in-flight batches).
				if all && l1.npc == 1 && l2.npc == 1 {
					r.Count("postcommit.order_pairs_checked", 1)
					if !(l1.pcStamp < l2.pcStamp) {
						r.Violation("post-commit-handoff-not-in-submission-order", map[string]any{"run": run.idx, "cfg": cfg, "channel": c,
							"earlier": map[string]any{"payload": l1.payload, "seq": l1.rec.Seq, "handoff_stamp": l1.pcStamp},
							"later":   map[string]any{"payload": l2.payload, "seq": l2.rec.Seq, "handoff_stamp": l2.pcStamp}})
					}
				}
			}
		}
	}
	r.Count("order.pairs_checked", pairs)

	multi := 0
	for c := range producersWithRecords {
		if len(producersWithRecords[c]) >= 2 {
			multi++
		}
	}
	if run.late != nil {
		r.Count("router_late.cancels_or_deadlines_fired_during_lookup", int(run.late.fired.Load()))
	}
	r.Count("runs.finished", 1)
	if stopped {
		r.Count("runs.with_mid_run_stop", 1)
	}
	if dupInBatch > 0 && ambiguousRetries > 0 && multi > 0 {
		lg := func(n int) int {
			b := 0
			for n > 0 {
				b++
				n >>= 1
			}
			return b
		}
		stopKind := -1
		if cfg.StopAt >= 0 {
			stopKind = cfg.StopKind
		}
		r.Nontrivial(fmt.Sprintf("%s/p%d/c%d/in%d/stop%d/d%d/a%d/x%d/r%d", cfg.Mode, cfg.Producers, cfg.Channels, cfg.Inflight, stopKind,
			lg(dupInBatch), lg(ambiguousRetries), lg(cnt["append.conflict_rejected"]), lg(cnt["append.records"])))
	}
	if r.WantSample() {
		r.Sample(map[string]any{"run": run.idx, "cfg": cfg, "batches": len(batches), "records": cnt["append.records"], "dup_in_batch": dupInBatch, "ambiguous_retries": ambiguousRetries, "order_pairs": pairs, "first_batch": batches[0].Items, "first_results": c29ResKeys(batches[0].Res)})
	}
}

// judgeItem checks one item-aligned result against the item and the store.
func (run *c29Run) judgeItem(b *c29Batch, i int, it c29Item, res ca.SendBatchItemResult, logs map[ca.ChannelID][]c29Record, keyIdx map[ca.ChannelID]map[[2]string]int, seen map[string]int) {
	r := run.r
	local := b.Emits == nil && b.fut != nil
	switch it.Kind {
	case c29Invalid, c29NoAuth, c29Deny, c29Cancelled, c29Expired:
		if c29IsSuccess(res) {
			r.Violation("success-result-for-unsendable-item:"+c29KindNames[it.Kind], run.witness(b, i, nil))
			return
		}
		if it.Payload != "" && seen[it.Payload] > 0 {
			// The item was reported as not sent (expired / cancelled / denied
			// before submission) and yet was handed to the Appender port.
			storedAt := uint64(0)
			for _, rec := range logs[run.chans[it.Ch]] {
				if rec.Payload == it.Payload {
					storedAt = rec.Seq
				}
			}
			run.leaks[it.Kind]++
			if run.leaks[it.Kind] > 1 {
				r.Count("unsendable_item_reached_appender.more_in_same_run", 1)
				return
			}
			r.Violation("unsendable-item-reached-appender:"+c29KindNames[it.Kind], run.witness(b, i, map[string]any{"appender_calls_with_item": seen[it.Payload], "stored_at_seq": storedAt, "result_class": c29ErrClass(res)}))
		}
		okClass := true
		switch it.Kind {
		case c29Invalid:
			okClass = res.Err == nil && res.Result.Reason == ca.ReasonInvalidRequest
		case c29NoAuth:
			okClass = res.Err == nil && res.Result.Reason == ca.ReasonAuthFail
		case c29Deny:
			okClass = (res.Err == nil && res.Result.Reason == ca.ReasonNotAllowSend) || (!local && res.Err != nil)
		case c29Cancelled:
			okClass = errors.Is(res.Err, context.Canceled)
		case c29Expired:
			okClass = res.Err != nil
		}
		if !okClass {
			r.Violation("result-does-not-describe-its-item:"+c29KindNames[it.Kind], run.witness(b, i, nil))
		}
		return
	}
	log := logs[run.chans[it.Ch]]
	stored := -1
	if it.Kind == c29Normal {
		if j, ok := keyIdx[run.chans[it.Ch]][[2]string{it.From, it.No}]; ok {
			stored = j
		}
	}
	if !c29IsSuccess(res) {
		if b.Phase == 2 && stored >= 0 && log[stored].Payload == it.Payload {
			// quiet phase, no injected faults: a retry of a stored send must
			// return the original id and sequence.
			r.Violation("retry-of-stored-send-did-not-return-original", run.witness(b, i, map[string]any{"stored": log[stored], "class": c29ErrClass(res)}))
		}
		return
	}
	seq, id := res.Result.MessageSeq, res.Result.MessageID
	if seq == 0 || id == 0 {
		r.Violation("success-without-id-or-sequence", run.witness(b, i, nil))
		return
	}
	if seq > uint64(len(log)) {
		r.Violation("success-sequence-not-in-store", run.witness(b, i, map[string]any{"store_len": len(log)}))
		return
	}
	rec := log[seq-1]
	switch {
	case rec.Payload == it.Payload && rec.ID == id:
		if b.Phase == 2 {
			r.Count("phase2.retry_returned_original", 1)
		}
	case rec.Payload == it.Payload:
		r.Violation("success-id-differs-from-stored-message", run.witness(b, i, map[string]any{"stored": rec}))
	case it.Kind == c29Normal && rec.From == it.From && rec.No == it.No:
		r.Violation("reused-key-with-different-payload-succeeded", run.witness(b, i, map[string]any{"stored": rec}))
	default:
		r.Violation("success-result-describes-another-item", run.witness(b, i, map[string]any{"stored": rec}))
	}
	if it.Kind == c29Normal && stored >= 0 && log[stored].Payload != it.Payload && b.Phase == 2 {
		r.Count("phase2.reuse_other_payload_success", 1) // already a violation above
	}
}
